(* Log/ProofsWriter.v — block arithmetic and the layout the writer produces:
   every successful append adds  [zero padding up to the boundary] ++ (whole frame | first frame ++
   padding ++ second frame)  to the file; a failing append adds at most the padding; the writer never
   panics and never runs out of fuel. *)
From Coq Require Import NArith ZArith List Bool Lia Arith PeanoNat.
From Blue Require Import Gen.Const_Log Log.ModelWire Log.Model Log.ProofsWire.
Import ListNotations.
Open Scope N_scope.

Ltac Zify.zify_post_hook ::= Z.to_euclidean_division_equations.

Arguments N.add : simpl never.
Arguments N.sub : simpl never.
Arguments N.mul : simpl never.
Arguments N.div : simpl never.
Arguments N.modulo : simpl never.
Arguments N.leb : simpl never.
Arguments N.ltb : simpl never.
Arguments N.eqb : simpl never.
Arguments N.pred : simpl never.
Arguments N.of_nat : simpl never.
Arguments N.to_nat : simpl never.
Arguments N.shiftl : simpl never.
Arguments N.shiftr : simpl never.
Arguments N.pow : simpl never.

Definition zeros (k : N) : list N := repeat 0 (N.to_nat k).

Lemma len_zeros : forall k, len (zeros k) = k.
Proof. intros. unfold zeros. rewrite len_repeat. lia. Qed.

Lemma zeros_0 : zeros 0 = [].
Proof. reflexivity. Qed.

Lemma zeros_succ : forall k, zeros (1 + k) = 0 :: zeros k.
Proof. intros k. unfold zeros. replace (N.to_nat (1 + k)) with (S (N.to_nat k)) by lia. reflexivity. Qed.

Section Blocks.
  Variable bits : N.
  Let B : N := 2 ^ bits.

  Lemma B_pos : 0 < B.
  Proof. unfold B. apply N.neq_0_lt_0. apply N.pow_nonzero. discriminate. Qed.

  Lemma block_size_eq : block_size bits = B.
  Proof. unfold block_size, B. apply N.shiftl_1_l. Qed.

  Lemma block_offset_eq : forall x, block_offset bits x = x / B.
  Proof. intros. unfold block_offset, B. apply N.shiftr_div_pow2. Qed.

  Lemma next_boundary_eq : forall x, next_boundary bits x = (x / B + 1) * B.
  Proof. intros. unfold next_boundary. rewrite N.shiftl_mul_pow2, block_offset_eq. reflexivity. Qed.

  Lemma compute_true_up_eq : forall x,
    compute_true_up bits x = if x mod B =? 0 then x else (x / B + 1) * B.
  Proof.
    intros x. unfold compute_true_up. rewrite next_boundary_eq, N.shiftl_mul_pow2, block_offset_eq.
    fold B. pose proof B_pos.
    pose proof (N.div_mod x B ltac:(lia)) as D.
    destruct (N.eqb_spec x (x / B * B)) as [E|E]; destruct (N.eqb_spec (x mod B) 0) as [E'|E']; try reflexivity; exfalso; nia.
  Qed.

  Lemma nb_gt : forall x, x < next_boundary bits x.
  Proof.
    intros x. rewrite next_boundary_eq. pose proof B_pos.
    pose proof (N.div_mod x B ltac:(lia)) as D. pose proof (N.mod_lt x B ltac:(lia)). nia.
  Qed.

  Lemma nb_le : forall x, next_boundary bits x <= x + B.
  Proof.
    intros x. rewrite next_boundary_eq. pose proof B_pos.
    pose proof (N.div_mod x B ltac:(lia)) as D. nia.
  Qed.

  Lemma nb_mod : forall x, next_boundary bits x mod B = 0.
  Proof. intros x. rewrite next_boundary_eq. apply N.mod_mul. pose proof B_pos. lia. Qed.

  (* the unique multiple of B in (x, x + B] *)
  Lemma nb_unique : forall x y, y mod B = 0 -> x < y -> y <= x + B -> next_boundary bits x = y.
  Proof.
    intros x y Hy Hlt Hle. rewrite next_boundary_eq. pose proof B_pos as HB.
    pose proof (N.div_mod y B ltac:(lia)) as Dy. rewrite Hy, N.add_0_r in Dy.
    remember (y / B) as q eqn:Eq. clear Eq Hy.
    assert (Hq : q <> 0) by (intros ->; rewrite N.mul_0_r in Dy; lia).
    assert (Hx : x / B = q - 1).
    { symmetry. apply (N.div_unique x B (q - 1) (x - B * (q - 1))).
      - replace (B * q) with (B * (q - 1) + B) in Dy by (replace q with (q - 1 + 1) at 2 by lia; rewrite N.mul_add_distr_l; lia).
        lia.
      - replace (B * q) with (B * (q - 1) + B) in Dy by (replace q with (q - 1 + 1) at 2 by lia; rewrite N.mul_add_distr_l; lia).
        lia. }
    rewrite Hx. replace (q - 1 + 1) with q by lia. rewrite N.mul_comm. lia.
  Qed.

  Lemma nb_of_multiple : forall x, x mod B = 0 -> next_boundary bits x = x + B.
  Proof.
    intros x Hx. apply nb_unique.
    - pose proof B_pos. rewrite <- (N.mul_1_l B) at 1. rewrite N.mod_add by lia. exact Hx.
    - pose proof B_pos. lia.
    - lia.
  Qed.

  (* the least multiple of B that is >= x *)
  Lemma true_up_unique : forall x y, y mod B = 0 -> x <= y -> y < x + B -> compute_true_up bits x = y.
  Proof.
    intros x y Hy Hle Hlt. rewrite compute_true_up_eq. pose proof B_pos as HB.
    destruct (N.eqb_spec (x mod B) 0) as [E|E].
    - (* x is a multiple: y = x *)
      pose proof (N.div_mod x B ltac:(lia)) as Dx. pose proof (N.div_mod y B ltac:(lia)) as Dy.
      rewrite E, N.add_0_r in Dx. rewrite Hy, N.add_0_r in Dy.
      remember (x / B) as qx eqn:Eqx. remember (y / B) as qy eqn:Eqy. clear Eqx Eqy E Hy.
      assert (H1 : qy < qx + 1).
      { apply (N.mul_lt_mono_pos_l B); [exact HB|]. rewrite N.mul_add_distr_l, N.mul_1_r. lia. }
      assert (H2 : qx <= qy).
      { apply (N.mul_le_mono_pos_l _ _ B); [exact HB|]. lia. }
      assert (qx = qy) by lia. subst. reflexivity.
    - rewrite <- next_boundary_eq. apply nb_unique; try assumption; try lia.
      destruct (N.eq_dec x y) as [->|]; [contradiction|lia].
  Qed.
End Blocks.

Lemma disc_small : HEADER_WHOLE < 128 /\ HEADER_FIRST < 128 /\ HEADER_SECOND < 128.
Proof. unfold HEADER_WHOLE, HEADER_FIRST, HEADER_SECOND. lia. Qed.

Lemma tfs_lt : TABLE_FULL_SIZE < W64.
Proof. reflexivity. Qed.

Section Writer.
  Variable bits : N.
  Variable crc : list N -> N.
  Let B : N := 2 ^ bits.
  Hypothesis HB : HEADER_MAX_SIZE < 2 ^ bits.

  Notation nb := (next_boundary bits).

  Definition hdr (disc : N) (b : list N) : header :=
    {| h_size := len b; h_disc := disc; h_crc := crc32 crc b |}.
  Definition frame (disc : N) (b : list N) : list N := header_frame (hdr disc b) ++ b.

  Lemma crc32_lt : forall b, crc32 crc b < W32.
  Proof. intros. unfold crc32. apply N.mod_lt. discriminate. Qed.

  Lemma hdr_ok : forall disc b, disc < 128 -> len b < W64 -> header_ok (hdr disc b).
  Proof. intros. unfold header_ok, hdr. cbn [h_size h_disc h_crc]. repeat split; try assumption. apply crc32_lt. Qed.

  Lemma frame_len : forall disc b, len (frame disc b) = len (header_frame (hdr disc b)) + len b.
  Proof. intros. unfold frame. apply len_app. Qed.

  (* ---- writer state *)
  Definition wf_w (st : wstate) : Prop := w_bw st = len (w_file st).

  Lemma w_file_write : forall st b, w_file (write st b) = w_file st ++ b.
  Proof.
    intros. unfold w_file, write. cbn [w_chunks rev]. rewrite concat_app. cbn [concat]. now rewrite app_nil_r.
  Qed.

  Lemma w_bw_write : forall st b, w_bw (write st b) = w_bw st + len b.
  Proof. reflexivity. Qed.

  Lemma wf_write : forall st b, wf_w st -> wf_w (write st b).
  Proof. intros st b H. unfold wf_w in *. rewrite w_file_write, w_bw_write, len_app. lia. Qed.

  Lemma wf_w0 : wf_w w0.
  Proof. reflexivity. Qed.

  (* ---- the shapes *)
  Inductive main_at (p : N) (buf : list N) : list N -> Prop :=
  | MWhole : p + len (frame HEADER_WHOLE buf) <= nb p ->
             main_at p buf (frame HEADER_WHOLE buf)
  | MSplit : forall first second k,
             buf = first ++ second -> first <> [] -> second <> [] -> k <= HEADER_MAX_SIZE ->
             p + len (frame HEADER_FIRST first) + k = nb p ->
             main_at p buf (frame HEADER_FIRST first ++ zeros k ++ frame HEADER_SECOND second).

  Definition pad_at (p k : N) : Prop := k = 0 \/ (1 <= k <= HEADER_MAX_SIZE /\ p + k = nb p).

  Lemma write_header_ok : forall st disc b, disc < 128 -> len b < W64 ->
    write_header st (hdr disc b) = (WOk, write st (header_frame (hdr disc b))).
  Proof.
    intros st disc b Hd Hb. unfold write_header.
    pose proof (header_frame_len_bound _ (hdr_ok disc b Hd Hb)) as HL.
    destruct (N.ltb_spec (HEADER_MAX_SIZE + 1) (len (header_frame (hdr disc b)))); [lia|reflexivity].
  Qed.

  (* the non-recursive branch of append_split *)
  Lemma split_branch : forall k0 st buf,
    wf_w st ->
    HEADER_MAX_SIZE < nb (w_bw st) - w_bw st ->
    nb (w_bw st) < w_bw st + (len (header_frame (hdr HEADER_WHOLE buf)) + len buf) ->
    len buf < W64 ->
    exists c st', append_split bits crc k0 st buf = (WOk, st') /\ main_at (w_bw st) buf c /\
                  w_file st' = w_file st ++ c /\ wf_w st'.
  Proof.
    intros k0 st buf Hwf Hround Hover Hlen.
    destruct disc_small as (HdW & HdF & HdS).
    pose proof (header_frame_len_bound _ (hdr_ok HEADER_WHOLE buf HdW Hlen)) as HLW.
    unfold append_split.
    set (p := w_bw st) in *. set (roundup := nb p - p) in *.
    destruct (N.leb_spec roundup HEADER_MAX_SIZE) as [Hc|Hc]; [lia|].
    assert (Hfb : roundup - HEADER_MAX_SIZE <= len buf) by lia.
    destruct (take_exact buf (roundup - HEADER_MAX_SIZE)) as [[first second]|] eqn:T.
    2:{ apply take_exact_none in T. lia. }
    apply take_exact_some in T. destruct T as [Ebuf Lfirst].
    assert (Hl1 : len first < W64) by (rewrite Ebuf, len_app in Hlen; lia).
    assert (Hl2 : len second < W64) by (rewrite Ebuf, len_app in Hlen; lia).
    fold (hdr HEADER_FIRST first). fold (hdr HEADER_SECOND second).
    rewrite write_header_ok by assumption.
    pose proof (header_frame_len_bound _ (hdr_ok HEADER_FIRST first HdF Hl1)) as HL1.
    set (st1 := write st (header_frame (hdr HEADER_FIRST first))).
    set (st2 := write st1 first).
    assert (Hbw2 : w_bw st2 = p + len (frame HEADER_FIRST first)).
    { unfold st2, st1. rewrite !w_bw_write, frame_len. fold p. lia. }
    assert (Hk : w_bw st2 <= nb p) by (rewrite Hbw2, frame_len; lia).
    unfold w_true_up.
    destruct (N.ltb_spec (nb p) (w_bw st2)) as [Hc2|Hc2]; [lia|].
    destruct (N.ltb_spec HEADER_MAX_SIZE (nb p - w_bw st2)) as [Hc3|Hc3].
    { rewrite Hbw2, frame_len in Hc3. lia. }
    set (k := nb p - w_bw st2) in *.
    assert (Hsec : second <> []).
    { intros ->. rewrite app_nil_r in Ebuf. subst first. lia. }
    assert (Hfirst : first <> []).
    { intros ->. rewrite len_nil in Lfirst. lia. }
    assert (Hmain : main_at p buf (frame HEADER_FIRST first ++ zeros k ++ frame HEADER_SECOND second)).
    { apply MSplit; try assumption. unfold k. lia. }
    destruct (N.eqb_spec k 0) as [Hk0|Hk0].
    - rewrite write_header_ok by assumption.
      eexists. eexists. split; [reflexivity|]. split; [exact Hmain|]. split.
      + rewrite !w_file_write. unfold st2, st1. rewrite !w_file_write. rewrite Hk0, zeros_0. unfold frame.
        cbn [app]. now rewrite <- !app_assoc.
      + repeat apply wf_write. exact Hwf.
    - rewrite write_header_ok by assumption.
      eexists. eexists. split; [reflexivity|]. split; [exact Hmain|]. split.
      + rewrite !w_file_write. unfold st2, st1. rewrite !w_file_write. unfold frame, zeros.
        now rewrite <- !app_assoc.
      + repeat apply wf_write. exact Hwf.
  Qed.

  (* _append when no padding is needed: either the frame fits before the boundary, or more than
     HEADER_MAX_SIZE bytes remain (so append_split splits without recursing) *)
  Lemma append_nopad : forall f rollover st buf,
    wf_w st -> buf <> [] ->
    HEADER_MAX_SIZE < nb (w_bw st) - w_bw st ->
    (exists st', append_ bits crc (S f) rollover st buf = (WErr ETableFull, st') /\ st' = st /\
                 (TABLE_FULL_SIZE <= w_bw st + len (frame HEADER_WHOLE buf) \/
                  rollover < w_bw st + len (frame HEADER_WHOLE buf))) \/
    (exists c st', append_ bits crc (S f) rollover st buf = (WOk, st') /\ main_at (w_bw st) buf c /\
                   w_file st' = w_file st ++ c /\ wf_w st' /\ len buf < TABLE_FULL_SIZE).
  Proof.
    intros f rollover st buf Hwf Hne Hround.
    destruct disc_small as (HdW & HdF & HdS).
    cbn [append_]. fold (hdr HEADER_WHOLE buf).
    set (p := w_bw st) in *.
    set (new_offset := p + (len (header_frame (hdr HEADER_WHOLE buf)) + len buf)).
    destruct (N.leb_spec TABLE_FULL_SIZE new_offset) as [Hc1|Hc1].
    { left. eexists. split; [reflexivity|]. split; [reflexivity|]. left. rewrite frame_len. exact Hc1. }
    destruct (N.ltb_spec rollover new_offset) as [Hc2|Hc2].
    { left. eexists. split; [reflexivity|]. split; [reflexivity|]. right. rewrite frame_len. exact Hc2. }
    assert (Hlen : len buf < TABLE_FULL_SIZE) by (unfold new_offset in Hc1; lia).
    assert (Hlen64 : len buf < W64) by (pose proof tfs_lt; lia).
    right.
    destruct (N.ltb_spec (nb p) new_offset) as [Hc3|Hc3].
    - destruct (split_branch (append_ bits crc f rollover) st buf Hwf Hround Hc3 Hlen64) as (c & st' & E & Hm & Hf & Hw).
      exists c, st'. repeat split; assumption.
    - rewrite write_header_ok by assumption.
      set (st2 := write (write st (header_frame (hdr HEADER_WHOLE buf))) buf).
      assert (Hbw2 : w_bw st2 = new_offset).
      { unfold st2. rewrite !w_bw_write. fold p. unfold new_offset. lia. }
      destruct (N.ltb_spec (nb p) (w_bw st2)) as [Hc4|Hc4]; [lia|].
      exists (frame HEADER_WHOLE buf), st2. split; [reflexivity|]. split.
      + apply MWhole. rewrite frame_len. unfold new_offset in Hc3. lia.
      + split; [|split; [|exact Hlen]].
        * unfold st2. rewrite !w_file_write. unfold frame. now rewrite <- app_assoc.
        * unfold st2. repeat apply wf_write. exact Hwf.
  Qed.

  Lemma append_S : forall f rollover st buffer,
    append_ bits crc (S f) rollover st buffer =
        let header := {| h_size := len buffer; h_disc := HEADER_WHOLE; h_crc := crc32 crc buffer |} in
        let nb := next_boundary bits (w_bw st) in
        let new_offset := w_bw st + (len (header_frame header) + len buffer) in
        if TABLE_FULL_SIZE <=? new_offset then (WErr ETableFull, st)
        else if rollover <? new_offset then (WErr ETableFull, st)
        else if nb <? new_offset then append_split bits crc (append_ bits crc f rollover) st buffer
        else
          match write_header st header with
          | (WOk, st1) =>
              let st2 := write st1 buffer in
              if nb <? w_bw st2 then (WPanic, st2) else (WOk, st2)
          | r => r
          end.
  Proof. reflexivity. Qed.

  Lemma nb_block : forall x, x + 2 ^ bits >= nb x.
  Proof. intros x. pose proof (nb_le bits x). lia. Qed.

  (* LogBuilder::append: what one call does to the file *)
  Theorem append_spec : forall rollover st buf r st',
    wf_w st -> append bits crc rollover st buf = (r, st') ->
    wf_w st' /\
    match r with
    | WOk => buf <> [] /\ len buf < TABLE_FULL_SIZE /\
             exists k c, pad_at (w_bw st) k /\ main_at (w_bw st + k) buf c /\
                         w_file st' = w_file st ++ zeros k ++ c
    | WErr e => exists k, pad_at (w_bw st) k /\ w_file st' = w_file st ++ zeros k /\
                (buf = [] \/ TABLE_FULL_SIZE <= w_bw st + k + len (frame HEADER_WHOLE buf) \/
                 rollover < w_bw st + k + len (frame HEADER_WHOLE buf))
    | WPanic | WFuel => False
    end.
  Proof.
    intros rollover st buf r st' Hwf H.
    destruct disc_small as (HdW & HdF & HdS).
    unfold append in H. destruct buf as [|b0 buf'].
    { inversion H; subst. split; [exact Hwf|]. exists 0. split; [now left|]. split; [now rewrite zeros_0, app_nil_r|now left]. }
    set (buf := b0 :: buf') in *.
    assert (Hne : buf <> []) by discriminate.
    unfold APPEND_FUEL in H.
    set (p := w_bw st) in *.
    destruct (N.ltb_spec HEADER_MAX_SIZE (nb p - p)) as [Hround|Hround].
    - (* no padding can be needed *)
      destruct (append_nopad 2 rollover st buf Hwf Hne Hround) as [(s & E & -> & Hcond)|(c & s & E & Hm & Hf & Hw & Hl)];
        rewrite E in H; inversion H; subst.
      + split; [exact Hwf|]. exists 0. split; [now left|]. split; [now rewrite zeros_0, app_nil_r|].
        right. rewrite N.add_0_r. exact Hcond.
      + split; [exact Hw|]. split; [exact Hne|]. split; [exact Hl|].
        exists 0, c. split; [now left|]. rewrite N.add_0_r. split; [exact Hm|]. rewrite zeros_0. exact Hf.
    - (* at most HEADER_MAX_SIZE bytes remain before the boundary *)
      rewrite append_S in H. cbv zeta in H. fold (hdr HEADER_WHOLE buf) in H. fold p in H.
      set (new_offset := p + (len (header_frame (hdr HEADER_WHOLE buf)) + len buf)) in *.
      destruct (N.leb_spec TABLE_FULL_SIZE new_offset) as [Hc1|Hc1].
      { inversion H; subst. split; [exact Hwf|]. exists 0. split; [now left|]. split; [now rewrite zeros_0, app_nil_r|].
        right. left. rewrite N.add_0_r, frame_len. exact Hc1. }
      destruct (N.ltb_spec rollover new_offset) as [Hc2|Hc2].
      { inversion H; subst. split; [exact Hwf|]. exists 0. split; [now left|]. split; [now rewrite zeros_0, app_nil_r|].
        right. right. rewrite N.add_0_r, frame_len. exact Hc2. }
      assert (Hlen : len buf < TABLE_FULL_SIZE) by (unfold new_offset in Hc1; lia).
      assert (Hlen64 : len buf < W64) by (pose proof tfs_lt; lia).
      pose proof (nb_gt bits p) as Hgt.
      destruct (N.ltb_spec (nb p) new_offset) as [Hc3|Hc3].
      + (* pad to the boundary, then _append again *)
        unfold append_split in H. fold p in H.
        destruct (N.leb_spec (nb p - p) HEADER_MAX_SIZE) as [Hc4|Hc4]; [|lia].
        unfold w_true_up in H. fold p in H.
        destruct (N.ltb_spec (nb p) p) as [Hc5|Hc5]; [lia|].
        destruct (N.ltb_spec HEADER_MAX_SIZE (nb p - p)) as [Hc6|Hc6]; [lia|].
        destruct (N.eqb_spec (nb p - p) 0) as [Hc7|Hc7]; [lia|].
        set (k := nb p - p) in *.
        set (st1 := write st (repeat 0 (N.to_nat k))) in *.
        assert (Hwf1 : wf_w st1) by (apply wf_write; exact Hwf).
        assert (Hbw1 : w_bw st1 = nb p).
        { unfold st1. rewrite w_bw_write. fold p. fold (zeros k). rewrite len_zeros. unfold k. lia. }
        assert (Hf1 : w_file st1 = w_file st ++ zeros k) by (unfold st1; now rewrite w_file_write).
        assert (Hpad : pad_at p k) by (right; unfold k; lia).
        assert (Hround1 : HEADER_MAX_SIZE < nb (w_bw st1) - w_bw st1).
        { rewrite Hbw1. rewrite (nb_of_multiple bits (nb p) (nb_mod bits p)). lia. }
        destruct (append_nopad 1 rollover st1 buf Hwf1 Hne Hround1) as [(s & E & -> & Hcond)|(c & s & E & Hm & Hf & Hw & Hl)];
          rewrite E in H; inversion H; subst.
        * split; [exact Hwf1|]. exists k. split; [exact Hpad|]. split; [exact Hf1|].
          right. rewrite Hbw1 in Hcond. replace (p + k) with (nb p) by (unfold k; lia). exact Hcond.
        * split; [exact Hw|]. split; [exact Hne|]. split; [exact Hl|].
          exists k, c. split; [exact Hpad|]. split.
          -- rewrite Hbw1 in Hm. replace (p + k) with (nb p) by (unfold k; lia). exact Hm.
          -- rewrite Hf, Hf1. now rewrite <- app_assoc.
      + (* the frame fits exactly in what remains *)
        rewrite write_header_ok in H by assumption.
        set (st2 := write (write st (header_frame (hdr HEADER_WHOLE buf))) buf) in *.
        assert (Hbw2 : w_bw st2 = new_offset).
        { unfold st2. rewrite !w_bw_write. fold p. unfold new_offset. lia. }
        destruct (N.ltb_spec (nb p) (w_bw st2)) as [Hc4|Hc4]; [lia|].
        inversion H; subst.
        split; [unfold st2; repeat apply wf_write; exact Hwf|].
        split; [exact Hne|]. split; [exact Hlen|].
        exists 0, (frame HEADER_WHOLE buf). split; [now left|]. split.
        * rewrite N.add_0_r. apply MWhole. rewrite frame_len. unfold new_offset in Hc3. fold p. lia.
        * unfold st2. rewrite !w_file_write, zeros_0. unfold frame. cbn [app]. now rewrite <- app_assoc.
  Qed.
  (* no spurious failure: with room below both limits a non-empty batch is appended *)
  Theorem append_ok_when_room : forall rollover st buf r st',
    wf_w st -> buf <> [] ->
    w_bw st + 2 * HEADER_MAX_SIZE + len buf < TABLE_FULL_SIZE ->
    w_bw st + 2 * HEADER_MAX_SIZE + len buf <= rollover ->
    append bits crc rollover st buf = (r, st') -> r = WOk.
  Proof.
    intros rollover st buf r st' Hwf Hne Hroom1 Hroom2 H.
    destruct (append_spec rollover st buf r st' Hwf H) as [_ Hr].
    destruct r; try contradiction; [reflexivity|].
    exfalso. destruct Hr as (k & Hpad & _ & [Hc|Hc]); [contradiction|].
    assert (Hk : k <= HEADER_MAX_SIZE) by (destruct Hpad as [->|[Hk _]]; unfold HEADER_MAX_SIZE in *; lia).
    assert (Hl64 : len buf < W64) by (pose proof tfs_lt; lia).
    pose proof (header_frame_len_bound _ (hdr_ok HEADER_WHOLE buf (proj1 disc_small) Hl64)) as HL.
    rewrite frame_len in Hc. lia.
  Qed.
End Writer.
