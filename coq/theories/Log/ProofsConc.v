(* Log/ProofsConc.v — invariants of the ConcurrentLogBuilder machine of Log/ModelConc.v. *)
From Coq Require Import NArith ZArith List Bool Lia Arith PeanoNat.
From Blue Require Import Gen.Const_Log Log.ModelWire Log.Model Log.ModelConc
  Log.ProofsWire Log.ProofsWriter Log.ProofsReader Log.ProofsTop.
Import ListNotations.
Open Scope N_scope.

Arguments N.add : simpl never.
Arguments N.sub : simpl never.
Arguments N.mul : simpl never.
Arguments N.leb : simpl never.
Arguments N.ltb : simpl never.
Arguments N.eqb : simpl never.
Arguments N.max : simpl never.
Arguments N.of_nat : simpl never.
Arguments N.pow : simpl never.

Lemma ebytes_of_eq : forall es, ebytes_of es = ebytes es.
Proof. reflexivity. Qed.

Lemma entry_ok_wf : forall e, entry_ok e <-> wf_entry e.
Proof. intros e. unfold entry_ok, wf_entry. tauto. Qed.

Lemma f_chain_ge : forall synced ws a0 acc,
  f_chain synced a0 ws = Some acc -> a0 <= acc /\ Forall (fun q => snd q <= acc) ws.
Proof.
  induction ws as [|w ws IH]; intros a0 acc H; cbn [f_chain] in H.
  - inversion H; subst. split; [lia|constructor].
  - destruct (f_can_batch synced a0 (snd w)); [|discriminate].
    apply IH in H. destruct H as [H1 H2]. split; [lia|]. constructor; [lia|exact H2].
Qed.

Lemma f_chain_le : forall synced W ws a0 acc,
  f_chain synced a0 ws = Some acc -> a0 <= W -> Forall (fun q => snd q <= W) ws -> acc <= W.
Proof.
  induction ws as [|w ws IH]; intros a0 acc H Ha Hws; cbn [f_chain] in H.
  - inversion H; subst. exact Ha.
  - destruct (f_can_batch synced a0 (snd w)); [|discriminate].
    inversion Hws; subst. eapply IH; [exact H| lia | assumption].
Qed.

Section Conc.
  Variable bits : N.
  Variable crc : list N -> N.
  Variable rollover : N.
  Hypothesis HB : HEADER_MAX_SIZE < 2 ^ bits.

  Definition log_bufs (l : list wwork) : list (list N) := map (fun w => req_buffer (ww_taken w)) l.
  Definition log_res (l : list wwork) : list (wres * N) := map (fun w => (ww_res w, ww_end w)) l.
  Definition log_ess (l : list wwork) : list (list entry) := map (fun w => req_entries (ww_taken w)) l.

  Definition lead_reqs (s : cstate) : list req := match c_wlead s with Some t => t | None => [] end.
  (* every request in the order in which it was linked to the write queue *)
  Definition all_reqs (s : cstate) : list req :=
    concat (map ww_taken (c_log s)) ++ lead_reqs s ++ c_wq s.

  Definition req_ok (q : req) : Prop := snd q <> [] /\ Forall entry_ok (snd q).

  Definition pending (s : cstate) (id : nat) (w : N) : Prop :=
    In (id, w) (c_wret s) \/ In (id, w) (c_fq s) \/ (exists t a, c_flead s = Some (t, a) /\ In (id, w) t).

  Definition written_ok (s : cstate) (id : nat) (bound : N) : Prop :=
    exists ww, In ww (c_log s) /\ In id (map fst (ww_taken ww)) /\ ww_res ww = WOk /\ ww_end ww <= bound.

  Record Inv (s : cstate) : Prop := {
    inv_wf : wf_w (c_w s);
    inv_file : append_all bits crc rollover w0 (log_bufs (c_log s)) = (log_res (c_log s), c_w s);
    inv_synced : c_synced s <= c_written s;
    inv_dur_le : c_durable s <= w_bw (c_w s);
    inv_ends : Forall (fun w => ww_end w <= w_bw (c_w s) /\ ww_mark w <= c_written s) (c_log s);
    inv_sync : Forall (fun w => ww_mark w <= c_synced s -> ww_end w <= c_durable s) (c_log s);
    inv_pend : forall id w, pending s id w ->
               exists ww, In ww (c_log s) /\ In id (map fst (ww_taken ww)) /\ ww_res ww = WOk /\ ww_mark ww = w;
    inv_acc : forall t a, c_flead s = Some (t, a) -> Forall (fun q => snd q <= a) t /\ a <= c_written s;
    inv_done : forall id, In (id, true) (c_done s) -> written_ok s id (c_durable s);
    inv_reqs : Forall req_ok (all_reqs s);
    inv_lead_ne : forall t, c_wlead s = Some t -> t <> [];
    inv_ids : map fst (all_reqs s) = rev (c_ids s) /\ NoDup (c_ids s)
  }.

  Lemma append_all_snoc : forall bufs st b,
    append_all bits crc rollover st (bufs ++ [b]) =
    let '(rs, st1) := append_all bits crc rollover st bufs in
    let '(r, st2) := append bits crc rollover st1 b in
    (rs ++ [(r, w_bw st2)], st2).
  Proof.
    induction bufs as [|x bufs IH]; intros st b.
    - cbn [app append_all]. destruct (append bits crc rollover st b) as [r st2]. reflexivity.
    - cbn [app]. rewrite !append_all_cons.
      destruct (append bits crc rollover st x) as [r1 st1].
      rewrite IH.
      destruct (append_all bits crc rollover st1 bufs) as [rs st2].
      destruct (append bits crc rollover st2 b) as [r st3]. reflexivity.
  Qed.

  Lemma req_buffer_nonempty : forall t, t <> [] -> Forall req_ok t -> 1 <= len (req_buffer t).
  Proof.
    intros [|q t] Hne Hok; [contradiction|].
    inversion Hok as [|? ? [Hq _] _]; subst.
    unfold req_buffer, req_entries. cbn [map concat]. rewrite ebytes_of_eq, ebytes_app, len_app.
    pose proof (ebytes_nonempty (snd q) Hq) as Hn. destruct (ebytes (snd q)); [contradiction|].
    rewrite len_cons. lia.
  Qed.

  Lemma inv_c0 : Inv c0.
  Proof.
    constructor; cbn; try (constructor; fail); try lia; try reflexivity; try (intros; discriminate).
    - intros id w [H|[H|(t & a & H & _)]]; try contradiction; discriminate.
    - split; [reflexivity|constructor].
  Qed.

  Ltac proj := cbn [c_wq c_wlead c_w c_written c_log c_wret c_fq c_flead c_synced c_durable c_done c_ids].
  Ltac proj_in H := cbn [c_wq c_wlead c_w c_written c_log c_wret c_fq c_flead c_synced c_durable c_done c_ids] in H.

  Lemma in_map_fst : forall (id : nat) (w : N) (t : list (nat * N)), In (id, w) t -> In id (map fst t).
  Proof. intros id w t H. apply (in_map fst) in H. exact H. Qed.

  Lemma in_mark_map : forall (id : nat) (w mark : N) (taken : list req),
    In (id, w) (map (fun q : req => (fst q, mark)) taken) -> w = mark /\ In id (map fst taken).
  Proof.
    intros id w mark taken H. apply in_map_iff in H. destruct H as (q & Eq & Hq).
    inversion Eq; subst. split; [reflexivity|]. now apply in_map.
  Qed.

  Lemma in_bool_map : forall (id : nat) (b b' : bool) (A : Type) (t : list (nat * A)),
    In (id, b) (map (fun q => (fst q, b')) t) -> b = b' /\ In id (map fst t).
  Proof.
    intros id b b' A t H. apply in_map_iff in H. destruct H as (q & Eq & Hq).
    inversion Eq; subst. split; [reflexivity|]. now apply in_map.
  Qed.

  Lemma inv_step : forall s s', Inv s -> step bits crc rollover s s' -> Inv s'.
  Proof.
    intros s s' I Hs.
    destruct I as [Iwf Ifile Isynced Idur Iends Isync Ipend Iacc Idone Ireqs Ilne Iids].
    destruct Hs as
      [s id es Hfresh Hne Hok
      |s first more rest Hnone Hq Hchain
      |s taken r st' Hlead Happ mark
      |s a id w b Hret
      |s first more rest acc Hnone Hq Hchain
      |s taken acc Hlead Hle
      |s taken acc Hlead Hlt
      |s taken acc Hlead Hlt].
    - (* Submit *)
      constructor; proj; try assumption.
      + unfold all_reqs, lead_reqs in *. proj.
        match goal with |- Forall _ (?A ++ ?L ++ ?Q ++ [?x]) =>
            replace (A ++ L ++ Q ++ [x]) with ((A ++ L ++ Q) ++ [x]) by (now rewrite <- !app_assoc) end.
        apply Forall_app. split; [exact Ireqs|].
        constructor; [split; assumption|constructor].
      + unfold all_reqs, lead_reqs in *. proj. destruct Iids as [Im Ind]. split.
        * match goal with |- map fst (?A ++ ?L ++ ?Q ++ [?x]) = _ =>
            replace (A ++ L ++ Q ++ [x]) with ((A ++ L ++ Q) ++ [x]) by (now rewrite <- !app_assoc) end.
          etransitivity; [apply map_app|]. cbn [rev map fst]. f_equal. exact Im.
        * constructor; assumption.
    - (* LeadW *)
      assert (Eall : concat (map ww_taken (c_log s)) ++ (first :: more) ++ rest = all_reqs s).
      { unfold all_reqs, lead_reqs. rewrite Hnone, Hq. cbn [app]. reflexivity. }
      constructor; proj; try assumption.
      + unfold all_reqs, lead_reqs. proj. rewrite Eall. exact Ireqs.
      + intros t Ht. inversion Ht; subst. discriminate.
      + unfold all_reqs, lead_reqs. proj. rewrite Eall. exact Iids.
    - (* WorkW *)
      destruct (append_spec bits crc HB rollover (c_w s) (req_buffer taken) r st' Iwf Happ) as [Hwf' Hr].
      pose proof (append_bw_mono bits crc HB _ _ _ _ _ Iwf Happ) as Hmono.
      assert (Htaken : Forall req_ok taken).
      { unfold all_reqs, lead_reqs in Ireqs. rewrite Hlead in Ireqs.
        apply Forall_app in Ireqs. destruct Ireqs as [_ Ireqs]. apply Forall_app in Ireqs. now destruct Ireqs. }
      pose proof (req_buffer_nonempty taken (Ilne taken Hlead) Htaken) as Hlen.
      assert (Eall : concat (map ww_taken (c_log s ++ [{| ww_taken := taken; ww_res := r; ww_end := w_bw st'; ww_mark := mark |}]))
                     ++ [] ++ c_wq s = all_reqs s).
      { unfold all_reqs, lead_reqs. rewrite Hlead. rewrite map_app, concat_app. cbn [map concat ww_taken app].
        rewrite app_nil_r, <- app_assoc. reflexivity. }
      set (ww0 := {| ww_taken := taken; ww_res := r; ww_end := w_bw st'; ww_mark := mark |}) in *.
      constructor; proj.
      + exact Hwf'.
      + unfold log_bufs, log_res. rewrite !map_app. cbn [map ww_taken ww_res ww_end ww0].
        rewrite append_all_snoc. fold (log_bufs (c_log s)). rewrite Ifile. rewrite Happ. reflexivity.
      + unfold mark. lia.
      + lia.
      + apply Forall_app. split.
        * eapply Forall_impl; [|exact Iends]. cbn. intros x [H1 H2]. unfold mark. split; lia.
        * constructor; [|constructor]. cbn [ww_end ww_mark ww0]. split; lia.
      + apply Forall_app. split; [exact Isync|].
        constructor; [|constructor]. cbn [ww_end ww_mark ww0]. unfold mark. intros Hc. lia.
      + intros id w Hp.
        assert (Hold : pending s id w -> exists ww, In ww (c_log s ++ [ww0]) /\ In id (map fst (ww_taken ww)) /\ ww_res ww = WOk /\ ww_mark ww = w).
        { intros Hp0. destruct (Ipend id w Hp0) as (ww & H1 & H2). exists ww. split; [apply in_or_app; now left|exact H2]. }
        destruct Hp as [Hp|[Hp|Hp]]; proj_in Hp.
        * destruct r; try (apply Hold; now left).
          apply in_app_or in Hp. destruct Hp as [Hp|Hp]; [apply Hold; now left|].
          apply in_mark_map in Hp. destruct Hp as [-> Hin].
          exists ww0. split; [apply in_or_app; right; now left|]. cbn [ww_taken ww_res ww_mark ww0]. repeat split; assumption.
        * apply Hold. right. now left.
        * apply Hold. right. right. exact Hp.
      + intros t a Ht. destruct (Iacc t a Ht) as [H1 H2]. split; [exact H1|]. unfold mark. lia.
      + intros id Hin.
        assert (Hold : In (id, true) (c_done s) -> written_ok
          {| c_wq := c_wq s; c_wlead := None; c_w := st'; c_written := mark; c_log := c_log s ++ [ww0];
             c_wret := match r with WOk => c_wret s ++ map (fun q => (fst q, mark)) taken | _ => c_wret s end;
             c_fq := c_fq s; c_flead := c_flead s; c_synced := c_synced s; c_durable := c_durable s;
             c_done := match r with WOk => c_done s | _ => c_done s ++ map (fun q => (fst q, false)) taken end;
             c_ids := c_ids s |} id (c_durable s)).
        { intros H0. destruct (Idone id H0) as (ww & H1 & H2). exists ww. proj. split; [apply in_or_app; now left|exact H2]. }
        destruct r; try (apply Hold; exact Hin);
          (apply in_app_or in Hin; destruct Hin as [Hin|Hin]; [apply Hold; exact Hin|];
           apply in_bool_map in Hin; destruct Hin as [Hc _]; discriminate).
      + unfold all_reqs, lead_reqs. proj. rewrite Eall. exact Ireqs.
      + intros t Ht. discriminate.
      + unfold all_reqs, lead_reqs. proj. rewrite Eall. exact Iids.
    - (* EnqF *)
      constructor; proj; try assumption.
      intros id0 w0 Hp. apply Ipend.
      destruct Hp as [Hp|[Hp|Hp]]; proj_in Hp.
      + left. rewrite Hret. apply in_app_or in Hp. apply in_or_app. destruct Hp; [now left|right; now right].
      + apply in_app_or in Hp. destruct Hp as [Hp|[Hp|[]]].
        * right. now left.
        * inversion Hp; subst. left. rewrite Hret. apply in_or_app. right. now left.
      + right. right. exact Hp.
    - (* LeadF *)
      destruct (f_chain_ge _ _ _ _ Hchain) as [Hfirst Hmore].
      assert (Hin_old : forall id w, In (id, w) (first :: more) \/ In (id, w) rest -> In (id, w) (c_fq s)).
      { intros id w H. rewrite Hq. destruct H as [[H|H]|H].
        - now left.
        - right. apply in_or_app. now left.
        - right. apply in_or_app. now right. }
      assert (Hle_w : forall q, In q (first :: more) -> snd q <= c_written s).
      { intros [id w] Hin. destruct (Ipend id w) as (ww & H1 & _ & _ & H4).
        - right. left. apply Hin_old. now left.
        - rewrite Forall_forall in Iends. destruct (Iends ww H1) as [_ Hm]. cbn [snd]. lia. }
      constructor; proj; try assumption.
      + intros id w Hp. apply Ipend. destruct Hp as [Hp|[Hp|Hp]]; proj_in Hp.
        * now left.
        * right. left. apply Hin_old. now right.
        * destruct Hp as (t & a & Ht & Hin). inversion Ht; subst. right. left. apply Hin_old. now left.
      + intros t a Ht. inversion Ht; subst. split.
        * constructor; [lia|exact Hmore].
        * eapply f_chain_le; [exact Hchain| |].
          -- pose proof (Hle_w first (or_introl eq_refl)). lia.
          -- rewrite Forall_forall. intros q Hq'. apply Hle_w. now right.
    - (* WorkFSkip *)
      destruct (Iacc taken acc Hlead) as [Hacc _].
      constructor; proj; try assumption.
      + intros id w Hp. apply Ipend. destruct Hp as [Hp|[Hp|Hp]]; proj_in Hp.
        * now left.
        * right. now left.
        * destruct Hp as (t & a & Ht & _). discriminate.
      + intros t a Ht. discriminate.
      + intros id Hin. apply in_app_or in Hin. destruct Hin as [Hin|Hin].
        * destruct (Idone id Hin) as (ww & H1 & H2). exists ww. proj. split; assumption.
        * apply in_map_iff in Hin. destruct Hin as ([id' w] & Eq & Hq). cbn [fst] in Eq. injection Eq as ->.
          destruct (Ipend id w) as (ww & H1 & H2 & H3 & H4).
          { right. right. exists taken, acc. split; assumption. }
          exists ww. proj. repeat split; try assumption.
          rewrite Forall_forall in Isync. apply (Isync ww H1).
          rewrite Forall_forall in Hacc. specialize (Hacc (id, w) Hq). cbn [snd] in Hacc. lia.
    - (* WorkFSync *)
      destruct (Iacc taken acc Hlead) as [Hacc Haccw].
      constructor; proj; try assumption.
      + lia.
      + eapply Forall_impl; [|exact Iends]. cbn. intros x [H1 _] _. exact H1.
      + intros id w Hp. apply Ipend. destruct Hp as [Hp|[Hp|Hp]]; proj_in Hp.
        * now left.
        * right. now left.
        * destruct Hp as (t & a & Ht & _). discriminate.
      + intros t a Ht. discriminate.
      + intros id Hin. apply in_app_or in Hin. destruct Hin as [Hin|Hin].
        * destruct (Idone id Hin) as (ww & H1 & H2 & H3 & H4). exists ww. proj. repeat split; try assumption. lia.
        * apply in_map_iff in Hin. destruct Hin as ([id' w] & Eq & Hq). cbn [fst] in Eq. injection Eq as ->.
          destruct (Ipend id w) as (ww & H1 & H2 & H3 & H4).
          { right. right. exists taken, acc. split; assumption. }
          exists ww. proj. repeat split; try assumption.
          rewrite Forall_forall in Iends. destruct (Iends ww H1) as [He _]. exact He.
    - (* WorkFFail *)
      constructor; proj; try assumption.
      + intros id w Hp. apply Ipend. destruct Hp as [Hp|[Hp|Hp]]; proj_in Hp.
        * now left.
        * right. now left.
        * destruct Hp as (t & a & Ht & _). discriminate.
      + intros t a Ht. discriminate.
      + intros id Hin. apply in_app_or in Hin. destruct Hin as [Hin|Hin].
        * destruct (Idone id Hin) as (ww & H1 & H2). exists ww. proj. split; assumption.
        * apply in_bool_map in Hin. destruct Hin as [Hc _]. discriminate.
  Qed.

  Theorem reachable_inv : forall s, reachable bits crc rollover s -> Inv s.
  Proof. induction 1 as [|s s' _ IH Hs]; [apply inv_c0|eapply inv_step; eassumption]. Qed.

  (* ---- consequences *)
  Lemma log_bufs_ess : forall l, log_bufs l = map ebytes (log_ess l).
  Proof. intros l. unfold log_bufs, log_ess. rewrite map_map. reflexivity. Qed.

  Lemma log_ess_wf : forall s, Inv s -> Forall (Forall wf_entry) (log_ess (c_log s)).
  Proof.
    intros s I. pose proof (inv_reqs s I) as H. unfold all_reqs in H.
    apply Forall_app in H. destruct H as [H _].
    unfold log_ess. induction (c_log s) as [|w l IH]; [constructor|].
    cbn [map concat] in H |- *. apply Forall_app in H. destruct H as [Hw Hl].
    constructor; [|apply IH; exact Hl].
    unfold req_entries. clear - Hw. induction (ww_taken w) as [|q t IHt]; [constructor|].
    inversion Hw as [|? ? [_ Hq] Ht]; subst. cbn [map concat]. apply Forall_app. split; [exact Hq|apply IHt; exact Ht].
  Qed.

  (* the file is the sequential log of the merged batches, in the order the works happened *)
  Theorem conc_file : forall s, reachable bits crc rollover s ->
    write_log bits crc rollover (map ebytes (log_ess (c_log s))) = (log_res (c_log s), w_file (c_w s)).
  Proof.
    intros s R. pose proof (reachable_inv s R) as I. unfold write_log.
    rewrite <- log_bufs_ess. rewrite (inv_file s I). reflexivity.
  Qed.

  Theorem conc_read : forall s, reachable bits crc rollover s ->
    read_log bits crc (w_file (c_w s)) =
    (concat (ok_batches (log_res (c_log s)) (log_ess (c_log s))), REnd).
  Proof.
    intros s R. pose proof (reachable_inv s R) as I.
    apply (roundtrip bits crc HB rollover); [apply log_ess_wf; exact I|apply conc_file; exact R].
  Qed.

  Lemma durable_in : forall n l ww,
    In ww l -> ww_res ww = WOk -> ww_end ww <= n ->
    In (req_entries (ww_taken ww)) (durable n (log_res l) (log_ess l)).
  Proof.
    intros n l ww. induction l as [|x l IH]; intros Hin Hok Hend; [contradiction|].
    unfold log_res, log_ess. cbn [map]. rewrite durable_cons.
    fold (log_res l). fold (log_ess l).
    destruct Hin as [->|Hin].
    - rewrite Hok. cbn [is_ok andb]. destruct (N.leb_spec (ww_end ww) n); [now left|lia].
    - destruct (is_ok (ww_res x) && (ww_end x <=? n)); [right|]; apply IH; assumption.
  Qed.

  (* an append that returned Ok is in every prefix of the file that contains the durable bytes,
     whole and exactly where it was written: the reader returns its merged batch *)
  Theorem conc_acked_survives : forall s id, reachable bits crc rollover s ->
    In (id, true) (c_done s) ->
    forall n, c_durable s <= len (firstn n (w_file (c_w s))) ->
    exists ww es j r,
      In ww (c_log s) /\ In (id, es) (ww_taken ww) /\ ww_res ww = WOk /\
      read_log bits crc (firstn n (w_file (c_w s))) =
        (concat (firstn j (ok_batches (log_res (c_log s)) (log_ess (c_log s)))), r) /\
      (r = REnd \/ exists e, r = RErr e) /\
      In (req_entries (ww_taken ww)) (firstn j (ok_batches (log_res (c_log s)) (log_ess (c_log s)))).
  Proof.
    intros s id R Hdone n Hn. pose proof (reachable_inv s R) as I.
    destruct (inv_done s I id Hdone) as (ww & Hin & Hid & Hok & Hend).
    apply in_map_iff in Hid. destruct Hid as ([id' es] & Eid & Hq). cbn [fst] in Eid. subst id'.
    destruct (torn_tail bits crc HB rollover (log_ess (c_log s)) (log_res (c_log s)) (w_file (c_w s)) n
                (log_ess_wf s I) (conc_file s R)) as (j & r & HR & Hre & Hj).
    exists ww, es, j, r. repeat split; try assumption.
    rewrite Hj. apply durable_in; [exact Hin|exact Hok|lia].
  Qed.

  (* every request is linked once; works take them in link order; nothing is written twice *)
  Theorem conc_once_in_order : forall s, reachable bits crc rollover s ->
    NoDup (map fst (all_reqs s)) /\
    (exists rest, all_reqs s = concat (map ww_taken (c_log s)) ++ rest) /\
    concat (log_ess (c_log s)) = req_entries (concat (map ww_taken (c_log s))).
  Proof.
    intros s R. pose proof (reachable_inv s R) as I. destruct (inv_ids s I) as [Hm Hnd]. split.
    - rewrite Hm. apply NoDup_rev. exact Hnd.
    - split; [eexists; reflexivity|].
      unfold log_ess, req_entries. induction (c_log s) as [|w l IH]; [reflexivity|].
      cbn [map concat]. rewrite map_app, concat_app, IH. reflexivity.
  Qed.

  (* a returned Ok means: the batch was written by a work that ended at or before the durable mark *)
  Theorem conc_acked_durable : forall s id, reachable bits crc rollover s ->
    In (id, true) (c_done s) -> written_ok s id (c_durable s).
  Proof. intros s id R H. exact (inv_done s (reachable_inv s R) id H). Qed.
End Conc.
