(* Log/ProofsAgain.v — a consumer that keeps calling LogIterator::next after it returned an error
   (fix 71e5745: an error abandons the batch being read): on every byte prefix of a written log
   every later call returns a clean end — never an entry. *)
From Coq Require Import NArith ZArith List Bool Lia Arith PeanoNat.
From Blue Require Import Gen.Const_Log Log.ModelWire Log.Model Log.ProofsWire Log.ProofsWriter
  Log.ProofsReader Log.ProofsTop.
Import ListNotations.
Open Scope N_scope.

Arguments N.add : simpl never.
Arguments N.sub : simpl never.
Arguments N.mul : simpl never.
Arguments N.leb : simpl never.
Arguments N.ltb : simpl never.
Arguments N.eqb : simpl never.
Arguments N.of_nat : simpl never.
Arguments N.pow : simpl never.
Arguments N.shiftl : simpl never.
Arguments N.shiftr : simpl never.

Section Again.
  Variable bits : N.
  Variable crc : list N -> N.

  (* a failed read_exact has drained the input *)
  Lemma next_header_esystem : forall f pos rest p r,
    next_header bits f pos rest = HErr ESystem p r -> r = [].
  Proof.
    induction f as [|f IH]; intros pos rest p r H; cbn [next_header] in H; [discriminate|].
    destruct rest as [|b rest1]; [discriminate|].
    destruct (b =? 0).
    - destruct (r_true_up bits (pos + 1) rest1) as [[pos2 rest2]|]; [eapply IH; exact H|discriminate].
    - destruct (HEADER_MAX_SIZE <? b); [discriminate|].
      destruct (take_exact rest1 b) as [[hb rest2]|]; [|injection H as _ <-; reflexivity].
      destruct (parse_header hb); [|discriminate].
      destruct (TABLE_FULL_SIZE <? h_size h); discriminate.
  Qed.

  Lemma next_frame_esystem : forall hf pos rest buf p r,
    next_frame bits crc hf pos rest buf = FrErr ESystem p r -> r = [].
  Proof.
    intros hf pos rest buf p r H. unfold next_frame in H.
    destruct (next_header bits hf pos rest) as [|e0 p0 r0| |h1 pos1 rest1] eqn:NH; try discriminate.
    - injection H as -> _ <-. eapply next_header_esystem. exact NH.
    - destruct (take_exact rest1 (h_size h1)) as [[body rest2]|]; [|injection H as _ <-; reflexivity].
      destruct (crc32 crc body =? h_crc h1); discriminate.
  Qed.

  Lemma next_header_not_nsh : forall f pos rest p r,
    next_header bits f pos rest <> HErr ENoSecondHeader p r.
  Proof.
    induction f as [|f IH]; intros pos rest p r H; cbn [next_header] in H; [discriminate|].
    destruct rest as [|b rest1]; [discriminate|]. destruct (b =? 0).
    - destruct (r_true_up bits (pos + 1) rest1) as [[q1 q2]|]; [eapply IH; exact H|discriminate].
    - destruct (HEADER_MAX_SIZE <? b); [discriminate|].
      destruct (take_exact rest1 b) as [[hb rest2]|]; [|discriminate].
      destruct (parse_header hb) as [hh|]; [|discriminate]. destruct (TABLE_FULL_SIZE <? h_size hh); discriminate.
  Qed.

  Lemma next_frame_not_nsh : forall hf pos rest buf p r,
    next_frame bits crc hf pos rest buf <> FrErr ENoSecondHeader p r.
  Proof.
    intros hf pos rest buf p r H. unfold next_frame in H.
    destruct (next_header bits hf pos rest) as [|e0 p0 r0| |h1 pos1 rest1] eqn:NH; try discriminate.
    - injection H as -> -> ->. eapply next_header_not_nsh. exact NH.
    - destruct (take_exact rest1 (h_size h1)) as [[body rest2]|]; [|discriminate].
      destruct (crc32 crc body =? h_crc h1); discriminate.
  Qed.

  Lemma next_from_buffer_err : forall pos rest pend e st',
    next_from_buffer pos rest pend = NErr e st' -> e <> ESystem /\ e <> ENoSecondHeader /\ r_pend st' = [].
  Proof.
    intros pos rest pend e st' H. unfold next_from_buffer in H.
    destruct pend as [|x pend']; [injection H as <- <-; repeat split; discriminate|].
    destruct (parse_kve (x :: pend')) as [[[isput k] rem]|]; [|injection H as <- <-; repeat split; discriminate].
    destruct (kv_shared k =? 0); [discriminate|]. injection H as <- <-. repeat split; discriminate.
  Qed.

  (* after these two errors nothing is left to read and nothing is pending *)
  Lemma err_state_drained : forall hf st e st',
    next bits crc hf st = NErr e st' -> e = ESystem \/ e = ENoSecondHeader ->
    r_rest st' = [] /\ r_pend st' = [].
  Proof.
    intros hf [pos rest pend] e st' H Hk. unfold next in H. cbn [r_pos r_rest r_pend] in H.
    destruct pend as [|x pend'].
    2:{ apply next_from_buffer_err in H. destruct H as (H1 & H2 & _). destruct Hk; contradiction. }
    destruct (next_frame bits crc hf pos rest []) as [|e1 p1 r1| |h pos1 rest1 buf1] eqn:F1; try discriminate.
    - injection H as -> <-. cbn [r_rest r_pend]. split; [|reflexivity].
      destruct Hk as [->| ->]; [eapply next_frame_esystem; exact F1|].
      exfalso. eapply next_frame_not_nsh. exact F1.
    - destruct (h_disc h =? HEADER_WHOLE).
      + apply next_from_buffer_err in H. destruct H as (H1 & H2 & _). destruct Hk; contradiction.
      + destruct (h_disc h =? HEADER_FIRST).
        2:{ injection H as <- _. destruct Hk; discriminate. }
        destruct (r_true_up bits pos1 rest1) as [[pos2 rest2]|].
        2:{ injection H as <- _. destruct Hk; discriminate. }
        destruct (next_frame bits crc hf pos2 rest2 buf1) as [|e2 p2 r2| |h2 pos3 rest3 buf3] eqn:F2; try discriminate.
        * injection H as _ <-. split; reflexivity.
        * injection H as -> <-. cbn [r_rest r_pend]. split; [|reflexivity].
          destruct Hk as [->| ->]; [eapply next_frame_esystem; exact F2|].
          exfalso. eapply next_frame_not_nsh. exact F2.
        * destruct (h_disc h2 =? HEADER_SECOND).
          -- apply next_from_buffer_err in H. destruct H as (H1 & H2 & _). destruct Hk; contradiction.
          -- injection H as <- _. destruct Hk; discriminate.
  Qed.

  Lemma read_all_st_spec : forall hf fuel st,
    let '(es, r, o) := read_all_st bits crc hf fuel st in
    read_all bits crc hf fuel st = (es, r) /\
    (forall e, r = RErr e -> e = ESystem \/ e = ENoSecondHeader ->
       exists st', o = Some st' /\ r_rest st' = [] /\ r_pend st' = []) /\
    (forall st', o = Some st' -> exists e, r = RErr e).
  Proof.
    intros hf fuel. induction fuel as [|fuel IH]; intros st; cbn [read_all_st read_all].
    - split; [reflexivity|]. split; [intros e H; discriminate|intros st' H; discriminate].
    - destruct (next bits crc hf st) as [|e0 st0| |e0 st1] eqn:Hn.
      + split; [reflexivity|]. split; [intros e H; discriminate|intros st' H; discriminate].
      + split; [reflexivity|]. split.
        * intros e H Hk. injection H as <-.
          exists st0. split; [reflexivity|]. eapply err_state_drained; eassumption.
        * intros st' _. exists e0. reflexivity.
      + split; [reflexivity|]. split; [intros e H; discriminate|intros st' H; discriminate].
      + specialize (IH st1). destruct (read_all_st bits crc hf fuel st1) as [[es r] o].
        destruct IH as [E Ho]. rewrite E. split; [reflexivity|exact Ho].
  Qed.

  Lemma again_drained : forall hf n st, (0 < hf)%nat -> r_rest st = [] -> r_pend st = [] ->
    again bits crc hf n st = repeat AEnd n.
  Proof.
    intros hf n. induction n as [|n IH]; intros [pos rest pend] Hhf Hr Hp; [reflexivity|].
    cbn [r_rest r_pend] in Hr, Hp. subst rest pend. cbn [again repeat].
    assert (E : next bits crc hf {| r_pos := pos; r_rest := []; r_pend := [] |} = NEnd).
    { destruct hf as [|hf]; [inversion Hhf|]. reflexivity. }
    rewrite E. f_equal. apply IH; [exact Hhf|reflexivity|reflexivity].
  Qed.

  Hypothesis HB : HEADER_MAX_SIZE < 2 ^ bits.

  Lemma read_log_prefix_kind : forall rollover ess rs file n,
    Forall (Forall wf_entry) ess ->
    write_log bits crc rollover (map ebytes ess) = (rs, file) ->
    exists r, read_log bits crc (firstn n file) = (concat (durable (len (firstn n file)) rs ess), r) /\
              (r = REnd \/ exists e, r = RErr e /\ (e = ESystem \/ e = ENoSecondHeader)).
  Proof.
    intros rollover ess rs file n Hes H. unfold write_log in H.
    destruct (append_all bits crc rollover (w0) (map ebytes ess)) as [rs0 st'] eqn:E.
    inversion H; subst rs0 file. clear H.
    destruct (read_written_gen bits crc HB rollover ess w0 rs st' wf_w0 Hes E) as (S & HS & HR).
    change (w_file w0) with (@nil N) in HS. cbn [app] in HS.
    set (F := firstn n (w_file st')).
    destruct (HR F (skipn n (w_file st')) (Datatypes.S (length F))) as (r & HRd & Hre & Hrs & Hlen).
    { unfold F. rewrite <- HS. apply firstn_skipn. }
    { apply Nat.lt_succ_diag_r. }
    exists r. split; [|exact Hre].
    unfold read_log. change (w_bw w0) with 0 in HRd. rewrite N.add_0_l in HRd.
    eapply (reads_read_all bits crc HB); [exact HRd|]. change (w_bw w0) with 0 in Hlen. rewrite N.add_0_l in Hlen. lia.
  Qed.

  (* every cut of a written log, any number m of further calls after the loop stopped *)
  Theorem read_log_again_prefix : forall rollover ess rs file n m,
    Forall (Forall wf_entry) ess ->
    write_log bits crc rollover (map ebytes ess) = (rs, file) ->
    exists r l, read_log_again bits crc (firstn n file) m
                  = (concat (durable (len (firstn n file)) rs ess), r, l) /\
                (r = REnd \/ exists e, r = RErr e) /\
                Forall (fun a => a = AEnd) l.
  Proof.
    intros rollover ess rs file n m Hes H.
    destruct (read_log_prefix_kind rollover ess rs file n Hes H) as (r & HR & Hre).
    unfold read_log_again. unfold read_log in HR.
    set (F := firstn n file) in *. set (fuel := S (length F)) in *.
    pose proof (read_all_st_spec fuel fuel (r0 F)) as Hs.
    destruct (read_all_st bits crc fuel fuel (r0 F)) as [[es r'] o].
    destruct Hs as (E & Ho & Ho2). rewrite HR in E. injection E as <- <-.
    destruct Hre as [->|(e & -> & Hk)].
    - exists REnd. destruct o as [st1|].
      + destruct (Ho2 st1 eq_refl) as (e & He). discriminate.
      + exists []. split; [reflexivity|]. split; [now left|constructor].
    - destruct (Ho e eq_refl Hk) as (st' & -> & Hr & Hp).
      exists (RErr e), (again bits crc fuel m st'). split; [reflexivity|]. split; [right; now exists e|].
      rewrite again_drained by (try assumption; unfold fuel; lia).
      clear. induction m; constructor; auto.
  Qed.
End Again.
