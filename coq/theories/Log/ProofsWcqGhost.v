(* Log/ProofsWcqGhost.v — for a core whose accumulator remembers the inputs merged into it
   (acc_items) and whose state keeps a log of its `work` calls (clog), in every state reachable in
   the Sync42 queue machine (for every schedule):
     J: the accumulator a leader holds contains exactly the inputs g_seen[idx..] it stole;
     L: the core's log is the batch log g_batches, position by position: the k-th work call merged
        the inputs at the indices [f_k, f_k + n_k) of the link order and produced the outputs the
        machine distributed, and together the logged inputs are a prefix of g_seen.
   The proof uses the invariant of Sync42 (read only) for mutual exclusion of leaders and for the
   index arithmetic, and the frame theorem for everything else. *)
From Coq Require Import Arith List Bool Lia.
From Blue Require Import Sync42.ModelLru Sync42.ModelWaitList Sync42.ModelWcq Sync42.ProofsWaitList
  Sync42.ProofsWcqBase Sync42.ProofsWcqInv Sync42.ProofsWcqSafe Log.ProofsWcqFrame.
Import ListNotations.
Open Scope nat_scope.

Local Arguments Nat.modulo : simpl never.
Local Arguments Nat.div : simpl never.
Local Arguments s_linked {T}. Local Arguments s_value {T}. Local Arguments w_head {T}. Local Arguments w_tail {T}.
Local Arguments w_waiting {T}. Local Arguments w_slots {T}. Local Arguments mkWl {T}. Local Arguments nslots {T}.
Local Arguments slot_at {T}. Local Arguments set_slot {T}. Local Arguments with_head {T}. Local Arguments with_tail {T}.
Local Arguments with_waiting {T}. Local Arguments invariants_ok {T}. Local Arguments wl_full {T}.
Local Arguments Linked {T}. Local Arguments MustWait {T}. Local Arguments wl_link_try {T}. Local Arguments wl_link_wake {T}.
Local Arguments wl_unlink {T}. Local Arguments wl_notify_head {T}. Local Arguments wl_store {T}. Local Arguments wl_load {T}.
Local Arguments wl_is_head {T}. Local Arguments wl_iter_next {T}. Local Arguments live {T}. Local Arguments wl_new {T}.
Local Arguments wl_wf {T}. Local Arguments link_new {T}.
Local Arguments in_live {T}. Local Arguments live_sorted {T}. Local Arguments live_nodup {T}. Local Arguments live_hd {T}.
Local Arguments live_nil_head {T}. Local Arguments slot_at_set_same {T}. Local Arguments slot_at_set_other {T}.
Local Arguments wf_invariants_ok {T}. Local Arguments unlink_spec {T}. Local Arguments link_new_spec {T}.
Local Arguments wl_link_try_unfold {T}. Local Arguments store_spec {T}. Local Arguments nslots_link_new {T}.
Local Arguments wl_wf_split {T}.
Local Arguments PIdle {Inp Outp Acc}. Local Arguments PLinkSleep {Inp Outp Acc}. Local Arguments PEnter {Inp Outp Acc}.
Local Arguments PTest {Inp Outp Acc}. Local Arguments PLoad {Inp Outp Acc}. Local Arguments PWait {Inp Outp Acc}.
Local Arguments PSleep {Inp Outp Acc}. Local Arguments PExitUnlink {Inp Outp Acc}.
Local Arguments PExitWA {Inp Outp Acc}. Local Arguments PExitNotify {Inp Outp Acc}.
Local Arguments PHead {Inp Outp Acc}. Local Arguments PLockCore {Inp Outp Acc}. Local Arguments PBatch {Inp Outp Acc}.
Local Arguments PWork {Inp Outp Acc}. Local Arguments PDist {Inp Outp Acc}. Local Arguments PLeaderLoad {Inp Outp Acc}.
Local Arguments PLeaderUnlink {Inp Outp Acc}. Local Arguments PLeaderWA {Inp Outp Acc}.
Local Arguments PLeaderClear {Inp Outp Acc}. Local Arguments PLeaderNotify {Inp Outp Acc}.
Local Arguments mkThread {Inp Outp Acc}. Local Arguments t_pc {Inp Outp Acc}. Local Arguments t_todo {Inp Outp Acc}.
Local Arguments t_done {Inp Outp Acc}.
Local Arguments mkG {Inp Outp Acc CS}. Local Arguments g_wl {Inp Outp Acc CS}. Local Arguments g_S {Inp Outp Acc CS}.
Local Arguments g_C {Inp Outp Acc CS}. Local Arguments g_dw {Inp Outp Acc CS}. Local Arguments g_core {Inp Outp Acc CS}.
Local Arguments g_threads {Inp Outp Acc CS}. Local Arguments g_links {Inp Outp Acc CS}.
Local Arguments g_seen {Inp Outp Acc CS}. Local Arguments g_batches {Inp Outp Acc CS}.
Local Arguments with_threads {Inp Outp Acc CS}. Local Arguments with_wl {Inp Outp Acc CS}.
Local Arguments with_S {Inp Outp Acc CS}. Local Arguments with_C {Inp Outp Acc CS}.
Local Arguments with_dw {Inp Outp Acc CS}. Local Arguments set_pc {Inp Outp Acc}.
Local Arguments set_thread {Inp Outp Acc CS}. Local Arguments tokenize {Inp Outp Acc}.
Local Arguments wake_nth {Inp Outp Acc}. Local Arguments count_sel {Inp Outp Acc}.
Local Arguments notify_one {Inp Outp Acc}. Local Arguments sleeps_on {Inp Outp Acc}.
Local Arguments sleeps_wa {Inp Outp Acc}. Local Arguments notify_cond {Inp Outp Acc CS}.
Local Arguments notify_wa {Inp Outp Acc CS}.
Local Arguments SOk {Inp Outp Acc CS}. Local Arguments SBlocked {Inp Outp Acc CS}.
Local Arguments SDone {Inp Outp Acc CS}. Local Arguments SPanic {Inp Outp Acc CS}.
Local Arguments after_link {Inp Outp Acc CS}. Local Arguments finish {Inp Outp Acc}.
Local Arguments spurious {Inp Outp Acc CS}. Local Arguments thread_finished {Inp Outp Acc}.
Local Arguments all_finished {Inp Outp Acc CS}.

Lemma nth_error_firstn : forall {A} (l : list A) n k,
  nth_error (firstn n l) k = if k <? n then nth_error l k else None.
Proof.
  intros A l. induction l as [|x l IH]; intros n k.
  - rewrite firstn_nil. destruct k; destruct (_ <? _); reflexivity.
  - destruct n as [|n]; [destruct k; reflexivity|]. destruct k as [|k]; [reflexivity|].
    cbn [firstn nth_error]. rewrite IH. reflexivity.
Qed.

Section PosBatches.
  Context {Inp Outp : Type}.
  Definition total (l : list (list Inp * list Outp)) : nat := length (concat (map fst l)).

  Fixpoint pos_batches (f : nat) (l : list (list Inp * list Outp)) : list (nat * nat * list Outp) :=
    match l with
    | [] => []
    | (items, outs) :: r => (f, length items, outs) :: pos_batches (f + length items) r
    end.

  Lemma total_cons : forall it outs l, total ((it, outs) :: l) = length it + total l.
  Proof. intros. unfold total. cbn [map fst concat]. now rewrite app_length. Qed.

  Lemma total_snoc : forall l it outs, total (l ++ [(it, outs)]) = total l + length it.
  Proof.
    intros. unfold total. rewrite map_app, concat_app, app_length. cbn [map fst concat].
    rewrite app_nil_r. reflexivity.
  Qed.

  Lemma pos_batches_snoc : forall l f it outs,
    pos_batches f (l ++ [(it, outs)]) = pos_batches f l ++ [(f + total l, length it, outs)].
  Proof.
    induction l as [|[it0 o0] l IH]; intros f it outs; cbn [app pos_batches].
    - unfold total. cbn. now rewrite Nat.add_0_r.
    - rewrite IH. rewrite total_cons. now rewrite Nat.add_assoc.
  Qed.

  Lemma batches_from_pos : forall l f e,
    batches_from f (pos_batches f l) = Some e -> e = f + total l.
  Proof.
    induction l as [|[it o] l IH]; intros f e H; cbn [pos_batches batches_from] in H.
    - injection H as <-. unfold total. cbn. lia.
    - destruct ((f =? f) && (1 <=? length it) && (length it <=? length o)); [|discriminate].
      apply IH in H. rewrite total_cons. lia.
  Qed.
End PosBatches.

Section Ghost.
  Context {Inp Outp Acc CS : Type}.
  Context {acc0 : Acc} {can_batch : CS -> Acc -> Inp -> bool} {batch : CS -> Acc -> Inp -> CS * Acc}
          {work : CS -> nat -> Acc -> CS * list Outp}.
  Notation pc := (pc Inp Outp Acc).
  Notation thread := (thread Inp Outp Acc).
  Notation gstate := (gstate Inp Outp Acc CS).
  Notation TSTEP := (tstep Inp Outp Acc CS acc0 can_batch batch work).
  Notation EXEC := (exec Inp Outp Acc CS acc0 can_batch batch work).

  (* the ghost interface of the core *)
  Variable acc_items : Acc -> list Inp.
  Variable clog : CS -> list (list Inp * list Outp).
  Hypothesis acc_items0 : acc_items acc0 = [].
  Hypothesis acc_items_batch : forall cs acc i, acc_items (snd (batch cs acc i)) = acc_items acc ++ [i].
  Hypothesis clog_batch : forall cs acc i, clog (fst (batch cs acc i)) = clog cs.
  Hypothesis clog_work : forall cs n acc,
    clog (fst (work cs n acc)) = clog cs ++ [(acc_items acc, snd (work cs n acc))].
  Hypothesis work_len : forall cs n acc, n <= length (snd (work cs n acc)).

  Variable progs : list (list Inp).

  Definition accJ (seen : list Inp) (p : pc) : Prop :=
    match p with
    | PBatch idx _ _ acc | PWork idx _ acc => acc_items acc = skipn idx seen
    | _ => True
    end.
  Definition J (g : gstate) : Prop :=
    forall u thu, nth_error (g_threads g) u = Some thu -> accJ (g_seen g) (t_pc thu).
  Definition L (g : gstate) : Prop :=
    g_batches g = pos_batches 0 (clog (g_core g)) /\
    concat (map fst (clog (g_core g))) = firstn (total (clog (g_core g))) (g_seen g) /\
    total (clog (g_core g)) <= length (g_seen g).
  Definition GI (g : gstate) : Prop := J g /\ L g.

  Lemma accJ_tok : forall seen (p : pc), accJ seen (tokenize p) <-> accJ seen p.
  Proof. intros seen p. destruct p as [| i [|] | | | | | idx [|] | | | | | | | | | | | | | ]; cbn; tauto. Qed.

  Lemma holdsC_acc : forall (p : pc) seen, holdsC p = false -> accJ seen p.
  Proof. intros p seen H. destruct p; cbn in *; try exact I; discriminate. Qed.

  Lemma GI_init : forall n core, clog core = [] -> GI (ginit Inp Outp Acc CS n core progs).
  Proof.
    intros n core Hc. split.
    - intros u thu Hu. unfold ginit in Hu. cbn [g_threads] in Hu.
      apply nth_error_In in Hu. apply in_map_iff in Hu. destruct Hu as (p & <- & _). exact I.
    - unfold L, ginit. cbn [g_batches g_core g_seen]. rewrite Hc. cbn. repeat split; lia.
  Qed.

  Lemma nth_error_upd_eq : forall {A} t (x : A) l, t < length l -> nth_error (upd t x l) t = Some x.
  Proof.
    intros A t x l. revert t. induction l as [|y l IH]; intros t H; [inversion H|].
    destruct t; cbn; [reflexivity|]. apply IH. cbn in H. lia.
  Qed.

  Lemma nth_error_upd_neq : forall {A} t u (x : A) l, u <> t -> nth_error (upd t x l) u = nth_error l u.
  Proof.
    intros A t u x l. revert t u. induction l as [|y l IH]; intros t u H; [destruct t; reflexivity|].
    destruct t, u; cbn; try reflexivity; [contradiction|]. apply IH. lia.
  Qed.

  (* one step of one thread *)
  Lemma GI_tstep : forall (g g' : gstate) t c,
    Inv progs g -> GI g -> TSTEP g t c = SOk g' -> GI g'.
  Proof.
    intros g g' t c (lo & cov & ld & HI) [HJ HL] Hs.
    destruct (nth_error (g_threads g) t) as [th|] eqn:Ht.
    2:{ unfold tstep in Hs. rewrite Ht in Hs. discriminate. }
    destruct (tstep_frame g g' t c th Hs Ht) as (th' & ths1 & Htok & Hths & Hk).
    assert (Hlen1 : length ths1 = length (g_threads g)) by (symmetry; eapply Forall2_len; exact Htok).
    assert (Htlt : t < length ths1).
    { rewrite Hlen1. apply nth_error_Some. rewrite Ht. discriminate. }
    assert (Htv := i_tinv _ _ _ _ _ HI t th Ht).
    (* every other thread: same pc up to a token, and if it holds C the stepping thread does not *)
    assert (Hother : forall u thu', u <> t -> nth_error (g_threads g') u = Some thu' ->
              exists thu, nth_error (g_threads g) u = Some thu /\
                          (t_pc thu' = t_pc thu \/ t_pc thu' = tokenize (t_pc thu))).
    { intros u thu' Hne Hu. rewrite Hths, nth_error_upd_neq in Hu by exact Hne.
      destruct (Forall2_nth_r _ _ _ _ _ Htok Hu) as (thu & Hthu & Ht1).
      exists thu. split; [exact Hthu|]. apply tok1_fields in Ht1. tauto. }
    assert (HJother : g_seen g' = g_seen g -> forall u thu', u <> t ->
              nth_error (g_threads g') u = Some thu' -> accJ (g_seen g') (t_pc thu')).
    { intros Hseen u thu' Hne Hu. destruct (Hother u thu' Hne Hu) as (thu & Hthu & [E|E]);
        rewrite Hseen, E; [|apply accJ_tok]; exact (HJ u thu Hthu). }
    assert (Hself : nth_error (g_threads g') t = Some th') by (rewrite Hths; apply nth_error_upd_eq; exact Htlt).
    destruct HL as (HL1 & HL2 & HL3).
    destruct Hk as [(Hl & Hse & Hb & Hc) Hpp Hd
                   | i idx Hl Hse Hb Hc Hpc' Hd
                   | idx cur taken acc i Hpc Hload Hguard Hl Hse Hb Hc Hpc' Hd
                   | idx taken acc Hpc Hl Hse Hb Hc Hpc' Hd].
    - (* plain *)
      split.
      + intros u thu' Hu. destruct (Nat.eq_dec u t) as [->|Hne]; [|exact (HJother Hse u thu' Hne Hu)].
        rewrite Hself in Hu. injection Hu as <-. rewrite Hse.
        destruct (t_pc th') as [| | | | | | | | | | | | idx cur taken acc | idx taken acc | | | | | |] eqn:Hp';
          try exact I; cbn [plain_pc] in Hpp.
        * destruct Hpp as (Hp & -> & -> & ->). rewrite Hp in Htv. cbn [tinv] in Htv.
          destruct Htv as (_ & Hidx & _). cbn [accJ]. rewrite acc_items0.
          rewrite skipn_all2; [reflexivity|lia].
        * destruct Hpp as (cur & Hp). specialize (HJ t th Ht). rewrite Hp in HJ. exact HJ.
      + unfold L. rewrite Hb, Hc, Hse. auto.
    - (* link *)
      split.
      + intros u thu' Hu. destruct (Nat.eq_dec u t) as [->|Hne]; [|exact (HJother Hse u thu' Hne Hu)].
        rewrite Hself in Hu. injection Hu as <-. rewrite Hpc'. exact I.
      + unfold L. rewrite Hb, Hc, Hse. auto.
    - (* steal *)
      rewrite Hpc in Htv. cbn [tinv] in Htv. destruct Htv as (_ & _ & _ & Hcur1 & Hcur2).
      split.
      + intros u thu' Hu. destruct (Nat.eq_dec u t) as [->|Hne].
        * rewrite Hself in Hu. injection Hu as <-. rewrite Hpc'. cbn [accJ].
          rewrite acc_items_batch, Hse. specialize (HJ t th Ht). rewrite Hpc in HJ. cbn [accJ] in HJ.
          rewrite HJ. rewrite skipn_app. replace (idx - length (g_seen g)) with 0 by lia. reflexivity.
        * destruct (Hother u thu' Hne Hu) as (thu & Hthu & E).
          apply holdsC_acc.
          destruct (holdsC (t_pc thu')) eqn:HC; [|reflexivity]. exfalso. apply Hne.
          assert (HCu : holdsC (t_pc thu) = true).
          { destruct E as [E|E]; rewrite E in HC; [exact HC|]. rewrite holdsC_tok in HC. exact HC. }
          apply (lockinv_unique holdsC (g_C g) (g_threads g) u t thu th (i_C _ _ _ _ _ HI) Hthu Ht HCu).
          rewrite Hpc. reflexivity.
      + unfold L. rewrite Hb, Hc, clog_batch, Hse. split; [exact HL1|]. split.
        * rewrite firstn_app. replace (total (clog (g_core g)) - length (g_seen g)) with 0 by lia.
          cbn [firstn]. rewrite app_nil_r. exact HL2.
        * rewrite app_length. lia.
    - (* work *)
      rewrite Hpc in Htv. cbn [tinv] in Htv. destruct Htv as (_ & _ & Hcov & Hserved & Htk).
      assert (Hcov' : cov = total (clog (g_core g))).
      { pose proof (i_batches _ _ _ _ _ HI) as Hbf. rewrite HL1 in Hbf. apply batches_from_pos in Hbf. lia. }
      specialize (HJ t th Ht) as HJt. rewrite Hpc in HJt. cbn [accJ] in HJt.
      split.
      + intros u thu' Hu. destruct (Nat.eq_dec u t) as [->|Hne]; [|exact (HJother Hse u thu' Hne Hu)].
        rewrite Hself in Hu. injection Hu as <-. rewrite Hpc'. exact I.
      + unfold L. rewrite Hb, Hc, clog_work, Hse.
        assert (Hlenacc : length (acc_items acc) = taken).
        { rewrite HJt, skipn_length. lia. }
        split; [|split].
        * rewrite pos_batches_snoc, <- HL1. rewrite Hlenacc. cbn [Nat.add]. rewrite <- Hcov', Hcov. reflexivity.
        * rewrite map_app, concat_app. cbn [map fst concat]. rewrite app_nil_r.
          rewrite total_snoc, Hlenacc, <- Hcov', Hcov, Hserved.
          rewrite firstn_all, HL2, HJt, <- Hcov', Hcov. apply firstn_skipn.
        * rewrite total_snoc, Hlenacc. lia.
  Qed.

  Lemma GI_spurious : forall (g : gstate) t, GI g -> GI (spurious g t).
  Proof.
    intros g t [HJ HL]. unfold spurious.
    destruct (nth_error (g_threads g) t) as [th|] eqn:Ht; [|split; assumption].
    split.
    - intros u thu Hu. unfold set_thread, with_threads in Hu. cbn [g_threads g_seen] in *.
      destruct (Nat.eq_dec u t) as [->|Hne].
      + rewrite nth_error_upd_eq in Hu by (apply nth_error_Some; rewrite Ht; discriminate).
        injection Hu as <-. cbn [set_pc t_pc]. apply accJ_tok. exact (HJ t th Ht).
      + rewrite nth_error_upd_neq in Hu by exact Hne. exact (HJ u thu Hu).
    - exact HL.
  Qed.

  Theorem GI_exec : forall (g g' : gstate) a,
    Inv progs g -> GI g -> EXEC g a = Ok g' -> GI g'.
  Proof.
    intros g g' [t c | t] HI HG H; cbn [exec] in H.
    - destruct (TSTEP g t c) as [g1 | | |] eqn:Hs; try discriminate; injection H as <-;
        [eapply GI_tstep; eassumption | exact HG | exact HG].
    - injection H as <-. apply GI_spurious. exact HG.
  Qed.

  (* ---- consequences used by the log *)
  Lemma in_links_progs : forall (g : gstate) idx u i,
    Inv progs g -> nth_error (g_links g) idx = Some (u, i) -> In i (nth u progs []).
  Proof.
    intros g idx u i (lo & cov & ld & HI) Hl.
    pose proof (i_links_thr _ _ _ _ _ HI idx u i Hl) as Hu.
    destruct (nth_error (g_threads g) u) as [thu|] eqn:Hthu.
    2:{ apply nth_error_None in Hthu. lia. }
    rewrite <- (i_prog _ _ _ _ _ HI u thu Hthu). apply in_or_app. left.
    apply in_map_iff. exists (u, i). split; [reflexivity|].
    apply filter_In. split; [eapply nth_error_In; exact Hl | cbn; apply Nat.eqb_refl].
  Qed.

  Lemma in_progs_concat : forall u (i : Inp), In i (nth u progs []) -> In i (concat progs).
  Proof.
    intros u i H. destruct (Nat.lt_ge_cases u (length progs)) as [Hlt|Hge].
    - apply in_concat. exists (nth u progs []). split; [apply nth_In; exact Hlt|exact H].
    - rewrite nth_overflow in H by exact Hge. contradiction.
  Qed.

  Lemma seen_in_progs : forall (g : gstate) i, Inv progs g -> In i (g_seen g) -> In i (concat progs).
  Proof.
    intros g i HI Hin. destruct HI as (lo & cov & ld & HI') eqn:E. clear E.
    rewrite (i_seen _ _ _ _ _ HI') in Hin. apply in_map_iff in Hin. destruct Hin as ([u j] & <- & Hin).
    apply (In_nth_error) in Hin. destruct Hin as (n & Hn).
    assert (Hl : nth_error (g_links g) n = Some (u, j)).
    { destruct (Nat.lt_ge_cases n (length (g_seen g))) as [Hlt|Hge].
      - rewrite nth_error_firstn in Hn. destruct (Nat.ltb_spec n (length (g_seen g))); [exact Hn|lia].
      - rewrite nth_error_firstn in Hn. destruct (Nat.ltb_spec n (length (g_seen g))); [lia|discriminate]. }
    eapply in_progs_concat. eapply in_links_progs; [exists lo, cov, ld; exact HI'|exact Hl].
  Qed.

  (* what the leader hands to core.work *)
  Lemma work_step_facts : forall (g : gstate) t th idx taken acc,
    Inv progs g -> GI g -> nth_error (g_threads g) t = Some th -> t_pc th = PWork idx taken acc ->
    1 <= taken /\ taken = length (acc_items acc) /\
    (forall i, In i (acc_items acc) -> In i (concat progs)).
  Proof.
    intros g t th idx taken acc HI [HJ HL] Ht Hpc.
    pose proof HI as (lo & cov & ld & HI').
    pose proof (i_tinv _ _ _ _ _ HI' t th Ht) as Htv. rewrite Hpc in Htv. cbn [tinv] in Htv.
    destruct Htv as (_ & _ & _ & Hserved & Htk).
    specialize (HJ t th Ht). rewrite Hpc in HJ. cbn [accJ] in HJ.
    split; [exact Htk|]. split.
    - rewrite HJ, skipn_length. lia.
    - intros i Hi. rewrite HJ in Hi. apply (seen_in_progs g i HI).
      rewrite <- (firstn_skipn idx (g_seen g)). apply in_or_app. right. exact Hi.
  Qed.

  Lemma in_pos_batches : forall (l : list (list Inp * list Outp)) f0 f n outs,
    In (f, n, outs) (pos_batches f0 l) ->
    exists k it, nth_error l k = Some (it, outs) /\ f = f0 + total (firstn k l) /\ n = length it.
  Proof.
    induction l as [|[it o] l IH]; intros f0 f n outs H; cbn [pos_batches] in H; [contradiction|].
    destruct H as [H|H].
    - injection H as <- <- <-. exists 0, it. cbn. unfold total. cbn. repeat split; lia.
    - destruct (IH _ _ _ _ H) as (k & it' & Hk & Hf & Hn). exists (S k), it'. cbn [nth_error firstn].
      rewrite total_cons. repeat split; [exact Hk|lia|exact Hn].
  Qed.

  (* a returned call: the work call that answered it, by position in the core's log *)
  Lemma done_in_log : forall (g : gstate) u thu idx o,
    Inv progs g -> GI g -> nth_error (g_threads g) u = Some thu -> In (idx, o) (t_done thu) ->
    exists k it outs, nth_error (clog (g_core g)) k = Some (it, outs) /\
      total (firstn k (clog (g_core g))) <= idx < total (firstn k (clog (g_core g))) + length it /\
      nth_error outs (idx - total (firstn k (clog (g_core g)))) = Some o.
  Proof.
    intros g u thu idx o (lo & cov & ld & HI) [_ (HL1 & _)] Hu Hin.
    destruct (i_done _ _ _ _ _ HI u thu idx o Hu Hin) as (f & n & outs & Hb & Hr & Ho).
    rewrite HL1 in Hb. destruct (in_pos_batches _ _ _ _ _ Hb) as (k & it & Hk & Hf & Hn).
    cbn [Nat.add] in Hf. subst f n. exists k, it, outs. auto.
  Qed.

  (* the input a logged work call merged at a given link index is the input linked there *)
  Lemma nth_concat_log : forall (l : list (list Inp * list Outp)) k it outs j,
    nth_error l k = Some (it, outs) -> j < length it ->
    nth_error (concat (map fst l)) (total (firstn k l) + j) = nth_error it j.
  Proof.
    induction l as [|[it0 o0] l IH]; intros k it outs j Hk Hj; [destruct k; discriminate|].
    destruct k as [|k]; cbn [nth_error firstn] in *.
    - injection Hk as -> ->. unfold total. cbn [map fst concat length Nat.add].
      rewrite nth_error_app1 by exact Hj. reflexivity.
    - rewrite total_cons. cbn [map fst concat]. rewrite nth_error_app2 by lia.
      replace (length it0 + total (firstn k l) + j - length it0) with (total (firstn k l) + j) by lia.
      eapply IH; eassumption.
  Qed.

  Lemma logged_item_is_link : forall (g : gstate) k it outs idx,
    Inv progs g -> GI g -> nth_error (clog (g_core g)) k = Some (it, outs) ->
    total (firstn k (clog (g_core g))) <= idx < total (firstn k (clog (g_core g))) + length it ->
    exists u i, nth_error (g_links g) idx = Some (u, i) /\
                nth_error it (idx - total (firstn k (clog (g_core g)))) = Some i.
  Proof.
    intros g k it outs idx (lo & cov & ld & HI) [_ (_ & HL2 & HL3)] Hk Hr.
    set (f := total (firstn k (clog (g_core g)))) in *.
    assert (E : nth_error (concat (map fst (clog (g_core g)))) idx = nth_error it (idx - f)).
    { replace idx with (f + (idx - f)) at 1 by lia. eapply nth_concat_log; [exact Hk|lia]. }
    assert (Hlt : idx < total (clog (g_core g))).
    { unfold total. apply nth_error_Some. rewrite E. apply nth_error_Some. lia. }
    rewrite HL2 in E. rewrite nth_error_firstn in E.
    destruct (Nat.ltb_spec idx (total (clog (g_core g)))) as [_|]; [|lia].
    rewrite (i_seen _ _ _ _ _ HI) in E. rewrite nth_error_map, nth_error_firstn in E.
    destruct (Nat.ltb_spec idx (length (g_seen g))) as [_|]; [|lia].
    destruct (nth_error (g_links g) idx) as [[u i]|] eqn:Hl; cbn [option_map] in E.
    - exists u, i. split; [reflexivity|]. now symmetry.
    - exfalso. symmetry in E. apply nth_error_None in E. lia.
  Qed.
End Ghost.

(* ---- the can_batch chain: for a core whose `batch` leaves the core state alone, the accumulator a
   leader holds is the fold of `batch` over the inputs it stole, and every input after the first
   passed can_batch against the accumulator of the ones before *)
Section Chain.
  Context {Inp Outp Acc CS : Type}.
  Context {acc0 : Acc} {can_batch : CS -> Acc -> Inp -> bool} {batch : CS -> Acc -> Inp -> CS * Acc}
          {work : CS -> nat -> Acc -> CS * list Outp}.
  Notation pc := (pc Inp Outp Acc).
  Notation thread := (thread Inp Outp Acc).
  Notation gstate := (gstate Inp Outp Acc CS).
  Notation TSTEP := (tstep Inp Outp Acc CS acc0 can_batch batch work).
  Notation EXEC := (exec Inp Outp Acc CS acc0 can_batch batch work).

  Variable acc_items : Acc -> list Inp.
  Hypothesis acc_items0 : acc_items acc0 = [].
  Hypothesis acc_items_batch : forall cs acc i, acc_items (snd (batch cs acc i)) = acc_items acc ++ [i].
  Hypothesis batch_core : forall cs acc i, fst (batch cs acc i) = cs.
  Variable progs : list (list Inp).

  Definition foldacc (cs : CS) (a : Acc) (l : list Inp) : Acc :=
    fold_left (fun a i => snd (batch cs a i)) l a.
  Fixpoint chain_from (cs : CS) (a : Acc) (first : bool) (l : list Inp) : bool :=
    match l with
    | [] => true
    | i :: r => (first || can_batch cs a i) && chain_from cs (snd (batch cs a i)) false r
    end.

  Lemma chain_from_snoc : forall cs l a f i,
    chain_from cs a f (l ++ [i]) =
    chain_from cs a f l && ((f && (length l =? 0)) || can_batch cs (foldacc cs a l) i).
  Proof.
    intros cs. induction l as [|x l IH]; intros a f i; cbn [app chain_from foldacc fold_left length].
    - cbn. rewrite andb_true_r. destruct f; reflexivity.
    - rewrite IH. cbn [andb Nat.eqb]. rewrite andb_false_r. cbn [orb]. unfold foldacc. now rewrite andb_assoc.
  Qed.

  Lemma foldacc_snoc : forall cs l a i, foldacc cs a (l ++ [i]) = snd (batch cs (foldacc cs a l) i).
  Proof. intros. unfold foldacc. rewrite fold_left_app. reflexivity. Qed.

  Definition accC (cs : CS) (p : pc) : Prop :=
    match p with
    | PBatch _ _ taken acc | PWork _ taken acc =>
        acc = foldacc cs acc0 (acc_items acc) /\ taken = length (acc_items acc) /\
        chain_from cs acc0 true (acc_items acc) = true
    | _ => True
    end.
  Definition JC (g : gstate) : Prop :=
    forall u thu, nth_error (g_threads g) u = Some thu -> accC (g_core g) (t_pc thu).

  Lemma accC_tok : forall cs (p : pc), accC cs (tokenize p) <-> accC cs p.
  Proof. intros cs p. destruct p as [| i [|] | | | | | idx [|] | | | | | | | | | | | | | ]; cbn; tauto. Qed.

  Lemma holdsC_accC : forall (p : pc) cs, holdsC p = false -> accC cs p.
  Proof. intros p cs H. destruct p; cbn in *; try exact I; discriminate. Qed.

  Lemma JC_init : forall n core, JC (ginit Inp Outp Acc CS n core progs).
  Proof.
    intros n core u thu Hu. unfold ginit in Hu. cbn [g_threads] in Hu.
    apply nth_error_In in Hu. apply in_map_iff in Hu. destruct Hu as (p & <- & _). exact I.
  Qed.

  Lemma JC_tstep : forall (g g' : gstate) t c,
    Inv progs g -> JC g -> TSTEP g t c = SOk g' -> JC g'.
  Proof.
    intros g g' t c (lo & cov & ld & HI) HJ Hs.
    destruct (nth_error (g_threads g) t) as [th|] eqn:Ht.
    2:{ unfold tstep in Hs. rewrite Ht in Hs. discriminate. }
    destruct (tstep_frame g g' t c th Hs Ht) as (th' & ths1 & Htok & Hths & Hk).
    assert (Hlen1 : length ths1 = length (g_threads g)) by (symmetry; eapply Forall2_len; exact Htok).
    assert (Htlt : t < length ths1).
    { rewrite Hlen1. apply nth_error_Some. rewrite Ht. discriminate. }
    assert (Hother : forall u thu', u <> t -> nth_error (g_threads g') u = Some thu' ->
              exists thu, nth_error (g_threads g) u = Some thu /\
                          (t_pc thu' = t_pc thu \/ t_pc thu' = tokenize (t_pc thu))).
    { intros u thu' Hne Hu. rewrite Hths, nth_error_upd_neq in Hu by exact Hne.
      destruct (Forall2_nth_r _ _ _ _ _ Htok Hu) as (thu & Hthu & Ht1).
      exists thu. split; [exact Hthu|]. apply tok1_fields in Ht1. tauto. }
    assert (HJother : g_core g' = g_core g -> forall u thu', u <> t ->
              nth_error (g_threads g') u = Some thu' -> accC (g_core g') (t_pc thu')).
    { intros Hcore u thu' Hne Hu. destruct (Hother u thu' Hne Hu) as (thu & Hthu & [E|E]);
        rewrite Hcore, E; [|apply accC_tok]; exact (HJ u thu Hthu). }
    assert (Hself : nth_error (g_threads g') t = Some th') by (rewrite Hths; apply nth_error_upd_eq; exact Htlt).
    (* a thread other than t that holds the core lock while t does: impossible *)
    assert (Hexcl : holdsC (t_pc th) = true -> forall u thu', u <> t ->
              nth_error (g_threads g') u = Some thu' -> accC (g_core g') (t_pc thu')).
    { intros HCt u thu' Hne Hu. destruct (Hother u thu' Hne Hu) as (thu & Hthu & E).
      apply holdsC_accC. destruct (holdsC (t_pc thu')) eqn:HC; [|reflexivity]. exfalso. apply Hne.
      assert (HCu : holdsC (t_pc thu) = true).
      { destruct E as [E|E]; rewrite E in HC; [exact HC|]. rewrite holdsC_tok in HC. exact HC. }
      exact (lockinv_unique holdsC (g_C g) (g_threads g) u t thu th (i_C _ _ _ _ _ HI) Hthu Ht HCu HCt). }
    destruct Hk as [(Hl & Hse & Hb & Hc) Hpp Hd
                   | i idx Hl Hse Hb Hc Hpc' Hd
                   | idx cur taken acc i Hpc Hload Hguard Hl Hse Hb Hc Hpc' Hd
                   | idx taken acc Hpc Hl Hse Hb Hc Hpc' Hd].
    - intros u thu' Hu. destruct (Nat.eq_dec u t) as [->|Hne]; [|exact (HJother Hc u thu' Hne Hu)].
      rewrite Hself in Hu. injection Hu as <-. rewrite Hc.
      destruct (t_pc th') as [| | | | | | | | | | | | idx cur taken acc | idx taken acc | | | | | |] eqn:Hp';
        try exact I; cbn [plain_pc] in Hpp.
      + destruct Hpp as (Hp & -> & -> & ->). cbn [accC]. rewrite acc_items0. cbn. auto.
      + destruct Hpp as (cur & Hp). specialize (HJ t th Ht). rewrite Hp in HJ. exact HJ.
    - intros u thu' Hu. destruct (Nat.eq_dec u t) as [->|Hne]; [|exact (HJother Hc u thu' Hne Hu)].
      rewrite Hself in Hu. injection Hu as <-. rewrite Hpc'. exact I.
    - assert (Hcore : g_core g' = g_core g) by (rewrite Hc; apply batch_core).
      intros u thu' Hu. destruct (Nat.eq_dec u t) as [->|Hne].
      + rewrite Hself in Hu. injection Hu as <-. rewrite Hpc', Hcore. cbn [accC].
        specialize (HJ t th Ht). rewrite Hpc in HJ. cbn [accC] in HJ. destruct HJ as (Ha & Htk & Hch).
        rewrite acc_items_batch. split; [|split].
        * rewrite foldacc_snoc, <- Ha. reflexivity.
        * rewrite app_length. cbn. lia.
        * rewrite chain_from_snoc, Hch, <- Ha, <- Htk. cbn [andb]. exact Hguard.
      + apply (Hexcl ltac:(rewrite Hpc; reflexivity) u thu' Hne Hu).
    - intros u thu' Hu. destruct (Nat.eq_dec u t) as [->|Hne].
      + rewrite Hself in Hu. injection Hu as <-. rewrite Hpc'. exact I.
      + apply (Hexcl ltac:(rewrite Hpc; reflexivity) u thu' Hne Hu).
  Qed.

  Lemma JC_spurious : forall (g : gstate) t, JC g -> JC (spurious g t).
  Proof.
    intros g t HJ. unfold spurious.
    destruct (nth_error (g_threads g) t) as [th|] eqn:Ht; [|assumption].
    intros u thu Hu. unfold set_thread, with_threads in Hu. cbn [g_threads g_core] in *.
    destruct (Nat.eq_dec u t) as [->|Hne].
    - rewrite nth_error_upd_eq in Hu by (apply nth_error_Some; rewrite Ht; discriminate).
      injection Hu as <-. cbn [set_pc t_pc]. apply accC_tok. exact (HJ t th Ht).
    - rewrite nth_error_upd_neq in Hu by exact Hne. exact (HJ u thu Hu).
  Qed.

  Theorem JC_exec : forall (g g' : gstate) a,
    Inv progs g -> JC g -> EXEC g a = Ok g' -> JC g'.
  Proof.
    intros g g' [t c | t] HI HG H; cbn [exec] in H.
    - destruct (TSTEP g t c) as [g1 | | |] eqn:Hs; try discriminate; injection H as <-;
        [eapply JC_tstep; eassumption | exact HG | exact HG].
    - injection H as <-. apply JC_spurious. exact HG.
  Qed.
End Chain.
