(* Log/Inst.v — the model instantiated with the constants of the source (definitions only).
   `crc` stays a parameter: crc32c::crc32c is external code. *)
From Coq Require Import NArith List.
From Blue Require Import Gen.Const_Log Log.ModelWire Log.Model.
Import ListNotations.
Open Scope N_scope.

Definition DEFAULT_ROLLOVER : N := 1073741824.   (* LogOptions::default(): rollover_size: 1 << 30 (a literal in the source) *)

Definition log_batch_build (es : list entry) : list (option err) * list N :=
  let '(rs, b) := batch_build BLOCK_BITS wb0 es in (rs, wb_buffer b).
Definition log_write (crc : list N -> N) (rollover : N) (bufs : list (list N)) :=
  write_log BLOCK_BITS crc rollover bufs.
Definition log_read (crc : list N -> N) (file : list N) : list entry * rend :=
  read_log BLOCK_BITS crc file.
Definition log_read_again (crc : list N -> N) (file : list N) (n : nat) : list entry * rend * list ares :=
  read_log_again BLOCK_BITS crc file n.
