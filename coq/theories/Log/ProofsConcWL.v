(* Log/ProofsConcWL.v — ConcurrentLogBuilder::append over the real wait-list-level queue model
   (Log/ModelConcWL.v = two copies of Sync42/ModelWcq.v glued as the code glues them): invariants
   that hold in every state reachable under every schedule, with no atomicity assumption. *)
From Coq Require Import NArith Arith List Bool Lia.
From Blue Require Import Gen.Const_Log Log.ModelWire Log.Model Log.ModelConc Log.ModelConcWL
  Log.ProofsWire Log.ProofsWriter Log.ProofsReader Log.ProofsTop Log.ProofsConc.
From Blue Require Import Sync42.ModelLru Sync42.ModelWaitList Sync42.ModelWcq Sync42.ProofsWaitList
  Sync42.ProofsWcqBase Sync42.ProofsWcqInv Sync42.ProofsWcqSafe Sync42.ProofsWcqProg Log.ProofsWcqFrame Log.ProofsWcqGhost.
Import ListNotations.
Open Scope nat_scope.

Local Arguments Nat.modulo : simpl never.
Local Arguments Nat.div : simpl never.
Local Arguments s_linked {T}. Local Arguments s_value {T}. Local Arguments w_head {T}. Local Arguments w_tail {T}.
Local Arguments w_waiting {T}. Local Arguments w_slots {T}. Local Arguments mkWl {T}. Local Arguments nslots {T}.
Local Arguments slot_at {T}. Local Arguments set_slot {T}. Local Arguments with_head {T}. Local Arguments with_tail {T}.
Local Arguments with_waiting {T}. Local Arguments invariants_ok {T}. Local Arguments wl_full {T}.
Local Arguments Linked {T}. Local Arguments MustWait {T}. Local Arguments wl_link_try {T}. Local Arguments wl_link_wake {T}.
Local Arguments wl_unlink {T}. Local Arguments wl_notify_head {T}. Local Arguments wl_store {T}. Local Arguments wl_load {T}.
Local Arguments wl_is_head {T}. Local Arguments wl_iter_next {T}. Local Arguments live {T}. Local Arguments wl_new {T}.
Local Arguments wl_wf {T}. Local Arguments link_new {T}.
Local Arguments in_live {T}. Local Arguments live_sorted {T}. Local Arguments live_nodup {T}. Local Arguments live_hd {T}.
Local Arguments live_nil_head {T}. Local Arguments slot_at_set_same {T}. Local Arguments slot_at_set_other {T}.
Local Arguments wf_invariants_ok {T}. Local Arguments unlink_spec {T}. Local Arguments link_new_spec {T}.
Local Arguments wl_link_try_unfold {T}. Local Arguments store_spec {T}. Local Arguments nslots_link_new {T}.
Local Arguments wl_wf_split {T}.
Local Arguments PIdle {Inp Outp Acc}. Local Arguments PLinkSleep {Inp Outp Acc}. Local Arguments PEnter {Inp Outp Acc}.
Local Arguments PTest {Inp Outp Acc}. Local Arguments PLoad {Inp Outp Acc}. Local Arguments PWait {Inp Outp Acc}.
Local Arguments PSleep {Inp Outp Acc}. Local Arguments PExitUnlink {Inp Outp Acc}.
Local Arguments PExitWA {Inp Outp Acc}. Local Arguments PExitNotify {Inp Outp Acc}.
Local Arguments PHead {Inp Outp Acc}. Local Arguments PLockCore {Inp Outp Acc}. Local Arguments PBatch {Inp Outp Acc}.
Local Arguments PWork {Inp Outp Acc}. Local Arguments PDist {Inp Outp Acc}. Local Arguments PLeaderLoad {Inp Outp Acc}.
Local Arguments PLeaderUnlink {Inp Outp Acc}. Local Arguments PLeaderWA {Inp Outp Acc}.
Local Arguments PLeaderClear {Inp Outp Acc}. Local Arguments PLeaderNotify {Inp Outp Acc}.
Local Arguments mkThread {Inp Outp Acc}. Local Arguments t_pc {Inp Outp Acc}. Local Arguments t_todo {Inp Outp Acc}.
Local Arguments t_done {Inp Outp Acc}.
Local Arguments mkG {Inp Outp Acc CS}. Local Arguments g_wl {Inp Outp Acc CS}. Local Arguments g_S {Inp Outp Acc CS}.
Local Arguments g_C {Inp Outp Acc CS}. Local Arguments g_dw {Inp Outp Acc CS}. Local Arguments g_core {Inp Outp Acc CS}.
Local Arguments g_threads {Inp Outp Acc CS}. Local Arguments g_links {Inp Outp Acc CS}.
Local Arguments g_seen {Inp Outp Acc CS}. Local Arguments g_batches {Inp Outp Acc CS}.
Local Arguments with_threads {Inp Outp Acc CS}. Local Arguments with_wl {Inp Outp Acc CS}.
Local Arguments with_S {Inp Outp Acc CS}. Local Arguments with_C {Inp Outp Acc CS}.
Local Arguments with_dw {Inp Outp Acc CS}. Local Arguments set_pc {Inp Outp Acc}.
Local Arguments set_thread {Inp Outp Acc CS}. Local Arguments tokenize {Inp Outp Acc}.
Local Arguments wake_nth {Inp Outp Acc}. Local Arguments count_sel {Inp Outp Acc}.
Local Arguments notify_one {Inp Outp Acc}. Local Arguments sleeps_on {Inp Outp Acc}.
Local Arguments sleeps_wa {Inp Outp Acc}. Local Arguments notify_cond {Inp Outp Acc CS}.
Local Arguments notify_wa {Inp Outp Acc CS}.
Local Arguments SOk {Inp Outp Acc CS}. Local Arguments SBlocked {Inp Outp Acc CS}.
Local Arguments SDone {Inp Outp Acc CS}. Local Arguments SPanic {Inp Outp Acc CS}.
Local Arguments after_link {Inp Outp Acc CS}. Local Arguments finish {Inp Outp Acc}.
Local Arguments spurious {Inp Outp Acc CS}. Local Arguments thread_finished {Inp Outp Acc}.
Local Arguments all_finished {Inp Outp Acc CS}.

(* ---------------------------------------------------------------- generic: what exec can do *)
Section ExecCases.
  Context {Inp Outp Acc CS : Type}.
  Context {acc0 : Acc} {can_batch : CS -> Acc -> Inp -> bool} {batch : CS -> Acc -> Inp -> CS * Acc}
          {work : CS -> nat -> Acc -> CS * list Outp}.
  Notation pc := (pc Inp Outp Acc).
  Notation thread := (thread Inp Outp Acc).
  Notation gstate := (gstate Inp Outp Acc CS).
  Notation TSTEP := (tstep Inp Outp Acc CS acc0 can_batch batch work).
  Notation EXEC := (exec Inp Outp Acc CS acc0 can_batch batch work).

  Inductive exec_case (g : gstate) (a : action) (g' : gstate) : Prop :=
  | ECSame : g' = g -> exec_case g a g'
  | ECSpur : (forall u thu', nth_error (g_threads g') u = Some thu' ->
                exists thu, nth_error (g_threads g) u = Some thu /\ t_done thu' = t_done thu /\
                            t_todo thu' = t_todo thu) ->
             length (g_threads g') = length (g_threads g) ->
             same_ghost g g' -> exec_case g a g'
  | ECStep : forall t c th th' ths1, a = ARun t c ->
             TSTEP g t c = SOk g' -> nth_error (g_threads g) t = Some th ->
             tokrel (g_threads g) ths1 -> g_threads g' = upd t th' ths1 ->
             nth_error (g_threads g') t = Some th' ->
             step_kind (can_batch:=can_batch) (batch:=batch) (work:=work) (acc0:=acc0) g t th th' g' ->
             exec_case g a g'.

  Lemma exec_cases : forall (g g' : gstate) a, EXEC g a = Ok g' -> exec_case g a g'.
  Proof.
    intros g g' [t c | t] H; cbn [exec] in H.
    - destruct (TSTEP g t c) as [g1 | | |] eqn:Hs; try discriminate; injection H as <-;
        [|apply ECSame; reflexivity|apply ECSame; reflexivity].
      destruct (nth_error (g_threads g) t) as [th|] eqn:Ht.
      2:{ unfold tstep in Hs. rewrite Ht in Hs. discriminate. }
      destruct (tstep_frame g g1 t c th Hs Ht) as (th' & ths1 & Htok & Hths & Hk).
      eapply (ECStep _ _ _ t c th th' ths1); try eassumption; [reflexivity|].
      rewrite Hths. apply nth_error_upd_eq. rewrite <- (Forall2_len _ _ _ Htok).
      apply nth_error_Some. rewrite Ht. discriminate.
    - injection H as <-. unfold spurious.
      destruct (nth_error (g_threads g) t) as [th|] eqn:Ht; [|apply ECSame; reflexivity].
      apply ECSpur; [| |repeat split].
      + intros u thu' Hu. unfold set_thread, with_threads in Hu. cbn [g_threads] in Hu.
        destruct (Nat.eq_dec u t) as [->|Hne].
        * rewrite nth_error_upd_eq in Hu by (apply nth_error_Some; rewrite Ht; discriminate).
          injection Hu as <-. exists th. auto.
        * rewrite nth_error_upd_neq in Hu by exact Hne. exists thu'. auto.
      + unfold set_thread, with_threads. cbn [g_threads].
        clear. revert t. induction (g_threads g) as [|x l IH]; intros [|t]; cbn; auto.
  Qed.
End ExecCases.

(* ---------------------------------------------------------------- generic: a new input for a thread *)
Section Inject.
  Context {Inp Outp Acc CS : Type}.
  Notation pc := (pc Inp Outp Acc).
  Notation thread := (thread Inp Outp Acc).
  Notation gstate := (gstate Inp Outp Acc CS).

  Definition add_todo (th : thread) (i : Inp) : thread := mkThread (t_pc th) (t_todo th ++ [i]) (t_done th).
  Definition progs_add (progs : list (list Inp)) (t : nat) (i : Inp) : list (list Inp) :=
    upd t (nth t progs [] ++ [i]) progs.

  Lemma nth_progs_add : forall progs t i u, t < length progs ->
    nth u (progs_add progs t i) [] = if u =? t then nth t progs [] ++ [i] else nth u progs [].
  Proof.
    intros progs t i u Ht. unfold progs_add.
    destruct (Nat.eqb_spec u t) as [->|Hne].
    - apply nth_error_nth. apply nth_error_upd_eq. exact Ht.
    - destruct (nth_error progs u) as [p|] eqn:Hu.
      + rewrite (nth_error_nth _ _ _ Hu). apply nth_error_nth. rewrite nth_error_upd_neq by exact Hne. exact Hu.
      + assert (Hu' : nth_error (upd t (nth t progs [] ++ [i]) progs) u = None) by (rewrite nth_error_upd_neq by exact Hne; exact Hu).
        apply nth_error_None in Hu, Hu'. rewrite !nth_overflow by assumption. reflexivity.
  Qed.

  Lemma length_upd : forall {A} t (x : A) l, length (upd t x l) = length l.
  Proof. intros A t x l. revert t. induction l as [|y l IH]; intros [|t]; cbn; auto. Qed.

  Lemma InvR_add_todo : forall progs (g : gstate) lo cov ld t th i,
    InvR progs g lo cov ld -> nth_error (g_threads g) t = Some th ->
    InvR (progs_add progs t i) (set_thread g t (add_todo th i)) lo cov ld.
  Proof.
    intros progs g lo cov ld t th i H Ht.
    destruct H as [i_wf0 i_links_len0 i_served0 i_seen0 i_lo0 i_cov0 i_live_hi0 i_input0 i_stolen0 i_output0
                   i_batches0 i_waiting0 i_S0 i_C0 i_L0 i_dw0 i_noleader0 i_idx_live0 i_live_idx0 i_own0
                   i_tinv0 i_done0 i_prog0 i_nthreads0 i_links_thr0].
    assert (Hpc : forall u b, nth_error (upd t (add_todo th i) (g_threads g)) u = Some b ->
              exists a, nth_error (g_threads g) u = Some a /\ t_pc b = t_pc a /\ t_done b = t_done a /\
                        t_todo b = if u =? t then t_todo a ++ [i] else t_todo a).
    { intros u b Hu. destruct (nth_error_upd_inv _ _ _ _ _ _ Ht Hu) as [[-> ->]|[Hne Hu']].
      - exists th. rewrite Nat.eqb_refl. auto.
      - exists b. destruct (Nat.eqb_spec u t); [contradiction|]. auto. }
    assert (Htl : t < length progs).
    { rewrite <- i_nthreads0. apply nth_error_Some. rewrite Ht. discriminate. }
    constructor; unfold set_thread, with_threads;
      cbn [g_wl g_S g_C g_dw g_core g_threads g_links g_seen g_batches]; try assumption.
    - pose proof (count_sel_upd is_ls t th (add_todo th i) (g_threads g) Ht) as E. cbn [add_todo t_pc] in E.
      rewrite i_waiting0. destruct (is_ls (t_pc th)); lia.
    - eapply lockinv_upd_keep; [eassumption|exact Ht|reflexivity].
    - eapply lockinv_upd_keep; [eassumption|exact Ht|reflexivity].
    - eapply lockinv_upd_keep; [eassumption|exact Ht|reflexivity].
    - intros u b idx Hu Hp. destruct (Hpc u b Hu) as (a & Ha & E & _). eapply i_idx_live0; [exact Ha|congruence].
    - intros idx Hin. destruct (i_live_idx0 idx Hin) as (u & a & Ha & Hp).
      destruct (Nat.eq_dec u t) as [->|Hne].
      + exists t, (add_todo th i). split; [eapply nth_error_upd_same; exact Ht|]. cbn [add_todo t_pc]. congruence.
      + exists u, a. split; [rewrite nth_error_upd_other by (intro; apply Hne; auto); exact Ha|exact Hp].
    - intros u b Hu. destruct (Hpc u b Hu) as (a & Ha & E1 & E2 & _). rewrite E1, E2. apply i_own0. exact Ha.
    - intros u b Hu. destruct (Hpc u b Hu) as (a & Ha & E1 & _). rewrite E1. apply (i_tinv0 u a Ha).
    - intros u b idx o Hu Hin. destruct (Hpc u b Hu) as (a & Ha & _ & E2 & _). rewrite E2 in Hin. eapply i_done0; eassumption.
    - intros u b Hu. destruct (Hpc u b Hu) as (a & Ha & E1 & _ & E3).
      rewrite E1, E3, (nth_progs_add progs t i u Htl).
      destruct (Nat.eqb_spec u t) as [->|Hne].
      + rewrite <- (i_prog0 t a Ha). now rewrite !app_assoc.
      + apply i_prog0. exact Ha.
    - unfold progs_add. rewrite !length_upd. assumption.
    - intros idx u inp Hl. rewrite length_upd. eapply i_links_thr0; eassumption.
  Qed.
End Inject.

(* ---------------------------------------------------------------- the two cores of the log *)
Section Cores.
  Variable bits : N.
  Variable crc : list N -> N.
  Variable rollover : N.
  Hypothesis HB : (HEADER_MAX_SIZE < 2 ^ bits)%N.

  Notation workW := (workW bits crc rollover).
  Notation can_batchW := (can_batchW bits).
  Notation gW := (gW).
  Notation gF := (gF).
  Notation EXECW := (execW bits crc rollover).

  Definition clogWl (l : list lw) : list (list inpW * list outW) :=
    map (fun e => (lw_items e, repeat (lw_out e) (lw_n e))) l.
  Definition clogW (cs : cw) := clogWl (cw_log cs).
  Definition clogFl (l : list lf) : list (list inpF * list bool) :=
    map (fun e => (lf_items e, repeat (lf_out e) (lf_n e))) l.
  Definition clogF (cs : cf) := clogFl (cf_log cs).
  Definition idW (a : accW) : list inpW := a.
  Definition idF (a : accF) : list inpF := a.

  Lemma clogW_work : forall cs n acc,
    clogW (fst (workW cs n acc)) = clogW cs ++ [(idW acc, snd (workW cs n acc))].
  Proof.
    intros cs n acc. unfold ModelConcWL.workW.
    destruct (append bits crc rollover (cw_w cs) (accW_buffer acc)) as [r st'].
    cbn [fst snd]. unfold clogW, clogWl. cbn [cw_log]. rewrite map_app. reflexivity.
  Qed.

  Lemma workW_len : forall cs n acc, n <= length (snd (workW cs n acc)).
  Proof.
    intros cs n acc. unfold ModelConcWL.workW.
    destruct (append bits crc rollover (cw_w cs) (accW_buffer acc)) as [r st'].
    cbn [snd]. rewrite repeat_length. apply le_n.
  Qed.

  Lemma clogF_work : forall cs n acc,
    clogF (fst (workF cs n acc)) = clogF cs ++ [(idF acc, snd (workF cs n acc))].
  Proof.
    intros cs n acc. unfold workF.
    destruct (accval acc <=? cf_synced cs)%N; [|destruct (cf_failed cs)]; cbn [fst snd]; unfold clogF, clogFl; cbn [cf_log];
      rewrite map_app; reflexivity.
  Qed.

  Lemma workF_len : forall cs n acc, n <= length (snd (workF cs n acc)).
  Proof.
    intros cs n acc. unfold workF.
    destruct (accval acc <=? cf_synced cs)%N; [|destruct (cf_failed cs)]; cbn [snd]; rewrite repeat_length; apply le_n.
  Qed.

  Definition GIW (g : gW) : Prop := GI idW clogW g.
  Definition GIF (g : gF) : Prop := GI idF clogF g.

  Lemma GIW_exec : forall progs (g g' : gW) a, Inv progs g -> GIW g -> EXECW g a = Ok g' -> GIW g'.
  Proof.
    intros progs g g' a HI HG H.
    apply (GI_exec (acc0:=[]) (can_batch:=can_batchW) (batch:=batchW) (work:=workW) idW clogW
             eq_refl (fun _ _ _ => eq_refl) (fun _ _ _ => eq_refl) clogW_work progs g g' a HI HG H).
  Qed.

  Lemma GIF_exec : forall progs (g g' : gF) a, Inv progs g -> GIF g -> execF g a = Ok g' -> GIF g'.
  Proof.
    intros progs g g' a HI HG H.
    apply (GI_exec (acc0:=[]) (can_batch:=can_batchF) (batch:=batchF) (work:=workF) idF clogF
             eq_refl (fun _ _ _ => eq_refl) (fun _ _ _ => eq_refl) clogF_work progs g g' a HI HG H).
  Qed.

  (* ---- the sequential invariant of the write core: the builder's file is the sequential log of
     the merged batches *)
  Open Scope N_scope.
  Definition PW (cs : cw) : Prop :=
    wf_w (cw_w cs) /\
    append_all bits crc rollover w0 (map (fun e => accW_buffer (lw_items e)) (cw_log cs))
      = (map (fun e => (lw_res e, lw_end e)) (cw_log cs), cw_w cs) /\
    Forall (fun e => lw_end e <= w_bw (cw_w cs) /\ lw_mark e <= cw_written cs) (cw_log cs).

  Lemma PW_work : forall cs n acc, PW cs ->
    PW (fst (workW cs n acc)) /\
    cw_written cs <= cw_written (fst (workW cs n acc)) /\
    w_bw (cw_w cs) <= w_bw (cw_w (fst (workW cs n acc))) /\
    cw_log (fst (workW cs n acc)) =
      cw_log cs ++ [mkLw acc n (fst (append bits crc rollover (cw_w cs) (accW_buffer acc)))
                         (w_bw (cw_w (fst (workW cs n acc))))
                         (cw_written cs + len (accW_buffer acc))] /\
    cw_written (fst (workW cs n acc)) = cw_written cs + len (accW_buffer acc).
  Proof.
    intros cs n acc (Hwf & Hfile & Hends). unfold ModelConcWL.workW.
    destruct (append bits crc rollover (cw_w cs) (accW_buffer acc)) as [r st'] eqn:Happ.
    cbn [fst snd].
    destruct (append_spec bits crc HB rollover (cw_w cs) (accW_buffer acc) r st' Hwf Happ) as [Hwf' _].
    pose proof (append_bw_mono bits crc HB _ _ _ _ _ Hwf Happ) as Hmono.
    split; [|cbn [cw_w cw_written cw_log]; split; [lia|split; [exact Hmono|split; reflexivity]]].
    unfold PW. cbn [cw_w cw_written cw_log].
    split; [exact Hwf'|]. split.
    - rewrite !map_app. cbn [map lw_items lw_res lw_end].
      rewrite append_all_snoc, Hfile, Happ. reflexivity.
    - apply Forall_app. split.
      + eapply Forall_impl; [|exact Hends]. cbn. intros e [H1 H2]. split; lia.
      + constructor; [|constructor]. cbn [lw_end lw_mark]. split; lia.
  Qed.

  (* a call whose batch was written successfully: where in the log, and the value it was handed *)
  Definition okentry (log : list lw) (id : nat) (w : N) (k : nat) (e : lw) : Prop :=
    nth_error log k = Some e /\ lw_res e = WOk /\ lw_mark e = w /\
    (total (firstn k (clogWl log)) <= id < total (firstn k (clogWl log)) + length (lw_items e))%nat.
  Definition okpair (log : list lw) (id : nat) (w : N) : Prop := exists k e, okentry log id w k e.

  Lemma okentry_app : forall log x id w k e, okentry log id w k e -> okentry (log ++ x) id w k e.
  Proof.
    intros log x id w k e (H1 & H2 & H3 & H4).
    assert (Hk : (k < length log)%nat) by (apply nth_error_Some; rewrite H1; discriminate).
    split; [rewrite nth_error_app1 by exact Hk; exact H1|]. split; [exact H2|]. split; [exact H3|].
    unfold clogWl in *. rewrite map_app, firstn_app.
    replace (k - length (map _ log))%nat with 0%nat by (rewrite map_length; lia).
    cbn [firstn]. rewrite app_nil_r. exact H4.
  Qed.

  Close Scope N_scope.
End Cores.

(* the fsync core's log: while no fdatasync has failed every work call answered true, and every
   successful fdatasync comes before the first call that answered false *)
Definition PFl (failed : bool) (log : list lf) : Prop :=
  (failed = false -> Forall (fun e => lf_out e = true) log) /\
  (forall pre e post, log = pre ++ e :: post -> lf_sync e = true -> Forall (fun y => lf_out y = true) pre).

Lemma PFl_snoc : forall f f' log x, PFl f log ->
  (f' = false -> f = false /\ lf_out x = true) -> (lf_sync x = true -> f = false) ->
  PFl f' (log ++ [x]).
Proof.
  intros f f' log x [H1 H2] Ha Hb. split.
  - intros Hf. destruct (Ha Hf) as [Hf0 Hx]. apply Forall_app. split; [apply H1; exact Hf0|]. constructor; [exact Hx|constructor].
  - intros pre e post E Hs.
    destruct (exists_last (l:=e :: post) ltac:(discriminate)) as (q & y & Eq).
    rewrite Eq, app_assoc in E. apply app_inj_tail in E. destruct E as [E <-].
    destruct post as [|z post].
    + destruct q; [|destruct q; discriminate]. cbn in Eq. injection Eq as <-. rewrite app_nil_r in E. subst pre.
      apply H1. apply Hb. exact Hs.
    + destruct q as [|e' q]; [discriminate|]. injection Eq as <- Eq.
      apply (H2 pre e q); [exact E|exact Hs].
Qed.

Lemma fold_max_ge_init : forall l a, (a <= fold_left N.max l a)%N.
Proof. induction l as [|x l IH]; intros a; cbn [fold_left]; [lia|]. eapply N.le_trans; [|apply IH]. lia. Qed.

Lemma fold_max_ge_in : forall l a w, In w l -> (w <= fold_left N.max l a)%N.
Proof.
  induction l as [|x l IH]; intros a w H; [contradiction|]. cbn [fold_left].
  destruct H as [->|H]; [|apply IH; exact H]. eapply N.le_trans; [|apply fold_max_ge_init]. lia.
Qed.

Lemma fold_max_le : forall l a W, (a <= W)%N -> (forall w, In w l -> (w <= W)%N) ->
  (fold_left N.max l a <= W)%N.
Proof.
  induction l as [|x l IH]; intros a W Ha Hall; cbn [fold_left]; [exact Ha|].
  apply IH; [|intros w Hw; apply Hall; now right]. specialize (Hall x (or_introl eq_refl)). lia.
Qed.

(* ---------------------------------------------------------------- the glued machine *)
Section Glue.
  Variable bits : N.
  Variable crc : list N -> N.
  Variable rollover : N.
  Hypothesis HB : (HEADER_MAX_SIZE < 2 ^ bits)%N.
  Variable progsW : list (list inpW).
  (* what ConcurrentLogBuilder::append lets through: non-empty batches of entries WriteBatch accepted *)
  Hypothesis progsW_ok : forall es, In es (concat progsW) -> es <> [] /\ Forall wf_entry es.

  Notation workW := (workW bits crc rollover).
  Notation EXECW := (execW bits crc rollover).
  Notation CEXEC := (cexec bits crc rollover).
  Notation PW := (PW bits crc rollover).

  Definition cW (k : kstate) : cw := g_core (k_W k).
  Definition cF (k : kstate) : cf := g_core (k_F k).

  Definition durpair (log : list lw) (d : N) (id : nat) (w : N) : Prop :=
    exists k e, okentry log id w k e /\ (lw_end e <= d)%N.

  Record KInv (progsF : list (list inpF)) (k : kstate) : Prop := mkKInv {
    kiW : Inv progsW (k_W k);
    kiF : Inv progsF (k_F k);
    kgW : GIW (k_W k);
    kgF : GIF (k_F k);
    kpW : PW (cW k);
    kin : forall id w, In (id, w) (concat progsF) -> okpair (cw_log (cW k)) id w;
    ksy : (cf_synced (cF k) <= cw_written (cW k))%N;
    kdl : (k_durable k <= w_bw (cw_w (cW k)))%N;
    ksn : Forall (fun e => (lw_mark e <= cf_synced (cF k))%N -> (lw_end e <= k_durable k)%N) (cw_log (cW k));
    kdn : forall e, In e (cf_log (cF k)) -> lf_out e = true ->
          forall id w, In (id, w) (lf_items e) -> durpair (cw_log (cW k)) (k_durable k) id w;
    knt : length (g_threads (k_F k)) = length (g_threads (k_W k));
    kow : forall t id w, In (id, w) (nth t progsF []) ->
          exists thW, nth_error (g_threads (k_W k)) t = Some thW /\ In (id, Some w) (t_done thW);
    kfl : PFl (cf_failed (cF k)) (cf_log (cF k))
  }.

  (* ---- how the write core can change in one step of queue W *)
  Definition coreW_rel (c c' : cw) : Prop :=
    c' = c \/ exists n acc, c' = fst (workW c n acc) /\ accW_buffer acc <> [].

  Lemma ebytes_of_nonempty_concat : forall (acc : accW),
    acc <> [] -> (forall es, In es acc -> es <> []) -> accW_buffer acc <> [].
  Proof.
    intros [|es acc] Hne Hall; [contradiction|].
    unfold accW_buffer. cbn [concat]. rewrite ebytes_of_eq, ebytes_app.
    intro E. apply app_eq_nil in E. destruct E as [E _].
    apply (ebytes_nonempty es); [apply Hall; now left|exact E].
  Qed.

  Lemma execW_core : forall (g g' : ModelConcWL.gW) a,
    Inv progsW g -> GIW g -> EXECW g a = Ok g' -> coreW_rel (g_core g) (g_core g').
  Proof.
    intros g g' a HI HG H. destruct (exec_cases g g' a H) as
      [-> | _ _ (_ & _ & _ & Hc) | t c th th' ths1 _ Hs Ht _ _ _ Hk]; [now left|left; exact Hc|].
    destruct Hk as [(_ & _ & _ & Hc) _ _ | i idx _ _ _ Hc _ _
                   | idx cur taken acc i _ _ _ _ _ _ Hc _ _ | idx taken acc Hpc _ _ _ Hc _ _].
    - left. exact Hc.
    - left. exact Hc.
    - left. rewrite Hc. reflexivity.
    - right. exists taken, acc. split; [exact Hc|].
      destruct (work_step_facts idW clogW progsW g t th idx taken acc HI HG Ht Hpc) as (Htk & Hlen & Hin).
      apply ebytes_of_nonempty_concat.
      + intros ->. unfold idW in Hlen. cbn in Hlen. lia.
      + intros es Hes. apply (progsW_ok es). apply Hin. exact Hes.
  Qed.

  (* the cross-queue facts survive any such change of the write core *)
  Lemma cross_coreW : forall progsF (k : kstate) (g' : ModelConcWL.gW),
    KInv progsF k -> coreW_rel (cW k) (g_core g') ->
    PW (g_core g') /\
    (forall id w, In (id, w) (concat progsF) -> okpair (cw_log (g_core g')) id w) /\
    (cf_synced (cF k) <= cw_written (g_core g'))%N /\
    (k_durable k <= w_bw (cw_w (g_core g')))%N /\
    Forall (fun e => (lw_mark e <= cf_synced (cF k))%N -> (lw_end e <= k_durable k)%N) (cw_log (g_core g')) /\
    (forall e, In e (cf_log (cF k)) -> lf_out e = true ->
       forall id w, In (id, w) (lf_items e) -> durpair (cw_log (g_core g')) (k_durable k) id w).
  Proof.
    intros progsF k g' HK [E | (n & acc & E & Hbuf)].
    - rewrite E. destruct HK as [_ _ _ _ HP Hin Hsy Hdl Hsn Hdn _ _ _].
      exact (conj HP (conj Hin (conj Hsy (conj Hdl (conj Hsn Hdn))))).
    - destruct HK as [_ _ _ _ HP Hin Hsy Hdl Hsn Hdn _ _ _].
      destruct (PW_work bits crc rollover HB (cW k) n acc HP) as (HP' & Hw & Hb & Hlog & Hmark).
      rewrite E. split; [exact HP'|]. split; [|split; [lia|split; [lia|split]]].
      + intros id w Hi. destruct (Hin id w Hi) as (k0 & e & He). exists k0, e. rewrite Hlog. apply (okentry_app bits HB). exact He.
      + rewrite Hlog. apply Forall_app. split; [exact Hsn|].
        constructor; [|constructor]. cbn [lw_mark lw_end]. intros Hc.
        assert (1 <= len (accW_buffer acc))%N.
        { destruct (accW_buffer acc); [contradiction|]. rewrite len_cons. lia. }
        lia.
      + intros e He Ho id w Hi. destruct (Hdn e He Ho id w Hi) as (k0 & e0 & He0 & Hend).
        exists k0, e0. split; [rewrite Hlog; apply (okentry_app bits HB); exact He0|exact Hend].
  Qed.

  (* ---- a returned W call with Ok(written): it is an okpair *)
  Lemma nth_error_repeat_some : forall {A} (x y : A) n j, nth_error (repeat x n) j = Some y -> y = x.
  Proof. intros A x y n j H. apply nth_error_In in H. apply repeat_spec in H. exact H. Qed.

  Lemma clogWl_nth : forall l k it outs, nth_error (clogWl l) k = Some (it, outs) ->
    exists e, nth_error l k = Some e /\ it = lw_items e /\ outs = repeat (lw_out e) (lw_n e).
  Proof.
    intros l k it outs H. unfold clogWl in H. rewrite nth_error_map in H.
    destruct (nth_error l k) as [e|]; [|discriminate]. injection H as <- <-. exists e. auto.
  Qed.

  Lemma doneW_okpair : forall (g : ModelConcWL.gW) u thu idx w,
    Inv progsW g -> GIW g -> nth_error (g_threads g) u = Some thu -> In (idx, Some w) (t_done thu) ->
    okpair (cw_log (g_core g)) idx w.
  Proof.
    intros g u thu idx w HI HG Hu Hin.
    destruct (done_in_log idW clogW progsW g u thu idx (Some w) HI HG Hu Hin) as (k & it & outs & Hk & Hr & Ho).
    unfold clogW in Hk. destruct (clogWl_nth _ _ _ _ Hk) as (e & He & -> & ->).
    apply nth_error_repeat_some in Ho. unfold lw_out in Ho.
    exists k, e. split; [exact He|].
    destruct (lw_res e); try discriminate. injection Ho as ->. repeat split; try reflexivity; apply Hr.
  Qed.

  (* ---- the new input of queue F *)
  Lemma in_concat_progs_add : forall (progs : list (list inpF)) t i x, t < length progs ->
    In x (concat (progs_add progs t i)) -> In x (concat progs) \/ x = i.
  Proof.
    intros progs t i x Ht H. apply in_concat in H. destruct H as (p & Hp & Hx).
    apply In_nth_error in Hp. destruct Hp as (u & Hu).
    assert (Hul : u < length progs).
    { unfold progs_add in Hu. rewrite <- (length_upd t (nth t progs [] ++ [i]) progs). apply nth_error_Some. rewrite Hu. discriminate. }
    assert (E : p = nth u (progs_add progs t i) []) by (symmetry; apply nth_error_nth; exact Hu).
    rewrite (nth_progs_add progs t i u Ht) in E. subst p.
    destruct (u =? t).
    - apply in_app_or in Hx. destruct Hx as [Hx|[<-|[]]]; [|now right].
      left. apply in_concat. exists (nth t progs []). split; [apply nth_In; exact Ht|exact Hx].
    - left. apply in_concat. exists (nth u progs []). split; [apply nth_In; exact Hul|exact Hx].
  Qed.

  Lemma GIF_add_todo : forall (g : ModelConcWL.gF) t th i,
    GIF g -> nth_error (g_threads g) t = Some th -> GIF (set_thread g t (add_todo th i)).
  Proof.
    intros g t th i [HJ HL] Ht. split.
    - intros u thu Hu. unfold set_thread, with_threads in Hu. cbn [g_threads g_seen] in *.
      destruct (nth_error_upd_inv _ _ _ _ _ _ Ht Hu) as [[-> ->]|[Hne Hu']].
      + cbn [add_todo t_pc]. exact (HJ t th Ht).
      + exact (HJ u thu Hu').
    - exact HL.
  Qed.

  Lemma inject_eq : forall (g : ModelConcWL.gF) t th i,
    nth_error (g_threads g) t = Some th -> inject g t i = set_thread g t (add_todo th i).
  Proof. intros g t th i Ht. unfold inject. rewrite Ht. reflexivity. Qed.

  Lemma new_done_same : forall {I O A} (th th' : ModelWcq.thread I O A),
    t_done th' = t_done th -> new_done th th' = None.
  Proof.
    intros I O A th th' E. unfold new_done. rewrite E. destruct (t_done th) as [|x r]; [reflexivity|].
    destruct (Nat.eqb_spec (length r) (length (x :: r))) as [H|H]; [cbn in H; lia|reflexivity].
  Qed.

  Lemma new_done_cons : forall {I O A} (th th' : ModelWcq.thread I O A) x,
    t_done th' = x :: t_done th -> new_done th th' = Some x.
  Proof. intros I O A th th' x E. unfold new_done. rewrite E, Nat.eqb_refl. reflexivity. Qed.

  (* ---- one step of the glued machine *)
  Theorem KInv_cexec : forall progsF k a,
    KInv progsF k -> exists k' progsF', CEXEC k a = Ok k' /\ KInv progsF' k'.
  Proof.
    intros progsF k [a | a | tr] HK; cbn [cexec].
    - (* a step of queue W *)
      destruct ((match a with ARun _ _ => w_at_idle (k_W k) (act_thread a) | ASpurious _ => false end)
                && negb (f_idle (k_F k) (act_thread a))).
      { exists k, progsF. split; [reflexivity|exact HK]. }
      destruct (exec_safe (Inp:=inpW) (Outp:=outW) (Acc:=accW) (CS:=cw) (acc0:=[]) (can_batch:=can_batchW bits) (batch:=batchW) (work:=workW)
                  progsW (workW_len bits crc rollover) (k_W k) a (kiW _ _ HK)) as (g' & Hex & HI').
      unfold execW. rewrite Hex. cbn [bind].
      pose proof (GIW_exec bits crc rollover progsW (k_W k) g' a (kiW _ _ HK) (kgW _ _ HK) Hex) as HG'.
      pose proof (execW_core (k_W k) g' a (kiW _ _ HK) (kgW _ _ HK) Hex) as Hcore.
      destruct (cross_coreW progsF k g' HK Hcore) as (HP' & Hin' & Hsy' & Hdl' & Hsn' & Hdn').
      assert (Hlen' : length (g_threads g') = length (g_threads (k_W k))).
      { destruct HI' as (lo & cov & ld & HI'). destruct (kiW _ _ HK) as (lo0 & cov0 & ld0 & HI0).
        rewrite (i_nthreads _ _ _ _ _ HI'), (i_nthreads _ _ _ _ _ HI0). reflexivity. }
      (* returned calls stay returned *)
      assert (Hmono : forall u thu, nth_error (g_threads (k_W k)) u = Some thu ->
                exists thu', nth_error (g_threads g') u = Some thu' /\
                             forall x, In x (t_done thu) -> In x (t_done thu')).
      { intros u thu Hu. destruct (exec_cases (k_W k) g' a Hex) as
          [-> | Hsp Hl _ | t0 c th0 th0' ths1 _ Hs Ht0 Htok Hths Hself Hk].
        - exists thu. auto.
        - destruct (nth_error (g_threads g') u) as [thu'|] eqn:Hu'.
          + destruct (Hsp u thu' Hu') as (thu0 & Hu0 & Ed & _). rewrite Hu in Hu0. injection Hu0 as <-.
            exists thu'. split; [reflexivity|]. intros x Hx. rewrite Ed. exact Hx.
          + apply nth_error_None in Hu'. rewrite Hl in Hu'. apply nth_error_None in Hu'. congruence.
        - destruct (Nat.eq_dec u t0) as [->|Hne].
          + rewrite Ht0 in Hu. injection Hu as <-. exists th0'. split; [exact Hself|].
            assert (Hd : t_done th0' = t_done th0 \/ exists idx o, t_done th0' = (idx, o) :: t_done th0).
            { destruct Hk as [_ _ Hd | ? ? _ _ _ _ _ Hd | ? ? ? ? ? _ _ _ _ _ _ _ _ Hd | ? ? ? _ _ _ _ _ _ Hd]; auto. }
            intros x Hx. destruct Hd as [->|(idx & o & ->)]; [exact Hx|now right].
          + destruct (Forall2_nth_l _ _ _ _ _ Htok Hu) as (thu' & Hu' & Ht1).
            exists thu'. split; [rewrite Hths, nth_error_upd_neq by exact Hne; exact Hu'|].
            apply tok1_fields in Ht1. destruct Ht1 as (_ & Ed & _). intros x Hx. rewrite Ed. exact Hx. }
      assert (How' : forall t id w, In (id, w) (nth t progsF []) ->
                exists thW, nth_error (g_threads g') t = Some thW /\ In (id, Some w) (t_done thW)).
      { intros t0 id w Hi. destruct (kow _ _ HK t0 id w Hi) as (thW & HtW & HdW).
        destruct (Hmono t0 thW HtW) as (thW' & HtW' & Hsub). exists thW'. split; [exact HtW'|apply Hsub; exact HdW]. }
      (* without injection *)
      assert (Hplain : forall p r, KInv progsF (mkK g' (k_F k) (k_durable k) p r)).
      { intros p r. constructor; cbn [k_W k_F k_durable]; unfold cW, cF; cbn [k_W k_F]; try assumption;
          try (destruct HK; assumption). rewrite Hlen'. exact (knt _ _ HK). }
      set (t := act_thread a).
      destruct (nth_error (g_threads (k_W k)) t) as [th|] eqn:Hth; [|eexists; eexists; split; [reflexivity|exact (Hplain _ _)]].
      destruct (nth_error (g_threads g') t) as [th'|] eqn:Hth'; [|eexists; eexists; split; [reflexivity|exact (Hplain _ _)]].
      destruct (new_done th th') as [[idx [w|]]|] eqn:Hnd; try (eexists; eexists; split; [reflexivity|exact (Hplain _ _)]).
      (* the call with W index idx returned Ok(w): it becomes t's next input on F *)
      assert (Hin_done : In (idx, Some w) (t_done th')).
      { unfold new_done in Hnd. destruct (t_done th') as [|x r]; [discriminate|].
        destruct (length r =? length (t_done th)); [|discriminate]. injection Hnd as ->. now left. }
      assert (Htl : t < length (g_threads (k_F k))).
      { rewrite (knt _ _ HK). apply nth_error_Some. rewrite Hth. discriminate. }
      destruct (nth_error (g_threads (k_F k)) t) as [thF|] eqn:HthF.
      2:{ apply nth_error_None in HthF. lia. }
      exists (mkK g' (inject (k_F k) t (idx, w)) (k_durable k) (k_poison k) (k_refused k)), (progs_add progsF t (idx, w)).
      split; [reflexivity|].
      rewrite (inject_eq _ _ _ _ HthF).
      assert (HtlP : t < length progsF).
      { destruct (kiF _ _ HK) as (lo & cov & ld & HIF). rewrite <- (i_nthreads _ _ _ _ _ HIF). exact Htl. }
      constructor; cbn [k_W k_F k_durable]; unfold cW, cF; cbn [k_W k_F set_thread with_threads g_core g_threads];
        try assumption.
      + destruct (kiF _ _ HK) as (lo & cov & ld & HIF). exists lo, cov, ld. apply InvR_add_todo; assumption.
      + apply GIF_add_todo; [exact (kgF _ _ HK)|exact HthF].
      + intros id w0 Hi. destruct (in_concat_progs_add progsF t (idx, w) (id, w0) HtlP Hi) as [Hi'|E].
        * apply Hin'. exact Hi'.
        * injection E as -> ->. eapply doneW_okpair; eassumption.
      + rewrite length_upd, Hlen'. exact (knt _ _ HK).
      + intros t0 id w0 Hi. rewrite (nth_progs_add progsF t (idx, w) t0 HtlP) in Hi.
        destruct (Nat.eqb_spec t0 t) as [->|Hne]; [|apply How'; exact Hi].
        apply in_app_or in Hi. destruct Hi as [Hi|[E|[]]]; [apply How'; exact Hi|].
        injection E as -> ->. exists th'. split; [exact Hth'|exact Hin_done].
      + exact (kfl _ _ HK).
    - (* a step of queue F *)
      destruct (exec_safe (Inp:=inpF) (Outp:=bool) (Acc:=accF) (CS:=cf) (acc0:=[]) (can_batch:=can_batchF) (batch:=batchF) (work:=workF)
                  progsF workF_len (k_F k) a (kiF _ _ HK)) as (g' & Hex & HI').
      unfold execF. rewrite Hex. cbn [bind].
      pose proof (GIF_exec progsF (k_F k) g' a (kiF _ _ HK) (kgF _ _ HK) Hex) as HG'.
      assert (Hlen' : length (g_threads g') = length (g_threads (k_F k))).
      { destruct HI' as (lo & cov & ld & HI'). destruct (kiF _ _ HK) as (lo0 & cov0 & ld0 & HI0).
        rewrite (i_nthreads _ _ _ _ _ HI'), (i_nthreads _ _ _ _ _ HI0). reflexivity. }
      eexists. exists progsF. split; [reflexivity|].
      (* did the core work in this step? *)
      assert (Hcases : g_core g' = g_core (k_F k) \/
                exists n acc, g_core g' = fst (workF (g_core (k_F k)) n acc) /\
                              (forall i, In i acc -> In i (concat progsF))).
      { destruct (exec_cases (k_F k) g' a Hex) as
          [-> | _ _ (_ & _ & _ & Hc) | t c th th' ths1 _ Hs Ht _ _ _ Hk]; [now left|left; exact Hc|].
        destruct Hk as [(_ & _ & _ & Hc) _ _ | i idx _ _ _ Hc _ _
                       | idx cur taken acc i _ _ _ _ _ _ Hc _ _ | idx taken acc Hpc _ _ _ Hc _ _].
        - left. exact Hc.
        - left. exact Hc.
        - left. rewrite Hc. reflexivity.
        - right. exists taken, acc. split; [exact Hc|].
          destruct (work_step_facts idF clogF progsF (k_F k) t th idx taken acc (kiF _ _ HK) (kgF _ _ HK) Ht Hpc) as (_ & _ & Hin).
          exact Hin. }
      destruct Hcases as [Hc | (n & acc & Hc & Hacc)].
      + (* no work: nothing the other queue can see has changed *)
        rewrite Hc. rewrite skipn_all2 by apply le_n. cbn [existsb].
        constructor; cbn [k_W k_F k_durable]; unfold cW, cF; cbn [k_W k_F]; rewrite ?Hc;
          try assumption; try (destruct HK; assumption). rewrite Hlen'. exact (knt _ _ HK).
      + (* FsyncCoalescingCore::work on the inputs acc *)
        destruct HK as [HIW HIF HGW HGF HP Hin Hsy Hdl Hsn Hdn Hnt How Hfl0].
        unfold cW, cF in *.
        assert (Hmarks : forall id w, In (id, w) acc ->
                  exists k0 e, okentry (cw_log (g_core (k_W k))) id w k0 e /\ (w <= cw_written (g_core (k_W k)))%N).
        { intros id w Hi. destruct (Hin id w (Hacc _ Hi)) as (k0 & e & He). exists k0, e. split; [exact He|].
          destruct He as (Hn & _ & Hm & _). destruct HP as (_ & _ & Hends).
          rewrite Forall_forall in Hends. destruct (Hends e (nth_error_In _ _ Hn)) as [_ Hmk]. lia. }
        assert (Haccval_w : forall id w, In (id, w) acc -> (w <= accval acc)%N).
        { intros id w Hi. unfold accval. apply fold_max_ge_in. apply (in_map snd) in Hi. exact Hi. }
        assert (Haccval_le : (accval acc <= cw_written (g_core (k_W k)))%N).
        { unfold accval. apply fold_max_le; [lia|].
          intros w Hw. apply in_map_iff in Hw. destruct Hw as ([id w'] & <- & Hi).
          destruct (Hmarks id w' Hi) as (_ & _ & _ & Hle). exact Hle. }
        rewrite Hc. unfold workF.
        destruct (cf_failed (g_core (k_F k))) eqn:Hfl;
        destruct (N.leb_spec (accval acc) (cf_synced (g_core (k_F k)))) as [Hskip | Hsync];
          cbn [fst cf_log]; rewrite skipn_app, skipn_all2 by apply le_n;
          rewrite Nat.sub_diag; cbn [app skipn existsb lf_sync orb].
        * (* already synced far enough *)
          constructor; cbn [k_W k_F k_durable]; unfold cW, cF; cbn [k_W k_F]; rewrite ?Hc; unfold workF; rewrite ?Hfl;
            destruct (N.leb_spec (accval acc) (cf_synced (g_core (k_F k)))) as [_|Hx]; try lia;
            cbn [fst cf_synced cf_failed cf_log]; try assumption; try (rewrite Hlen'; exact Hnt);
            try (eapply PFl_snoc; [exact Hfl0| cbn [lf_out lf_sync]; rewrite ?Hfl; intros; try discriminate; auto | cbn [lf_out lf_sync]; rewrite ?Hfl; intros; try discriminate; auto]).
          -- intros e He Ho id w Hi. apply in_app_or in He. destruct He as [He|[<-|[]]]; [eapply Hdn; eassumption|].
             cbn [lf_items] in Hi. destruct (Hmarks id w Hi) as (k0 & e0 & He0 & _).
             exists k0, e0. split; [exact He0|].
             rewrite Forall_forall in Hsn. apply (Hsn e0).
             ++ destruct He0 as (Hn & _). eapply nth_error_In. exact Hn.
             ++ destruct He0 as (_ & _ & Hm & _). rewrite Hm. pose proof (Haccval_w id w Hi). lia.
        * (* an earlier fdatasync failed: no system call, everybody gets false *)
          constructor; cbn [k_W k_F k_durable]; unfold cW, cF; cbn [k_W k_F]; rewrite ?Hc; unfold workF; rewrite ?Hfl;
               destruct (N.leb_spec (accval acc) (cf_synced (g_core (k_F k)))) as [Hx|_]; try lia;
               rewrite ?Horc; cbn [fst cf_synced cf_failed cf_log]; try assumption; try (rewrite Hlen'; exact Hnt);
            try (eapply PFl_snoc; [exact Hfl0| cbn [lf_out lf_sync]; rewrite ?Hfl; intros; try discriminate; auto | cbn [lf_out lf_sync]; rewrite ?Hfl; intros; try discriminate; auto]).
          -- intros e He Ho id w Hi. apply in_app_or in He. destruct He as [He|[<-|[]]]; [eapply Hdn; eassumption|].
                cbn [lf_out] in Ho. discriminate.
        * (* already synced far enough *)
          constructor; cbn [k_W k_F k_durable]; unfold cW, cF; cbn [k_W k_F]; rewrite ?Hc; unfold workF; rewrite ?Hfl;
            destruct (N.leb_spec (accval acc) (cf_synced (g_core (k_F k)))) as [_|Hx]; try lia;
            cbn [fst cf_synced cf_failed cf_log]; try assumption; try (rewrite Hlen'; exact Hnt);
            try (eapply PFl_snoc; [exact Hfl0| cbn [lf_out lf_sync]; rewrite ?Hfl; intros; try discriminate; auto | cbn [lf_out lf_sync]; rewrite ?Hfl; intros; try discriminate; auto]).
          -- intros e He Ho id w Hi. apply in_app_or in He. destruct He as [He|[<-|[]]]; [eapply Hdn; eassumption|].
             cbn [lf_items] in Hi. destruct (Hmarks id w Hi) as (k0 & e0 & He0 & _).
             exists k0, e0. split; [exact He0|].
             rewrite Forall_forall in Hsn. apply (Hsn e0).
             ++ destruct He0 as (Hn & _). eapply nth_error_In. exact Hn.
             ++ destruct He0 as (_ & _ & Hm & _). rewrite Hm. pose proof (Haccval_w id w Hi). lia.
        * (* fdatasync *)
          destruct (cf_oracle (g_core (k_F k))) as [|[|] orc] eqn:Horc.
          -- (* success (oracle exhausted) *)
             cbn [orb].
             constructor; cbn [k_W k_F k_durable]; unfold cW, cF; cbn [k_W k_F]; rewrite ?Hc; unfold workF; rewrite ?Hfl;
               destruct (N.leb_spec (accval acc) (cf_synced (g_core (k_F k)))) as [Hx|_]; try lia;
               rewrite ?Horc; cbn [fst cf_synced cf_failed cf_log]; try assumption; try lia; try (rewrite Hlen'; exact Hnt);
               try (eapply PFl_snoc; [exact Hfl0| cbn [lf_out lf_sync negb]; rewrite ?Hfl; intros; try discriminate; auto | cbn [lf_out lf_sync]; rewrite ?Hfl; intros; try discriminate; auto]).
             ++ destruct HP as (_ & _ & Hends). eapply Forall_impl; [|exact Hends]. cbn. intros e [H1 _] _. exact H1.
             ++ intros e He Ho id w Hi. apply in_app_or in He. destruct He as [He|[<-|[]]].
                ** destruct (Hdn e He Ho id w Hi) as (k0 & e0 & He0 & Hend). exists k0, e0. split; [exact He0|lia].
                ** cbn [lf_items] in Hi. destruct (Hmarks id w Hi) as (k0 & e0 & He0 & _).
                   exists k0, e0. split; [exact He0|]. destruct HP as (_ & _ & Hends).
                   rewrite Forall_forall in Hends. destruct He0 as (Hn & _).
                   destruct (Hends e0 (nth_error_In _ _ Hn)) as [H1 _]. exact H1.
          -- (* success *)
             cbn [orb].
             constructor; cbn [k_W k_F k_durable]; unfold cW, cF; cbn [k_W k_F]; rewrite ?Hc; unfold workF; rewrite ?Hfl;
               destruct (N.leb_spec (accval acc) (cf_synced (g_core (k_F k)))) as [Hx|_]; try lia;
               rewrite ?Horc; cbn [fst cf_synced cf_failed cf_log]; try assumption; try lia; try (rewrite Hlen'; exact Hnt);
               try (eapply PFl_snoc; [exact Hfl0| cbn [lf_out lf_sync negb]; rewrite ?Hfl; intros; try discriminate; auto | cbn [lf_out lf_sync]; rewrite ?Hfl; intros; try discriminate; auto]).
             ++ destruct HP as (_ & _ & Hends). eapply Forall_impl; [|exact Hends]. cbn. intros e [H1 _] _. exact H1.
             ++ intros e He Ho id w Hi. apply in_app_or in He. destruct He as [He|[<-|[]]].
                ** destruct (Hdn e He Ho id w Hi) as (k0 & e0 & He0 & Hend). exists k0, e0. split; [exact He0|lia].
                ** cbn [lf_items] in Hi. destruct (Hmarks id w Hi) as (k0 & e0 & He0 & _).
                   exists k0, e0. split; [exact He0|]. destruct HP as (_ & _ & Hends).
                   rewrite Forall_forall in Hends. destruct He0 as (Hn & _).
                   destruct (Hends e0 (nth_error_In _ _ Hn)) as [H1 _]. exact H1.
          -- (* fdatasync failed: nothing becomes durable, everybody gets false *)
             cbn [orb].
             constructor; cbn [k_W k_F k_durable]; unfold cW, cF; cbn [k_W k_F]; rewrite ?Hc; unfold workF; rewrite ?Hfl;
               destruct (N.leb_spec (accval acc) (cf_synced (g_core (k_F k)))) as [Hx|_]; try lia;
               rewrite ?Horc; cbn [fst cf_synced cf_failed cf_log]; try assumption; try (rewrite Hlen'; exact Hnt);
            try (eapply PFl_snoc; [exact Hfl0| cbn [lf_out lf_sync]; rewrite ?Hfl; intros; try discriminate; auto | cbn [lf_out lf_sync]; rewrite ?Hfl; intros; try discriminate; auto]).
             ++ intros e He Ho id w Hi. apply in_app_or in He. destruct He as [He|[<-|[]]]; [eapply Hdn; eassumption|].
                cbn [lf_out] in Ho. discriminate.
    - (* a refused append: nothing but the ghost record changes *)
      destruct (k_poison k); [|exists k, progsF; split; [reflexivity|exact HK]].
      eexists. exists progsF. split; [reflexivity|].
      destruct HK. constructor; cbn [k_W k_F k_durable]; unfold cW, cF in *; cbn [k_W k_F]; assumption.
  Qed.

  (* ---- every schedule *)
  Lemma concat_map_nil : forall {A B} (l : list A), concat (map (fun _ => @nil B) l) = [].
  Proof. induction l; cbn; auto. Qed.

  Lemma nth_map_nil : forall {A B} (l : list A) t, nth t (map (fun _ => @nil B) l) [] = [].
  Proof. induction l as [|x l IH]; intros [|t]; cbn; auto. Qed.

  Lemma KInv_init : forall nW nF oracle, 0 < nW -> 0 < nF ->
    KInv (map (fun _ => []) progsW) (kinit nW nF oracle progsW).
  Proof.
    intros nW nF oracle HnW HnF. unfold kinit.
    constructor; cbn [k_W k_F k_durable]; unfold cW, cF; cbn [k_W k_F].
    - apply Inv_init. exact HnW.
    - apply Inv_init. exact HnF.
    - apply GI_init. reflexivity.
    - apply GI_init. reflexivity.
    - unfold ginit. cbn [g_core]. repeat split. constructor.
    - intros id w H. rewrite concat_map_nil in H. contradiction.
    - unfold ginit. cbn [g_core cf0 cw0 cf_synced cw_written]. lia.
    - unfold ginit. cbn [g_core cw0 cw_w]. cbn. lia.
    - unfold ginit. cbn [g_core cw0 cw_log]. constructor.
    - unfold ginit. cbn [g_core cf0 cf_log]. intros e [].
    - unfold ginit. cbn [g_threads]. rewrite !map_length. reflexivity.
    - intros t id w H. rewrite nth_map_nil in H. contradiction.
    - unfold ginit. cbn [g_core cf0 cf_failed cf_log]. split; [constructor|]. intros pre e post E. destruct pre; discriminate.
  Qed.

  Theorem crun_KInv : forall sched k progsF, KInv progsF k ->
    exists k' progsF', crun bits crc rollover k sched = Ok k' /\ KInv progsF' k'.
  Proof.
    induction sched as [|a r IH]; intros k progsF HK; cbn [crun].
    - exists k, progsF. auto.
    - destruct (KInv_cexec progsF k a HK) as (k1 & p1 & E1 & HK1). rewrite E1. cbn [bind].
      apply (IH k1 p1 HK1).
  Qed.

  (* ---- what the invariant says about the log *)
  Definition log_ess (l : list lw) : list (list entry) := map (fun e => concat (lw_items e)) l.
  Definition log_res (l : list lw) : list (wres * N) := map (fun e => (lw_res e, lw_end e)) l.

  Lemma logged_items_seen : forall (g : ModelConcWL.gW) e es,
    GIW g -> In e (cw_log (g_core g)) -> In es (lw_items e) -> In es (g_seen g).
  Proof.
    intros g e es [_ (_ & HL2 & _)] He Hes.
    assert (H : In es (concat (map fst (clogW (g_core g))))).
    { apply in_concat. exists (lw_items e). split; [|exact Hes].
      unfold clogW, clogWl. rewrite map_map. cbn [fst]. apply in_map_iff. exists e. auto. }
    rewrite HL2 in H. rewrite <- (firstn_skipn (total (clogW (g_core g))) (g_seen g)). apply in_or_app. left. exact H.
  Qed.

  Lemma log_ess_wf : forall progsF k, KInv progsF k -> Forall (Forall wf_entry) (log_ess (cw_log (cW k))).
  Proof.
    intros progsF k HK. unfold log_ess. rewrite Forall_map. rewrite Forall_forall. intros e He.
    rewrite Forall_forall. intros x Hx. apply in_concat in Hx. destruct Hx as (es & Hes & Hx).
    assert (Hs : In es (g_seen (k_W k))) by (eapply logged_items_seen; [exact (kgW _ _ HK)|exact He|exact Hes]).
    pose proof (seen_in_progs progsW (k_W k) es (kiW _ _ HK) Hs) as Hp.
    destruct (progsW_ok es Hp) as [_ Hwf]. rewrite Forall_forall in Hwf. apply Hwf. exact Hx.
  Qed.

  Lemma wl_file : forall progsF k, KInv progsF k ->
    write_log bits crc rollover (map ebytes (log_ess (cw_log (cW k))))
      = (log_res (cw_log (cW k)), w_file (cw_w (cW k))).
  Proof.
    intros progsF k HK. destruct (kpW _ _ HK) as (_ & Hfile & _). unfold write_log.
    unfold log_ess. rewrite map_map.
    replace (map (fun x : lw => ebytes (concat (lw_items x))) (cw_log (cW k)))
      with (map (fun e : lw => accW_buffer (lw_items e)) (cw_log (cW k))) by reflexivity.
    rewrite Hfile. reflexivity.
  Qed.

  Lemma durable_in_log : forall n (l : list lw) k e,
    nth_error l k = Some e -> lw_res e = WOk -> (lw_end e <= n)%N ->
    In (concat (lw_items e)) (durable n (log_res l) (log_ess l)).
  Proof.
    intros n l. induction l as [|x l IH]; intros k e Hk Hok Hend; [destruct k; discriminate|].
    unfold log_res, log_ess. cbn [map]. rewrite durable_cons.
    fold (log_res l). fold (log_ess l).
    destruct k as [|k]; cbn [nth_error] in Hk.
    - injection Hk as ->. rewrite Hok. cbn [is_ok andb]. destruct (N.leb_spec (lw_end e) n); [now left|lia].
    - destruct (is_ok (lw_res x) && (lw_end x <=? n)%N); [right|]; eapply IH; eassumption.
  Qed.

  Lemma clogFl_nth : forall l k it outs, nth_error (clogFl l) k = Some (it, outs) ->
    exists e, nth_error l k = Some e /\ it = lf_items e /\ outs = repeat (lf_out e) (lf_n e).
  Proof.
    intros l k it outs H. unfold clogFl in H. rewrite nth_error_map in H.
    destruct (nth_error l k) as [e|]; [|discriminate]. injection H as <- <-. exists e. auto.
  Qed.

  (* ---- the three statements, at the level of the wait list *)

  (* a call of thread t that returned Ok(()): which call it was, and that its bytes are durable *)
  Theorem wl_acked : forall progsF k t thF j, KInv progsF k ->
    nth_error (g_threads (k_F k)) t = Some thF -> In (j, true) (t_done thF) ->
    exists id w es thW k0 e,
      nth_error (g_links (k_F k)) j = Some (t, (id, w)) /\
      nth_error (g_links (k_W k)) id = Some (t, es) /\
      nth_error (g_threads (k_W k)) t = Some thW /\ In (id, Some w) (t_done thW) /\
      okentry (cw_log (cW k)) id w k0 e /\ (lw_end e <= k_durable k)%N /\
      nth_error (lw_items e) (id - total (firstn k0 (clogWl (cw_log (cW k))))) = Some es.
  Proof.
    intros progsF k t thF j HK HtF Hdone.
    destruct (inv_own_output progsF (k_F k) (kiF _ _ HK)) as (Hown & _ & _).
    destruct (Hown t thF j true HtF Hdone) as ((i & Hlink) & _).
    destruct (done_in_log idF clogF progsF (k_F k) t thF j true (kiF _ _ HK) (kgF _ _ HK) HtF Hdone)
      as (kF & it & outs & HkF & Hr & Ho).
    unfold clogF in HkF. destruct (clogFl_nth _ _ _ _ HkF) as (eF & HeF & -> & ->).
    apply nth_error_repeat_some in Ho.
    destruct (logged_item_is_link idF clogF progsF (k_F k) kF (lf_items eF) _ j (kiF _ _ HK) (kgF _ _ HK) HkF Hr)
      as (u & i' & Hl' & Hit).
    rewrite Hlink in Hl'. injection Hl' as <- <-.
    destruct i as [id w].
    assert (Hin : In (id, w) (lf_items eF)) by (eapply nth_error_In; exact Hit).
    destruct (kdn _ _ HK eF (nth_error_In _ _ HeF) (eq_sym Ho) id w Hin) as (k0 & e & Hok & Hend).
    assert (Hp : In (id, w) (nth t progsF [])) by (eapply in_links_progs; [exact (kiF _ _ HK)|exact Hlink]).
    destruct (kow _ _ HK t id w Hp) as (thW & HtW & HdW).
    destruct (inv_own_output progsW (k_W k) (kiW _ _ HK)) as (HownW & _ & _).
    destruct (HownW t thW id (Some w) HtW HdW) as ((es & HlW) & _).
    exists id, w, es, thW, k0, e.
    split; [exact Hlink|]. split; [exact HlW|]. split; [exact HtW|]. split; [exact HdW|].
    split; [exact Hok|]. split; [exact Hend|].
    destruct Hok as (Hn & _ & _ & Hrange).
    assert (HkW : nth_error (clogW (cW k)) k0 = Some (lw_items e, repeat (lw_out e) (lw_n e))).
    { unfold clogW, clogWl. rewrite nth_error_map, Hn. reflexivity. }
    destruct (logged_item_is_link idW clogW progsW (k_W k) k0 (lw_items e) _ id (kiW _ _ HK) (kgW _ _ HK) HkW Hrange)
      as (u & es' & Hl2 & Hit2).
    unfold cW in *. rewrite HlW in Hl2. injection Hl2 as <- <-. exact Hit2.
  Qed.

  (* the file is the sequential log of the merged batches; every linked request is merged at most
     once, in link order, whole *)
  Theorem wl_each_once : forall progsF k, KInv progsF k ->
    read_log bits crc (w_file (cw_w (cW k))) =
      (concat (ok_batches (log_res (cw_log (cW k))) (log_ess (cw_log (cW k)))), REnd) /\
    concat (map lw_items (cw_log (cW k))) =
      map snd (firstn (total (clogW (cW k))) (g_links (k_W k))) /\
    total (clogW (cW k)) <= length (g_links (k_W k)).
  Proof.
    intros progsF k HK. split; [|split].
    - apply (roundtrip bits crc HB rollover); [eapply log_ess_wf; exact HK|eapply wl_file; exact HK].
    - destruct (kgW _ _ HK) as [_ (_ & HL2 & HL3)]. destruct (kiW _ _ HK) as (lo & cov & ld & HI).
      unfold cW. replace (map lw_items (cw_log (g_core (k_W k)))) with (map fst (clogW (g_core (k_W k)))).
      2:{ unfold clogW, clogWl. rewrite map_map. reflexivity. }
      etransitivity; [exact HL2|]. pose proof (i_seen _ _ _ _ _ HI) as Es.
      etransitivity; [apply f_equal; exact Es|].
      rewrite firstn_map, firstn_firstn, Nat.min_l by exact HL3. reflexivity.
    - destruct (kgW _ _ HK) as [_ (_ & _ & HL3)]. destruct (kiW _ _ HK) as (lo & cov & ld & HI).
      unfold cW. pose proof (i_served _ _ _ _ _ HI). rewrite (i_links_len _ _ _ _ _ HI). lia.
  Qed.

  (* an acknowledged batch is read back, whole, from every cut at or after the durable mark *)
  Theorem wl_acked_survives : forall progsF k t thF j, KInv progsF k ->
    nth_error (g_threads (k_F k)) t = Some thF -> In (j, true) (t_done thF) ->
    forall n, (k_durable k <= len (firstn n (w_file (cw_w (cW k)))))%N ->
    exists id w es e jj r,
      nth_error (g_links (k_F k)) j = Some (t, (id, w)) /\
      nth_error (g_links (k_W k)) id = Some (t, es) /\
      In e (cw_log (cW k)) /\ In es (lw_items e) /\
      read_log bits crc (firstn n (w_file (cw_w (cW k)))) =
        (concat (firstn jj (ok_batches (log_res (cw_log (cW k))) (log_ess (cw_log (cW k))))), r) /\
      (r = REnd \/ exists er, r = RErr er) /\
      In (concat (lw_items e)) (firstn jj (ok_batches (log_res (cw_log (cW k))) (log_ess (cw_log (cW k))))).
  Proof.
    intros progsF k t thF j HK HtF Hdone n Hn.
    destruct (wl_acked progsF k t thF j HK HtF Hdone) as (id & w & es & thW & k0 & e & H1 & H2 & _ & _ & Hok & Hend & Hes).
    destruct (torn_tail bits crc HB rollover (log_ess (cw_log (cW k))) (log_res (cw_log (cW k)))
                (w_file (cw_w (cW k))) n (log_ess_wf _ _ HK) (wl_file _ _ HK)) as (jj & r & HR & Hre & Hj).
    destruct Hok as (Hnth & Hres & _ & _).
    exists id, w, es, e, jj, r.
    split; [exact H1|]. split; [exact H2|]. split; [eapply nth_error_In; exact Hnth|].
    split; [eapply nth_error_In; exact Hes|]. split; [exact HR|]. split; [exact Hre|].
    rewrite Hj. eapply durable_in_log; [exact Hnth|exact Hres|lia].
  Qed.

  Theorem reach_KInv : forall nW nF oracle sched k, 0 < nW -> 0 < nF ->
    crun bits crc rollover (kinit nW nF oracle progsW) sched = Ok k -> exists progsF, KInv progsF k.
  Proof.
    intros nW nF oracle sched k HnW HnF H.
    destruct (crun_KInv sched _ _ (KInv_init nW nF oracle HnW HnF)) as (k' & pF & E & HK).
    rewrite E in H. injection H as <-. exists pF. exact HK.
  Qed.

  Theorem wl_no_panic : forall nW nF oracle sched, 0 < nW -> 0 < nF ->
    exists k, crun bits crc rollover (kinit nW nF oracle progsW) sched = Ok k.
  Proof.
    intros nW nF oracle sched HnW HnF.
    destruct (crun_KInv sched _ _ (KInv_init nW nF oracle HnW HnF)) as (k' & pF & E & HK). exists k'. exact E.
  Qed.

  (* every fdatasync that succeeded was issued before any work call of the fsync core answered false:
     no failed fdatasync precedes a successful one (fix be5f137) *)
  Theorem wl_sync_order : forall progsF k, KInv progsF k ->
    (cf_failed (cF k) = false -> Forall (fun e => lf_out e = true) (cf_log (cF k))) /\
    (forall pre e post, cf_log (cF k) = pre ++ e :: post -> lf_sync e = true ->
       Forall (fun y => lf_out y = true) pre).
  Proof. intros progsF k HK. exact (kfl _ _ HK). Qed.

  (* ---- the poison flag: set only after some call was answered with an error, and an append is
     refused only when it is set; a fault-free run refuses nothing *)
  Definition PInv (k : kstate) : Prop :=
    (k_refused k <> [] -> k_poison k = true) /\
    (k_poison k = true ->
       cf_failed (cF k) = true \/ Exists (fun e => lw_res e <> WOk) (cw_log (cW k))).

  Lemma workW_log : forall cs n acc, exists e, cw_log (fst (workW cs n acc)) = cw_log cs ++ [e] /\
    lw_out e = hd None (snd (workW cs (S n) acc)).
  Proof.
    intros cs n acc. unfold ModelConcWL.workW.
    destruct (append bits crc rollover (cw_w cs) (accW_buffer acc)) as [r st']. cbn [fst snd cw_log].
    eexists. split; [reflexivity|]. cbn [repeat hd]. reflexivity.
  Qed.

  Lemma execF_core : forall (g g' : ModelConcWL.gF) a, execF g a = Ok g' ->
    g_core g' = g_core g \/ exists n acc, g_core g' = fst (workF (g_core g) n acc).
  Proof.
    intros g g' a H. destruct (exec_cases g g' a H) as
      [-> | _ _ (_ & _ & _ & Hc) | t c th th' ths1 _ Hs Ht _ _ _ Hk]; [now left|left; exact Hc|].
    destruct Hk as [(_ & _ & _ & Hc) _ _ | i idx _ _ _ Hc _ _
                   | idx cur taken acc i _ _ _ _ _ _ Hc _ _ | idx taken acc Hpc _ _ _ Hc _ _].
    - left. exact Hc.
    - left. exact Hc.
    - left. rewrite Hc. reflexivity.
    - right. exists taken, acc. exact Hc.
  Qed.

  Lemma workF_failed_mono : forall cs n acc, cf_failed cs = true -> cf_failed (fst (workF cs n acc)) = true.
  Proof.
    intros cs n acc H. unfold workF. destruct (accval acc <=? cf_synced cs)%N; cbn [fst cf_failed]; [exact H|].
    rewrite H. reflexivity.
  Qed.

  Lemma new_done_in : forall {I O A} (th th' : ModelWcq.thread I O A) x,
    new_done th th' = Some x -> In x (t_done th').
  Proof.
    intros I O A th th' x H. unfold new_done in H. destruct (t_done th') as [|y r]; [discriminate|].
    destruct (length r =? length (t_done th)); [|discriminate]. injection H as ->. now left.
  Qed.

  Theorem PInv_cexec : forall progsF k a k',
    KInv progsF k -> PInv k -> CEXEC k a = Ok k' -> PInv k'.
  Proof.
    intros progsF k a k' HK [HP1 HP2] Hex.
    destruct (KInv_cexec progsF k a HK) as (k2 & pF' & E2 & HK').
    rewrite Hex in E2. injection E2 as <-.
    destruct a as [a | a | tr]; cbn [cexec] in Hex.
    - (* W *)
      destruct ((match a with ARun _ _ => w_at_idle (k_W k) (act_thread a) | ASpurious _ => false end)
                && negb (f_idle (k_F k) (act_thread a))).
      { injection Hex as <-. split; assumption. }
      unfold execW in Hex.
      destruct (exec inpW outW accW cw [] (can_batchW bits) batchW workW (k_W k) a) as [g'| | |] eqn:Hx;
        cbn [bind] in Hex; try discriminate.
      assert (Hlogmono : Exists (fun e => lw_res e <> WOk) (cw_log (cW k)) ->
                         Exists (fun e => lw_res e <> WOk) (cw_log (g_core g'))).
      { intros Hexs. unfold cW in Hexs.
        destruct (execW_core (k_W k) g' a (kiW _ _ HK) (kgW _ _ HK) Hx) as [E|(n & acc & E & _)]; rewrite E; [exact Hexs|].
        destruct (workW_log (g_core (k_W k)) n acc) as (e & E2 & _). rewrite E2. apply Exists_app. now left. }
      assert (Hold : forall f', cF {| k_W := g'; k_F := f'; k_durable := k_durable k; k_poison := k_poison k; k_refused := k_refused k |} = g_core f') by reflexivity.
      set (t := act_thread a) in *.
      destruct (nth_error (g_threads (k_W k)) t) as [th|] eqn:Hth;
        [destruct (nth_error (g_threads g') t) as [th'|] eqn:Hth';
           [destruct (new_done th th') as [[idx [w|]]|] eqn:Hnd|]|];
        injection Hex as <-; unfold PInv, cW, cF; cbn [k_W k_F k_poison k_refused].
      + split; [exact HP1|]. intros Hp. destruct (HP2 Hp) as [Hf|Hexs]; [left|right; apply Hlogmono; exact Hexs].
        unfold inject. destruct (nth_error (g_threads (k_F k)) t); exact Hf.
      + (* the call was answered Err: a work of the write core failed *)
        split; [reflexivity|]. intros _. right.
        assert (HI' : Inv progsW g').
        { destruct (exec_safe (Inp:=inpW) (Outp:=outW) (Acc:=accW) (CS:=cw) (acc0:=[]) (can_batch:=can_batchW bits) (batch:=batchW) (work:=workW)
                      progsW (workW_len bits crc rollover) (k_W k) a (kiW _ _ HK)) as (g2 & Hx2 & HI2).
          rewrite Hx in Hx2. injection Hx2 as <-. exact HI2. }
        pose proof (GIW_exec bits crc rollover progsW (k_W k) g' a (kiW _ _ HK) (kgW _ _ HK) Hx) as HG'.
        destruct (done_in_log idW clogW progsW g' t th' idx None HI' HG' Hth' (new_done_in _ _ _ Hnd))
          as (k0 & it & outs & Hk0 & _ & Ho).
        unfold clogW in Hk0. destruct (clogWl_nth _ _ _ _ Hk0) as (e & He & _ & ->).
        apply nth_error_repeat_some in Ho. apply Exists_exists. exists e. split; [eapply nth_error_In; exact He|].
        unfold lw_out in Ho. destruct (lw_res e); discriminate.
      + split; [exact HP1|]. intros Hp. destruct (HP2 Hp) as [Hf|Hexs]; [left; exact Hf|right; apply Hlogmono; exact Hexs].
      + split; [exact HP1|]. intros Hp. destruct (HP2 Hp) as [Hf|Hexs]; [left; exact Hf|right; apply Hlogmono; exact Hexs].
      + split; [exact HP1|]. intros Hp. destruct (HP2 Hp) as [Hf|Hexs]; [left; exact Hf|right; apply Hlogmono; exact Hexs].
    - (* F *)
      unfold execF in Hex.
      destruct (exec inpF bool accF cf [] can_batchF batchF workF (k_F k) a) as [g'| | |] eqn:Hx;
        cbn [bind] in Hex; try discriminate.
      assert (Hfmono : cf_failed (cF k) = true -> cf_failed (g_core g') = true).
      { intros Hf. destruct (execF_core (k_F k) g' a Hx) as [->|(n & acc & ->)]; [exact Hf|apply workF_failed_mono; exact Hf]. }
      injection Hex as <-. unfold PInv, cW, cF in *; cbn [k_W k_F k_poison k_refused] in *.
      assert (Hbase : k_poison k = true -> cf_failed (g_core g') = true \/
                      Exists (fun e => lw_res e <> WOk) (cw_log (g_core (k_W k)))).
      { intros Hp. destruct (HP2 Hp) as [Hf|Hexs]; [left; apply Hfmono; exact Hf|right; exact Hexs]. }
      set (t := act_thread a) in *.
      destruct (nth_error (g_threads (k_F k)) t) as [th|] eqn:Hth;
        [destruct (nth_error (g_threads g') t) as [th'|] eqn:Hth';
           [destruct (new_done th th') as [[j [|]]|] eqn:Hnd|]|];
        try (split; [exact HP1|exact Hbase]).
      (* fsync_cq.do_work returned false: a work of the fsync core answered false, so a sync failed *)
      split; [intros _; reflexivity|]. intros _. left.
      pose proof (kfl _ _ HK') as [Hall _]. unfold cF in Hall. cbn [k_F] in Hall.
      destruct (cf_failed (g_core g')) eqn:Hf; [reflexivity|]. exfalso.
      specialize (Hall eq_refl).
      destruct (done_in_log idF clogF pF' g' t th' j false (kiF _ _ HK') (kgF _ _ HK') Hth' (new_done_in _ _ _ Hnd))
        as (k0 & it & outs & Hk0 & _ & Ho).
      unfold clogF in Hk0. destruct (clogFl_nth _ _ _ _ Hk0) as (e & He & _ & ->).
      apply nth_error_repeat_some in Ho. rewrite Forall_forall in Hall.
      specialize (Hall e (nth_error_In _ _ He)). congruence.
    - (* refusal *)
      destruct (k_poison k) eqn:Hp.
      + injection Hex as <-. split; [reflexivity|]. intros _. apply HP2. reflexivity.
      + injection Hex as <-. unfold PInv. rewrite Hp. split; assumption.
  Qed.

  Theorem reach_PInv : forall nW nF oracle sched k, 0 < nW -> 0 < nF ->
    crun bits crc rollover (kinit nW nF oracle progsW) sched = Ok k -> PInv k.
  Proof.
    intros nW nF oracle sched k HnW HnF.
    assert (H0 : PInv (kinit nW nF oracle progsW)).
    { split; cbn; [intros H; contradiction|intros H; discriminate]. }
    pose proof (KInv_init nW nF oracle HnW HnF) as HK0.
    revert H0 HK0. generalize (kinit nW nF oracle progsW) (map (fun _ : list inpW => @nil inpF) progsW).
    induction sched as [|a r IH]; intros k0 pF HP HK Hrun; cbn [crun] in Hrun.
    - injection Hrun as <-. exact HP.
    - destruct (KInv_cexec pF k0 a HK) as (k1 & p1 & E1 & HK1). rewrite E1 in Hrun. cbn [bind] in Hrun.
      apply (IH k1 p1 (PInv_cexec pF k0 a k1 HK HP E1) HK1 Hrun).
  Qed.
End Glue.
