(* Log/Model.v — executable model of sst/src/log.rs: WriteBatch, LogBuilder (_append,
   append_split, write_header, true_up, write), LogIterator (next, next_from_buffer, next_frame,
   next_header, true_up).  Definitions only (no proofs).

   The model follows the Rust control flow function by function.  What is abstracted:
   - the output sink: every `write_all` appends to the byte string of the file (BufWriter /
     File / Vec are all that); I/O errors other than "fewer bytes than asked" are outside (since
     52fc470 the real writer is wrapped in FailStop and refuses every byte after its first I/O
     error; with write_all never failing here that wrapper is the identity).
   - the input: BufReader<R: Read+Seek> is (position, remaining bytes); all seeks of the reader
     go forward (true_up), possibly beyond the end of the file.
   - crc32c::crc32c is external code: the Section variable `crc`; its u32 result type is the
     `mod 2^32`.  No property of it is assumed anywhere.
   - BLOCK_BITS is the Section variable `bits` (instantiated with the constant re-extracted from
     the source in `Log.Inst`), so the theorems hold for every block size > HEADER_MAX_SIZE.
   - machine integers are unbounded (no offset gets near 2^64: TABLE_FULL_SIZE stops the writer).
   Panics (assert!, slice index out of range) are the explicit result WPanic. *)
From Coq Require Import NArith List Bool.
From Blue Require Import Gen.Const_Log Log.ModelWire.
Import ListNotations.
Open Scope N_scope.

(* error classes = the `code` of the SError the Rust returns *)
Inductive err :=
| EEmptyBatch            (* empty-batch *)
| ETableFull             (* table-full *)
| EKeyTooLarge           (* key-too-large *)
| EValueTooLarge         (* value-too-large *)
| ESystem                (* system-error: read_exact hit the end of the file *)
| EHeaderTooBig          (* corruption-header-size-exceeds-max *)
| EUnpackHeader          (* unpack-log-header *)
| ESizeExceedsMax        (* corruption-entry-size-exceeds-max *)
| ECrc                   (* corruption-crc-checksum-failed *)
| ENoSecondHeader        (* corruption-truncation-no-second-header *)
| EBadDiscriminant       (* corruption-invalid-discriminant *)
| ETrueUp                (* corruption-true-up-exceeds-header-max *)
| EUnpackEntry           (* unpack-key-value-entry *)
| ESharedNotZero.        (* corruption-shared-not-zero *)

(* ================================================================ WriteBatch *)
(* WriteBatch.buffer (a Vec<u8>: its length is a stored field) as the chunks appended so far,
   newest first, plus the length; the setsum field is C04's business and not modelled *)
Record wbatch := { wb_chunks : list (list N); wb_len : N }.
Definition wb0 : wbatch := {| wb_chunks := []; wb_len := 0 |}.
Definition wb_buffer (b : wbatch) : list N := concat (rev (wb_chunks b)).

Definition check_batch_size (block_size size : N) : bool := negb (block_size <? size).

(* WriteBatch::put / del (through Builder): length checks, then the packed entry is appended
   unless the batch would exceed BLOCK_SIZE *)
Definition wb_insert (block_size : N) (b : wbatch) (e : entry) : (option err) * wbatch :=
  if MAX_KEY_LEN <? len (e_key e) then (Some EKeyTooLarge, b)
  else if match e_val e with Some v => MAX_VALUE_LEN <? len v | None => false end then (Some EValueTooLarge, b)
  else
    let pa := entry_bytes e in
    if check_batch_size block_size (wb_len b + len pa)
    then (None, {| wb_chunks := pa :: wb_chunks b; wb_len := wb_len b + len pa |})
    else (Some ETableFull, b).

(* WriteBatch::merge *)
Definition wb_merge (block_size : N) (a b : wbatch) : (option err) * wbatch :=
  if check_batch_size block_size (wb_len a + wb_len b)
  then (None, {| wb_chunks := wb_chunks b ++ wb_chunks a; wb_len := wb_len a + wb_len b |})
  else (Some ETableFull, a).

Section WithParams.
  Variable bits : N.                    (* BLOCK_BITS *)
  Variable crc : list N -> N.           (* crc32c::crc32c *)

  Definition crc32 (b : list N) : N := crc b mod W32.

  Definition block_size : N := N.shiftl 1 bits.
  Definition block_offset (offset : N) : N := N.shiftr offset bits.
  Definition next_boundary (offset : N) : N := N.shiftl (block_offset offset + 1) bits.
  Definition compute_true_up (offset : N) : N :=
    if offset =? N.shiftl (block_offset offset) bits then offset else next_boundary offset.

  (* ============================================================== LogBuilder *)
  (* the file so far as the list of chunks passed to write_all, newest first (so that appending
     is O(1) when the model runs); bytes_written is the Rust field of that name *)
  Record wstate := { w_chunks : list (list N); w_bw : N }.
  Definition w0 : wstate := {| w_chunks := []; w_bw := 0 |}.
  Definition w_file (st : wstate) : list N := concat (rev (w_chunks st)).

  Inductive wres := WOk | WErr (e : err) | WPanic | WFuel.

  (* fn write *)
  Definition write (st : wstate) (b : list N) : wstate :=
    {| w_chunks := b :: w_chunks st; w_bw := w_bw st + len b |}.

  (* fn write_header: assert!(pack_sz <= HEADER_MAX_SIZE + 1) *)
  Definition write_header (st : wstate) (h : header) : wres * wstate :=
    let hf := header_frame h in
    if HEADER_MAX_SIZE + 1 <? len hf then (WPanic, st) else (WOk, write st hf).

  (* fn true_up (writer) *)
  Definition w_true_up (st : wstate) (nb : N) : wres * wstate :=
    if nb <? w_bw st then (WPanic, st)
    else
      let roundup := nb - w_bw st in
      if HEADER_MAX_SIZE <? roundup then (WPanic, st)
      else if roundup =? 0 then (WOk, st)
      else (WOk, write st (repeat 0 (N.to_nat roundup))).

  (* fn append_split; `k` is the recursive call self._append(buffer) *)
  Definition append_split (k : wstate -> list N -> wres * wstate) (st : wstate) (buffer : list N)
    : wres * wstate :=
    let nb := next_boundary (w_bw st) in
    let roundup := nb - w_bw st in
    if roundup <=? HEADER_MAX_SIZE then
      match w_true_up st nb with
      | (WOk, st1) => k st1 buffer
      | r => r
      end
    else
      let first_bytes := roundup - HEADER_MAX_SIZE in
      match take_exact buffer first_bytes with
      | None => (WPanic, st)                       (* &buffer[..first_bytes] out of range *)
      | Some (first, second) =>
          let first_header := {| h_size := len first; h_disc := HEADER_FIRST; h_crc := crc32 first |} in
          let second_header := {| h_size := len second; h_disc := HEADER_SECOND; h_crc := crc32 second |} in
          match write_header st first_header with
          | (WOk, st1) =>
              let st2 := write st1 first in
              match w_true_up st2 nb with
              | (WOk, st3) =>
                  match write_header st3 second_header with
                  | (WOk, st4) => (WOk, write st4 second)
                  | r => r
                  end
              | r => r
              end
          | r => r
          end
      end.

  (* fn _append.  The recursion _append -> append_split -> _append is at most two deep when the
     block is larger than HEADER_MAX_SIZE; fuel makes it structural. *)
  Fixpoint append_ (fuel : nat) (rollover : N) (st : wstate) (buffer : list N) : wres * wstate :=
    match fuel with
    | O => (WFuel, st)
    | S f =>
        let header := {| h_size := len buffer; h_disc := HEADER_WHOLE; h_crc := crc32 buffer |} in
        let nb := next_boundary (w_bw st) in
        let new_offset := w_bw st + (len (header_frame header) + len buffer) in
        if TABLE_FULL_SIZE <=? new_offset then (WErr ETableFull, st)       (* check_table_size *)
        else if rollover <? new_offset then (WErr ETableFull, st)
        else if nb <? new_offset then append_split (append_ f rollover) st buffer
        else
          match write_header st header with
          | (WOk, st1) =>
              let st2 := write st1 buffer in
              if nb <? w_bw st2 then (WPanic, st2) else (WOk, st2)       (* assert!(bytes_written <= nb) *)
          | r => r
          end
    end.

  Definition APPEND_FUEL : nat := 3.

  (* LogBuilder::append *)
  Definition append (rollover : N) (st : wstate) (buffer : list N) : wres * wstate :=
    match buffer with
    | [] => (WErr EEmptyBatch, st)
    | _ => append_ APPEND_FUEL rollover st buffer
    end.

  (* a batch as the caller builds it: WriteBatch::default() then put/del per entry; an entry the
     batch refuses is not in it.  Result: per-entry outcome and the final buffer. *)
  Fixpoint batch_build (b : wbatch) (es : list entry) : list (option err) * wbatch :=
    match es with
    | [] => ([], b)
    | e :: es' =>
        let '(r, b1) := wb_insert block_size b e in
        let '(rs, b2) := batch_build b1 es' in
        (r :: rs, b2)
    end.
  Definition batch_buffer (es : list entry) : list N := wb_buffer (snd (batch_build wb0 es)).

  (* appending a sequence of buffers; the builder stays usable after an Err *)
  Fixpoint append_all (rollover : N) (st : wstate) (bufs : list (list N))
    : list (wres * N) * wstate :=
    match bufs with
    | [] => ([], st)
    | b :: bs =>
        let '(r, st1) := append rollover st b in
        let '(rs, st2) := append_all rollover st1 bs in
        ((r, w_bw st1) :: rs, st2)       (* result and approximate_size() after the call *)
    end.

  (* ============================================================== LogIterator *)
  (* input: stream position and the bytes from there on; buffer[buffer_idx..] is `r_pend` (the
     Rust keeps buffer and index; only the unread suffix is ever looked at again) *)
  Record rstate := { r_pos : N; r_rest : list N; r_pend : list N }.
  Definition r0 (file : list N) : rstate := {| r_pos := 0; r_rest := file; r_pend := [] |}.

  (* fn true_up (reader): seek to the next boundary if it is at most HEADER_MAX_SIZE away *)
  Definition r_true_up (pos : N) (rest : list N) : option (N * list N) :=
    let trued_up := compute_true_up pos in
    if HEADER_MAX_SIZE <? trued_up - pos then None
    else Some (trued_up, drop rest (trued_up - pos)).

  Inductive hres :=
  | HNone                                   (* Ok(None): clean end of file *)
  | HErr (e : err) (pos : N) (rest : list N)   (* Err: the error and where the stream stands *)
  | HFuel
  | HSome (h : header) (pos : N) (rest : list N).

  (* fn next_header: the 'looping loop skips zero bytes by truing up.  Every iteration consumes at
     least one byte, so the length of the input (+1) is enough fuel. *)
  Fixpoint next_header (fuel : nat) (pos : N) (rest : list N) : hres :=
    match fuel with
    | O => HFuel
    | S f =>
        match rest with
        | [] => HNone                                            (* UnexpectedEof on the size byte *)
        | header_sz :: rest1 =>
            let pos1 := pos + 1 in
            if header_sz =? 0 then
              match r_true_up pos1 rest1 with
              | None => HErr ETrueUp pos1 rest1
              | Some (pos2, rest2) => next_header f pos2 rest2
              end
            else if HEADER_MAX_SIZE <? header_sz then HErr EHeaderTooBig pos1 rest1
            else
              match take_exact rest1 header_sz with
              | None => HErr ESystem (pos1 + len rest1) []       (* read_exact: UnexpectedEof, input drained *)
              | Some (hb, rest2) =>
                  match parse_header hb with
                  | None => HErr EUnpackHeader (pos1 + header_sz) rest2
                  | Some h =>
                      if TABLE_FULL_SIZE <? h_size h then HErr ESizeExceedsMax (pos1 + header_sz) rest2
                      else HSome h (pos1 + header_sz) rest2
                  end
              end
        end
    end.

  Inductive fres :=
  | FrNone
  | FrErr (e : err) (pos : N) (rest : list N)
  | FrFuel
  | FrSome (h : header) (pos : N) (rest : list N) (buffer : list N).

  (* fn next_frame: header, then exactly h.size bytes appended to the buffer, then the crc.
     `hfuel` is the fuel of the zero-skipping loop: anything above the number of remaining bytes
     (read_log passes the length of the file + 1, computed once). *)
  Definition next_frame (hfuel : nat) (pos : N) (rest : list N) (buffer : list N) : fres :=
    match next_header hfuel pos rest with
    | HNone => FrNone
    | HErr e p r => FrErr e p r
    | HFuel => FrFuel
    | HSome h pos1 rest1 =>
        match take_exact rest1 (h_size h) with
        | None => FrErr ESystem (pos1 + len rest1) []
        | Some (body, rest2) =>
            if crc32 body =? h_crc h then FrSome h (pos1 + h_size h) rest2 (buffer ++ body)
            else FrErr ECrc (pos1 + h_size h) rest2
        end
    end.

  Inductive nres :=
  | NEnd                                    (* Ok(None) *)
  | NErr (e : err) (st : rstate)            (* Err(e); st: the iterator afterwards (buffer abandoned) *)
  | NFuel
  | NEntry (e : entry) (st : rstate).       (* Ok(Some(kvr)) *)

  (* fn next_from_buffer *)
  Definition next_from_buffer (pos : N) (rest : list N) (pend : list N) : nres :=
    match pend with
    | [] => NErr EEmptyBatch {| r_pos := pos; r_rest := rest; r_pend := [] |}
    | _ =>
        match parse_kve pend with
        | None => NErr EUnpackEntry {| r_pos := pos; r_rest := rest; r_pend := [] |}
        | Some (isput, k, rem) =>
            if kv_shared k =? 0 then
              NEntry {| e_key := kv_key k; e_ts := kv_ts k;
                        e_val := if isput then Some (kv_val k) else None |}
                     {| r_pos := pos; r_rest := rest; r_pend := rem |}
            else NErr ESharedNotZero {| r_pos := pos; r_rest := rest; r_pend := [] |}
        end
    end.

  (* fn next (with next_batch).  An error abandons the batch being read: the buffer is cleared
     (fix 71e5745), so the state after an error has nothing pending.  Where the stream stands after
     an error: a failed read_exact has drained the input (std's read_exact reads until EOF); the
     other errors leave it right after what was read.  After a clean end (FrNone inside a split
     batch, NEnd) the input is exhausted; its position no longer matters. *)
  Definition next (hfuel : nat) (st : rstate) : nres :=
    match r_pend st with
    | _ :: _ => next_from_buffer (r_pos st) (r_rest st) (r_pend st)
    | [] =>
        match next_frame hfuel (r_pos st) (r_rest st) [] with
        | FrNone => NEnd
        | FrErr e p r => NErr e {| r_pos := p; r_rest := r; r_pend := [] |}
        | FrFuel => NFuel
        | FrSome h pos1 rest1 buf1 =>
            if h_disc h =? HEADER_WHOLE then next_from_buffer pos1 rest1 buf1
            else if h_disc h =? HEADER_FIRST then
              match r_true_up pos1 rest1 with
              | None => NErr ETrueUp {| r_pos := pos1; r_rest := rest1; r_pend := [] |}
              | Some (pos2, rest2) =>
                  match next_frame hfuel pos2 rest2 buf1 with
                  | FrNone => NErr ENoSecondHeader {| r_pos := pos2; r_rest := []; r_pend := [] |}
                  | FrErr e p r => NErr e {| r_pos := p; r_rest := r; r_pend := [] |}
                  | FrFuel => NFuel
                  | FrSome h2 pos3 rest3 buf3 =>
                      if h_disc h2 =? HEADER_SECOND then next_from_buffer pos3 rest3 buf3
                      else NErr EBadDiscriminant {| r_pos := pos3; r_rest := rest3; r_pend := [] |}
                  end
              end
            else NErr EBadDiscriminant {| r_pos := pos1; r_rest := rest1; r_pend := [] |}
        end
    end.

  (* how reading ends *)
  Inductive rend := REnd | RErr (e : err) | RFuel.

  (* the consumer's loop `while let Some(kvr) = it.next()? { .. }`: everything returned up to the
     first None or Err.  Every successful next() consumes a byte of input or of the buffer. *)
  Fixpoint read_all (hfuel fuel : nat) (st : rstate) : list entry * rend :=
    match fuel with
    | O => ([], RFuel)
    | S f =>
        match next hfuel st with
        | NEnd => ([], REnd)
        | NErr e _ => ([], RErr e)
        | NFuel => ([], RFuel)
        | NEntry e st1 => let '(es, r) := read_all hfuel f st1 in (e :: es, r)
        end
    end.

  Definition read_log (file : list N) : list entry * rend :=
    let fuel := S (length file) in read_all fuel fuel (r0 file).

  (* a consumer that keeps calling next() after the loop above stopped: what the next n calls return *)
  Inductive ares := AEntry (e : entry) | AEnd | AErr (e : err) | AFuel.
  Fixpoint again (hfuel : nat) (n : nat) (st : rstate) : list ares :=
    match n with
    | O => []
    | S n' =>
        match next hfuel st with
        | NEnd => AEnd :: again hfuel n' {| r_pos := r_pos st; r_rest := []; r_pend := [] |}
        | NErr e st1 => AErr e :: again hfuel n' st1
        | NFuel => [AFuel]
        | NEntry e st1 => AEntry e :: again hfuel n' st1
        end
    end.
  (* read_all, also returning the iterator as the first error left it *)
  Fixpoint read_all_st (hfuel fuel : nat) (st : rstate) : list entry * rend * option rstate :=
    match fuel with
    | O => ([], RFuel, None)
    | S f =>
        match next hfuel st with
        | NEnd => ([], REnd, None)
        | NErr e st1 => ([], RErr e, Some st1)
        | NFuel => ([], RFuel, None)
        | NEntry e st1 => let '(es, r, o) := read_all_st hfuel f st1 in (e :: es, r, o)
        end
    end.
  Definition read_log_again (file : list N) (n : nat) : list entry * rend * list ares :=
    let fuel := S (length file) in
    let '(es, r, o) := read_all_st fuel fuel (r0 file) in
    (es, r, match o with Some st1 => again fuel n st1 | None => [] end).

  (* a whole log written from nothing: per-append results and the file *)
  Definition write_log (rollover : N) (bufs : list (list N)) : list (wres * N) * list N :=
    let '(rs, st) := append_all rollover w0 bufs in (rs, w_file st).
End WithParams.
