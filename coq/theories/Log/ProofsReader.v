(* Log/ProofsReader.v — what the reader does on what the writer wrote, and on every byte prefix
   of it.  No property of the crc function is used. *)
From Coq Require Import NArith ZArith List Bool Lia Arith PeanoNat.
From Blue Require Import Gen.Const_Log Log.ModelWire Log.Model Log.ProofsWire Log.ProofsWriter.
Import ListNotations.
Open Scope N_scope.

Ltac Zify.zify_post_hook ::= Z.to_euclidean_division_equations.

Arguments N.add : simpl never.
Arguments N.sub : simpl never.
Arguments N.mul : simpl never.
Arguments N.div : simpl never.
Arguments N.modulo : simpl never.
Arguments N.leb : simpl never.
Arguments N.ltb : simpl never.
Arguments N.eqb : simpl never.
Arguments N.pred : simpl never.
Arguments N.of_nat : simpl never.
Arguments N.to_nat : simpl never.
Arguments N.shiftl : simpl never.
Arguments N.shiftr : simpl never.
Arguments N.pow : simpl never.

(* ---------------------------------------------------------------- prefixes of zeros *)
Lemma zeros_prefix : forall k F l, F ++ l = zeros k -> F = zeros (len F) /\ len F <= k.
Proof.
  intros k F l H. unfold zeros in *. symmetry in H. pose proof H as H'.
  apply repeat_eq_app in H. destruct H as [H1 _]. split.
  - rewrite len_length. now symmetry.
  - apply (f_equal (@length N)) in H'. rewrite repeat_length, app_length in H'. unfold len. lia.
Qed.

Lemma zeros_split : forall a b, zeros (a + b) = zeros a ++ zeros b.
Proof. intros. unfold zeros. replace (N.to_nat (a + b)) with (N.to_nat a + N.to_nat b)%nat by lia. apply repeat_app. Qed.

Lemma take_exact_all : forall l, take_exact l (len l) = Some (l, []).
Proof. intros l. pose proof (take_exact_app l []) as T. now rewrite app_nil_r in T. Qed.

Lemma drop_zeros : forall k X, drop (zeros k ++ X) k = X.
Proof. intros k X. pose proof (drop_app (zeros k) X) as H. now rewrite len_zeros in H. Qed.

Section Reader.
  Variable bits : N.
  Variable crc : list N -> N.
  Hypothesis HB : HEADER_MAX_SIZE < 2 ^ bits.

  Notation nb := (next_boundary bits).
  Notation B := (2 ^ bits).

  (* ---------------------------------------------------------------- next_header *)
  Lemma next_header_S : forall f pos rest,
    next_header bits (S f) pos rest =
        match rest with
        | [] => HNone
        | header_sz :: rest1 =>
            let pos1 := pos + 1 in
            if header_sz =? 0 then
              match r_true_up bits pos1 rest1 with
              | None => HErr ETrueUp pos1 rest1
              | Some (pos2, rest2) => next_header bits f pos2 rest2
              end
            else if HEADER_MAX_SIZE <? header_sz then HErr EHeaderTooBig pos1 rest1
            else
              match take_exact rest1 header_sz with
              | None => HErr ESystem (pos1 + len rest1) []
              | Some (hb, rest2) =>
                  match parse_header hb with
                  | None => HErr EUnpackHeader (pos1 + header_sz) rest2
                  | Some h =>
                      if TABLE_FULL_SIZE <? h_size h then HErr ESizeExceedsMax (pos1 + header_sz) rest2
                      else HSome h (pos1 + header_sz) rest2
                  end
              end
        end.
  Proof. reflexivity. Qed.

  Lemma r_true_up_length : forall pos rest pos2 rest2,
    r_true_up bits pos rest = Some (pos2, rest2) -> (length rest2 <= length rest)%nat.
  Proof.
    intros pos rest pos2 rest2 H. unfold r_true_up in H.
    destruct (HEADER_MAX_SIZE <? compute_true_up bits pos - pos); [discriminate|].
    inversion H; subst. apply drop_length.
  Qed.

  (* the zero-skipping loop does not depend on its fuel once the fuel exceeds the input *)
  Lemma next_header_fuel : forall f1 f2 pos rest,
    (length rest < f1)%nat -> (length rest < f2)%nat ->
    next_header bits f1 pos rest = next_header bits f2 pos rest.
  Proof.
    induction f1 as [|f1 IH]; intros f2 pos rest H1 H2; [inversion H1|].
    destruct f2 as [|f2]; [inversion H2|].
    rewrite !next_header_S. destruct rest as [|b rest1]; [reflexivity|].
    cbv zeta. destruct (b =? 0); [|reflexivity].
    destruct (r_true_up bits (pos + 1) rest1) as [[pos2 rest2]|] eqn:T; [|reflexivity].
    apply r_true_up_length in T. cbn [length] in H1, H2. apply IH; lia.
  Qed.

  Lemma next_header_nofuel : forall f pos rest,
    (length rest < f)%nat -> next_header bits f pos rest <> HFuel.
  Proof.
    induction f as [|f IH]; intros pos rest H; [inversion H|].
    rewrite next_header_S. destruct rest as [|b rest1]; [discriminate|].
    cbv zeta. destruct (b =? 0).
    - destruct (r_true_up bits (pos + 1) rest1) as [[pos2 rest2]|] eqn:T; [|discriminate].
      apply r_true_up_length in T. cbn [length] in H. apply IH. lia.
    - destruct (HEADER_MAX_SIZE <? b); [discriminate|].
      destruct (take_exact rest1 b) as [[hb rest2]|]; [|discriminate].
      destruct (parse_header hb); [|discriminate].
      destruct (TABLE_FULL_SIZE <? h_size h); discriminate.
  Qed.

  Lemma next_header_nil : forall f pos, (0 < f)%nat -> next_header bits f pos [] = HNone.
  Proof. intros [|f] pos H; [inversion H|reflexivity]. Qed.

  (* a complete header *)
  Lemma next_header_frame : forall f p h R,
    header_ok h -> h_size h <= TABLE_FULL_SIZE ->
    next_header bits (S f) p (header_frame h ++ R) = HSome h (p + len (header_frame h)) R.
  Proof.
    intros f p h R Hok Hsz. rewrite next_header_S.
    rewrite (header_frame_eq h Hok). cbn [app]. cbv zeta.
    pose proof (header_bytes_len_bound h Hok) as HL.
    destruct (N.eqb_spec (len (header_bytes h)) 0) as [E|E]; [lia|].
    destruct (N.ltb_spec HEADER_MAX_SIZE (len (header_bytes h))) as [E2|E2]; [unfold HEADER_MAX_SIZE in E2; lia|].
    rewrite take_exact_app. rewrite (parse_header_roundtrip h Hok).
    destruct (N.ltb_spec TABLE_FULL_SIZE (h_size h)) as [E3|E3]; [lia|].
    f_equal. rewrite len_cons. lia.
  Qed.

  (* zero padding up to a block boundary is skipped *)
  Lemma true_up_to : forall pos k, k <= HEADER_MAX_SIZE -> (pos + k) mod B = 0 ->
    compute_true_up bits pos = pos + k.
  Proof. intros pos k Hk Hm. apply true_up_unique; [exact Hm|lia|lia]. Qed.

  Lemma r_true_up_pad : forall pos k X,
    k <= HEADER_MAX_SIZE -> (pos + k) mod B = 0 ->
    r_true_up bits pos X = Some (pos + k, drop X k).
  Proof.
    intros pos k X Hk Hm. unfold r_true_up. rewrite (true_up_to pos k Hk Hm).
    replace (pos + k - pos) with k by lia.
    destruct (N.ltb_spec HEADER_MAX_SIZE k); [lia|reflexivity].
  Qed.

  Lemma next_header_pad : forall f p k R,
    1 <= k <= HEADER_MAX_SIZE -> (p + k) mod B = 0 ->
    next_header bits (S f) p (zeros k ++ R) = next_header bits f (p + k) R.
  Proof.
    intros f p k R Hk Hm. rewrite next_header_S.
    replace k with (1 + (k - 1)) at 1 by lia. rewrite zeros_succ. cbn [app]. cbv zeta.
    change (0 =? 0) with true. cbv iota.
    rewrite (r_true_up_pad (p + 1) (k - 1)) by (try lia; replace (p + 1 + (k - 1)) with (p + k) by lia; exact Hm).
    replace (p + 1 + (k - 1)) with (p + k) by lia.
    now rewrite drop_zeros.
  Qed.

  (* padding cut short by the end of the file: clean end *)
  Lemma next_header_pad_cut : forall f p k F,
    1 <= k <= HEADER_MAX_SIZE -> (p + k) mod B = 0 -> F <> [] -> F = zeros (len F) -> len F <= k ->
    next_header bits (S (S f)) p F = HNone.
  Proof.
    intros f p k F Hk Hm Hne HF HL. rewrite next_header_S.
    destruct F as [|b F1]; [contradiction|].
    rewrite len_cons in HF, HL. rewrite zeros_succ in HF. inversion HF as [[Hb HF1]]. rewrite <- HF1.
    cbv zeta. change (0 =? 0) with true. cbv iota.
    rewrite (r_true_up_pad (p + 1) (k - 1)) by (try lia; replace (p + 1 + (k - 1)) with (p + k) by lia; exact Hm).
    rewrite drop_all by lia. reflexivity.
  Qed.

  (* ---------------------------------------------------------------- next_frame *)
  Lemma next_frame_full : forall f p disc b R buf,
    disc < 128 -> len b <= TABLE_FULL_SIZE ->
    next_frame bits crc (S f) p (frame crc disc b ++ R) buf
    = FrSome (hdr crc disc b) (p + len (frame crc disc b)) R (buf ++ b).
  Proof.
    intros f p disc b R buf Hd Hb. unfold next_frame, frame.
    assert (Hb64 : len b < W64) by (pose proof tfs_lt; lia).
    rewrite <- app_assoc. rewrite next_header_frame by (try apply hdr_ok; assumption).
    cbn [h_size h_crc hdr]. rewrite take_exact_app. rewrite N.eqb_refl.
    f_equal. rewrite len_app. lia.
  Qed.

  (* a frame cut short by the end of the file: read_exact fails *)
  Lemma next_frame_cut : forall f p disc b F s buf,
    disc < 128 -> len b <= TABLE_FULL_SIZE ->
    F ++ s = frame crc disc b -> s <> [] -> F <> [] ->
    next_frame bits crc (S f) p F buf = FrErr ESystem (p + len F) [].
  Proof.
    intros f p disc b F s buf Hd Hb HF Hs Hne. unfold next_frame.
    assert (Hb64 : len b < W64) by (pose proof tfs_lt; lia).
    pose proof (hdr_ok crc disc b Hd Hb64) as Hok.
    unfold frame in HF. rewrite (header_frame_eq _ Hok) in HF.
    pose proof (header_bytes_len_bound _ Hok) as HL.
    pose proof (parse_header_roundtrip _ Hok) as HP.
    remember (header_bytes (hdr crc disc b)) as hb eqn:Ehb. clear Ehb.
    destruct F as [|x F1]; [contradiction|]. cbn [app] in HF.
    injection HF as Hx HF1. subst x.
    rewrite next_header_S. cbv zeta.
    destruct (N.eqb_spec (len hb) 0) as [E|E]; [lia|].
    destruct (N.ltb_spec HEADER_MAX_SIZE (len hb)) as [E2|E2]; [unfold HEADER_MAX_SIZE in E2; lia|].
    apply app_eq_app in HF1. destruct HF1 as [l [[E1 E3]|[E1 E3]]].
    - (* F1 = header bytes ++ l, and l ++ s = b *)
      subst F1. rewrite take_exact_app. rewrite HP.
      cbn [h_size hdr]. destruct (N.ltb_spec TABLE_FULL_SIZE (len b)) as [E4|E4]; [lia|].
      rewrite take_exact_short; [f_equal; rewrite len_cons, len_app; lia|].
      cbn [h_size hdr]. rewrite E3, len_app. destruct s; [contradiction|]. rewrite len_cons. lia.
    - (* F1 is a prefix of the header bytes *)
      destruct l as [|y l].
      + rewrite app_nil_r in E1. subst F1.
        rewrite take_exact_all. rewrite HP.
        cbn [h_size hdr]. destruct (N.ltb_spec TABLE_FULL_SIZE (len b)) as [E4|E4]; [lia|].
        cbn [app] in E3. subst s. rewrite take_exact_short; [f_equal; rewrite len_cons, len_nil; lia|].
        cbn [h_size hdr]. rewrite len_nil. destruct b; [contradiction|]. rewrite len_cons. lia.
      + rewrite take_exact_short; [f_equal; rewrite len_cons; lia|]. rewrite E1, len_app, len_cons. lia.
  Qed.

  Lemma next_frame_nil : forall f p buf, next_frame bits crc (S f) p [] buf = FrNone.
  Proof. reflexivity. Qed.

  (* ---------------------------------------------------------------- next *)
  Lemma next_from_buffer_entry : forall pos rest e tail, wf_entry e ->
    next_from_buffer pos rest (entry_bytes e ++ tail)
    = NEntry e {| r_pos := pos; r_rest := rest; r_pend := tail |}.
  Proof.
    intros pos rest e tail Hwf. unfold next_from_buffer.
    destruct (entry_bytes e ++ tail) eqn:E.
    { apply app_eq_nil in E. destruct E as [E _]. now apply entry_bytes_nonempty in E. }
    rewrite <- E. rewrite (parse_kve_roundtrip e tail Hwf). cbn [kv_shared kv_key kv_ts kv_val].
    change (0 =? 0) with true. cbv iota. f_equal.
    destruct e as [k t [v|]]; reflexivity.
  Qed.

  Lemma next_pend : forall hf pos rest e tail, wf_entry e ->
    next bits crc hf {| r_pos := pos; r_rest := rest; r_pend := entry_bytes e ++ tail |}
    = NEntry e {| r_pos := pos; r_rest := rest; r_pend := tail |}.
  Proof.
    intros hf pos rest e tail Hwf. unfold next. cbn [r_pend r_pos r_rest].
    destruct (entry_bytes e ++ tail) eqn:E.
    { apply app_eq_nil in E. destruct E as [E _]. now apply entry_bytes_nonempty in E. }
    rewrite <- E. now apply next_from_buffer_entry.
  Qed.

  Lemma disc_eqs :
    (HEADER_WHOLE =? HEADER_WHOLE) = true /\ (HEADER_FIRST =? HEADER_WHOLE) = false /\
    (HEADER_FIRST =? HEADER_FIRST) = true /\ (HEADER_SECOND =? HEADER_SECOND) = true.
  Proof. repeat split; reflexivity. Qed.

  (* a complete batch (whole, or first+second) read from empty buffer: its first entry comes out,
     the rest of the batch is pending, the input stands right after the batch *)
  Lemma next_main : forall hf p buf c R e tail,
    main_at bits crc p buf c -> len buf <= TABLE_FULL_SIZE ->
    buf = entry_bytes e ++ tail -> wf_entry e -> (0 < hf)%nat ->
    next bits crc hf {| r_pos := p; r_rest := c ++ R; r_pend := [] |}
    = NEntry e {| r_pos := p + len c; r_rest := R; r_pend := tail |}.
  Proof.
    intros hf p buf c R e tail Hm Hlen Hbuf Hwf Hhf.
    destruct hf as [|hf]; [inversion Hhf|].
    destruct (disc_small) as (HdW & HdF & HdS).
    destruct disc_eqs as (E1 & E2 & E3 & E4).
    unfold next. cbn [r_pend r_pos r_rest].
    destruct Hm as [Hfit | first second k Hsplit Hf Hs Hk Hpos].
    - rewrite next_frame_full by assumption. cbn [h_disc hdr]. rewrite E1. cbn [app].
      rewrite Hbuf. now apply next_from_buffer_entry.
    - assert (Hl1 : len first <= TABLE_FULL_SIZE) by (rewrite Hsplit, len_app in Hlen; lia).
      assert (Hl2 : len second <= TABLE_FULL_SIZE) by (rewrite Hsplit, len_app in Hlen; lia).
      rewrite <- !app_assoc.
      rewrite next_frame_full by assumption. cbn [h_disc hdr]. rewrite E2, E3. cbn [app].
      assert (Hmod : (p + len (frame crc HEADER_FIRST first) + k) mod B = 0).
      { rewrite Hpos. apply nb_mod. }
      rewrite (r_true_up_pad _ k) by assumption.
      rewrite drop_zeros.
      rewrite next_frame_full by assumption. cbn [h_disc hdr]. rewrite E4.
      rewrite <- Hsplit, Hbuf. rewrite next_from_buffer_entry by exact Hwf.
      f_equal. f_equal. rewrite !len_app, len_zeros. lia.
  Qed.

  (* a batch cut short by the end of the file: an error (never an entry) *)
  Lemma next_main_cut : forall hf p buf c F s,
    main_at bits crc p buf c -> len buf <= TABLE_FULL_SIZE ->
    F ++ s = c -> s <> [] -> F <> [] -> (0 < hf)%nat ->
    exists e st', next bits crc hf {| r_pos := p; r_rest := F; r_pend := [] |} = NErr e st' /\
                  r_rest st' = [] /\ r_pend st' = [] /\ (e = ESystem \/ e = ENoSecondHeader).
  Proof.
    intros hf p buf c F s Hm Hlen HF Hs Hne Hhf.
    destruct hf as [|hf]; [inversion Hhf|].
    destruct (disc_small) as (HdW & HdF & HdS).
    destruct disc_eqs as (E1 & E2 & E3 & E4).
    unfold next. cbn [r_pend r_pos r_rest].
    destruct Hm as [Hfit | first second k Hsplit Hf Hsec Hk Hpos].
    - rewrite (next_frame_cut hf p HEADER_WHOLE buf F s []) by assumption. eexists; eexists; split; [reflexivity|split; [reflexivity|split; [reflexivity|(left; reflexivity) || (right; reflexivity)]]].
    - assert (Hl1 : len first <= TABLE_FULL_SIZE) by (rewrite Hsplit, len_app in Hlen; lia).
      assert (Hl2 : len second <= TABLE_FULL_SIZE) by (rewrite Hsplit, len_app in Hlen; lia).
      apply app_eq_app in HF. destruct HF as [l [[EF Es]|[EF Es]]].
      + (* the first frame is complete; l is what follows it in the file *)
        subst F. rewrite next_frame_full by assumption. cbn [h_disc hdr]. rewrite E2, E3. cbn [app].
        assert (Hmod : (p + len (frame crc HEADER_FIRST first) + k) mod B = 0).
        { rewrite Hpos. apply nb_mod. }
        rewrite (r_true_up_pad _ k) by assumption.
        (* l ++ s = zeros k ++ second frame *)
        symmetry in Es. apply app_eq_app in Es. destruct Es as [l2 [[El Es2]|[El Es2]]].
        * (* l = zeros k ++ l2: l2 is a proper prefix of the second frame *)
          subst l. rewrite drop_zeros.
          destruct l2 as [|y l2].
          -- rewrite next_frame_nil. eexists; eexists; split; [reflexivity|split; [reflexivity|split; [reflexivity|(left; reflexivity) || (right; reflexivity)]]].
          -- rewrite (next_frame_cut hf _ HEADER_SECOND second (y :: l2) s first); try assumption; try discriminate.
             ++ eexists; eexists; split; [reflexivity|split; [reflexivity|split; [reflexivity|(left; reflexivity) || (right; reflexivity)]]].
             ++ now symmetry.
        * (* l is a prefix of the padding *)
          symmetry in El. apply zeros_prefix in El. destruct El as [_ El].
          rewrite drop_all by exact El. rewrite next_frame_nil. eexists; eexists; split; [reflexivity|split; [reflexivity|split; [reflexivity|(left; reflexivity) || (right; reflexivity)]]].
      + (* cut inside the first frame *)
        destruct l as [|y l].
        * rewrite app_nil_r in EF. subst F. rewrite <- (app_nil_r (frame crc HEADER_FIRST first)).
          rewrite next_frame_full by assumption. cbn [h_disc hdr]. rewrite E2, E3. cbn [app].
          assert (Hmod : (p + len (frame crc HEADER_FIRST first) + k) mod B = 0).
          { rewrite Hpos. apply nb_mod. }
          rewrite (r_true_up_pad _ k) by assumption.
          rewrite drop_nil. rewrite next_frame_nil. eexists; eexists; split; [reflexivity|split; [reflexivity|split; [reflexivity|(left; reflexivity) || (right; reflexivity)]]].
        * rewrite (next_frame_cut hf p HEADER_FIRST first F (y :: l) []); try assumption; try discriminate.
          -- eexists; eexists; split; [reflexivity|split; [reflexivity|split; [reflexivity|(left; reflexivity) || (right; reflexivity)]]].
          -- now symmetry.
  Qed.

  (* padding in front of whatever follows is invisible to next() *)
  Lemma next_skip_pad : forall hf p k R,
    pad_at bits p k -> (length (zeros k ++ R) < hf)%nat ->
    next bits crc hf {| r_pos := p; r_rest := zeros k ++ R; r_pend := [] |}
    = next bits crc hf {| r_pos := p + k; r_rest := R; r_pend := [] |}.
  Proof.
    intros hf p k R [->|[Hk Hp]] Hhf.
    - rewrite zeros_0, N.add_0_r. reflexivity.
    - unfold next, next_frame. cbn [r_pend r_pos r_rest].
      destruct hf as [|hf]; [inversion Hhf|].
      assert (Hmod : (p + k) mod B = 0) by (rewrite Hp; apply nb_mod).
      rewrite next_header_pad by assumption.
      rewrite app_length in Hhf.
      assert (Hz : (1 <= length (zeros k))%nat).
      { unfold zeros. rewrite repeat_length. lia. }
      rewrite (next_header_fuel hf (S hf) (p + k) R) by lia.
      reflexivity.
  Qed.

  (* only padding (possibly cut short) before the end of the file: clean end *)
  Lemma next_pad_only : forall hf p k F,
    pad_at bits p k -> F = zeros (len F) -> len F <= k -> (length F < hf)%nat ->
    next bits crc hf {| r_pos := p; r_rest := F; r_pend := [] |} = NEnd.
  Proof.
    intros hf p k F Hpad HF HL Hhf.
    destruct F as [|b F1].
    { destruct hf as [|hf]; [inversion Hhf|]. reflexivity. }
    destruct Hpad as [->|[Hk Hp]].
    { rewrite len_cons in HL. lia. }
    unfold next, next_frame. cbn [r_pend r_pos r_rest].
    destruct hf as [|[|hf]]; [inversion Hhf| cbn [length] in Hhf; lia |].
    assert (Hmod : (p + k) mod B = 0) by (rewrite Hp; apply nb_mod).
    rewrite (next_header_pad_cut hf p k (b :: F1)); try assumption; [reflexivity|discriminate].
  Qed.

  (* ---------------------------------------------------------------- the consumer's loop *)
  Inductive Reads (hf : nat) : rstate -> list entry -> rend -> Prop :=
  | ReadsEnd : forall st, next bits crc hf st = NEnd -> Reads hf st [] REnd
  | ReadsErr : forall st e st', next bits crc hf st = NErr e st' -> Reads hf st [] (RErr e)
  | ReadsEntry : forall st e st1 es r,
      next bits crc hf st = NEntry e st1 -> Reads hf st1 es r -> Reads hf st (e :: es) r.

  Lemma reads_read_all : forall hf st es r, Reads hf st es r ->
    forall fuel, (length es < fuel)%nat -> read_all bits crc hf fuel st = (es, r).
  Proof.
    induction 1 as [st H|st e st' H|st e st1 es r H HR IH]; intros fuel Hf.
    - destruct fuel; [inversion Hf|]. cbn [read_all]. now rewrite H.
    - destruct fuel; [inversion Hf|]. cbn [read_all]. now rewrite H.
    - destruct fuel; [inversion Hf|]. cbn [read_all]. rewrite H.
      cbn [length] in Hf. rewrite IH by lia. reflexivity.
  Qed.

  (* entries pending in the buffer come out first, in order *)
  Lemma reads_pending : forall hf pos rest es es' r,
    Forall wf_entry es ->
    Reads hf {| r_pos := pos; r_rest := rest; r_pend := [] |} es' r ->
    Reads hf {| r_pos := pos; r_rest := rest; r_pend := ebytes es |} (es ++ es') r.
  Proof.
    intros hf pos rest es es' r Hwf HR. induction Hwf as [|e es He Hes IH].
    - exact HR.
    - rewrite ebytes_cons. cbn [app]. eapply ReadsEntry; [apply next_pend; exact He|exact IH].
  Qed.

  (* ---------------------------------------------------------------- whole logs and their prefixes *)
  Definition is_ok (r : wres) : bool := match r with WOk => true | _ => false end.

  (* the batches whose append succeeded and whose last byte lies within the first n bytes *)
  Definition durable (n : N) (rs : list (wres * N)) (ess : list (list entry)) : list (list entry) :=
    map snd (filter (fun x => is_ok (fst (fst x)) && (snd (fst x) <=? n)) (combine rs ess)).

  Lemma append_all_cons : forall rollover st b bs,
    append_all bits crc rollover st (b :: bs) =
    let '(r, st1) := append bits crc rollover st b in
    let '(rs, st2) := append_all bits crc rollover st1 bs in
    ((r, w_bw st1) :: rs, st2).
  Proof. reflexivity. Qed.

  Lemma append_bw_mono : forall rollover st buf r st',
    wf_w st -> append bits crc rollover st buf = (r, st') -> w_bw st <= w_bw st'.
  Proof.
    intros rollover st buf r st' Hwf H.
    destruct (append_spec bits crc HB rollover st buf r st' Hwf H) as [Hwf' Hr].
    unfold wf_w in *. rewrite Hwf, Hwf'.
    destruct r; try contradiction.
    - destruct Hr as (_ & _ & k & c & _ & _ & ->). rewrite len_app. lia.
    - destruct Hr as (k & _ & -> & _). rewrite len_app. lia.
  Qed.

  Lemma append_all_ends_ge : forall rollover bufs st rs st',
    wf_w st -> append_all bits crc rollover st bufs = (rs, st') ->
    Forall (fun x => w_bw st <= snd x) rs.
  Proof.
    induction bufs as [|b bufs IH]; intros st rs st' Hwf H.
    - inversion H; subst. constructor.
    - rewrite append_all_cons in H.
      destruct (append bits crc rollover st b) as [r st1] eqn:E1.
      destruct (append_all bits crc rollover st1 bufs) as [rs' st2] eqn:E2.
      inversion H; subst.
      pose proof (append_bw_mono _ _ _ _ _ Hwf E1) as Hm.
      destruct (append_spec bits crc HB rollover st b r st1 Hwf E1) as [Hwf1 _].
      constructor; [exact Hm|].
      specialize (IH st1 rs' st' Hwf1 E2).
      eapply Forall_impl; [|exact IH]. cbn. intros x Hx. lia.
  Qed.

  Lemma durable_none : forall n rs ess,
    Forall (fun x => n < snd x) rs -> durable n rs ess = [].
  Proof.
    intros n rs. induction rs as [|x rs IH]; intros ess H; [reflexivity|].
    destruct ess as [|es ess]; [reflexivity|].
    inversion H as [|? ? Hx Hrs]; subst.
    unfold durable. cbn [combine filter fst snd].
    destruct (N.leb_spec (snd x) n) as [E|E]; [lia|].
    rewrite andb_false_r. apply IH. exact Hrs.
  Qed.

  Lemma durable_cons : forall n r1 e1 rs es ess,
    durable n ((r1, e1) :: rs) (es :: ess) =
    if is_ok r1 && (e1 <=? n) then es :: durable n rs ess else durable n rs ess.
  Proof.
    intros. unfold durable. cbn [combine filter fst snd].
    destruct (is_ok r1 && (e1 <=? n)); reflexivity.
  Qed.

  Lemma reads_next_eq : forall hf st st' es r,
    next bits crc hf st = next bits crc hf st' -> Reads hf st' es r -> Reads hf st es r.
  Proof.
    intros hf st st' es r E H. inversion H; subst.
    - apply ReadsEnd. congruence.
    - eapply ReadsErr. etransitivity; [exact E|eassumption].
    - eapply ReadsEntry; [|eassumption]. congruence.
  Qed.

  Lemma frame_nonempty : forall disc b, disc < 128 -> len b < W64 -> frame crc disc b <> [].
  Proof.
    intros disc b Hd Hb E. unfold frame in E. apply app_eq_nil in E. destruct E as [E _].
    rewrite header_frame_eq in E by (apply hdr_ok; assumption). discriminate.
  Qed.

  Lemma main_at_len : forall p buf c, main_at bits crc p buf c -> (length buf <= length c)%nat.
  Proof.
    intros p buf c [H|first second k -> _ _ _ _]; unfold frame; rewrite !app_length; lia.
  Qed.

  Lemma main_at_nonempty : forall p buf c, main_at bits crc p buf c -> buf <> [] -> c <> [].
  Proof.
    intros p buf c H Hne E. apply main_at_len in H. subst c. destruct buf; [contradiction|]. cbn [length] in H. lia.
  Qed.

  Lemma next_empty : forall hf p, (0 < hf)%nat ->
    next bits crc hf {| r_pos := p; r_rest := []; r_pend := [] |} = NEnd.
  Proof. intros [|hf] p H; [inversion H|reflexivity]. Qed.

  (* THE main lemma: the bytes a sequence of appends adds to the file, read from where they
     start, and every prefix F of them *)
  Lemma read_written_gen : forall rollover ess st rs st',
    wf_w st -> Forall (Forall wf_entry) ess ->
    append_all bits crc rollover st (map ebytes ess) = (rs, st') ->
    exists S, w_file st' = w_file st ++ S /\
      forall F s hf, F ++ s = S -> (length F < hf)%nat ->
        exists r,
          Reads hf {| r_pos := w_bw st; r_rest := F; r_pend := [] |}
                (concat (durable (w_bw st + len F) rs ess)) r /\
          (r = REnd \/ exists e, r = RErr e /\ (e = ESystem \/ e = ENoSecondHeader)) /\ (s = [] -> r = REnd) /\
          (length (concat (durable (w_bw st + len F) rs ess)) <= length F)%nat.
  Proof.
    intros rollover ess. induction ess as [|es ess IH]; intros st rs st' Hwf Hes H.
    - cbn [map append_all] in H. inversion H; subst. exists []. split; [now rewrite app_nil_r|].
      intros F s hf HF Hhf. apply app_eq_nil in HF. destruct HF as [-> ->].
      exists REnd. split; [|split; [now left|split; [reflexivity|apply le_n]]].
      cbn [durable combine filter map concat]. apply ReadsEnd. apply next_empty. lia.
    - cbn [map] in H. rewrite append_all_cons in H.
      destruct (append bits crc rollover st (ebytes es)) as [r1 st1] eqn:E1.
      destruct (append_all bits crc rollover st1 (map ebytes ess)) as [rs' st2] eqn:E2.
      inversion H; subst rs st2. clear H.
      inversion Hes as [|? ? Hwes Hess]; subst.
      destruct (append_spec bits crc HB rollover st (ebytes es) r1 st1 Hwf E1) as [Hwf1 Hr1].
      destruct (IH st1 rs' st' Hwf1 Hess E2) as (S' & HS' & HR').
      pose proof (append_all_ends_ge _ _ _ _ _ Hwf1 E2) as Hends.
      remember (w_bw st) as p eqn:Ep.
      (* c1 = what this append added after the padding *)
      assert (Hc1 : exists k c1, pad_at bits p k /\ w_file st1 = w_file st ++ zeros k ++ c1 /\
                 ((is_ok r1 = false /\ c1 = []) \/
                  (r1 = WOk /\ es <> [] /\ len (ebytes es) <= TABLE_FULL_SIZE /\
                   main_at bits crc (p + k) (ebytes es) c1 /\ c1 <> []))).
      { destruct r1; try contradiction.
        - destruct Hr1 as (Hne & Hl & k & c & Hp & Hm & Hf). exists k, c. split; [exact Hp|]. split; [exact Hf|].
          right. split; [reflexivity|]. split; [intros ->; now apply Hne|]. split; [lia|]. split; [exact Hm|].
          eapply main_at_nonempty; eassumption.
        - destruct Hr1 as (k & Hp & Hf & _). exists k, []. split; [exact Hp|]. split; [now rewrite app_nil_r|].
          left. split; reflexivity. }
      destruct Hc1 as (k & c1 & Hpad & Hf1 & Hcase).
      assert (Hbw1 : w_bw st1 = p + k + len c1).
      { unfold wf_w in Hwf1, Hwf. rewrite Hwf1, Hf1, !len_app, len_zeros. rewrite Ep, Hwf. lia. }
      exists (zeros k ++ c1 ++ S'). split.
      { rewrite HS', Hf1. now rewrite <- !app_assoc. }
      (* the cut falls after this append's bytes *)
      assert (Complete : forall l2 s hf, l2 ++ s = S' -> (length (zeros k ++ c1 ++ l2) < hf)%nat ->
        exists r,
          Reads hf {| r_pos := p; r_rest := zeros k ++ c1 ++ l2; r_pend := [] |}
                (concat (durable (p + len (zeros k ++ c1 ++ l2)) ((r1, w_bw st1) :: rs') (es :: ess))) r /\
          (r = REnd \/ exists e, r = RErr e /\ (e = ESystem \/ e = ENoSecondHeader)) /\ (s = [] -> r = REnd) /\
          (length (concat (durable (p + len (zeros k ++ c1 ++ l2)) ((r1, w_bw st1) :: rs') (es :: ess)))
           <= length (zeros k ++ c1 ++ l2))%nat).
      { intros l2 s hf Hl2 Hhf.
        assert (Hn : p + len (zeros k ++ c1 ++ l2) = w_bw st1 + len l2).
        { rewrite !len_app, len_zeros, Hbw1. lia. }
        rewrite Hn. rewrite !app_length in Hhf.
        destruct (HR' l2 s hf Hl2 ltac:(lia)) as (r & HRd & Hre & Hrs & Hlen).
        exists r. rewrite durable_cons.
        destruct Hcase as [[Hnok ->]|(-> & Hesne & Hlen1 & Hmain & Hc1ne)].
        - rewrite Hnok. cbn [andb app].
          split; [|split; [exact Hre|split; [exact Hrs|rewrite app_length; lia]]].
          eapply reads_next_eq; [apply next_skip_pad; [exact Hpad|rewrite app_length; lia]|].
          assert (Ebw : w_bw st1 = p + k) by (rewrite Hbw1, len_nil; lia).
          rewrite Ebw in HRd |- *. exact HRd.
        - cbn [is_ok andb]. destruct (N.leb_spec (w_bw st1) (w_bw st1 + len l2)) as [_|Hc]; [|lia].
          cbn [concat].
          split; [|split; [exact Hre|split; [exact Hrs|]]].
          + eapply reads_next_eq; [apply next_skip_pad; [exact Hpad|rewrite !app_length; lia]|].
            destruct es as [|e es_tl]; [contradiction|].
            pose proof (Forall_inv Hwes) as Hwe. pose proof (Forall_inv_tail Hwes) as Hwtl.
            cbn [app]. eapply ReadsEntry.
            * apply (next_main hf (p + k) (ebytes (e :: es_tl)) c1 l2 e (ebytes es_tl)); try assumption; [reflexivity|lia].
            * apply reads_pending; [exact Hwtl|]. rewrite Hbw1 in HRd |- *. exact HRd.
          + rewrite !app_length. pose proof (main_at_len _ _ _ Hmain). pose proof (length_ebytes es). lia. }
      intros F s hf HF Hhf.
      rewrite (app_assoc (zeros k) c1 S') in HF.
      apply app_eq_app in HF. destruct HF as [l [[EF Es]|[EF Es]]].
      + (* F = (zeros k ++ c1) ++ l *)
        subst F. rewrite <- app_assoc in *. apply (Complete l s hf); [now symmetry|exact Hhf].
      + destruct l as [|y l].
        * rewrite app_nil_r in EF. subst F. cbn [app] in Es. subst s.
          rewrite <- (app_nil_r (zeros k ++ c1)) in *. rewrite <- app_assoc in *.
          apply (Complete [] S' hf); [reflexivity|exact Hhf].
        * (* F is a proper prefix of padding ++ batch: nothing of this or any later batch is whole *)
          assert (Hlt : p + len F < w_bw st1).
          { rewrite Hbw1. apply (f_equal len) in EF. rewrite !len_app, len_zeros, len_cons in EF. lia. }
          assert (Hdur : durable (p + len F) ((r1, w_bw st1) :: rs') (es :: ess) = []).
          { apply durable_none. constructor; [exact Hlt|].
            eapply Forall_impl; [|exact Hends]. cbn. intros x Hx. lia. }
          rewrite Hdur. cbn [concat length].
          assert (Hs : s <> []) by (rewrite Es; discriminate).
          assert (Goal' : exists r, Reads hf {| r_pos := p; r_rest := F; r_pend := [] |} [] r /\
                                    (r = REnd \/ exists e, r = RErr e /\ (e = ESystem \/ e = ENoSecondHeader))).
          { symmetry in EF. apply app_eq_app in EF. destruct EF as [l' [[EF' El]|[EF' El]]].
            - (* F = zeros k ++ l', c1 = l' ++ y :: l *)
              subst F. rewrite app_length in Hhf.
              destruct l' as [|z l'].
              + exists REnd. split; [|now left].
                eapply reads_next_eq; [apply next_skip_pad; [exact Hpad|rewrite app_length; lia]|].
                apply ReadsEnd. apply next_empty. lia.
              + destruct Hcase as [[_ ->]|(-> & Hesne & Hlen1 & Hmain & Hc1ne)]; [discriminate|].
                destruct (next_main_cut hf (p + k) (ebytes es) c1 (z :: l') (y :: l)) as (e & ste & He & _ & _ & Hkind);
                  try assumption; try discriminate; [now symmetry|lia|].
                exists (RErr e). split; [|right; exists e; split; [reflexivity|exact Hkind]].
                eapply reads_next_eq; [apply next_skip_pad; [exact Hpad|rewrite app_length; lia]|].
                eapply ReadsErr. exact He.
            - (* F is a prefix of the padding *)
              symmetry in EF'. apply zeros_prefix in EF'. destruct EF' as [HFz HFl].
              exists REnd. split; [|now left]. apply ReadsEnd.
              apply (next_pad_only hf p k F); assumption. }
          destruct Goal' as (r & HRd & Hre). exists r.
          split; [exact HRd|]. split; [exact Hre|]. split; [intros ->; contradiction|lia].
  Qed.

  Lemma read_written : forall rollover ess st rs st',
    wf_w st -> Forall (Forall wf_entry) ess ->
    append_all bits crc rollover st (map ebytes ess) = (rs, st') ->
    exists S, w_file st' = w_file st ++ S /\
      forall F s hf, F ++ s = S -> (length F < hf)%nat ->
        exists r,
          Reads hf {| r_pos := w_bw st; r_rest := F; r_pend := [] |}
                (concat (durable (w_bw st + len F) rs ess)) r /\
          (r = REnd \/ exists e, r = RErr e) /\ (s = [] -> r = REnd) /\
          (length (concat (durable (w_bw st + len F) rs ess)) <= length F)%nat.
  Proof.
    intros rollover ess st rs st' Hwf Hes H.
    destruct (read_written_gen rollover ess st rs st' Hwf Hes H) as (S & HS & HR).
    exists S. split; [exact HS|]. intros F s hf HF Hhf.
    destruct (HR F s hf HF Hhf) as (r & H1 & H2 & H3 & H4). exists r.
    split; [exact H1|]. split; [|split; assumption].
    destruct H2 as [->|(e & -> & _)]; [now left|right; now exists e].
  Qed.

  (* ---------------------------------------------------------------- from the loop relation to read_log *)
  Theorem read_log_prefix : forall rollover ess rs file n,
    Forall (Forall wf_entry) ess ->
    write_log bits crc rollover (map ebytes ess) = (rs, file) ->
    exists r, read_log bits crc (firstn n file) = (concat (durable (len (firstn n file)) rs ess), r) /\
              (r = REnd \/ exists e, r = RErr e) /\
              ((length file <= n)%nat -> r = REnd).
  Proof.
    intros rollover ess rs file n Hes H. unfold write_log in H.
    destruct (append_all bits crc rollover (w0) (map ebytes ess)) as [rs0 st'] eqn:E.
    inversion H; subst rs0 file. clear H.
    destruct (read_written rollover ess w0 rs st' wf_w0 Hes E) as (S & HS & HR).
    cbn [w_file w0 w_chunks rev concat app] in HS.
    change (w_file w0) with (@nil N) in HS. cbn [app] in HS.
    set (F := firstn n (w_file st')).
    destruct (HR F (skipn n (w_file st')) (Datatypes.S (length F))) as (r & HRd & Hre & Hrs & Hlen).
    { unfold F. rewrite <- HS. apply firstn_skipn. }
    { apply Nat.lt_succ_diag_r. }
    exists r. split; [|split; [exact Hre|]].
    - unfold read_log. change (w_bw w0) with 0 in HRd. rewrite N.add_0_l in HRd.
      apply (reads_read_all _ _ _ _ HRd). change (w_bw w0) with 0 in Hlen. rewrite N.add_0_l in Hlen. lia.
    - intros Hn. apply Hrs. apply skipn_all2. exact Hn.
  Qed.
End Reader.
