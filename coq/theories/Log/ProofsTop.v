(* Log/ProofsTop.v — from the prefix lemma to the statements of the property: round trip,
   torn tail, which batches survive a cut, WriteBatch contents. *)
From Coq Require Import NArith ZArith List Bool Lia Arith PeanoNat.
From Blue Require Import Gen.Const_Log Log.ModelWire Log.Model Log.ProofsWire Log.ProofsWriter Log.ProofsReader.
Import ListNotations.
Open Scope N_scope.

Arguments N.add : simpl never.
Arguments N.sub : simpl never.
Arguments N.mul : simpl never.
Arguments N.leb : simpl never.
Arguments N.ltb : simpl never.
Arguments N.eqb : simpl never.
Arguments N.of_nat : simpl never.
Arguments N.pow : simpl never.

(* the batches whose append returned Ok, in append order *)
Definition ok_batches (rs : list (wres * N)) (ess : list (list entry)) : list (list entry) :=
  map snd (filter (fun x => is_ok (fst (fst x))) (combine rs ess)).

Lemma ok_batches_cons : forall r1 e1 rs es ess,
  ok_batches ((r1, e1) :: rs) (es :: ess) = if is_ok r1 then es :: ok_batches rs ess else ok_batches rs ess.
Proof. intros. unfold ok_batches. cbn [combine filter fst snd]. destruct (is_ok r1); reflexivity. Qed.

Lemma durable_all : forall n rs ess,
  Forall (fun x => snd x <= n) rs -> durable n rs ess = ok_batches rs ess.
Proof.
  intros n rs. induction rs as [|[r1 e1] rs IH]; intros ess H; [reflexivity|].
  destruct ess as [|es ess]; [reflexivity|].
  inversion H as [|? ? Hx Hrs]; subst. cbn [snd] in Hx.
  rewrite durable_cons, ok_batches_cons.
  destruct (N.leb_spec e1 n) as [E|E]; [|lia]. rewrite andb_true_r.
  rewrite (IH ess Hrs). reflexivity.
Qed.

Section Top.
  Variable bits : N.
  Variable crc : list N -> N.
  Hypothesis HB : HEADER_MAX_SIZE < 2 ^ bits.

  Lemma append_all_bw_mono : forall rollover bufs st rs st',
    wf_w st -> append_all bits crc rollover st bufs = (rs, st') -> w_bw st <= w_bw st' /\ wf_w st'.
  Proof.
    induction bufs as [|b bufs IH]; intros st rs st' Hwf H.
    - inversion H; subst. split; [lia|exact Hwf].
    - rewrite append_all_cons in H.
      destruct (append bits crc rollover st b) as [r st1] eqn:E1.
      destruct (append_all bits crc rollover st1 bufs) as [rs' st2] eqn:E2.
      inversion H; subst.
      pose proof (append_bw_mono bits crc HB _ _ _ _ _ Hwf E1) as Hm.
      destruct (append_spec bits crc HB rollover st b r st1 Hwf E1) as [Hwf1 _].
      destruct (IH st1 rs' st' Hwf1 E2) as [Hm2 Hwf2]. split; [lia|exact Hwf2].
  Qed.

  Lemma append_all_ends_le : forall rollover bufs st rs st',
    wf_w st -> append_all bits crc rollover st bufs = (rs, st') ->
    Forall (fun x => snd x <= w_bw st') rs.
  Proof.
    induction bufs as [|b bufs IH]; intros st rs st' Hwf H.
    - inversion H; subst. constructor.
    - rewrite append_all_cons in H.
      destruct (append bits crc rollover st b) as [r st1] eqn:E1.
      destruct (append_all bits crc rollover st1 bufs) as [rs' st2] eqn:E2.
      inversion H; subst.
      destruct (append_spec bits crc HB rollover st b r st1 Hwf E1) as [Hwf1 _].
      destruct (append_all_bw_mono _ _ _ _ _ Hwf1 E2) as [Hm _].
      constructor; [exact Hm|]. apply (IH st1 rs' st' Hwf1 E2).
  Qed.

  (* a cut keeps a PREFIX of the successfully appended batches *)
  Lemma durable_prefix : forall rollover bufs st rs st' n ess,
    wf_w st -> append_all bits crc rollover st bufs = (rs, st') ->
    exists j, durable n rs ess = firstn j (ok_batches rs ess).
  Proof.
    induction bufs as [|b bufs IH]; intros st rs st' n ess Hwf H.
    - inversion H; subst. exists O. reflexivity.
    - rewrite append_all_cons in H.
      destruct (append bits crc rollover st b) as [r st1] eqn:E1.
      destruct (append_all bits crc rollover st1 bufs) as [rs' st2] eqn:E2.
      inversion H; subst.
      destruct ess as [|es ess]; [exists O; reflexivity|].
      destruct (append_spec bits crc HB rollover st b r st1 Hwf E1) as [Hwf1 _].
      rewrite durable_cons, ok_batches_cons.
      destruct (IH st1 rs' st' n ess Hwf1 E2) as [j Hj].
      destruct (is_ok r) eqn:Eok; cbn [andb].
      + destruct (N.leb_spec (w_bw st1) n) as [E|E].
        * exists (S j). cbn [firstn]. now rewrite Hj.
        * exists O. cbn [firstn]. apply (durable_none bits HB).
          pose proof (append_all_ends_ge bits crc HB _ _ _ _ _ Hwf1 E2) as Hge.
          eapply Forall_impl; [|exact Hge]. cbn. intros x Hx. lia.
      + exists j. exact Hj.
  Qed.

  Theorem roundtrip : forall rollover ess rs file,
    Forall (Forall wf_entry) ess ->
    write_log bits crc rollover (map ebytes ess) = (rs, file) ->
    read_log bits crc file = (concat (ok_batches rs ess), REnd).
  Proof.
    intros rollover ess rs file Hes H.
    destruct (read_log_prefix bits crc HB rollover ess rs file (length file) Hes H) as (r & HR & _ & Hend).
    rewrite firstn_all in HR. rewrite (Hend (le_n _)) in HR. rewrite HR. f_equal. f_equal.
    apply durable_all.
    unfold write_log in H.
    destruct (append_all bits crc rollover w0 (map ebytes ess)) as [rs0 st'] eqn:E.
    inversion H; subst.
    destruct (append_all_bw_mono _ _ _ _ _ wf_w0 E) as [_ Hwf'].
    pose proof (append_all_ends_le _ _ _ _ _ wf_w0 E) as Hle.
    unfold wf_w in Hwf'. rewrite <- Hwf'. exact Hle.
  Qed.

  Theorem torn_tail : forall rollover ess rs file n,
    Forall (Forall wf_entry) ess ->
    write_log bits crc rollover (map ebytes ess) = (rs, file) ->
    exists j r,
      read_log bits crc (firstn n file) = (concat (firstn j (ok_batches rs ess)), r) /\
      (r = REnd \/ exists e, r = RErr e) /\
      firstn j (ok_batches rs ess) = durable (len (firstn n file)) rs ess.
  Proof.
    intros rollover ess rs file n Hes H.
    destruct (read_log_prefix bits crc HB rollover ess rs file n Hes H) as (r & HR & Hre & _).
    unfold write_log in H.
    destruct (append_all bits crc rollover w0 (map ebytes ess)) as [rs0 st'] eqn:E.
    inversion H; subst.
    destruct (durable_prefix _ _ _ _ _ (len (firstn n (w_file st'))) ess wf_w0 E) as [j Hj].
    exists j, r. rewrite <- Hj. split; [exact HR|]. split; [exact Hre|reflexivity].
  Qed.
End Top.

(* ---------------------------------------------------------------- WriteBatch *)
Definition accepted (e : entry) : bool :=
  negb (MAX_KEY_LEN <? len (e_key e)) &&
  negb (match e_val e with Some v => MAX_VALUE_LEN <? len v | None => false end).

Lemma accepted_wf : forall e, e_ts e < W64 -> accepted e = true -> wf_entry e.
Proof.
  intros e Ht H. unfold accepted in H. apply andb_true_iff in H. destruct H as [H1 H2].
  apply negb_true_iff in H1, H2. unfold wf_entry.
  destruct (N.ltb_spec MAX_KEY_LEN (len (e_key e))); [discriminate|].
  split; [assumption|]. split; [exact Ht|].
  destruct (e_val e) as [v|]; [|exact I].
  destruct (N.ltb_spec MAX_VALUE_LEN (len v)); [discriminate|assumption].
Qed.

(* what a WriteBatch holds after a sequence of put/del: the encodings of the entries it accepted,
   in order (it refuses over-long keys/values and entries that would take it past the block size) *)
Lemma wb_insert_buffer : forall bs b e r b',
  wb_len b = len (wb_buffer b) -> wb_insert bs b e = (r, b') ->
  wb_len b' = len (wb_buffer b') /\
  ((r = None /\ wb_buffer b' = wb_buffer b ++ entry_bytes e) \/ (r <> None /\ b' = b)).
Proof.
  intros bs b e r b' Hl H. unfold wb_insert in H.
  destruct (MAX_KEY_LEN <? len (e_key e)); [inversion H; subst; split; [exact Hl|right; split; [discriminate|reflexivity]]|].
  destruct (match e_val e with Some v => MAX_VALUE_LEN <? len v | None => false end);
    [inversion H; subst; split; [exact Hl|right; split; [discriminate|reflexivity]]|].
  destruct (check_batch_size bs (wb_len b + len (entry_bytes e))).
  - inversion H; subst. unfold wb_buffer. cbn [wb_chunks wb_len rev]. rewrite concat_app. cbn [concat].
    rewrite app_nil_r. split; [|left; split; reflexivity].
    rewrite len_app. unfold wb_buffer in Hl. rewrite Hl. reflexivity.
  - inversion H; subst. split; [exact Hl|right; split; [discriminate|reflexivity]].
Qed.

Theorem batch_build_buffer : forall bits es b rs b',
  wb_len b = len (wb_buffer b) -> batch_build bits b es = (rs, b') ->
  exists kept, wb_buffer b' = wb_buffer b ++ ebytes kept /\
               kept = map snd (filter (fun x => match fst x with None => true | Some _ => false end) (combine rs es)) /\
               length rs = length es.
Proof.
  intros bits es. induction es as [|e es IH]; intros b rs b' Hl H.
  - cbn [batch_build] in H. inversion H; subst. exists []. rewrite app_nil_r. repeat split.
  - cbn [batch_build] in H.
    destruct (wb_insert (block_size bits) b e) as [r b1] eqn:E1.
    destruct (batch_build bits b1 es) as [rs' b2] eqn:E2.
    inversion H; subst.
    destruct (wb_insert_buffer _ _ _ _ _ Hl E1) as [Hl1 Hc].
    destruct (IH b1 rs' b' Hl1 E2) as (kept & Hk & Hkept & Hlen).
    cbn [combine filter fst snd length].
    destruct Hc as [[-> Hb1]|[Hr ->]].
    + exists (e :: kept). rewrite Hk, Hb1, ebytes_cons, <- app_assoc. cbn [map snd]. rewrite Hkept, Hlen. repeat split.
    + destruct r; [|contradiction]. exists kept. rewrite Hk. rewrite Hkept, Hlen. repeat split.
Qed.

Lemma wb_insert_none_accepted : forall bs b e b', wb_insert bs b e = (None, b') -> accepted e = true.
Proof.
  intros bs b e b' H. unfold wb_insert in H. unfold accepted.
  destruct (MAX_KEY_LEN <? len (e_key e)); [discriminate|].
  destruct (match e_val e with Some v => MAX_VALUE_LEN <? len v | None => false end); [discriminate|].
  reflexivity.
Qed.

(* the entries a WriteBatch keeps are within the limits the theorems ask for *)
Theorem batch_build_kept_wf : forall bits es b rs b',
  batch_build bits b es = (rs, b') -> Forall (fun e => e_ts e < W64) es ->
  Forall wf_entry (map snd (filter (fun x => match fst x with None => true | Some _ => false end) (combine rs es))).
Proof.
  intros bits es. induction es as [|e es IH]; intros b rs b' H Hts.
  - cbn [batch_build] in H. inversion H; subst. constructor.
  - cbn [batch_build] in H.
    destruct (wb_insert (block_size bits) b e) as [r b1] eqn:E1.
    destruct (batch_build bits b1 es) as [rs' b2] eqn:E2.
    inversion H; subst. inversion Hts as [|? ? Ht Hts']; subst.
    cbn [combine filter fst snd].
    destruct r as [er|].
    + apply (IH b1 rs' b' E2 Hts').
    + cbn [map snd]. constructor.
      * apply accepted_wf; [exact Ht|]. eapply wb_insert_none_accepted. exact E1.
      * apply (IH b1 rs' b' E2 Hts').
Qed.
