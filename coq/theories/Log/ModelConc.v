(* Log/ModelConc.v — small-step model of ConcurrentLogBuilder::append over the interface of
   sync42's WorkCoalescingQueue (definitions only).

   What is modelled (sst/src/log.rs, sync42/src/work_coalescing_queue.rs do_work):
   - a caller links its input at the tail of the queue's wait list (Submit / EnqF);
   - when no work is in progress the thread at the head becomes the leader: holding the queue's
     state mutex and the core's lock it takes a non-empty prefix of the waiting inputs — the first
     unconditionally, each further one only if core.can_batch(acc, input) — folding them with
     core.batch, marks them Stolen and sets doing_work (LeadW / LeadF).  The prefix need not be
     maximal: inputs linked while the leader iterates may or may not be seen;
   - the leader then runs core.work(taken, acc) outside the state mutex (other threads keep
     linking meanwhile), stores the outputs, clears doing_work (WorkW / WorkFSkip, WorkFSync, WorkFFail);
   - each taken caller returns with its output.

   WriteCoalescingCore: batch = WriteBatch::merge (concatenation), can_batch = merged size within
   BLOCK_SIZE, work = { written += len; builder.append(acc); builder.flush() } -> Ok(written) for
   every taken input, or the error for every taken input.
   FsyncCoalescingCore: batch = max, can_batch as in the source, work = { if synced >= acc then
   true else { ret = fdatasync(fd); if ret { synced = acc }; ret } }.
   An fdatasync that succeeds makes durable every byte the builder has flushed so far
   (`c_durable := bytes_written`); that is the meaning of fdatasync and the only assumption about
   the operating system.  A failing fdatasync changes nothing (WorkFFail).

   What is NOT modelled: the wait list itself (link/unlink, condition variables, sequence numbers),
   i.e. that the real queue implements the atomic Lead/Work steps above — that is C18's subject.
   Theorems about this machine are therefore labelled partial in Props_C12.v. *)
From Coq Require Import NArith List Bool.
From Blue Require Import Gen.Const_Log Log.ModelWire Log.Model.
Import ListNotations.
Open Scope N_scope.

(* one ConcurrentLogBuilder::append call: an identifier and the (accepted) entries of its batch *)
Definition req := (nat * list entry)%type.

(* one call of WriteCoalescingCore::work: the inputs it took, what builder.append returned, the
   builder's bytes_written afterwards, and the value of `written` it handed out *)
Record wwork := { ww_taken : list req; ww_res : wres; ww_end : N; ww_mark : N }.

Record cstate := {
  c_wq : list req;                         (* write queue: linked, not yet taken *)
  c_wlead : option (list req);             (* Some taken: a write leader is between Lead and Work *)
  c_w : wstate;                            (* the LogBuilder *)
  c_written : N;                           (* WriteCoalescingCore.written *)
  c_log : list wwork;                      (* history of write works, oldest first *)
  c_wret : list (nat * N);                 (* calls holding Ok(written), not yet linked to the fsync queue *)
  c_fq : list (nat * N);                   (* fsync queue *)
  c_flead : option (list (nat * N) * N);   (* Some (taken, acc) *)
  c_synced : N;                            (* FsyncCoalescingCore.synced *)
  c_durable : N;                           (* file bytes known durable (ghost) *)
  c_done : list (nat * bool);              (* returned calls: Ok(()) = true, Err = false *)
  c_ids : list nat                         (* every identifier ever submitted (ghost) *)
}.

Definition c0 : cstate :=
  {| c_wq := []; c_wlead := None; c_w := w0; c_written := 0; c_log := []; c_wret := []; c_fq := [];
     c_flead := None; c_synced := 0; c_durable := 0; c_done := []; c_ids := [] |}.

(* what WriteBatch::put/del accept (the wf_entry of the proofs) *)
Definition entry_ok (e : entry) : Prop :=
  len (e_key e) <= MAX_KEY_LEN /\ e_ts e < W64 /\
  match e_val e with Some v => len v <= MAX_VALUE_LEN | None => True end.

Definition ebytes_of (es : list entry) : list N := concat (map entry_bytes es).
Definition req_entries (rs : list req) : list entry := concat (map snd rs).
(* WriteBatch::merge folded over the taken inputs: the concatenation of their buffers *)
Definition req_buffer (rs : list req) : list N := ebytes_of (req_entries rs).

(* WriteCoalescingCore::can_batch chain: every input after the first is taken only if the merged
   size stays within the block size *)
Fixpoint w_can_batch_chain (bs acc : N) (rs : list req) : bool :=
  match rs with
  | [] => true
  | r :: rs' =>
      let l := len (ebytes_of (snd r)) in
      check_batch_size bs (acc + l) && w_can_batch_chain bs (acc + l) rs'
  end.

(* FsyncCoalescingCore::can_batch *)
Definition f_can_batch (synced acc input : N) : bool :=
  if (0 <? acc) && (acc <=? synced) && (input <=? synced) then true
  else if (0 <? acc) && (acc <=? synced) then false
  else true.

(* fold of FsyncCoalescingCore::batch (max) over the taken inputs, the first taken unconditionally *)
Fixpoint f_chain (synced acc : N) (ws : list (nat * N)) : option N :=
  match ws with
  | [] => Some acc
  | w :: ws' => if f_can_batch synced acc (snd w) then f_chain synced (N.max acc (snd w)) ws' else None
  end.

Section WithParams.
  Variable bits : N.
  Variable crc : list N -> N.
  Variable rollover : N.

  Inductive step : cstate -> cstate -> Prop :=
  (* ConcurrentLogBuilder::append(write_batch) with a non-empty batch: link to the write queue *)
  | Submit : forall s id es,
      ~ In id (c_ids s) -> es <> [] -> Forall entry_ok es ->
      step s {| c_wq := c_wq s ++ [(id, es)]; c_wlead := c_wlead s; c_w := c_w s; c_written := c_written s;
                c_log := c_log s; c_wret := c_wret s; c_fq := c_fq s; c_flead := c_flead s;
                c_synced := c_synced s; c_durable := c_durable s; c_done := c_done s;
                c_ids := id :: c_ids s |}
  (* the head of the write queue takes a prefix *)
  | LeadW : forall s first more rest,
      c_wlead s = None -> c_wq s = first :: more ++ rest ->
      w_can_batch_chain (block_size bits) (len (ebytes_of (snd first))) more = true ->
      step s {| c_wq := rest; c_wlead := Some (first :: more); c_w := c_w s; c_written := c_written s;
                c_log := c_log s; c_wret := c_wret s; c_fq := c_fq s; c_flead := c_flead s;
                c_synced := c_synced s; c_durable := c_durable s; c_done := c_done s; c_ids := c_ids s |}
  (* WriteCoalescingCore::work *)
  | WorkW : forall s taken r st',
      c_wlead s = Some taken ->
      append bits crc rollover (c_w s) (req_buffer taken) = (r, st') ->
      let mark := c_written s + len (req_buffer taken) in
      step s {| c_wq := c_wq s; c_wlead := None; c_w := st'; c_written := mark;
                c_log := c_log s ++ [{| ww_taken := taken; ww_res := r; ww_end := w_bw st'; ww_mark := mark |}];
                c_wret := match r with WOk => c_wret s ++ map (fun q => (fst q, mark)) taken | _ => c_wret s end;
                c_fq := c_fq s; c_flead := c_flead s; c_synced := c_synced s; c_durable := c_durable s;
                c_done := match r with WOk => c_done s | _ => c_done s ++ map (fun q => (fst q, false)) taken end;
                c_ids := c_ids s |}
  (* a call that got Ok(written) links to the fsync queue *)
  | EnqF : forall s a id w b,
      c_wret s = a ++ (id, w) :: b ->
      step s {| c_wq := c_wq s; c_wlead := c_wlead s; c_w := c_w s; c_written := c_written s;
                c_log := c_log s; c_wret := a ++ b; c_fq := c_fq s ++ [(id, w)]; c_flead := c_flead s;
                c_synced := c_synced s; c_durable := c_durable s; c_done := c_done s; c_ids := c_ids s |}
  (* the head of the fsync queue takes a prefix *)
  | LeadF : forall s first more rest acc,
      c_flead s = None -> c_fq s = first :: more ++ rest ->
      f_chain (c_synced s) (N.max 0 (snd first)) more = Some acc ->
      step s {| c_wq := c_wq s; c_wlead := c_wlead s; c_w := c_w s; c_written := c_written s;
                c_log := c_log s; c_wret := c_wret s; c_fq := rest; c_flead := Some (first :: more, acc);
                c_synced := c_synced s; c_durable := c_durable s; c_done := c_done s; c_ids := c_ids s |}
  (* FsyncCoalescingCore::work, already synced far enough: no system call *)
  | WorkFSkip : forall s taken acc,
      c_flead s = Some (taken, acc) -> acc <= c_synced s ->
      step s {| c_wq := c_wq s; c_wlead := c_wlead s; c_w := c_w s; c_written := c_written s;
                c_log := c_log s; c_wret := c_wret s; c_fq := c_fq s; c_flead := None;
                c_synced := c_synced s; c_durable := c_durable s;
                c_done := c_done s ++ map (fun q => (fst q, true)) taken; c_ids := c_ids s |}
  (* FsyncCoalescingCore::work, fdatasync succeeds: everything flushed so far is durable *)
  | WorkFSync : forall s taken acc,
      c_flead s = Some (taken, acc) -> c_synced s < acc ->
      step s {| c_wq := c_wq s; c_wlead := c_wlead s; c_w := c_w s; c_written := c_written s;
                c_log := c_log s; c_wret := c_wret s; c_fq := c_fq s; c_flead := None;
                c_synced := acc; c_durable := w_bw (c_w s);
                c_done := c_done s ++ map (fun q => (fst q, true)) taken; c_ids := c_ids s |}
  (* FsyncCoalescingCore::work, fdatasync fails *)
  | WorkFFail : forall s taken acc,
      c_flead s = Some (taken, acc) -> c_synced s < acc ->
      step s {| c_wq := c_wq s; c_wlead := c_wlead s; c_w := c_w s; c_written := c_written s;
                c_log := c_log s; c_wret := c_wret s; c_fq := c_fq s; c_flead := None;
                c_synced := c_synced s; c_durable := c_durable s;
                c_done := c_done s ++ map (fun q => (fst q, false)) taken; c_ids := c_ids s |}.

  Inductive reachable : cstate -> Prop :=
  | R0 : reachable c0
  | RS : forall s s', reachable s -> step s s' -> reachable s'.
End WithParams.
