(* Extraction of the executable log model for the correspondence check.
   Directives in force: those of ExtrOcamlBasic only (N, positive, nat stay inductive). *)
From Coq Require Import NArith List.
From Blue Require Import Log.ModelWire Log.Model Log.Inst.
Require Import ExtrOcamlBasic.
Extraction Language OCaml.
Extraction "../ocaml/log/gen_log.ml" log_batch_build log_write log_read log_read_again parse_header header_frame entry_bytes
  DEFAULT_ROLLOVER N.of_nat N.to_nat.
