(* Log/ProofsWcqFrame.v — what one step of the Sync42 queue machine (Sync42/ModelWcq.v, read only)
   can change, for ANY core: the ghost lists g_links / g_seen / g_batches and the core change only
   in three kinds of steps (a link, the leader stealing one input = core.batch, the leader's
   core.work); every other thread keeps its record up to a wake-up token.  Used to thread the
   log's own core invariants through the machine. *)
From Coq Require Import Arith List Bool Lia.
From Blue Require Import Sync42.ModelLru Sync42.ModelWaitList Sync42.ModelWcq Sync42.ProofsWaitList Sync42.ProofsWcqBase.
Import ListNotations.
Open Scope nat_scope.

Local Arguments Nat.modulo : simpl never.
Local Arguments Nat.div : simpl never.
Local Arguments s_linked {T}. Local Arguments s_value {T}. Local Arguments w_head {T}. Local Arguments w_tail {T}.
Local Arguments w_waiting {T}. Local Arguments w_slots {T}. Local Arguments mkWl {T}. Local Arguments nslots {T}.
Local Arguments slot_at {T}. Local Arguments set_slot {T}. Local Arguments with_head {T}. Local Arguments with_tail {T}.
Local Arguments with_waiting {T}. Local Arguments invariants_ok {T}. Local Arguments wl_full {T}.
Local Arguments Linked {T}. Local Arguments MustWait {T}. Local Arguments wl_link_try {T}. Local Arguments wl_link_wake {T}.
Local Arguments wl_unlink {T}. Local Arguments wl_notify_head {T}. Local Arguments wl_store {T}. Local Arguments wl_load {T}.
Local Arguments wl_is_head {T}. Local Arguments wl_iter_next {T}. Local Arguments live {T}. Local Arguments wl_new {T}.
Local Arguments wl_wf {T}. Local Arguments link_new {T}.
Local Arguments in_live {T}. Local Arguments live_sorted {T}. Local Arguments live_nodup {T}. Local Arguments live_hd {T}.
Local Arguments live_nil_head {T}. Local Arguments slot_at_set_same {T}. Local Arguments slot_at_set_other {T}.
Local Arguments wf_invariants_ok {T}. Local Arguments unlink_spec {T}. Local Arguments link_new_spec {T}.
Local Arguments wl_link_try_unfold {T}. Local Arguments store_spec {T}. Local Arguments nslots_link_new {T}.
Local Arguments wl_wf_split {T}.
Local Arguments PIdle {Inp Outp Acc}. Local Arguments PLinkSleep {Inp Outp Acc}. Local Arguments PEnter {Inp Outp Acc}.
Local Arguments PTest {Inp Outp Acc}. Local Arguments PLoad {Inp Outp Acc}. Local Arguments PWait {Inp Outp Acc}.
Local Arguments PSleep {Inp Outp Acc}. Local Arguments PExitUnlink {Inp Outp Acc}.
Local Arguments PExitWA {Inp Outp Acc}. Local Arguments PExitNotify {Inp Outp Acc}.
Local Arguments PHead {Inp Outp Acc}. Local Arguments PLockCore {Inp Outp Acc}. Local Arguments PBatch {Inp Outp Acc}.
Local Arguments PWork {Inp Outp Acc}. Local Arguments PDist {Inp Outp Acc}. Local Arguments PLeaderLoad {Inp Outp Acc}.
Local Arguments PLeaderUnlink {Inp Outp Acc}. Local Arguments PLeaderWA {Inp Outp Acc}.
Local Arguments PLeaderClear {Inp Outp Acc}. Local Arguments PLeaderNotify {Inp Outp Acc}.
Local Arguments mkThread {Inp Outp Acc}. Local Arguments t_pc {Inp Outp Acc}. Local Arguments t_todo {Inp Outp Acc}.
Local Arguments t_done {Inp Outp Acc}.
Local Arguments mkG {Inp Outp Acc CS}. Local Arguments g_wl {Inp Outp Acc CS}. Local Arguments g_S {Inp Outp Acc CS}.
Local Arguments g_C {Inp Outp Acc CS}. Local Arguments g_dw {Inp Outp Acc CS}. Local Arguments g_core {Inp Outp Acc CS}.
Local Arguments g_threads {Inp Outp Acc CS}. Local Arguments g_links {Inp Outp Acc CS}.
Local Arguments g_seen {Inp Outp Acc CS}. Local Arguments g_batches {Inp Outp Acc CS}.
Local Arguments with_threads {Inp Outp Acc CS}. Local Arguments with_wl {Inp Outp Acc CS}.
Local Arguments with_S {Inp Outp Acc CS}. Local Arguments with_C {Inp Outp Acc CS}.
Local Arguments with_dw {Inp Outp Acc CS}. Local Arguments set_pc {Inp Outp Acc}.
Local Arguments set_thread {Inp Outp Acc CS}. Local Arguments tokenize {Inp Outp Acc}.
Local Arguments wake_nth {Inp Outp Acc}. Local Arguments count_sel {Inp Outp Acc}.
Local Arguments notify_one {Inp Outp Acc}. Local Arguments sleeps_on {Inp Outp Acc}.
Local Arguments sleeps_wa {Inp Outp Acc}. Local Arguments notify_cond {Inp Outp Acc CS}.
Local Arguments notify_wa {Inp Outp Acc CS}.
Local Arguments SOk {Inp Outp Acc CS}. Local Arguments SBlocked {Inp Outp Acc CS}.
Local Arguments SDone {Inp Outp Acc CS}. Local Arguments SPanic {Inp Outp Acc CS}.
Local Arguments after_link {Inp Outp Acc CS}. Local Arguments finish {Inp Outp Acc}.
Local Arguments spurious {Inp Outp Acc CS}. Local Arguments thread_finished {Inp Outp Acc}.
Local Arguments all_finished {Inp Outp Acc CS}.
Section Frame.
  Context {Inp Outp Acc CS : Type}.
  Context {acc0 : Acc} {can_batch : CS -> Acc -> Inp -> bool} {batch : CS -> Acc -> Inp -> CS * Acc}
          {work : CS -> nat -> Acc -> CS * list Outp}.
  Notation pc := (pc Inp Outp Acc).
  Notation thread := (thread Inp Outp Acc).
  Notation gstate := (gstate Inp Outp Acc CS).
  Notation TSTEP := (tstep Inp Outp Acc CS acc0 can_batch batch work).

  (* how a thread can come to hold an accumulator *)
  Definition plain_pc (p p' : pc) : Prop :=
    match p' with
    | PBatch idx cur taken acc => p = PLockCore idx /\ cur = idx /\ taken = 0 /\ acc = acc0
    | PWork idx taken acc => exists cur, p = PBatch idx cur taken acc
    | _ => True
    end.

  Definition same_ghost (g g' : gstate) : Prop :=
    g_links g' = g_links g /\ g_seen g' = g_seen g /\ g_batches g' = g_batches g /\ g_core g' = g_core g.

  Inductive step_kind (g : gstate) (t : nat) (th th' : thread) (g' : gstate) : Prop :=
  | KPlain : same_ghost g g' -> plain_pc (t_pc th) (t_pc th') ->
             (t_done th' = t_done th \/ exists idx o, t_done th' = (idx, o) :: t_done th) ->
             step_kind g t th th' g'
  | KLink : forall i idx, g_links g' = g_links g ++ [(t, i)] -> g_seen g' = g_seen g ->
             g_batches g' = g_batches g -> g_core g' = g_core g ->
             t_pc th' = PEnter idx -> t_done th' = t_done th -> step_kind g t th th' g'
  | KSteal : forall idx cur taken acc i,
             t_pc th = PBatch idx cur taken acc -> wl_load (g_wl g) cur = Ok (WInput i) ->
             ((taken =? 0) || can_batch (g_core g) acc i) = true ->
             g_links g' = g_links g -> g_seen g' = g_seen g ++ [i] -> g_batches g' = g_batches g ->
             g_core g' = fst (batch (g_core g) acc i) ->
             t_pc th' = PBatch idx (S cur) (S taken) (snd (batch (g_core g) acc i)) ->
             t_done th' = t_done th -> step_kind g t th th' g'
  | KWork : forall idx taken acc,
             t_pc th = PWork idx taken acc ->
             g_links g' = g_links g -> g_seen g' = g_seen g ->
             g_batches g' = g_batches g ++ [(idx, taken, snd (work (g_core g) taken acc))] ->
             g_core g' = fst (work (g_core g) taken acc) ->
             t_pc th' = PDist idx idx taken (snd (work (g_core g) taken acc)) ->
             t_done th' = t_done th -> step_kind g t th th' g'.

  Lemma tokrel_notify_cond : forall (g : gstate) idx c,
    tokrel (g_threads g) (g_threads (notify_cond g idx c)).
  Proof. intros. unfold notify_cond, with_threads. cbn [g_threads]. apply notify_one_tokrel. Qed.

  Lemma tokrel_notify_wa : forall (g : gstate) c, tokrel (g_threads g) (g_threads (notify_wa g c)).
  Proof. intros. unfold notify_wa, with_threads. cbn [g_threads]. apply notify_one_tokrel. Qed.

  Ltac gp := cbn [g_wl g_S g_C g_dw g_core g_threads g_links g_seen g_batches set_pc t_pc t_todo t_done
                  with_threads with_wl with_S with_C with_dw set_thread notify_cond notify_wa finish] in *.

  Lemma tokrel_refl' : forall ths : list thread, tokrel ths ths.
  Proof. exact tokrel_refl. Qed.

  (* the shape every successful step has: the stepping thread's record is replaced in a thread
     list that differs from the old one by wake-up tokens only *)
  Definition framed (g : gstate) (t : nat) (th : thread) (g' : gstate) : Prop :=
    exists th' ths1, tokrel (g_threads g) ths1 /\ g_threads g' = upd t th' ths1 /\
                     step_kind g t th th' g'.

  Lemma framed_plain : forall (g g1 : gstate) t th p',
    tokrel (g_threads g) (g_threads g1) -> same_ghost g g1 -> plain_pc (t_pc th) p' ->
    framed g t th (set_thread g1 t (set_pc th p')).
  Proof.
    intros g g1 t th p' Htok Hg Hp. exists (set_pc th p'), (g_threads g1).
    split; [exact Htok|]. split; [reflexivity|].
    apply KPlain; [| exact Hp | left; reflexivity].
    destruct Hg as (H1 & H2 & H3 & H4). unfold same_ghost, set_thread, with_threads. cbn [g_links g_seen g_batches g_core]. auto.
  Qed.

  Lemma framed_finish : forall (g g1 : gstate) t th idx o,
    tokrel (g_threads g) (g_threads g1) -> same_ghost g g1 ->
    framed g t th (set_thread g1 t (finish th idx o)).
  Proof.
    intros g g1 t th idx o Htok Hg. exists (finish th idx o), (g_threads g1).
    split; [exact Htok|]. split; [reflexivity|].
    apply KPlain; [| exact I | right; exists idx, o; reflexivity].
    destruct Hg as (H1 & H2 & H3 & H4). unfold same_ghost, set_thread, with_threads. cbn [g_links g_seen g_batches g_core]. auto.
  Qed.

  Lemma same_ghost_refl : forall g : gstate, same_ghost g g.
  Proof. intro g. repeat split. Qed.

  Lemma framed_after_link : forall (g g' : gstate) t th th1 i r,
    t_done th1 = t_done th ->
    after_link g t th1 i r = SOk g' -> framed g t th g'.
  Proof.
    intros g g' t th th1 i r Hd H. unfold after_link in H.
    destruct r as [[w idx | w] | | |]; try discriminate; injection H as <-.
    - exists (set_pc th1 (PEnter idx)), (g_threads g). split; [apply tokrel_refl|]. split; [reflexivity|].
      eapply (KLink _ _ _ _ _ i idx); cbn [set_thread with_threads with_wl g_links g_seen g_batches g_core set_pc t_pc t_done]; auto.
    - exists (set_pc th1 (PLinkSleep i false)), (g_threads g). split; [apply tokrel_refl|]. split; [reflexivity|].
      apply KPlain; [repeat split | exact I | left; cbn [set_pc t_done]; exact Hd].
  Qed.

  Theorem tstep_frame : forall (g g' : gstate) t c th,
    TSTEP g t c = SOk g' -> nth_error (g_threads g) t = Some th -> framed g t th g'.
  Proof.
    intros g g' t c th H Ht. unfold tstep in H. rewrite Ht in H.
    destruct (t_pc th) as [| i tok | idx | idx | idx | idx | idx tok | idx o | idx o | idx o | idx
                          | idx | idx cur taken acc | idx taken acc | idx cur rem outs | idx
                          | idx o | idx o | idx o | idx o] eqn:Hpc.
    - (* PIdle *)
      destruct (t_todo th) as [|i rest]; [discriminate|].
      eapply framed_after_link; [|exact H]. reflexivity.
    - (* PLinkSleep *)
      destruct tok; [|discriminate]. eapply framed_after_link; [|exact H]. reflexivity.
    - (* PEnter *)
      destruct (free (g_S g)); [|discriminate]. injection H as <-.
      apply framed_plain; [apply tokrel_refl | (repeat split) | exact I].
    - (* PTest *)
      destruct (g_dw g).
      + injection H as <-. apply framed_plain; [apply tokrel_refl | (repeat split) | exact I].
      + destruct (wl_is_head (g_wl g) idx) as [[|] | | |]; try discriminate; injection H as <-;
          (apply framed_plain; [apply tokrel_refl | (repeat split) | exact I]).
    - (* PLoad *)
      destruct (wl_load (g_wl g) idx) as [[i | | o] | | |]; try discriminate; injection H as <-;
        (apply framed_plain; [apply tokrel_refl | (repeat split) | exact I]).
    - (* PWait *)
      injection H as <-. apply framed_plain; [apply tokrel_refl | (repeat split) | exact I].
    - (* PSleep *)
      destruct tok; [|discriminate]. destruct (free (g_S g)); [|discriminate]. injection H as <-.
      apply framed_plain; [apply tokrel_refl | (repeat split) | exact I].
    - (* PExitUnlink *)
      destruct (wl_unlink (g_wl g) idx) as [[w [|]] | | |]; try discriminate; injection H as <-;
        (apply framed_plain; [apply tokrel_refl | (repeat split) | exact I]).
    - (* PExitWA *)
      injection H as <-. apply framed_plain; [apply tokrel_notify_wa | (repeat split) | exact I].
    - (* PExitNotify *)
      injection H as <-. destruct (wl_notify_head (g_wl g)) as [h|].
      + apply framed_finish; [apply tokrel_notify_cond | (repeat split)].
      + apply framed_finish; [apply tokrel_refl | (repeat split)].
    - (* PHead *)
      destruct (g_dw g); [discriminate|].
      destruct (wl_is_head (g_wl g) idx) as [[|] | | |]; try discriminate.
      destruct (wl_load (g_wl g) idx) as [[i | | o] | | |]; try discriminate; injection H as <-;
        (apply framed_plain; [apply tokrel_refl | (repeat split) | exact I]).
    - (* PLockCore *)
      destruct (free (g_C g)); [|discriminate]. injection H as <-.
      apply framed_plain; [apply tokrel_refl | (repeat split) |].
      cbn [plain_pc]. rewrite Hpc. auto.
    - (* PBatch *)
      destruct (wl_iter_next (g_wl g) cur) as [j|].
      + destruct (wl_load (g_wl g) cur) as [[i | | o] | | |] eqn:Hload; try discriminate.
        destruct ((taken =? 0) || can_batch (g_core g) acc i) eqn:Hguard.
        * destruct (batch (g_core g) acc i) as [core' acc'] eqn:Hb. injection H as <-.
          eexists. eexists. split; [|split; [reflexivity|]].
          2:{ eapply (KSteal _ _ _ _ _ idx cur taken acc i); try reflexivity; try assumption;
              cbn [set_thread with_threads notify_cond g_links g_seen g_batches g_core set_pc t_pc t_done];
              rewrite ?Hb; reflexivity. }
          cbn [set_thread with_threads notify_cond g_threads]. apply notify_one_tokrel.
        * injection H as <-. apply framed_plain; [apply tokrel_refl | (repeat split) |].
          cbn [plain_pc]. exists cur. exact Hpc.
      + injection H as <-. apply framed_plain; [apply tokrel_refl | (repeat split) |].
        cbn [plain_pc]. exists cur. exact Hpc.
    - (* PWork *)
      destruct (work (g_core g) taken acc) as [core' outs] eqn:Hw. injection H as <-.
      eexists. eexists. split; [|split; [reflexivity|]].
      2:{ eapply (KWork _ _ _ _ _ idx taken acc); try reflexivity; try assumption;
          cbn [set_thread with_threads g_links g_seen g_batches g_core set_pc t_pc t_done];
          rewrite ?Hw; reflexivity. }
      cbn [set_thread with_threads g_threads]. apply tokrel_refl.
    - (* PDist *)
      destruct rem as [|rem'].
      + injection H as <-. apply framed_plain; [apply tokrel_refl | (repeat split) | exact I].
      + destruct (wl_iter_next (g_wl g) cur) as [j|].
        * destruct outs as [|o outs'].
          -- injection H as <-. apply framed_plain; [apply tokrel_refl | (repeat split) | exact I].
          -- injection H as <-. apply framed_plain; [| repeat split | exact I].
             eapply tokrel_trans; [|apply tokrel_notify_cond].
             eapply tokrel_trans; [|apply tokrel_notify_cond].
             cbn [with_wl g_threads]. apply tokrel_refl.
        * injection H as <-. apply framed_plain; [apply tokrel_refl | (repeat split) | exact I].
    - (* PLeaderLoad *)
      destruct (wl_load (g_wl g) idx) as [[i | | o] | | |]; try discriminate; injection H as <-.
      apply framed_plain; [apply tokrel_refl | (repeat split) | exact I].
    - (* PLeaderUnlink *)
      destruct (wl_unlink (g_wl g) idx) as [[w [|]] | | |]; try discriminate; injection H as <-;
        (apply framed_plain; [apply tokrel_refl | (repeat split) | exact I]).
    - (* PLeaderWA *)
      injection H as <-. apply framed_plain; [apply tokrel_notify_wa | (repeat split) | exact I].
    - (* PLeaderClear *)
      destruct (free (g_S g)); [|discriminate]. injection H as <-.
      apply framed_plain; [apply tokrel_refl | (repeat split) | exact I].
    - (* PLeaderNotify *)
      injection H as <-. destruct (wl_notify_head (g_wl g)) as [h|].
      + apply framed_finish; [apply tokrel_notify_cond | (repeat split)].
      + apply framed_finish; [apply tokrel_refl | (repeat split)].
  Qed.
End Frame.
