(* Log/ProofsWire.v — lemmas about the byte-level codecs of Log/ModelWire.v:
   N-indexed list helpers, varint, le32, tags, header and entry round trips. *)
From Coq Require Import NArith ZArith List Bool Lia Arith PeanoNat.
From Blue Require Import Gen.Const_Log Log.ModelWire.
Import ListNotations.
Open Scope N_scope.

(* let lia see through `/` and `mod` by constants *)
Ltac Zify.zify_post_hook ::= Z.to_euclidean_division_equations.

Arguments N.add : simpl never.
Arguments N.sub : simpl never.
Arguments N.mul : simpl never.
Arguments N.div : simpl never.
Arguments N.modulo : simpl never.
Arguments N.leb : simpl never.
Arguments N.ltb : simpl never.
Arguments N.eqb : simpl never.
Arguments N.pred : simpl never.
Arguments N.of_nat : simpl never.

(* ---------------------------------------------------------------- len *)
Lemma len_nil : len (@nil N) = 0.
Proof. reflexivity. Qed.

Lemma len_cons : forall x (l : list N), len (x :: l) = 1 + len l.
Proof. intros. unfold len. cbn [length]. lia. Qed.

Lemma len_app : forall a b : list N, len (a ++ b) = len a + len b.
Proof. intros. unfold len. rewrite app_length. lia. Qed.

Lemma len_0_nil : forall l : list N, len l = 0 -> l = [].
Proof. intros [|x l] H; [reflexivity|]. rewrite len_cons in H. lia. Qed.

Lemma len_repeat : forall (x : N) n, len (repeat x n) = N.of_nat n.
Proof. intros. unfold len. now rewrite repeat_length. Qed.

Lemma len_length : forall l : list N, N.to_nat (len l) = length l.
Proof. intros. unfold len. lia. Qed.

(* ---------------------------------------------------------------- take_exact / drop / take *)
Lemma take_exact_0 : forall l, take_exact l 0 = Some ([], l).
Proof. intros [|x l]; reflexivity. Qed.

Lemma take_exact_app : forall a r, take_exact (a ++ r) (len a) = Some (a, r).
Proof.
  induction a as [|x a IH]; intros r.
  - cbn [app]. rewrite len_nil. apply take_exact_0.
  - cbn [app take_exact]. rewrite len_cons.
    destruct (N.eqb_spec (1 + len a) 0) as [E|E]; [lia|].
    replace (N.pred (1 + len a)) with (len a) by lia.
    now rewrite IH.
Qed.

Lemma take_exact_some : forall l n a r, take_exact l n = Some (a, r) -> l = a ++ r /\ len a = n.
Proof.
  induction l as [|x l IH]; intros n a r H; cbn [take_exact] in H.
  - destruct (N.eqb_spec n 0) as [E|E]; [|discriminate]. inversion H; subst. now rewrite len_nil.
  - destruct (N.eqb_spec n 0) as [E|E].
    + inversion H; subst. now rewrite len_nil.
    + destruct (take_exact l (N.pred n)) as [[a' r']|] eqn:T; [|discriminate].
      inversion H; subst. apply IH in T. destruct T as [-> L].
      split; [reflexivity|]. rewrite len_cons. lia.
Qed.

Lemma take_exact_none : forall l n, take_exact l n = None -> len l < n.
Proof.
  induction l as [|x l IH]; intros n H; cbn [take_exact] in H.
  - destruct (N.eqb_spec n 0) as [E|E]; [discriminate|]. rewrite len_nil. lia.
  - destruct (N.eqb_spec n 0) as [E|E]; [discriminate|].
    destruct (take_exact l (N.pred n)) as [[a' r']|] eqn:T; [discriminate|].
    apply IH in T. rewrite len_cons. lia.
Qed.

Lemma take_exact_short : forall l n, len l < n -> take_exact l n = None.
Proof.
  intros l n H. destruct (take_exact l n) as [[a r]|] eqn:T; [|reflexivity].
  apply take_exact_some in T. destruct T as [-> L]. rewrite len_app in H. lia.
Qed.

Lemma drop_0 : forall l, drop l 0 = l.
Proof. intros [|x l]; reflexivity. Qed.

Lemma drop_nil : forall n, drop [] n = [].
Proof. intros n. cbn [drop]. now destruct (n =? 0). Qed.

Lemma drop_app : forall a r, drop (a ++ r) (len a) = r.
Proof.
  induction a as [|x a IH]; intros r.
  - cbn [app]. rewrite len_nil. apply drop_0.
  - cbn [app drop]. rewrite len_cons.
    destruct (N.eqb_spec (1 + len a) 0) as [E|E]; [lia|].
    replace (N.pred (1 + len a)) with (len a) by lia. apply IH.
Qed.

Lemma drop_all : forall l n, len l <= n -> drop l n = [].
Proof.
  induction l as [|x l IH]; intros n H.
  - apply drop_nil.
  - cbn [drop]. rewrite len_cons in H.
    destruct (N.eqb_spec n 0) as [E|E]; [lia|]. apply IH. lia.
Qed.

Lemma drop_length : forall l n, (length (drop l n) <= length l)%nat.
Proof.
  induction l as [|x l IH]; intros n; cbn [drop].
  - destruct (n =? 0); apply le_n.
  - destruct (n =? 0); [apply le_n|]. cbn [length]. specialize (IH (N.pred n)). apply le_S. exact IH.
Qed.

Lemma take_0 : forall l, take l 0 = [].
Proof. intros [|x l]; reflexivity. Qed.

Lemma take_app : forall a r, take (a ++ r) (len a) = a.
Proof.
  induction a as [|x a IH]; intros r.
  - cbn [app]. rewrite len_nil. apply take_0.
  - cbn [app take]. rewrite len_cons.
    destruct (N.eqb_spec (1 + len a) 0) as [E|E]; [lia|].
    replace (N.pred (1 + len a)) with (len a) by lia. now rewrite IH.
Qed.

(* ---------------------------------------------------------------- varint *)
Lemma varint_sz_go_len : forall fuel x, len (varint_go fuel x) = varint_sz_go fuel x.
Proof.
  induction fuel as [|f IH]; intros x; cbn [varint_go varint_sz_go].
  - reflexivity.
  - destruct (x <? 128); [reflexivity|]. rewrite len_cons. now rewrite IH.
Qed.

Lemma varint_len : forall x, len (varint x) = varint_sz x.
Proof. intros. apply varint_sz_go_len. Qed.

Lemma varint_sz_go_bounds : forall fuel x, (0 < fuel)%nat -> 1 <= varint_sz_go fuel x <= N.of_nat fuel.
Proof.
  induction fuel as [|f IH]; intros x Hf; [inversion Hf|].
  cbn [varint_sz_go]. destruct (x <? 128); [lia|].
  destruct f as [|f'].
  - cbn [varint_sz_go]. lia.
  - specialize (IH (x / 128) ltac:(apply Nat.lt_0_succ)). lia.
Qed.

Lemma varint_sz_bounds : forall x, 1 <= varint_sz x <= 10.
Proof. intros x. unfold varint_sz. pose proof (varint_sz_go_bounds 10 x ltac:(repeat constructor)). lia. Qed.

Lemma varint_sz_small : forall x, x < 128 -> varint_sz x = 1.
Proof. intros x H. unfold varint_sz. cbn [varint_sz_go]. destruct (N.ltb_spec x 128); [reflexivity|lia]. Qed.

Lemma varint_small : forall x, x < 128 -> varint x = [x].
Proof. intros x H. unfold varint. cbn [varint_go]. destruct (N.ltb_spec x 128); [reflexivity|lia]. Qed.

Lemma varint_nonempty : forall x, varint x <> [].
Proof. intros x. unfold varint. cbn [varint_go]. destruct (x <? 128); discriminate. Qed.

(* decoding what was encoded, with any continuation *)
Lemma unvarint_go_varint_go : forall fuel x r m acc,
  x < 128 ^ N.of_nat fuel -> fuel <> O ->
  unvarint_go fuel (varint_go fuel x ++ r) m acc = Some ((acc + x * m) mod W64, r).
Proof.
  induction fuel as [|f IH]; intros x r m acc Hx Hf; [contradiction|].
  cbn [varint_go]. destruct (N.ltb_spec x 128) as [Hs|Hs].
  - cbn [app unvarint_go]. destruct (N.ltb_spec x 128); [reflexivity|lia].
  - cbn [app unvarint_go].
    assert (Hd : x / 128 < 128 ^ N.of_nat f).
    { replace (N.of_nat (S f)) with (N.succ (N.of_nat f)) in Hx by (clear; lia).
      rewrite N.pow_succ_r' in Hx. apply N.div_lt_upper_bound; [clear; lia | exact Hx]. }
    clear Hx.
    assert (Hd1 : 1 <= x / 128) by (apply N.div_le_lower_bound; clear - Hs; lia).
    assert (Hf' : f <> O).
    { intros ->. change (128 ^ N.of_nat 0) with 1 in Hd. clear - Hd Hd1. lia. }
    assert (Hm : x mod 128 < 128) by (apply N.mod_lt; clear; lia).
    destruct (N.ltb_spec (x mod 128 + 128) 128) as [Hc|Hc]; [clear - Hc; lia|].
    rewrite (IH _ _ _ _ Hd Hf').
    f_equal. f_equal.
    replace (x mod 128 + 128 - 128) with (x mod 128) by (clear; lia).
    pose proof (N.div_mod x 128 ltac:(clear; lia)) as D.
    assert (E : forall q r0, acc + r0 * m + q * (m * 128) = acc + (128 * q + r0) * m) by (intros; ring).
    rewrite E, <- D. reflexivity.
Qed.

Lemma unvarint_varint : forall x r, x < W64 -> unvarint (varint x ++ r) = Some (x, r).
Proof.
  intros x r H. unfold unvarint, varint. rewrite unvarint_go_varint_go.
  - f_equal. f_equal. rewrite N.add_0_l, N.mul_1_r. apply N.mod_small. exact H.
  - unfold W64 in H. change (128 ^ N.of_nat 10) with 1180591620717411303424. lia.
  - discriminate.
Qed.

Lemma unvarint_varint_nil : forall x, x < W64 -> unvarint (varint x) = Some (x, []).
Proof. intros x H. rewrite <- (app_nil_r (varint x)). now apply unvarint_varint. Qed.

(* the decoder always consumes at least one byte *)
Lemma unvarint_go_shorter : forall fuel l m acc x r,
  unvarint_go fuel l m acc = Some (x, r) -> (length r < length l)%nat.
Proof.
  induction fuel as [|f IH]; intros l m acc x r H; cbn [unvarint_go] in H; [discriminate|].
  destruct l as [|b l']; [discriminate|].
  destruct (b <? 128).
  - inversion H; subst. cbn [length]. apply Nat.lt_succ_diag_r.
  - apply IH in H. cbn [length]. apply Nat.lt_lt_succ_r. exact H.
Qed.

Lemma unvarint_shorter : forall l x r, unvarint l = Some (x, r) -> (length r < length l)%nat.
Proof. intros l x r H. eapply unvarint_go_shorter. exact H. Qed.

(* ---------------------------------------------------------------- le32 *)
Lemma unle32_le32 : forall c r, c < W32 -> unle32 (le32 c ++ r) = Some (c, r).
Proof.
  intros c r H. unfold le32, unle32. cbn [app]. f_equal. f_equal.
  unfold W32 in H.
  pose proof (N.div_mod c 256 ltac:(lia)).
  pose proof (N.div_mod (c / 256) 256 ltac:(lia)).
  pose proof (N.div_mod (c / 256 / 256) 256 ltac:(lia)).
  assert (c / 65536 = c / 256 / 256) by (rewrite N.div_div by lia; reflexivity).
  assert (c / 16777216 = c / 256 / 256 / 256) by (rewrite !N.div_div by lia; reflexivity).
  assert (c / 256 / 256 / 256 < 256).
  { apply N.div_lt_upper_bound; [lia|]. apply N.div_lt_upper_bound; [lia|]. apply N.div_lt_upper_bound; lia. }
  rewrite (N.mod_small (c / 16777216) 256) by lia.
  lia.
Qed.

Lemma len_le32 : forall c, len (le32 c) = 4.
Proof. reflexivity. Qed.

(* ---------------------------------------------------------------- tags of the messages the log uses *)
Lemma parse_tag_small : forall f w r,
  f * 8 + wire_bits w < 128 -> field_number_ok f = true ->
  parse_tag (tag_bytes f w ++ r) = Some (f, w, r).
Proof.
  intros f w r Hs Hok. unfold parse_tag, tag_bytes.
  rewrite unvarint_varint by (unfold W64; lia).
  destruct (N.leb_spec W32 (f * 8 + wire_bits w)) as [H|H]; [unfold W32 in H; lia|].
  assert (Hw : wire_bits w < 8) by (destruct w; cbn; lia).
  assert (Hd : (f * 8 + wire_bits w) / 8 = f) by lia.
  assert (Hmod : (f * 8 + wire_bits w) mod 8 = wire_bits w) by lia.
  rewrite Hd, Hmod, Hok. destruct w; reflexivity.
Qed.

(* ---------------------------------------------------------------- Header *)
Definition header_ok (h : header) : Prop := h_size h < W64 /\ h_disc h < 128 /\ h_crc h < W32.

Lemma header_bytes_len : forall h, header_ok h -> len (header_bytes h) = 8 + varint_sz (h_size h).
Proof.
  intros h (Hs & Hd & Hc). unfold header_bytes.
  rewrite !len_app, !varint_len, len_le32.
  change (len (tag_bytes 10 WVarint)) with 1. change (len (tag_bytes 11 WVarint)) with 1.
  change (len (tag_bytes 12 WThirtyTwo)) with 1.
  rewrite (varint_sz_small (h_disc h)) by lia. lia.
Qed.

Lemma header_bytes_len_bound : forall h, header_ok h -> 9 <= len (header_bytes h) <= 18.
Proof. intros h H. rewrite header_bytes_len by exact H. pose proof (varint_sz_bounds (h_size h)). lia. Qed.

Lemma header_frame_eq : forall h, header_ok h ->
  header_frame h = len (header_bytes h) :: header_bytes h.
Proof.
  intros h H. unfold header_frame. pose proof (header_bytes_len_bound h H).
  rewrite varint_small by lia. reflexivity.
Qed.

Lemma header_frame_len : forall h, header_ok h -> len (header_frame h) = 9 + varint_sz (h_size h).
Proof. intros h H. rewrite header_frame_eq by exact H. rewrite len_cons, header_bytes_len by exact H. lia. Qed.

(* the header is never longer than HEADER_MAX_SIZE (this is where the constant of the source is
   checked against the encoding: 1 + (1+10) + (1+1) + (1+4)) *)
Lemma header_frame_len_bound : forall h, header_ok h -> 10 <= len (header_frame h) <= HEADER_MAX_SIZE.
Proof.
  intros h H. rewrite header_frame_len by exact H. pose proof (varint_sz_bounds (h_size h)).
  unfold HEADER_MAX_SIZE. lia.
Qed.

Lemma field_next_varint : forall f x r,
  f * 8 < 128 -> field_number_ok f = true -> x < W64 ->
  field_next (tag_bytes f WVarint ++ varint x ++ r) = FItem f WVarint (varint x) r.
Proof.
  intros f x r Hf Hok Hx. unfold field_next.
  destruct (tag_bytes f WVarint ++ varint x ++ r) eqn:E.
  { exfalso. unfold tag_bytes in E. apply app_eq_nil in E. destruct E as [E _]. now apply varint_nonempty in E. }
  rewrite <- E. rewrite parse_tag_small by (cbn [wire_bits]; lia || exact Hok).
  rewrite unvarint_varint by exact Hx. rewrite <- varint_len. now rewrite take_app.
Qed.

Lemma field_next_fixed32 : forall f c r,
  f * 8 + 5 < 128 -> field_number_ok f = true ->
  field_next (tag_bytes f WThirtyTwo ++ le32 c ++ r) = FItem f WThirtyTwo (le32 c) r.
Proof.
  intros f c r Hf Hok. unfold field_next.
  destruct (tag_bytes f WThirtyTwo ++ le32 c ++ r) eqn:E.
  { exfalso. unfold tag_bytes in E. apply app_eq_nil in E. destruct E as [E _]. now apply varint_nonempty in E. }
  rewrite <- E. rewrite parse_tag_small by (cbn [wire_bits]; lia || exact Hok).
  change 4 with (len (le32 c)). now rewrite take_exact_app.
Qed.

Lemma field_next_bytes : forall f b r,
  f * 8 + 2 < 128 -> field_number_ok f = true -> len b < W64 ->
  field_next (tag_bytes f WLenDelim ++ varint (len b) ++ b ++ r) = FItem f WLenDelim (varint (len b) ++ b) r.
Proof.
  intros f b r Hf Hok Hb. unfold field_next.
  destruct (tag_bytes f WLenDelim ++ varint (len b) ++ b ++ r) eqn:E.
  { exfalso. unfold tag_bytes in E. apply app_eq_nil in E. destruct E as [E _]. now apply varint_nonempty in E. }
  rewrite <- E. rewrite parse_tag_small by (cbn [wire_bits]; lia || exact Hok).
  rewrite unvarint_varint by exact Hb. rewrite take_exact_app.
  f_equal. rewrite <- varint_len, <- len_app. rewrite app_assoc. apply take_app.
Qed.

Lemma field_next_bytes_end : forall f b,
  f * 8 + 2 < 128 -> field_number_ok f = true -> len b < W64 ->
  field_next (tag_bytes f WLenDelim ++ varint (len b) ++ b) = FItem f WLenDelim (varint (len b) ++ b) [].
Proof. intros f b H1 H2 H3. pose proof (field_next_bytes f b [] H1 H2 H3) as H. now rewrite app_nil_r in H. Qed.

Lemma field_next_varint_end : forall f x,
  f * 8 < 128 -> field_number_ok f = true -> x < W64 ->
  field_next (tag_bytes f WVarint ++ varint x) = FItem f WVarint (varint x) [].
Proof. intros f x H1 H2 H3. pose proof (field_next_varint f x [] H1 H2 H3) as H. now rewrite app_nil_r in H. Qed.

Lemma dec_bytes_ok : forall b, len b < W64 -> dec_bytes (varint (len b) ++ b) = Some b.
Proof.
  intros b H. unfold dec_bytes. rewrite unvarint_varint by exact H.
  rewrite <- (app_nil_r b) at 1. now rewrite take_exact_app.
Qed.

Lemma dec_uint64_ok : forall x, x < W64 -> dec_uint64 (varint x) = Some x.
Proof. intros x H. unfold dec_uint64. now rewrite unvarint_varint_nil. Qed.

Lemma fno_10 : field_number_ok 10 = true. Proof. reflexivity. Qed.
Lemma fno_11 : field_number_ok 11 = true. Proof. reflexivity. Qed.
Lemma fno_12 : field_number_ok 12 = true. Proof. reflexivity. Qed.

Lemma parse_header_go_S : forall f l h,
  parse_header_go (S f) l h =
  match field_next l with
  | FEnd => Some h
  | FErr => None
  | FItem num w val rest =>
      match num, w with
      | 10, WVarint =>
          match dec_uint64 val with
          | Some x => parse_header_go f rest {| h_size := x; h_disc := h_disc h; h_crc := h_crc h |}
          | None => None
          end
      | 11, WVarint =>
          match dec_uint32 val with
          | Some x => parse_header_go f rest {| h_size := h_size h; h_disc := x; h_crc := h_crc h |}
          | None => None
          end
      | 12, WThirtyTwo =>
          match dec_fixed32 val with
          | Some x => parse_header_go f rest {| h_size := h_size h; h_disc := h_disc h; h_crc := x |}
          | None => None
          end
      | _, _ => parse_header_go f rest h
      end
  end.
Proof. reflexivity. Qed.

Theorem parse_header_roundtrip : forall h, header_ok h -> parse_header (header_bytes h) = Some h.
Proof.
  intros h Hok. pose proof Hok as (Hs & Hd & Hc).
  unfold parse_header.
  pose proof (header_bytes_len_bound h Hok) as HL.
  assert (HLn : (9 <= length (header_bytes h))%nat) by (unfold len in HL; lia).
  destruct (length (header_bytes h)) as [|[|[|[|n]]]] eqn:EL; try lia. clear HLn EL HL.
  unfold header_bytes.
  rewrite parse_header_go_S.
  rewrite field_next_varint by (try reflexivity; lia).
  rewrite dec_uint64_ok by exact Hs.
  cbv beta iota.
  rewrite parse_header_go_S.
  rewrite field_next_varint by (try reflexivity; unfold W64; lia).
  unfold dec_uint32. rewrite unvarint_varint_nil by (unfold W64; lia).
  destruct (N.leb_spec W32 (h_disc h)) as [E|E]; [unfold W32 in E; lia|].
  cbv beta iota. cbn [h_size h_disc h_crc].
  rewrite parse_header_go_S.
  rewrite <- (app_nil_r (le32 (h_crc h))).
  rewrite field_next_fixed32 by (try reflexivity; lia).
  unfold dec_fixed32. rewrite <- (app_nil_r (le32 (h_crc h))). rewrite unle32_le32 by exact Hc.
  cbv beta iota. cbn [h_size h_disc h_crc].
  rewrite parse_header_go_S. cbn [field_next].
  destruct h; reflexivity.
Qed.

(* ---------------------------------------------------------------- entries *)
Definition wf_entry (e : entry) : Prop :=
  len (e_key e) <= MAX_KEY_LEN /\ e_ts e < W64 /\
  match e_val e with Some v => len v <= MAX_VALUE_LEN | None => True end.

Definition ebytes (es : list entry) : list N := concat (map entry_bytes es).

Lemma entry_bytes_nonempty : forall e, entry_bytes e <> [].
Proof. intros e. unfold entry_bytes. destruct (e_val e); discriminate. Qed.

Lemma ebytes_cons : forall e es, ebytes (e :: es) = entry_bytes e ++ ebytes es.
Proof. reflexivity. Qed.

Lemma ebytes_app : forall a b, ebytes (a ++ b) = ebytes a ++ ebytes b.
Proof. intros. unfold ebytes. now rewrite map_app, concat_app. Qed.

Lemma ebytes_nonempty : forall es, es <> [] -> ebytes es <> [].
Proof.
  intros [|e es] H; [contradiction|]. rewrite ebytes_cons. intro E.
  apply app_eq_nil in E. destruct E as [E _]. now apply entry_bytes_nonempty in E.
Qed.

Lemma length_ebytes : forall es, (length es <= length (ebytes es))%nat.
Proof.
  induction es as [|e es IH]; [apply le_n|].
  rewrite ebytes_cons, app_length. cbn [length].
  pose proof (entry_bytes_nonempty e). destruct (entry_bytes e); [contradiction|]. cbn [length]. lia.
Qed.

Lemma put_body_len_bound : forall k ts v,
  len k <= MAX_KEY_LEN -> ts < W64 -> len v <= MAX_VALUE_LEN -> len (put_body k ts v) < 65536.
Proof.
  intros k ts v Hk Ht Hv. unfold put_body. rewrite !len_app, !varint_len.
  change (len (tag_bytes 1 WVarint)) with 1. change (len (tag_bytes 2 WLenDelim)) with 1.
  change (len (tag_bytes 3 WVarint)) with 1. change (len (tag_bytes 4 WLenDelim)) with 1.
  pose proof (varint_sz_bounds 0). pose proof (varint_sz_bounds (len k)).
  pose proof (varint_sz_bounds ts). pose proof (varint_sz_bounds (len v)).
  unfold MAX_KEY_LEN in Hk. unfold MAX_VALUE_LEN in Hv. lia.
Qed.

Lemma del_body_len_bound : forall k ts,
  len k <= MAX_KEY_LEN -> ts < W64 -> len (del_body k ts) < 65536.
Proof.
  intros k ts Hk Ht. unfold del_body. rewrite !len_app, !varint_len.
  change (len (tag_bytes 5 WVarint)) with 1. change (len (tag_bytes 6 WLenDelim)) with 1.
  change (len (tag_bytes 7 WVarint)) with 1.
  pose proof (varint_sz_bounds 0). pose proof (varint_sz_bounds (len k)). pose proof (varint_sz_bounds ts).
  unfold MAX_KEY_LEN in Hk. lia.
Qed.

Lemma fuel4 : forall l : list N, (4 <= length l)%nat -> exists n, S (length l) = S (S (S (S (S n)))).
Proof. intros l H. exists (length l - 4)%nat. lia. Qed.

Lemma parse_put_body : forall k ts v,
  len k <= MAX_KEY_LEN -> ts < W64 -> len v <= MAX_VALUE_LEN ->
  parse_kv_go (S (length (put_body k ts v))) 0 true (put_body k ts v) kv0
  = Some {| kv_shared := 0; kv_key := k; kv_ts := ts; kv_val := v |}.
Proof.
  intros k ts v Hk Ht Hv.
  assert (Hk64 : len k < W64) by (unfold MAX_KEY_LEN in Hk; unfold W64; lia).
  assert (Hv64 : len v < W64) by (unfold MAX_VALUE_LEN in Hv; unfold W64; lia).
  destruct (fuel4 (put_body k ts v)) as [n ->].
  { unfold put_body. rewrite !app_length. change (length (tag_bytes 1 WVarint)) with 1%nat.
    change (length (varint 0)) with 1%nat. change (length (tag_bytes 2 WLenDelim)) with 1%nat.
    change (length (tag_bytes 3 WVarint)) with 1%nat. lia. }
  unfold put_body.
  cbn [parse_kv_go].
  rewrite field_next_varint by (try reflexivity; unfold W64; lia).
  change (1 =? 0 + 1) with true. cbn [andb].
  rewrite dec_uint64_ok by (unfold W64; lia).
  cbn [parse_kv_go kv_key kv_ts kv_val kv0 kv_shared].
  rewrite field_next_bytes by (try reflexivity; lia || exact Hk64).
  change (2 =? 0 + 1) with false. change (2 =? 0 + 2) with true. cbn [andb].
  rewrite dec_bytes_ok by exact Hk64.
  cbn [parse_kv_go kv_key kv_ts kv_val kv_shared].
  rewrite field_next_varint by (try reflexivity; lia).
  change (3 =? 0 + 1) with false. change (3 =? 0 + 2) with false. change (3 =? 0 + 3) with true. cbn [andb].
  rewrite dec_uint64_ok by exact Ht.
  cbn [parse_kv_go kv_key kv_ts kv_val kv_shared].
  rewrite field_next_bytes_end by (try reflexivity; lia || exact Hv64).
  change (4 =? 0 + 1) with false. change (4 =? 0 + 2) with false. change (4 =? 0 + 3) with false.
  change (4 =? 0 + 4) with true. cbn [andb].
  rewrite dec_bytes_ok by exact Hv64.
  cbn [parse_kv_go kv_key kv_ts kv_val kv_shared field_next]. reflexivity.
Qed.

Lemma parse_del_body : forall k ts,
  len k <= MAX_KEY_LEN -> ts < W64 ->
  parse_kv_go (S (length (del_body k ts))) 4 false (del_body k ts) kv0
  = Some {| kv_shared := 0; kv_key := k; kv_ts := ts; kv_val := [] |}.
Proof.
  intros k ts Hk Ht.
  assert (Hk64 : len k < W64) by (unfold MAX_KEY_LEN in Hk; unfold W64; lia).
  destruct (fuel4 (del_body k ts)) as [n ->].
  { unfold del_body. rewrite !app_length. change (length (tag_bytes 5 WVarint)) with 1%nat.
    change (length (varint 0)) with 1%nat. change (length (tag_bytes 6 WLenDelim)) with 1%nat.
    change (length (tag_bytes 7 WVarint)) with 1%nat.
    pose proof (varint_nonempty (len k)). destruct (varint (len k)); [contradiction|]. cbn [length]. lia. }
  unfold del_body.
  cbn [parse_kv_go].
  rewrite field_next_varint by (try reflexivity; unfold W64; lia).
  change (5 =? 4 + 1) with true. cbn [andb].
  rewrite dec_uint64_ok by (unfold W64; lia).
  cbn [parse_kv_go kv_key kv_ts kv_val kv0 kv_shared].
  rewrite field_next_bytes by (try reflexivity; lia || exact Hk64).
  change (6 =? 4 + 1) with false. change (6 =? 4 + 2) with true. cbn [andb].
  rewrite dec_bytes_ok by exact Hk64.
  cbn [parse_kv_go kv_key kv_ts kv_val kv_shared].
  rewrite field_next_varint_end by (try reflexivity; lia).
  change (7 =? 4 + 1) with false. change (7 =? 4 + 2) with false. change (7 =? 4 + 3) with true. cbn [andb].
  rewrite dec_uint64_ok by exact Ht.
  cbn [parse_kv_go kv_key kv_ts kv_val kv_shared field_next]. reflexivity.
Qed.

(* decoding an encoded entry, whatever follows it in the buffer *)
Theorem parse_kve_roundtrip : forall e r, wf_entry e ->
  parse_kve (entry_bytes e ++ r) =
  Some (match e_val e with Some _ => true | None => false end,
        {| kv_shared := 0; kv_key := e_key e; kv_ts := e_ts e;
           kv_val := match e_val e with Some v => v | None => [] end |}, r).
Proof.
  intros e r (Hk & Ht & Hv). unfold parse_kve, entry_bytes.
  destruct (e_val e) as [v|].
  - pose proof (put_body_len_bound (e_key e) (e_ts e) v Hk Ht Hv) as HB.
    rewrite <- !app_assoc.
    rewrite parse_tag_small by reflexivity.
    change (8 =? 8) with true. cbn [orb].
    rewrite unvarint_varint by (unfold W64; lia).
    rewrite take_exact_app. rewrite parse_put_body by assumption. reflexivity.
  - pose proof (del_body_len_bound (e_key e) (e_ts e) Hk Ht) as HB.
    rewrite <- !app_assoc.
    rewrite parse_tag_small by reflexivity.
    change (9 =? 8) with false. change (9 =? 9) with true. cbn [orb].
    rewrite unvarint_varint by (unfold W64; lia).
    rewrite take_exact_app. rewrite parse_del_body by assumption. reflexivity.
Qed.
