(* Cursor/Proofs_ConcatRec.v — Proofs_Concat.v's simulation again, with a weaker invariant on the
   children: a child need not BE a reference cursor, it only has to recover (`krec`: its own
   seek / seek_to_first / seek_to_last make it one).  ConcatenatingCursor re-positions a child
   absolutely whenever it moves onto it (`reposition`, then seek_to_first / seek_to_last / seek),
   so children left anywhere by an earlier Err are harmless once an absolute call has
   succeeded.  Gives both the refinement theorem again and recovery after an Err. *)
From Coq Require Import NArith ZArith Arith List Bool Lia.
From Blue Require Import Cursor.Iface Cursor.Ref Cursor.Concat Cursor.Spec Cursor.Fallible
  Cursor.Proofs_Order Cursor.Proofs_Ref Cursor.Proofs_Concat Cursor.Proofs_Fallible.
Import ListNotations.
Local Open Scope Z_scope.

Section ConcatRecProof.
Context {S : Type} (c : cursor S) (ls : list (list entry)).
Hypothesis Hsorted : sorted (concat ls).

Definition kids_ok (kids : list S) : Prop :=
  length kids = length ls /\
  forall i s li, nth_error kids i = Some s -> nth_error ls i = Some li -> krec c s li.

Definition ok (st : kstate S) : Prop :=
  k_fail st = None /\ kids_ok (k_kids st) /\ (k_pos st < length ls)%nat.

(* the state is at child j, whose cursor is at index p of its table li *)
Definition at_child (st : kstate S) (j : nat) (li : list entry) (p : Z) : Prop :=
  ok st /\ k_pos st = j /\ nth_error ls j = Some li /\
  exists s, nth_error (k_kids st) j = Some s /\ refines c s li p.

Lemma kguard_ok f (st : kstate S) : k_fail st = None -> k_guard f st = f st.
Proof. intros H. unfold k_guard. now rewrite H. Qed.

Lemma at_child_ok st j li p : at_child st j li p -> ok st.
Proof. intros [H _]. exact H. Qed.

(* the state is at child j (which need only recover) *)
Definition at_child' (st : kstate S) (j : nat) (li : list entry) : Prop :=
  ok st /\ k_pos st = j /\ nth_error ls j = Some li.

Lemma ok_at_child' st : ok st -> exists li, at_child' st (k_pos st) li.
Proof.
  intros [Hf [[Hlen Hk] Hp]].
  destruct (nth_error ls (k_pos st)) as [li|] eqn:E1; [|apply nth_error_None in E1; lia].
  exists li. split; [split; [exact Hf|split; [split; assumption|exact Hp]]|split; [reflexivity|exact E1]].
Qed.
Lemma at_child'_fail st j li : at_child' st j li -> k_fail st = None.
Proof. intros [[H _] _]. exact H. Qed.
Lemma at_child_weaken st j li p : at_child st j li p -> at_child' st j li.
Proof. intros [H1 [H2 [H3 _]]]. split; [exact H1|split; assumption]. Qed.

Lemma on_cur_step o st j li p : at_child st j li p ->
  at_child (on_cur (step c o) st) j li (step (ref li) o p).
Proof.
  intros [[Hf [[Hlen Hk] Hp]] [Hj [Hl [s [Hs Hr]]]]]. unfold on_cur.
  replace (k_pos st <? length (k_kids st))%nat with true by (symmetry; apply Nat.ltb_lt; lia).
  unfold at_child, ok, kids_ok. cbn [k_fail k_kids k_pos]. rewrite upd_length. subst j.
  split; [split; [exact Hf|split; [split; [exact Hlen|]|exact Hp]]|split; [reflexivity|split; [exact Hl|]]].
  - intros i s' li' H1 H2. destruct (Nat.eq_dec (k_pos st) i) as [<-|Hne].
    + rewrite (upd_nth_same _ _ _ _ Hs) in H1. injection H1 as <-.
      assert (li' = li) by congruence. subst li'. eapply refines_krec. apply refines_step. exact Hr.
    + rewrite upd_nth_other in H1 by assumption. eauto.
  - exists (step c o s). split; [now apply upd_nth_same|]. now apply refines_step.
Qed.

(* an absolute call on the current child makes it a reference cursor, wherever it was *)
Lemma on_cur_abs o st j li : at_child' st j li -> is_abs o = true ->
  at_child (on_cur (step c o) st) j li (step (ref li) o 0).
Proof.
  intros [[Hf [[Hlen Hk] Hp]] [Hj Hl]] Ho. unfold on_cur.
  replace (k_pos st <? length (k_kids st))%nat with true by (symmetry; apply Nat.ltb_lt; lia).
  destruct (nth_error (k_kids st) (k_pos st)) as [s|] eqn:Hs; [|apply nth_error_None in Hs; lia].
  subst j. pose proof (Hk _ _ _ Hs Hl o Ho) as Hr.
  unfold at_child, ok, kids_ok. cbn [k_fail k_kids k_pos]. rewrite upd_length.
  split; [split; [exact Hf|split; [split; [exact Hlen|]|exact Hp]]|split; [reflexivity|split; [exact Hl|]]].
  - intros i s' li' H1 H2. destruct (Nat.eq_dec (k_pos st) i) as [<-|Hne].
    + rewrite (upd_nth_same _ _ _ _ Hs) in H1. injection H1 as <-.
      assert (li' = li) by congruence. subst li'. eapply refines_krec. exact Hr.
    + rewrite upd_nth_other in H1 by assumption. eauto.
  - exists (step c o s). split; [now apply upd_nth_same|exact Hr].
Qed.

Lemma reposition_at st j lj : ok st -> nth_error ls j = Some lj -> at_child' (reposition c j st) j lj.
Proof.
  intros Hok Hj. pose proof Hok as [Hf [[Hlen Hk] Hp]].
  assert (j < length ls)%nat as Hjl by (apply nth_error_Some; congruence).
  unfold reposition. destruct (k_kids st) as [|s0 kids'] eqn:Ekids; [cbn in Hlen; lia|].
  rewrite <- Ekids in *. destruct (Nat.eqb_spec (k_pos st) j) as [Heq|Hne]; cbn [negb].
  - split; [exact Hok|split; [exact Heq|exact Hj]].
  - replace (k_pos st <? length (k_kids st))%nat with true by (symmetry; apply Nat.ltb_lt; lia).
    destruct (ok_at_child' st Hok) as [li H].
    pose proof (on_cur_abs OFirst _ _ _ H eq_refl) as H'. change (step c OFirst) with (c_first c) in H'.
    destruct H' as [[Hf' [[Hlen' Hk'] Hp']] _].
    unfold at_child', ok, kids_ok. cbn [k_fail k_kids k_pos].
    split; [split; [exact Hf'|split; [split; [exact Hlen'|exact Hk']|exact Hjl]]|split; [reflexivity|exact Hj]].
Qed.

Definition concat_R (st : kstate S) (P : Z) : Prop :=
  exists j li p, at_child st j li p /\
    ((0 <= p < len li /\ P = off ls j + p) \/
     (p = -1 /\ j = O /\ P = -1) \/
     (p = len li /\ j = (length ls - 1)%nat /\ P = len (concat ls))).

Lemma cur_kv_at st j li p : at_child st j li p -> cur_kv c st = ent li p.
Proof.
  intros [_ [Hj [_ [s [Hs Hr]]]]]. unfold cur_kv. rewrite Hj, Hs. now apply refines_kv.
Qed.
Lemma cur_has_key_at st j li p : at_child st j li p ->
  cur_has_key c st = (0 <=? p) && (p <? len li).
Proof.
  intros H. unfold cur_has_key. rewrite (cur_kv_at _ _ _ _ H).
  destruct (ent li p) eqn:E.
  - apply ent_range in E. symmetry. apply andb_true_intro. split; [apply Z.leb_le|apply Z.ltb_lt]; lia.
  - apply ent_none_inv in E. symmetry. apply andb_false_iff. destruct E; [left; apply Z.leb_gt|right; apply Z.ltb_ge]; lia.
Qed.
Lemma at_child_range st j li p : at_child st j li p -> -1 <= p <= len li.
Proof. intros [_ [_ [_ [s [_ Hr]]]]]. eapply refines_range; eauto. Qed.
Lemma at_child_fail st j li p : at_child st j li p -> k_fail st = None.
Proof. intros [[H _] _]. exact H. Qed.
Lemma at_child_pos st j li p : at_child st j li p -> k_pos st = j.
Proof. intros [_ [H _]]. exact H. Qed.
Lemma at_child_len st j li p : at_child st j li p -> length (k_kids st) = length ls /\ (j < length ls)%nat.
Proof. intros [[_ [[H _] H2]] [H3 _]]. split; [assumption|lia]. Qed.

Lemma next_scan : forall fuel st j li p, at_child st j li p -> (fuel > length ls - j)%nat ->
  concat_R (k_next_loop c fuel st)
           (if ref_next li p <? len li then off ls j + ref_next li p else off ls (Datatypes.S j)).
Proof.
  induction fuel as [|fuel IH]; intros st j li p Hat Hfuel; [lia|].
  cbn [k_next_loop].
  pose proof (on_cur_step ONext _ _ _ _ Hat) as H1. change (step c ONext) with (c_next c) in H1.
  cbn [step ref c_next] in H1. set (st1 := on_cur (c_next c) st) in *. set (p' := ref_next li p) in *.
  rewrite (at_child_fail _ _ _ _ H1), (cur_has_key_at _ _ _ _ H1), (at_child_pos _ _ _ _ H1).
  pose proof (at_child_range _ _ _ _ Hat) as Hr. pose proof (at_child_range _ _ _ _ H1) as Hr'.
  assert (0 <= p') as Hp0 by (pose proof (len_nonneg li); unfold p', ref_next; destruct (Z.leb_spec (len li) (p + 1)); lia).
  destruct (at_child_len _ _ _ _ H1) as [Hlen Hjl]. rewrite Hlen.
  destruct (Z.ltb_spec p' (len li)) as [Hlt|Hge].
  - replace (0 <=? p') with true by (symmetry; apply Z.leb_le; lia). cbn [andb negb].
    exists j, li, p'. split; [assumption|]. left. lia.
  - replace (0 <=? p') with true by (symmetry; apply Z.leb_le; lia). cbn [andb negb].
    destruct (Nat.ltb_spec (j + 1) (length ls)) as [Hj1|Hj1].
    + destruct (nth_error ls (j + 1)) as [l'|] eqn:El'; [|apply nth_error_None in El'; lia].
      pose proof (reposition_at st1 (j + 1) l' (at_child_ok _ _ _ _ H1) El') as Hq.
      rewrite kguard_ok by (first [solve [eapply at_child'_fail; eauto]|solve [eapply at_child_fail; eauto]]).
      pose proof (on_cur_abs OFirst _ _ _ Hq eq_refl) as H2. change (step c OFirst) with (c_first c) in H2.
      cbn [step ref c_first] in H2.
      pose proof (IH _ _ _ _ H2) as H3. replace (j + 1)%nat with (Datatypes.S j) in * by lia.
      specialize (H3 ltac:(lia)).
      assert (nth_error ls j = Some li) as Elj by (destruct Hat as [_ [_ [H _]]]; exact H).
      rewrite (off_S ls (Datatypes.S j) l' El') in H3. rewrite (off_S ls j li Elj) in *.
      unfold ref_next in H3. pose proof (len_nonneg l').
      destruct (Z.leb_spec (len l') (-1 + 1)); destruct (Z.ltb_spec (len l') (len l')); try lia;
        [replace (off ls j + len li) with (off ls j + len li + len l') by lia; exact H3|].
      destruct (Z.ltb_spec (-1 + 1) (len l')); [|lia].
      replace (off ls j + len li) with (off ls j + len li + (-1 + 1)) by lia. exact H3.
    + exists j, li, p'. split; [assumption|]. right. right. repeat split; try lia.
      apply off_all. lia.
Qed.

Lemma prev_scan : forall fuel st j li p, at_child st j li p -> (fuel > j)%nat ->
  concat_R (k_prev_loop c fuel st)
           (if 0 <=? ref_prev p then off ls j + ref_prev p else off ls j - 1).
Proof.
  induction fuel as [|fuel IH]; intros st j li p Hat Hfuel; [lia|].
  cbn [k_prev_loop].
  pose proof (on_cur_step OPrev _ _ _ _ Hat) as H1. change (step c OPrev) with (c_prev c) in H1.
  cbn [step ref c_prev] in H1. set (st1 := on_cur (c_prev c) st) in *. set (p' := ref_prev p) in *.
  rewrite (at_child_fail _ _ _ _ H1), (cur_has_key_at _ _ _ _ H1), (at_child_pos _ _ _ _ H1).
  pose proof (at_child_range _ _ _ _ Hat) as Hr. pose proof (at_child_range _ _ _ _ H1) as Hr'.
  assert (p' < len li) as Hp0 by (pose proof (len_nonneg li); unfold p', ref_prev; destruct (Z.ltb_spec (p - 1) 0); lia).
  destruct (at_child_len _ _ _ _ H1) as [Hlen Hjl].
  assert (nth_error ls j = Some li) as Elj by (destruct Hat as [_ [_ [H _]]]; exact H).
  destruct (Z.leb_spec 0 p') as [Hge|Hlt].
  - replace (p' <? len li) with true by (symmetry; apply Z.ltb_lt; lia). cbn [andb negb].
    exists j, li, p'. split; [assumption|]. left. lia.
  - cbn [andb negb]. destruct (Nat.ltb_spec 0 j) as [Hj1|Hj1].
    + destruct (nth_error ls (j - 1)) as [l'|] eqn:El'; [|apply nth_error_None in El'; lia].
      pose proof (reposition_at st1 (j - 1) l' (at_child_ok _ _ _ _ H1) El') as Hq.
      rewrite kguard_ok by (first [solve [eapply at_child'_fail; eauto]|solve [eapply at_child_fail; eauto]]).
      pose proof (on_cur_abs OLast _ _ _ Hq eq_refl) as H2. change (step c OLast) with (c_last c) in H2.
      cbn [step ref c_last] in H2.
      pose proof (IH _ _ _ _ H2 ltac:(lia)) as H3.
      replace j with (Datatypes.S (j - 1)) at 2 by lia. rewrite (off_S ls (j - 1) l' El').
      unfold ref_prev in H3. pose proof (len_nonneg l').
      destruct (Z.ltb_spec (len l' - 1) 0).
      * replace (0 <=? -1) with false in H3 by reflexivity.
        replace (off ls (j - 1) + len l' - 1) with (off ls (j - 1) - 1) by lia. exact H3.
      * replace (0 <=? len l' - 1) with true in H3 by (symmetry; apply Z.leb_le; lia).
        replace (off ls (j - 1) + len l' - 1) with (off ls (j - 1) + (len l' - 1)) by lia. exact H3.
    + exists j, li, p'. split; [assumption|]. right. left. assert (j = O) by lia. subst j.
      rewrite off_0. repeat split; lia.
Qed.

Lemma concat_R_ok st P : concat_R st P -> ok st.
Proof. intros [j [li [p [H _]]]]. eapply at_child_ok; eauto. Qed.

Lemma ls_nonempty st : ok st -> (0 < length ls)%nat.
Proof. intros [_ [_ H]]. lia. Qed.

Lemma first_R st : ok st -> concat_R (k_first_raw c st) (-1).
Proof.
  intros Hok. pose proof (ls_nonempty _ Hok). unfold k_first_raw.
  destruct (nth_error ls 0) as [l0|] eqn:E0; [|apply nth_error_None in E0; lia].
  pose proof (reposition_at st 0 l0 Hok E0) as Hq.
  rewrite kguard_ok by (first [solve [eapply at_child'_fail; eauto]|solve [eapply at_child_fail; eauto]]).
  pose proof (on_cur_abs OFirst _ _ _ Hq eq_refl) as H2. change (step c OFirst) with (c_first c) in H2.
  exists O, l0, (-1). split; [exact H2|]. right. left. auto.
Qed.

Lemma last_R st : ok st -> concat_R (k_last_raw c st) (len (concat ls)).
Proof.
  intros Hok. pose proof (ls_nonempty _ Hok). pose proof Hok as [_ [[Hlen _] _]]. unfold k_last_raw.
  destruct (k_kids st) as [|s0 kids'] eqn:Ek; [cbn in Hlen; lia|]. rewrite <- Ek in *. rewrite Hlen.
  destruct (nth_error ls (length ls - 1)) as [l0|] eqn:E0; [|apply nth_error_None in E0; lia].
  pose proof (reposition_at st _ l0 Hok E0) as Hq.
  rewrite kguard_ok by (first [solve [eapply at_child'_fail; eauto]|solve [eapply at_child_fail; eauto]]).
  pose proof (on_cur_abs OLast _ _ _ Hq eq_refl) as H2. change (step c OLast) with (c_last c) in H2.
  exists (length ls - 1)%nat, l0, (len l0). split; [exact H2|]. right. right. auto.
Qed.

Lemma off_last li : nth_error ls (length ls - 1) = Some li ->
  off ls (length ls - 1) + len li = len (concat ls).
Proof.
  intros H. assert (0 < length ls)%nat by (destruct ls; [destruct (length (@nil (list entry)) - 1)%nat; discriminate|cbn; lia]).
  rewrite <- (off_S _ _ _ H). apply off_all. lia.
Qed.

Lemma next_R st P : concat_R st P -> concat_R (k_next_raw c st) (ref_next (concat ls) P).
Proof.
  intros [j [li [p [Hat HR]]]]. unfold k_next_raw.
  destruct (at_child_len _ _ _ _ Hat) as [Hlen Hjl]. rewrite Hlen.
  pose proof (next_scan (Datatypes.S (length ls)) _ _ _ _ Hat ltac:(lia)) as H.
  assert (nth_error ls j = Some li) as Elj by (destruct Hat as [_ [_ [H' _]]]; exact H').
  pose proof (off_S _ _ _ Elj) as HS. pose proof (off_le_N ls (Datatypes.S j)) as HN.
  pose proof (off_nonneg ls j) as H0. pose proof (len_nonneg li) as Hl.
  match goal with |- concat_R _ ?x => replace x with
    (if ref_next li p <? len li then off ls j + ref_next li p else off ls (Datatypes.S j)); [exact H|] end.
  unfold ref_next. destruct HR as [[Hp ->]|[[-> [-> ->]]|[-> [-> ->]]]].
  - destruct (Z.leb_spec (len li) (p + 1)); destruct (Z.ltb_spec (len li) (len li));
      destruct (Z.ltb_spec (p + 1) (len li)); destruct (Z.leb_spec (len (concat ls)) (off ls j + p + 1)); lia.
  - rewrite off_0 in *. destruct (Z.leb_spec (len li) (-1 + 1)); destruct (Z.ltb_spec (len li) (len li));
      destruct (Z.ltb_spec (-1 + 1) (len li)); destruct (Z.leb_spec (len (concat ls)) (-1 + 1)); lia.
  - pose proof (off_last _ Elj). destruct (Z.leb_spec (len li) (len li + 1)); destruct (Z.ltb_spec (len li) (len li));
      destruct (Z.leb_spec (len (concat ls)) (len (concat ls) + 1)); try lia.
Qed.

Lemma prev_R st P : concat_R st P -> concat_R (k_prev_raw c st) (ref_prev P).
Proof.
  intros [j [li [p [Hat HR]]]]. unfold k_prev_raw.
  destruct (at_child_len _ _ _ _ Hat) as [Hlen Hjl]. rewrite Hlen.
  pose proof (prev_scan (Datatypes.S (length ls)) _ _ _ _ Hat ltac:(lia)) as H.
  assert (nth_error ls j = Some li) as Elj by (destruct Hat as [_ [_ [H' _]]]; exact H').
  pose proof (off_nonneg ls j) as H0. pose proof (len_nonneg li) as Hl.
  match goal with |- concat_R _ ?x => replace x with
    (if 0 <=? ref_prev p then off ls j + ref_prev p else off ls j - 1); [exact H|] end.
  unfold ref_prev. destruct HR as [[Hp ->]|[[-> [-> ->]]|[-> [-> ->]]]].
  - destruct (Z.ltb_spec (p - 1) 0); destruct (Z.ltb_spec (off ls j + p - 1) 0);
      [replace (0 <=? -1) with false by reflexivity; lia| replace (0 <=? -1) with false by reflexivity; lia | |];
      destruct (Z.leb_spec 0 (p - 1)); lia.
  - rewrite off_0. reflexivity.
  - pose proof (off_last _ Elj). destruct (Z.ltb_spec (len li - 1) 0); destruct (Z.ltb_spec (len (concat ls) - 1) 0);
      [replace (0 <=? -1) with false by reflexivity; lia| replace (0 <=? -1) with false by reflexivity; lia | |];
      destruct (Z.leb_spec 0 (len li - 1)); lia.
Qed.

(* ---- seek: the binary search over the children's last keys *)
Definition allbelow (k : key) (j : nat) : Prop :=
  forall e, In e (concat (firstn j ls)) -> below k e = true.
Definition lastge (k : key) (r : nat) : Prop :=
  r = (length ls - 1)%nat \/
  exists lr e, nth_error ls r = Some lr /\ ent lr (len lr - 1) = Some e /\ below k e = false.

Lemma probe_spec m st lm : ok st -> nth_error ls m = Some lm ->
  at_child (probe c m st) m lm (len lm - 1).
Proof.
  intros Hok Hm. unfold probe. pose proof (reposition_at st m lm Hok Hm) as Hq.
  rewrite (kguard_ok (on_cur (c_last c)) (reposition c m st)) by (first [solve [eapply at_child'_fail; eauto]|solve [eapply at_child_fail; eauto]]).
  pose proof (on_cur_abs OLast _ _ _ Hq eq_refl) as H2. change (step c OLast) with (c_last c) in H2.
  cbn [step ref c_last] in H2. rewrite kguard_ok by (first [solve [eapply at_child'_fail; eauto]|solve [eapply at_child_fail; eauto]]).
  pose proof (on_cur_step OPrev _ _ _ _ H2) as H3. change (step c OPrev) with (c_prev c) in H3.
  cbn [step ref c_prev] in H3. unfold ref_prev in H3. pose proof (len_nonneg lm).
  destruct (Z.ltb_spec (len lm - 1) 0); [replace (len lm - 1) with (-1) by lia|]; exact H3.
Qed.

Lemma probe_left_spec : forall mid lft st lm, (lft <= mid)%nat -> at_child st mid lm (len lm - 1) ->
  exists m' st' lm', probe_left c mid lft st = (m', st') /\ (lft <= m' <= mid)%nat /\
    at_child st' m' lm' (len lm' - 1) /\ empties ls (m' + 1) (mid + 1) /\ (m' = lft \/ lm' <> []).
Proof.
  induction mid as [|m IH]; intros lft st lm Hle Hat.
  - exists O, st, lm. cbn [probe_left]. split; [reflexivity|]. split; [lia|]. split; [exact Hat|].
    split; [unfold empties; intros; lia|left; lia].
  - cbn [probe_left]. rewrite (cur_has_key_at _ _ _ _ Hat). pose proof (len_nonneg lm) as Hl.
    destruct (Nat.ltb_spec lft (Datatypes.S m)) as [Hlt|Hge]; cbn [andb].
    + destruct (Z.leb_spec 0 (len lm - 1)) as [Hne|Hemp]; cbn [andb negb].
      * replace (len lm - 1 <? len lm) with true by (symmetry; apply Z.ltb_lt; lia). cbn [negb].
        exists (Datatypes.S m), st, lm. split; [reflexivity|]. split; [lia|]. split; [exact Hat|].
        split; [unfold empties; intros; lia|]. right. intros ->. cbn in Hne. lia.
      * destruct (at_child_len _ _ _ _ Hat) as [_ HmL].
        destruct (nth_error ls m) as [l'|] eqn:El'; [|apply nth_error_None in El'; lia].
        pose proof (probe_spec m st l' (at_child_ok _ _ _ _ Hat) El') as Hp.
        destruct (IH lft _ _ ltac:(lia) Hp) as [m' [st' [lm' [E [Hr [Hat' [Hemp' Hor]]]]]]].
        exists m', st', lm'. split; [exact E|]. split; [lia|]. split; [exact Hat'|]. split; [|exact Hor].
        unfold empties. intros x lx Hx Hnx. destruct (Nat.eq_dec x (Datatypes.S m)) as [->|].
        -- assert (lx = lm) by (destruct Hat as [_ [_ [H _]]]; congruence). subst lx.
           destruct lm; [reflexivity|]. rewrite len_cons in Hemp. pose proof (len_nonneg lm). lia.
        -- apply (Hemp' x); [lia|assumption].
    + exists (Datatypes.S m), st, lm. split; [reflexivity|]. split; [lia|]. split; [exact Hat|].
      split; [unfold empties; intros; lia|left; lia].
Qed.

Lemma In_firstn_global j e : In e (concat (firstn j ls)) ->
  exists g, 0 <= g < off ls j /\ ent (concat ls) g = Some e.
Proof.
  intros Hin. destruct (In_ent _ _ Hin) as [g Hg]. exists g. pose proof (ent_range _ _ _ Hg) as Hr.
  split; [exact Hr|]. rewrite <- (firstn_skipn j ls), concat_app. rewrite ent_app_l by lia. exact Hg.
Qed.

Lemma allbelow_S k j lj e : nth_error ls j = Some lj -> ent lj (len lj - 1) = Some e ->
  below k e = true -> allbelow k (Datatypes.S j).
Proof.
  intros Hj He Hb x Hx. destruct (In_firstn_global _ _ Hx) as [g [Hg Hxg]].
  pose proof (ent_range _ _ _ He) as Hr. rewrite (off_S _ _ _ Hj) in Hg.
  assert (ent (concat ls) (off ls j + (len lj - 1)) = Some e) as Heg by (rewrite (ent_concat _ _ _ _ Hj) by lia; exact He).
  assert (ele x e) by (eapply (sorted_ent_le _ Hsorted g); [|exact Hxg|exact Heg]; lia).
  eapply below_downclosed; eauto.
Qed.

Lemma allbelow_empty k j : nth_error ls j = Some [] -> allbelow k j -> allbelow k (Datatypes.S j).
Proof.
  intros Hj Ha x Hx. apply Ha. replace (Datatypes.S j) with (j + 1)%nat in Hx by lia.
  rewrite firstn_add, concat_app in Hx. apply in_app_or in Hx. destruct Hx as [Hx|Hx]; [exact Hx|].
  exfalso. assert (firstn 1 (skipn j ls) = [[]]) as E.
  { clear -Hj. revert j Hj. induction ls as [|a l IH]; intros [|j] Hj; cbn in Hj; try discriminate.
    - injection Hj as ->. reflexivity.
    - cbn [skipn]. now apply IH. }
  rewrite E in Hx. cbn in Hx. exact Hx.
Qed.

Lemma bsearch_spec k : forall fuel lft rgt st, ok st -> (lft <= rgt < length ls)%nat ->
  allbelow k lft -> lastge k rgt -> (fuel > rgt - lft)%nat ->
  exists j st', bsearch c fuel k lft rgt st = (j, st') /\ ok st' /\ (j < length ls)%nat /\
                allbelow k j /\ lastge k j.
Proof.
  induction fuel as [|fuel IH]; intros lft rgt st Hok Hr Ha Hl Hfuel; [lia|].
  cbn [bsearch]. destruct (Nat.ltb_spec lft rgt) as [Hlt|Hge].
  - set (mid := Nat.div (lft + rgt) 2).
    assert (lft <= mid < rgt)%nat as Hmid.
    { unfold mid. pose proof (Nat.div_mod (lft + rgt) 2 ltac:(lia)).
      pose proof (Nat.mod_upper_bound (lft + rgt) 2 ltac:(lia)). lia. }
    destruct (nth_error ls mid) as [lm|] eqn:Em; [|apply nth_error_None in Em; lia].
    pose proof (probe_spec mid st lm Hok Em) as Hp.
    destruct (probe_left_spec mid lft _ _ ltac:(lia) Hp) as [m' [st' [lm' [E [Hr' [Hat' [Hemp Hor]]]]]]].
    rewrite E. rewrite (cur_kv_at _ _ _ _ Hat').
    assert (nth_error ls m' = Some lm') as Em' by (destruct Hat' as [_ [_ [H _]]]; exact H).
    destruct (ent lm' (len lm' - 1)) as [e|] eqn:He.
    + destruct (kltb (ek e) k) eqn:Hb; cbn [negb].
      * apply (IH (m' + 1)%nat rgt st'); auto; try lia; [eapply at_child_ok; eauto|].
        replace (m' + 1)%nat with (Datatypes.S m') by lia. eapply allbelow_S; eauto.
      * apply (IH lft m' st'); auto; try lia; [eapply at_child_ok; eauto|].
        right. exists lm', e. auto.
    + apply (IH (m' + 1)%nat rgt st'); auto; try lia; [eapply at_child_ok; eauto|].
      replace (m' + 1)%nat with (Datatypes.S m') by lia.
      assert (lm' = []) as ->.
      { apply ent_none_inv in He. pose proof (len_nonneg lm'). destruct lm' as [|e0 lm0]; [reflexivity|]. rewrite len_cons in *. pose proof (len_nonneg lm0). lia. }
      destruct Hor as [->|Hne]; [|congruence]. now apply allbelow_empty.
  - exists lft, st. assert (lft = rgt) by lia. subst. split; [reflexivity|]. split; [exact Hok|]. split; [lia|]. split; assumption.
Qed.

Lemma sorted_child j lj : nth_error ls j = Some lj -> sorted lj.
Proof.
  intros Hj. pose proof Hsorted as H. rewrite (concat_split _ _ _ Hj) in H.
  apply sorted_app in H. destruct H as [_ H]. apply sorted_app in H. tauto.
Qed.

Lemma seek_R k st P : concat_R st P -> concat_R (k_seek_raw c k st) (count (below k) (concat ls)).
Proof.
  intros HR. pose proof (concat_R_ok _ _ HR) as Hok. pose proof (ls_nonempty _ Hok).
  pose proof Hok as [_ [[Hlen _] _]]. unfold k_seek_raw.
  destruct (k_kids st) as [|s0 kids'] eqn:Ek; [cbn in Hlen; lia|]. rewrite <- Ek in *. rewrite Hlen.
  destruct (bsearch_spec k (length ls) 0 (length ls - 1) st Hok) as [j [st' [E [Hok' [Hj [Ha Hl]]]]]]; try lia.
  { intros e He. cbn in He. contradiction. }
  { now left. }
  rewrite E. destruct (nth_error ls j) as [lj|] eqn:Ej; [|apply nth_error_None in Ej; lia].
  rewrite (kguard_ok (reposition c j) st') by (destruct Hok' as [H' _]; exact H').
  pose proof (reposition_at st' j lj Hok' Ej) as Hq.
  rewrite kguard_ok by (first [solve [eapply at_child'_fail; eauto]|solve [eapply at_child_fail; eauto]]).
  pose proof (on_cur_abs (OSeek k) _ _ _ Hq eq_refl) as H2. change (step c (OSeek k)) with (c_seek c k) in H2.
  cbn [step ref c_seek] in H2. set (q' := count (below k) lj) in *.
  pose proof (count_range (below k) lj) as Hq'. fold q' in Hq'.
  pose proof (sorted_child _ _ Ej) as Hsj.
  (* the global count *)
  assert (count (below k) (concat (firstn j ls)) = off ls j) as C1 by (apply count_all; exact Ha).
  rewrite (concat_split _ _ _ Ej), !count_app, C1. fold q'.
  exists j, lj, q'. split; [exact H2|].
  destruct (Z_lt_dec q' (len lj)) as [Hlt|Hge].
  - left. split; [lia|]. destruct (ent_some lj q' ltac:(lia)) as [eq Heq].
    assert (below k eq = false) as Hbq.
    { destruct (below k eq) eqn:Hb; [|reflexivity].
      apply (count_prefix _ _ Hsj (below_downclosed k) _ _ Heq) in Hb. unfold q' in Hb. lia. }
    rewrite count_none; [lia|]. intros x Hx.
    destruct (below k x) eqn:Hbx; [|reflexivity]. exfalso.
    destruct (In_ent _ _ Hx) as [g Hg]. pose proof (ent_range _ _ _ Hg) as Hgr.
    assert (ent (concat ls) (off ls j + q') = Some eq) as G1 by (rewrite (ent_concat _ _ _ _ Ej) by lia; exact Heq).
    assert (ent (concat ls) (off ls (Datatypes.S j) + g) = Some x) as G2.
    { rewrite (concat_split _ _ _ Ej). rewrite (off_S _ _ _ Ej). unfold off.
      rewrite ent_app_r by lia. rewrite ent_app_r by lia.
      replace (len (concat (firstn j ls)) + len lj + g - len (concat (firstn j ls)) - len lj) with g by lia. exact Hg. }
    assert (ele eq x) by (eapply (sorted_ent_le _ Hsorted); [|exact G1|exact G2]; rewrite (off_S _ _ _ Ej); lia).
    assert (below k eq = true) by (eapply below_downclosed; eauto). congruence.
  - right. right. assert (q' = len lj) as Hqe by lia. split; [assumption|].
    destruct Hl as [->|[lr [e [Hlr [He Hbe]]]]].
    + split; [reflexivity|]. rewrite (concat_split _ _ _ Ej), !len_app.
      replace (Datatypes.S (length ls - 1)) with (length ls) by lia.
      rewrite skipn_all. cbn [concat]. unfold off, count. cbn. lia.
    + exfalso. assert (lr = lj) by congruence. subst lr.
      assert (below k e = true); [|congruence].
      apply (count_prefix _ _ Hsj (below_downclosed k) _ _ He). fold q'. lia.
Qed.

Lemma seek_R_ok k st : ok st -> concat_R (k_seek_raw c k st) (count (below k) (concat ls)).
Proof.
  intros Hok. pose proof (ls_nonempty _ Hok).
  pose proof Hok as [_ [[Hlen _] _]]. unfold k_seek_raw.
  destruct (k_kids st) as [|s0 kids'] eqn:Ek; [cbn in Hlen; lia|]. rewrite <- Ek in *. rewrite Hlen.
  destruct (bsearch_spec k (length ls) 0 (length ls - 1) st Hok) as [j [st' [E [Hok' [Hj [Ha Hl]]]]]]; try lia.
  { intros e He. cbn in He. contradiction. }
  { now left. }
  rewrite E. destruct (nth_error ls j) as [lj|] eqn:Ej; [|apply nth_error_None in Ej; lia].
  rewrite (kguard_ok (reposition c j) st') by (destruct Hok' as [H' _]; exact H').
  pose proof (reposition_at st' j lj Hok' Ej) as Hq.
  rewrite kguard_ok by (first [solve [eapply at_child'_fail; eauto]|solve [eapply at_child_fail; eauto]]).
  pose proof (on_cur_abs (OSeek k) _ _ _ Hq eq_refl) as H2. change (step c (OSeek k)) with (c_seek c k) in H2.
  cbn [step ref c_seek] in H2. set (q' := count (below k) lj) in *.
  pose proof (count_range (below k) lj) as Hq'. fold q' in Hq'.
  pose proof (sorted_child _ _ Ej) as Hsj.
  (* the global count *)
  assert (count (below k) (concat (firstn j ls)) = off ls j) as C1 by (apply count_all; exact Ha).
  rewrite (concat_split _ _ _ Ej), !count_app, C1. fold q'.
  exists j, lj, q'. split; [exact H2|].
  destruct (Z_lt_dec q' (len lj)) as [Hlt|Hge].
  - left. split; [lia|]. destruct (ent_some lj q' ltac:(lia)) as [eq Heq].
    assert (below k eq = false) as Hbq.
    { destruct (below k eq) eqn:Hb; [|reflexivity].
      apply (count_prefix _ _ Hsj (below_downclosed k) _ _ Heq) in Hb. unfold q' in Hb. lia. }
    rewrite count_none; [lia|]. intros x Hx.
    destruct (below k x) eqn:Hbx; [|reflexivity]. exfalso.
    destruct (In_ent _ _ Hx) as [g Hg]. pose proof (ent_range _ _ _ Hg) as Hgr.
    assert (ent (concat ls) (off ls j + q') = Some eq) as G1 by (rewrite (ent_concat _ _ _ _ Ej) by lia; exact Heq).
    assert (ent (concat ls) (off ls (Datatypes.S j) + g) = Some x) as G2.
    { rewrite (concat_split _ _ _ Ej). rewrite (off_S _ _ _ Ej). unfold off.
      rewrite ent_app_r by lia. rewrite ent_app_r by lia.
      replace (len (concat (firstn j ls)) + len lj + g - len (concat (firstn j ls)) - len lj) with g by lia. exact Hg. }
    assert (ele eq x) by (eapply (sorted_ent_le _ Hsorted); [|exact G1|exact G2]; rewrite (off_S _ _ _ Ej); lia).
    assert (below k eq = true) by (eapply below_downclosed; eauto). congruence.
  - right. right. assert (q' = len lj) as Hqe by lia. split; [assumption|].
    destruct Hl as [->|[lr [e [Hlr [He Hbe]]]]].
    + split; [reflexivity|]. rewrite (concat_split _ _ _ Ej), !len_app.
      replace (Datatypes.S (length ls - 1)) with (length ls) by lia.
      rewrite skipn_all. cbn [concat]. unfold off, count. cbn. lia.
    + exfalso. assert (lr = lj) by congruence. subst lr.
      assert (below k e = true); [|congruence].
      apply (count_prefix _ _ Hsj (below_downclosed k) _ _ He). fold q'. lia.
Qed.

Theorem concat_sim_rec : sim (concat_cursor c) (concat ls) concat_R.
Proof.
  constructor.
  - intros st P [j [li [p [Hat HR]]]]. pose proof (off_nonneg ls j). pose proof (off_le_N ls j).
    pose proof (len_nonneg (concat ls)).
    assert (nth_error ls j = Some li) as Elj by (destruct Hat as [_ [_ [H' _]]]; exact H').
    pose proof (off_S _ _ _ Elj). pose proof (off_le_N ls (Datatypes.S j)).
    destruct HR as [[Hp ->]|[[-> [-> ->]]|[-> [-> ->]]]]; lia.
  - intros st P [j [li [p [Hat HR]]]]. cbn [concat_cursor c_kv]. unfold k_kv.
    rewrite (cur_kv_at _ _ _ _ Hat).
    assert (nth_error ls j = Some li) as Elj by (destruct Hat as [_ [_ [H' _]]]; exact H').
    destruct HR as [[Hp ->]|[[-> [-> ->]]|[-> [-> ->]]]].
    + symmetry. now apply ent_concat.
    + rewrite !ent_none by lia. reflexivity.
    + rewrite !ent_none by lia. reflexivity.
  - intros st P HR. apply concat_R_ok in HR. destruct HR as [H _]. exact H.
  - intros o st P HR. pose proof (concat_R_ok _ _ HR) as Hok. pose proof Hok as [Hf _].
    destruct o; cbn [step concat_cursor c_first c_last c_seek c_prev c_next ref]; rewrite kguard_ok by assumption.
    + now apply first_R.
    + now apply last_R.
    + eapply seek_R; eauto.
    + now apply prev_R.
    + now apply next_R.
Qed.

Lemma new_R kids : kids_ok kids -> (0 < length ls)%nat -> concat_R (k_new c kids) (-1).
Proof.
  intros [Hlen Hk] Hpos. unfold k_new. destruct kids as [|s0 kids'] eqn:Ek; [cbn in Hlen; lia|].
  rewrite <- Ek in *. assert (ok (mkK kids O None)) as Hok by (split; [reflexivity|split; [split; assumption|exact Hpos]]).
  destruct (ok_at_child' _ Hok) as [l0 Hat]. cbn [k_pos] in Hat.
  pose proof (on_cur_abs OFirst _ _ _ Hat eq_refl) as H2. change (step c OFirst) with (c_first c) in H2.
  exists O, l0, (-1). split; [exact H2|]. right. left. auto.
Qed.
End ConcatRecProof.

(* recovery: from any state whose children recover, the absolute calls make the concatenating
   cursor a reference cursor over the concatenation again *)
Lemma concat_krec {S} (c : cursor S) (ls : list (list entry)) (st : kstate S) :
  sorted (concat ls) -> k_fail st = None -> (k_pos st < length ls)%nat ->
  Forall2 (fun s li => krec c s li) (k_kids st) ls ->
  krec (concat_cursor c) st (concat_spec ls).
Proof.
  intros Hs Hf Hp HF o Ho. unfold concat_spec.
  assert (ok c ls st) as Hok.
  { split; [exact Hf|]. split; [|exact Hp]. split; [clear -HF; induction HF; cbn; congruence|].
    intros i s li H1 H2. clear -HF H1 H2. revert i H1 H2.
    induction HF as [|s' l' kids' ls' Hh HF IH]; intros [|i] H1 H2; cbn in *; try discriminate.
    - injection H1 as <-. injection H2 as <-. exact Hh.
    - eapply IH; eauto. }
  apply (sim_refines _ _ _ (concat_sim_rec c ls Hs)).
  destruct o; try discriminate; cbn [step concat_cursor c_first c_last c_seek ref]; unfold k_guard; rewrite Hf.
  - now apply first_R.
  - now apply last_R.
  - assert (concat_R c ls (k_first_raw c st) (-1)) as HR by (now apply first_R).
    (* seek_R only uses that its pre-state is ok *)
    eapply seek_R_ok; eauto.
Qed.

(* the refinement theorem again, now with children that only need to recover *)
Theorem concat_refines_rec {S} (c : cursor S) (ls : list (list entry)) (kids : list S) :
  sorted (concat ls) -> ls <> [] ->
  Forall2 (fun s li => krec c s li) kids ls ->
  refines (concat_cursor c) (k_new c kids) (concat_spec ls) (-1).
Proof.
  intros Hs Hne HF. eapply sim_refines; [apply (concat_sim_rec c ls Hs)|].
  apply new_R.
  - split; [clear -HF; induction HF; cbn; congruence|].
    intros i s li H1 H2. revert i H1 H2. clear Hs Hne. induction HF as [|s' l' kids' ls' Hh HF IH]; intros [|i] H1 H2; cbn in *; try discriminate.
    + injection H1 as <-. injection H2 as <-. exact Hh.
    + eapply IH; eauto.
  - destruct ls; [congruence|cbn; lia].
Qed.
