(* Cursor/Proofs_Heap.v — the array heap of MergingCursor (percolate_down / heapify of
   Merging.v) over any strict weak order `less`: the operations permute the array, heapify
   establishes the heap property, percolate_down 0 repairs a heap broken only at the root, the
   root of a heap is a minimum, and the fuel given to percolate_down is never what stops it. *)
From Coq Require Import Arith List Bool Lia Permutation.
From Blue Require Import Cursor.Iface Cursor.Concat Cursor.Merging Cursor.Proofs_Concat.
Import ListNotations.

Section HeapProofs.
Context {A : Type} (less : A -> A -> bool).
Hypothesis less_irrefl : forall a, less a a = false.
Hypothesis less_trans : forall a b c, less a b = true -> less b c = true -> less a c = true.
Hypothesis less_ntrans : forall a b c, less a b = false -> less b c = false -> less a c = false.

Definition hle (a b : A) : Prop := less b a = false.

Lemma hle_refl a : hle a a.
Proof. apply less_irrefl. Qed.
Lemma hle_trans a b c : hle a b -> hle b c -> hle a c.
Proof. unfold hle. intros H1 H2. eapply less_ntrans; eauto. Qed.
Lemma less_hle a b : less a b = true -> hle a b.
Proof.
  unfold hle. intros H. destruct (less b a) eqn:E; [|reflexivity].
  pose proof (less_trans _ _ _ H E) as H'. rewrite less_irrefl in H'. discriminate.
Qed.

Definition ischild (c i : nat) : Prop := c = i * 2 + 1 \/ c = i * 2 + 2.

(* every parent at index >= k is <= its children *)
Definition heap_from (k : nat) (l : list A) : Prop :=
  forall i c a b, k <= i -> ischild c i -> nth_error l i = Some a -> nth_error l c = Some b -> hle a b.

(* ---- swap *)
Lemma swap_length (l : list A) i j : length (swap l i j) = length l.
Proof.
  unfold swap. destruct (nth_error l i); [|reflexivity]. destruct (nth_error l j); [|reflexivity].
  now rewrite !upd_length.
Qed.

Lemma nth_error_upd {B} (l : list B) i f x :
  nth_error (upd l i f) x = if x =? i then option_map f (nth_error l i) else nth_error l x.
Proof.
  destruct (Nat.eqb_spec x i) as [->|Hne].
  - destruct (nth_error l i) eqn:E; cbn.
    + now apply upd_nth_same.
    + apply nth_error_None. rewrite upd_length. now apply nth_error_None.
  - apply upd_nth_other. congruence.
Qed.

Lemma nth_error_swap (l : list A) i j x : i < length l -> j < length l -> i <> j ->
  nth_error (swap l i j) x =
  if x =? i then nth_error l j else if x =? j then nth_error l i else nth_error l x.
Proof.
  intros Hi Hj Hij. unfold swap.
  destruct (nth_error l i) as [a|] eqn:Ei; [|apply nth_error_None in Ei; lia].
  destruct (nth_error l j) as [b|] eqn:Ej; [|apply nth_error_None in Ej; lia].
  rewrite !nth_error_upd.
  destruct (Nat.eqb_spec x j) as [->|Hxj].
  - destruct (Nat.eqb_spec j i); [lia|]. rewrite Ej. reflexivity.
  - destruct (Nat.eqb_spec x i) as [->|Hxi]; [rewrite Ei; reflexivity|reflexivity].
Qed.

Lemma upd_perm_set {B} (l : list B) i a b : nth_error l i = Some a ->
  exists l1 l2, l = l1 ++ a :: l2 /\ upd l i (fun _ => b) = l1 ++ b :: l2 /\ length l1 = i.
Proof.
  revert i. induction l as [|x l IH]; intros [|i] H; cbn in H; try discriminate.
  - injection H as ->. exists [], l. auto.
  - destruct (IH _ H) as [l1 [l2 [E1 [E2 E3]]]]. exists (x :: l1), l2. cbn. rewrite <- E1, E2. auto.
Qed.

Lemma swap_perm (l : list A) i j : Permutation (swap l i j) l.
Proof.
  unfold swap. destruct (nth_error l i) as [a|] eqn:Ei; [|reflexivity].
  destruct (nth_error l j) as [b|] eqn:Ej; [|reflexivity].
  destruct (Nat.eq_dec i j) as [->|Hne].
  - assert (a = b) by congruence. subst b.
    destruct (upd_perm_set l j a a Ei) as [l1 [l2 [E1 [E2 E3]]]].
    assert (upd l j (fun _ => a) = l) as -> by congruence.
    assert (upd l j (fun _ => a) = l) as -> by congruence. reflexivity.
  - (* two distinct positions *)
    destruct (upd_perm_set l i a b Ei) as [l1 [l2 [E1 [E2 E3]]]].
    set (l' := upd l i (fun _ => b)) in *.
    assert (nth_error l' j = Some b) as Ej' by (unfold l'; rewrite nth_error_upd; destruct (Nat.eqb_spec j i); [lia|exact Ej]).
    destruct (upd_perm_set l' j b a Ej') as [m1 [m2 [F1 [F2 F3]]]]. rewrite F2.
    (* l = l1 ++ a :: l2 ; l' = l1 ++ b :: l2 = m1 ++ b :: m2 ; result m1 ++ a :: m2 *)
    transitivity (a :: m1 ++ m2); [symmetry; apply Permutation_middle|].
    transitivity (a :: l1 ++ l2); [|rewrite E1; apply Permutation_middle].
    constructor. apply (Permutation_app_inv m1 m2 l1 l2 b). rewrite <- F1, <- E2. reflexivity.
Qed.

(* ---- percolate_down *)
Lemma percolate_length n l j : length (percolate_down less n l j) = length l.
Proof.
  revert l j. induction n as [|n IH]; intros l j; cbn [percolate_down]; [reflexivity|].
  destruct (length l <=? j * 2 + 1); [reflexivity|].
  match goal with |- context [if less_at less l j ?ch then _ else _] => destruct (less_at less l j ch) end;
    [reflexivity|]. rewrite IH. apply swap_length.
Qed.

Lemma percolate_perm n l j : Permutation (percolate_down less n l j) l.
Proof.
  revert l j. induction n as [|n IH]; intros l j; cbn [percolate_down]; [reflexivity|].
  destruct (length l <=? j * 2 + 1); [reflexivity|].
  match goal with |- context [if less_at less l j ?ch then _ else _] => destruct (less_at less l j ch) end;
    [reflexivity|]. etransitivity; [apply IH|apply swap_perm].
Qed.

(* heap at indices >= k except possibly at j (whose value may be too big for its children);
   the children of j are already >= j's parent *)
Definition hole (k j : nat) (l : list A) : Prop :=
  (forall i c a b, k <= i -> i <> j -> ischild c i -> nth_error l i = Some a -> nth_error l c = Some b -> hle a b) /\
  (forall p c a b, k <= p -> ischild j p -> ischild c j -> nth_error l p = Some a -> nth_error l c = Some b -> hle a b).

Lemma less_at_eq l i j a b : nth_error l i = Some a -> nth_error l j = Some b -> less_at less l i j = less a b.
Proof. intros Hi Hj. unfold less_at. now rewrite Hi, Hj. Qed.

Lemma percolate_hole : forall n l j k, hole k j l -> k <= j -> length l <= n + j ->
  heap_from k (percolate_down less n l j).
Proof.
  induction n as [|n IH]; intros l j k [H1 H2] Hkj Hn.
  - cbn [percolate_down]. intros i c a b Hi Hc Ha Hb. destruct (Nat.eq_dec i j) as [->|Hne]; [|eapply H1; eauto].
    assert (j < length l) by (apply nth_error_Some; congruence). lia.
  - cbn [percolate_down]. destruct (Nat.leb_spec (length l) (j * 2 + 1)) as [Hnc|Hc1].
    + intros i c a b Hi Hc Ha Hb. destruct (Nat.eq_dec i j) as [->|Hne]; [|eapply H1; eauto].
      assert (c < length l) by (apply nth_error_Some; congruence). destruct Hc; lia.
    + destruct (nth_error l j) as [aj|] eqn:Ej; [|apply nth_error_None in Ej; lia].
      destruct (nth_error l (j * 2 + 1)) as [al|] eqn:El; [|apply nth_error_None in El; lia].
      (* the chosen child is <= the other child *)
      set (child := if (length l <=? (j * 2 + 2)) || less_at less l (j * 2 + 1) (j * 2 + 2) then (j * 2 + 1) else (j * 2 + 2)).
      assert (exists ac, nth_error l child = Some ac /\ ischild child j /\ child < length l /\ j < child /\
              forall c b, ischild c j -> nth_error l c = Some b -> hle ac b) as [ac [Ec [Hcj [Hcl [Hjc Hmin]]]]].
      { unfold child. destruct (Nat.leb_spec (length l) (j * 2 + 2)) as [Hnr|Hr]; cbn [orb].
        - exists al. repeat split; auto; try (unfold ischild; lia).
          intros c b [->| ->] Hb; [assert (b = al) by congruence; subst; apply hle_refl|].
          assert (j * 2 + 2 < length l) by (apply nth_error_Some; congruence). lia.
        - destruct (nth_error l (j * 2 + 2)) as [ar|] eqn:Er; [|apply nth_error_None in Er; lia].
          rewrite (less_at_eq _ _ _ _ _ El Er). destruct (less al ar) eqn:Elr.
          + exists al. repeat split; auto; try (unfold ischild; lia).
            intros c b [->| ->] Hb.
            * assert (b = al) by congruence. subst. apply hle_refl.
            * assert (b = ar) by congruence. subst. now apply less_hle.
          + exists ar. repeat split; auto; try (unfold ischild; lia).
            intros c b [->| ->] Hb.
            * assert (b = al) by congruence. subst. exact Elr.
            * assert (b = ar) by congruence. subst. apply hle_refl. }
      fold child. rewrite (less_at_eq _ _ _ _ _ Ej Ec). destruct (less aj ac) eqn:Ejc.
      * (* break: j is smaller than its least child *)
        intros i c a b Hi Hc Ha Hb. destruct (Nat.eq_dec i j) as [->|Hne]; [|eapply H1; eauto].
        assert (a = aj) by congruence. subst a. eapply hle_trans; [apply less_hle; exact Ejc|]. eapply Hmin; eauto.
      * (* swap and continue at child *)
        apply IH; [|lia|rewrite swap_length; lia].
        assert (j < length l) as Hjl by (apply nth_error_Some; congruence).
        assert (forall x, nth_error (swap l j child) x =
                  if x =? j then Some ac else if x =? child then Some aj else nth_error l x) as Hsw.
        { intros x. rewrite nth_error_swap by lia. rewrite Ec, Ej. reflexivity. }
        split.
        -- intros i c a b Hi Hic Hch Ha Hb. rewrite Hsw in Ha, Hb.
           destruct (Nat.eqb_spec i j) as [->|Hij].
           ++ (* parent j now holds ac *)
              injection Ha as <-. destruct (Nat.eqb_spec c j) as [->|]; [destruct Hch; lia|].
              destruct (Nat.eqb_spec c child) as [->|Hcc]; [injection Hb as <-; exact Ejc|].
              eapply Hmin; eauto.
           ++ destruct (Nat.eqb_spec i child); [congruence|].
              destruct (Nat.eqb_spec c j) as [->|Hcj'].
              ** (* i is j's parent: its child j now holds ac *)
                 injection Hb as <-. eapply (H2 i child); eauto.
              ** destruct (Nat.eqb_spec c child) as [->|Hcc].
                 --- (* child has a single parent, j *) exfalso. destruct Hch, Hcj; lia.
                 --- eapply H1; eauto.
        -- intros p c a b Hp Hpc Hcc Ha Hb. rewrite Hsw in Ha, Hb.
           assert (p = j) by (destruct Hpc, Hcj; lia). subst p.
           rewrite Nat.eqb_refl in Ha. injection Ha as <-.
           destruct (Nat.eqb_spec c j); [destruct Hcc; lia|]. destruct (Nat.eqb_spec c child); [destruct Hcc; lia|].
           eapply (H1 child c); eauto; lia.
Qed.

Lemma percolate_heap l k : heap_from (Datatypes.S k) l -> heap_from k (percolate_down less (length l) l k).
Proof.
  intros H. apply percolate_hole; [|lia|lia]. split.
  - intros i c a b Hi Hne Hc Ha Hb. apply (H i c); auto. lia.
  - intros p c a b Hp Hpc. destruct Hpc; lia.
Qed.

Lemma heap_from_weaken k k' l : k <= k' -> heap_from k l -> heap_from k' l.
Proof. intros Hk H i c a b Hi. apply H. lia. Qed.

Lemma heapify_from_heap : forall i l, i <= length l -> heap_from i l -> heap_from 0 (heapify_from less i l).
Proof.
  induction i as [|i IH]; intros l Hi H; cbn [heapify_from]; [exact H|].
  apply IH; [rewrite percolate_length; lia|]. now apply percolate_heap.
Qed.

Lemma heapify_heap l : heap_from 0 (heapify less l).
Proof.
  unfold heapify. apply heapify_from_heap; [lia|].
  intros i c a b Hi Hc Ha Hb. assert (i < length l) by (apply nth_error_Some; congruence). lia.
Qed.

Lemma heapify_from_perm i l : Permutation (heapify_from less i l) l.
Proof.
  revert l. induction i as [|i IH]; intros l; cbn [heapify_from]; [reflexivity|].
  etransitivity; [apply IH|apply percolate_perm].
Qed.
Lemma heapify_perm l : Permutation (heapify less l) l.
Proof. apply heapify_from_perm. Qed.

(* the root of a heap is a minimum *)
Lemma heap_root_min l r : heap_from 0 l -> nth_error l 0 = Some r ->
  forall i a, nth_error l i = Some a -> hle r a.
Proof.
  intros H Hr i. induction i as [i IH] using lt_wf_ind. intros a Ha.
  destruct i as [|i]; [assert (a = r) by congruence; subst; apply hle_refl|].
  set (p := Nat.div i 2).
  assert (ischild (Datatypes.S i) p) as Hc.
  { unfold ischild, p. pose proof (Nat.div_mod i 2 ltac:(lia)). pose proof (Nat.mod_upper_bound i 2 ltac:(lia)). lia. }
  assert (p < Datatypes.S i) as Hp by (unfold p; pose proof (Nat.div_mod i 2 ltac:(lia)); lia).
  destruct (nth_error l p) as [ap|] eqn:Ep.
  - eapply hle_trans; [apply (IH p Hp ap Ep)|]. apply (H p (Datatypes.S i)); auto. lia.
  - apply nth_error_None in Ep. assert (Datatypes.S i < length l) by (apply nth_error_Some; congruence). lia.
Qed.

(* any fuel >= len - index gives the same result: the cut-off never ends the loop *)
Lemma percolate_fuel : forall n1 n2 l j, length l <= n1 + j -> length l <= n2 + j ->
  percolate_down less n1 l j = percolate_down less n2 l j.
Proof.
  induction n1 as [|n1 IH]; intros n2 l j H1 H2.
  - destruct n2; cbn [percolate_down]; [reflexivity|].
    destruct (Nat.leb_spec (length l) (j * 2 + 1)); [reflexivity|lia].
  - destruct n2 as [|n2]; cbn [percolate_down].
    + destruct (Nat.leb_spec (length l) (j * 2 + 1)); [reflexivity|lia].
    + destruct (Nat.leb_spec (length l) (j * 2 + 1)); [reflexivity|].
      match goal with |- context [if less_at less l j ?ch then _ else _] =>
        set (child := ch); assert (j < child) as Hc
          by (unfold child; destruct ((length l <=? j * 2 + 2) || less_at less l (j * 2 + 1) (j * 2 + 2)); lia);
        destruct (less_at less l j child) end; [reflexivity|].
      apply IH; rewrite swap_length; lia.
Qed.
End HeapProofs.
