(* Cursor/FBounds.v — sst/src/bounds_cursor.rs over a child whose calls may return Err.
   Definitions only.  Same statements as Bounds.v; after every `self.cursor.f()?` the child's
   f_err is tested and the function returns (state so far, true).  Note what is left behind:
   `self.bounds` is assigned BEFORE the child call in seek_to_first / seek_to_last / seek, so an
   error leaves the new flag with the child wherever the failed call left it. *)
From Coq Require Import List Bool.
From Blue Require Import Cursor.Iface Cursor.Bounds Cursor.Fallible.

Section FBounds.
Context {S : Type} (fc : fcursor S) (fuel : nat) (lo hi : bound).
Local Notation c := (f_cur fc).
Local Notation e := (f_err fc).

(* self.cursor = cur'; if that call returned Err return, else go on *)
Definition fb_then (st : bstate S) (cur' : S) (k : bstate S -> bstate S * bool) : bstate S * bool :=
  if e cur' then (set_cur st cur', true) else k (set_cur st cur').

(* if self.cursor.key().is_some() { self.cursor.prev()?; } *)
Definition fb_prev_if_some (st : bstate S) (k : bstate S -> bstate S * bool) : bstate S * bool :=
  if has_key c (b_cur st) then fb_then st (c_prev c (b_cur st)) k else k st.

Definition fb_first_raw (st : bstate S) : bstate S * bool :=
  let st := set_pos st BeforeStart in
  let cur' := match lo with
              | Unbounded => c_first c (b_cur st)
              | Included k => c_seek c k (b_cur st)
              | Excluded k => c_seek c k (b_cur st)
              end in
  fb_then st cur' (fun st => fb_prev_if_some st (fun st => (check_end c hi st, false))).

(* while let Some(key) = self.cursor.key() { if key.key == end_bound { next()? } else { break } }
   None = out of fuel; Some (cursor, returned Err?) *)
Fixpoint fb_skip_equal (n : nat) (k : key) (cur : S) : option (S * bool) :=
  match c_kv c cur with
  | None => Some (cur, false)
  | Some en =>
      if keqb (ek en) k then
        match n with
        | O => None
        | Datatypes.S n' =>
            let cur' := c_next c cur in
            if e cur' then Some (cur', true) else fb_skip_equal n' k cur'
        end
      else Some (cur, false)
  end.

Definition fb_last_raw (st : bstate S) : bstate S * bool :=
  let st := set_pos st AfterEnd in
  match hi with
  | Unbounded => fb_then st (c_last c (b_cur st)) (fun st => (check_start c lo st, false))
  | Included k =>
      let cur1 := c_seek c k (b_cur st) in
      if e cur1 then (set_cur st cur1, true) else
      match fb_skip_equal fuel k cur1 with
      | Some (cur, true) => (set_cur st cur, true)
      | Some (cur, false) => (check_start c lo (set_cur st cur), false)
      | None => (check_start c lo (set_fail st OutOfFuel), false)     (* model fuel; as in Bounds.v *)
      end
  | Excluded k => fb_then st (c_seek c k (b_cur st)) (fun st => (check_start c lo st, false))
  end.

Definition fb_prev_raw (st : bstate S) : bstate S * bool :=
  if negb (bpos_eqb (b_pos st) BeforeStart)
  then fb_then st (c_prev c (b_cur st)) (fun st => (check_start c lo (set_pos st Positioned), false))
  else (check_start c lo st, false).

Fixpoint fb_next_loop (n : nat) (st : bstate S) : bstate S * bool :=
  if bpos_eqb (b_pos st) AfterEnd then (st, false)
  else
    match n with
    | O => (set_fail st OutOfFuel, false)
    | Datatypes.S n' =>
        fb_then st (c_next c (b_cur st)) (fun st =>
          let st := set_pos st Positioned in
          let st := check_start c lo st in
          let st := check_end c hi st in
          if negb (bpos_eqb (b_pos st) BeforeStart) then (st, false) else fb_next_loop n' st)
    end.
Definition fb_next_raw (st : bstate S) : bstate S * bool := fb_next_loop fuel st.

(* the combinator's own failure (model fuel) is absorbing, as in Bounds.v *)
Definition fb_guard (f : bstate S -> bstate S * bool) (st : bstate S) : bstate S * bool :=
  match b_fail st with Some _ => (st, false) | None => f st end.

Definition fb_seek_raw (k : key) (st : bstate S) : bstate S * bool :=
  let st := set_pos st Positioned in
  fb_then st (c_seek c k (b_cur st)) (fun st =>
    let st := check_end c hi st in
    let st := check_start c lo st in
    if bpos_eqb (b_pos st) BeforeStart then
      (* self.seek_to_first()?; self.next()?; *)
      let '(st, er) := fb_first_raw st in
      if er then (st, true) else fb_guard fb_next_raw st
    else if bpos_eqb (b_pos st) AfterEnd || negb (has_key c (b_cur st)) then
      fb_last_raw st
    else (st, false)).

Definition fbounds : fcursor (fs (bstate S)) := mkF {|
  c_first := fs_lift (fb_guard fb_first_raw);
  c_last := fs_lift (fb_guard fb_last_raw);
  c_seek := fun k => fs_lift (fb_guard (fb_seek_raw k));
  c_prev := fs_lift (fb_guard fb_prev_raw);
  c_next := fs_lift (fb_guard fb_next_raw);
  c_kv := fun x => b_kv c (fs_st x);
  c_fail := fun x => b_fail (fs_st x) |} fs_err.

(* BoundsCursor::new: the constructor's own seek_to_first (an Err here fails construction) *)
Definition fb_new (cur : S) : fs (bstate S) :=
  let '(st, er) := fb_first_raw (mkB cur BeforeStart None) in mkFs st er.
End FBounds.
