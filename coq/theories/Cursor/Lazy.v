(* Cursor/Lazy.v — model of sst/src/lazy_cursor.rs (LazyCursor).  Definitions only.

   `instantiate: FnMut() -> Result<SstCursor, SError>` opens the file and returns a fresh cursor;
   the model's `mk` is the state that closure returns (opening can fail only with a storage
   error, which is not modelled).  The `panic!("this should never happen")` of establish_cursor
   is syntactically unreachable (the position was assigned one line above) and is not modelled. *)
From Coq Require Import List Bool.
From Blue Require Import Cursor.Iface.

Inductive lpos (S : Type) := LFirst | LLast | LInst (cur : S).
Arguments LFirst {S}. Arguments LLast {S}. Arguments LInst {S}.

Section Lazy.
Context {S : Type} (c : cursor S) (mk : S).

(* match &mut self.position { First | Last => self.establish_cursor()?, Instantiated{cursor} => cursor } *)
Definition l_cursor (p : lpos S) : S :=
  match p with LFirst => mk | LLast => mk | LInst cur => cur end.

Definition l_first (p : lpos S) : lpos S := LFirst.
Definition l_last (p : lpos S) : lpos S := LLast.

Definition l_seek (k : key) (p : lpos S) : lpos S :=
  let cur := c_seek c k (l_cursor p) in
  if has_key c cur then LInst cur else LLast.

Definition l_prev (p : lpos S) : lpos S :=
  match p with
  | LFirst => LFirst
  | LLast =>
      let cur := c_prev c (c_last c mk) in
      if has_key c cur then LInst cur else LFirst
  | LInst cur =>
      let cur := c_prev c cur in
      if has_key c cur then LInst cur else LFirst
  end.

Definition l_next (p : lpos S) : lpos S :=
  match p with
  | LFirst =>
      let cur := c_next c (c_first c mk) in
      if has_key c cur then LInst cur else LLast
  | LLast => LLast
  | LInst cur =>
      let cur := c_next c cur in
      if has_key c cur then LInst cur else LLast
  end.

Definition l_kv (p : lpos S) : option entry :=
  match p with LInst cur => c_kv c cur | _ => None end.

Definition lazy : cursor (lpos S) := {|
  c_first := l_first; c_last := l_last; c_seek := l_seek; c_prev := l_prev; c_next := l_next;
  c_kv := l_kv; c_fail := fun _ => None |}.

(* LazyCursor::new *)
Definition l_new : lpos S := LFirst.
End Lazy.
