(* Cursor/FConcat.v — sst/src/concat_cursor.rs over children whose calls may return Err.
   Definitions only.  Same statements as Concat.v.  What an error leaves behind: `reposition`
   calls seek_to_first on the OLD current cursor before assigning `self.position`, so an Err
   there leaves the old position; the binary search of seek leaves `position` on whichever child
   it was probing. *)
From Coq Require Import Arith List Bool.
From Blue Require Import Cursor.Iface Cursor.Concat Cursor.Fallible.
Import ListNotations.

Section FConcat.
Context {S : Type} (fc : fcursor S).
Local Notation c := (f_cur fc).
Local Notation e := (f_err fc).

(* self.cursors[self.position].f()   — (state, that call returned Err) *)
Definition fon_cur (f : S -> S) (st : kstate S) : kstate S * bool :=
  if k_pos st <? length (k_kids st) then
    let kids' := upd (k_kids st) (k_pos st) f in
    (mkK kids' (k_pos st) (k_fail st),
     match nth_error kids' (k_pos st) with Some s => e s | None => false end)
  else (k_set_fail st Panic, false).

(* r?; then k *)
Definition kseq (r : kstate S * bool) (k : kstate S -> kstate S * bool) : kstate S * bool :=
  let '(st, er) := r in if er then (st, true) else k st.

(* nothing more happens once the combinator itself has panicked (k_guard of Concat.v) *)
Definition fk_guard (f : kstate S -> kstate S * bool) (st : kstate S) : kstate S * bool :=
  match k_fail st with Some _ => (st, false) | None => f st end.

Definition freposition (idx : nat) (st : kstate S) : kstate S * bool :=
  match k_kids st with
  | [] => (k_set_fail st Panic, false)
  | _ =>
      if negb (k_pos st =? idx) then
        kseq (if k_pos st <? length (k_kids st) then fon_cur (c_first c) st else (st, false))
             (fun st => (mkK (k_kids st) idx (k_fail st), false))
      else (st, false)
  end.

Definition fk_first_raw (st : kstate S) : kstate S * bool :=
  kseq (freposition 0 st) (fk_guard (fon_cur (c_first c))).

Definition fk_last_raw (st : kstate S) : kstate S * bool :=
  match k_kids st with
  | [] => (k_set_fail st Panic, false)
  | _ => kseq (freposition (length (k_kids st) - 1) st) (fk_guard (fon_cur (c_last c)))
  end.

Definition fprobe (mid : nat) (st : kstate S) : kstate S * bool :=
  kseq (kseq (freposition mid st) (fk_guard (fon_cur (c_last c)))) (fk_guard (fon_cur (c_prev c))).

(* (mid, state, returned Err?) *)
Fixpoint fprobe_left (mid lft : nat) (st : kstate S) : nat * kstate S * bool :=
  match mid with
  | O => (O, st, false)
  | Datatypes.S m =>
      if (lft <? Datatypes.S m) && negb (cur_has_key c st)
      then let '(st', er) := fprobe m st in
           if er then (m, st', true) else fprobe_left m lft st'
      else (Datatypes.S m, st, false)
  end.

Fixpoint fbsearch (n : nat) (k : key) (lft rgt : nat) (st : kstate S) : nat * kstate S * bool :=
  if lft <? rgt then
    match n with
    | O => (lft, k_set_fail st OutOfFuel, false)
    | Datatypes.S n' =>
        let mid := Nat.div (lft + rgt) 2 in
        let '(st1, er1) := fprobe mid st in
        if er1 then (lft, st1, true) else
        let '(mid, st, er) := fprobe_left mid lft st1 in
        if er then (lft, st, true) else
        match cur_kv c st with
        | Some last =>
            if negb (kltb (ek last) k)
            then fbsearch n' k lft mid st
            else fbsearch n' k (mid + 1) rgt st
        | None => fbsearch n' k (mid + 1) rgt st
        end
    end
  else (lft, st, false).

Definition fk_seek_raw (k : key) (st : kstate S) : kstate S * bool :=
  match k_kids st with
  | [] => (k_set_fail st Panic, false)
  | _ =>
      let '(lft, st, er) := fbsearch (length (k_kids st)) k 0 (length (k_kids st) - 1) st in
      if er then (st, true) else
      kseq (fk_guard (freposition lft) st) (fk_guard (fon_cur (c_seek c k)))
  end.

Fixpoint fk_prev_loop (n : nat) (st : kstate S) : kstate S * bool :=
  match n with
  | O => (k_set_fail st OutOfFuel, false)
  | Datatypes.S n' =>
      kseq (fon_cur (c_prev c) st) (fk_guard (fun st =>
        if negb (cur_has_key c st) && (0 <? k_pos st)
        then kseq (kseq (freposition (k_pos st - 1) st) (fk_guard (fon_cur (c_last c)))) (fk_prev_loop n')
        else (st, false)))
  end.
Definition fk_prev_raw (st : kstate S) : kstate S * bool := fk_prev_loop (Datatypes.S (length (k_kids st))) st.

Fixpoint fk_next_loop (n : nat) (st : kstate S) : kstate S * bool :=
  match n with
  | O => (k_set_fail st OutOfFuel, false)
  | Datatypes.S n' =>
      kseq (fon_cur (c_next c) st) (fk_guard (fun st =>
        if negb (cur_has_key c st) && (k_pos st + 1 <? length (k_kids st))
        then kseq (kseq (freposition (k_pos st + 1) st) (fk_guard (fon_cur (c_first c)))) (fk_next_loop n')
        else (st, false)))
  end.
Definition fk_next_raw (st : kstate S) : kstate S * bool := fk_next_loop (Datatypes.S (length (k_kids st))) st.

Definition fconcat : fcursor (fs (kstate S)) := mkF {|
  c_first := fs_lift (fk_guard fk_first_raw);
  c_last := fs_lift (fk_guard fk_last_raw);
  c_seek := fun k => fs_lift (fk_guard (fk_seek_raw k));
  c_prev := fs_lift (fk_guard fk_prev_raw);
  c_next := fs_lift (fk_guard fk_next_raw);
  c_kv := fun x => k_kv c (fs_st x);
  c_fail := fun x => k_fail (fs_st x) |} fs_err.

Definition fk_new (kids : list S) : fs (kstate S) :=
  match kids with
  | [] => mkFs (mkK kids 0 (Some Panic)) false
  | _ => let '(st, er) := fon_cur (c_first c) (mkK kids 0 None) in mkFs st er
  end.
End FConcat.
