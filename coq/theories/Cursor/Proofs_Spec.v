(* Cursor/Proofs_Spec.v — facts about the specification lists: the sorted union is a sorted
   permutation of the children's entries exactly when their (key, timestamp) pairs are distinct;
   pruning's "visible" reads as the property text. *)
From Coq Require Import NArith ZArith List Bool Lia Permutation.
From Blue Require Import Cursor.Iface Cursor.Ref Cursor.Bounds Cursor.Pruning Cursor.Spec
  Cursor.Proofs_Order Cursor.Proofs_Ref.
Import ListNotations.

(* no two entries with the same (key, timestamp) *)
Inductive distinct : list entry -> Prop :=
| distinct_nil : distinct []
| distinct_cons : forall a l, Forall (fun b => ~ eeq a b) l -> distinct l -> distinct (a :: l).

Lemma insert_sorted_perm e l : Permutation (insert_sorted e l) (e :: l).
Proof.
  induction l as [|a l IH]; cbn; [reflexivity|]. destruct (eltb e a); [reflexivity|].
  etransitivity; [apply perm_skip; exact IH|apply perm_swap].
Qed.

Lemma insert_sorted_sorted e l : sorted l -> Forall (fun b => ~ eeq e b) l -> sorted (insert_sorted e l).
Proof.
  induction 1 as [|a l Hs IH Hf]; intros Hd; cbn.
  - constructor; constructor.
  - inversion Hd as [|? ? Hea Hd']; subst. destruct (eltb_spec e a) as [Hlt|Hnlt].
    + constructor; [constructor; assumption|]. constructor; [exact Hlt|].
      rewrite Forall_forall in *. intros x Hx. specialize (Hf x Hx). eorder.
    + constructor; [apply IH; exact Hd'|].
      assert (elt a e) as Hae by eorder.
      eapply Permutation_Forall; [symmetry; apply insert_sorted_perm|]. constructor; assumption.
Qed.

Lemma merge_spec_perm ls : Permutation (concat ls) (merge_spec ls).
Proof.
  unfold merge_spec. induction (concat ls) as [|e l IH]; cbn; [reflexivity|].
  etransitivity; [apply perm_skip; exact IH|symmetry; apply insert_sorted_perm].
Qed.

Lemma distinct_perm_forall e l l' : Permutation l l' -> Forall (fun b => ~ eeq e b) l -> Forall (fun b => ~ eeq e b) l'.
Proof. intros. eapply Permutation_Forall; eauto. Qed.

Lemma merge_spec_sorted ls : distinct (concat ls) -> sorted (merge_spec ls).
Proof.
  unfold merge_spec. induction 1 as [|e l Hf Hd IH]; cbn; [constructor|].
  apply insert_sorted_sorted; [exact IH|].
  eapply Permutation_Forall; [|exact Hf].
  clear. induction l as [|a l IH]; cbn; [reflexivity|].
  etransitivity; [apply perm_skip; exact IH|symmetry; apply insert_sorted_perm].
Qed.

(* a sorted list has distinct (key, timestamp) pairs, so the hypothesis is also necessary *)
Lemma sorted_distinct l : sorted l -> distinct l.
Proof.
  induction 1 as [|a l Hs IH Hf]; constructor; [|assumption].
  rewrite Forall_forall in *. intros b Hb Heq. specialize (Hf b Hb). eorder.
Qed.

(* pruning's visibility, as the property text says it *)
Lemma visible_spec t l e : visible t l e = true <->
  (ets e <= t)%N /\ ev e <> None /\
  forall e', In e' l -> ek e' = ek e -> (ets e' <= t)%N -> (ets e' <= ets e)%N.
Proof.
  unfold visible. rewrite !andb_true_iff, N.leb_le, forallb_forall, negb_true_iff. split.
  - intros [[Hle Hall] Hv]. split; [exact Hle|]. split; [destruct (ev e); [discriminate|discriminate Hv]|].
    intros e' Hin Hk Hle'. specialize (Hall e' Hin). rewrite negb_true_iff in Hall.
    unfold shadows in Hall. destruct (keqb_spec (ek e') (ek e)); [|contradiction].
    replace (N.leb (ets e') t) with true in Hall by (symmetry; apply N.leb_le; exact Hle'). cbn in Hall.
    apply N.ltb_ge in Hall. exact Hall.
  - intros [Hle [Hv Hall]]. split; [split; [exact Hle|]|destruct (ev e); [reflexivity|congruence]].
    intros e' Hin. rewrite negb_true_iff. unfold shadows.
    destruct (keqb_spec (ek e') (ek e)) as [Hk|]; [|reflexivity].
    destruct (N.leb_spec (ets e') t) as [Hle'|]; [|reflexivity]. cbn.
    apply N.ltb_ge. now apply Hall.
Qed.

(* boolean checkers, for concrete examples *)
Lemma sorted_of_bool l : (fix chk (l : list entry) : bool :=
    match l with [] => true | a :: r => forallb (eltb a) r && chk r end) l = true -> sorted l.
Proof.
  induction l as [|a r IH]; [constructor|]. intros H. apply andb_true_iff in H. destruct H as [H1 H2].
  constructor; [now apply IH|]. rewrite forallb_forall in H1. apply Forall_forall. intros x Hx.
  specialize (H1 x Hx). unfold eltb in H1. unfold elt. destruct (ecmp a x); congruence.
Qed.

Lemma distinct_of_bool l : (fix chk (l : list entry) : bool :=
    match l with [] => true | a :: r => forallb (fun b => match ecmp a b with Eq => false | _ => true end) r && chk r end) l = true ->
  distinct l.
Proof.
  induction l as [|a r IH]; [constructor|]. intros H. apply andb_true_iff in H. destruct H as [H1 H2].
  constructor; [|now apply IH]. rewrite forallb_forall in H1. apply Forall_forall. intros x Hx Heq.
  specialize (H1 x Hx). unfold eeq in Heq. rewrite Heq in H1. discriminate.
Qed.

