(* Cursor/Proofs_Order.v — [u8]::cmp on keys and KeyRef::cmp on entries are total orders;
   the `order` tactics for both; reflection of the boolean tests of the models. *)
From Coq Require Import NArith ZArith List Bool Lia Orders OrdersTac.
From Blue Require Import Cursor.Iface.
Import ListNotations.

(* ---------------------------------------------------------------- keys *)
Lemma kcmp_refl : forall a, kcmp a a = Eq.
Proof. induction a as [|x a IH]; cbn; [reflexivity|]. now rewrite N.compare_refl. Qed.

Lemma kcmp_eq : forall a b, kcmp a b = Eq -> a = b.
Proof.
  induction a as [|x a IH]; destruct b as [|y b]; cbn; try discriminate; [reflexivity|].
  destruct (N.compare x y) eqn:E; try discriminate.
  intros H. apply N.compare_eq in E. subst. f_equal. now apply IH.
Qed.

Lemma kcmp_antisym : forall a b, kcmp b a = CompOpp (kcmp a b).
Proof.
  induction a as [|x a IH]; destruct b as [|y b]; cbn; try reflexivity.
  rewrite (N.compare_antisym x y). destruct (N.compare x y); cbn; auto.
Qed.

Lemma kcmp_lt_trans : forall a b c, kcmp a b = Lt -> kcmp b c = Lt -> kcmp a c = Lt.
Proof.
  induction a as [|x a IH]; destruct b as [|y b]; destruct c as [|z c]; cbn; try discriminate; auto.
  destruct (N.compare x y) eqn:E1; destruct (N.compare y z) eqn:E2; try discriminate; intros H1 H2.
  - apply N.compare_eq in E1, E2. subst. rewrite N.compare_refl. eauto.
  - apply N.compare_eq in E1. subst. now rewrite E2.
  - apply N.compare_eq in E2. subst. now rewrite E1.
  - rewrite N.compare_lt_iff in *. assert (x < z)%N by lia. rewrite <- N.compare_lt_iff in H. now rewrite H.
Qed.

Definition klt (a b : key) : Prop := kcmp a b = Lt.
Definition kle (a b : key) : Prop := kcmp a b <> Gt.

Module KeyO <: EqLtLe.
  Definition t := key.
  Definition eq := @Logic.eq key.
  Definition lt := klt.
  Definition le := kle.
End KeyO.

Module KeyTO <: IsTotalOrder KeyO.
  Definition eq_equiv : Equivalence KeyO.eq := eq_equivalence.
  Lemma lt_strorder : StrictOrder KeyO.lt.
  Proof.
    split.
    - intros a H. unfold KeyO.lt, klt in H. rewrite kcmp_refl in H. discriminate.
    - intros a b c. apply kcmp_lt_trans.
  Qed.
  Lemma lt_compat : Proper (KeyO.eq ==> KeyO.eq ==> iff) KeyO.lt.
  Proof. intros a b -> c d ->. reflexivity. Qed.
  Lemma le_lteq : forall x y, KeyO.le x y <-> KeyO.lt x y \/ KeyO.eq x y.
  Proof.
    intros x y. unfold KeyO.le, KeyO.lt, KeyO.eq, kle, klt. destruct (kcmp x y) eqn:E.
    - apply kcmp_eq in E. split; [auto|discriminate].
    - split; [auto|discriminate].
    - split; [congruence|]. intros [H|H]; [discriminate|]. subst. rewrite kcmp_refl in E. discriminate.
  Qed.
  Lemma lt_total : forall x y, KeyO.lt x y \/ KeyO.eq x y \/ KeyO.lt y x.
  Proof.
    intros x y. unfold KeyO.lt, KeyO.eq, klt. destruct (kcmp x y) eqn:E.
    - right; left. now apply kcmp_eq.
    - now left.
    - right; right. rewrite kcmp_antisym, E. reflexivity.
  Qed.
End KeyTO.

Module KeyOrd := MakeOrderTac KeyO KeyTO.
Ltac korder := unfold KeyO.t, KeyO.eq, KeyO.lt, KeyO.le in *; KeyOrd.order.

(* reflection of the boolean tests *)
Lemma kltb_spec : forall a b, reflect (klt a b) (kltb a b).
Proof. intros a b. unfold kltb, klt. destruct (kcmp a b); constructor; congruence. Qed.
Lemma kleb_spec : forall a b, reflect (kle a b) (kleb a b).
Proof. intros a b. unfold kleb, kle. destruct (kcmp a b); constructor; congruence. Qed.
Lemma keqb_spec : forall a b, reflect (a = b) (keqb a b).
Proof.
  intros a b. unfold keqb. destruct (kcmp a b) eqn:E; constructor.
  - now apply kcmp_eq.
  - intros ->. rewrite kcmp_refl in E. discriminate.
  - intros ->. rewrite kcmp_refl in E. discriminate.
Qed.

(* destruct every key test in the goal/hypotheses into its Prop *)
Ltac kdestr :=
  repeat match goal with
  | |- context [kltb ?a ?b] => destruct (kltb_spec a b)
  | |- context [kleb ?a ?b] => destruct (kleb_spec a b)
  | |- context [keqb ?a ?b] => destruct (keqb_spec a b)
  | H : context [kltb ?a ?b] |- _ => destruct (kltb_spec a b)
  | H : context [kleb ?a ?b] |- _ => destruct (kleb_spec a b)
  | H : context [keqb ?a ?b] |- _ => destruct (keqb_spec a b)
  end.

(* ---------------------------------------------------------------- entries (KeyRef order) *)
Definition eeq (a b : entry) : Prop := ecmp a b = Eq.
Definition ele (a b : entry) : Prop := ecmp a b <> Gt.

Lemma ecmp_refl : forall a, ecmp a a = Eq.
Proof. intros a. unfold ecmp. now rewrite kcmp_refl, N.compare_refl. Qed.

Lemma ecmp_antisym : forall a b, ecmp b a = CompOpp (ecmp a b).
Proof.
  intros a b. unfold ecmp. rewrite (kcmp_antisym (ek a) (ek b)).
  destruct (kcmp (ek a) (ek b)); cbn; auto. now rewrite N.compare_antisym.
Qed.

Lemma ecmp_eq_iff : forall a b, ecmp a b = Eq <-> ek a = ek b /\ ets a = ets b.
Proof.
  intros a b. unfold ecmp. destruct (kcmp (ek a) (ek b)) eqn:E.
  - apply kcmp_eq in E. rewrite N.compare_eq_iff. intuition congruence.
  - split; [discriminate|]. intros [H _]. rewrite H, kcmp_refl in E. discriminate.
  - split; [discriminate|]. intros [H _]. rewrite H, kcmp_refl in E. discriminate.
Qed.

Lemma ecmp_lt_iff : forall a b, ecmp a b = Lt <-> klt (ek a) (ek b) \/ (ek a = ek b /\ (ets b < ets a)%N).
Proof.
  intros a b. unfold ecmp, klt. destruct (kcmp (ek a) (ek b)) eqn:E.
  - apply kcmp_eq in E. rewrite N.compare_lt_iff. intuition (try discriminate; auto).
  - intuition.
  - split; [discriminate|]. intros [H|[H _]]; [discriminate|]. rewrite H, kcmp_refl in E. discriminate.
Qed.

Lemma ecmp_lt_trans : forall a b c, ecmp a b = Lt -> ecmp b c = Lt -> ecmp a c = Lt.
Proof.
  intros a b c. rewrite !ecmp_lt_iff. intros [H1|[H1 T1]] [H2|[H2 T2]].
  - left. korder.
  - left. rewrite <- H2. exact H1.
  - left. rewrite H1. exact H2.
  - right. split; [congruence|lia].
Qed.

Module EntO <: EqLtLe.
  Definition t := entry.
  Definition eq := eeq.
  Definition lt := elt.
  Definition le := ele.
End EntO.

Module EntTO <: IsTotalOrder EntO.
  Lemma eq_equiv : Equivalence EntO.eq.
  Proof.
    split.
    - intros a. apply ecmp_refl.
    - intros a b H. unfold EntO.eq, eeq in *. rewrite ecmp_antisym, H. reflexivity.
    - intros a b c. unfold EntO.eq, eeq. rewrite !ecmp_eq_iff. intuition congruence.
  Qed.
  Lemma lt_strorder : StrictOrder EntO.lt.
  Proof.
    split.
    - intros a H. unfold EntO.lt, elt in H. rewrite ecmp_refl in H. discriminate.
    - intros a b c. apply ecmp_lt_trans.
  Qed.
  Lemma lt_compat : Proper (EntO.eq ==> EntO.eq ==> iff) EntO.lt.
  Proof.
    intros a b H1 c d H2. unfold EntO.eq, EntO.lt, eeq, elt in *.
    rewrite ecmp_eq_iff in H1, H2. rewrite !ecmp_lt_iff.
    destruct H1 as [K1 T1], H2 as [K2 T2]. rewrite K1, K2, T1, T2. reflexivity.
  Qed.
  Lemma le_lteq : forall x y, EntO.le x y <-> EntO.lt x y \/ EntO.eq x y.
  Proof.
    intros x y. unfold EntO.le, EntO.lt, EntO.eq, ele, elt, eeq.
    destruct (ecmp x y); intuition (try discriminate; congruence).
  Qed.
  Lemma lt_total : forall x y, EntO.lt x y \/ EntO.eq x y \/ EntO.lt y x.
  Proof.
    intros x y. unfold EntO.lt, EntO.eq, elt, eeq. destruct (ecmp x y) eqn:E; auto.
    right; right. rewrite ecmp_antisym, E. reflexivity.
  Qed.
End EntTO.

Module EntOrd := MakeOrderTac EntO EntTO.
Ltac eorder := unfold EntO.t, EntO.eq, EntO.lt, EntO.le in *; EntOrd.order.

Lemma eltb_spec : forall a b, reflect (elt a b) (eltb a b).
Proof. intros a b. unfold eltb, elt. destruct (ecmp a b); constructor; congruence. Qed.

(* the KeyRef order refines the key order *)
Lemma elt_kle : forall a b, elt a b -> kle (ek a) (ek b).
Proof. intros a b H. apply ecmp_lt_iff in H. destruct H as [H|[H _]]; korder. Qed.
Lemma klt_elt : forall a b, klt (ek a) (ek b) -> elt a b.
Proof. intros a b H. apply ecmp_lt_iff. now left. Qed.
Lemma elt_same_key : forall a b, ek a = ek b -> (elt a b <-> (ets b < ets a)%N).
Proof.
  intros a b K. unfold elt. rewrite ecmp_lt_iff. split.
  - intros [H|[_ H]]; [|exact H]. rewrite K in H. korder.
  - auto.
Qed.
