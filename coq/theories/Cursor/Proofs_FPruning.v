(* Cursor/Proofs_FPruning.v — PruningCursor over a fallible child: twin of Pruning.v's model. *)
From Coq Require Import NArith ZArith List Bool Lia.
From Blue Require Import Cursor.Iface Cursor.Ref Cursor.Pruning Cursor.Fallible Cursor.FPruning
  Cursor.Proofs_Ref Cursor.Proofs_Fallible.
Import ListNotations.

Section FPruningTwin.
Context {S Sq : Type} (fc : fcursor S) (cq : cursor Sq) (q : S -> Sq) (m : S -> nat).
Hypothesis Htw : twin fc cq q m.
Context (fuel : nat) (t : N).
Local Notation c := (f_cur fc).
Local Notation e := (f_err fc).

Definition pmap (st : pstate S) : pstate Sq := mkP (q (p_cur st)) (p_skip st) (p_fail st).
Definition qp (x : fs (pstate S)) : pstate Sq := pmap (fs_st x).
Definition mp (x : fs (pstate S)) : nat := m (p_cur (fs_st x)).

Definition pagrees (f : pstate S -> pstate S * bool) (g : pstate Sq -> pstate Sq) : Prop :=
  forall st, (snd (f st) = false -> pmap (fst (f st)) = g (pmap st)) /\
             (m (p_cur (fst (f st))) + b2n (snd (f st)) = m (p_cur st))%nat.

Lemma pkv_q s : c_kv c s = c_kv cq (q s).
Proof. apply (tw_kv _ _ _ _ Htw). Qed.
Lemma phas_key_q s : has_key c s = has_key cq (q s).
Proof. unfold has_key. now rewrite pkv_q. Qed.
Lemma skip_q s : set_skip_key c s = set_skip_key cq (q s).
Proof. unfold set_skip_key. now rewrite pkv_q. Qed.

(* one child call: err, or the twin's call and no failure consumed *)
Lemma call o s : (e (step c o s) = true /\ (m (step c o s) + 1 = m s)%nat) \/
                 (e (step c o s) = false /\ q (step c o s) = step cq o (q s) /\ m (step c o s) = m s).
Proof.
  destruct (tw_step _ _ _ _ Htw o s) as [Hq Hm]. destruct (e (step c o s)); cbn [b2n] in Hm.
  - left. split; [reflexivity|exact Hm].
  - right. split; [reflexivity|]. split; [now apply Hq|lia].
Qed.

Lemma first_pagrees : pagrees (fp_first_raw fc) (p_first_raw cq).
Proof.
  intros st. unfold fp_first_raw, p_first_raw. cbv zeta. unfold pmap. cbn [fst snd p_cur p_skip p_fail].
  destruct (call OFirst (p_cur st)) as [[E Hm]|[E [Hq Hm]]]; cbn [step] in *; rewrite E; cbn [b2n].
  - split; [discriminate|exact Hm].
  - split; [intros _; unfold pmap; cbn [p_cur p_skip p_fail]; now rewrite Hq|lia].
Qed.
Lemma last_pagrees : pagrees (fp_last_raw fc) (p_last_raw cq).
Proof.
  intros st. unfold fp_last_raw, p_last_raw. cbv zeta. unfold pmap. cbn [fst snd p_cur p_skip p_fail].
  destruct (call OLast (p_cur st)) as [[E Hm]|[E [Hq Hm]]]; cbn [step] in *; rewrite E; cbn [b2n].
  - split; [discriminate|exact Hm].
  - split; [intros _; unfold pmap; cbn [p_cur p_skip p_fail]; now rewrite Hq|lia].
Qed.

Lemma seek_loop_pagrees : forall n, pagrees (fp_seek_loop fc t n) (p_seek_loop cq t n).
Proof.
  induction n as [|n IH]; intros st; unfold pmap; cbn [fp_seek_loop p_seek_loop p_cur p_skip p_fail];
    rewrite <- pkv_q; (destruct (c_kv c (p_cur st)) as [en|]; [|cbn [fst snd b2n]; split; [reflexivity|lia]]);
    (destruct (N.leb (ets en) t && is_none (ev en));
     [|destruct (N.leb (ets en) t && skip_differs (p_skip st) (ek en));
       [unfold pmap; cbn [fst snd b2n p_cur p_skip p_fail]; split; [intros _; now rewrite skip_q|lia]|]]);
    try (cbn [fst snd b2n p_set_fail p_cur]; split; [reflexivity|lia]).
  - rewrite <- skip_q. destruct (call ONext (p_cur st)) as [[E Hm]|[E [Hq Hm]]]; cbn [step] in *; rewrite E.
    + cbn [fst snd b2n p_cur]. split; [discriminate|exact Hm].
    + destruct (IH (mkP (c_next c (p_cur st)) (set_skip_key c (p_cur st)) (p_fail st))) as [H1 H2].
      unfold pmap in H1, H2; cbn [p_cur p_skip p_fail] in H1, H2. rewrite Hq in H1. split; [exact H1|lia].
  - destruct (call ONext (p_cur st)) as [[E Hm]|[E [Hq Hm]]]; cbn [step] in *; rewrite E.
    + cbn [fst snd b2n p_cur]. split; [discriminate|exact Hm].
    + destruct (IH (mkP (c_next c (p_cur st)) (p_skip st) (p_fail st))) as [H1 H2].
      unfold pmap in H1, H2; cbn [p_cur p_skip p_fail] in H1, H2. rewrite Hq in H1. split; [exact H1|lia].
Qed.

Lemma seek_pagrees k : pagrees (fp_seek_raw fc fuel t k) (p_seek_raw cq fuel t k).
Proof.
  intros st. unfold fp_seek_raw, p_seek_raw, pmap. cbn [p_cur p_skip p_fail].
  destruct (call (OSeek k) (p_cur st)) as [[E Hm]|[E [Hq Hm]]]; cbn [step] in *; rewrite E.
  - cbn [fst snd b2n p_cur]. split; [discriminate|exact Hm].
  - destruct (seek_loop_pagrees fuel (mkP (c_seek c k (p_cur st)) None (p_fail st))) as [H1 H2].
    unfold pmap in H1, H2; cbn [p_cur p_skip p_fail] in H1, H2. rewrite Hq in H1. split; [exact H1|lia].
Qed.

Lemma next_loop_pagrees : forall n, pagrees (fp_next_loop fc t n) (p_next_loop cq t n).
Proof.
  induction n as [|n IH]; intros st; unfold pmap; cbn [fp_next_loop p_next_loop p_cur p_skip p_fail].
  - cbn [fst snd b2n p_set_fail p_cur]. split; [reflexivity|lia].
  - destruct (call ONext (p_cur st)) as [[E Hm]|[E [Hq Hm]]]; cbn [step] in *; rewrite E.
    + cbn [fst snd b2n p_cur]. split; [discriminate|exact Hm].
    + rewrite <- Hq, <- pkv_q. destruct (c_kv c (c_next c (p_cur st))) as [en|].
      * destruct (N.leb (ets en) t && is_none (ev en)).
        -- rewrite <- skip_q. destruct (IH (mkP (c_next c (p_cur st)) (set_skip_key c (c_next c (p_cur st))) (p_fail st))) as [H1 H2].
           unfold pmap in H1, H2; cbn [p_cur p_skip p_fail] in H1, H2. split; [exact H1|lia].
        -- destruct (N.leb (ets en) t && skip_differs (p_skip st) (ek en)).
           ++ unfold pmap; cbn [fst snd b2n p_cur p_skip p_fail]. split; [intros _; now rewrite skip_q|lia].
           ++ destruct (IH (mkP (c_next c (p_cur st)) (p_skip st) (p_fail st))) as [H1 H2].
              unfold pmap in H1, H2; cbn [p_cur p_skip p_fail] in H1, H2. split; [exact H1|lia].
      * unfold pmap; cbn [fst snd b2n p_cur p_skip p_fail]. split; [reflexivity|lia].
Qed.

(* the inner loops of prev *)
Lemma prev_skip_agrees : forall n cur sk,
  match fprev_skip_loop fc n cur sk with
  | FRet (cur', sk') => prev_skip_loop cq n (q cur) sk = Ret (q cur', sk') /\ m cur' = m cur
  | FGo (cur', sk') => prev_skip_loop cq n (q cur) sk = Go (q cur', sk') /\ m cur' = m cur
  | FFuel => prev_skip_loop cq n (q cur) sk = Fuel
  | FErrAt (cur', _) => (m cur' + 1 = m cur)%nat
  end.
Proof.
  induction n as [|n IH]; intros cur sk; cbn [fprev_skip_loop prev_skip_loop];
    (destruct sk as [s|]; [|split; reflexivity]); rewrite <- pkv_q;
    (destruct (c_kv c cur) as [en|]; [|split; reflexivity]);
    (destruct (negb (keqb s (ek en))); [split; reflexivity|]); [reflexivity|].
  destruct (call OPrev cur) as [[E Hm]|[E [Hq Hm]]]; cbn [step] in *; rewrite E; [exact Hm|].
  rewrite <- Hq. specialize (IH (c_prev c cur) (Some s)).
  destruct (fprev_skip_loop fc n (c_prev c cur) (Some s)) as [[cur' sk']|[cur' sk']| |[cur' sk']]; try exact IH.
  - destruct IH as [H1 H2]. split; [exact H1|lia].
  - destruct IH as [H1 H2]. split; [exact H1|lia].
  - lia.
Qed.

Lemma prev_back_agrees : forall n target cur,
  match fprev_back_loop fc t n target cur with
  | None => prev_back_loop cq t n target (q cur) = None
  | Some (cur', true) => (m cur' + 1 = m cur)%nat
  | Some (cur', false) => prev_back_loop cq t n target (q cur) = Some (q cur') /\ m cur' = m cur
  end.
Proof.
  induction n as [|n IH]; intros target cur; cbn [fprev_back_loop prev_back_loop]; [reflexivity|].
  destruct (call OPrev cur) as [[E Hm]|[E [Hq Hm]]]; cbn [step] in *; rewrite E; [exact Hm|].
  rewrite <- Hq, <- pkv_q. destruct (c_kv c (c_prev c cur)) as [en|]; [|split; [reflexivity|exact Hm]].
  destruct (N.ltb t (ets en) || negb (keqb (ek en) target)); [split; [reflexivity|exact Hm]|].
  specialize (IH target (c_prev c cur)).
  destruct (fprev_back_loop fc t n target (c_prev c cur)) as [[cur' [|]]|]; try exact IH; [lia|].
  destruct IH as [H1 H2]. split; [exact H1|lia].
Qed.

Lemma prev_fwd_agrees : forall n target cur,
  match fprev_fwd_loop fc t n target cur with
  | None => prev_fwd_loop cq t n target (q cur) = None
  | Some (cur', true) => (m cur' + 1 = m cur)%nat
  | Some (cur', false) => prev_fwd_loop cq t n target (q cur) = Some (q cur') /\ m cur' = m cur
  end.
Proof.
  induction n as [|n IH]; intros target cur; cbn [fprev_fwd_loop prev_fwd_loop]; rewrite <- pkv_q;
    (destruct (c_kv c cur) as [en|]; [|split; reflexivity]);
    (destruct (N.leb (ets en) t && keqb (ek en) target); [split; reflexivity|]); [reflexivity|].
  destruct (call ONext cur) as [[E Hm]|[E [Hq Hm]]]; cbn [step] in *; rewrite E; [exact Hm|].
  rewrite <- Hq. specialize (IH target (c_next c cur)).
  destruct (fprev_fwd_loop fc t n target (c_next c cur)) as [[cur' [|]]|]; try exact IH; [lia|].
  destruct IH as [H1 H2]. split; [exact H1|lia].
Qed.

Lemma prev_loop_pagrees : forall n, pagrees (fp_prev_loop fc fuel t n) (p_prev_loop cq fuel t n).
Proof.
  induction n as [|n IH]; intros st; cbn [fp_prev_loop p_prev_loop]; change (pmap st) with (mkP (q (p_cur st)) (p_skip st) (p_fail st)); cbn [p_cur p_skip p_fail].
  - cbn [fst snd b2n p_set_fail p_cur]. split; [reflexivity|lia].
  - destruct (call OPrev (p_cur st)) as [[E Hm]|[E [Hq Hm]]]; cbn [step] in *; rewrite E.
    + cbn [fst snd b2n p_cur]. split; [discriminate|exact Hm].
    + rewrite <- Hq. pose proof (prev_skip_agrees fuel (c_prev c (p_cur st)) (p_skip st)) as Hs.
      destruct (fprev_skip_loop fc fuel (c_prev c (p_cur st)) (p_skip st)) as [[cur sk]|[cur sk]| |[cur sk]].
      * destruct Hs as [-> Hm1]. cbn [fst snd b2n p_cur]. split; [reflexivity|lia].
      * destruct Hs as [-> Hm1]. rewrite <- pkv_q. destruct (c_kv c cur) as [en|];
          [|cbn [fst snd b2n p_cur]; split; [reflexivity|lia]].
        destruct (N.ltb t (ets en)).
        { rewrite <- skip_q. destruct (IH (mkP cur (set_skip_key c cur) (p_fail st))) as [H1 H2].
          unfold pmap in H1; cbn [p_cur p_skip p_fail] in H1, H2. split; [exact H1|lia]. }
        pose proof (prev_back_agrees fuel (ek en) cur) as Hb.
        destruct (fprev_back_loop fc t fuel (ek en) cur) as [[cur2 [|]]|].
        -- cbn [fst snd b2n p_cur]. split; [discriminate|lia].
        -- destruct Hb as [-> Hm2]. rewrite <- phas_key_q.
           assert (exists cur3, (if has_key c cur2 then cur2 else c_next c cur2) = cur3) as [cur3 E3] by eauto.
           destruct (has_key c cur2) eqn:Hk2; cbn [negb andb].
           ++ subst cur3. pose proof (prev_fwd_agrees fuel (ek en) cur2) as Hf.
              destruct (fprev_fwd_loop fc t fuel (ek en) cur2) as [[cur4 [|]]|].
              ** cbn [fst snd b2n p_cur]. split; [discriminate|lia].
              ** destruct Hf as [-> Hm4]. rewrite <- pkv_q. destruct (c_kv c cur4) as [e'|];
                   [|cbn [fst snd b2n p_set_fail p_cur]; split; [reflexivity|lia]].
                 destruct (negb (N.leb (ets e') t && keqb (ek e') (ek en)));
                   [cbn [fst snd b2n p_set_fail p_cur]; split; [reflexivity|lia]|].
                 rewrite <- skip_q. destruct (ev e').
                 --- cbn [fst snd b2n p_cur]. split; [reflexivity|lia].
                 --- destruct (IH (mkP cur4 (set_skip_key c cur4) (p_fail st))) as [H1 H2].
                     unfold pmap in H1; cbn [p_cur p_skip p_fail] in H1, H2. split; [exact H1|lia].
              ** rewrite Hf. cbn [fst snd b2n p_set_fail p_cur]. split; [reflexivity|lia].
           ++ destruct (call ONext cur2) as [[E2 Hm3]|[E2 [Hq3 Hm3]]]; cbn [step] in *; rewrite E2.
              ** cbn [fst snd b2n p_cur]. split; [discriminate|lia].
              ** rewrite <- Hq3. pose proof (prev_fwd_agrees fuel (ek en) (c_next c cur2)) as Hf.
                 destruct (fprev_fwd_loop fc t fuel (ek en) (c_next c cur2)) as [[cur4 [|]]|].
                 --- cbn [fst snd b2n p_cur]. split; [discriminate|lia].
                 --- destruct Hf as [-> Hm4]. rewrite <- pkv_q. destruct (c_kv c cur4) as [e'|];
                       [|cbn [fst snd b2n p_set_fail p_cur]; split; [reflexivity|lia]].
                     destruct (negb (N.leb (ets e') t && keqb (ek e') (ek en)));
                       [cbn [fst snd b2n p_set_fail p_cur]; split; [reflexivity|lia]|].
                     rewrite <- skip_q. destruct (ev e').
                     +++ cbn [fst snd b2n p_cur]. split; [reflexivity|lia].
                     +++ destruct (IH (mkP cur4 (set_skip_key c cur4) (p_fail st))) as [H1 H2].
                         unfold pmap in H1; cbn [p_cur p_skip p_fail] in H1, H2. split; [exact H1|lia].
                 --- rewrite Hf. cbn [fst snd b2n p_set_fail p_cur]. split; [reflexivity|lia].
        -- rewrite Hb. cbn [fst snd b2n p_set_fail p_cur]. split; [reflexivity|lia].
      * rewrite Hs. cbn [fst snd b2n p_set_fail p_cur]. split; [reflexivity|lia].
      * cbn [fst snd b2n p_cur]. split; [discriminate|lia].
Qed.

Lemma prev_pagrees : pagrees (fp_prev_raw fc fuel t) (p_prev_raw cq fuel t).
Proof.
  intros st. unfold fp_prev_raw, p_prev_raw. change (pmap st) with (mkP (q (p_cur st)) (p_skip st) (p_fail st)). cbn [p_cur p_skip p_fail].
  rewrite <- phas_key_q. destruct (has_key c (p_cur st)).
  - apply prev_loop_pagrees.
  - destruct (prev_loop_pagrees fuel (mkP (p_cur st) None (p_fail st))) as [H1 H2].
    change (pmap (mkP (p_cur st) None (p_fail st))) with (mkP (q (p_cur st)) None (p_fail st)) in H1. cbn [p_cur p_skip p_fail] in H1, H2. split; [exact H1|exact H2].
Qed.

Lemma pguard_agrees f g : pagrees f g -> pagrees (fp_guard f) (p_guard g).
Proof.
  intros H st. unfold fp_guard, p_guard. change (p_fail (pmap st)) with (p_fail st). destruct (p_fail st).
  - cbn [fst snd b2n]. split; [reflexivity|lia].
  - apply H.
Qed.

Theorem fpruning_twin : twin (fpruning fc fuel t) (pruning cq fuel t) qp mp.
Proof.
  constructor.
  - intros x. cbn. apply pkv_q.
  - reflexivity.
  - intros o [st er]. unfold qp, mp.
    assert (forall f g, pagrees f g ->
              (fs_err (fs_lift f (mkFs st er)) = false -> pmap (fs_st (fs_lift f (mkFs st er))) = g (pmap st)) /\
              (m (p_cur (fs_st (fs_lift f (mkFs st er)))) + b2n (fs_err (fs_lift f (mkFs st er))) = m (p_cur st))%nat) as Hl.
    { intros f g H. unfold fs_lift. cbn [fs_st]. destruct (H st) as [H1 H2]. destruct (f st) as [st' er']. exact (conj H1 H2). }
    destruct o; cbn [step fpruning pruning f_cur f_err c_first c_last c_seek c_prev c_next fs_st].
    + apply Hl, pguard_agrees, first_pagrees.
    + apply Hl, pguard_agrees, last_pagrees.
    + apply Hl, pguard_agrees, seek_pagrees.
    + apply Hl, pguard_agrees, prev_pagrees.
    + apply Hl, pguard_agrees. exact (next_loop_pagrees fuel).
Qed.
End FPruningTwin.

(* ---- the child only ever moves by its own calls (used for recovery after an Err) *)
Section FPruningInv.
Context {S : Type} (fc : fcursor S) (fuel : nat) (t : N).
Local Notation c := (f_cur fc).
Variable P : S -> Prop.
Hypothesis HP : forall o s, P s -> P (step c o s).

Lemma Q1 s : P s -> P (c_first c s). Proof. apply (HP OFirst). Qed.
Lemma Q2 s : P s -> P (c_last c s). Proof. apply (HP OLast). Qed.
Lemma Q3 k s : P s -> P (c_seek c k s). Proof. apply (HP (OSeek k)). Qed.
Lemma Q4 s : P s -> P (c_prev c s). Proof. apply (HP OPrev). Qed.
Lemma Q5 s : P s -> P (c_next c s). Proof. apply (HP ONext). Qed.

Definition ppinv (f : pstate S -> pstate S * bool) : Prop := forall st, P (p_cur st) -> P (p_cur (fst (f st))).

Lemma seek_loop_ppinv : forall n, ppinv (fp_seek_loop fc t n).
Proof.
  induction n as [|n IH]; intros st H; cbn [fp_seek_loop]; destruct (c_kv c (p_cur st)); cbn [fst]; auto;
    repeat match goal with |- context [if ?b then _ else _] => destruct b end; cbn [fst p_cur p_set_fail]; auto using Q5;
    apply IH; cbn [p_cur]; auto using Q5.
Qed.

Lemma next_loop_ppinv : forall n, ppinv (fp_next_loop fc t n).
Proof.
  induction n as [|n IH]; intros st H; cbn [fp_next_loop]; [cbn; exact H|].
  destruct (f_err fc (c_next c (p_cur st))); [cbn; auto using Q5|].
  destruct (c_kv c (c_next c (p_cur st))); [|cbn; auto using Q5].
  repeat match goal with |- context [if ?b then _ else _] => destruct b end; cbn [fst p_cur]; auto using Q5;
    apply IH; cbn [p_cur]; auto using Q5.
Qed.

Lemma prev_skip_ppinv : forall n cur sk, P cur ->
  match fprev_skip_loop fc n cur sk with
  | FRet (cur', _) | FGo (cur', _) | FErrAt (cur', _) => P cur'
  | FFuel => True
  end.
Proof.
  induction n as [|n IH]; intros cur sk H; cbn [fprev_skip_loop]; destruct sk; auto; destruct (c_kv c cur); auto;
    match goal with |- context [if ?b then _ else _] => destruct b end; auto.
  destruct (f_err fc (c_prev c cur)); [auto using Q4|]. apply IH. auto using Q4.
Qed.

Lemma prev_back_ppinv : forall n tg cur, P cur ->
  match fprev_back_loop fc t n tg cur with Some (cur', _) => P cur' | None => True end.
Proof.
  induction n as [|n IH]; intros tg cur H; cbn [fprev_back_loop]; auto.
  destruct (f_err fc (c_prev c cur)); [auto using Q4|]. destruct (c_kv c (c_prev c cur)); [|auto using Q4].
  match goal with |- context [if ?b then _ else _] => destruct b end; [auto using Q4|]. apply IH. auto using Q4.
Qed.

Lemma prev_fwd_ppinv : forall n tg cur, P cur ->
  match fprev_fwd_loop fc t n tg cur with Some (cur', _) => P cur' | None => True end.
Proof.
  induction n as [|n IH]; intros tg cur H; cbn [fprev_fwd_loop]; destruct (c_kv c cur); auto;
    match goal with |- context [if ?b then _ else _] => destruct b end; auto.
  destruct (f_err fc (c_next c cur)); [auto using Q5|]. apply IH. auto using Q5.
Qed.

Lemma prev_loop_ppinv : forall n, ppinv (fp_prev_loop fc fuel t n).
Proof.
  induction n as [|n IH]; intros st H; cbn [fp_prev_loop]; [cbn; exact H|].
  destruct (f_err fc (c_prev c (p_cur st))); [cbn; auto using Q4|].
  pose proof (prev_skip_ppinv fuel (c_prev c (p_cur st)) (p_skip st) (Q4 _ H)) as Hs.
  destruct (fprev_skip_loop fc fuel (c_prev c (p_cur st)) (p_skip st)) as [[cur sk]|[cur sk]| |[cur sk]]; cbn [fst p_cur p_set_fail]; auto.
  destruct (c_kv c cur) as [en|]; [|cbn; auto].
  destruct (N.ltb t (ets en)); [apply IH; cbn; auto|].
  pose proof (prev_back_ppinv fuel (ek en) cur Hs) as Hb.
  destruct (fprev_back_loop fc t fuel (ek en) cur) as [[cur2 [|]]|]; cbn [fst p_cur p_set_fail]; auto.
  assert (P (if has_key c cur2 then cur2 else c_next c cur2)) as H3 by (destruct (has_key c cur2); auto using Q5).
  match goal with |- context [if ?b then _ else _] => destruct b end; [cbn; exact H3|].
  pose proof (prev_fwd_ppinv fuel (ek en) _ H3) as Hf.
  destruct (fprev_fwd_loop fc t fuel (ek en) (if has_key c cur2 then cur2 else c_next c cur2)) as [[cur4 [|]]|]; cbn [fst p_cur p_set_fail]; auto.
  destruct (c_kv c cur4) as [e'|]; [|cbn; auto].
  match goal with |- context [if ?b then _ else _] => destruct b end; [cbn; auto|].
  destruct (ev e'); [cbn; auto|]. apply IH. cbn. auto.
Qed.

Theorem fpruning_inv o x : P (p_cur (fs_st x)) -> P (p_cur (fs_st (step (f_cur (fpruning fc fuel t)) o x))).
Proof.
  intros H. destruct x as [st er]. cbn [fs_st] in H.
  assert (forall f, ppinv f -> P (p_cur (fs_st (fs_lift (fp_guard f) (mkFs st er))))) as Hl.
  { intros f Hf. unfold fs_lift, fp_guard. cbn [fs_st]. destruct (p_fail st); [exact H|].
    specialize (Hf st H). destruct (f st). exact Hf. }
  destruct o; cbn [step fpruning f_cur c_first c_last c_seek c_prev c_next]; apply Hl.
  - intros st0 H0. cbn. auto using Q1.
  - intros st0 H0. cbn. auto using Q2.
  - intros st0 H0. unfold fp_seek_raw. destruct (f_err fc (c_seek c k (p_cur st0))); [cbn; auto using Q3|].
    apply seek_loop_ppinv. cbn. auto using Q3.
  - intros st0 H0. unfold fp_prev_raw. apply prev_loop_ppinv. destruct (has_key c (p_cur st0)); exact H0.
  - apply next_loop_ppinv.
Qed.
End FPruningInv.
