(* Cursor/Proofs_Compose.v — the five refinement theorems compose: every well-formed nesting of
   the combinators behaves as the reference cursor over the composed specification. *)
From Coq Require Import NArith ZArith Arith List Bool Lia Permutation.
From Blue Require Import Cursor.Iface Cursor.Ref Cursor.Lazy Cursor.Bounds Cursor.Pruning
  Cursor.Concat Cursor.Merging Cursor.Spec Cursor.Compose
  Cursor.Proofs_Order Cursor.Proofs_Ref Cursor.Proofs_Lazy Cursor.Proofs_Bounds Cursor.Proofs_Concat
  Cursor.Proofs_Pruning Cursor.Proofs_Merging Cursor.Proofs_Spec.
Import ListNotations.
Local Open Scope Z_scope.

(* the preconditions of the combinators, at every node *)
Fixpoint wf (e : expr) : Prop :=
  match e with
  | ETable l => sorted l
  | ELazy l => sorted l
  | EMerge es =>
      (fix all (es : list expr) : Prop := match es with [] => True | x :: r => wf x /\ all r end) es /\
      distinct (concat (map spec_of es))
  | EConcat es =>
      (fix all (es : list expr) : Prop := match es with [] => True | x :: r => wf x /\ all r end) es /\
      es <> [] /\ sorted (concat (map spec_of es))
  | EBounds _ _ e => wf e
  | EPrune _ e => wf e
  end.

Lemma wf_all_Forall es :
  (fix all (es : list expr) : Prop := match es with [] => True | x :: r => wf x /\ all r end) es <-> Forall wf es.
Proof.
  induction es as [|x r IH]; [split; [constructor|auto]|]. split.
  - intros [H1 H2]. constructor; [exact H1|now apply IH].
  - intros H. inversion H; subst. split; [assumption|now apply IH].
Qed.

Section ExprInd.
Variable P : expr -> Prop.
Hypothesis HT : forall l, P (ETable l).
Hypothesis HLz : forall l, P (ELazy l).
Hypothesis HM : forall es, Forall P es -> P (EMerge es).
Hypothesis HC : forall es, Forall P es -> P (EConcat es).
Hypothesis HB : forall lo hi e, P e -> P (EBounds lo hi e).
Hypothesis HP : forall t e, P e -> P (EPrune t e).
Fixpoint expr_ind' (e : expr) : P e :=
  match e with
  | ETable l => HT l
  | ELazy l => HLz l
  | EMerge es => HM es ((fix go (es : list expr) : Forall P es :=
                           match es with [] => Forall_nil P | x :: r => Forall_cons x (expr_ind' x) (go r) end) es)
  | EConcat es => HC es ((fix go (es : list expr) : Forall P es :=
                           match es with [] => Forall_nil P | x :: r => Forall_cons x (expr_ind' x) (go r) end) es)
  | EBounds lo hi e => HB lo hi e (expr_ind' e)
  | EPrune t e => HP t e (expr_ind' e)
  end.
End ExprInd.

(* ---- the specification of a well-formed expression is strictly sorted and not longer than
        the expression's tables *)
Lemma spec_sorted e : wf e -> sorted (spec_of e).
Proof.
  induction e using expr_ind'; cbn [wf spec_of]; intros Hw.
  - exact Hw.
  - exact Hw.
  - destruct Hw as [_ Hd]. now apply merge_spec_sorted.
  - destruct Hw as [_ [_ Hs]]. exact Hs.
  - apply sorted_filter. auto.
  - apply sorted_filter. auto.
Qed.

Lemma length_filter_le {A} (f : A -> bool) l : (length (filter f l) <= length l)%nat.
Proof. induction l as [|a l IH]; cbn; [lia|]. destruct (f a); cbn; lia. Qed.

Lemma spec_size e : (length (spec_of e) <= size e)%nat.
Proof.
  induction e as [l|l|es IH|es IH|lo hi e IH|t e IH] using expr_ind'; cbn [spec_of size].
  - lia.
  - unfold lazy_spec. lia.
  - rewrite <- (Permutation_length (merge_spec_perm (map spec_of es))).
    induction IH as [|x r Hx Hr IHr]; cbn; [lia|]. rewrite app_length. lia.
  - unfold concat_spec. induction IH as [|x r Hx Hr IHr]; cbn; [lia|]. rewrite app_length. lia.
  - unfold bounds_spec. pose proof (length_filter_le (in_bounds lo hi) (spec_of e)). lia.
  - unfold prune_spec. pose proof (length_filter_le (visible t (spec_of e)) (spec_of e)). lia.
Qed.

(* ---- wrapping a combinator's state into the universal state preserves refinement *)
Ltac wrap_tac U comb :=
  let H := fresh in intros H;
  eapply (sim_refines _ _ (fun u i => exists s, u = U s /\ refines comb s _ i));
  [constructor;
   [ intros u j [s0 [-> Hr]]; eapply refines_range; eauto
   | intros u j [s0 [-> Hr]]; exact (refines_kv comb s0 _ j Hr)
   | intros u j [s0 [-> Hr]]; exact (refines_fail comb s0 _ j Hr)
   | intros o u j [s0 [-> Hr]]; eexists; split; [destruct o; reflexivity|]; apply refines_step; exact Hr ]
  | eexists; split; [reflexivity|exact H] ].

Lemma wrap_UT child s l i : refines tcur s l i -> refines (ucur1 child) (UT s) l i.
Proof. wrap_tac UT tcur. Qed.
Lemma wrap_UL child mk s l i : refines (lazy tcur mk) s l i -> refines (ucur1 child) (UL mk s) l i.
Proof. wrap_tac (UL mk) (lazy tcur mk). Qed.
Lemma wrap_UM child s l i : refines (merging child) s l i -> refines (ucur1 child) (UM s) l i.
Proof. wrap_tac UM (merging child). Qed.
Lemma wrap_UC child s l i : refines (concat_cursor child) s l i -> refines (ucur1 child) (UC s) l i.
Proof. wrap_tac UC (concat_cursor child). Qed.
Lemma wrap_UB child f lo hi s l i : refines (bounds child f lo hi) s l i -> refines (ucur1 child) (UB f lo hi s) l i.
Proof. wrap_tac (UB f lo hi) (bounds child f lo hi). Qed.
Lemma wrap_UP child f t s l i : refines (pruning child f t) s l i -> refines (ucur1 child) (UP f t s) l i.
Proof. wrap_tac (UP f t) (pruning child f t). Qed.

Lemma ucur_unfold d : exists child, ucur d = ucur1 child.
Proof. destruct d; cbn; eauto. Qed.

Lemma fold_max_le (es : list expr) x : In x es -> (depth x <= fold_right (fun x a => Nat.max (depth x) a) 0 es)%nat.
Proof. induction es as [|y r IH]; cbn; [contradiction|]. intros [->|H]; [lia|]. specialize (IH H). lia. Qed.
Lemma fold_size_le (es : list expr) x : In x es -> (size x <= fold_right (fun x a => size x + a) 0 es)%nat.
Proof. induction es as [|y r IH]; cbn; [contradiction|]. intros [->|H]; [lia|]. specialize (IH H). lia. Qed.

(* ---- the composition theorem *)
Theorem compose_refines e : wf e -> forall d fuel, (depth e <= d)%nat -> (size e + 2 <= fuel)%nat ->
  refines (ucur d) (ubuild d fuel e) (spec_of e) (-1).
Proof.
  induction e as [l|l|es IH|es IH|lo hi e IH|t e IH] using expr_ind'; cbn [wf]; intros Hw d fuel Hd Hf.
  - destruct (ucur_unfold d) as [ch ->]. cbn [ubuild spec_of]. apply wrap_UT. apply tcur_refines.
    pose proof (len_nonneg l). lia.
  - destruct (ucur_unfold d) as [ch ->]. cbn [ubuild spec_of]. apply wrap_UL. unfold lazy_spec.
    apply (lazy_refines tcur (t_new l) l (-1)). apply tcur_refines. pose proof (len_nonneg l). lia.
  - destruct Hw as [Hall Hdist]. apply wf_all_Forall in Hall. cbn [depth size] in Hd, Hf.
    destruct d as [|d]; [lia|]. cbn [ucur ubuild spec_of pred]. apply wrap_UM.
    apply (merging_refines (ucur d) (merge_spec (map spec_of es)) (map spec_of es)).
    + now apply merge_spec_sorted.
    + apply merge_spec_perm.
    + rewrite Forall_forall in *. intros li Hli. apply in_map_iff in Hli. destruct Hli as [x [<- Hx]].
      apply spec_sorted. now apply Hall.
    + rewrite Forall_forall in IH, Hall. clear Hdist.
      assert (forall x, In x es -> exists p, refines (ucur d) (ubuild d fuel x) (spec_of x) p) as Hk.
      { intros x Hx. exists (-1). apply (IH x Hx (Hall x Hx)).
        - pose proof (fold_max_le es x Hx). lia.
        - pose proof (fold_size_le es x Hx). lia. }
      clear -Hk. induction es as [|x r IHr]; cbn; constructor; [apply Hk; now left|]. apply IHr. intros y Hy. apply Hk. now right.
  - destruct Hw as [Hall [Hne Hs]]. apply wf_all_Forall in Hall. cbn [depth size] in Hd, Hf.
    destruct d as [|d]; [lia|]. cbn [ucur ubuild spec_of pred]. apply wrap_UC.
    apply (concat_refines (ucur d) (map spec_of es)).
    + exact Hs.
    + destruct es; [congruence|discriminate].
    + rewrite Forall_forall in IH, Hall.
      assert (forall x, In x es -> exists p, refines (ucur d) (ubuild d fuel x) (spec_of x) p) as Hk.
      { intros x Hx. exists (-1). apply (IH x Hx (Hall x Hx)).
        - pose proof (fold_max_le es x Hx). lia.
        - pose proof (fold_size_le es x Hx). lia. }
      clear -Hk. induction es as [|x r IHr]; cbn; constructor; [apply Hk; now left|]. apply IHr. intros y Hy. apply Hk. now right.
  - cbn [depth size] in Hd, Hf. destruct d as [|d]; [lia|]. cbn [ucur ubuild spec_of pred]. apply wrap_UB.
    apply (bounds_refines (ucur d) fuel lo hi (spec_of e) _ (-1)).
    + now apply spec_sorted.
    + pose proof (spec_size e). unfold len. lia.
    + apply IH; auto; lia.
  - cbn [depth size] in Hd, Hf. destruct d as [|d]; [lia|]. cbn [ucur ubuild spec_of pred]. apply wrap_UP.
    apply (pruning_refines (ucur d) fuel t (spec_of e) _ (-1)).
    + now apply spec_sorted.
    + pose proof (spec_size e). unfold len. lia.
    + apply IH; auto; lia.
Qed.

Corollary run_model_is_run_spec e prog : wf e -> run_model e prog = run_spec e prog.
Proof.
  intros Hw. unfold run_model, run_spec, ref_new.
  destruct (compose_refines e Hw (depth e) (size e + 2) ltac:(lia) ltac:(lia)) as [_ H]. apply H.
Qed.
