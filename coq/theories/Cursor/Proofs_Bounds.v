(* Cursor/Proofs_Bounds.v — a BoundsCursor behaves as the underlying cursor restricted to the
   interval: simulation between (underlying index p, Before/Positioned/After) and the index into
   `bounds_spec lo hi l`, for all nine bound combinations including empty and inverted ones. *)
From Coq Require Import NArith ZArith List Bool Lia.
From Blue Require Import Cursor.Iface Cursor.Ref Cursor.Bounds Cursor.Spec
  Cursor.Proofs_Order Cursor.Proofs_Ref.
Import ListNotations.
Local Open Scope Z_scope.

Lemma ele_kle a b : ele a b -> kle (ek a) (ek b).
Proof.
  unfold ele. destruct (ecmp a b) eqn:E; try congruence; intros _.
  - apply ecmp_eq_iff in E. destruct E as [E _]. rewrite E. korder.
  - now apply elt_kle.
Qed.

Lemma not_in_lo_downclosed lo : downclosed (fun e => negb (in_lo lo e)).
Proof.
  intros a b Hab. apply ele_kle in Hab. destruct lo; cbn; auto; rewrite !negb_involutive;
    kdestr; auto; intros _; exfalso; korder.
Qed.
Lemma in_hi_downclosed hi : downclosed (in_hi hi).
Proof.
  intros a b Hab. apply ele_kle in Hab. destruct hi; cbn; auto; kdestr; auto; intros _; exfalso; korder.
Qed.

Section BoundsProof.
Context {S : Type} (c : cursor S) (fuel : nat) (lo hi : bound) (l : list entry).
Hypothesis Hsorted : sorted l.
Hypothesis Hfuel : (Z.of_nat fuel >= len l + 2).

Let n := len l.
Let a := count (fun e => negb (in_lo lo e)) l.      (* entries before the start bound *)
Let b := count (in_hi hi) l.                        (* entries not after the end bound *)
Let B := bounds_spec lo hi l.
Let M := len B.

Lemma a_range : 0 <= a <= n. Proof. apply count_range. Qed.
Lemma b_range : 0 <= b <= n. Proof. apply count_range. Qed.

Lemma in_lo_idx p e : ent l p = Some e -> (in_lo lo e = true <-> a <= p).
Proof.
  intros He. pose proof (count_prefix _ l Hsorted (not_in_lo_downclosed lo) p e He) as H.
  fold a in H. cbv beta in H. revert H. destruct (in_lo lo e); cbn [negb]; intros H.
  - split; [intros _|reflexivity]. destruct (Z_lt_dec p a) as [Hlt|]; [|lia].
    destruct H as [_ H]. specialize (H Hlt). discriminate.
  - split; [discriminate|]. intros Hle. destruct H as [H _]. specialize (H eq_refl). lia.
Qed.
Lemma in_hi_idx p e : ent l p = Some e -> (in_hi hi e = true <-> p < b).
Proof. intros He. exact (count_prefix _ l Hsorted (in_hi_downclosed hi) p e He). Qed.

(* the filtered table is the segment [a, b) of l *)
Lemma rank_bounds p : 0 <= p <= n -> rank (in_bounds lo hi) l p = Z.max 0 (Z.min p b - a).
Proof.
  intros Hp. pose proof a_range. pose proof b_range.
  replace p with (Z.of_nat (Z.to_nat p)) by lia. assert (Z.of_nat (Z.to_nat p) <= n) as Hle by lia.
  induction (Z.to_nat p) as [|k IH].
  - rewrite rank_0. lia.
  - rewrite Nat2Z.inj_succ in *. unfold Z.succ in *.
    destruct (ent_some l (Z.of_nat k)) as [e He]; [fold n; lia|].
    rewrite (rank_step _ _ _ _ He), IH by lia. unfold in_bounds.
    pose proof (in_lo_idx _ _ He) as H1. pose proof (in_hi_idx _ _ He) as H2.
    destruct (in_lo lo e); destruct (in_hi hi e); cbn [andb]; lia.
Qed.
Lemma M_eq : M = Z.max 0 (b - a).
Proof.
  unfold M, B, bounds_spec. rewrite <- (rank_len (in_bounds lo hi) l n) by (unfold n; lia).
  pose proof a_range. pose proof b_range. rewrite rank_bounds by lia. lia.
Qed.
Lemma ent_B p : a <= p < b -> ent B (p - a) = ent l p.
Proof.
  intros Hp. pose proof a_range. pose proof b_range.
  destruct (ent_some l p) as [e He]; [fold n; lia|]. rewrite He.
  replace (p - a) with (rank (in_bounds lo hi) l p) by (rewrite rank_bounds; lia).
  apply ent_filter_rank; [assumption|]. unfold in_bounds.
  pose proof (in_lo_idx _ _ He) as H1. pose proof (in_hi_idx _ _ He) as H2.
  destruct (in_lo lo e); destruct (in_hi hi e); cbn; try reflexivity; lia.
Qed.
Lemma seek_B k : count (below k) B = Z.max 0 (Z.min (count (below k) l) b - a).
Proof.
  unfold B, bounds_spec. rewrite (count_filter_prefix _ _ _ Hsorted (below_downclosed k)).
  apply rank_bounds. apply count_range.
Qed.

(* ---- the primitive steps in arithmetic form *)
Lemma has_key_idx cur p : refines c cur l p -> has_key c cur = (0 <=? p) && (p <? n).
Proof.
  intros H. pose proof (refines_has_key c _ _ _ H) as Hk. fold n in Hk.
  destruct (Z.leb_spec 0 p); destruct (Z.ltb_spec p n); cbn; destruct (has_key c cur); try reflexivity;
    try (destruct Hk as [Hk _]; specialize (Hk eq_refl); lia);
    try (destruct Hk as [_ Hk]; assert (true = false) by (symmetry; apply Hk; lia); discriminate).
Qed.

Lemma check_start_idx cur p f : refines c cur l p ->
  check_start c lo (mkB cur Positioned f) =
  if (0 <=? p) && (p <? n) && (p <? a) then mkB cur BeforeStart f else mkB cur Positioned f.
Proof.
  intros H. unfold check_start, b_kv. cbn [b_pos b_cur]. rewrite (refines_kv c _ _ _ H).
  destruct (ent l p) as [e|] eqn:He.
  - pose proof (ent_range _ _ _ He). fold n in H0. pose proof (in_lo_idx _ _ He) as Hi.
    replace ((0 <=? p) && (p <? n)) with true by (symmetry; apply andb_true_intro; split; [apply Z.leb_le|apply Z.ltb_lt]; lia).
    cbn [andb]. destruct (Z.ltb_spec p a).
    + assert (in_lo lo e = false) as Hf by (destruct (in_lo lo e); [lia|reflexivity]).
      destruct lo; cbn in Hf; [discriminate| |]; apply negb_false_iff in Hf; rewrite Hf; reflexivity.
    + assert (in_lo lo e = true) as Hf by (apply Hi; lia).
      destruct lo; cbn in Hf; [reflexivity| |]; apply negb_true_iff in Hf; rewrite Hf; reflexivity.
  - apply ent_none_inv in He. fold n in He.
    replace ((0 <=? p) && (p <? n)) with false; [reflexivity|].
    symmetry. apply andb_false_iff. destruct He; [left; apply Z.leb_gt|right; apply Z.ltb_ge]; lia.
Qed.

Lemma check_end_idx cur p f : refines c cur l p ->
  check_end c hi (mkB cur Positioned f) =
  if (0 <=? p) && (p <? n) && (b <=? p) then mkB cur AfterEnd f else mkB cur Positioned f.
Proof.
  intros H. unfold check_end, b_kv. cbn [b_pos b_cur]. rewrite (refines_kv c _ _ _ H).
  destruct (ent l p) as [e|] eqn:He.
  - pose proof (ent_range _ _ _ He). fold n in H0. pose proof (in_hi_idx _ _ He) as Hi.
    replace ((0 <=? p) && (p <? n)) with true by (symmetry; apply andb_true_intro; split; [apply Z.leb_le|apply Z.ltb_lt]; lia).
    cbn [andb]. destruct (Z.leb_spec b p).
    + assert (in_hi hi e = false) as Hf by (destruct (in_hi hi e); [lia|reflexivity]).
      destruct hi; cbn in Hf; [discriminate| |].
      * replace (kltb k (ek e)) with true; [reflexivity|]. symmetry. revert Hf. kdestr; auto; intros _; exfalso; korder.
      * replace (kleb k (ek e)) with true; [reflexivity|]. symmetry. revert Hf. kdestr; auto; intros _; exfalso; korder.
    + assert (in_hi hi e = true) as Hf by (apply Hi; lia).
      destruct hi; cbn in Hf; [reflexivity| |].
      * replace (kltb k (ek e)) with false; [reflexivity|]. symmetry. revert Hf. kdestr; auto; intros _; exfalso; korder.
      * replace (kleb k (ek e)) with false; [reflexivity|]. symmetry. revert Hf. kdestr; auto; intros _; exfalso; korder.
  - apply ent_none_inv in He. fold n in He.
    replace ((0 <=? p) && (p <? n)) with false; [reflexivity|].
    symmetry. apply andb_false_iff. destruct He; [left; apply Z.leb_gt|right; apply Z.ltb_ge]; lia.
Qed.

Lemma check_start_np cur pos f : pos <> Positioned -> check_start c lo (mkB cur pos f) = mkB cur pos f.
Proof. intros H. unfold check_start, b_kv. cbn. destruct pos; congruence. Qed.
Lemma check_end_np cur pos f : pos <> Positioned -> check_end c hi (mkB cur pos f) = mkB cur pos f.
Proof. intros H. unfold check_end, b_kv. cbn. destruct pos; congruence. Qed.

Lemma a_lo : match lo with
             | Unbounded => a = 0
             | Included k => a = count (below k) l
             | Excluded k => count (below k) l <= a
             end.
Proof.
  unfold a. destruct lo; cbn [in_lo].
  - apply count_none. reflexivity.
  - apply count_ext. intros e _. now rewrite negb_involutive.
  - apply count_le. intros e _. unfold below. rewrite negb_involutive. kdestr; auto. intros _. exfalso. korder.
Qed.

Lemma b_hi_unbounded : hi = Unbounded -> b = n.
Proof. intros ->. unfold b. cbn. apply count_all. reflexivity. Qed.

(* seek(end_bound) followed by `while key == end_bound { next }` stops at b *)
Lemma skip_equal_spec k : hi = Included k -> forall m cur p,
  refines c cur l p -> count (below k) l <= p <= b -> Z.of_nat m > b - p ->
  exists cur', skip_equal c m k cur = Some cur' /\ refines c cur' l b.
Proof.
  intros Hhi. pose proof b_range as Hb. induction m as [|m IH]; intros cur p Hc Hp Hm; [lia|].
  cbn [skip_equal]. rewrite (refines_kv c _ _ _ Hc).
  destruct (ent l p) as [e|] eqn:He.
  - pose proof (ent_range _ _ _ He) as Hr. fold n in Hr.
    pose proof (in_hi_idx _ _ He) as Hi. rewrite Hhi in Hi. cbn [in_hi] in Hi.
    pose proof (count_prefix _ l Hsorted (below_downclosed k) p e He) as Hq. unfold below in Hq.
    destruct (keqb_spec (ek e) k) as [Heq|Hne].
    + assert (p < b) by (apply Hi; rewrite Heq; kdestr; auto; exfalso; korder).
      apply (IH (c_next c cur) (p + 1)).
      * pose proof (refines_next c _ _ _ Hc) as Hn. unfold ref_next in Hn. fold n in Hn.
        destruct (Z.leb_spec n (p + 1)); [replace (p + 1) with n by lia|]; assumption.
      * lia.
      * lia.
    + exists cur. split; [reflexivity|]. replace b with p; [assumption|].
      destruct (Z_lt_dec p b) as [Hlt|]; [|lia]. exfalso.
      apply Hi in Hlt. assert (~ klt (ek e) k) by (intros Hk; assert (p < count (below k) l) by (apply Hq; kdestr; auto; contradiction); lia).
      revert Hlt. destruct (kleb_spec (ek e) k); [intros _; korder|discriminate].
  - exists cur. split; [reflexivity|]. apply ent_none_inv in He. fold n in He.
    pose proof (count_range (below k) l). replace b with p by lia. assumption.
Qed.

Definition bounds_R (st : bstate S) (P : Z) : Prop :=
  b_fail st = None /\ exists p, refines c (b_cur st) l p /\
  match b_pos st with
  | BeforeStart => P = -1 /\ (-1 <= p <= a - 1 \/ (p = a /\ a = n))
  | Positioned => (a <= p < b /\ P = p - a) \/ (p = -1 /\ P = -1) \/
                  (p = n /\ P = M /\ (b = n \/ a = n))
  | AfterEnd => P = M /\ b <= p <= n /\ (p <= a \/ p = b)
  end.

Ltac zb :=
  repeat match goal with
  | |- context [?x <=? ?y] => destruct (Z.leb_spec x y)
  | |- context [?x <? ?y] => destruct (Z.ltb_spec x y)
  | H : context [?x <=? ?y] |- _ => destruct (Z.leb_spec x y)
  | H : context [?x <? ?y] |- _ => destruct (Z.ltb_spec x y)
  end.

Lemma first_R cur p pos : refines c cur l p -> bounds_R (b_first_raw c lo hi (mkB cur pos None)) (-1).
Proof.
  intros Hc. pose proof a_range as Ha. pose proof a_lo as Hlo. unfold b_first_raw.
  assert (forall cur1 q, refines c cur1 l q -> 0 <= q <= a -> (q = n -> a = n) ->
          bounds_R (check_end c hi (mkB (prev_if_some c cur1) BeforeStart None)) (-1)) as Hgen.
  { intros cur1 q Hq Hqa Hqn. rewrite check_end_np by discriminate.
    split; [reflexivity|]. cbn [b_cur b_pos]. unfold prev_if_some. rewrite (has_key_idx _ _ Hq).
    pose proof (refines_prev c _ _ _ Hq) as Hp. unfold ref_prev in Hp.
    destruct (Z.leb_spec 0 q); destruct (Z.ltb_spec q n); cbn [andb]; try lia.
    - eexists; split; [exact Hp|]. split; [reflexivity|]. zb; lia.
    - eexists; split; [exact Hq|]. split; [reflexivity|]. right. lia. }
  assert (lo = Unbounded \/ (exists k, lo = Included k) \/ (exists k, lo = Excluded k)) as Hcase
    by (clear; destruct lo; eauto).
  destruct Hcase as [Elo|[[k Elo]|[k Elo]]]; rewrite Elo in Hlo; rewrite Elo at 1;
    unfold set_cur, set_pos; cbn [b_cur b_pos b_fail].
  - rewrite check_end_np by discriminate. split; [reflexivity|]. cbn [b_cur b_pos].
    pose proof (refines_first c _ _ _ Hc) as Hf. unfold prev_if_some. rewrite (has_key_idx _ _ Hf).
    replace (0 <=? -1) with false by reflexivity. cbn [andb].
    eexists; split; [exact Hf|]. split; [reflexivity|]. lia.
  - pose proof (refines_seek c _ _ _ k Hc) as Hs. pose proof (count_range (below k) l).
    apply (Hgen _ _ Hs); unfold n in *; lia.
  - pose proof (refines_seek c _ _ _ k Hc) as Hs. pose proof (count_range (below k) l).
    apply (Hgen _ _ Hs); unfold n in *; lia.
Qed.

Lemma last_R cur p pos : refines c cur l p -> bounds_R (b_last_raw c fuel lo hi (mkB cur pos None)) M.
Proof.
  intros Hc. pose proof b_range as Hb. pose proof a_range as Ha. unfold b_last_raw.
  assert (forall cur1, refines c cur1 l b ->
          bounds_R (check_start c lo (mkB cur1 AfterEnd None)) M) as Hgen.
  { intros cur1 H1. rewrite check_start_np by discriminate. split; [reflexivity|].
    cbn [b_cur b_pos]. eexists; split; [exact H1|]. split; [reflexivity|]. lia. }
  assert (hi = Unbounded \/ (exists k, hi = Included k) \/ (exists k, hi = Excluded k)) as Hcase
    by (clear; destruct hi; eauto).
  destruct Hcase as [Ehi|[[k Ehi]|[k Ehi]]]; rewrite Ehi at 1;
    unfold set_cur, set_pos; cbn [b_cur b_pos b_fail].
  - apply Hgen. rewrite (b_hi_unbounded Ehi). apply (refines_last c _ _ _ Hc).
  - pose proof (refines_seek c _ _ _ k Hc) as Hs.
    destruct (skip_equal_spec k Ehi fuel _ _ Hs) as [cur' [E H']].
    + split; [lia|]. unfold b. rewrite Ehi. apply count_le. intros e _. unfold below. cbn. kdestr; auto; intros _; exfalso; korder.
    + pose proof (count_range (below k) l). unfold n in *. lia.
    + rewrite E. apply Hgen. exact H'.
  - apply Hgen. unfold b. rewrite Ehi. cbn [in_hi]. apply (refines_seek c _ _ _ k Hc).
Qed.

Lemma refines_next_idx cur p : refines c cur l p -> p <= n -> refines c (c_next c cur) l (Z.min (p + 1) n).
Proof.
  intros H Hp. pose proof (refines_next c _ _ _ H) as Hn. rewrite ref_next_eq in Hn by exact Hp. exact Hn.
Qed.
Lemma refines_prev_idx cur p : refines c cur l p -> -1 <= p -> refines c (c_prev c cur) l (Z.max (p - 1) (-1)).
Proof.
  intros H Hp. pose proof (refines_prev c _ _ _ H) as Hn. rewrite ref_prev_eq in Hn by exact Hp. exact Hn.
Qed.

(* next's loop: advance until the underlying cursor is no longer before the start bound *)
Lemma next_loop_spec : forall k cur p pos,
  refines c cur l p -> pos <> AfterEnd -> -1 <= p <= n -> Z.of_nat k > Z.max 0 (a - p) ->
  exists cur', refines c cur' l (Z.max (Z.min (p + 1) n) a) /\
    b_next_loop c lo hi k (mkB cur pos None) =
    mkB cur' (if (Z.max (Z.min (p + 1) n) a <? n) && (b <=? Z.max (Z.min (p + 1) n) a)
              then AfterEnd else Positioned) None.
Proof.
  pose proof a_range as Ha. pose proof b_range as Hb.
  induction k as [|k IH]; intros cur p pos Hc Hpos Hp Hk; [lia|].
  cbn [b_next_loop]. replace (bpos_eqb (b_pos (mkB cur pos None)) AfterEnd) with false
    by (destruct pos; cbn; congruence).
  unfold set_cur, set_pos. cbn [b_cur b_pos b_fail].
  pose proof (refines_next_idx _ _ Hc (proj2 Hp)) as Hn.
  rewrite (check_start_idx _ _ _ Hn).
  destruct ((0 <=? Z.min (p + 1) n) && (Z.min (p + 1) n <? n) && (Z.min (p + 1) n <? a)) eqn:E.
  - rewrite check_end_np by discriminate. cbn [b_pos bpos_eqb negb].
    apply andb_true_iff in E. destruct E as [E E3]. apply andb_true_iff in E. destruct E as [E1 E2].
    apply Z.leb_le in E1. apply Z.ltb_lt in E2, E3.
    destruct (IH (c_next c cur) (Z.min (p + 1) n) BeforeStart Hn) as [cur' [H1 H2]]; try discriminate; try lia.
    exists cur'. replace (Z.max (Z.min (p + 1) n) a) with (Z.max (Z.min (Z.min (p + 1) n + 1) n) a) by lia.
    split; assumption.
  - rewrite (check_end_idx _ _ _ Hn).
    assert (Z.max (Z.min (p + 1) n) a = Z.min (p + 1) n) as Emax.
    { apply andb_false_iff in E. destruct E as [E|E]; [apply andb_false_iff in E; destruct E as [E|E]|];
        [apply Z.leb_gt in E|apply Z.ltb_ge in E|apply Z.ltb_ge in E]; lia. }
    rewrite Emax. exists (c_next c cur). split; [assumption|].
    replace (0 <=? Z.min (p + 1) n) with true by (symmetry; apply Z.leb_le; lia). cbn [andb].
    destruct ((Z.min (p + 1) n <? n) && (b <=? Z.min (p + 1) n)); reflexivity.
Qed.

Lemma guard_ok f (st : bstate S) : b_fail st = None -> b_guard f st = f st.
Proof. intros H. unfold b_guard. now rewrite H. Qed.

Lemma M_nonneg : 0 <= M. Proof. apply len_nonneg. Qed.

Lemma next_R st P : bounds_R st P -> bounds_R (b_next_raw c fuel lo hi st) (ref_next B P).
Proof.
  pose proof a_range as Ha. pose proof b_range as Hb. pose proof M_eq as HM. pose proof M_nonneg as HM0.
  intros [Hf [p [Hc HR]]]. destruct st as [cur pos f]. cbn [b_fail b_cur b_pos] in *. subst f.
  unfold b_next_raw. fold M. unfold ref_next. fold M.
  pose proof (refines_range c _ _ _ Hc) as Hpr. fold n in Hpr.
  destruct pos.
  - (* BeforeStart *)
    destruct HR as [-> HR].
    destruct (next_loop_spec fuel cur p BeforeStart Hc) as [cur' [H1 H2]]; try discriminate; try lia.
    rewrite H2. split; [reflexivity|]. cbn [b_cur b_pos]. exists (Z.max (Z.min (p + 1) n) a). split; [assumption|].
    zb; cbn [andb]; try lia.
  - (* Positioned *)
    destruct (next_loop_spec fuel cur p Positioned Hc) as [cur' [H1 H2]]; try discriminate; try lia.
    rewrite H2. split; [reflexivity|]. cbn [b_cur b_pos]. exists (Z.max (Z.min (p + 1) n) a). split; [assumption|].
    destruct HR as [[Hp ->]|[[-> ->]|[-> [-> Hbn]]]]; zb; cbn [andb]; try lia.
  - (* AfterEnd *)
    cbn [b_next_loop]. destruct fuel; cbn; (split; [reflexivity|]); cbn [b_cur b_pos];
      exists p; (split; [assumption|]); destruct HR as [-> HR]; zb; try lia.
Qed.

Lemma prev_R st P : bounds_R st P -> bounds_R (b_prev_raw c lo st) (ref_prev P).
Proof.
  pose proof a_range as Ha. pose proof b_range as Hb. pose proof M_eq as HM. pose proof M_nonneg as HM0.
  intros [Hf [p [Hc HR]]]. destruct st as [cur pos f]. cbn [b_fail b_cur b_pos] in *. subst f.
  unfold b_prev_raw, ref_prev.
  pose proof (refines_range c _ _ _ Hc) as Hpr. fold n in Hpr.
  pose proof (refines_prev_idx _ _ Hc (proj1 Hpr)) as Hp.
  destruct pos; cbn [b_pos bpos_eqb negb]; unfold set_cur, set_pos; cbn [b_cur b_pos b_fail].
  - rewrite check_start_np by discriminate. split; [reflexivity|]. cbn [b_cur b_pos].
    exists p. split; [assumption|]. destruct HR as [-> HR]. zb; lia.
  - rewrite (check_start_idx _ _ _ Hp).
    destruct ((0 <=? Z.max (p - 1) (-1)) && (Z.max (p - 1) (-1) <? n) && (Z.max (p - 1) (-1) <? a)) eqn:E;
      (split; [reflexivity|]); cbn [b_cur b_pos]; exists (Z.max (p - 1) (-1)); (split; [assumption|]);
      destruct HR as [[Hpp ->]|[[-> ->]|[-> [-> Hbn]]]]; revert E; zb; cbn [andb]; intros E; try discriminate; try lia.
  - rewrite (check_start_idx _ _ _ Hp).
    destruct ((0 <=? Z.max (p - 1) (-1)) && (Z.max (p - 1) (-1) <? n) && (Z.max (p - 1) (-1) <? a)) eqn:E;
      (split; [reflexivity|]); cbn [b_cur b_pos]; exists (Z.max (p - 1) (-1)); (split; [assumption|]);
      destruct HR as [-> HR]; revert E; zb; cbn [andb]; intros E; try discriminate; try lia.
Qed.

Lemma seek_R k st P : bounds_R st P -> bounds_R (b_seek_raw c fuel lo hi k st) (count (below k) B).
Proof.
  pose proof a_range as Ha. pose proof b_range as Hb. pose proof M_eq as HM. pose proof M_nonneg as HM0.
  intros [Hf [p [Hc HR]]]. destruct st as [cur pos f]. cbn [b_fail b_cur b_pos] in *. subst f.
  rewrite seek_B. unfold b_seek_raw. unfold set_cur, set_pos; cbn [b_cur b_pos b_fail].
  pose proof (refines_seek c _ _ _ k Hc) as Hs. pose proof (count_range (below k) l) as Hq. fold n in Hq.
  set (q := count (below k) l) in *.
  rewrite (check_end_idx _ _ _ Hs).
  destruct ((0 <=? q) && (q <? n) && (b <=? q)) eqn:E1.
  - (* past the end bound *)
    rewrite check_start_np by discriminate. cbn [b_pos bpos_eqb orb].
    replace (Z.max 0 (Z.min q b - a)) with M by (revert E1; zb; cbn [andb]; intros; try discriminate; lia).
    eapply last_R; eassumption.
  - rewrite (check_start_idx _ _ _ Hs).
    destruct ((0 <=? q) && (q <? n) && (q <? a)) eqn:E2; cbn [b_pos bpos_eqb orb].
    + (* before the start bound: seek_to_first, next *)
      pose proof (first_R (c_seek c k cur) q Positioned Hs) as HF.
      rewrite guard_ok by (destruct HF as [HF _]; exact HF).
      pose proof (next_R _ _ HF) as HN. unfold ref_next in HN. fold M in HN.
      replace (Z.max 0 (Z.min q b - a)) with (if M <=? -1 + 1 then M else -1 + 1);
        [exact HN|]. revert E2. zb; cbn [andb]; intros; try discriminate; lia.
    + cbn [b_cur]. rewrite (has_key_idx _ _ Hs).
      destruct ((0 <=? q) && (q <? n)) eqn:E3; cbn [negb].
      * split; [reflexivity|]. cbn [b_cur b_pos]. exists q. split; [assumption|].
        left. revert E1 E2 E3. zb; cbn [andb]; intros; try discriminate; lia.
      * replace (Z.max 0 (Z.min q b - a)) with M by (revert E3; zb; cbn [andb]; intros; try discriminate; lia).
        eapply last_R; eassumption.
Qed.

Theorem bounds_sim : sim (bounds c fuel lo hi) B bounds_R.
Proof.
  pose proof a_range as Ha. pose proof b_range as Hb. pose proof M_eq as HM. pose proof M_nonneg as HM0.
  constructor.
  - intros st P [_ [p [Hc HR]]]. fold M. pose proof (refines_range c _ _ _ Hc) as Hpr. fold n in Hpr.
    destruct (b_pos st); intuition lia.
  - intros st P [_ [p [Hc HR]]]. cbn [bounds c_kv]. unfold b_kv.
    pose proof (refines_range c _ _ _ Hc) as Hpr. fold n in Hpr.
    destruct (b_pos st).
    + destruct HR as [-> _]. symmetry. apply ent_none. lia.
    + rewrite (refines_kv c _ _ _ Hc). destruct HR as [[Hp ->]|[[-> ->]|[-> [-> _]]]].
      * symmetry. now apply ent_B.
      * rewrite !ent_none by lia. reflexivity.
      * rewrite !ent_none by (fold n M; lia). reflexivity.
    + destruct HR as [-> _]. symmetry. apply ent_none. fold M. lia.
  - intros st P [H _]. exact H.
  - intros o st P HR. pose proof HR as [Hf [p [Hc _]]].
    destruct o; cbn [step bounds c_first c_last c_seek c_prev c_next ref]; rewrite guard_ok by assumption.
    + destruct st as [cur pos f]. cbn in Hf. subst f. eapply first_R. exact Hc.
    + destruct st as [cur pos f]. cbn in Hf. subst f. eapply last_R. exact Hc.
    + eapply seek_R; eassumption.
    + now apply prev_R.
    + now apply next_R.
Qed.

Theorem bounds_new_R cur p : refines c cur l p -> bounds_R (b_new c lo hi cur) (-1).
Proof. intros H. unfold b_new. eapply first_R. exact H. Qed.

(* the absolute calls only need the child to be a reference cursor AFTER its own absolute call
   (recovery after an Err: Proofs_Recover.v) *)
Lemma first_R' cur pos : refines c (c_first c cur) l (-1) ->
  (forall k, refines c (c_seek c k cur) l (count (below k) l)) -> bounds_R (b_first_raw c lo hi (mkB cur pos None)) (-1).
Proof.
  intros Hf0 Hs0. pose proof a_range as Ha. pose proof a_lo as Hlo. unfold b_first_raw.
  assert (forall cur1 q, refines c cur1 l q -> 0 <= q <= a -> (q = n -> a = n) ->
          bounds_R (check_end c hi (mkB (prev_if_some c cur1) BeforeStart None)) (-1)) as Hgen.
  { intros cur1 q Hq Hqa Hqn. rewrite check_end_np by discriminate.
    split; [reflexivity|]. cbn [b_cur b_pos]. unfold prev_if_some. rewrite (has_key_idx _ _ Hq).
    pose proof (refines_prev c _ _ _ Hq) as Hp. unfold ref_prev in Hp.
    destruct (Z.leb_spec 0 q); destruct (Z.ltb_spec q n); cbn [andb]; try lia.
    - eexists; split; [exact Hp|]. split; [reflexivity|]. zb; lia.
    - eexists; split; [exact Hq|]. split; [reflexivity|]. right. lia. }
  assert (lo = Unbounded \/ (exists k, lo = Included k) \/ (exists k, lo = Excluded k)) as Hcase
    by (clear; destruct lo; eauto).
  destruct Hcase as [Elo|[[k Elo]|[k Elo]]]; rewrite Elo in Hlo; rewrite Elo at 1;
    unfold set_cur, set_pos; cbn [b_cur b_pos b_fail].
  - rewrite check_end_np by discriminate. split; [reflexivity|]. cbn [b_cur b_pos].
    pose proof Hf0 as Hf. unfold prev_if_some. rewrite (has_key_idx _ _ Hf).
    replace (0 <=? -1) with false by reflexivity. cbn [andb].
    eexists; split; [exact Hf|]. split; [reflexivity|]. lia.
  - pose proof (Hs0 k) as Hs. pose proof (count_range (below k) l).
    apply (Hgen _ _ Hs); unfold n in *; lia.
  - pose proof (Hs0 k) as Hs. pose proof (count_range (below k) l).
    apply (Hgen _ _ Hs); unfold n in *; lia.
Qed.

Lemma last_R' cur pos : refines c (c_last c cur) l (len l) ->
  (forall k, refines c (c_seek c k cur) l (count (below k) l)) -> bounds_R (b_last_raw c fuel lo hi (mkB cur pos None)) M.
Proof.
  intros Hl0 Hs0. pose proof b_range as Hb. pose proof a_range as Ha. unfold b_last_raw.
  assert (forall cur1, refines c cur1 l b ->
          bounds_R (check_start c lo (mkB cur1 AfterEnd None)) M) as Hgen.
  { intros cur1 H1. rewrite check_start_np by discriminate. split; [reflexivity|].
    cbn [b_cur b_pos]. eexists; split; [exact H1|]. split; [reflexivity|]. lia. }
  assert (hi = Unbounded \/ (exists k, hi = Included k) \/ (exists k, hi = Excluded k)) as Hcase
    by (clear; destruct hi; eauto).
  destruct Hcase as [Ehi|[[k Ehi]|[k Ehi]]]; rewrite Ehi at 1;
    unfold set_cur, set_pos; cbn [b_cur b_pos b_fail].
  - apply Hgen. rewrite (b_hi_unbounded Ehi). exact Hl0.
  - pose proof (Hs0 k) as Hs.
    destruct (skip_equal_spec k Ehi fuel _ _ Hs) as [cur' [E H']].
    + split; [lia|]. unfold b. rewrite Ehi. apply count_le. intros e _. unfold below. cbn. kdestr; auto; intros _; exfalso; korder.
    + pose proof (count_range (below k) l). unfold n in *. lia.
    + rewrite E. apply Hgen. exact H'.
  - apply Hgen. unfold b. rewrite Ehi. cbn [in_hi]. exact (Hs0 k).
Qed.

Lemma seek_R' k cur pos : refines c (c_seek c k cur) l (count (below k) l) ->
  bounds_R (b_seek_raw c fuel lo hi k (mkB cur pos None)) (count (below k) B).
Proof.
  pose proof a_range as Ha. pose proof b_range as Hb. pose proof M_eq as HM. pose proof M_nonneg as HM0.
  intros Hs.
  rewrite seek_B. unfold b_seek_raw. unfold set_cur, set_pos; cbn [b_cur b_pos b_fail].
  pose proof (count_range (below k) l) as Hq. fold n in Hq.
  set (q := count (below k) l) in *.
  rewrite (check_end_idx _ _ _ Hs).
  destruct ((0 <=? q) && (q <? n) && (b <=? q)) eqn:E1.
  - (* past the end bound *)
    rewrite check_start_np by discriminate. cbn [b_pos bpos_eqb orb].
    replace (Z.max 0 (Z.min q b - a)) with M by (revert E1; zb; cbn [andb]; intros; try discriminate; lia).
    eapply last_R; eassumption.
  - rewrite (check_start_idx _ _ _ Hs).
    destruct ((0 <=? q) && (q <? n) && (q <? a)) eqn:E2; cbn [b_pos bpos_eqb orb].
    + (* before the start bound: seek_to_first, next *)
      pose proof (first_R (c_seek c k cur) q Positioned Hs) as HF.
      rewrite guard_ok by (destruct HF as [HF _]; exact HF).
      pose proof (next_R _ _ HF) as HN. unfold ref_next in HN. fold M in HN.
      replace (Z.max 0 (Z.min q b - a)) with (if M <=? -1 + 1 then M else -1 + 1);
        [exact HN|]. revert E2. zb; cbn [andb]; intros; try discriminate; lia.
    + cbn [b_cur]. rewrite (has_key_idx _ _ Hs).
      destruct ((0 <=? q) && (q <? n)) eqn:E3; cbn [negb].
      * split; [reflexivity|]. cbn [b_cur b_pos]. exists q. split; [assumption|].
        left. revert E1 E2 E3. zb; cbn [andb]; intros; try discriminate; lia.
      * replace (Z.max 0 (Z.min q b - a)) with M by (revert E3; zb; cbn [andb]; intros; try discriminate; lia).
        eapply last_R; eassumption.
Qed.

End BoundsProof.

(* the compositional statement: over any child that behaves as a reference cursor over a sorted
   table l, the bounds cursor behaves as the reference cursor over `bounds_spec lo hi l` *)
Theorem bounds_refines {S} (c : cursor S) (fuel : nat) (lo hi : bound) (l : list entry) cur p :
  sorted l -> Z.of_nat fuel >= len l + 2 -> refines c cur l p ->
  refines (bounds c fuel lo hi) (b_new c lo hi cur) (bounds_spec lo hi l) (-1).
Proof.
  intros Hs Hf Hc. eapply sim_refines; [apply (bounds_sim c fuel lo hi l Hs Hf)|].
  eapply bounds_new_R; eassumption.
Qed.
