(* Cursor/Concat.v — model of sst/src/concat_cursor.rs (ConcatenatingCursor) as repaired by the
   F2 fix (seek compares the last key of the probed cursor also when the probe reaches `left`)
   and the F3 fix (next tests key().is_none(), not value().is_none()).  Definitions only.

   `self.cursors[i]` with i out of range, `assert!(!cursors.is_empty())` and
   `self.cursors.len() - 1` on an empty vector are the explicit failure Panic.
   seek compares the probed cursor's last key with KeyRef{key, u64::MAX}: `last >= kref` is
   "last.key >= key" because every timestamp is <= u64::MAX. *)
From Coq Require Import Arith List Bool.
From Blue Require Import Cursor.Iface.
Import ListNotations.

Record kstate (S : Type) := mkK { k_kids : list S; k_pos : nat; k_fail : option failure }.
Arguments mkK {S}. Arguments k_kids {S}. Arguments k_pos {S}. Arguments k_fail {S}.

(* l[i] = f(l[i]) *)
Fixpoint upd {A} (l : list A) (i : nat) (f : A -> A) : list A :=
  match l, i with
  | [], _ => []
  | a :: r, O => f a :: r
  | a :: r, Datatypes.S i' => a :: upd r i' f
  end.

Section Concat.
Context {S : Type} (c : cursor S).

Definition k_set_fail (st : kstate S) (f : failure) : kstate S := mkK (k_kids st) (k_pos st) (Some f).
Definition k_guard (f : kstate S -> kstate S) (st : kstate S) : kstate S :=
  match k_fail st with Some _ => st | None => f st end.

(* self.cursors[self.position].f()  — index panic if out of range *)
Definition on_cur (f : S -> S) (st : kstate S) : kstate S :=
  if k_pos st <? length (k_kids st)
  then mkK (upd (k_kids st) (k_pos st) f) (k_pos st) (k_fail st)
  else k_set_fail st Panic.

(* self.cursors[self.position].key_value() *)
Definition cur_kv (st : kstate S) : option entry :=
  match nth_error (k_kids st) (k_pos st) with Some s => c_kv c s | None => None end.
Definition cur_has_key (st : kstate S) : bool :=
  match cur_kv st with Some _ => true | None => false end.

Definition reposition (idx : nat) (st : kstate S) : kstate S :=
  match k_kids st with
  | [] => k_set_fail st Panic                                  (* assert!(!self.cursors.is_empty()) *)
  | _ =>
      if negb (k_pos st =? idx) then
        let st := if k_pos st <? length (k_kids st) then on_cur (c_first c) st else st in
        mkK (k_kids st) idx (k_fail st)
      else st
  end.

Definition k_first_raw (st : kstate S) : kstate S :=
  k_guard (on_cur (c_first c)) (reposition 0 st).

Definition k_last_raw (st : kstate S) : kstate S :=
  match k_kids st with
  | [] => k_set_fail st Panic                                  (* len() - 1 underflows *)
  | _ => k_guard (on_cur (c_last c)) (reposition (length (k_kids st) - 1) st)
  end.

(* reposition(mid); seek_to_last; prev   — look at the last entry of cursor `mid` *)
Definition probe (mid : nat) (st : kstate S) : kstate S :=
  k_guard (on_cur (c_prev c)) (k_guard (on_cur (c_last c)) (reposition mid st)).

(* while mid > lft && key().is_none() { mid -= 1; probe(mid) } *)
Fixpoint probe_left (mid lft : nat) (st : kstate S) : nat * kstate S :=
  match mid with
  | O => (O, st)
  | Datatypes.S m =>
      if (lft <? Datatypes.S m) && negb (cur_has_key st)
      then probe_left m lft (probe m st)
      else (Datatypes.S m, st)
  end.

(* the binary search of seek: while lft < rgt { .. }.  Returns `left` and the state. *)
Fixpoint bsearch (n : nat) (k : key) (lft rgt : nat) (st : kstate S) : nat * kstate S :=
  if lft <? rgt then
    match n with
    | O => (lft, k_set_fail st OutOfFuel)
    | Datatypes.S n' =>
        let mid := Nat.div (lft + rgt) 2 in
        let '(mid, st) := probe_left mid lft (probe mid st) in
        match cur_kv st with
        | Some last =>
            if negb (kltb (ek last) k)            (* last >= KeyRef{key, u64::MAX} *)
            then bsearch n' k lft mid st
            else bsearch n' k (mid + 1) rgt st
        | None => bsearch n' k (mid + 1) rgt st
        end
    end
  else (lft, st).

Definition k_seek_raw (k : key) (st : kstate S) : kstate S :=
  match k_kids st with
  | [] => k_set_fail st Panic                                  (* len() - 1 underflows *)
  | _ =>
      let '(lft, st) := bsearch (length (k_kids st)) k 0 (length (k_kids st) - 1) st in
      k_guard (on_cur (c_seek c k)) (k_guard (reposition lft) st)
  end.

(* loop { prev; if key().is_none() && position > 0 { reposition(position-1); seek_to_last } else break } *)
Fixpoint k_prev_loop (n : nat) (st : kstate S) : kstate S :=
  match n with
  | O => k_set_fail st OutOfFuel
  | Datatypes.S n' =>
      let st := on_cur (c_prev c) st in
      match k_fail st with
      | Some _ => st
      | None =>
          if negb (cur_has_key st) && (0 <? k_pos st)
          then k_prev_loop n' (k_guard (on_cur (c_last c)) (reposition (k_pos st - 1) st))
          else st
      end
  end.
Definition k_prev_raw (st : kstate S) : kstate S := k_prev_loop (Datatypes.S (length (k_kids st))) st.

(* loop { next; if key().is_none() && position+1 < len { reposition(position+1); seek_to_first } else break } *)
Fixpoint k_next_loop (n : nat) (st : kstate S) : kstate S :=
  match n with
  | O => k_set_fail st OutOfFuel
  | Datatypes.S n' =>
      let st := on_cur (c_next c) st in
      match k_fail st with
      | Some _ => st
      | None =>
          if negb (cur_has_key st) && (k_pos st + 1 <? length (k_kids st))
          then k_next_loop n' (k_guard (on_cur (c_first c)) (reposition (k_pos st + 1) st))
          else st
      end
  end.
Definition k_next_raw (st : kstate S) : kstate S := k_next_loop (Datatypes.S (length (k_kids st))) st.

(* key_value(): if self.position < self.cursors.len() { self.cursors[self.position].. } else None *)
Definition k_kv (st : kstate S) : option entry := cur_kv st.

Definition concat_cursor : cursor (kstate S) := {|
  c_first := k_guard k_first_raw;
  c_last := k_guard k_last_raw;
  c_seek := fun k => k_guard (k_seek_raw k);
  c_prev := k_guard k_prev_raw;
  c_next := k_guard k_next_raw;
  c_kv := k_kv;
  c_fail := k_fail |}.

(* ConcatenatingCursor::new: assert non-empty; position = 0; cursors[0].seek_to_first() *)
Definition k_new (kids : list S) : kstate S :=
  match kids with
  | [] => mkK kids 0 (Some Panic)
  | _ => on_cur (c_first c) (mkK kids 0 None)
  end.
End Concat.
