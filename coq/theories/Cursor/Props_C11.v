(* Props_C11.v — the property theorems for C11 and nothing else.
   C11: "Merging, concatenating, pruning, bounds and lazy cursors equal their definitions".

   `refines c s l i` (Cursor/Ref.v) says: cursor c in state s gives, for EVERY finite program of
   seek_to_first / seek_to_last / seek / prev / next calls, the same key_value() observations
   (and no failure: no logic error, no panic, no loop out of fuel) as the reference cursor
   (sst::reference::ReferenceCursor) over the table l at index i - including next-after-prev
   and prev-after-next at every position, and tombstone entries.
   Every theorem takes its children as ARBITRARY cursors that refine reference cursors, so the
   theorems compose (C11_compose).  The models are those of the repaired code (F2, F3, F20). *)
From Coq Require Import NArith ZArith List Bool Permutation.
From Blue Require Import Cursor.Iface Cursor.Ref Cursor.Lazy Cursor.Bounds Cursor.Pruning Cursor.Concat
  Cursor.Merging Cursor.Spec Cursor.Compose Cursor.Proofs_Order Cursor.Proofs_Ref Cursor.Proofs_Lazy
  Cursor.Proofs_Bounds Cursor.Proofs_Concat Cursor.Proofs_Pruning Cursor.Proofs_Heap
  Cursor.Proofs_Merging Cursor.Proofs_Spec Cursor.Proofs_Compose
  Cursor.Fallible Cursor.FBounds Cursor.FPruning Cursor.FConcat Cursor.FMerging Cursor.FLazy Cursor.FCompose
  Cursor.Proofs_Fallible Cursor.Proofs_FBounds Cursor.Proofs_FPruning Cursor.Proofs_FConcat Cursor.Proofs_FMerging
  Cursor.Proofs_FLazy Cursor.Proofs_Recover Cursor.Proofs_ConcatRec Cursor.Proofs_FCompose Cursor.Proofs_FTree
  Cursor.Nestings Cursor.Proofs_Nestings.
Import ListNotations.
Local Open Scope Z_scope.

(* a merging cursor over any family of sorted cursors whose (key, timestamp) pairs are pairwise
   distinct behaves as one cursor over the sorted union of their entries; every program,
   direction reversals at every position included *)
Theorem C11_merging : forall S (c : cursor S) (ls : list (list entry)) (kids : list S),
  Forall sorted ls -> distinct (concat ls) ->
  Forall2 (fun s li => exists p, refines c s li p) kids ls ->
  refines (merging c) (m_new c kids) (merge_spec ls) (-1).
Proof.
  intros S c ls kids Hs Hd HF.
  exact (merging_refines c (merge_spec ls) ls kids (merge_spec_sorted ls Hd) (merge_spec_perm ls) Hs HF).
Qed.

(* the same, for any strictly sorted list L holding exactly the children's entries *)
Theorem C11_merging_any_sorted_union : forall S (c : cursor S) L (ls : list (list entry)) (kids : list S),
  sorted L -> Permutation (concat ls) L -> Forall sorted ls ->
  Forall2 (fun s li => exists p, refines c s li p) kids ls ->
  refines (merging c) (m_new c kids) L (-1).
Proof. exact @merging_refines. Qed.

(* a concatenating cursor (with the F2 and F3 repairs) over children whose concatenated entries
   are strictly sorted behaves as their concatenation; children may be empty and one key's
   versions may be split across adjacent children *)
Theorem C11_concat : forall S (c : cursor S) ls kids,
  sorted (concat ls) -> ls <> [] ->
  Forall2 (fun s li => exists p, refines c s li p) kids ls ->
  refines (concat_cursor c) (k_new c kids) (concat_spec ls) (-1).
Proof. exact @concat_refines. Qed.

(* a bounds cursor (with the F20 repair) behaves as the underlying cursor restricted to the
   interval: all nine combinations of bounds, empty and inverted intervals included *)
Theorem C11_bounds : forall S (c : cursor S) fuel lo hi l cur p,
  sorted l -> Z.of_nat fuel >= len l + 2 -> refines c cur l p ->
  refines (bounds c fuel lo hi) (b_new c lo hi cur) (bounds_spec lo hi l) (-1).
Proof. exact @bounds_refines. Qed.

(* a pruning cursor at timestamp t yields, per key, the newest version not newer than t unless
   it is a tombstone; `fuel` bounds the loops of the model and is never exhausted *)
Theorem C11_pruning : forall S (c : cursor S) fuel t l cur p,
  sorted l -> Z.of_nat fuel >= len l + 2 -> refines c cur l p ->
  refines (pruning c fuel t) (p_new c cur) (prune_spec t l) (-1).
Proof. exact @pruning_refines. Qed.

(* a lazy cursor behaves as the cursor it opens *)
Theorem C11_lazy : forall S (c : cursor S) mk l i0,
  refines c mk l i0 -> refines (lazy c mk) l_new (lazy_spec l) (-1).
Proof. exact @lazy_refines. Qed.

(* the five theorems compose: every well-formed nesting of the combinators (what a range scan is
   built from) gives, on every program, exactly the observations of the reference cursor over the
   composed specification.  run_model / run_spec are what the correspondence check executes. *)
Theorem C11_compose : forall e prog, wf e -> run_model e prog = run_spec e prog.
Proof. exact run_model_is_run_spec. Qed.

(* what `refines` means, spelled out *)
Theorem C11_refines_is_trace_equality : forall S (c : cursor S) s l i,
  refines c s l i <-> (-1 <= i <= len l /\ forall prog, run c prog s = run (ref l) prog i).
Proof. intros. reflexivity. Qed.

(* the specifications are the definitions of the property text: the sorted union is a sorted
   permutation of the children's entries (and distinctness is necessary for that); an entry
   survives pruning at t iff it is not newer than t, is not a tombstone, and no version of its
   key that is not newer than t is newer than it *)
Theorem C11_specs_are_the_definitions :
  (forall ls, distinct (concat ls) -> sorted (merge_spec ls) /\ Permutation (concat ls) (merge_spec ls)) /\
  (forall l, sorted l -> distinct l) /\
  (forall t l e, In e (prune_spec t l) <->
     In e l /\ (ets e <= t)%N /\ ev e <> None /\
     forall e', In e' l -> ek e' = ek e -> (ets e' <= t)%N -> (ets e' <= ets e)%N) /\
  (forall lo hi l e, In e (bounds_spec lo hi l) <-> In e l /\ in_bounds lo hi e = true).
Proof.
  split; [intros ls Hd; split; [now apply merge_spec_sorted|apply merge_spec_perm]|].
  split; [exact sorted_distinct|]. split.
  - intros t l e. unfold prune_spec. rewrite filter_In, visible_spec. tauto.
  - intros lo hi l e. unfold bounds_spec. apply filter_In.
Qed.

(* the heap loop of MergingCursor: any fuel >= len - index gives the same result, so the fuel of
   the model (len) is never what ends percolate_down *)
Theorem C11_heap_fuel_sufficient : forall A (less : A -> A -> bool) n1 n2 l j,
  (length l <= n1 + j)%nat -> (length l <= n2 + j)%nat ->
  percolate_down less n1 l j = percolate_down less n2 l j.
Proof. exact @percolate_fuel. Qed.

(* ======================================================================================
   Storage errors: children whose calls may return Err (Cursor/Fallible.v and F*.v transcribe
   every `?` of the five Rust files: where each combinator returns and what it leaves behind).

   `twin fc cq q m`: the fallible cursor fc has the total cursor cq as its twin: as long as a call
   does not return Err it IS cq's call (q forgets the error bookkeeping), and every call consumes
   at most one scheduled failure (m counts the pending ones), exactly when it returns Err - no
   swallowed error, no invented one, and the call stops at the first Err. *)

(* the source of errors: a cursor with a schedule of failing calls is the twin of the cursor *)
Theorem C11_errors_leaf : forall S (c : cursor S) junk,
  twin (failing c junk) c lf_st (fun x => pending (lf_sched x)).
Proof. exact @failing_twin. Qed.

(* each combinator over fallible children is the twin of the same combinator over their twins *)
Theorem C11_errors_twin_merging : forall S Sq (fc : fcursor S) (cq : cursor Sq) q m,
  twin fc cq q m -> twin (fmerging fc) (merging cq) (qm q) (mm m).
Proof. exact @fmerging_twin. Qed.
Theorem C11_errors_twin_concat : forall S Sq (fc : fcursor S) (cq : cursor Sq) q m,
  twin fc cq q m -> twin (fconcat fc) (concat_cursor cq) (qk q) (mk_ m).
Proof. exact @fconcat_twin. Qed.
Theorem C11_errors_twin_bounds : forall S Sq (fc : fcursor S) (cq : cursor Sq) q m,
  twin fc cq q m -> forall fuel lo hi, twin (fbounds fc fuel lo hi) (bounds cq fuel lo hi) (qb q) (mb m).
Proof. exact @fbounds_twin. Qed.
Theorem C11_errors_twin_pruning : forall S Sq (fc : fcursor S) (cq : cursor Sq) q m,
  twin fc cq q m -> forall fuel t, twin (fpruning fc fuel t) (pruning cq fuel t) (qp q) (mp m).
Proof. exact @fpruning_twin. Qed.
(* lazy: the opens fail on schedule; the opened cursor itself consumes no failures (m = 0) *)
Theorem C11_errors_twin_lazy : forall S Sq (fc : fcursor S) (cq : cursor Sq) q m,
  twin fc cq q m -> (forall s, m s = 0%nat) -> forall mk, twin (flazy fc mk) (lazy cq (q mk)) (ql q) ml.
Proof. exact @flazy_twin. Qed.

(* recovery: `krec c x l` = x's own seek / seek_to_first / seek_to_last make it a reference cursor
   over l.  From ANY state (whatever an earlier Err left behind) whose children recover, each
   combinator recovers: its absolute calls make it a reference cursor over its specification. *)
Theorem C11_recover_merging : forall S (c : cursor S) L tabs st,
  sorted L -> Permutation (concat tabs) L -> Forall sorted tabs ->
  Forall2 (fun s li => krec c s li) (m_kids st) tabs -> krec (merging c) st L.
Proof. exact @merging_krec. Qed.
Theorem C11_recover_concat : forall S (c : cursor S) ls st,
  sorted (concat ls) -> k_fail st = None -> (k_pos st < length ls)%nat ->
  Forall2 (fun s li => krec c s li) (k_kids st) ls -> krec (concat_cursor c) st (concat_spec ls).
Proof. exact @concat_krec. Qed.
Theorem C11_recover_bounds : forall S (c : cursor S) fuel lo hi l cur pos,
  sorted l -> Z.of_nat fuel >= len l + 2 -> krec c cur l ->
  krec (bounds c fuel lo hi) (mkB cur pos None) (bounds_spec lo hi l).
Proof. exact @bounds_krec. Qed.
Theorem C11_recover_pruning : forall S (c : cursor S) fuel t l cur sk,
  sorted l -> Z.of_nat fuel >= len l + 2 -> krec c cur l ->
  krec (pruning c fuel t) (mkP cur sk None) (prune_spec t l).
Proof. exact @pruning_krec. Qed.
Theorem C11_recover_lazy : forall S (c : cursor S) mk l i0 p,
  refines c mk l i0 -> (forall cur, p = LInst cur -> krec c cur l) -> krec (lazy c mk) p (lazy_spec l).
Proof. exact @lazy_krec. Qed.

(* a concatenating cursor does not even need its children to BE reference cursors at the start:
   it is enough that they recover (it re-positions a child absolutely whenever it moves onto it) *)
Theorem C11_concat_children_only_need_recover : forall S (c : cursor S) ls kids,
  sorted (concat ls) -> ls <> [] -> Forall2 (fun s li => krec c s li) kids ls ->
  refines (concat_cursor c) (k_new c kids) (concat_spec ls) (-1).
Proof. exact @concat_refines_rec. Qed.

(* For EVERY well-formed nesting over leaves that fail on any schedules (FCompose.frun_model is what
   the correspondence check runs against the real code with a failing cursor at every leaf), for
   every program, once the constructors have succeeded:
   (a) every Err the run reports is exactly one scheduled failure consumed, and vice versa; *)
Theorem C11_errors_reported : forall e u prog, fubuild (fdepth e) (fsize e + 2) e = Some u ->
  (mu (fafter (fucur (fdepth e)) prog u) + count_err (frun (fucur (fdepth e)) prog u) = mu u)%nat.
Proof. intros e u prog _. apply tree_accounting. Qed.

(* (b) everything returned before the first Err is the reference cursor's; *)
Theorem C11_errors_before_first : forall e u prog, wf (erase e) ->
  fubuild (fdepth e) (fsize e + 2) e = Some u ->
  fclean (fucur (fdepth e)) (spec_of (erase e)) prog u (-1).
Proof. intros e u prog Hw Hb. now apply tree_clean. Qed.

(* (c) and after an Err: every seek / seek_to_first / seek_to_last that succeeds, and everything after
   it up to the next Err, is the reference cursor's again (fmatchh, Fallible.v: next / prev between
   an Err and the next successful absolute call are the only unspecified observations; claims
   about later calls are made while no node of the model is in its own failure state, which the
   correspondence check reports if it ever happens).  Behaviour after a child error is not part
   of property C11; it is proved here as an extension of the model's coverage. *)
Theorem C11_absolute_calls_recover_after_error : forall e u prog, wf (erase e) ->
  fubuild (fdepth e) (fsize e + 2) e = Some u ->
  fmatchh (fucur (fdepth e)) healthy (spec_of (erase e)) prog u (Some (-1)).
Proof. intros e u prog Hw Hb. now apply tree_recovers. Qed.

(* ... and those observations really are unspecified: "a call that returned Err was a no-op" is
   false.  Two tables [a,c] and [b,d] merged; the 4th call on the second (its `next` inside the
   direction switch of MergingCursor::next, after the first child has already moved) returns
   Err; the retried next moves the first child again: the run yields b, d - c is skipped. *)
Definition exf_e (k : N) : entry := mkE [k] 1 (Some [k]).
Definition exf_expr : fexpr :=
  FEMerge [FETable [exf_e 97; exf_e 99] []; FETable [exf_e 98; exf_e 100] [false; false; false; true]].
Definition exf_prog : list op := [ONext; ONext; OPrev; ONext; ONext; ONext; OFirst; ONext].

Theorem C11_failed_call_is_not_a_noop :
  wf (erase exf_expr) /\
  map (fun o => match o with FKV kv => kv | _ => None end) (tl (frun_model exf_expr exf_prog)) <>
  fnoop_ref (spec_of (erase exf_expr)) exf_prog (tl (frun_model exf_expr exf_prog)) (-1).
Proof.
  split.
  - cbn [wf erase exf_expr map]. repeat split; try (apply sorted_of_bool; vm_compute; reflexivity).
    apply distinct_of_bool. vm_compute. reflexivity.
  - vm_compute. intros H. discriminate H.
Qed.

(* ======================================================================================
   The nestings lsmtk builds (Cursor/Nestings.v).  The range-scan nestings are in the Scan area
   (Props_C03.v: C03_scan_expr_wf, C03_scan_correct, C03_tree_scan_correct are corollaries of
   C11_compose); here the cursor over a compaction's inputs, which is also the garbage
   collector's cursor: MergingCursor::<SstCursor>::new over the input SSTs. *)

(* it is the reference cursor over the sorted union of the inputs, under every program *)
Theorem C11_compaction_input : forall tabs prog, Forall sorted tabs -> distinct (concat tabs) ->
  run_model (compaction_input tabs) prog = run (ref (merge_spec tabs)) prog ref_new.
Proof. exact compaction_input_correct. Qed.

(* perform_compaction's walk (seek_to_first, then next until None) reads exactly the sorted
   union: the k-th next yields its k-th entry, every entry once, then None *)
Theorem C11_compaction_walk_reads_sorted_union : forall tabs n, Forall sorted tabs -> distinct (concat tabs) ->
  map fst (run_model (compaction_input tabs) (compaction_walk n)) =
  None :: map (fun k => ent (merge_spec tabs) (Z.min (Z.of_nat k - 1) (len (merge_spec tabs)))) (seq 0 (S n)).
Proof. exact compaction_walk_reads_sorted_union. Qed.

(* the garbage collector's cursor (seek_to_first(); clone(); next()) is that reference cursor at
   its first entry *)
Theorem C11_gc_input : forall tabs prog, Forall sorted tabs -> distinct (concat tabs) ->
  run_model (compaction_input tabs) (gc_input_prefix ++ prog) =
  run (ref (merge_spec tabs)) (gc_input_prefix ++ prog) ref_new /\
  skipn 2 (run (ref (merge_spec tabs)) (gc_input_prefix ++ prog) ref_new) =
  run (ref (merge_spec tabs)) prog (Z.min 0 (len (merge_spec tabs))).
Proof. exact gc_input_correct. Qed.

(* when reading an input may return Err: what has been read before the first Err is the reference
   cursor's (a prefix of the sorted union), and every Err is reported *)
Theorem C11_compaction_input_errors : forall tabs u prog,
  Forall sorted (map fst tabs) -> distinct (concat (map fst tabs)) ->
  fubuild (fdepth (compaction_input_failing tabs)) (fsize (compaction_input_failing tabs) + 2)
          (compaction_input_failing tabs) = Some u ->
  fclean (fucur (fdepth (compaction_input_failing tabs))) (merge_spec (map fst tabs)) prog u (-1) /\
  (mu (fafter (fucur (fdepth (compaction_input_failing tabs))) prog u) +
   count_err (frun (fucur (fdepth (compaction_input_failing tabs))) prog u) = mu u)%nat.
Proof. exact compaction_input_failing_correct. Qed.

(* ---- non-vacuity: a concrete well-formed nesting (a scan-shaped one: prune over bounds over a
   merge of a concatenation and a table, with tombstones and a key split across tables) and a
   program with reversals; the model's observations are non-trivial *)
Definition ex_e (k : N) (ts : N) (v : option value) : entry := mkE [k] ts v.
Definition ex_expr : expr :=
  EPrune 4 (EBounds (Included [97%N]) (Excluded [100%N])
    (EMerge [EConcat [ETable [ex_e 97 5 (Some [1%N])]; ETable [ex_e 97 3 None; ex_e 98 4 (Some [2%N])]];
             ETable [ex_e 97 1 (Some [3%N]); ex_e 98 2 None; ex_e 99 0 (Some [4%N]); ex_e 100 0 (Some [5%N])]])).
Definition ex_prog : list op := [ONext; ONext; ONext; OPrev; OPrev; OSeek [99%N]; OPrev; OLast; OPrev; ONext].

Example ex_wf : wf ex_expr.
Proof.
  cbn [wf ex_expr]. repeat split; try discriminate; try (apply sorted_of_bool; vm_compute; reflexivity).
  apply distinct_of_bool. vm_compute. reflexivity.
Qed.

Example ex_nontrivial :
  run_model ex_expr ex_prog = run_spec ex_expr ex_prog /\
  map fst (run_model ex_expr ex_prog) =
    [None; Some (ex_e 98 4 (Some [2%N])); Some (ex_e 99 0 (Some [4%N])); None;
     Some (ex_e 99 0 (Some [4%N])); Some (ex_e 98 4 (Some [2%N])); Some (ex_e 99 0 (Some [4%N]));
     Some (ex_e 98 4 (Some [2%N])); None; Some (ex_e 99 0 (Some [4%N])); None].
Proof. split; [apply C11_compose; exact ex_wf|vm_compute; reflexivity]. Qed.
