(* Props_C11.v — the property theorems for C11 and nothing else.
   C11: "Merging, concatenating, pruning, bounds and lazy cursors equal their definitions".

   `refines c s l i` (Cursor/Ref.v) says: cursor c in state s gives, for EVERY finite program of
   seek_to_first / seek_to_last / seek / prev / next calls, the same key_value() observations
   (and no failure: no logic error, no panic, no loop out of fuel) as the reference cursor
   (sst::reference::ReferenceCursor) over the table l at index i - including next-after-prev
   and prev-after-next at every position, and tombstone entries.
   Every theorem takes its children as ARBITRARY cursors that refine reference cursors, so the
   theorems compose (C11_compose).  The models are those of the repaired code (F2, F3, F20). *)
From Coq Require Import NArith ZArith List Bool Permutation.
From Blue Require Import Cursor.Iface Cursor.Ref Cursor.Lazy Cursor.Bounds Cursor.Pruning Cursor.Concat
  Cursor.Merging Cursor.Spec Cursor.Compose Cursor.Proofs_Order Cursor.Proofs_Ref Cursor.Proofs_Lazy
  Cursor.Proofs_Bounds Cursor.Proofs_Concat Cursor.Proofs_Pruning Cursor.Proofs_Heap
  Cursor.Proofs_Merging Cursor.Proofs_Spec Cursor.Proofs_Compose.
Import ListNotations.
Local Open Scope Z_scope.

(* a merging cursor over any family of sorted cursors whose (key, timestamp) pairs are pairwise
   distinct behaves as one cursor over the sorted union of their entries; every program,
   direction reversals at every position included *)
Theorem C11_merging : forall S (c : cursor S) (ls : list (list entry)) (kids : list S),
  Forall sorted ls -> distinct (concat ls) ->
  Forall2 (fun s li => exists p, refines c s li p) kids ls ->
  refines (merging c) (m_new c kids) (merge_spec ls) (-1).
Proof.
  intros S c ls kids Hs Hd HF.
  exact (merging_refines c (merge_spec ls) ls kids (merge_spec_sorted ls Hd) (merge_spec_perm ls) Hs HF).
Qed.

(* the same, for any strictly sorted list L holding exactly the children's entries *)
Theorem C11_merging_any_sorted_union : forall S (c : cursor S) L (ls : list (list entry)) (kids : list S),
  sorted L -> Permutation (concat ls) L -> Forall sorted ls ->
  Forall2 (fun s li => exists p, refines c s li p) kids ls ->
  refines (merging c) (m_new c kids) L (-1).
Proof. exact @merging_refines. Qed.

(* a concatenating cursor (with the F2 and F3 repairs) over children whose concatenated entries
   are strictly sorted behaves as their concatenation; children may be empty and one key's
   versions may be split across adjacent children *)
Theorem C11_concat : forall S (c : cursor S) ls kids,
  sorted (concat ls) -> ls <> [] ->
  Forall2 (fun s li => exists p, refines c s li p) kids ls ->
  refines (concat_cursor c) (k_new c kids) (concat_spec ls) (-1).
Proof. exact @concat_refines. Qed.

(* a bounds cursor (with the F20 repair) behaves as the underlying cursor restricted to the
   interval: all nine combinations of bounds, empty and inverted intervals included *)
Theorem C11_bounds : forall S (c : cursor S) fuel lo hi l cur p,
  sorted l -> Z.of_nat fuel >= len l + 2 -> refines c cur l p ->
  refines (bounds c fuel lo hi) (b_new c lo hi cur) (bounds_spec lo hi l) (-1).
Proof. exact @bounds_refines. Qed.

(* a pruning cursor at timestamp t yields, per key, the newest version not newer than t unless
   it is a tombstone; `fuel` bounds the loops of the model and is never exhausted *)
Theorem C11_pruning : forall S (c : cursor S) fuel t l cur p,
  sorted l -> Z.of_nat fuel >= len l + 2 -> refines c cur l p ->
  refines (pruning c fuel t) (p_new c cur) (prune_spec t l) (-1).
Proof. exact @pruning_refines. Qed.

(* a lazy cursor behaves as the cursor it opens *)
Theorem C11_lazy : forall S (c : cursor S) mk l i0,
  refines c mk l i0 -> refines (lazy c mk) l_new (lazy_spec l) (-1).
Proof. exact @lazy_refines. Qed.

(* the five theorems compose: every well-formed nesting of the combinators (what a range scan is
   built from) gives, on every program, exactly the observations of the reference cursor over the
   composed specification.  run_model / run_spec are what the correspondence check executes. *)
Theorem C11_compose : forall e prog, wf e -> run_model e prog = run_spec e prog.
Proof. exact run_model_is_run_spec. Qed.

(* what `refines` means, spelled out *)
Theorem C11_refines_is_trace_equality : forall S (c : cursor S) s l i,
  refines c s l i <-> (-1 <= i <= len l /\ forall prog, run c prog s = run (ref l) prog i).
Proof. intros. reflexivity. Qed.

(* the specifications are the definitions of the property text: the sorted union is a sorted
   permutation of the children's entries (and distinctness is necessary for that); an entry
   survives pruning at t iff it is not newer than t, is not a tombstone, and no version of its
   key that is not newer than t is newer than it *)
Theorem C11_specs_are_the_definitions :
  (forall ls, distinct (concat ls) -> sorted (merge_spec ls) /\ Permutation (concat ls) (merge_spec ls)) /\
  (forall l, sorted l -> distinct l) /\
  (forall t l e, In e (prune_spec t l) <->
     In e l /\ (ets e <= t)%N /\ ev e <> None /\
     forall e', In e' l -> ek e' = ek e -> (ets e' <= t)%N -> (ets e' <= ets e)%N) /\
  (forall lo hi l e, In e (bounds_spec lo hi l) <-> In e l /\ in_bounds lo hi e = true).
Proof.
  split; [intros ls Hd; split; [now apply merge_spec_sorted|apply merge_spec_perm]|].
  split; [exact sorted_distinct|]. split.
  - intros t l e. unfold prune_spec. rewrite filter_In, visible_spec. tauto.
  - intros lo hi l e. unfold bounds_spec. apply filter_In.
Qed.

(* the heap loop of MergingCursor: any fuel >= len - index gives the same result, so the fuel of
   the model (len) is never what ends percolate_down *)
Theorem C11_heap_fuel_sufficient : forall A (less : A -> A -> bool) n1 n2 l j,
  (length l <= n1 + j)%nat -> (length l <= n2 + j)%nat ->
  percolate_down less n1 l j = percolate_down less n2 l j.
Proof. exact @percolate_fuel. Qed.

(* ---- non-vacuity: a concrete well-formed nesting (a scan-shaped one: prune over bounds over a
   merge of a concatenation and a table, with tombstones and a key split across tables) and a
   program with reversals; the model's observations are non-trivial *)
Definition ex_e (k : N) (ts : N) (v : option value) : entry := mkE [k] ts v.
Definition ex_expr : expr :=
  EPrune 4 (EBounds (Included [97%N]) (Excluded [100%N])
    (EMerge [EConcat [ETable [ex_e 97 5 (Some [1%N])]; ETable [ex_e 97 3 None; ex_e 98 4 (Some [2%N])]];
             ETable [ex_e 97 1 (Some [3%N]); ex_e 98 2 None; ex_e 99 0 (Some [4%N]); ex_e 100 0 (Some [5%N])]])).
Definition ex_prog : list op := [ONext; ONext; ONext; OPrev; OPrev; OSeek [99%N]; OPrev; OLast; OPrev; ONext].

Example ex_wf : wf ex_expr.
Proof.
  cbn [wf ex_expr]. repeat split; try discriminate; try (apply sorted_of_bool; vm_compute; reflexivity).
  apply distinct_of_bool. vm_compute. reflexivity.
Qed.

Example ex_nontrivial :
  run_model ex_expr ex_prog = run_spec ex_expr ex_prog /\
  map fst (run_model ex_expr ex_prog) =
    [None; Some (ex_e 98 4 (Some [2%N])); Some (ex_e 99 0 (Some [4%N])); None;
     Some (ex_e 99 0 (Some [4%N])); Some (ex_e 98 4 (Some [2%N])); Some (ex_e 99 0 (Some [4%N]));
     Some (ex_e 98 4 (Some [2%N])); None; Some (ex_e 99 0 (Some [4%N])); None].
Proof. split; [apply C11_compose; exact ex_wf|vm_compute; reflexivity]. Qed.
