(* Cursor/Proofs_Pruning.v — a PruningCursor at timestamp t over a sorted table behaves as a
   reference cursor over `prune_spec t l`: per key, the newest version not newer than t, unless
   it is a tombstone.  Forward scans (seek, next) and the three nested loops of prev. *)
From Coq Require Import NArith ZArith List Bool Lia.
From Blue Require Import Cursor.Iface Cursor.Ref Cursor.Pruning Cursor.Spec
  Cursor.Proofs_Order Cursor.Proofs_Ref.
Import ListNotations.
Local Open Scope Z_scope.

Definition dflt : entry := mkE [] 0%N None.
Definition at_ (l : list entry) (i : Z) : entry := nth (Z.to_nat i) l dflt.

Lemma ent_at l i : 0 <= i < len l -> ent l i = Some (at_ l i).
Proof.
  intros H. rewrite ent_in_range by exact H. unfold at_. apply nth_error_nth'. unfold len in H. lia.
Qed.
Lemma ent_at_inv l i e : ent l i = Some e -> e = at_ l i /\ 0 <= i < len l.
Proof.
  intros H. pose proof (ent_range _ _ _ H) as Hr. rewrite (ent_at _ _ Hr) in H. split; [congruence|exact Hr].
Qed.

Section PruneProof.
Context {S : Type} (c : cursor S) (fuel : nat) (t : N) (l : list entry).
Hypothesis Hsorted : sorted l.
Hypothesis Hfuel : Z.of_nat fuel >= len l + 2.

Notation n := (len l).
Notation K i := (ek (at_ l i)).
Notation T i := (ets (at_ l i)).
Notation V := (visible t l).

(* ---- facts about a table sorted by (key ascending, timestamp descending) *)
Lemma at_lt i j : 0 <= i -> i < j -> j < n -> elt (at_ l i) (at_ l j).
Proof. intros. eapply (sorted_ent_lt _ Hsorted i j); [lia| |]; apply ent_at; lia. Qed.

Lemma key_mono i j : 0 <= i -> i <= j -> j < n -> kle (K i) (K j).
Proof.
  intros. destruct (Z.eq_dec i j) as [->|]; [korder|]. apply elt_kle. apply at_lt; lia.
Qed.

Lemma same_key_ts i j : 0 <= i -> i < j -> j < n -> K i = K j -> (T j < T i)%N.
Proof. intros Hi Hij Hj Hk. apply (elt_same_key _ _ Hk). apply at_lt; lia. Qed.

Lemma sandwich i m j : 0 <= i -> i <= m -> m <= j -> j < n -> K i = K j -> K m = K i.
Proof.
  intros. assert (kle (K i) (K m)) by (apply key_mono; lia).
  assert (kle (K m) (K j)) by (apply key_mono; lia). korder.
Qed.

(* the newest version not newer than t, seen locally: the predecessor is another key or too new *)
Definition head (i : Z) : Prop :=
  (T i <= t)%N /\ (i = 0 \/ K (i - 1) <> K i \/ (t < T (i - 1))%N).

Lemma shadows_iff e e' : shadows t e e' = true <-> ek e' = ek e /\ (ets e' <= t)%N /\ (ets e < ets e')%N.
Proof.
  unfold shadows. rewrite !andb_true_iff, N.leb_le, N.ltb_lt.
  destruct (keqb_spec (ek e') (ek e)); intuition congruence.
Qed.

Lemma visible_iff i : 0 <= i < n ->
  (V (at_ l i) = true <-> head i /\ ev (at_ l i) <> None).
Proof.
  intros Hi. unfold visible. rewrite !andb_true_iff, N.leb_le, forallb_forall, negb_true_iff.
  split.
  - intros [[Hle Hall] Hv]. split; [split; [exact Hle|]|destruct (ev (at_ l i)); [discriminate|discriminate Hv]].
    destruct (Z.eq_dec i 0) as [|Hne]; [now left|right].
    destruct (keqb_spec (K (i - 1)) (K i)) as [Heq|]; [|now left]. right.
    destruct (N.ltb_spec t (T (i - 1))) as [|Hle']; [assumption|exfalso].
    specialize (Hall (at_ l (i - 1))). rewrite negb_true_iff in Hall.
    assert (shadows t (at_ l i) (at_ l (i - 1)) = true); [|rewrite Hall in H; [discriminate|]].
    + apply shadows_iff. repeat split; auto. apply same_key_ts; auto; lia.
    + eapply ent_In. apply ent_at. lia.
  - intros [[Hle Hhd] Hv]. split; [split; [exact Hle|]|destruct (ev (at_ l i)); [reflexivity|congruence]].
    intros e' Hin. rewrite negb_true_iff. destruct (shadows t (at_ l i) e') eqn:Hs; [exfalso|reflexivity].
    apply shadows_iff in Hs. destruct Hs as [Hk [Hle' Hlt]].
    destruct (In_ent _ _ Hin) as [i' Hi']. apply ent_at_inv in Hi'. destruct Hi' as [-> Hr'].
    assert (elt (at_ l i') (at_ l i)) as Hlt' by (apply (elt_same_key _ _ Hk); exact Hlt).
    assert (i' < i) as Hii by (eapply (sorted_ent_idx _ Hsorted); [apply ent_at; exact Hr'|apply ent_at; exact Hi|exact Hlt']).
    destruct Hhd as [->|[Hne|Hnew]]; [lia| |].
    + apply Hne. rewrite (sandwich i' (i - 1) i) by (try lia; exact Hk). exact Hk.
    + assert (K (i - 1) = K i') as Hk1 by (apply (sandwich i' (i - 1) i); try lia; exact Hk).
      destruct (Z.eq_dec i' (i - 1)) as [->|]; [lia|].
      assert (T (i - 1) < T i')%N by (apply same_key_ts; try lia; congruence). lia.
Qed.

Lemma visible_head i : 0 <= i < n -> V (at_ l i) = true -> head i.
Proof. intros Hi Hv. apply (visible_iff i Hi) in Hv. tauto. Qed.

(* nothing before the head of a key, within that key, is visible *)
Lemma head_earlier_invisible m i : 0 <= i -> i < m -> m < n -> head m -> K i = K m -> V (at_ l i) = false.
Proof.
  intros Hi Him Hm [Hle Hhd] Hk. destruct (V (at_ l i)) eqn:Hv; [exfalso|reflexivity].
  apply visible_head in Hv; [|lia]. destruct Hv as [Hlei _].
  destruct Hhd as [->|[Hne|Hnew]]; [lia| |].
  - apply Hne. rewrite (sandwich i (m - 1) m) by (try lia; exact Hk). exact Hk.
  - assert (K (m - 1) = K i) as Hk1 by (apply (sandwich i (m - 1) m); try lia; exact Hk).
    destruct (Z.eq_dec i (m - 1)) as [->|]; [lia|].
    assert (T (m - 1) < T i)%N by (apply same_key_ts; try lia; congruence). lia.
Qed.

(* rank is unchanged across invisible entries *)
Lemma rank_invisible a b : 0 <= a -> a <= b -> b <= n ->
  (forall i, a <= i < b -> V (at_ l i) = false) -> rank V l b = rank V l a.
Proof.
  intros Ha Hab Hb Hinv. replace b with (a + Z.of_nat (Z.to_nat (b - a))) by lia.
  assert (a + Z.of_nat (Z.to_nat (b - a)) <= b) as Hle by lia.
  induction (Z.to_nat (b - a)) as [|k IH]; [now rewrite Z.add_0_r|].
  rewrite Nat2Z.inj_succ in *. unfold Z.succ in *. rewrite Z.add_assoc.
  rewrite (rank_step V l _ (at_ l (a + Z.of_nat k))) by (apply ent_at; lia).
  rewrite Hinv by lia. rewrite IH by lia. lia.
Qed.

(* ---- the forward scan (seek, next) *)
Definition skip_inv (j : Z) (sk : option key) : Prop :=
  (forall k, sk = Some k -> exists i, 0 <= i < j /\ K i = k /\ (T i <= t)%N) /\
  (forall i, 0 <= i < j -> j < n -> K i = K j -> (T i <= t)%N -> sk = Some (K j)).

Lemma skip_inv_none j : j <= 0 -> skip_inv j None.
Proof. intros Hj. split; [discriminate|]. intros i Hi. lia. Qed.

Lemma skip_differs_false sk k : skip_differs sk k = false -> sk = Some k.
Proof.
  unfold skip_differs. destruct sk as [s|]; [|discriminate]. rewrite negb_false_iff.
  destruct (keqb_spec s k); [congruence|discriminate].
Qed.

Lemma examine_spec j sk : 0 <= j < n -> skip_inv j sk ->
  let e := at_ l j in
  let le := N.leb (ets e) t in
  if le && is_none (ev e) then V e = false /\ skip_inv (j + 1) (Some (K j))
  else if le && skip_differs sk (K j) then V e = true
  else V e = false /\ skip_inv (j + 1) sk.
Proof.
  intros Hj [H1 H2]. cbv zeta.
  assert (forall sk', (forall k, sk' = Some k -> exists i, 0 <= i < j + 1 /\ K i = k /\ (T i <= t)%N) ->
            (forall i, 0 <= i < j -> j + 1 < n -> K i = K (j + 1) -> (T i <= t)%N -> sk' = Some (K (j + 1))) ->
            ((T j <= t)%N -> j + 1 < n -> K j = K (j + 1) -> sk' = Some (K (j + 1))) ->
            skip_inv (j + 1) sk') as Hmk.
  { intros sk' A B C. split; [exact A|]. intros i Hi Hn Hk Ht.
    destruct (Z.eq_dec i j) as [->|]; [now apply C|]. apply (B i); auto; lia. }
  destruct (N.leb_spec (T j) t) as [Hle|Hgt]; cbn [andb].
  - destruct (ev (at_ l j)) as [v|] eqn:Hev; cbn [is_none].
    + destruct (skip_differs sk (K j)) eqn:Hd.
      * apply (visible_iff j Hj). split; [|congruence]. split; [exact Hle|].
        destruct (Z.eq_dec j 0) as [|Hne]; [now left|right].
        destruct (keqb_spec (K (j - 1)) (K j)) as [Heq|]; [|now left]. right.
        destruct (N.ltb_spec t (T (j - 1))) as [|Hle']; [assumption|exfalso].
        assert (sk = Some (K j)) as Hsk by (apply (H2 (j - 1)); auto; lia).
        rewrite Hsk in Hd. cbn in Hd. destruct (keqb_spec (K j) (K j)); [discriminate|congruence].
      * apply skip_differs_false in Hd. destruct (H1 _ Hd) as [i [Hi [Hk Ht]]].
        split.
        -- destruct (V (at_ l j)) eqn:Hv; [exfalso|reflexivity]. apply (visible_head j Hj) in Hv.
           destruct Hv as [_ [->|[Hne|Hnew]]]; [lia| |].
           ++ apply Hne. rewrite (sandwich i (j - 1) j) by (try lia; exact Hk). exact Hk.
           ++ assert (K (j - 1) = K i) by (apply (sandwich i (j - 1) j); try lia; exact Hk).
              destruct (Z.eq_dec i (j - 1)) as [->|]; [lia|].
              assert (T (j - 1) < T i)%N by (apply same_key_ts; try lia; congruence). lia.
        -- apply Hmk.
           ++ intros k Hk'. exists i. split; [lia|]. split; [congruence|exact Ht].
           ++ intros i' Hi' Hn Hk' Ht'. rewrite Hd. f_equal. rewrite <- Hk'.
              apply (sandwich i' j (j + 1)); try lia. exact Hk'.
           ++ intros _ Hn Hk'. rewrite Hd. now f_equal.
    + split.
      * destruct (V (at_ l j)) eqn:Hv; [exfalso|reflexivity]. apply (visible_iff j Hj) in Hv. tauto.
      * apply Hmk.
        -- intros k Hk. injection Hk as <-. exists j. repeat split; auto; lia.
        -- intros i Hi Hn Hk Ht. f_equal. rewrite <- Hk. apply (sandwich i j (j + 1)); try lia. exact Hk.
        -- intros _ Hn Hk. now f_equal.
  - split.
    + destruct (V (at_ l j)) eqn:Hv; [exfalso|reflexivity]. apply (visible_head j Hj) in Hv.
      destruct Hv as [Hle _]. lia.
    + apply Hmk.
      * intros k Hk. destruct (H1 _ Hk) as [i [Hi Hr]]. exists i. split; [lia|exact Hr].
      * intros i Hi Hn Hk Ht.
        assert (K j = K i) as Hkj by (apply (sandwich i j (j + 1)); try lia; exact Hk).
        rewrite (H2 i Hi ltac:(lia) ltac:(congruence) Ht). f_equal. congruence.
      * intros Hle. lia.
Qed.

Lemma pguard_ok f (st : pstate S) : p_fail st = None -> p_guard f st = f st.
Proof. intros H. unfold p_guard. now rewrite H. Qed.

Lemma refines_kv_at cur j : refines c cur l j -> 0 <= j < n -> c_kv c cur = Some (at_ l j).
Proof. intros H Hj. rewrite (refines_kv c _ _ _ H). now apply ent_at. Qed.
Lemma refines_kv_none cur j : refines c cur l j -> j = -1 \/ j = n -> c_kv c cur = None.
Proof. intros H Hj. rewrite (refines_kv c _ _ _ H). apply ent_none. lia. Qed.
Lemma refines_next_in cur j : refines c cur l j -> -1 <= j < n -> refines c (c_next c cur) l (j + 1).
Proof.
  intros H Hj. pose proof (refines_next c _ _ _ H) as Hn. unfold ref_next in Hn.
  destruct (Z.leb_spec n (j + 1)); [replace (j + 1) with n by lia|]; exact Hn.
Qed.
Lemma refines_prev_in cur j : refines c cur l j -> 0 <= j <= n -> refines c (c_prev c cur) l (j - 1).
Proof.
  intros H Hj. pose proof (refines_prev c _ _ _ H) as Hn. unfold ref_prev in Hn.
  destruct (Z.ltb_spec (j - 1) 0); [replace (j - 1) with (-1) by lia|]; exact Hn.
Qed.

(* the scan stops on the first visible entry at or after j (or at the end) *)
Definition scan_post (j : Z) (st : pstate S) : Prop :=
  exists j', p_fail st = None /\ refines c (p_cur st) l j' /\ j <= j' <= n /\
             rank V l j' = rank V l j /\
             (j' = n \/ (V (at_ l j') = true /\ p_skip st = Some (K j'))).

Lemma scan_post_intro j st j' : p_fail st = None -> refines c (p_cur st) l j' -> j <= j' <= n ->
  rank V l j' = rank V l j -> (j' = n \/ (V (at_ l j') = true /\ p_skip st = Some (K j'))) ->
  scan_post j st.
Proof. intros. exists j'. auto. Qed.

Lemma set_skip_key_at cur j : refines c cur l j -> 0 <= j < n -> set_skip_key c cur = Some (K j).
Proof. intros H Hj. unfold set_skip_key. now rewrite (refines_kv_at _ _ H Hj). Qed.

Lemma seek_loop_spec : forall m j cur sk, refines c cur l j -> 0 <= j <= n -> skip_inv j sk ->
  Z.of_nat m > n - j -> scan_post j (p_seek_loop c t m (mkP cur sk None)).
Proof.
  induction m as [|m IH]; intros j cur sk Hc Hj Hinv Hm.
  - assert (j = n) by lia. subst j. cbn [p_seek_loop p_cur]. rewrite (refines_kv_none _ _ Hc) by auto.
    apply (scan_post_intro _ _ n); cbn [p_cur p_skip p_fail]; auto; lia.
  - cbn [p_seek_loop p_cur p_skip p_fail]. destruct (Z.eq_dec j n) as [->|Hne].
    + rewrite (refines_kv_none _ _ Hc) by auto. apply (scan_post_intro _ _ n); cbn [p_cur p_skip p_fail]; auto; lia.
    + assert (0 <= j < n) as Hjr by lia. rewrite (refines_kv_at _ _ Hc Hjr).
      pose proof (examine_spec j sk Hjr Hinv) as Hex. cbv zeta in Hex.
      pose proof (refines_next_in _ _ Hc ltac:(lia)) as Hn.
      destruct (N.leb (T j) t && is_none (ev (at_ l j))).
      * destruct Hex as [Hv Hinv']. rewrite (set_skip_key_at _ _ Hc Hjr).
        destruct (IH (j + 1) _ _ Hn ltac:(lia) Hinv' ltac:(lia)) as [j' [Hf [Hr [Hjj [Hrk Hend]]]]].
        apply (scan_post_intro _ _ j'); auto; try lia. rewrite Hrk.
        rewrite (rank_step V l j (at_ l j)) by (now apply ent_at). rewrite Hv. lia.
      * destruct (N.leb (T j) t && skip_differs sk (K j)).
        -- apply (scan_post_intro _ _ j); cbn [p_cur p_skip p_fail]; rewrite ?(set_skip_key_at _ _ Hc Hjr); auto; try lia.
        -- destruct Hex as [Hv Hinv'].
           destruct (IH (j + 1) _ _ Hn ltac:(lia) Hinv' ltac:(lia)) as [j' [Hf [Hr [Hjj [Hrk Hend]]]]].
           apply (scan_post_intro _ _ j'); auto; try lia. rewrite Hrk.
           rewrite (rank_step V l j (at_ l j)) by (now apply ent_at). rewrite Hv. lia.
Qed.

Lemma next_loop_spec : forall m j cur sk, refines c cur l j -> -1 <= j <= n -> skip_inv (j + 1) sk ->
  Z.of_nat m > n - j -> scan_post (Z.min (j + 1) n) (p_next_loop c t m (mkP cur sk None)).
Proof.
  induction m as [|m IH]; intros j cur sk Hc Hj Hinv Hm; [lia|].
  cbn [p_next_loop p_cur p_skip p_fail]. destruct (Z.eq_dec j n) as [->|Hne].
  - pose proof (refines_next c _ _ _ Hc) as Hn. unfold ref_next in Hn.
    replace (n <=? n + 1) with true in Hn by (symmetry; apply Z.leb_le; lia).
    rewrite (refines_kv_none _ _ Hn) by auto. apply (scan_post_intro _ _ n); cbn [p_cur p_skip p_fail]; auto; try lia.
    replace (Z.min (n + 1) n) with n by lia. reflexivity.
  - pose proof (refines_next_in _ _ Hc ltac:(lia)) as Hn. replace (Z.min (j + 1) n) with (j + 1) by lia.
    destruct (Z.eq_dec (j + 1) n) as [He|Hne'].
    + rewrite (refines_kv_none _ _ Hn) by auto. apply (scan_post_intro _ _ (j + 1)); cbn [p_cur p_skip p_fail]; auto; try lia.
    + assert (0 <= j + 1 < n) as Hjr by lia. rewrite (refines_kv_at _ _ Hn Hjr).
      pose proof (examine_spec (j + 1) sk Hjr Hinv) as Hex. cbv zeta in Hex.
      destruct (N.leb (T (j + 1)) t && is_none (ev (at_ l (j + 1)))).
      * destruct Hex as [Hv Hinv']. rewrite (set_skip_key_at _ _ Hn Hjr).
        destruct (IH (j + 1) _ _ Hn ltac:(lia) Hinv' ltac:(lia)) as [j' [Hf [Hr [Hjj [Hrk Hend]]]]].
        replace (Z.min (j + 1 + 1) n) with (j + 1 + 1) in * by lia.
        apply (scan_post_intro _ _ j'); auto; try lia. rewrite Hrk.
        rewrite (rank_step V l (j + 1) (at_ l (j + 1))) by (now apply ent_at). rewrite Hv. lia.
      * destruct (N.leb (T (j + 1)) t && skip_differs sk (K (j + 1))).
        -- apply (scan_post_intro _ _ (j + 1)); cbn [p_cur p_skip p_fail]; rewrite ?(set_skip_key_at _ _ Hn Hjr); auto; try lia.
        -- destruct Hex as [Hv Hinv'].
           destruct (IH (j + 1) _ _ Hn ltac:(lia) Hinv' ltac:(lia)) as [j' [Hf [Hr [Hjj [Hrk Hend]]]]].
           replace (Z.min (j + 1 + 1) n) with (j + 1 + 1) in * by lia.
           apply (scan_post_intro _ _ j'); auto; try lia. rewrite Hrk.
           rewrite (rank_step V l (j + 1) (at_ l (j + 1))) by (now apply ent_at). rewrite Hv. lia.
Qed.

(* ---- prev: the three inner loops *)
Lemma prev_skip_spec : forall m q cur s, refines c cur l q -> -1 <= q < n -> Z.of_nat m > q + 1 ->
  exists j cur', refines c cur' l j /\ -1 <= j <= q /\ (forall i, j < i <= q -> K i = s) /\
    ((j = -1 /\ prev_skip_loop c m cur (Some s) = Ret (cur', None)) \/
     (0 <= j /\ K j <> s /\ prev_skip_loop c m cur (Some s) = Go (cur', None))).
Proof.
  induction m as [|m IH]; intros q cur s Hc Hq Hm.
  - assert (q = -1) by lia. subst q. exists (-1), cur. cbn [prev_skip_loop].
    rewrite (refines_kv_none _ _ Hc) by auto. split; [exact Hc|]. split; [lia|]. split; [intros; lia|]. left. auto.
  - cbn [prev_skip_loop]. destruct (Z.eq_dec q (-1)) as [->|Hne].
    + exists (-1), cur. rewrite (refines_kv_none _ _ Hc) by auto.
      split; [exact Hc|]. split; [lia|]. split; [intros; lia|]. left. auto.
    + assert (0 <= q < n) as Hqr by lia. rewrite (refines_kv_at _ _ Hc Hqr).
      destruct (keqb_spec s (K q)) as [Heq|Hneq]; cbn [negb].
      * pose proof (refines_prev_in _ _ Hc ltac:(lia)) as Hp.
        destruct (IH (q - 1) _ s Hp ltac:(lia) ltac:(lia)) as [j [cur' [Hr [Hj [Hall Hres]]]]].
        exists j, cur'. split; [exact Hr|]. split; [lia|]. split; [|exact Hres].
        intros i Hi. destruct (Z.eq_dec i q) as [->|]; [congruence|]. apply Hall. lia.
      * exists q, cur. split; [exact Hc|]. split; [lia|]. split; [intros; lia|]. right. split; [lia|]. split; [congruence|reflexivity].
Qed.

Lemma prev_skip_none m cur : prev_skip_loop c m cur None = Go (cur, None).
Proof. destruct m; reflexivity. Qed.

Lemma prev_back_spec : forall m j cur tg, refines c cur l j -> 0 <= j < n -> Z.of_nat m > j ->
  exists j2 cur', prev_back_loop c t m tg cur = Some cur' /\ refines c cur' l j2 /\ -1 <= j2 < j /\
    (forall i, j2 < i < j -> K i = tg /\ (T i <= t)%N) /\ (j2 = -1 \/ (t < T j2)%N \/ K j2 <> tg).
Proof.
  induction m as [|m IH]; intros j cur tg Hc Hj Hm; [lia|].
  cbn [prev_back_loop]. pose proof (refines_prev_in _ _ Hc ltac:(lia)) as Hp.
  destruct (Z.eq_dec j 0) as [->|Hne].
  - rewrite (refines_kv_none _ _ Hp) by auto. exists (-1), (c_prev c cur).
    split; [reflexivity|]. split; [exact Hp|]. split; [lia|]. split; [intros; lia|]. now left.
  - assert (0 <= j - 1 < n) as Hr by lia. rewrite (refines_kv_at _ _ Hp Hr).
    destruct (N.ltb_spec t (T (j - 1))) as [Hnew|Hold]; cbn [orb].
    + exists (j - 1), (c_prev c cur). split; [reflexivity|]. split; [exact Hp|]. split; [lia|].
      split; [intros; lia|]. right. now left.
    + destruct (keqb_spec (K (j - 1)) tg) as [Heq|Hneq]; cbn [negb].
      * destruct (IH (j - 1) _ tg Hp Hr ltac:(lia)) as [j2 [cur' [E [Hr2 [Hj2 [Hall Hend]]]]]].
        exists j2, cur'. split; [exact E|]. split; [exact Hr2|]. split; [lia|]. split; [|exact Hend].
        intros i Hi. destruct (Z.eq_dec i (j - 1)) as [->|]; [split; [exact Heq|exact Hold]|]. apply Hall. lia.
      * exists (j - 1), (c_prev c cur). split; [reflexivity|]. split; [exact Hp|]. split; [lia|].
        split; [intros; lia|]. right. now right.
Qed.

Lemma prev_fwd_pass m x cur tg : refines c cur l x -> 0 <= x < n -> (T x <= t)%N -> K x = tg ->
  prev_fwd_loop c t m tg cur = Some cur.
Proof.
  intros Hc Hx Hle Hk. destruct m; cbn [prev_fwd_loop]; rewrite (refines_kv_at _ _ Hc Hx);
    (replace (N.leb (T x) t) with true by (symmetry; apply N.leb_le; exact Hle));
    (destruct (keqb_spec (K x) tg); [reflexivity|congruence]).
Qed.

Lemma prev_fwd_step m x cur tg : refines c cur l x -> 0 <= x -> x + 1 < n ->
  ((t < T x)%N \/ K x <> tg) -> (T (x + 1) <= t)%N -> K (x + 1) = tg ->
  prev_fwd_loop c t (Datatypes.S m) tg cur = Some (c_next c cur).
Proof.
  intros Hc Hx Hx1 Hfail Hle Hk. cbn [prev_fwd_loop]. rewrite (refines_kv_at _ _ Hc ltac:(lia)).
  assert (N.leb (T x) t && keqb (K x) tg = false) as ->.
  { destruct (N.leb_spec (T x) t); cbn [andb]; [|reflexivity].
    destruct (keqb_spec (K x) tg); [|reflexivity]. destruct Hfail; [lia|congruence]. }
  apply (prev_fwd_pass m (x + 1)); auto; try lia. apply refines_next_in; [exact Hc|lia].
Qed.

(* ---- prev: the outer loop *)
Definition prev_inv (p : Z) (sk : option key) : Prop :=
  (p = -1 /\ sk = None) \/ (p = n /\ sk = None) \/
  (0 <= p < n /\ sk = Some (K p) /\ forall i, 0 <= i < p -> K i = K p -> V (at_ l i) = false).

Definition prev_post (p : Z) (st : pstate S) : Prop :=
  exists p', p_fail st = None /\ refines c (p_cur st) l p' /\ -1 <= p' /\
             rank V l (p' + 1) = rank V l p /\
             ((p' = -1 /\ p_skip st = None) \/
              (0 <= p' < n /\ V (at_ l p') = true /\ p_skip st = Some (K p'))).

Lemma rank_invisible_at a b : 0 <= a -> a <= b -> b <= n ->
  (forall i, a <= i < b -> V (at_ l i) = false) -> rank V l a = rank V l b.
Proof. intros. symmetry. now apply rank_invisible. Qed.

Lemma fuel_big : Z.of_nat fuel > n + 1.
Proof. lia. Qed.

Lemma prev_loop_spec : forall m p cur sk, refines c cur l p -> prev_inv p sk -> Z.of_nat m > p + 1 ->
  prev_post p (p_prev_loop c fuel t m (mkP cur sk None)).
Proof.
  pose proof fuel_big as Hfb.
  induction m as [|m IH]; intros p cur sk Hc Hinv Hm.
  { destruct Hinv as [[-> _]|[[-> _]|[Hp _]]]; pose proof (len_nonneg l); lia. }
  cbn [p_prev_loop p_cur p_skip p_fail].
  (* after the skip loop: at index j, with everything in (j, p) invisible *)
  assert (exists j curj, refines c curj l j /\ -1 <= j /\ j < Z.max p 0 /\ j < n /\
            (forall i, j < i < p -> V (at_ l i) = false) /\
            ((j = -1 /\ (prev_skip_loop c fuel (c_prev c cur) sk = Ret (curj, None) \/
                         prev_skip_loop c fuel (c_prev c cur) sk = Go (curj, None))) \/
             (0 <= j /\ prev_skip_loop c fuel (c_prev c cur) sk = Go (curj, None)))) as Hskip.
  { destruct Hinv as [[-> ->]|[[-> ->]|[Hp [-> Hearlier]]]].
    - exists (-1), (c_prev c cur). pose proof (refines_prev c _ _ _ Hc) as Hq. cbn in Hq.
      split; [exact Hq|]. pose proof (len_nonneg l). repeat split; try lia. left. split; [reflexivity|]. right. apply prev_skip_none.
    - pose proof (len_nonneg l). pose proof (refines_prev_in _ _ Hc ltac:(lia)) as Hq.
      exists (n - 1), (c_prev c cur). split; [exact Hq|]. repeat split; try lia.
      destruct (Z.eq_dec n 0) as [E|]; [left; split; [lia|]; right; apply prev_skip_none|right; split; [lia|apply prev_skip_none]].
    - pose proof (refines_prev_in _ _ Hc ltac:(lia)) as Hq.
      destruct (prev_skip_spec fuel (p - 1) _ (K p) Hq ltac:(lia) ltac:(lia)) as [j [curj [Hr [Hj [Hall Hres]]]]].
      exists j, curj. split; [exact Hr|]. split; [lia|]. split; [lia|]. split; [lia|]. split.
      + intros i Hi. apply Hearlier; [lia|]. apply Hall. lia.
      + destruct Hres as [[-> E]|[Hj0 [_ E]]]; [left; split; [reflexivity|left; exact E]|right; split; [exact Hj0|exact E]]. }
  destruct Hskip as [j [curj [Hrj [Hj1 [Hjp [Hjn [Hinvis Hres]]]]]]].
  assert (rank V l (j + 1) = rank V l p \/ p = -1) as Hrank.
  { assert (-1 <= p <= n) as Hpr by (pose proof (len_nonneg l); destruct Hinv as [[-> _]|[[-> _]|[Hp _]]]; lia).
    destruct (Z.eq_dec p (-1)); [now right|left]. apply rank_invisible_at; try lia.
    intros i Hi. apply Hinvis. lia. }
  assert (forall st', prev_post j st' -> V (at_ l j) = false -> 0 <= j -> prev_post p st') as Hcont.
  { intros st' [p' [Hf [Hr [Hp1 [Hrk Hend]]]]] Hvj Hj0. exists p'. split; [exact Hf|]. split; [exact Hr|]. split; [exact Hp1|].
    split; [|exact Hend]. rewrite Hrk. destruct Hrank as [ <- | -> ]; [|lia].
    rewrite (rank_step V l j (at_ l j)) by (apply ent_at; lia). rewrite Hvj. lia. }
  destruct Hres as [[-> Hres]|[Hj0 Hres]].
  - (* ran off the beginning *)
    assert (prev_post p (mkP curj None None)) as Hdone.
    { exists (-1). cbn [p_cur p_skip p_fail]. split; [reflexivity|]. split; [exact Hrj|]. split; [lia|].
      split; [|left; auto]. destruct Hrank as [ <- | -> ]; reflexivity. }
    destruct Hres as [ -> | -> ]; [exact Hdone|]. rewrite (refines_kv_none _ _ Hrj) by auto. exact Hdone.
  - rewrite Hres. assert (0 <= j < n) as Hjr by lia. rewrite (refines_kv_at _ _ Hrj Hjr).
    destruct (N.ltb_spec t (T j)) as [Hnew|Hold].
    + (* the oldest version of this key is too new: skip the key *)
      rewrite (set_skip_key_at _ _ Hrj Hjr).
      assert (V (at_ l j) = false) as Hvj.
      { destruct (V (at_ l j)) eqn:Hv; [exfalso|reflexivity]. apply (visible_head j Hjr) in Hv. destruct Hv. lia. }
      apply Hcont; [|exact Hvj|lia]. apply IH; [exact Hrj| |lia].
      right. right. split; [exact Hjr|]. split; [reflexivity|].
      intros i Hi Hk. destruct (V (at_ l i)) eqn:Hv; [exfalso|reflexivity].
      apply (visible_head i ltac:(lia)) in Hv. destruct Hv as [Hle _].
      assert (T j < T i)%N by (apply same_key_ts; try lia; exact Hk). lia.
    + destruct (prev_back_spec fuel j curj (K j) Hrj Hjr ltac:(lia)) as [j2 [cur2 [E2 [Hr2 [Hj2 [Hall2 Hend2]]]]]].
      rewrite E2.
      (* the newest version not newer than t is at j2 + 1 *)
      set (mm := j2 + 1).
      assert (exists cur3, refines c cur3 l mm /\
              prev_fwd_loop c t fuel (K j) (if has_key c cur2 then cur2 else c_next c cur2) = Some cur3) as [cur3 [Hr3 E3]].
      { assert ((T mm <= t)%N /\ K mm = K j) as [Hle3 Hk3].
        { destruct (Z.eq_dec mm j) as [->|]; [split; [exact Hold|reflexivity]|].
          destruct (Hall2 mm ltac:(unfold mm; lia)). auto. }
        destruct fuel as [|f] eqn:Ef; [lia|].
        destruct (Z.eq_dec j2 (-1)) as [Ej2|Nj2].
        - subst j2. unfold has_key. rewrite (refines_kv_none _ _ Hr2) by auto.
          pose proof (refines_next_in _ _ Hr2 ltac:(lia)) as Hn0.
          exists (c_next c cur2). split; [exact Hn0|]. apply (prev_fwd_pass _ mm); auto; unfold mm; lia.
        - assert (0 <= j2) as Hj20 by lia.
          assert ((t < T j2)%N \/ K j2 <> K j) as Hfail by (destruct Hend2 as [?|?]; [lia|assumption]).
          unfold has_key. rewrite (refines_kv_at _ _ Hr2 ltac:(lia)).
          exists (c_next c cur2). split; [apply refines_next_in; [exact Hr2|lia]|].
          apply (prev_fwd_step f j2); auto; try (unfold mm in *; lia). }
      rewrite E3. assert (0 <= mm <= j) as Hmr by (unfold mm; lia).
      rewrite (refines_kv_at _ _ Hr3 ltac:(lia)).
      assert ((T mm <= t)%N /\ K mm = K j) as [Hle3 Hk3].
      { destruct (Z.eq_dec mm j) as [->|]; [split; [exact Hold|reflexivity]|].
        destruct (Hall2 mm ltac:(unfold mm; lia)). auto. }
      replace (N.leb (T mm) t) with true by (symmetry; apply N.leb_le; exact Hle3).
      destruct (keqb_spec (K mm) (K j)) as [_|]; [|congruence]. cbn [andb negb].
      assert (head mm) as Hhead.
      { split; [exact Hle3|]. destruct (Z.eq_dec mm 0) as [|Hne0]; [now left|right].
        replace (mm - 1) with j2 by (unfold mm; lia).
        destruct Hend2 as [->|[Hf|Hf]]; [unfold mm in Hne0; lia|now right|left; congruence]. }
      assert (forall i, mm < i <= j -> V (at_ l i) = false) as Hmid.
      { intros i Hi. destruct (V (at_ l i)) eqn:Hv; [exfalso|reflexivity].
        apply (visible_head i ltac:(lia)) in Hv. destruct Hv as [_ [->|[Hne|Hnew]]]; [lia| |].
        - apply Hne. transitivity (K j).
          + destruct (Z.eq_dec (i - 1) mm) as [->|]; [exact Hk3|]. destruct (Hall2 (i - 1) ltac:(unfold mm in *; lia)). auto.
          + destruct (Z.eq_dec i j) as [->|]; [reflexivity|]. destruct (Hall2 i ltac:(unfold mm in *; lia)). auto.
        - destruct (Z.eq_dec (i - 1) mm) as [E|]; [rewrite E in Hnew; lia|].
          destruct (Hall2 (i - 1) ltac:(unfold mm in *; lia)). lia. }
      rewrite (set_skip_key_at _ _ Hr3 ltac:(lia)).
      destruct (ev (at_ l mm)) as [v|] eqn:Hev.
      * (* a value: this is the answer *)
        exists mm. cbn [p_cur p_skip p_fail]. split; [reflexivity|]. split; [exact Hr3|]. split; [lia|].
        split.
        -- destruct Hrank as [ <- | -> ]; [|lia]. apply rank_invisible_at; try lia. intros i Hi. apply Hmid. lia.
        -- right. split; [lia|]. split; [|reflexivity]. apply (visible_iff mm ltac:(lia)). split; [exact Hhead|congruence].
      * (* a tombstone: skip the key and continue *)
        assert (prev_post mm (p_prev_loop c fuel t m (mkP cur3 (Some (K mm)) None))) as Hrec.
        { apply IH; [exact Hr3| |lia]. right. right. split; [lia|]. split; [reflexivity|].
          intros i Hi Hk. apply (head_earlier_invisible mm i); auto; lia. }
        destruct Hrec as [p' [Hf [Hr [Hp1 [Hrk Hend]]]]]. exists p'. split; [exact Hf|]. split; [exact Hr|].
        split; [exact Hp1|]. split; [|exact Hend]. rewrite Hrk.
        destruct Hrank as [ <- | -> ]; [|lia]. apply rank_invisible_at; try lia.
        intros i Hi. destruct (Z.eq_dec i mm) as [->|]; [|apply Hmid; lia].
        destruct (V (at_ l mm)) eqn:Hv; [exfalso|reflexivity]. apply (visible_iff mm ltac:(lia)) in Hv. tauto.
Qed.

(* ---- the simulation *)
Notation PS := (prune_spec t l).
Notation M := (len (prune_spec t l)).

Definition pruning_R (st : pstate S) (P : Z) : Prop :=
  p_fail st = None /\ exists p, refines c (p_cur st) l p /\
    ((p = -1 /\ P = -1 /\ p_skip st = None) \/
     (0 <= p < n /\ V (at_ l p) = true /\ P = rank V l p /\ p_skip st = Some (K p)) \/
     (p = n /\ P = M)).

Lemma rank_n : rank V l n = M.
Proof. apply rank_len. lia. Qed.

Lemma rank_visible_lt p : 0 <= p < n -> V (at_ l p) = true -> rank V l p + 1 <= M.
Proof.
  intros Hp Hv. rewrite <- rank_n. pose proof (rank_mono V l (p + 1) n ltac:(lia)) as Hm.
  rewrite (rank_step V l p (at_ l p)) in Hm by (now apply ent_at). rewrite Hv in Hm. lia.
Qed.

Lemma scan_post_R j st : 0 <= j <= n -> scan_post j st -> pruning_R st (rank V l j).
Proof.
  intros Hj [j' [Hf [Hr [Hjj [Hrk Hend]]]]]. split; [exact Hf|]. exists j'. split; [exact Hr|].
  destruct Hend as [->|[Hv Hs]].
  - right. right. split; [reflexivity|]. rewrite <- Hrk. apply rank_n.
  - destruct (Z.eq_dec j' n) as [->|]; [right; right; split; [reflexivity|rewrite <- Hrk; apply rank_n]|].
    right. left. repeat split; auto; lia.
Qed.

Lemma prev_post_R p st P : prev_post p st -> rank V l p = P -> (P = -1 -> False) -> 0 <= P ->
  pruning_R st (ref_prev P).
Proof.
  intros [p' [Hf [Hr [Hp1 [Hrk Hend]]]]] HP _ HP0. split; [exact Hf|]. exists p'. split; [exact Hr|].
  unfold ref_prev. destruct Hend as [[-> Hs]|[Hp' [Hv Hs]]].
  - left. split; [reflexivity|]. split; [|exact Hs]. replace (-1 + 1) with 0 in Hrk by lia. rewrite rank_0 in Hrk.
    destruct (Z.ltb_spec (P - 1) 0); lia.
  - right. left. rewrite (rank_step V l p' (at_ l p')) in Hrk by (now apply ent_at). rewrite Hv in Hrk.
    pose proof (rank_range V l p'). repeat split; auto; try lia. destruct (Z.ltb_spec (P - 1) 0); lia.
Qed.

Theorem pruning_sim : sim (pruning c fuel t) PS pruning_R.
Proof.
  pose proof (len_nonneg l) as Hn0. pose proof (len_nonneg PS) as HM0. pose proof fuel_big as Hfb.
  constructor.
  - intros st P [_ [p [Hr HR]]]. destruct HR as [[-> [-> _]]|[[Hp [Hv [-> _]]]|[-> ->]]]; try lia.
    pose proof (rank_visible_lt p Hp Hv). pose proof (rank_range V l p). lia.
  - intros st P [_ [p [Hr HR]]]. cbn [pruning c_kv]. rewrite (refines_kv c _ _ _ Hr).
    destruct HR as [[-> [-> _]]|[[Hp [Hv [-> _]]]|[-> ->]]].
    + rewrite !ent_none by lia. reflexivity.
    + rewrite (ent_at l p Hp). symmetry. apply ent_filter_rank; [now apply ent_at|exact Hv].
    + rewrite !ent_none by lia. reflexivity.
  - intros st P [H _]. exact H.
  - intros o st P HR. pose proof HR as [Hf [p [Hr HRc]]]. destruct st as [cur sk f]. cbn [p_fail p_cur p_skip] in *. subst f.
    destruct o; cbn [step pruning c_first c_last c_seek c_prev c_next ref]; rewrite pguard_ok by reflexivity.
    + (* seek_to_first *)
      unfold p_first_raw. cbn [p_cur p_fail]. split; [reflexivity|]. exists (-1). split; [apply (refines_first c _ _ _ Hr)|].
      left. auto.
    + (* seek_to_last *)
      unfold p_last_raw. cbn [p_cur p_fail]. split; [reflexivity|]. exists n. split; [apply (refines_last c _ _ _ Hr)|].
      right. right. auto.
    + (* seek *)
      unfold p_seek_raw. cbn [p_cur p_fail]. pose proof (refines_seek c _ _ _ k Hr) as Hs.
      pose proof (count_range (below k) l) as Hq. set (q := count (below k) l) in *.
      assert (skip_inv q None) as Hinv.
      { split; [discriminate|]. intros i Hi Hqn Hk _. exfalso.
        pose proof (count_prefix _ l Hsorted (below_downclosed k) i _ (ent_at l i ltac:(lia))) as B1.
        pose proof (count_prefix _ l Hsorted (below_downclosed k) q _ (ent_at l q ltac:(lia))) as B2.
        fold q in B1, B2. unfold below in B1, B2. rewrite Hk in B1.
        destruct (kltb (K q) k); [destruct B2 as [B2 _]; specialize (B2 eq_refl); lia|destruct B1 as [_ B1]; specialize (B1 ltac:(lia)); discriminate]. }
      pose proof (seek_loop_spec fuel q _ None Hs Hq Hinv ltac:(lia)) as Hpost.
      unfold prune_spec. rewrite (count_filter_prefix _ _ _ Hsorted (below_downclosed k)). fold q.
      apply scan_post_R; [lia|exact Hpost].
    + (* prev *)
      unfold p_prev_raw. cbn [p_cur p_skip p_fail].
      destruct HRc as [[-> [-> ->]]|[[Hp [Hv [-> ->]]]|[-> ->]]].
      * unfold has_key. rewrite (refines_kv_none _ _ Hr) by auto.
        pose proof (prev_loop_spec fuel (-1) cur None Hr ltac:(left; auto) ltac:(lia)) as [p' [Hf' [Hr' [Hp1 [Hrk Hend]]]]].
        split; [exact Hf'|]. exists p'. split; [exact Hr'|]. rewrite (rank_neg V l (-1)) in Hrk by lia.
        destruct Hend as [[-> Hs]|[Hp' [Hv' Hs]]].
        -- left. auto.
        -- exfalso. rewrite (rank_step V l p' (at_ l p')) in Hrk by (now apply ent_at). rewrite Hv' in Hrk.
           pose proof (rank_range V l p'). lia.
      * unfold has_key. rewrite (refines_kv_at _ _ Hr Hp).
        assert (prev_inv p (Some (K p))) as Hinv.
        { right. right. split; [exact Hp|]. split; [reflexivity|]. intros i Hi Hk.
          apply (head_earlier_invisible p i); auto; try lia. now apply visible_head. }
        pose proof (prev_loop_spec fuel p cur _ Hr Hinv ltac:(lia)) as Hpost.
        pose proof (rank_range V l p). apply (prev_post_R p); auto; lia.
      * unfold has_key. rewrite (refines_kv_none _ _ Hr) by auto.
        pose proof (prev_loop_spec fuel n cur None Hr ltac:(right; left; auto) ltac:(lia)) as Hpost.
        apply (prev_post_R n); auto; try lia. apply rank_n.
    + (* next *)
      unfold p_next_raw. cbn [p_cur p_skip p_fail]. unfold ref_next.
      destruct HRc as [[-> [-> ->]]|[[Hp [Hv [-> ->]]]|[-> ->]]].
      * pose proof (next_loop_spec fuel (-1) cur None Hr ltac:(lia) (skip_inv_none (-1 + 1) ltac:(lia)) ltac:(lia)) as Hpost.
        apply (scan_post_R (Z.min (-1 + 1) n) _ ltac:(lia)) in Hpost.
        replace (Z.min (-1 + 1) n) with 0 in Hpost by lia. rewrite rank_0 in Hpost.
        destruct (Z.leb_spec M (-1 + 1)); [|exact Hpost].
        replace M with 0 by lia. exact Hpost.
      * assert (skip_inv (p + 1) (Some (K p))) as Hinv.
        { split.
          - intros k Hk. injection Hk as <-. exists p. split; [lia|]. split; [reflexivity|].
            apply visible_head in Hv; [|exact Hp]. destruct Hv. assumption.
          - intros i Hi Hpn Hk _. f_equal. rewrite <- Hk. apply (sandwich i p (p + 1)); try lia. exact Hk. }
        pose proof (next_loop_spec fuel p cur _ Hr ltac:(lia) Hinv ltac:(lia)) as Hpost.
        apply (scan_post_R (Z.min (p + 1) n) _ ltac:(lia)) in Hpost. replace (Z.min (p + 1) n) with (p + 1) in Hpost by lia.
        rewrite (rank_step V l p (at_ l p)) in Hpost by (now apply ent_at). rewrite Hv in Hpost.
        pose proof (rank_visible_lt p Hp Hv).
        destruct (Z.leb_spec M (rank V l p + 1)); [|exact Hpost].
        replace M with (rank V l p + 1) by lia. exact Hpost.
      * (* at the end: next stays *)
        destruct fuel as [|f]; [lia|]. cbn [p_next_loop p_cur p_skip p_fail].
        pose proof (refines_next c _ _ _ Hr) as Hn. unfold ref_next in Hn.
        replace (n <=? n + 1) with true in Hn by (symmetry; apply Z.leb_le; lia).
        rewrite (refines_kv_none _ _ Hn) by auto. split; [reflexivity|]. cbn [p_cur]. exists n. split; [exact Hn|].
        right. right. split; [reflexivity|]. destruct (Z.leb_spec M (M + 1)); lia.
Qed.

Lemma pruning_new_R cur p : refines c cur l p -> pruning_R (p_new c cur) (-1).
Proof.
  intros H. split; [reflexivity|]. exists (-1). split; [apply (refines_first c _ _ _ H)|]. left. auto.
Qed.

(* seek only needs the child to be a reference cursor AFTER its own seek (recovery after an Err:
   Proofs_Recover.v) *)
Lemma seek_R' k cur sk : refines c (c_seek c k cur) l (count (below k) l) ->
  pruning_R (p_seek_raw c fuel t k (mkP cur sk None)) (count (below k) (prune_spec t l)).
Proof.
  intros Hs. pose proof (len_nonneg l) as Hn0. pose proof fuel_big as Hfb.
  unfold p_seek_raw. cbn [p_cur p_fail].
  pose proof (count_range (below k) l) as Hq. set (q := count (below k) l) in *.
  assert (skip_inv q None) as Hinv.
  { split; [discriminate|]. intros i Hi Hqn Hk _. exfalso.
    pose proof (count_prefix _ l Hsorted (below_downclosed k) i _ (ent_at l i ltac:(lia))) as B1.
    pose proof (count_prefix _ l Hsorted (below_downclosed k) q _ (ent_at l q ltac:(lia))) as B2.
    fold q in B1, B2. unfold below in B1, B2. rewrite Hk in B1.
    destruct (kltb (K q) k); [destruct B2 as [B2 _]; specialize (B2 eq_refl); lia|destruct B1 as [_ B1]; specialize (B1 ltac:(lia)); discriminate]. }
  pose proof (seek_loop_spec fuel q _ None Hs Hq Hinv ltac:(lia)) as Hpost.
  unfold prune_spec. rewrite (count_filter_prefix _ _ _ Hsorted (below_downclosed k)). fold q.
  apply scan_post_R; [lia|exact Hpost].
Qed.
End PruneProof.

Theorem pruning_refines {S} (c : cursor S) (fuel : nat) (t : N) (l : list entry) cur p :
  sorted l -> Z.of_nat fuel >= len l + 2 -> refines c cur l p ->
  refines (pruning c fuel t) (p_new c cur) (prune_spec t l) (-1).
Proof.
  intros Hs Hf Hc. eapply sim_refines; [apply (pruning_sim c fuel t l Hs Hf)|].
  eapply pruning_new_R; eassumption.
Qed.
