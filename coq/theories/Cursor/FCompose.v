(* Cursor/FCompose.v — arbitrary nestings of the combinators over leaves that may return Err.
   Definitions only.  Mirrors Compose.v: `fexpr` adds a failure schedule to every table leaf
   (one outcome per call on that cursor) and to every lazy leaf (one outcome per open);
   `fucur d` is the fallible cursor over the tree state for nesting depth <= d.
   A constructor (`::new`) that returns Err means no cursor exists: fubuild gives None. *)
From Coq Require Import NArith ZArith List Bool.
From Blue Require Import Cursor.Iface Cursor.Ref Cursor.Lazy Cursor.Bounds Cursor.Pruning
  Cursor.Concat Cursor.Merging Cursor.Spec Cursor.Compose Cursor.Fallible Cursor.FBounds
  Cursor.FPruning Cursor.FConcat Cursor.FMerging Cursor.FLazy.
Import ListNotations.

Inductive fexpr :=
| FETable (l : list entry) (sched : list bool)
| FELazy (l : list entry) (opens : list bool)
| FEMerge (es : list fexpr)
| FEConcat (es : list fexpr)
| FEBounds (lo hi : bound) (e : fexpr)
| FEPrune (t : N) (e : fexpr).

Inductive fust :=
| FUT (x : lfstate tstate)
| FUL (mk : tstate) (x : fs (flstate tstate))
| FUM (x : fs (mstate fust))
| FUC (x : fs (kstate fust))
| FUB (fuel : nat) (lo hi : bound) (x : fs (bstate fust))
| FUP (fuel : nat) (t : N) (x : fs (pstate fust)).

(* the failing table leaf: a failed call leaves the cursor where it was *)
Definition ftcur : fcursor (lfstate tstate) := failing tcur (fun s => s).
(* the cursor a LazyCursor opens: an SstCursor, represented by the table cursor; only the opens
   are scheduled to fail (the harness cannot make a real SstCursor return Err) *)
Definition nofail {S} (c : cursor S) : fcursor S := mkF c (fun _ => false).

Definition fustep1 (child : fcursor fust) (o : op) (u : fust) : fust :=
  match u with
  | FUT x => FUT (step (f_cur ftcur) o x)
  | FUL mk x => FUL mk (step (f_cur (flazy (nofail tcur) mk)) o x)
  | FUM x => FUM (step (f_cur (fmerging child)) o x)
  | FUC x => FUC (step (f_cur (fconcat child)) o x)
  | FUB f lo hi x => FUB f lo hi (step (f_cur (fbounds child f lo hi)) o x)
  | FUP f t x => FUP f t (step (f_cur (fpruning child f t)) o x)
  end.
Definition fukv1 (child : fcursor fust) (u : fust) : option entry :=
  match u with
  | FUT x => c_kv (f_cur ftcur) x
  | FUL mk x => c_kv (f_cur (flazy (nofail tcur) mk)) x
  | FUM x => c_kv (f_cur (fmerging child)) x
  | FUC x => c_kv (f_cur (fconcat child)) x
  | FUB f lo hi x => c_kv (f_cur (fbounds child f lo hi)) x
  | FUP f t x => c_kv (f_cur (fpruning child f t)) x
  end.
Definition fufail1 (child : fcursor fust) (u : fust) : option failure :=
  match u with
  | FUT x => c_fail (f_cur ftcur) x
  | FUL mk x => c_fail (f_cur (flazy (nofail tcur) mk)) x
  | FUM x => c_fail (f_cur (fmerging child)) x
  | FUC x => c_fail (f_cur (fconcat child)) x
  | FUB f lo hi x => c_fail (f_cur (fbounds child f lo hi)) x
  | FUP f t x => c_fail (f_cur (fpruning child f t)) x
  end.
Definition fuerr (u : fust) : bool :=
  match u with
  | FUT x => lf_err x
  | FUL _ x => fs_err x
  | FUM x => fs_err x
  | FUC x => fs_err x
  | FUB _ _ _ x => fs_err x
  | FUP _ _ x => fs_err x
  end.
Definition fucur1 (child : fcursor fust) : fcursor fust := mkF {|
  c_first := fustep1 child OFirst; c_last := fustep1 child OLast;
  c_seek := fun k => fustep1 child (OSeek k);
  c_prev := fustep1 child OPrev; c_next := fustep1 child ONext;
  c_kv := fukv1 child; c_fail := fufail1 child |} fuerr.

Definition fstuck : fcursor fust := mkF {|
  c_first := fun u => u; c_last := fun u => u; c_seek := fun _ u => u;
  c_prev := fun u => u; c_next := fun u => u; c_kv := fun _ => None; c_fail := fun _ => None |}
  (fun _ => false).

Fixpoint fucur (d : nat) : fcursor fust :=
  match d with
  | O => fucur1 fstuck
  | Datatypes.S d' => fucur1 (fucur d')
  end.

(* all the children's constructors, in order; None as soon as one returns Err *)
Fixpoint all_some {A} (l : list (option A)) : option (list A) :=
  match l with
  | [] => Some []
  | None :: _ => None
  | Some a :: r => match all_some r with Some r' => Some (a :: r') | None => None end
  end.

Definition ok_or_none (u : fust) : option fust := if fuerr u then None else Some u.

Fixpoint fubuild (d fuel : nat) (e : fexpr) {struct e} : option fust :=
  match e with
  | FETable l sched => Some (FUT (lf_new (t_new l) sched))
  | FELazy l opens => Some (FUL (t_new l) (fl_new opens))
  | FEMerge es =>
      match all_some (map (fubuild (pred d) fuel) es) with
      | Some kids => ok_or_none (FUM (fm_new (fucur (pred d)) kids))
      | None => None
      end
  | FEConcat es =>
      match all_some (map (fubuild (pred d) fuel) es) with
      | Some kids => ok_or_none (FUC (fk_new (fucur (pred d)) kids))
      | None => None
      end
  | FEBounds lo hi e =>
      match fubuild (pred d) fuel e with
      | Some kid => ok_or_none (FUB fuel lo hi (fb_new (fucur (pred d)) lo hi kid))
      | None => None
      end
  | FEPrune t e =>
      match fubuild (pred d) fuel e with
      | Some kid => ok_or_none (FUP fuel t (fp_new (fucur (pred d)) kid))
      | None => None
      end
  end.

Fixpoint fdepth (e : fexpr) : nat :=
  match e with
  | FETable _ _ | FELazy _ _ => 0
  | FEMerge es | FEConcat es => Datatypes.S (fold_right (fun x a => Nat.max (fdepth x) a) 0 es)
  | FEBounds _ _ e | FEPrune _ e => Datatypes.S (fdepth e)
  end.
Fixpoint fsize (e : fexpr) : nat :=
  match e with
  | FETable l _ | FELazy l _ => length l
  | FEMerge es | FEConcat es => fold_right (fun x a => fsize x + a) 0 es
  | FEBounds _ _ e | FEPrune _ e => fsize e
  end.

(* forgetting the schedules gives the expression of Compose.v, hence the specification *)
Fixpoint erase (e : fexpr) : expr :=
  match e with
  | FETable l _ => ETable l
  | FELazy l _ => ELazy l
  | FEMerge es => EMerge (map erase es)
  | FEConcat es => EConcat (map erase es)
  | FEBounds lo hi e => EBounds lo hi (erase e)
  | FEPrune t e => EPrune t (erase e)
  end.

(* no node has entered its own failure state *)
Fixpoint healthy (u : fust) : bool :=
  match u with
  | FUT _ | FUL _ _ => true
  | FUM x => forallb healthy (m_kids (fs_st x))
  | FUC x => match k_fail (fs_st x) with None => forallb healthy (k_kids (fs_st x)) | Some _ => false end
  | FUB _ _ _ x => match b_fail (fs_st x) with None => healthy (b_cur (fs_st x)) | Some _ => false end
  | FUP _ _ x => match p_fail (fs_st x) with None => healthy (p_cur (fs_st x)) | Some _ => false end
  end.

(* health after construction and after every call (for the driver: a model that has become
   unhealthy is reported, never silently compared) *)
Fixpoint fhealth_run (d : nat) (prog : list op) (u : fust) : list bool :=
  healthy u :: match prog with [] => [] | o :: p => fhealth_run d p (step (f_cur (fucur d)) o u) end.

(* what the correspondence driver runs: the observation right after construction (Err if a
   constructor returned Err: there is no cursor then), and after every call; a call that returns
   Err does NOT end the run *)
Definition frun_model (e : fexpr) (prog : list op) : list fobs :=
  let d := fdepth e in
  match fubuild d (fsize e + 2) e with
  | None => [FErr]
  | Some u => fobserve (fucur d) u :: frun (fucur d) prog u
  end.

Definition fhealth_model (e : fexpr) (prog : list op) : list bool :=
  let d := fdepth e in
  match fubuild d (fsize e + 2) e with
  | None => []
  | Some u => fhealth_run d prog u
  end.
