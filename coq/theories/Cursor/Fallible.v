(* Cursor/Fallible.v — child calls that may return Err (storage errors).  Definitions only.

   A fallible cursor is a total state machine plus `f_err`: "the last call on it returned Err".
   A combinator over fallible children (FBounds.v, FPruning.v, FConcat.v, FMerging.v, FLazy.v)
   tests f_err after EVERY child call, exactly where the Rust has `?`, and returns at once with
   whatever it had mutated so far; its own f_err is the result of its last call.

   Where errors come from: `failing` wraps a total cursor with a schedule of outcomes, one per
   call (true = this call returns Err); a failing call does not move the cursor (`junk` says
   what it does to the state instead: the harness's FailingCursor leaves it unchanged).

   What is observed of a run: after every call either Err, or the combinator's own failure
   (panic / logic error / model fuel), or key_value(). *)
From Coq Require Import NArith ZArith List Bool.
From Blue Require Import Cursor.Iface Cursor.Ref.
Import ListNotations.

Record fcursor (S : Type) := mkF { f_cur : cursor S; f_err : S -> bool }.
Arguments mkF {S}. Arguments f_cur {S}. Arguments f_err {S}.

(* the state of a combinator over fallible children: the state of the total model plus the
   outcome of its last call *)
Record fs (St : Type) := mkFs { fs_st : St; fs_err : bool }.
Arguments mkFs {St}. Arguments fs_st {St}. Arguments fs_err {St}.

(* lift `St -> St * bool` (new state, returned Err?) to a step on fs *)
Definition fs_lift {St} (f : St -> St * bool) (x : fs St) : fs St :=
  let '(st, e) := f (fs_st x) in mkFs st e.

(* ---- the source of errors: a leaf that fails according to a schedule *)
Record lfstate (S : Type) := mkLf { lf_st : S; lf_sched : list bool; lf_err : bool }.
Arguments mkLf {S}. Arguments lf_st {S}. Arguments lf_sched {S}. Arguments lf_err {S}.

Section Failing.
Context {S : Type} (c : cursor S) (junk : S -> S).

Definition lf_step (f : S -> S) (x : lfstate S) : lfstate S :=
  match lf_sched x with
  | true :: r => mkLf (junk (lf_st x)) r true
  | false :: r => mkLf (f (lf_st x)) r false
  | [] => mkLf (f (lf_st x)) [] false
  end.

Definition failing : fcursor (lfstate S) := mkF {|
  c_first := lf_step (c_first c);
  c_last := lf_step (c_last c);
  c_seek := fun k => lf_step (c_seek c k);
  c_prev := lf_step (c_prev c);
  c_next := lf_step (c_next c);
  c_kv := fun x => c_kv c (lf_st x);
  c_fail := fun x => c_fail c (lf_st x) |} lf_err.

Definition lf_new (s : S) (sched : list bool) : lfstate S := mkLf s sched false.
End Failing.

(* scheduled failures not yet consumed *)
Definition pending (sched : list bool) : nat := length (filter (fun b => b) sched).

(* ---- runs and what they are compared with *)
Inductive fobs := FErr | FFail (f : failure) | FKV (kv : option entry).

Definition fobserve {S} (fc : fcursor S) (s : S) : fobs :=
  if f_err fc s then FErr
  else match c_fail (f_cur fc) s with Some f => FFail f | None => FKV (c_kv (f_cur fc) s) end.

Fixpoint frun {S} (fc : fcursor S) (prog : list op) (s : S) : list fobs :=
  match prog with
  | [] => []
  | o :: p => let s' := step (f_cur fc) o s in fobserve fc s' :: frun fc p s'
  end.

Definition is_abs (o : op) : bool :=
  match o with OFirst | OLast | OSeek _ => true | OPrev | ONext => false end.

(* The specification of a run with errors.  `oi` is the reference index, or None when the cursor
   is "dirty": a call has returned Err and no seek / seek_to_first / seek_to_last has succeeded
   since.  A successful absolute call makes the cursor equal to the reference again; while dirty,
   what next / prev return is unspecified (an Err is still an Err), and if such a call ends in
   the combinator's own failure nothing more is claimed. *)
Definition spec_next (l : list entry) (o : op) (oi : option Z) : option Z :=
  if is_abs o then Some (step (ref l) o 0%Z)
  else match oi with Some i => Some (step (ref l) o i) | None => None end.

Fixpoint fmatch {S} (fc : fcursor S) (l : list entry) (prog : list op) (s : S) (oi : option Z) : Prop :=
  match prog with
  | [] => True
  | o :: p =>
      let s' := step (f_cur fc) o s in
      if f_err fc s' then
        match c_fail (f_cur fc) s' with Some _ => True | None => fmatch fc l p s' None end
      else
        match spec_next l o oi with
        | Some i => fobserve fc s' = FKV (ent l i) /\ fmatch fc l p s' (Some i)
        | None => match c_fail (f_cur fc) s' with Some _ => True | None => fmatch fc l p s' None end
        end
  end.

(* the same with a health predicate h of the model ("no node of the tree has entered its own
   failure state": panic, logic error, model fuel) in place of the top-level c_fail: every
   observation that the specification determines is claimed unconditionally; the claims about
   LATER calls are made as long as the model is healthy *)
Fixpoint fmatchh {S} (fc : fcursor S) (h : S -> bool) (l : list entry) (prog : list op) (s : S) (oi : option Z) : Prop :=
  match prog with
  | [] => True
  | o :: p =>
      let s' := step (f_cur fc) o s in
      if f_err fc s' then h s' = true -> fmatchh fc h l p s' None
      else
        match spec_next l o oi with
        | Some i => fobserve fc s' = FKV (ent l i) /\ (h s' = true -> fmatchh fc h l p s' (Some i))
        | None => h s' = true -> fmatchh fc h l p s' None
        end
  end.

(* up to the first Err: every observation is the reference cursor's *)
Fixpoint fclean {S} (fc : fcursor S) (l : list entry) (prog : list op) (s : S) (i : Z) : Prop :=
  match prog with
  | [] => True
  | o :: p =>
      let s' := step (f_cur fc) o s in
      if f_err fc s' then True
      else fobserve fc s' = FKV (ent l (step (ref l) o i)) /\ fclean fc l p s' (step (ref l) o i)
  end.

Definition count_err (os : list fobs) : nat :=
  length (filter (fun o => match o with FErr => true | _ => false end) os).

(* the state after a program *)
Fixpoint fafter {S} (fc : fcursor S) (prog : list op) (s : S) : S :=
  match prog with [] => s | o :: p => fafter fc p (step (f_cur fc) o s) end.

(* "a call that returned Err was a no-op": the reference index simply does not move on an Err.
   This is NOT what the combinators guarantee (C11_failed_call_is_not_a_noop): after an Err, next
   and prev are unspecified until a seek / seek_to_first / seek_to_last succeeds. *)
Fixpoint fnoop_ref (l : list entry) (prog : list op) (os : list fobs) (i : Z) : list (option entry) :=
  match prog, os with
  | o :: p, FErr :: r => None :: fnoop_ref l p r i
  | o :: p, _ :: r => let i' := step (ref l) o i in ent l i' :: fnoop_ref l p r i'
  | _, _ => []
  end.
