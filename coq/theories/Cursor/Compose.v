(* Cursor/Compose.v — arbitrary nestings of the combinators (what a range scan of the LSM store
   is built from).  Definitions only.

   `expr` is a cursor expression; `ust` is the state of the composed cursor (a tree mirroring the
   expression); `ucur d` is the cursor over `ust` for expressions of nesting depth <= d, obtained
   by instantiating every combinator's child cursor with `ucur (d-1)` (this is what
   `Box<dyn Cursor>` children are).  An SstCursor under a LazyCursor is represented by the table
   cursor of its entries (property C10 is what relates an SstCursor to its entries). *)
From Coq Require Import NArith ZArith List Bool.
From Blue Require Import Cursor.Iface Cursor.Ref Cursor.Lazy Cursor.Bounds Cursor.Pruning
  Cursor.Concat Cursor.Merging Cursor.Spec.
Import ListNotations.

Inductive expr :=
| ETable (l : list entry)
| ELazy (l : list entry)
| EMerge (es : list expr)
| EConcat (es : list expr)
| EBounds (lo hi : bound) (e : expr)
| EPrune (t : N) (e : expr).

Inductive ust :=
| UT (s : tstate)
| UL (mk : tstate) (s : lpos tstate)
| UM (s : mstate ust)
| UC (s : kstate ust)
| UB (fuel : nat) (lo hi : bound) (s : bstate ust)
| UP (fuel : nat) (t : N) (s : pstate ust).

Definition ustep1 (child : cursor ust) (o : op) (u : ust) : ust :=
  match u with
  | UT s => UT (step tcur o s)
  | UL mk s => UL mk (step (lazy tcur mk) o s)
  | UM s => UM (step (merging child) o s)
  | UC s => UC (step (concat_cursor child) o s)
  | UB f lo hi s => UB f lo hi (step (bounds child f lo hi) o s)
  | UP f t s => UP f t (step (pruning child f t) o s)
  end.
Definition ukv1 (child : cursor ust) (u : ust) : option entry :=
  match u with
  | UT s => c_kv tcur s
  | UL mk s => c_kv (lazy tcur mk) s
  | UM s => c_kv (merging child) s
  | UC s => c_kv (concat_cursor child) s
  | UB f lo hi s => c_kv (bounds child f lo hi) s
  | UP f t s => c_kv (pruning child f t) s
  end.
Definition ufail1 (child : cursor ust) (u : ust) : option failure :=
  match u with
  | UT s => c_fail tcur s
  | UL mk s => c_fail (lazy tcur mk) s
  | UM s => c_fail (merging child) s
  | UC s => c_fail (concat_cursor child) s
  | UB f lo hi s => c_fail (bounds child f lo hi) s
  | UP f t s => c_fail (pruning child f t) s
  end.
Definition ucur1 (child : cursor ust) : cursor ust := {|
  c_first := ustep1 child OFirst; c_last := ustep1 child OLast;
  c_seek := fun k => ustep1 child (OSeek k);
  c_prev := ustep1 child OPrev; c_next := ustep1 child ONext;
  c_kv := ukv1 child; c_fail := ufail1 child |}.

(* never consulted: the child cursor of a leaf *)
Definition stuck : cursor ust := {|
  c_first := fun u => u; c_last := fun u => u; c_seek := fun _ u => u;
  c_prev := fun u => u; c_next := fun u => u; c_kv := fun _ => None; c_fail := fun _ => None |}.

Fixpoint ucur (d : nat) : cursor ust :=
  match d with
  | O => ucur1 stuck
  | Datatypes.S d' => ucur1 (ucur d')
  end.

(* the constructors (`::new`) applied bottom-up *)
Fixpoint ubuild (d fuel : nat) (e : expr) {struct e} : ust :=
  match e with
  | ETable l => UT (t_new l)
  | ELazy l => UL (t_new l) l_new
  | EMerge es => UM (m_new (ucur (pred d)) (map (ubuild (pred d) fuel) es))
  | EConcat es => UC (k_new (ucur (pred d)) (map (ubuild (pred d) fuel) es))
  | EBounds lo hi e => UB fuel lo hi (b_new (ucur (pred d)) lo hi (ubuild (pred d) fuel e))
  | EPrune t e => UP fuel t (p_new (ucur (pred d)) (ubuild (pred d) fuel e))
  end.

Fixpoint depth (e : expr) : nat :=
  match e with
  | ETable _ | ELazy _ => 0
  | EMerge es | EConcat es => Datatypes.S (fold_right (fun x a => Nat.max (depth x) a) 0 es)
  | EBounds _ _ e | EPrune _ e => Datatypes.S (depth e)
  end.

(* total number of table entries: a fuel that is always enough is size + 2 *)
Fixpoint size (e : expr) : nat :=
  match e with
  | ETable l | ELazy l => length l
  | EMerge es | EConcat es => fold_right (fun x a => size x + a) 0 es
  | EBounds _ _ e | EPrune _ e => size e
  end.

(* the specification of an expression: compose the list-level specifications *)
Fixpoint spec_of (e : expr) : list entry :=
  match e with
  | ETable l => l
  | ELazy l => lazy_spec l
  | EMerge es => merge_spec (map spec_of es)
  | EConcat es => concat_spec (map spec_of es)
  | EBounds lo hi e => bounds_spec lo hi (spec_of e)
  | EPrune t e => prune_spec t (spec_of e)
  end.

(* what the correspondence driver runs: the composed model and the reference cursor over the
   composed specification, on the same program *)
Definition run_model (e : expr) (prog : list op) : list obs :=
  let d := depth e in run (ucur d) prog (ubuild d (size e + 2) e).
Definition run_spec (e : expr) (prog : list op) : list obs :=
  run (ref (spec_of e)) prog ref_new.
