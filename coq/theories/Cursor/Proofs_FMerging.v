(* Cursor/Proofs_FMerging.v — MergingCursor over fallible children: twin of Merging.v's model. *)
From Coq Require Import NArith ZArith Arith List Bool Lia Permutation.
From Blue Require Import Cursor.Iface Cursor.Ref Cursor.Concat Cursor.Merging Cursor.Fallible Cursor.FMerging
  Cursor.Proofs_Ref Cursor.Proofs_Concat Cursor.Proofs_Heap Cursor.Proofs_Merging Cursor.Proofs_Fallible.
Import ListNotations.

(* the heap operations commute with a map that preserves the comparison *)
Section HeapMap.
Context {A B : Type} (f : A -> B) (lessA : A -> A -> bool) (lessB : B -> B -> bool).
Hypothesis Hless : forall a b, lessA a b = lessB (f a) (f b).

Lemma map_upd (l : list A) i (g : A -> A) (g' : B -> B) :
  (forall a, f (g a) = g' (f a)) -> map f (upd l i g) = upd (map f l) i g'.
Proof. intros H. revert i. induction l as [|a l IH]; intros [|i]; cbn; auto; [now rewrite H|now rewrite IH]. Qed.

Lemma less_at_map l i j : less_at lessA l i j = less_at lessB (map f l) i j.
Proof.
  unfold less_at. rewrite !nth_error_map. destruct (nth_error l i); cbn; [|reflexivity].
  destruct (nth_error l j); cbn; [apply Hless|reflexivity].
Qed.

Lemma swap_map (l : list A) i j : map f (swap l i j) = swap (map f l) i j.
Proof.
  unfold swap. rewrite !nth_error_map. destruct (nth_error l i) as [a|]; cbn; [|reflexivity].
  destruct (nth_error l j) as [b|]; cbn; [|reflexivity].
  rewrite (map_upd _ j (fun _ => a) (fun _ => f a)) by reflexivity.
  now rewrite (map_upd _ i (fun _ => b) (fun _ => f b)) by reflexivity.
Qed.

Lemma percolate_map : forall n l j, map f (percolate_down lessA n l j) = percolate_down lessB n (map f l) j.
Proof.
  induction n as [|n IH]; intros l j; cbn [percolate_down]; [reflexivity|].
  rewrite map_length. destruct (length l <=? j * 2 + 1); [reflexivity|].
  rewrite <- !less_at_map.
  match goal with |- context [if less_at lessA l j ?ch then _ else _] => destruct (less_at lessA l j ch) end; [reflexivity|].
  rewrite IH, swap_map. reflexivity.
Qed.

Lemma heapify_from_map : forall i l, map f (heapify_from lessA i l) = heapify_from lessB i (map f l).
Proof.
  induction i as [|i IH]; intros l; cbn [heapify_from]; [reflexivity|].
  rewrite IH, percolate_map, map_length. reflexivity.
Qed.
Lemma heapify_map l : map f (heapify lessA l) = heapify lessB (map f l).
Proof. unfold heapify. now rewrite heapify_from_map, map_length. Qed.
End HeapMap.

Definition msum {A} (m : A -> nat) (l : list A) : nat := fold_right (fun a n => m a + n) 0 l.
Lemma msum_perm {A} (m : A -> nat) l l' : Permutation l l' -> msum m l = msum m l'.
Proof. unfold msum. induction 1; cbn; lia. Qed.

Section FMergingTwin.
Context {S Sq : Type} (fc : fcursor S) (cq : cursor Sq) (q : S -> Sq) (m : S -> nat).
Hypothesis Htw : twin fc cq q m.
Local Notation c := (f_cur fc).
Local Notation e := (f_err fc).

Definition mmap (st : mstate S) : mstate Sq := mkM (m_fwd st) (map q (m_kids st)).
Definition qm (x : fs (mstate S)) : mstate Sq := mmap (fs_st x).
Definition mm (x : fs (mstate S)) : nat := msum m (m_kids (fs_st x)).

Lemma less_q fwd a b : is_less c fwd a b = is_less cq fwd (q a) (q b).
Proof. unfold is_less. now rewrite !(tw_kv _ _ _ _ Htw). Qed.

Lemma heapify_q fwd kids : map q (heapify (is_less c fwd) kids) = heapify (is_less cq fwd) (map q kids).
Proof. apply heapify_map. apply less_q. Qed.
Lemma percolate_q fwd n kids j : map q (percolate_down (is_less c fwd) n kids j) = percolate_down (is_less cq fwd) n (map q kids) j.
Proof. apply percolate_map. apply less_q. Qed.
Lemma heapify_sum fwd kids : msum m (heapify (is_less c fwd) kids) = msum m kids.
Proof. apply msum_perm. apply heapify_perm. Qed.
Lemma percolate_sum fwd n kids j : msum m (percolate_down (is_less c fwd) n kids j) = msum m kids.
Proof. apply msum_perm. apply percolate_perm. Qed.

(* a per-child sequence of calls f corresponds to the total ft *)
Definition kid_agrees (f : S -> S * bool) (ft : Sq -> Sq) : Prop :=
  forall s, (snd (f s) = false -> q (fst (f s)) = ft (q s)) /\ (m (fst (f s)) + b2n (snd (f s)) = m s)%nat.

Lemma call1_agrees o : kid_agrees (call1 fc (step c o)) (step cq o).
Proof.
  intros s. unfold call1. cbn [fst snd]. destruct (tw_step _ _ _ _ Htw o s) as [H1 H2]. split; assumption.
Qed.
Lemma call2_agrees o1 o2 : kid_agrees (call2 fc (step c o1) (step c o2)) (fun x => step cq o2 (step cq o1 x)).
Proof.
  intros s. unfold call2. destruct (tw_step _ _ _ _ Htw o1 s) as [H1 H2].
  destruct (e (step c o1 s)) eqn:E; cbn [fst snd b2n] in *.
  - split; [discriminate|exact H2].
  - destruct (tw_step _ _ _ _ Htw o2 (step c o1 s)) as [H3 H4]. split.
    + intros Hs. rewrite (H3 Hs), (H1 eq_refl). reflexivity.
    + lia.
Qed.

Lemma for_kids_agrees f ft : kid_agrees f ft -> forall kids,
  (snd (for_kids f kids) = false -> map q (fst (for_kids f kids)) = map ft (map q kids)) /\
  (msum m (fst (for_kids f kids)) + b2n (snd (for_kids f kids)) = msum m kids)%nat.
Proof.
  intros Hf. induction kids as [|s r IH]; cbn [for_kids]; [cbn; split; [reflexivity|lia]|].
  destruct (Hf s) as [H1 H2]. destruct (f s) as [s' [|]]; cbn [fst snd b2n] in *.
  - split; [discriminate|]. cbn [msum fold_right]. fold (msum m r). lia.
  - destruct IH as [I1 I2]. destruct (for_kids f r) as [r' er]; cbn [fst snd] in *.
    split.
    + intros Hs. cbn [map]. rewrite (H1 eq_refl), (I1 Hs). reflexivity.
    + cbn [msum fold_right]. fold (msum m r) (msum m r'). lia.
Qed.

Lemma on_root_agrees o kids :
  (snd (fon_root fc (step c o) kids) = false -> map q (fst (fon_root fc (step c o) kids)) = on_root (step cq o) (map q kids)) /\
  (msum m (fst (fon_root fc (step c o) kids)) + b2n (snd (fon_root fc (step c o) kids)) = msum m kids)%nat.
Proof.
  destruct kids as [|s r]; cbn [fon_root on_root upd map fst snd]; [cbn; split; [reflexivity|lia]|].
  destruct (tw_step _ _ _ _ Htw o s) as [H1 H2]. split.
  - intros Hs. now rewrite (H1 Hs).
  - cbn [msum fold_right]. lia.
Qed.

Definition magrees (f : mstate S -> mstate S * bool) (g : mstate Sq -> mstate Sq) : Prop :=
  forall st, (snd (f st) = false -> mmap (fst (f st)) = g (mmap st)) /\
             (msum m (m_kids (fst (f st))) + b2n (snd (f st)) = msum m (m_kids st))%nat.

Ltac fixsteps H :=
  change (step c OFirst) with (c_first c) in H; change (step c OLast) with (c_last c) in H;
  change (step c OPrev) with (c_prev c) in H; change (step c ONext) with (c_next c) in H;
  change (step cq OFirst) with (c_first cq) in H; change (step cq OLast) with (c_last cq) in H;
  change (step cq OPrev) with (c_prev cq) in H; change (step cq ONext) with (c_next cq) in H;
  repeat match type of H with context [step c (OSeek ?k)] => change (step c (OSeek k)) with (c_seek c k) in H end;
  repeat match type of H with context [step cq (OSeek ?k)] => change (step cq (OSeek k)) with (c_seek cq k) in H end.

Lemma first_magrees : magrees (fm_first fc) (m_first cq).
Proof.
  intros st. unfold fm_first, m_first. unfold mmap at 2. cbn [m_kids].
  destruct (for_kids_agrees _ _ (call2_agrees OFirst ONext) (m_kids st)) as [F1 F2]. fixsteps F1; fixsteps F2.
  destruct (for_kids (call2 fc (c_first c) (c_next c)) (m_kids st)) as [kids [|]]; cbn [fst snd b2n] in *.
  - split; [discriminate|exact F2].
  - pose proof (on_root_agrees OFirst (heapify (is_less c true) kids)) as [R1 R2]. fixsteps R1; fixsteps R2.
    destruct (fon_root fc (c_first c) (heapify (is_less c true) kids)) as [kids2 er]; cbn [fst snd m_kids] in *.
    split.
    + intros Hs. unfold mmap. cbn [m_fwd m_kids]. rewrite (R1 Hs), heapify_q, (F1 eq_refl). reflexivity.
    + rewrite heapify_sum in R2. lia.
Qed.

Lemma last_magrees : magrees (fm_last fc) (m_last cq).
Proof.
  intros st. unfold fm_last, m_last. unfold mmap at 2. cbn [m_kids].
  destruct (for_kids_agrees _ _ (call2_agrees OLast OPrev) (m_kids st)) as [F1 F2]. fixsteps F1; fixsteps F2.
  destruct (for_kids (call2 fc (c_last c) (c_prev c)) (m_kids st)) as [kids [|]]; cbn [fst snd b2n] in *.
  - split; [discriminate|exact F2].
  - pose proof (on_root_agrees OLast (heapify (is_less c false) kids)) as [R1 R2]. fixsteps R1; fixsteps R2.
    destruct (fon_root fc (c_last c) (heapify (is_less c false) kids)) as [kids2 er]; cbn [fst snd m_kids] in *.
    split.
    + intros Hs. unfold mmap. cbn [m_fwd m_kids]. rewrite (R1 Hs), heapify_q, (F1 eq_refl). reflexivity.
    + rewrite heapify_sum in R2. lia.
Qed.

Lemma seek_magrees k : magrees (fm_seek fc k) (m_seek cq k).
Proof.
  intros st. unfold fm_seek, m_seek. unfold mmap at 2. cbn [m_kids].
  destruct (for_kids_agrees _ _ (call1_agrees (OSeek k)) (m_kids st)) as [F1 F2]. fixsteps F1; fixsteps F2.
  destruct (for_kids (call1 fc (c_seek c k)) (m_kids st)) as [kids [|]]; cbn [fst snd b2n m_kids] in *.
  - split; [discriminate|exact F2].
  - split.
    + intros _. unfold mmap. cbn [m_fwd m_kids]. rewrite heapify_q, (F1 eq_refl). reflexivity.
    + rewrite heapify_sum. lia.
Qed.

Lemma prev_magrees : magrees (fm_prev fc) (m_prev cq).
Proof.
  intros st. unfold fm_prev, m_prev. unfold mmap at 2 3. cbn [m_kids m_fwd]. destruct (m_fwd st).
  - destruct (for_kids_agrees _ _ (call1_agrees OPrev) (m_kids st)) as [F1 F2]. fixsteps F1; fixsteps F2.
    destruct (for_kids (call1 fc (c_prev c)) (m_kids st)) as [kids [|]]; cbn [fst snd b2n m_kids] in *.
    + split; [discriminate|exact F2].
    + split.
      * intros _. unfold mmap. cbn [m_fwd m_kids]. rewrite heapify_q, (F1 eq_refl). reflexivity.
      * rewrite heapify_sum. lia.
  - pose proof (on_root_agrees OPrev (m_kids st)) as [R1 R2]. fixsteps R1; fixsteps R2.
    destruct (fon_root fc (c_prev c) (m_kids st)) as [kids [|]]; cbn [fst snd b2n m_kids] in *.
    + split; [discriminate|exact R2].
    + split.
      * intros _. unfold mmap. cbn [m_fwd m_kids]. rewrite percolate_q. rewrite <- (map_length q kids). rewrite (R1 eq_refl). reflexivity.
      * rewrite percolate_sum. lia.
Qed.

Lemma next_magrees : magrees (fm_next fc) (m_next cq).
Proof.
  intros st. unfold fm_next, m_next. unfold mmap at 2 3. cbn [m_kids m_fwd]. destruct (m_fwd st); cbn [negb].
  - pose proof (on_root_agrees ONext (m_kids st)) as [R1 R2]. fixsteps R1; fixsteps R2.
    destruct (fon_root fc (c_next c) (m_kids st)) as [kids [|]]; cbn [fst snd b2n m_kids] in *.
    + split; [discriminate|exact R2].
    + split.
      * intros _. unfold mmap. cbn [m_fwd m_kids]. rewrite percolate_q. rewrite <- (map_length q kids). rewrite (R1 eq_refl). reflexivity.
      * rewrite percolate_sum. lia.
  - destruct (for_kids_agrees _ _ (call1_agrees ONext) (m_kids st)) as [F1 F2]. fixsteps F1; fixsteps F2.
    destruct (for_kids (call1 fc (c_next c)) (m_kids st)) as [kids [|]]; cbn [fst snd b2n m_kids] in *.
    + split; [discriminate|exact F2].
    + split.
      * intros _. unfold mmap. cbn [m_fwd m_kids]. rewrite heapify_q, (F1 eq_refl). reflexivity.
      * rewrite heapify_sum. lia.
Qed.

Theorem fmerging_twin : twin (fmerging fc) (merging cq) qm mm.
Proof.
  constructor.
  - intros [[fwd kids] er]. cbn. destruct kids; cbn; [reflexivity|apply (tw_kv _ _ _ _ Htw)].
  - reflexivity.
  - intros o [st er]. unfold qm, mm.
    assert (forall f g, magrees f g ->
              (fs_err (fs_lift f (mkFs st er)) = false -> mmap (fs_st (fs_lift f (mkFs st er))) = g (mmap st)) /\
              (msum m (m_kids (fs_st (fs_lift f (mkFs st er)))) + b2n (fs_err (fs_lift f (mkFs st er))) = msum m (m_kids st))%nat) as Hl.
    { intros f g H. unfold fs_lift. cbn [fs_st]. destruct (H st) as [H1 H2]. destruct (f st) as [st' er']. exact (conj H1 H2). }
    destruct o; cbn [step fmerging merging f_cur f_err c_first c_last c_seek c_prev c_next fs_st].
    + apply Hl, first_magrees.
    + apply Hl, last_magrees.
    + apply Hl, seek_magrees.
    + apply Hl, prev_magrees.
    + apply Hl, next_magrees.
Qed.
End FMergingTwin.

(* ---- whatever the calls do, Err or not, every child only moves by its own calls and the array
   is only permuted: a family of child properties (one per table) that the children's calls
   preserve is preserved up to the order of the tables (used for recovery after an Err) *)
Section FMergingInv.
Context {S : Type} (fc : fcursor S).
Local Notation c := (f_cur fc).
Context {T : Type} (P : S -> T -> Prop).
Hypothesis HP : forall o s t, P s t -> P (step c o s) t.

Lemma for_kids_inv f : (forall s t, P s t -> P (fst (f s)) t) ->
  forall kids ts, Forall2 P kids ts -> Forall2 P (fst (for_kids f kids)) ts.
Proof.
  intros Hf kids ts H. induction H as [|s t kids ts Hs H IH]; cbn [for_kids fst]; [constructor|].
  pose proof (Hf s t Hs) as Hs'. destruct (f s) as [s' [|]]; cbn [fst] in *.
  - constructor; assumption.
  - destruct (for_kids f kids) as [r' er']; cbn [fst] in *. constructor; assumption.
Qed.

Lemma call1_inv o s t : P s t -> P (fst (call1 fc (step c o) s)) t.
Proof. intros H. unfold call1. cbn [fst]. now apply HP. Qed.
Lemma call2_inv o1 o2 s t : P s t -> P (fst (call2 fc (step c o1) (step c o2) s)) t.
Proof.
  intros H. unfold call2. destruct (f_err fc (step c o1 s)); cbn [fst]; [now apply HP|]. apply HP. now apply HP.
Qed.

Lemma on_root_inv o kids ts : Forall2 P kids ts -> Forall2 P (fst (fon_root fc (step c o) kids)) ts.
Proof. intros H. destruct H; cbn [fon_root fst]; constructor; auto. Qed.

Lemma perm_inv kids kids' ts : Permutation kids' kids -> Forall2 P kids ts ->
  exists ts', Forall2 P kids' ts' /\ Permutation ts' ts.
Proof.
  intros Hp H. destruct (Forall2_perm _ _ _ _ H (Permutation_sym Hp)) as [ts' [H1 H2]].
  exists ts'. split; [exact H2|now symmetry].
Qed.

Theorem fmerging_inv o x ts : Forall2 P (m_kids (fs_st x)) ts ->
  exists ts', Forall2 P (m_kids (fs_st (step (f_cur (fmerging fc)) o x))) ts' /\ Permutation ts' ts.
Proof.
  intros H. destruct x as [st er]. cbn [fs_st] in H.
  assert (forall kids (n : nat) fwd, Forall2 P kids ts -> exists ts', Forall2 P (heapify (is_less c fwd) kids) ts' /\ Permutation ts' ts) as Hh
    by (intros kids n fwd Hk; eapply perm_inv; [apply heapify_perm|exact Hk]).
  assert (forall kids (n : nat) fwd, Forall2 P kids ts -> exists ts', Forall2 P (percolate_down (is_less c fwd) n kids 0) ts' /\ Permutation ts' ts) as Hpd
    by (intros kids n fwd Hk; eapply perm_inv; [apply percolate_perm|exact Hk]).
  destruct o; cbn [step fmerging f_cur c_first c_last c_seek c_prev c_next]; unfold fs_lift; cbn [fs_st].
  - unfold fm_first. pose proof (for_kids_inv _ (call2_inv OFirst ONext) _ _ H) as H1.
    change (step c OFirst) with (c_first c) in H1. change (step c ONext) with (c_next c) in H1.
    destruct (for_kids (call2 fc (c_first c) (c_next c)) (m_kids st)) as [kids [|]]; cbn [fst fs_st m_kids] in *; [eauto|].
    destruct (Hh kids O true H1) as [ts1 [H2 Hp2]].
    pose proof (on_root_inv OFirst _ _ H2) as H3. change (step c OFirst) with (c_first c) in H3.
    destruct (fon_root fc (c_first c) (heapify (is_less c true) kids)) as [kids2 er2]; cbn [fst fs_st m_kids] in *. eauto.
  - unfold fm_last. pose proof (for_kids_inv _ (call2_inv OLast OPrev) _ _ H) as H1.
    change (step c OLast) with (c_last c) in H1. change (step c OPrev) with (c_prev c) in H1.
    destruct (for_kids (call2 fc (c_last c) (c_prev c)) (m_kids st)) as [kids [|]]; cbn [fst fs_st m_kids] in *; [eauto|].
    destruct (Hh kids O false H1) as [ts1 [H2 Hp2]].
    pose proof (on_root_inv OLast _ _ H2) as H3. change (step c OLast) with (c_last c) in H3.
    destruct (fon_root fc (c_last c) (heapify (is_less c false) kids)) as [kids2 er2]; cbn [fst fs_st m_kids] in *. eauto.
  - unfold fm_seek. pose proof (for_kids_inv _ (call1_inv (OSeek k)) _ _ H) as H1.
    change (step c (OSeek k)) with (c_seek c k) in H1.
    destruct (for_kids (call1 fc (c_seek c k)) (m_kids st)) as [kids [|]]; cbn [fst fs_st m_kids] in *; [eauto|].
    apply (Hh kids O true H1).
  - unfold fm_prev. destruct (m_fwd st).
    + pose proof (for_kids_inv _ (call1_inv OPrev) _ _ H) as H1. change (step c OPrev) with (c_prev c) in H1.
      destruct (for_kids (call1 fc (c_prev c)) (m_kids st)) as [kids [|]]; cbn [fst fs_st m_kids] in *; [eauto|].
      apply (Hh kids O false H1).
    + pose proof (on_root_inv OPrev _ _ H) as H3. change (step c OPrev) with (c_prev c) in H3.
      destruct (fon_root fc (c_prev c) (m_kids st)) as [kids [|]]; cbn [fst fs_st m_kids] in *; [eauto|].
      apply (Hpd kids (length kids) false H3).
  - unfold fm_next. destruct (m_fwd st); cbn [negb].
    + pose proof (on_root_inv ONext _ _ H) as H3. change (step c ONext) with (c_next c) in H3.
      destruct (fon_root fc (c_next c) (m_kids st)) as [kids [|]]; cbn [fst fs_st m_kids] in *; [eauto|].
      apply (Hpd kids (length kids) true H3).
    + pose proof (for_kids_inv _ (call1_inv ONext) _ _ H) as H1. change (step c ONext) with (c_next c) in H1.
      destruct (for_kids (call1 fc (c_next c)) (m_kids st)) as [kids [|]]; cbn [fst fs_st m_kids] in *; [eauto|].
      apply (Hh kids O true H1).
Qed.
End FMergingInv.
