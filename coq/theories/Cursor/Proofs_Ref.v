(* Cursor/Proofs_Ref.v — lists indexed by Z, strictly sorted tables, counting and ranking under a
   filter, and the refinement / simulation infrastructure shared by all combinator proofs. *)
From Coq Require Import NArith ZArith List Bool Lia Permutation.
From Blue Require Import Cursor.Iface Cursor.Ref Cursor.Proofs_Order.
Import ListNotations.
Local Open Scope Z_scope.

(* ---------------------------------------------------------------- len / ent *)
Lemma len_nonneg {A} (l : list A) : 0 <= len l.
Proof. unfold len. lia. Qed.
Lemma len_nil {A} : len (@nil A) = 0.
Proof. reflexivity. Qed.
Lemma len_cons {A} (a : A) l : len (a :: l) = len l + 1.
Proof. unfold len. cbn [length]. lia. Qed.
Lemma len_app {A} (l1 l2 : list A) : len (l1 ++ l2) = len l1 + len l2.
Proof. unfold len. rewrite app_length. lia. Qed.
Lemma len_map {A B} (f : A -> B) l : len (map f l) = len l.
Proof. unfold len. now rewrite map_length. Qed.

Lemma ent_in_range l i : 0 <= i < len l -> ent l i = nth_error l (Z.to_nat i).
Proof.
  intros H. unfold ent.
  destruct (Z.leb_spec 0 i); destruct (Z.ltb_spec i (len l)); cbn; try lia. reflexivity.
Qed.
Lemma ent_none l i : i < 0 \/ len l <= i -> ent l i = None.
Proof.
  intros H. unfold ent.
  destruct (Z.leb_spec 0 i); destruct (Z.ltb_spec i (len l)); cbn; try lia; reflexivity.
Qed.
Lemma ent_range l i e : ent l i = Some e -> 0 <= i < len l.
Proof.
  unfold ent. destruct (Z.leb_spec 0 i); destruct (Z.ltb_spec i (len l)); cbn; try discriminate. lia.
Qed.
Lemma ent_some l i : 0 <= i < len l -> exists e, ent l i = Some e.
Proof.
  intros H. rewrite ent_in_range by exact H.
  destruct (nth_error l (Z.to_nat i)) eqn:E; [eauto|].
  apply nth_error_None in E. unfold len in H. lia.
Qed.
Lemma ent_none_inv l i : ent l i = None -> i < 0 \/ len l <= i.
Proof.
  intros H. destruct (Z_lt_dec i 0); [now left|]. destruct (Z_le_dec (len l) i); [now right|].
  destruct (ent_some l i) as [e E]; [lia|]. congruence.
Qed.
Lemma ent_nil i : ent [] i = None.
Proof. apply ent_none. unfold len. cbn. lia. Qed.
Lemma ent_cons_0 a l : ent (a :: l) 0 = Some a.
Proof. rewrite ent_in_range; [reflexivity|]. rewrite len_cons. pose proof (len_nonneg l). lia. Qed.
Lemma ent_cons_S a l i : 0 <= i -> ent (a :: l) (i + 1) = ent l i.
Proof.
  intros H. destruct (Z_lt_dec i (len l)).
  - rewrite !ent_in_range by (rewrite ?len_cons; lia).
    replace (Z.to_nat (i + 1)) with (Datatypes.S (Z.to_nat i)) by lia. reflexivity.
  - rewrite !ent_none by (rewrite ?len_cons; lia). reflexivity.
Qed.
Lemma ent_cons_pos a l i : 0 < i -> ent (a :: l) i = ent l (i - 1).
Proof. intros H. replace i with ((i - 1) + 1) at 1 by lia. apply ent_cons_S. lia. Qed.
Lemma ent_app_l l1 l2 i : i < len l1 -> ent (l1 ++ l2) i = ent l1 i.
Proof.
  intros H. destruct (Z_lt_dec i 0).
  - rewrite !ent_none by lia. reflexivity.
  - rewrite !ent_in_range by (rewrite ?len_app; pose proof (len_nonneg l2); lia).
    apply nth_error_app1. unfold len in H. lia.
Qed.
Lemma ent_app_r l1 l2 i : len l1 <= i -> ent (l1 ++ l2) i = ent l2 (i - len l1).
Proof.
  intros H. pose proof (len_nonneg l1). destruct (Z_lt_dec i (len l1 + len l2)).
  - rewrite !ent_in_range by (rewrite ?len_app; lia).
    rewrite nth_error_app2 by (unfold len in H; lia). f_equal. unfold len. lia.
  - rewrite !ent_none by (rewrite ?len_app; lia). reflexivity.
Qed.
Lemma ent_In l i e : ent l i = Some e -> In e l.
Proof.
  intros H. pose proof (ent_range _ _ _ H). rewrite ent_in_range in H by lia.
  eapply nth_error_In; eauto.
Qed.
Lemma In_ent l e : In e l -> exists i, ent l i = Some e.
Proof.
  intros H. apply In_nth_error in H. destruct H as [n H]. exists (Z.of_nat n).
  rewrite ent_in_range.
  - now rewrite Nat2Z.id.
  - assert (n < length l)%nat by (apply nth_error_Some; congruence). unfold len. lia.
Qed.

(* ---------------------------------------------------------------- sorted *)
Lemma sorted_inv a l : sorted (a :: l) -> sorted l /\ Forall (elt a) l.
Proof. intros H. inversion H; subst. auto. Qed.

Lemma sorted_ent_lt l : sorted l -> forall i j a b,
  i < j -> ent l i = Some a -> ent l j = Some b -> elt a b.
Proof.
  induction 1 as [|x l Hs IH Hf]; intros i j a b Hij Ha Hb.
  - rewrite ent_nil in Ha. discriminate.
  - pose proof (ent_range _ _ _ Ha). pose proof (ent_range _ _ _ Hb).
    rewrite (ent_cons_pos x l j) in Hb by lia.
    destruct (Z.eq_dec i 0) as [->|Hi].
    + rewrite ent_cons_0 in Ha. injection Ha as <-.
      rewrite Forall_forall in Hf. apply Hf. eapply ent_In; eauto.
    + rewrite (ent_cons_pos x l i) in Ha by lia. eapply IH; [|exact Ha|exact Hb]. lia.
Qed.

Lemma sorted_ent_le l : sorted l -> forall i j a b,
  i <= j -> ent l i = Some a -> ent l j = Some b -> ele a b.
Proof.
  intros Hs i j a b Hij Ha Hb. destruct (Z.eq_dec i j) as [->|].
  - assert (a = b) by congruence. subst. unfold ele. rewrite ecmp_refl. discriminate.
  - assert (elt a b) by (eapply sorted_ent_lt; eauto; lia). eorder.
Qed.

Lemma sorted_ent_idx l : sorted l -> forall i j a b,
  ent l i = Some a -> ent l j = Some b -> elt a b -> i < j.
Proof.
  intros Hs i j a b Ha Hb Hab. destruct (Z_lt_dec i j); [assumption|].
  assert (ele b a) by (eapply sorted_ent_le; eauto; lia). eorder.
Qed.

Lemma sorted_ent_inj l : sorted l -> forall i j a b,
  ent l i = Some a -> ent l j = Some b -> eeq a b -> i = j.
Proof.
  intros Hs i j a b Ha Hb Hab.
  destruct (Z_lt_dec i j); [assert (elt a b) by (eapply sorted_ent_lt; eauto); eorder|].
  destruct (Z_lt_dec j i); [assert (elt b a) by (eapply sorted_ent_lt; eauto); eorder|]. lia.
Qed.

Lemma sorted_keys l : sorted l -> forall i j a b,
  i <= j -> ent l i = Some a -> ent l j = Some b -> kle (ek a) (ek b).
Proof.
  intros Hs i j a b Hij Ha Hb. destruct (Z.eq_dec i j) as [->|].
  - assert (a = b) by congruence. subst. korder.
  - apply elt_kle. eapply sorted_ent_lt; eauto. lia.
Qed.

Lemma sorted_app l1 l2 : sorted (l1 ++ l2) -> sorted l1 /\ sorted l2.
Proof.
  induction l1 as [|a l1 IH]; cbn; intros H; [split; [constructor|assumption]|].
  apply sorted_inv in H. destruct H as [Hs Hf]. apply IH in Hs. destruct Hs as [H1 H2].
  split; [|assumption]. constructor; [assumption|]. apply Forall_app in Hf. tauto.
Qed.

Lemma sorted_filter f l : sorted l -> sorted (filter f l).
Proof.
  induction 1 as [|a l Hs IH Hf]; cbn; [constructor|].
  destruct (f a); [|assumption]. constructor; [assumption|].
  rewrite Forall_forall in *. intros x Hx. apply filter_In in Hx. apply Hf. tauto.
Qed.

Lemma sorted_NoDup l : sorted l -> NoDup l.
Proof.
  induction 1 as [|a l Hs IH Hf]; constructor; [|assumption].
  intros Hin. rewrite Forall_forall in Hf. specialize (Hf _ Hin). unfold elt in Hf.
  rewrite ecmp_refl in Hf. discriminate.
Qed.

(* ---------------------------------------------------------------- count *)
Lemma count_nil {A} (p : A -> bool) : count p [] = 0.
Proof. reflexivity. Qed.
Lemma count_cons {A} (p : A -> bool) a l : count p (a :: l) = (if p a then 1 else 0) + count p l.
Proof. unfold count. cbn [filter]. destruct (p a); [rewrite len_cons|]; lia. Qed.
Lemma count_app {A} (p : A -> bool) l1 l2 : count p (l1 ++ l2) = count p l1 + count p l2.
Proof. unfold count. rewrite filter_app, len_app. reflexivity. Qed.
Lemma count_range {A} (p : A -> bool) l : 0 <= count p l <= len l.
Proof.
  induction l as [|a l IH]; [unfold count, len; cbn; lia|].
  rewrite count_cons, len_cons. destruct (p a); lia.
Qed.
Lemma count_ext {A} (p q : A -> bool) l : (forall a, In a l -> p a = q a) -> count p l = count q l.
Proof.
  induction l as [|a l IH]; intros H; [reflexivity|]. rewrite !count_cons.
  rewrite (H a) by now left. rewrite IH; [reflexivity|]. intros; apply H; now right.
Qed.
Lemma count_all {A} (p : A -> bool) l : (forall a, In a l -> p a = true) -> count p l = len l.
Proof.
  induction l as [|a l IH]; intros H; [reflexivity|]. rewrite count_cons, len_cons.
  rewrite (H a) by now left. rewrite IH; [lia|]. intros; apply H; now right.
Qed.
Lemma count_none {A} (p : A -> bool) l : (forall a, In a l -> p a = false) -> count p l = 0.
Proof.
  induction l as [|a l IH]; intros H; [reflexivity|]. rewrite count_cons.
  rewrite (H a) by now left. rewrite IH; [lia|]. intros; apply H; now right.
Qed.

Lemma count_le {A} (p q : A -> bool) (xs : list A) :
  (forall x, In x xs -> p x = true -> q x = true) -> count p xs <= count q xs.
Proof.
  induction xs as [|x xs IH]; intros H; [unfold count, len; cbn; lia|].
  rewrite !count_cons. assert (count p xs <= count q xs) by (apply IH; intros; apply H; [now right|assumption]).
  destruct (p x) eqn:Hp; [rewrite (H x) by (auto; now left)|destruct (q x)]; lia.
Qed.

(* a predicate closed downwards in the KeyRef order holds on a prefix of a sorted table *)
Definition downclosed (p : entry -> bool) : Prop :=
  forall a b, ele a b -> p b = true -> p a = true.

Lemma count_prefix p l : sorted l -> downclosed p ->
  forall i e, ent l i = Some e -> (p e = true <-> i < count p l).
Proof.
  intros Hs Hd. induction Hs as [|a l Hs IH Hf]; intros i e He.
  - rewrite ent_nil in He. discriminate.
  - pose proof (ent_range _ _ _ He) as Hr. rewrite count_cons.
    pose proof (count_range p l) as Hc.
    destruct (Z.eq_dec i 0) as [->|Hi].
    + rewrite ent_cons_0 in He. injection He as <-. destruct (p a) eqn:Hpa; [lia|]. split; [discriminate|].
      intros Hlt. destruct (ent_some l 0) as [b Hb]; [rewrite len_cons in Hr; lia|].
      assert (p b = true) as Hpb by (apply (IH 0 b Hb); lia).
      rewrite Forall_forall in Hf. assert (elt a b) by (apply Hf; eapply ent_In; eauto).
      exfalso. assert (p a = true) by (apply (Hd a b); [eorder|assumption]). congruence.
    + rewrite ent_cons_pos in He by lia. rewrite (IH _ _ He).
      destruct (p a) eqn:Hpa; [lia|]. split; [|lia]. intros Hlt. exfalso.
      assert (p e = true) as Hpe by (apply (IH _ _ He); lia).
      rewrite Forall_forall in Hf. assert (elt a e) by (apply Hf; eapply ent_In; eauto).
      assert (p a = true) by (apply (Hd a e); [eorder|assumption]). congruence.
Qed.

Lemma below_downclosed k : downclosed (below k).
Proof.
  intros a b Hab. unfold below. kdestr; auto. intros _. exfalso.
  assert (kle (ek a) (ek b)).
  { unfold ele in Hab. destruct (ecmp a b) eqn:E; try congruence.
    - apply ecmp_eq_iff in E. destruct E as [E _]. rewrite E. korder.
    - now apply elt_kle. }
  korder.
Qed.

(* ---------------------------------------------------------------- rank under a filter *)
Definition rank (f : entry -> bool) (l : list entry) (p : Z) : Z :=
  count f (firstn (Z.to_nat p) l).

Lemma rank_0 f l : rank f l 0 = 0.
Proof. reflexivity. Qed.
Lemma rank_neg f l p : p <= 0 -> rank f l p = 0.
Proof. intros H. unfold rank. replace (Z.to_nat p) with O by lia. reflexivity. Qed.
Lemma rank_len f l p : len l <= p -> rank f l p = len (filter f l).
Proof. intros H. unfold rank. rewrite firstn_all2; [reflexivity|]. unfold len in H. lia. Qed.
Lemma rank_step f l p e : ent l p = Some e -> rank f l (p + 1) = rank f l p + (if f e then 1 else 0).
Proof.
  intros He. pose proof (ent_range _ _ _ He) as Hr. rewrite ent_in_range in He by lia.
  unfold rank. replace (Z.to_nat (p + 1)) with (Datatypes.S (Z.to_nat p)) by lia.
  revert He. generalize (Z.to_nat p) as n. clear Hr p. induction l as [|a l IH]; intros n He.
  - destruct n; discriminate.
  - destruct n as [|n].
    + cbn in He. injection He as ->. cbn [firstn]. rewrite count_cons. lia.
    + cbn in He. rewrite !firstn_cons, !count_cons. rewrite (IH _ He). lia.
Qed.
Lemma rank_range f l p : 0 <= rank f l p <= len (filter f l).
Proof.
  unfold rank. split; [apply count_range|].
  rewrite <- (firstn_skipn (Z.to_nat p) l) at 2. rewrite filter_app, len_app.
  pose proof (len_nonneg (filter f (skipn (Z.to_nat p) l))). unfold count. lia.
Qed.
Lemma firstn_add {A} (n m : nat) (l : list A) :
  firstn (n + m) l = firstn n l ++ firstn m (skipn n l).
Proof.
  revert l. induction n as [|n IH]; intros l; [reflexivity|].
  destruct l as [|a l]; [now rewrite !firstn_nil|]. cbn [Nat.add]. rewrite !firstn_cons.
  cbn [skipn app]. now rewrite IH.
Qed.
Lemma rank_mono f l p q : p <= q -> rank f l p <= rank f l q.
Proof.
  intros H. unfold rank.
  replace (Z.to_nat q) with (Z.to_nat p + (Z.to_nat q - Z.to_nat p))%nat by lia.
  rewrite firstn_add, count_app.
  pose proof (count_range f (firstn (Z.to_nat q - Z.to_nat p) (skipn (Z.to_nat p) l))). lia.
Qed.

Lemma ent_filter_rank f l p e : ent l p = Some e -> f e = true ->
  ent (filter f l) (rank f l p) = Some e.
Proof.
  revert p. induction l as [|a l IH]; intros p He Hf.
  - rewrite ent_nil in He. discriminate.
  - pose proof (ent_range _ _ _ He) as Hr. destruct (Z.eq_dec p 0) as [->|Hp].
    + rewrite ent_cons_0 in He. injection He as ->. rewrite rank_0. cbn [filter]. rewrite Hf.
      apply ent_cons_0.
    + rewrite ent_cons_pos in He by lia. specialize (IH _ He Hf).
      unfold rank. replace (Z.to_nat p) with (Datatypes.S (Z.to_nat (p - 1))) by lia.
      cbn [firstn filter]. rewrite count_cons. fold (rank f l (p - 1)).
      pose proof (rank_range f l (p - 1)).
      destruct (f a).
      * replace (1 + rank f l (p - 1)) with (rank f l (p - 1) + 1) by lia.
        rewrite ent_cons_S by lia. exact IH.
      * rewrite Z.add_0_l. exact IH.
Qed.

(* seek on the filtered table: the entries below k in it are the visible ones among those
   below k in l *)
Lemma count_filter_prefix f q l : sorted l -> downclosed q ->
  count q (filter f l) = rank f l (count q l).
Proof.
  intros Hs Hd. induction Hs as [|a l Hs IH Hf]; [reflexivity|].
  rewrite count_cons. cbn [filter]. pose proof (count_range q l) as Hc.
  destruct (q a) eqn:Hqa.
  - unfold rank. replace (Z.to_nat (1 + count q l)) with (Datatypes.S (Z.to_nat (count q l))) by lia.
    cbn [firstn]. rewrite (count_cons f). fold (rank f l (count q l)).
    destruct (f a); [rewrite count_cons, Hqa|]; rewrite IH; lia.
  - assert (forall x, In x l -> q x = false) as Hall.
    { intros x Hx. destruct (q x) eqn:Hqx; [|reflexivity].
      rewrite Forall_forall in Hf. assert (elt a x) by (apply Hf; assumption).
      assert (q a = true) by (apply (Hd a x); [eorder|assumption]). congruence. }
    rewrite (count_none q l Hall). rewrite Z.add_0_l, rank_0.
    destruct (f a); [rewrite count_cons, Hqa|]; rewrite count_none; try lia;
      intros x Hx; apply filter_In in Hx; apply Hall; tauto.
Qed.

(* ---------------------------------------------------------------- refinement *)
Lemma ref_prev_range (l : list entry) i : -1 <= i <= len l -> -1 <= ref_prev i <= len l.
Proof. unfold ref_prev. destruct (Z.ltb_spec (i - 1) 0); lia. Qed.
Lemma ref_next_range l i : -1 <= i <= len l -> -1 <= ref_next l i <= len l.
Proof. unfold ref_next. destruct (Z.leb_spec (len l) (i + 1)); lia. Qed.
Lemma ref_step_range l o i : -1 <= i <= len l -> -1 <= step (ref l) o i <= len l.
Proof.
  intros H. pose proof (len_nonneg l). destruct o; cbn; try lia.
  - pose proof (count_range (below k) l). lia.
  - now apply ref_prev_range.
  - now apply ref_next_range.
Qed.
Lemma ref_prev_eq i : -1 <= i -> ref_prev i = Z.max (i - 1) (-1).
Proof. intros H. unfold ref_prev. destruct (Z.ltb_spec (i - 1) 0); lia. Qed.
Lemma ref_next_eq l i : i <= len l -> ref_next l i = Z.min (i + 1) (len l).
Proof. intros H. unfold ref_next. destruct (Z.leb_spec (len l) (i + 1)); lia. Qed.

Section Refines.
Context {S : Type} (c : cursor S).

Lemma refines_range s l i : refines c s l i -> -1 <= i <= len l.
Proof. intros [H _]. exact H. Qed.
Lemma refines_obs s l i : refines c s l i -> observe c s = observe (ref l) i.
Proof. intros [_ H]. specialize (H []). cbn in H. congruence. Qed.
Lemma refines_kv s l i : refines c s l i -> c_kv c s = ent l i.
Proof. intros H. apply refines_obs in H. unfold observe in H. cbn in H. congruence. Qed.
Lemma refines_fail s l i : refines c s l i -> c_fail c s = None.
Proof. intros H. apply refines_obs in H. unfold observe in H. cbn in H. congruence. Qed.
Lemma refines_step s l i o : refines c s l i -> refines c (step c o s) l (step (ref l) o i).
Proof.
  intros [Hr H]. split; [now apply ref_step_range|].
  intros prog. specialize (H (o :: prog)). cbn [run] in H. congruence.
Qed.
Lemma refines_has_key s l i : refines c s l i -> has_key c s = true <-> 0 <= i < len l.
Proof.
  intros H. unfold has_key. rewrite (refines_kv _ _ _ H). split.
  - destruct (ent l i) eqn:E; [intros _; eapply ent_range; eauto|discriminate].
  - intros Hr. destruct (ent_some l i Hr) as [e ->]. reflexivity.
Qed.

Lemma refines_first s l i : refines c s l i -> refines c (c_first c s) l (-1).
Proof. intros H. exact (refines_step _ _ _ OFirst H). Qed.
Lemma refines_last s l i : refines c s l i -> refines c (c_last c s) l (len l).
Proof. intros H. exact (refines_step _ _ _ OLast H). Qed.
Lemma refines_seek s l i k : refines c s l i -> refines c (c_seek c k s) l (count (below k) l).
Proof. intros H. exact (refines_step _ _ _ (OSeek k) H). Qed.
Lemma refines_prev s l i : refines c s l i -> refines c (c_prev c s) l (ref_prev i).
Proof. intros H. exact (refines_step _ _ _ OPrev H). Qed.
Lemma refines_next s l i : refines c s l i -> refines c (c_next c s) l (ref_next l i).
Proof. intros H. exact (refines_step _ _ _ ONext H). Qed.

Lemma sim_refines l R : sim c l R -> forall s i, R s i -> refines c s l i.
Proof.
  intros Hsim s i HR. split; [eapply sim_range; eauto|].
  intros prog. revert s i HR. induction prog as [|o p IH]; intros s i HR; cbn [run].
  - unfold observe. rewrite (sim_kv _ _ _ Hsim _ _ HR), (sim_fail _ _ _ Hsim _ _ HR). reflexivity.
  - f_equal.
    + unfold observe. rewrite (sim_kv _ _ _ Hsim _ _ HR), (sim_fail _ _ _ Hsim _ _ HR). reflexivity.
    + apply IH. eapply sim_step; eauto.
Qed.

(* refinement is itself a simulation (the greatest one) *)
Lemma refines_sim l : sim c l (fun s i => refines c s l i).
Proof.
  constructor.
  - intros s i H. eapply refines_range; eauto.
  - intros s i H. eapply refines_kv; eauto.
  - intros s i H. eapply refines_fail; eauto.
  - intros o s i H. now apply refines_step.
Qed.
End Refines.

Lemma ref_refines l i : -1 <= i <= len l -> refines (ref l) i l i.
Proof. intros H. split; [assumption|reflexivity]. Qed.

Lemma tcur_refines l i : -1 <= i <= len l -> refines tcur (mkT l i) l i.
Proof.
  intros H. apply (sim_refines tcur l (fun s j => s = mkT l j /\ -1 <= j <= len l)); [|auto].
  constructor.
  - intros s j [_ Hr]. exact Hr.
  - intros s j [-> _]. reflexivity.
  - intros s j [-> _]. reflexivity.
  - intros o s j [-> Hr]. split; [|now apply ref_step_range]. destruct o; reflexivity.
Qed.
