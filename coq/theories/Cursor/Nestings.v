(* Cursor/Nestings.v — the nestings of the combinators that lsmtk actually builds, as Cursor
   expressions.  Definitions only.

   lsmtk/src/tree/mod.rs  Tree::compaction_setup:
       for input in compaction.inputs() { cursors.push(self.open_sst(input)?.cursor()) }
       MergingCursor::new(cursors)                       : MergingCursor<SstCursor>
     used by perform_compaction as    cursor.seek_to_first(); loop { cursor.next(); key_value() }
     and by perform_garbage_collection as
       cursor.seek_to_first(); let mut gc_cursor = cursor.clone(); gc_cursor.next();
       gc_policy.collector(gc_cursor, 0)   (the collector walks gc_cursor with next / key_value)
       loop { cursor.next(); key_value() }
   lsmtk/src/verifier.rs builds the same MergingCursor<SstCursor> three times (inputs, outputs,
     gc) and positions each with seek_to_first(); next().
   An SstCursor is represented by the table cursor of its entries (property C10).

   The range-scan nestings (KeyValueStore::range_scan = Bounds(Pruning(Merging[memtable scan,
   immutable memtable scan, Tree::range_scan])), Tree::range_scan = Merging(Lazy per L0 file,
   Concat(Lazy ..) per deeper level), LsmTree::range_scan = Bounds(Pruning(u64::MAX, ..))) are
   transcribed and proved in the Scan area (Scan/Model.v scan_expr, Props_C03.v
   C03_scan_expr_wf / C03_scan_correct / C03_tree_scan_correct) as corollaries of C11_compose;
   they are not repeated here. *)
From Coq Require Import NArith ZArith List Bool.
From Blue Require Import Cursor.Iface Cursor.Ref Cursor.Spec Cursor.Compose Cursor.Fallible Cursor.FCompose.
Import ListNotations.

(* the cursor over a compaction's input tables (one table per input SST) *)
Definition compaction_input (tabs : list (list entry)) : expr := EMerge (map ETable tabs).

(* perform_compaction's walk: seek_to_first, then next until key_value() is None *)
Definition compaction_walk (n : nat) : list op := OFirst :: repeat ONext n.

(* perform_garbage_collection / verifier: the collector's cursor is the same merging cursor
   after seek_to_first(); [clone();] next() — then walked with next *)
Definition gc_input_prefix : list op := [OFirst; ONext].

(* the same cursor when reading an input SST may return Err (one failure schedule per input) *)
Definition compaction_input_failing (tabs : list (list entry * list bool)) : fexpr :=
  FEMerge (map (fun p => FETable (fst p) (snd p)) tabs).
