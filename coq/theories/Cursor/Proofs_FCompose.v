(* Cursor/Proofs_FCompose.v — every nesting of the combinators over failing leaves is the twin of
   the same nesting over total leaves (Compose.v): up to the first Err a run is the total run, hence
   (C11_compose) the reference cursor's; and every Err is one scheduled failure consumed. *)
From Coq Require Import NArith ZArith Arith List Bool Lia Permutation.
From Blue Require Import Cursor.Iface Cursor.Ref Cursor.Lazy Cursor.Bounds Cursor.Pruning
  Cursor.Concat Cursor.Merging Cursor.Spec Cursor.Compose Cursor.Fallible Cursor.FBounds
  Cursor.FPruning Cursor.FConcat Cursor.FMerging Cursor.FLazy Cursor.FCompose
  Cursor.Proofs_Ref Cursor.Proofs_Fallible Cursor.Proofs_FBounds Cursor.Proofs_FPruning
  Cursor.Proofs_FConcat Cursor.Proofs_FMerging Cursor.Proofs_FLazy Cursor.Proofs_Compose.
Import ListNotations.
Local Open Scope Z_scope.

(* forget the schedules and the Err flags *)
Fixpoint qu (u : fust) : ust :=
  match u with
  | FUT x => UT (lf_st x)
  | FUL mk x => UL mk (fl_pos (fs_st x))
  | FUM x => UM (mkM (m_fwd (fs_st x)) (map qu (m_kids (fs_st x))))
  | FUC x => UC (mkK (map qu (k_kids (fs_st x))) (k_pos (fs_st x)) (k_fail (fs_st x)))
  | FUB f lo hi x => UB f lo hi (mkB (qu (b_cur (fs_st x))) (b_pos (fs_st x)) (b_fail (fs_st x)))
  | FUP f t x => UP f t (mkP (qu (p_cur (fs_st x))) (p_skip (fs_st x)) (p_fail (fs_st x)))
  end.

(* scheduled failures not yet consumed, in the whole tree *)
Fixpoint mu (u : fust) : nat :=
  match u with
  | FUT x => pending (lf_sched x)
  | FUL mk x => pending (fl_opens (fs_st x))
  | FUM x => msum mu (m_kids (fs_st x))
  | FUC x => msum mu (k_kids (fs_st x))
  | FUB f lo hi x => mu (b_cur (fs_st x))
  | FUP f t x => mu (p_cur (fs_st x))
  end.

Lemma nofail_twin {S} (c : cursor S) : twin (nofail c) c (fun s => s) (fun _ => 0%nat).
Proof. constructor; try reflexivity. intros o s. cbn. split; [reflexivity|lia]. Qed.

Lemma lmap_id {S} (p : lpos S) : lmap (fun s => s) p = p.
Proof. destruct p; reflexivity. Qed.

Lemma fstuck_twin : twin fstuck stuck qu mu.
Proof. constructor; try reflexivity. intros o s. destruct o; cbn; split; (reflexivity || lia). Qed.

Lemma fucur1_twin child cq : twin child cq qu mu -> twin (fucur1 child) (ucur1 cq) qu mu.
Proof.
  intros Hc.
  pose proof (failing_twin tcur (fun s => s)) as HT.
  pose proof (fun mk => flazy_twin (nofail tcur) tcur (fun s => s) (fun _ => 0%nat) (nofail_twin tcur) (fun _ => eq_refl) mk) as HL.
  pose proof (fmerging_twin child cq qu mu Hc) as HM.
  pose proof (fconcat_twin child cq qu mu Hc) as HC.
  pose proof (fun f lo hi => fbounds_twin child cq qu mu Hc f lo hi) as HB.
  pose proof (fun f t => fpruning_twin child cq qu mu Hc f t) as HP.
  constructor.
  - intros [x|mk x|x|x|f lo hi x|f t x]; cbn [fucur1 f_cur c_kv fukv1 ucur1 ukv1 qu].
    + exact (tw_kv _ _ _ _ HT x).
    + rewrite (tw_kv _ _ _ _ (HL mk) x). unfold ql. now rewrite lmap_id.
    + exact (tw_kv _ _ _ _ HM x).
    + exact (tw_kv _ _ _ _ HC x).
    + exact (tw_kv _ _ _ _ (HB f lo hi) x).
    + exact (tw_kv _ _ _ _ (HP f t) x).
  - intros [x|mk x|x|x|f lo hi x|f t x]; cbn [fucur1 f_cur c_fail fufail1 ucur1 ufail1 qu].
    + exact (tw_fail _ _ _ _ HT x).
    + rewrite (tw_fail _ _ _ _ (HL mk) x). unfold ql. now rewrite lmap_id.
    + exact (tw_fail _ _ _ _ HM x).
    + exact (tw_fail _ _ _ _ HC x).
    + exact (tw_fail _ _ _ _ (HB f lo hi) x).
    + exact (tw_fail _ _ _ _ (HP f t) x).
  - intros o u.
    assert (forall o', step (f_cur (fucur1 child)) o' u = fustep1 child o' u) as Es by (intros []; reflexivity).
    assert (forall o' v, step (ucur1 cq) o' v = ustep1 cq o' v) as Et by (intros []; reflexivity).
    rewrite !Es, Et. destruct u as [x|mk x|x|x|f lo hi x|f t x]; cbn [fustep1 ustep1 qu fucur1 f_err fuerr mu].
    + destruct (tw_step _ _ _ _ HT o x) as [H1 H2]. split; [intros He; f_equal; exact (H1 He)|exact H2].
    + destruct (tw_step _ _ _ _ (HL mk) o x) as [H1 H2]. unfold ql, ml in *. rewrite !lmap_id in H1.
      split; [intros He; f_equal; exact (H1 He)|exact H2].
    + destruct (tw_step _ _ _ _ HM o x) as [H1 H2]. split; [intros He; f_equal; exact (H1 He)|exact H2].
    + destruct (tw_step _ _ _ _ HC o x) as [H1 H2]. split; [intros He; f_equal; exact (H1 He)|exact H2].
    + destruct (tw_step _ _ _ _ (HB f lo hi) o x) as [H1 H2]. split; [intros He; f_equal; exact (H1 He)|exact H2].
    + destruct (tw_step _ _ _ _ (HP f t) o x) as [H1 H2]. split; [intros He; f_equal; exact (H1 He)|exact H2].
Qed.

Theorem fucur_twin d : twin (fucur d) (ucur d) qu mu.
Proof. induction d as [|d IH]; cbn [fucur ucur]; apply fucur1_twin; [apply fstuck_twin|exact IH]. Qed.

(* ---- construction *)
Section FExprInd.
Variable P : fexpr -> Prop.
Hypothesis HT : forall l s, P (FETable l s).
Hypothesis HLz : forall l s, P (FELazy l s).
Hypothesis HM : forall es, Forall P es -> P (FEMerge es).
Hypothesis HC : forall es, Forall P es -> P (FEConcat es).
Hypothesis HB : forall lo hi e, P e -> P (FEBounds lo hi e).
Hypothesis HP : forall t e, P e -> P (FEPrune t e).
Fixpoint fexpr_ind' (e : fexpr) : P e :=
  match e with
  | FETable l s => HT l s
  | FELazy l s => HLz l s
  | FEMerge es => HM es ((fix go (es : list fexpr) : Forall P es :=
                           match es with [] => Forall_nil P | x :: r => Forall_cons x (fexpr_ind' x) (go r) end) es)
  | FEConcat es => HC es ((fix go (es : list fexpr) : Forall P es :=
                           match es with [] => Forall_nil P | x :: r => Forall_cons x (fexpr_ind' x) (go r) end) es)
  | FEBounds lo hi e => HB lo hi e (fexpr_ind' e)
  | FEPrune t e => HP t e (fexpr_ind' e)
  end.
End FExprInd.

Lemma ok_or_none_some u v : ok_or_none u = Some v -> v = u /\ fuerr u = false.
Proof. unfold ok_or_none. destruct (fuerr u); [discriminate|]. intros H. injection H as <-. auto. Qed.

Lemma all_some_map (d fuel : nat) (es : list fexpr) kids :
  Forall (fun e => forall u, fubuild d fuel e = Some u -> qu u = ubuild d fuel (erase e)) es ->
  all_some (map (fubuild d fuel) es) = Some kids ->
  map qu kids = map (ubuild d fuel) (map erase es).
Proof.
  intros HF. revert kids. induction HF as [|e r He HF IH]; intros kids H; cbn in H.
  - injection H as <-. reflexivity.
  - destruct (fubuild d fuel e) as [u|] eqn:Eu; [|discriminate].
    destruct (all_some (map (fubuild d fuel) r)) as [r'|] eqn:Er; [|discriminate].
    injection H as <-. cbn [map]. rewrite (He u eq_refl), (IH r' eq_refl). reflexivity.
Qed.

Theorem fubuild_erase e : forall d fuel u, fubuild d fuel e = Some u -> qu u = ubuild d fuel (erase e).
Proof.
  induction e as [l s|l s|es IH|es IH|lo hi e IH|t e IH] using fexpr_ind'; intros d fuel u H; cbn [fubuild erase ubuild] in *.
  - injection H as <-. reflexivity.
  - injection H as <-. reflexivity.
  - destruct (all_some (map (fubuild (pred d) fuel) es)) as [kids|] eqn:Ek; [|discriminate].
    apply ok_or_none_some in H. destruct H as [-> He]. cbn [fuerr] in He. cbn [qu]. f_equal.
    assert (map qu kids = map (ubuild (pred d) fuel) (map erase es)) as Em.
    { apply all_some_map; [|exact Ek]. rewrite Forall_forall in *. intros x Hx u' Hu. now apply IH. }
    unfold fm_new in *. destruct (first_magrees _ _ _ _ (fucur_twin (pred d)) (mkM true kids)) as [F1 _].
    destruct (fm_first (fucur (pred d)) (mkM true kids)) as [st er]. cbn [fs_st fs_err fst snd] in *.
    specialize (F1 He). unfold mmap in F1. cbn [m_fwd m_kids] in F1. rewrite Em in F1. unfold m_new.
    rewrite map_map in F1. rewrite map_map. exact F1.
  - destruct (all_some (map (fubuild (pred d) fuel) es)) as [kids|] eqn:Ek; [|discriminate].
    apply ok_or_none_some in H. destruct H as [-> He]. cbn [fuerr] in He. cbn [qu]. f_equal.
    assert (map qu kids = map (ubuild (pred d) fuel) (map erase es)) as Em.
    { apply all_some_map; [|exact Ek]. rewrite Forall_forall in *. intros x Hx u' Hu. now apply IH. }
    rewrite map_map in Em. rewrite map_map. unfold fk_new, k_new in *. destruct kids as [|k0 kr].
    + destruct es; [reflexivity|discriminate].
    + destruct es as [|e0 er]; [discriminate|]. cbn [map] in *.
      destruct (on_cur_kagrees _ _ _ _ (fucur_twin (pred d)) OFirst (mkK (k0 :: kr) 0 None)) as [F1 _].
      change (step (f_cur (fucur (pred d))) OFirst) with (c_first (f_cur (fucur (pred d)))) in F1.
      destruct (fon_cur (fucur (pred d)) (c_first (f_cur (fucur (pred d)))) (mkK (k0 :: kr) 0 None)) as [st er']. cbn [fs_st fs_err fst snd] in *.
      specialize (F1 He). unfold kmap in F1. cbn [k_kids k_pos k_fail map] in F1. rewrite Em in F1. exact F1.
  - destruct (fubuild (pred d) fuel e) as [kid|] eqn:Ek; [|discriminate].
    apply ok_or_none_some in H. destruct H as [-> He]. cbn [fuerr] in He. cbn [qu]. f_equal.
    unfold fb_new, b_new in *.
    destruct (first_agrees _ _ _ _ (fucur_twin (pred d)) lo hi (mkB kid BeforeStart None)) as [F1 _].
    destruct (fb_first_raw (fucur (pred d)) lo hi (mkB kid BeforeStart None)) as [st er]. cbn [fs_st fs_err fst snd] in *.
    specialize (F1 He). unfold bmap in F1. cbn [b_cur b_pos b_fail] in F1. rewrite (IH _ _ _ Ek) in F1. exact F1.
  - destruct (fubuild (pred d) fuel e) as [kid|] eqn:Ek; [|discriminate].
    apply ok_or_none_some in H. destruct H as [-> He]. cbn [fuerr] in He. cbn [qu]. f_equal.
    unfold fp_new, p_new in *. cbn [fs_st fs_err p_cur p_skip p_fail] in *.
    destruct (tw_step _ _ _ _ (fucur_twin (pred d)) OFirst kid) as [H1 _]. cbn [step] in H1.
    rewrite (H1 He), (IH _ _ _ Ek). reflexivity.
Qed.
