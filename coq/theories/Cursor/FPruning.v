(* Cursor/FPruning.v — sst/src/pruning_cursor.rs over a child whose calls may return Err.
   Definitions only.  Same loops as Pruning.v with the child's f_err tested after every
   `self.cursor.f()?`.  What an error leaves behind: skip_key as assigned so far (seek and
   seek_to_first/last clear it BEFORE the child call; the loops may have re-assigned it). *)
From Coq Require Import NArith List Bool.
From Blue Require Import Cursor.Iface Cursor.Pruning Cursor.Fallible.

(* inner loops of prev.  FErrAt = a child call returned Err (cursor, skip_key as they are then) *)
Inductive fctl (A : Type) := FRet (a : A) | FGo (a : A) | FFuel | FErrAt (a : A).
Arguments FRet {A}. Arguments FGo {A}. Arguments FFuel {A}. Arguments FErrAt {A}.

Section FPruning.
Context {S : Type} (fc : fcursor S) (fuel : nat) (t : N).
Local Notation c := (f_cur fc).
Local Notation e := (f_err fc).

Definition fp_first_raw (st : pstate S) : pstate S * bool :=
  let cur := c_first c (p_cur st) in (mkP cur None (p_fail st), e cur).
Definition fp_last_raw (st : pstate S) : pstate S * bool :=
  let cur := c_last c (p_cur st) in (mkP cur None (p_fail st), e cur).

Fixpoint fp_seek_loop (n : nat) (st : pstate S) : pstate S * bool :=
  match c_kv c (p_cur st) with
  | None => (st, false)
  | Some en =>
      let le := N.leb (ets en) t in
      if le && is_none (ev en) then
        match n with
        | O => (p_set_fail st OutOfFuel, false)
        | Datatypes.S n' =>
            let sk := set_skip_key c (p_cur st) in
            let cur := c_next c (p_cur st) in
            if e cur then (mkP cur sk (p_fail st), true) else fp_seek_loop n' (mkP cur sk (p_fail st))
        end
      else if le && skip_differs (p_skip st) (ek en) then
        (mkP (p_cur st) (set_skip_key c (p_cur st)) (p_fail st), false)
      else
        match n with
        | O => (p_set_fail st OutOfFuel, false)
        | Datatypes.S n' =>
            let cur := c_next c (p_cur st) in
            if e cur then (mkP cur (p_skip st) (p_fail st), true)
            else fp_seek_loop n' (mkP cur (p_skip st) (p_fail st))
        end
  end.

Definition fp_seek_raw (k : key) (st : pstate S) : pstate S * bool :=
  let cur := c_seek c k (p_cur st) in
  if e cur then (mkP cur None (p_fail st), true) else fp_seek_loop fuel (mkP cur None (p_fail st)).

Fixpoint fp_next_loop (n : nat) (st : pstate S) : pstate S * bool :=
  match n with
  | O => (p_set_fail st OutOfFuel, false)
  | Datatypes.S n' =>
      let cur := c_next c (p_cur st) in
      if e cur then (mkP cur (p_skip st) (p_fail st), true)
      else
        match c_kv c cur with
        | None => (mkP cur (p_skip st) (p_fail st), false)
        | Some en =>
            let le := N.leb (ets en) t in
            if le && is_none (ev en) then fp_next_loop n' (mkP cur (set_skip_key c cur) (p_fail st))
            else if le && skip_differs (p_skip st) (ek en) then (mkP cur (set_skip_key c cur) (p_fail st), false)
            else fp_next_loop n' (mkP cur (p_skip st) (p_fail st))
        end
  end.
Definition fp_next_raw (st : pstate S) : pstate S * bool := fp_next_loop fuel st.


Fixpoint fprev_skip_loop (n : nat) (cur : S) (sk : option key) : fctl (S * option key) :=
  match sk with
  | None => FGo (cur, None)
  | Some s =>
      match c_kv c cur with
      | None => FRet (cur, None)
      | Some en =>
          if negb (keqb s (ek en)) then FGo (cur, None)
          else
            match n with
            | O => FFuel
            | Datatypes.S n' =>
                let cur' := c_prev c cur in
                if e cur' then FErrAt (cur', sk) else fprev_skip_loop n' cur' sk
            end
      end
  end.

(* None = fuel; Some (cursor, returned Err?) *)
Fixpoint fprev_back_loop (n : nat) (target : key) (cur : S) : option (S * bool) :=
  match n with
  | O => None
  | Datatypes.S n' =>
      let cur := c_prev c cur in
      if e cur then Some (cur, true)
      else
        match c_kv c cur with
        | None => Some (cur, false)
        | Some en => if N.ltb t (ets en) || negb (keqb (ek en) target) then Some (cur, false)
                     else fprev_back_loop n' target cur
        end
  end.

Fixpoint fprev_fwd_loop (n : nat) (target : key) (cur : S) : option (S * bool) :=
  match c_kv c cur with
  | None => Some (cur, false)
  | Some en =>
      if N.leb (ets en) t && keqb (ek en) target then Some (cur, false)
      else
        match n with
        | O => None
        | Datatypes.S n' =>
            let cur' := c_next c cur in
            if e cur' then Some (cur', true) else fprev_fwd_loop n' target cur'
        end
  end.

Fixpoint fp_prev_loop (n : nat) (st : pstate S) : pstate S * bool :=
  match n with
  | O => (p_set_fail st OutOfFuel, false)
  | Datatypes.S n' =>
      let cur0 := c_prev c (p_cur st) in
      if e cur0 then (mkP cur0 (p_skip st) (p_fail st), true)
      else
      match fprev_skip_loop fuel cur0 (p_skip st) with
      | FFuel => (p_set_fail st OutOfFuel, false)
      | FErrAt (cur, sk) => (mkP cur sk (p_fail st), true)
      | FRet (cur, sk) => (mkP cur sk (p_fail st), false)
      | FGo (cur, sk) =>
          match c_kv c cur with
          | None => (mkP cur None (p_fail st), false)
          | Some en =>
              if N.ltb t (ets en) then
                fp_prev_loop n' (mkP cur (set_skip_key c cur) (p_fail st))
              else
                let target := ek en in
                match fprev_back_loop fuel target cur with
                | None => (p_set_fail (mkP cur sk (p_fail st)) OutOfFuel, false)
                | Some (cur, true) => (mkP cur sk (p_fail st), true)
                | Some (cur, false) =>
                    (* if self.key().is_none() { self.cursor.next()?; } *)
                    let cur1 := if has_key c cur then cur else c_next c cur in
                    if negb (has_key c cur) && e cur1 then (mkP cur1 sk (p_fail st), true)
                    else
                    match fprev_fwd_loop fuel target cur1 with
                    | None => (p_set_fail (mkP cur1 sk (p_fail st)) OutOfFuel, false)
                    | Some (cur, true) => (mkP cur sk (p_fail st), true)
                    | Some (cur, false) =>
                        match c_kv c cur with
                        | None => (p_set_fail (mkP cur sk (p_fail st)) LogicError, false)
                        | Some e' =>
                            if negb (N.leb (ets e') t && keqb (ek e') target)
                            then (p_set_fail (mkP cur sk (p_fail st)) Panic, false)
                            else
                              match ev e' with
                              | Some _ => (mkP cur (set_skip_key c cur) (p_fail st), false)
                              | None => fp_prev_loop n' (mkP cur (set_skip_key c cur) (p_fail st))
                              end
                        end
                    end
                end
          end
      end
  end.

Definition fp_prev_raw (st : pstate S) : pstate S * bool :=
  let st := if has_key c (p_cur st) then st else mkP (p_cur st) None (p_fail st) in
  fp_prev_loop fuel st.

Definition fp_guard (f : pstate S -> pstate S * bool) (st : pstate S) : pstate S * bool :=
  match p_fail st with Some _ => (st, false) | None => f st end.

Definition fpruning : fcursor (fs (pstate S)) := mkF {|
  c_first := fs_lift (fp_guard fp_first_raw);
  c_last := fs_lift (fp_guard fp_last_raw);
  c_seek := fun k => fs_lift (fp_guard (fp_seek_raw k));
  c_prev := fs_lift (fp_guard fp_prev_raw);
  c_next := fs_lift (fp_guard fp_next_raw);
  c_kv := fun x => c_kv c (p_cur (fs_st x));
  c_fail := fun x => p_fail (fs_st x) |} fs_err.

Definition fp_new (cur : S) : fs (pstate S) :=
  let cur' := c_first c cur in mkFs (mkP cur' None None) (e cur').
End FPruning.
