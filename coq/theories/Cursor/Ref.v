(* Cursor/Ref.v — the reference cursor: sst::reference::ReferenceCursor over a table whose
   entries are strictly sorted by KeyRef.  State = the `index: isize` field, in [-1, len].
   Definitions only.

   ReferenceCursor::seek is `entries.binary_search(&(key, u64::MAX, None))`, taking the index in
   both the Ok and the Err case.  For a strictly sorted vector that is the number of entries
   smaller than (key, u64::MAX), and since every timestamp is <= u64::MAX those are exactly the
   entries whose key is smaller than `key`.  std's binary_search is external code; the model
   states its result (`count (below k)`), it does not transcribe it. *)
From Coq Require Import NArith ZArith List Bool.
From Blue Require Import Cursor.Iface.
Import ListNotations.
Local Open Scope Z_scope.

Definition len {A} (l : list A) : Z := Z.of_nat (length l).

(* entries[index] if 0 <= index < len, else None   (key() / value() / key_value()) *)
Definition ent (l : list entry) (i : Z) : option entry :=
  if (0 <=? i) && (i <? len l) then nth_error l (Z.to_nat i) else None.

Definition below (k : key) (e : entry) : bool := kltb (ek e) k.
Definition count {A} (p : A -> bool) (l : list A) : Z := len (filter p l).

Definition ref_prev (i : Z) : Z := if i - 1 <? 0 then -1 else i - 1.
Definition ref_next (l : list entry) (i : Z) : Z := if len l <=? i + 1 then len l else i + 1.

Definition ref (l : list entry) : cursor Z := {|
  c_first := fun _ => -1;
  c_last := fun _ => len l;
  c_seek := fun k _ => count (below k) l;
  c_prev := ref_prev;
  c_next := ref_next l;
  c_kv := ent l;
  c_fail := fun _ => None |}.

(* ReferenceTable::cursor(): index = -1 *)
Definition ref_new : Z := -1.

(* The same cursor with the table inside the state (as in the Rust, `entries: Rc<Vec<..>>`), so
   that the children of a merging / concatenating cursor - one cursor type, different tables -
   are instances of ONE cursor record. *)
Record tstate := mkT { t_tab : list entry; t_idx : Z }.
Definition tcur : cursor tstate := {|
  c_first := fun s => mkT (t_tab s) (-1);
  c_last := fun s => mkT (t_tab s) (len (t_tab s));
  c_seek := fun k s => mkT (t_tab s) (count (below k) (t_tab s));
  c_prev := fun s => mkT (t_tab s) (ref_prev (t_idx s));
  c_next := fun s => mkT (t_tab s) (ref_next (t_tab s) (t_idx s));
  c_kv := fun s => ent (t_tab s) (t_idx s);
  c_fail := fun _ => None |}.
Definition t_new (l : list entry) : tstate := mkT l (-1).

(* strictly sorted by KeyRef: what ReferenceBuilder::seal / an SST guarantee *)
Inductive sorted : list entry -> Prop :=
| sorted_nil : sorted []
| sorted_cons : forall a l, sorted l -> Forall (elt a) l -> sorted (a :: l).

(* "cursor c in state s behaves as the reference cursor over l at index i":
   every program of calls gives the same observations, now and after every call *)
Definition refines {S} (c : cursor S) (s : S) (l : list entry) (i : Z) : Prop :=
  -1 <= i <= len l /\ forall prog, run c prog s = run (ref l) prog i.

(* the proof method: a relation preserved by every call on which observations agree *)
Record sim {S} (c : cursor S) (l : list entry) (R : S -> Z -> Prop) : Prop := {
  sim_range : forall s i, R s i -> -1 <= i <= len l;
  sim_kv : forall s i, R s i -> c_kv c s = ent l i;
  sim_fail : forall s i, R s i -> c_fail c s = None;
  sim_step : forall o s i, R s i -> R (step c o s) (step (ref l) o i) }.
