(* Cursor/Proofs_Lazy.v — a LazyCursor behaves as the cursor it opens. *)
From Coq Require Import NArith ZArith List Bool Lia.
From Blue Require Import Cursor.Iface Cursor.Ref Cursor.Lazy Cursor.Proofs_Order Cursor.Proofs_Ref.
Import ListNotations.
Local Open Scope Z_scope.

Section LazyProof.
Context {S : Type} (c : cursor S) (mk : S) (l : list entry) (i0 : Z).
Hypothesis Hmk : refines c mk l i0.

Definition lazy_R (p : lpos S) (P : Z) : Prop :=
  match p with
  | LFirst => P = -1
  | LLast => P = len l
  | LInst cur => 0 <= P < len l /\ refines c cur l P
  end.

(* a child positioned by some call: instantiated if it has a key, else First/Last *)
Lemma lazy_R_settle cur q (dflt : lpos S) :
  refines c cur l q ->
  (~ 0 <= q < len l -> lazy_R dflt q) ->
  lazy_R (if has_key c cur then LInst cur else dflt) q.
Proof.
  intros Hc Hd. pose proof (refines_has_key c _ _ _ Hc) as Hk.
  destruct (has_key c cur).
  - split; [now apply Hk|assumption].
  - apply Hd. intros H. apply Hk in H. discriminate.
Qed.

Lemma lazy_cursor_refines p P : lazy_R p P -> exists j, refines c (l_cursor mk p) l j.
Proof. destruct p; cbn; intros H; [eauto|eauto|]. destruct H; eauto. Qed.

Lemma lazy_sim : sim (lazy c mk) l lazy_R.
Proof.
  pose proof (len_nonneg l) as Hl. constructor.
  - intros p P H. destruct p; cbn in H; lia.
  - intros p P H. destruct p; cbn in *.
    + subst. symmetry. apply ent_none. lia.
    + subst. symmetry. apply ent_none. lia.
    + destruct H as [_ H]. now apply refines_kv.
  - reflexivity.
  - intros o p P H. destruct o; cbn [step lazy c_first c_last c_seek c_prev c_next ref].
    + reflexivity.
    + reflexivity.
    + unfold l_seek. destruct (lazy_cursor_refines _ _ H) as [j Hj].
      pose proof (refines_seek c _ _ _ k Hj) as Hs. pose proof (refines_range c _ _ _ Hs).
      pose proof (count_range (below k) l).
      apply lazy_R_settle; [assumption|]. cbn. lia.
    + destruct p; cbn in H; cbn [l_prev].
      * subst. reflexivity.
      * subst. pose proof (refines_prev c _ _ _ (refines_last c _ _ _ Hmk)) as Hp.
        apply lazy_R_settle; [assumption|]. cbn. unfold ref_prev. destruct (Z.ltb_spec (len l - 1) 0); lia.
      * destruct H as [Hr H]. pose proof (refines_prev c _ _ _ H) as Hp.
        apply lazy_R_settle; [assumption|]. cbn. unfold ref_prev. destruct (Z.ltb_spec (P - 1) 0); lia.
    + destruct p; cbn in H; cbn [l_next].
      * subst. pose proof (refines_next c _ _ _ (refines_first c _ _ _ Hmk)) as Hp.
        apply lazy_R_settle; [assumption|]. cbn. unfold ref_next. destruct (Z.leb_spec (len l) (-1 + 1)); lia.
      * subst. cbn. unfold ref_next. destruct (Z.leb_spec (len l) (len l + 1)); lia.
      * destruct H as [Hr H]. pose proof (refines_next c _ _ _ H) as Hp.
        apply lazy_R_settle; [assumption|]. cbn. unfold ref_next. destruct (Z.leb_spec (len l) (P + 1)); lia.
Qed.

Theorem lazy_refines : refines (lazy c mk) l_new l (-1).
Proof. apply (sim_refines _ _ _ lazy_sim). reflexivity. Qed.
End LazyProof.
