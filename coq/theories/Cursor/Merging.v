(* Cursor/Merging.v — model of sst/src/merging_cursor.rs (MergingCursor): the array heap with
   heapify / percolate_down and the Forward / Reverse comparator.  Definitions only.

   percolate_down's `loop` descends (index := child > index), so it runs at most len times; the
   model gives it fuel = len, and Proofs_Heap.percolate_fuel shows any fuel >= len - index gives
   the same result (the cut-off is never what ends the loop). *)
From Coq Require Import Arith List Bool.
From Blue Require Import Cursor.Iface Cursor.Concat.
Import ListNotations.

Section Heap.
Context {A : Type} (less : A -> A -> bool).

(* is_less(&self.cursors[i], &self.cursors[j]) ; out-of-range would be an index panic, the
   callers below only use indices < len *)
Definition less_at (l : list A) (i j : nat) : bool :=
  match nth_error l i, nth_error l j with
  | Some a, Some b => less a b
  | _, _ => false
  end.

(* self.cursors.swap(i, j) *)
Definition swap (l : list A) (i j : nat) : list A :=
  match nth_error l i, nth_error l j with
  | Some a, Some b => upd (upd l i (fun _ => b)) j (fun _ => a)
  | _, _ => l
  end.

Fixpoint percolate_down (n : nat) (l : list A) (index : nat) : list A :=
  match n with
  | O => l
  | Datatypes.S n' =>
      let child_lhs := index * 2 + 1 in
      let child_rhs := index * 2 + 2 in
      if length l <=? child_lhs then l
      else
        let child :=
          if (length l <=? child_rhs) || less_at l child_lhs child_rhs then child_lhs else child_rhs in
        if less_at l index child then l
        else percolate_down n' (swap l index child) child
  end.

(* for i in 0..len { percolate_down(len - i - 1) } : indices len-1 down to 0 *)
Fixpoint heapify_from (i : nat) (l : list A) : list A :=
  match i with
  | O => l
  | Datatypes.S i' => heapify_from i' (percolate_down (length l) l i')
  end.
Definition heapify (l : list A) : list A := heapify_from (length l) l.
End Heap.

Record mstate (S : Type) := mkM { m_fwd : bool; m_kids : list S }.
Arguments mkM {S}. Arguments m_fwd {S}. Arguments m_kids {S}.

(* Comparator::is_less on the keys of two cursors: None (an exhausted cursor) is greatest;
   Forward compares lhs < rhs, Reverse compares lhs > rhs *)
Definition is_less_kv (fwd : bool) (a b : option entry) : bool :=
  match a, b with
  | Some x, Some y => if fwd then eltb x y else eltb y x
  | Some _, None => true
  | None, Some _ => false
  | None, None => false
  end.

Section Merging.
Context {S : Type} (c : cursor S).

Definition is_less (fwd : bool) (a b : S) : bool := is_less_kv fwd (c_kv c a) (c_kv c b).

(* if !self.cursors.is_empty() { self.cursors[0].f()?; } *)
Definition on_root (f : S -> S) (kids : list S) : list S := upd kids 0 f.

Definition m_first (st : mstate S) : mstate S :=
  let kids := map (fun s => c_next c (c_first c s)) (m_kids st) in
  let kids := heapify (is_less true) kids in
  mkM true (on_root (c_first c) kids).

Definition m_last (st : mstate S) : mstate S :=
  let kids := map (fun s => c_prev c (c_last c s)) (m_kids st) in
  let kids := heapify (is_less false) kids in
  mkM false (on_root (c_last c) kids).

Definition m_seek (k : key) (st : mstate S) : mstate S :=
  let kids := map (c_seek c k) (m_kids st) in
  mkM true (heapify (is_less true) kids).

Definition m_prev (st : mstate S) : mstate S :=
  if m_fwd st then
    let kids := map (c_prev c) (m_kids st) in
    mkM false (heapify (is_less false) kids)
  else
    let kids := on_root (c_prev c) (m_kids st) in
    mkM false (percolate_down (is_less false) (length kids) kids 0).

Definition m_next (st : mstate S) : mstate S :=
  if negb (m_fwd st) then
    let kids := map (c_next c) (m_kids st) in
    mkM true (heapify (is_less true) kids)
  else
    let kids := on_root (c_next c) (m_kids st) in
    mkM true (percolate_down (is_less true) (length kids) kids 0).

Definition m_kv (st : mstate S) : option entry :=
  match m_kids st with s :: _ => c_kv c s | [] => None end.

Definition merging : cursor (mstate S) := {|
  c_first := m_first; c_last := m_last; c_seek := m_seek; c_prev := m_prev; c_next := m_next;
  c_kv := m_kv; c_fail := fun _ => None |}.

(* MergingCursor::new: comparator Forward, then seek_to_first *)
Definition m_new (kids : list S) : mstate S := m_first (mkM true kids).
End Merging.
