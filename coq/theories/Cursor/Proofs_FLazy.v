(* Cursor/Proofs_FLazy.v — LazyCursor whose opens (and instantiated cursor) may return Err: twin
   of Lazy.v's model.  The accounting counts failed opens; the instantiated cursor is taken to
   consume no scheduled failures of its own (m = 0: a cursor that is dropped and re-opened would
   otherwise take its pending failures with it). *)
From Coq Require Import NArith ZArith List Bool Lia.
From Blue Require Import Cursor.Iface Cursor.Ref Cursor.Lazy Cursor.Fallible Cursor.FLazy
  Cursor.Proofs_Ref Cursor.Proofs_Fallible.
Import ListNotations.

Section FLazyTwin.
Context {S Sq : Type} (fc : fcursor S) (cq : cursor Sq) (q : S -> Sq) (m : S -> nat).
Hypothesis Htw : twin fc cq q m.
Hypothesis Hm0 : forall s, m s = 0%nat.
Context (mk : S).
Local Notation c := (f_cur fc).
Local Notation e := (f_err fc).

Definition lmap (p : lpos S) : lpos Sq :=
  match p with LFirst => LFirst | LLast => LLast | LInst cur => LInst (q cur) end.
Definition ql (x : fs (flstate S)) : lpos Sq := lmap (fl_pos (fs_st x)).
Definition ml (x : fs (flstate S)) : nat := pending (fl_opens (fs_st x)).

Lemma never_errs o s : e (step c o s) = false.
Proof.
  destruct (tw_step _ _ _ _ Htw o s) as [_ H]. rewrite !Hm0 in H. destruct (e (step c o s)) eqn:E; [|reflexivity]. exfalso. revert H. unfold b2n. lia.
Qed.
Lemma lq o s : q (step c o s) = step cq o (q s).
Proof. destruct (tw_step _ _ _ _ Htw o s) as [H _]. apply H, never_errs. Qed.
Lemma lhas_key_q s : has_key c s = has_key cq (q s).
Proof. unfold has_key. now rewrite (tw_kv _ _ _ _ Htw). Qed.

Definition lagrees (f : flstate S -> flstate S * bool) (g : lpos Sq -> lpos Sq) : Prop :=
  forall x, (snd (f x) = false -> lmap (fl_pos (fst (f x))) = g (lmap (fl_pos x))) /\
            (pending (fl_opens (fst (f x))) + b2n (snd (f x)) = pending (fl_opens x))%nat.

Lemma settle_ok o cur dflt dq opens : lmap dflt = dq ->
  snd (fl_settle fc (step c o cur) dflt opens) = false /\
  lmap (fl_pos (fst (fl_settle fc (step c o cur) dflt opens))) =
    (if has_key cq (step cq o (q cur)) then LInst (step cq o (q cur)) else dq) /\
  fl_opens (fst (fl_settle fc (step c o cur) dflt opens)) = opens.
Proof.
  intros Hd. unfold fl_settle. rewrite never_errs. cbn [fst snd fl_pos fl_opens].
  rewrite lhas_key_q, lq. destruct (has_key cq (step cq o (q cur))); cbn [lmap]; rewrite ?lq; auto.
Qed.

Lemma open_cases opens :
  (exists r, fl_open mk opens = (None, r) /\ (pending r + 1 = pending opens)%nat) \/
  (exists r, fl_open mk opens = (Some mk, r) /\ pending r = pending opens).
Proof.
  destruct opens as [|[|] r]; cbn [fl_open].
  - right. eauto.
  - left. exists r. split; [reflexivity|]. unfold pending. cbn [filter length]. lia.
  - right. exists r. split; reflexivity.
Qed.

Lemma seek_lagrees k : lagrees (fl_seek fc mk k) (l_seek cq (q mk) k).
Proof.
  intros [pos opens]. unfold fl_seek, l_seek. cbn [fl_pos fl_opens].
  destruct pos as [| |cur]; cbn [lmap l_cursor].
  - destruct (open_cases opens) as [[r [-> Hp]]|[r [-> Hp]]]; cbn [fst snd b2n fl_opens].
    + split; [discriminate|exact Hp].
    + destruct (settle_ok (OSeek k) mk LLast LLast r eq_refl) as [H1 [H2 H3]]. cbn [step] in *.
      rewrite H1, H3. cbn [b2n]. split; [intros _; exact H2|lia].
  - destruct (open_cases opens) as [[r [-> Hp]]|[r [-> Hp]]]; cbn [fst snd b2n fl_opens].
    + split; [discriminate|exact Hp].
    + destruct (settle_ok (OSeek k) mk LLast LLast r eq_refl) as [H1 [H2 H3]]. cbn [step] in *.
      rewrite H1, H3. cbn [b2n]. split; [intros _; exact H2|lia].
  - destruct (settle_ok (OSeek k) cur LLast LLast opens eq_refl) as [H1 [H2 H3]]. cbn [step] in *.
    rewrite H1, H3. cbn [b2n]. split; [intros _; exact H2|lia].
Qed.

Lemma prev_lagrees : lagrees (fl_prev fc mk) (l_prev cq (q mk)).
Proof.
  intros [pos opens]. unfold fl_prev, l_prev. cbn [fl_pos fl_opens].
  destruct pos as [| |cur]; cbn [lmap].
  - cbn [fst snd b2n fl_pos fl_opens lmap]. split; [reflexivity|lia].
  - destruct (open_cases opens) as [[r [-> Hp]]|[r [-> Hp]]]; cbn [fst snd b2n fl_opens].
    + split; [discriminate|exact Hp].
    + pose proof (never_errs OLast mk) as E1. cbn [step] in E1. rewrite E1.
      destruct (settle_ok OPrev (c_last c mk) LFirst LFirst r eq_refl) as [H1 [H2 H3]]. cbn [step] in *.
      rewrite H1, H3. cbn [b2n]. pose proof (lq OLast mk) as Hl. cbn [step] in Hl. rewrite Hl in H2.
      split; [intros _; exact H2|lia].
  - destruct (settle_ok OPrev cur LFirst LFirst opens eq_refl) as [H1 [H2 H3]]. cbn [step] in *.
    rewrite H1, H3. cbn [b2n]. split; [intros _; exact H2|lia].
Qed.

Lemma next_lagrees : lagrees (fl_next fc mk) (l_next cq (q mk)).
Proof.
  intros [pos opens]. unfold fl_next, l_next. cbn [fl_pos fl_opens].
  destruct pos as [| |cur]; cbn [lmap].
  - destruct (open_cases opens) as [[r [-> Hp]]|[r [-> Hp]]]; cbn [fst snd b2n fl_opens].
    + split; [discriminate|exact Hp].
    + pose proof (never_errs OFirst mk) as E1. cbn [step] in E1. rewrite E1.
      destruct (settle_ok ONext (c_first c mk) LLast LLast r eq_refl) as [H1 [H2 H3]]. cbn [step] in *.
      rewrite H1, H3. cbn [b2n]. pose proof (lq OFirst mk) as Hl. cbn [step] in Hl. rewrite Hl in H2.
      split; [intros _; exact H2|lia].
  - cbn [fst snd b2n fl_pos fl_opens lmap]. split; [reflexivity|lia].
  - destruct (settle_ok ONext cur LLast LLast opens eq_refl) as [H1 [H2 H3]]. cbn [step] in *.
    rewrite H1, H3. cbn [b2n]. split; [intros _; exact H2|lia].
Qed.

Theorem flazy_twin : twin (flazy fc mk) (lazy cq (q mk)) ql ml.
Proof.
  constructor.
  - intros [[pos opens] er]. cbn. destruct pos; cbn; auto. apply (tw_kv _ _ _ _ Htw).
  - reflexivity.
  - intros o [x er]. unfold ql, ml.
    assert (forall f g, lagrees f g ->
              (fs_err (fs_lift f (mkFs x er)) = false -> lmap (fl_pos (fs_st (fs_lift f (mkFs x er)))) = g (lmap (fl_pos x))) /\
              (pending (fl_opens (fs_st (fs_lift f (mkFs x er)))) + b2n (fs_err (fs_lift f (mkFs x er))) = pending (fl_opens x))%nat) as Hl.
    { intros f g H. unfold fs_lift. cbn [fs_st]. destruct (H x) as [H1 H2]. destruct (f x) as [x' er']. exact (conj H1 H2). }
    destruct o; cbn [step flazy lazy f_cur f_err c_first c_last c_seek c_prev c_next fs_st].
    + apply Hl. intros y. unfold fl_first, l_first. cbn [fst snd fl_pos fl_opens lmap b2n]. split; [reflexivity|lia].
    + apply Hl. intros y. unfold fl_last, l_last. cbn [fst snd fl_pos fl_opens lmap b2n]. split; [reflexivity|lia].
    + apply Hl, seek_lagrees.
    + apply Hl, prev_lagrees.
    + apply Hl, next_lagrees.
Qed.
End FLazyTwin.
