(* Cursor/FMerging.v — sst/src/merging_cursor.rs over children whose calls may return Err.
   Definitions only.  `for cursor in self.cursors.iter_mut() { cursor.f()?; }` stops at the first
   Err: the children before it have moved, it and the ones after it have not (it is wherever its
   failed call left it), `heapify` has not run; in seek_to_first / seek_to_last / seek the
   comparator was assigned BEFORE the loop, in the direction switch of next / prev it is assigned
   AFTER the loop (so an Err there leaves the old direction with half the children moved). *)
From Coq Require Import Arith List Bool.
From Blue Require Import Cursor.Iface Cursor.Concat Cursor.Merging Cursor.Fallible.
Import ListNotations.

Section FMerging.
Context {S : Type} (fc : fcursor S).
Local Notation c := (f_cur fc).
Local Notation e := (f_err fc).

(* for cursor in iter_mut() { f(cursor)?; }  with f itself a sequence of `?` calls *)
Fixpoint for_kids (f : S -> S * bool) (kids : list S) : list S * bool :=
  match kids with
  | [] => ([], false)
  | s :: r =>
      let '(s', er) := f s in
      if er then (s' :: r, true)
      else let '(r', er') := for_kids f r in (s' :: r', er')
  end.

Definition call1 (f : S -> S) (s : S) : S * bool := let s' := f s in (s', e s').
Definition call2 (f g : S -> S) (s : S) : S * bool :=
  let s' := f s in if e s' then (s', true) else let s'' := g s' in (s'', e s'').

(* if !self.cursors.is_empty() { self.cursors[0].f()?; } *)
Definition fon_root (f : S -> S) (kids : list S) : list S * bool :=
  match kids with
  | [] => ([], false)
  | s :: r => let s' := f s in (s' :: r, e s')
  end.

Definition fm_first (st : mstate S) : mstate S * bool :=
  let '(kids, er) := for_kids (call2 (c_first c) (c_next c)) (m_kids st) in
  if er then (mkM true kids, true) else
  let kids := heapify (is_less c true) kids in
  let '(kids, er) := fon_root (c_first c) kids in (mkM true kids, er).

Definition fm_last (st : mstate S) : mstate S * bool :=
  let '(kids, er) := for_kids (call2 (c_last c) (c_prev c)) (m_kids st) in
  if er then (mkM false kids, true) else
  let kids := heapify (is_less c false) kids in
  let '(kids, er) := fon_root (c_last c) kids in (mkM false kids, er).

Definition fm_seek (k : key) (st : mstate S) : mstate S * bool :=
  let '(kids, er) := for_kids (call1 (c_seek c k)) (m_kids st) in
  if er then (mkM true kids, true) else (mkM true (heapify (is_less c true) kids), false).

Definition fm_prev (st : mstate S) : mstate S * bool :=
  if m_fwd st then
    let '(kids, er) := for_kids (call1 (c_prev c)) (m_kids st) in
    if er then (mkM true kids, true) else (mkM false (heapify (is_less c false) kids), false)
  else
    let '(kids, er) := fon_root (c_prev c) (m_kids st) in
    if er then (mkM false kids, true)
    else (mkM false (percolate_down (is_less c false) (length kids) kids 0), false).

Definition fm_next (st : mstate S) : mstate S * bool :=
  if negb (m_fwd st) then
    let '(kids, er) := for_kids (call1 (c_next c)) (m_kids st) in
    if er then (mkM false kids, true) else (mkM true (heapify (is_less c true) kids), false)
  else
    let '(kids, er) := fon_root (c_next c) (m_kids st) in
    if er then (mkM true kids, true)
    else (mkM true (percolate_down (is_less c true) (length kids) kids 0), false).

Definition fmerging : fcursor (fs (mstate S)) := mkF {|
  c_first := fs_lift fm_first;
  c_last := fs_lift fm_last;
  c_seek := fun k => fs_lift (fm_seek k);
  c_prev := fs_lift fm_prev;
  c_next := fs_lift fm_next;
  c_kv := fun x => m_kv c (fs_st x);
  c_fail := fun _ => None |} fs_err.

Definition fm_new (kids : list S) : fs (mstate S) :=
  let '(st, er) := fm_first (mkM true kids) in mkFs st er.
End FMerging.
