(* Cursor/Proofs_Fallible.v — the method for cursors whose children may return Err.

   `twin fc cq q m`: the fallible cursor fc has a total twin cq; q forgets the error bookkeeping
   of a state; as long as a call does not return Err it is the twin's call (so everything proved
   about the total models applies up to the first Err), and a call consumes at most one scheduled
   failure, namely exactly when it returns Err (no swallowed error, no invented one). *)
From Coq Require Import NArith ZArith List Bool Lia.
From Blue Require Import Cursor.Iface Cursor.Ref Cursor.Fallible Cursor.Proofs_Ref.
Import ListNotations.
Local Open Scope Z_scope.

Definition b2n (b : bool) : nat := if b then 1%nat else 0%nat.

Record twin {S Sq : Type} (fc : fcursor S) (cq : cursor Sq) (q : S -> Sq) (m : S -> nat) : Prop := {
  tw_kv : forall s, c_kv (f_cur fc) s = c_kv cq (q s);
  tw_fail : forall s, c_fail (f_cur fc) s = c_fail cq (q s);
  tw_step : forall o s,
     (f_err fc (step (f_cur fc) o s) = false -> q (step (f_cur fc) o s) = step cq o (q s)) /\
     (m (step (f_cur fc) o s) + b2n (f_err fc (step (f_cur fc) o s)) = m s)%nat }.

(* the leaf: a total cursor with a failure schedule *)
Lemma failing_twin {S} (c : cursor S) (junk : S -> S) :
  twin (failing c junk) c lf_st (fun x => pending (lf_sched x)).
Proof.
  constructor; try reflexivity.
  intros o [s sched er]. destruct o; cbn [step failing f_cur f_err c_first c_last c_seek c_prev c_next];
    unfold lf_step; cbn [lf_st lf_sched lf_err];
    (destruct sched as [|[|] r]; cbn [lf_st lf_sched lf_err pending filter length b2n]; split; try reflexivity; try discriminate; try lia).
Qed.

(* x recovers: its absolute calls make it a reference cursor over l *)
Definition krec {S} (c : cursor S) (x : S) (l : list entry) : Prop :=
  forall o, is_abs o = true -> refines c (step c o x) l (step (ref l) o 0).

Lemma refines_krec {S} (c : cursor S) x l p : refines c x l p -> krec c x l.
Proof.
  intros H o Ho. pose proof (refines_step c _ _ _ o H) as H'.
  replace (step (ref l) o 0) with (step (ref l) o p); [exact H'|]. destruct o; try discriminate; reflexivity.
Qed.

Section TwinTheorems.
Context {S Sq : Type} (fc : fcursor S) (cq : cursor Sq) (q : S -> Sq) (m : S -> nat).
Hypothesis Htw : twin fc cq q m.

(* (a) every Err a run reports is one scheduled failure consumed, and vice versa *)
Theorem twin_accounting prog s :
  (m (fafter fc prog s) + count_err (frun fc prog s) = m s)%nat.
Proof.
  revert s. induction prog as [|o p IH]; intros s; cbn [fafter frun]; [unfold count_err; cbn; lia|].
  destruct (tw_step _ _ _ _ Htw o s) as [_ Hm]. specialize (IH (step (f_cur fc) o s)).
  unfold count_err in *. cbn [filter]. unfold fobserve at 1.
  destruct (f_err fc (step (f_cur fc) o s)); cbn [b2n] in Hm.
  - cbn [length]. lia.
  - destruct (c_fail (f_cur fc) (step (f_cur fc) o s)); lia.
Qed.

Lemma twin_observe s l i : refines cq (q s) l i -> f_err fc s = false -> fobserve fc s = FKV (ent l i).
Proof.
  intros Hr He. unfold fobserve. rewrite He, (tw_fail _ _ _ _ Htw), (refines_fail cq _ _ _ Hr).
  rewrite (tw_kv _ _ _ _ Htw), (refines_kv cq _ _ _ Hr). reflexivity.
Qed.

(* (b) up to the first Err the run is the reference cursor's *)
Theorem twin_clean l prog : forall s i, refines cq (q s) l i -> fclean fc l prog s i.
Proof.
  induction prog as [|o p IH]; intros s i Hr; cbn [fclean]; [exact I|].
  destruct (f_err fc (step (f_cur fc) o s)) eqn:He; [exact I|].
  destruct (tw_step _ _ _ _ Htw o s) as [Hq _]. specialize (Hq He).
  assert (refines cq (q (step (f_cur fc) o s)) l (step (ref l) o i)) as Hr' by (rewrite Hq; now apply refines_step).
  split; [now apply twin_observe|now apply IH].
Qed.

(* (c) with an invariant that survives errors and from which absolute calls recover *)
Variable Inv : S -> Prop.
Variable l : list entry.
Hypothesis Inv_step : forall o s, Inv s -> Inv (step (f_cur fc) o s).
Hypothesis Inv_rec : forall o s, Inv s -> c_fail (f_cur fc) s = None -> is_abs o = true ->
  refines cq (step cq o (q s)) l (step (ref l) o 0).

Theorem twin_recovers prog : forall s oi, Inv s -> c_fail (f_cur fc) s = None ->
  (forall i, oi = Some i -> refines cq (q s) l i) -> fmatch fc l prog s oi.
Proof.
  induction prog as [|o p IH]; intros s oi HI Hf Hoi; cbn [fmatch]; [exact I|].
  pose proof (Inv_step o s HI) as HI'. destruct (tw_step _ _ _ _ Htw o s) as [Hq _].
  destruct (f_err fc (step (f_cur fc) o s)) eqn:He.
  - destruct (c_fail (f_cur fc) (step (f_cur fc) o s)) eqn:Hf'; [exact I|]. apply IH; auto. discriminate.
  - specialize (Hq eq_refl). unfold spec_next. destruct (is_abs o) eqn:Ea.
    + assert (refines cq (q (step (f_cur fc) o s)) l (step (ref l) o 0)) as Hr by (rewrite Hq; now apply Inv_rec).
      split; [now apply twin_observe|]. apply IH; auto.
      * rewrite (tw_fail _ _ _ _ Htw). eapply refines_fail; eauto.
      * intros i Hi. injection Hi as <-. exact Hr.
    + destruct oi as [i|].
      * assert (refines cq (q (step (f_cur fc) o s)) l (step (ref l) o i)) as Hr by (rewrite Hq; apply refines_step; auto).
        split; [now apply twin_observe|]. apply IH; auto.
        -- rewrite (tw_fail _ _ _ _ Htw). eapply refines_fail; eauto.
        -- intros i' Hi. injection Hi as <-. exact Hr.
      * destruct (c_fail (f_cur fc) (step (f_cur fc) o s)) eqn:Hf'; [exact I|]. apply IH; auto. discriminate.
Qed.

(* the same with a health predicate *)
Variable h : S -> bool.
Hypothesis Inv_rec_h : forall o s, Inv s -> h s = true -> is_abs o = true ->
  refines cq (step cq o (q s)) l (step (ref l) o 0).

Theorem twin_recovers_h prog : forall s oi, Inv s -> (oi = None -> h s = true) ->
  (forall i, oi = Some i -> refines cq (q s) l i) -> fmatchh fc h l prog s oi.
Proof.
  induction prog as [|o p IH]; intros s oi HI Hh Hoi; cbn [fmatchh]; [exact I|].
  pose proof (Inv_step o s HI) as HI'. destruct (tw_step _ _ _ _ Htw o s) as [Hq _].
  destruct (f_err fc (step (f_cur fc) o s)) eqn:He.
  - intros Hh'. apply IH; [exact HI'|intros _; exact Hh'|discriminate].
  - specialize (Hq eq_refl). unfold spec_next. destruct (is_abs o) eqn:Ea.
    + assert (refines cq (q (step (f_cur fc) o s)) l (step (ref l) o 0)) as Hr.
      { rewrite Hq. destruct oi as [i|].
        - replace (step (ref l) o 0) with (step (ref l) o i) by (destruct o; try discriminate; reflexivity).
          apply refines_step. now apply Hoi.
        - apply Inv_rec_h; auto. }
      split; [now apply twin_observe|]. intros Hh'. apply IH; [exact HI'|discriminate|].
      intros i Hi. injection Hi as <-. exact Hr.
    + destruct oi as [i|].
      * assert (refines cq (q (step (f_cur fc) o s)) l (step (ref l) o i)) as Hr by (rewrite Hq; apply refines_step; auto).
        split; [now apply twin_observe|]. intros Hh'. apply IH; [exact HI'|discriminate|].
        intros i' Hi. injection Hi as <-. exact Hr.
      * intros Hh'. apply IH; [exact HI'|intros _; exact Hh'|discriminate].
Qed.
End TwinTheorems.
