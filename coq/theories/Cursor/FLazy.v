(* Cursor/FLazy.v — sst/src/lazy_cursor.rs where both `(self.instantiate)()` and the calls on
   the instantiated cursor may return Err.  Definitions only.
   `instantiate` is a FnMut: its outcomes are a schedule in the state (true = this call returns
   Err).  establish_cursor does `let cursor = (self.instantiate)()?;` BEFORE assigning
   self.position, so a failed open leaves the position as it was; a failed call on the
   instantiated cursor leaves `Instantiated { cursor }` with the cursor wherever the failed call
   left it (the `if cursor.key().is_none()` demotion after it has not run). *)
From Coq Require Import List Bool.
From Blue Require Import Cursor.Iface Cursor.Lazy Cursor.Fallible.
Import ListNotations.

Record flstate (S : Type) := mkFl { fl_pos : lpos S; fl_opens : list bool }.
Arguments mkFl {S}. Arguments fl_pos {S}. Arguments fl_opens {S}.

Section FLazy.
Context {S : Type} (fc : fcursor S) (mk : S).
Local Notation c := (f_cur fc).
Local Notation e := (f_err fc).

(* (self.instantiate)() : Some fresh cursor, or None = Err; the schedule advances *)
Definition fl_open (opens : list bool) : option S * list bool :=
  match opens with
  | true :: r => (None, r)
  | false :: r => (Some mk, r)
  | [] => (Some mk, [])
  end.

(* after a call on the cursor: Err, or settle into Instantiated / the given sentinel *)
Definition fl_settle (cur : S) (dflt : lpos S) (opens : list bool) : flstate S * bool :=
  if e cur then (mkFl (LInst cur) opens, true)
  else (mkFl (if has_key c cur then LInst cur else dflt) opens, false).

Definition fl_first (x : flstate S) : flstate S * bool := (mkFl LFirst (fl_opens x), false).
Definition fl_last (x : flstate S) : flstate S * bool := (mkFl LLast (fl_opens x), false).

Definition fl_seek (k : key) (x : flstate S) : flstate S * bool :=
  match fl_pos x with
  | LInst cur => fl_settle (c_seek c k cur) LLast (fl_opens x)
  | _ =>
      match fl_open (fl_opens x) with
      | (None, r) => (mkFl (fl_pos x) r, true)
      | (Some cur, r) => fl_settle (c_seek c k cur) LLast r
      end
  end.

Definition fl_prev (x : flstate S) : flstate S * bool :=
  match fl_pos x with
  | LFirst => (x, false)
  | LLast =>
      match fl_open (fl_opens x) with
      | (None, r) => (mkFl LLast r, true)
      | (Some cur, r) =>
          let cur1 := c_last c cur in
          if e cur1 then (mkFl (LInst cur1) r, true) else fl_settle (c_prev c cur1) LFirst r
      end
  | LInst cur => fl_settle (c_prev c cur) LFirst (fl_opens x)
  end.

Definition fl_next (x : flstate S) : flstate S * bool :=
  match fl_pos x with
  | LFirst =>
      match fl_open (fl_opens x) with
      | (None, r) => (mkFl LFirst r, true)
      | (Some cur, r) =>
          let cur1 := c_first c cur in
          if e cur1 then (mkFl (LInst cur1) r, true) else fl_settle (c_next c cur1) LLast r
      end
  | LLast => (x, false)
  | LInst cur => fl_settle (c_next c cur) LLast (fl_opens x)
  end.

Definition flazy : fcursor (fs (flstate S)) := mkF {|
  c_first := fs_lift fl_first;
  c_last := fs_lift fl_last;
  c_seek := fun k => fs_lift (fl_seek k);
  c_prev := fs_lift fl_prev;
  c_next := fs_lift fl_next;
  c_kv := fun x => l_kv c (fl_pos (fs_st x));
  c_fail := fun _ => None |} fs_err.

Definition fl_new (opens : list bool) : fs (flstate S) := mkFs (mkFl LFirst opens) false.
End FLazy.
