(* Cursor/Pruning.v — model of sst/src/pruning_cursor.rs (PruningCursor).  Definitions only,
   loop by loop.  `t` is self.timestamp; `fuel` bounds every `loop`/`while` (a theorem shows
   that fuel > len of the underlying table is never exhausted).

   key()/value() of the pruning cursor are the underlying cursor's, so `self.key()` below is
   `c_kv c (p_cur st)`; set_skip_key() copies the current key (or None). *)
From Coq Require Import NArith List Bool.
From Blue Require Import Cursor.Iface.

Record pstate (S : Type) := mkP { p_cur : S; p_skip : option key; p_fail : option failure }.
Arguments mkP {S}. Arguments p_cur {S}. Arguments p_skip {S}. Arguments p_fail {S}.

Definition is_none {A} (o : option A) : bool := match o with None => true | Some _ => false end.

(* self.skip_key.is_none() || self.skip_key.as_ref().unwrap() != kr.key *)
Definition skip_differs (sk : option key) (k : key) : bool :=
  match sk with None => true | Some s => negb (keqb s k) end.

Section Pruning.
Context {S : Type} (c : cursor S) (fuel : nat) (t : N).

Definition p_set_fail (st : pstate S) (f : failure) : pstate S := mkP (p_cur st) (p_skip st) (Some f).

Definition set_skip_key (cur : S) : option key :=
  match c_kv c cur with Some e => Some (ek e) | None => None end.

Definition p_first_raw (st : pstate S) : pstate S := mkP (c_first c (p_cur st)) None (p_fail st).
Definition p_last_raw (st : pstate S) : pstate S := mkP (c_last c (p_cur st)) None (p_fail st).

(* seek's loop: examine the current entry; return, or advance and repeat *)
Fixpoint p_seek_loop (n : nat) (st : pstate S) : pstate S :=
  match c_kv c (p_cur st) with
  | None => st
  | Some e =>
      let le := N.leb (ets e) t in
      if le && is_none (ev e) then
        match n with
        | O => p_set_fail st OutOfFuel
        | Datatypes.S n' => p_seek_loop n' (mkP (c_next c (p_cur st)) (set_skip_key (p_cur st)) (p_fail st))
        end
      else if le && skip_differs (p_skip st) (ek e) then
        mkP (p_cur st) (set_skip_key (p_cur st)) (p_fail st)
      else
        match n with
        | O => p_set_fail st OutOfFuel
        | Datatypes.S n' => p_seek_loop n' (mkP (c_next c (p_cur st)) (p_skip st) (p_fail st))
        end
  end.

Definition p_seek_raw (k : key) (st : pstate S) : pstate S :=
  p_seek_loop fuel (mkP (c_seek c k (p_cur st)) None (p_fail st)).

(* next's loop: advance, then examine; return or repeat *)
Fixpoint p_next_loop (n : nat) (st : pstate S) : pstate S :=
  match n with
  | O => p_set_fail st OutOfFuel
  | Datatypes.S n' =>
      let cur := c_next c (p_cur st) in
      match c_kv c cur with
      | None => mkP cur (p_skip st) (p_fail st)
      | Some e =>
          let le := N.leb (ets e) t in
          if le && is_none (ev e) then p_next_loop n' (mkP cur (set_skip_key cur) (p_fail st))
          else if le && skip_differs (p_skip st) (ek e) then mkP cur (set_skip_key cur) (p_fail st)
          else p_next_loop n' (mkP cur (p_skip st) (p_fail st))
      end
  end.
Definition p_next_raw (st : pstate S) : pstate S := p_next_loop fuel st.

(* prev, first inner loop:  while self.skip_key.is_some() { .. }
   Ret = the function returned from inside the loop; Go = the loop was left normally *)
Fixpoint prev_skip_loop (n : nat) (cur : S) (sk : option key) : ctl (S * option key) :=
  match sk with
  | None => Go (cur, None)
  | Some s =>
      match c_kv c cur with
      | None => Ret (cur, None)
      | Some e =>
          if negb (keqb s (ek e)) then Go (cur, None)
          else
            match n with
            | O => Fuel
            | Datatypes.S n' => prev_skip_loop n' (c_prev c cur) sk
            end
      end
  end.

(* prev, second inner loop:  loop { prev; if key is None, or too new, or another key: break } *)
Fixpoint prev_back_loop (n : nat) (target : key) (cur : S) : option S :=
  match n with
  | O => None
  | Datatypes.S n' =>
      let cur := c_prev c cur in
      match c_kv c cur with
      | None => Some cur
      | Some e => if N.ltb t (ets e) || negb (keqb (ek e) target) then Some cur
                  else prev_back_loop n' target cur
      end
  end.

(* prev, third inner loop:  while let Some(kr) = key() { if kr is the target and old enough: break; next } *)
Fixpoint prev_fwd_loop (n : nat) (target : key) (cur : S) : option S :=
  match c_kv c cur with
  | None => Some cur
  | Some e =>
      if N.leb (ets e) t && keqb (ek e) target then Some cur
      else
        match n with
        | O => None
        | Datatypes.S n' => prev_fwd_loop n' target (c_next c cur)
        end
  end.

(* prev's outer loop *)
Fixpoint p_prev_loop (n : nat) (st : pstate S) : pstate S :=
  match n with
  | O => p_set_fail st OutOfFuel
  | Datatypes.S n' =>
      match prev_skip_loop fuel (c_prev c (p_cur st)) (p_skip st) with
      | Fuel => p_set_fail st OutOfFuel
      | Ret (cur, sk) => mkP cur sk (p_fail st)
      | Go (cur, sk) =>
          match c_kv c cur with
          | None => mkP cur None (p_fail st)
          | Some e =>
              if N.ltb t (ets e) then
                (* the oldest version of this key is too new: skip the key *)
                p_prev_loop n' (mkP cur (set_skip_key cur) (p_fail st))
              else
                let target := ek e in
                match prev_back_loop fuel target cur with
                | None => p_set_fail (mkP cur sk (p_fail st)) OutOfFuel
                | Some cur =>
                    let cur := if has_key c cur then cur else c_next c cur in
                    match prev_fwd_loop fuel target cur with
                    | None => p_set_fail (mkP cur sk (p_fail st)) OutOfFuel
                    | Some cur =>
                        match c_kv c cur with
                        | None => p_set_fail (mkP cur sk (p_fail st)) LogicError
                        | Some e' =>
                            (* assert!(kr.timestamp <= self.timestamp); assert!(kr.key == target_key); *)
                            if negb (N.leb (ets e') t && keqb (ek e') target)
                            then p_set_fail (mkP cur sk (p_fail st)) Panic
                            else
                              match ev e' with
                              | Some _ => mkP cur (set_skip_key cur) (p_fail st)
                              | None => p_prev_loop n' (mkP cur (set_skip_key cur) (p_fail st))
                              end
                        end
                    end
                end
          end
      end
  end.

Definition p_prev_raw (st : pstate S) : pstate S :=
  let st := if has_key c (p_cur st) then st else mkP (p_cur st) None (p_fail st) in
  p_prev_loop fuel st.

Definition p_guard (f : pstate S -> pstate S) (st : pstate S) : pstate S :=
  match p_fail st with Some _ => st | None => f st end.

Definition pruning : cursor (pstate S) := {|
  c_first := p_guard p_first_raw;
  c_last := p_guard p_last_raw;
  c_seek := fun k => p_guard (p_seek_raw k);
  c_prev := p_guard p_prev_raw;
  c_next := p_guard p_next_raw;
  c_kv := fun st => c_kv c (p_cur st);
  c_fail := p_fail |}.

(* PruningCursor::new: cursor.seek_to_first(), skip_key = None *)
Definition p_new (cur : S) : pstate S := mkP (c_first c cur) None None.
End Pruning.
