(* Cursor/Bounds.v — model of sst/src/bounds_cursor.rs (BoundsCursor) as repaired by the F20 fix
   (`seek` re-anchors with seek_to_last when it lands past the end bound or at the end of the
   underlying cursor).  Definitions only, statement by statement.

   Note that check_for_*_bound_exceeded call `self.key()`, which is the BoundsCursor's own key():
   None unless `bounds == Positioned`.  The model keeps that (b_kv). *)
From Coq Require Import List Bool.
From Blue Require Import Cursor.Iface.

Inductive bound := Unbounded | Included (k : key) | Excluded (k : key).
Inductive bpos := BeforeStart | Positioned | AfterEnd.

Record bstate (S : Type) := mkB { b_cur : S; b_pos : bpos; b_fail : option failure }.
Arguments mkB {S}. Arguments b_cur {S}. Arguments b_pos {S}. Arguments b_fail {S}.

Definition bpos_eqb (a b : bpos) : bool :=
  match a, b with
  | BeforeStart, BeforeStart => true | Positioned, Positioned => true | AfterEnd, AfterEnd => true
  | _, _ => false
  end.

Section Bounds.
Context {S : Type} (c : cursor S) (fuel : nat) (lo hi : bound).

Definition set_pos (st : bstate S) (p : bpos) : bstate S := mkB (b_cur st) p (b_fail st).
Definition set_cur (st : bstate S) (cur : S) : bstate S := mkB cur (b_pos st) (b_fail st).
Definition set_fail (st : bstate S) (f : failure) : bstate S := mkB (b_cur st) (b_pos st) (Some f).

(* key_value(): the underlying cursor's, if Positioned *)
Definition b_kv (st : bstate S) : option entry :=
  match b_pos st with Positioned => c_kv c (b_cur st) | _ => None end.

Definition check_start (st : bstate S) : bstate S :=
  match b_kv st, lo with
  | Some _, Unbounded => st
  | Some e, Included k => if kltb (ek e) k then set_pos st BeforeStart else st    (* kr.key < key *)
  | Some e, Excluded k => if kleb (ek e) k then set_pos st BeforeStart else st    (* kr.key <= key *)
  | None, _ => st
  end.

Definition check_end (st : bstate S) : bstate S :=
  match b_kv st, hi with
  | Some _, Unbounded => st
  | Some e, Included k => if kltb k (ek e) then set_pos st AfterEnd else st       (* kr.key > key *)
  | Some e, Excluded k => if kleb k (ek e) then set_pos st AfterEnd else st       (* kr.key >= key *)
  | None, _ => st
  end.

(* if self.cursor.key().is_some() { self.cursor.prev()?; } *)
Definition prev_if_some (cur : S) : S := if has_key c cur then c_prev c cur else cur.

Definition b_first_raw (st : bstate S) : bstate S :=
  let st :=
    match lo with
    | Unbounded =>
        let st := set_pos st BeforeStart in
        set_cur st (prev_if_some (c_first c (b_cur st)))
    | Included k =>
        let st := set_pos st BeforeStart in
        set_cur st (prev_if_some (c_seek c k (b_cur st)))
    | Excluded k =>
        let st := set_pos st BeforeStart in
        set_cur st (prev_if_some (c_seek c k (b_cur st)))
    end in
  check_end st.

(* while let Some(key) = self.cursor.key() { if key.key == end_bound { next } else { break } } *)
Fixpoint skip_equal (n : nat) (k : key) (cur : S) : option S :=
  match c_kv c cur with
  | None => Some cur
  | Some e =>
      if keqb (ek e) k then
        match n with
        | O => None
        | Datatypes.S n' => skip_equal n' k (c_next c cur)
        end
      else Some cur
  end.

Definition b_last_raw (st : bstate S) : bstate S :=
  let st :=
    match hi with
    | Unbounded =>
        let st := set_pos st AfterEnd in
        set_cur st (c_last c (b_cur st))
    | Included k =>
        let st := set_pos st AfterEnd in
        match skip_equal fuel k (c_seek c k (b_cur st)) with
        | Some cur => set_cur st cur
        | None => set_fail st OutOfFuel
        end
    | Excluded k =>
        let st := set_pos st AfterEnd in
        set_cur st (c_seek c k (b_cur st))
    end in
  check_start st.

Definition b_prev_raw (st : bstate S) : bstate S :=
  let st :=
    if negb (bpos_eqb (b_pos st) BeforeStart)
    then set_pos (set_cur st (c_prev c (b_cur st))) Positioned
    else st in
  check_start st.

(* while self.bounds != AfterEnd { next; Positioned; check start; check end;
                                   if self.bounds != BeforeStart { return } } *)
Fixpoint b_next_loop (n : nat) (st : bstate S) : bstate S :=
  if bpos_eqb (b_pos st) AfterEnd then st
  else
    match n with
    | O => set_fail st OutOfFuel
    | Datatypes.S n' =>
        let st := set_pos (set_cur st (c_next c (b_cur st))) Positioned in
        let st := check_start st in
        let st := check_end st in
        if negb (bpos_eqb (b_pos st) BeforeStart) then st else b_next_loop n' st
    end.
Definition b_next_raw (st : bstate S) : bstate S := b_next_loop fuel st.

(* every `?`-call of the Rust: nothing happens once the cursor has failed *)
Definition b_guard (f : bstate S -> bstate S) (st : bstate S) : bstate S :=
  match b_fail st with Some _ => st | None => f st end.

Definition b_seek_raw (k : key) (st : bstate S) : bstate S :=
  let st := set_pos st Positioned in
  let st := set_cur st (c_seek c k (b_cur st)) in
  let st := check_end st in
  let st := check_start st in
  if bpos_eqb (b_pos st) BeforeStart then
    b_guard b_next_raw (b_first_raw st)
  else if bpos_eqb (b_pos st) AfterEnd || negb (has_key c (b_cur st)) then   (* the F20 fix *)
    b_last_raw st
  else st.

Definition bounds : cursor (bstate S) := {|
  c_first := b_guard b_first_raw;
  c_last := b_guard b_last_raw;
  c_seek := fun k => b_guard (b_seek_raw k);
  c_prev := b_guard b_prev_raw;
  c_next := b_guard b_next_raw;
  c_kv := b_kv;
  c_fail := b_fail |}.

(* BoundsCursor::new: bounds = BeforeStart, then seek_to_first *)
Definition b_new (cur : S) : bstate S := b_first_raw (mkB cur BeforeStart None).
End Bounds.
