(* Extraction of the fallible Cursor model (FCompose.frun_model) for the correspondence check of
   C11 with storage errors.  Directives in force: those of ExtrOcamlBasic only. *)
From Coq Require Import NArith ZArith List.
From Blue Require Import Cursor.Iface Cursor.Ref Cursor.Spec Cursor.Compose Cursor.Fallible Cursor.FCompose.
Require Import ExtrOcamlBasic.
Extraction Language OCaml.
Extraction "../ocaml/cursor/gen_fcursor.ml" frun_model fhealth_model run_spec erase.
