(* Cursor/Proofs_Nestings.v — the compaction-input and GC-input cursors of lsmtk equal their
   reference: corollaries of the composition theorem. *)
From Coq Require Import NArith ZArith List Bool Lia Permutation.
From Blue Require Import Cursor.Iface Cursor.Ref Cursor.Spec Cursor.Compose Cursor.Nestings
  Cursor.Fallible Cursor.FCompose Cursor.Proofs_Order Cursor.Proofs_Ref Cursor.Proofs_Spec Cursor.Proofs_Compose
  Cursor.Proofs_Fallible Cursor.Proofs_FCompose Cursor.Proofs_FTree.
Import ListNotations.
Local Open Scope Z_scope.

Lemma compaction_input_wf tabs : Forall sorted tabs -> distinct (concat tabs) -> wf (compaction_input tabs).
Proof.
  intros Hs Hd. unfold compaction_input. cbn [wf]. split.
  - apply wf_all_Forall. rewrite Forall_forall in *. intros x Hx. apply in_map_iff in Hx.
    destruct Hx as [t [<- Ht]]. cbn. now apply Hs.
  - rewrite map_map. cbn [spec_of]. now rewrite map_id.
Qed.

Lemma compaction_input_spec tabs : spec_of (compaction_input tabs) = merge_spec tabs.
Proof. unfold compaction_input. cbn [spec_of]. rewrite map_map. cbn [spec_of]. now rewrite map_id. Qed.

Theorem compaction_input_correct tabs prog : Forall sorted tabs -> distinct (concat tabs) ->
  run_model (compaction_input tabs) prog = run (ref (merge_spec tabs)) prog ref_new.
Proof.
  intros Hs Hd. rewrite (run_model_is_run_spec _ prog (compaction_input_wf tabs Hs Hd)).
  unfold run_spec. now rewrite compaction_input_spec.
Qed.

(* a forward walk of the reference cursor from index i: the k-th observation is entry i+k
   (None once past the end) *)
Lemma ref_forward_walk L : forall n i, -1 <= i <= len L ->
  map fst (run (ref L) (repeat ONext n) i) =
  map (fun k => ent L (Z.min (i + Z.of_nat k) (len L))) (seq 0 (Datatypes.S n)).
Proof.
  induction n as [|n IH]; intros i Hi.
  - cbn. f_equal. f_equal. lia.
  - change (seq 0 (Datatypes.S (Datatypes.S n))) with (0%nat :: seq 1 (Datatypes.S n)).
    cbn [repeat run map observe fst]. f_equal; [cbn; f_equal; lia|].
    cbn [step ref c_next]. rewrite IH by (apply ref_next_range; exact Hi).
    rewrite <- (seq_shift (Datatypes.S n) 0), map_map. apply map_ext. intros k. f_equal.
    unfold ref_next. destruct (Z.leb_spec (len L) (i + 1)); lia.
Qed.

(* perform_compaction reads exactly the sorted union of its inputs: after seek_to_first the k-th
   next yields the k-th entry (in KeyRef order, every entry once), then None *)
Theorem compaction_walk_reads_sorted_union tabs n : Forall sorted tabs -> distinct (concat tabs) ->
  map fst (run_model (compaction_input tabs) (compaction_walk n)) =
  None :: map (fun k => ent (merge_spec tabs) (Z.min (Z.of_nat k - 1) (len (merge_spec tabs)))) (seq 0 (Datatypes.S n)).
Proof.
  intros Hs Hd. rewrite compaction_input_correct by assumption. unfold compaction_walk, ref_new.
  pose proof (len_nonneg (merge_spec tabs)).
  change (run (ref (merge_spec tabs)) (OFirst :: repeat ONext n) (-1)) with
    (observe (ref (merge_spec tabs)) (-1) :: run (ref (merge_spec tabs)) (repeat ONext n) (-1)).
  cbn [map]. f_equal. rewrite ref_forward_walk by lia.
  apply map_ext. intros k. f_equal. lia.
Qed.

(* the garbage collector's cursor: after seek_to_first(); next() it is the reference cursor over
   the sorted union at its first entry, and stays the reference cursor under every program *)
Theorem gc_input_correct tabs prog : Forall sorted tabs -> distinct (concat tabs) ->
  run_model (compaction_input tabs) (gc_input_prefix ++ prog) =
  run (ref (merge_spec tabs)) (gc_input_prefix ++ prog) ref_new /\
  skipn 2 (run (ref (merge_spec tabs)) (gc_input_prefix ++ prog) ref_new) =
  run (ref (merge_spec tabs)) prog (Z.min 0 (len (merge_spec tabs))).
Proof.
  intros Hs Hd. split; [now apply compaction_input_correct|].
  unfold gc_input_prefix, ref_new. cbn [app run skipn step ref c_first c_next]. f_equal.
  unfold ref_next. pose proof (len_nonneg (merge_spec tabs)). destruct (Z.leb_spec (len (merge_spec tabs)) (-1 + 1)); lia.
Qed.

(* with storage errors: whatever a compaction (or the garbage collector) has read before the
   first Err is the reference cursor's, i.e. a prefix of the walk over the sorted union; and the
   Err is reported (the compaction then fails and the cursor is dropped) *)
Lemma compaction_input_failing_erase tabs :
  erase (compaction_input_failing tabs) = compaction_input (map fst tabs).
Proof. unfold compaction_input_failing, compaction_input. cbn [erase]. now rewrite !map_map. Qed.

Theorem compaction_input_failing_correct tabs u prog :
  Forall sorted (map fst tabs) -> distinct (concat (map fst tabs)) ->
  fubuild (fdepth (compaction_input_failing tabs)) (fsize (compaction_input_failing tabs) + 2)
          (compaction_input_failing tabs) = Some u ->
  fclean (fucur (fdepth (compaction_input_failing tabs))) (merge_spec (map fst tabs)) prog u (-1) /\
  (mu (fafter (fucur (fdepth (compaction_input_failing tabs))) prog u) +
   count_err (frun (fucur (fdepth (compaction_input_failing tabs))) prog u) = mu u)%nat.
Proof.
  intros Hs Hd Hb. split; [|now apply tree_accounting].
  rewrite <- compaction_input_spec, <- compaction_input_failing_erase.
  apply tree_clean; [|exact Hb]. rewrite compaction_input_failing_erase. now apply compaction_input_wf.
Qed.
