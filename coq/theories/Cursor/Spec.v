(* Cursor/Spec.v — the specification of each combinator: the LIST a reference cursor walks.
   Definitions only.  Each is the plainest reading of the property text:
     merging   : the sorted union of the children's entries
     concat    : the concatenation
     bounds    : the entries whose key lies in the interval
     pruning   : per key, the newest version not newer than t, unless it is a tombstone
     lazy      : the table itself *)
From Coq Require Import NArith List Bool.
From Blue Require Import Cursor.Iface Cursor.Bounds Cursor.Pruning.
Import ListNotations.

Definition in_lo (lo : bound) (e : entry) : bool :=
  match lo with
  | Unbounded => true
  | Included k => negb (kltb (ek e) k)       (* key >= k *)
  | Excluded k => negb (kleb (ek e) k)       (* key >  k *)
  end.
Definition in_hi (hi : bound) (e : entry) : bool :=
  match hi with
  | Unbounded => true
  | Included k => kleb (ek e) k              (* key <= k *)
  | Excluded k => kltb (ek e) k              (* key <  k *)
  end.
Definition in_bounds (lo hi : bound) (e : entry) : bool := in_lo lo e && in_hi hi e.
Definition bounds_spec (lo hi : bound) (l : list entry) : list entry := filter (in_bounds lo hi) l.

(* e' is a version of e's key, not newer than t, and newer than e *)
Definition shadows (t : N) (e e' : entry) : bool :=
  keqb (ek e') (ek e) && N.leb (ets e') t && N.ltb (ets e) (ets e').
(* e is the newest version of its key that is not newer than t, and it is not a tombstone *)
Definition visible (t : N) (l : list entry) (e : entry) : bool :=
  N.leb (ets e) t && forallb (fun e' => negb (shadows t e e')) l && negb (is_none (ev e)).
Definition prune_spec (t : N) (l : list entry) : list entry := filter (visible t l) l.

Definition concat_spec (ls : list (list entry)) : list entry := concat ls.

(* sorted union: insertion sort by KeyRef of all the entries *)
Fixpoint insert_sorted (e : entry) (l : list entry) : list entry :=
  match l with
  | [] => [e]
  | a :: r => if eltb e a then e :: l else a :: insert_sorted e r
  end.
Definition merge_spec (ls : list (list entry)) : list entry := fold_right insert_sorted [] (concat ls).

Definition lazy_spec (l : list entry) : list entry := l.
