(* Extraction of the executable Cursor model for the correspondence check of C11.
   Directives in force: those of ExtrOcamlBasic only; N, Z, positive, nat stay inductive. *)
From Coq Require Import NArith ZArith List.
From Blue Require Import Cursor.Iface Cursor.Ref Cursor.Spec Cursor.Compose.
Require Import ExtrOcamlBasic.
Extraction Language OCaml.
Extraction "../ocaml/cursor/gen_cursor.ml" run_model run_spec spec_of.
