(* Cursor/Proofs_FBounds.v — BoundsCursor over a fallible child: twin of Bounds.v's model. *)
From Coq Require Import NArith ZArith List Bool Lia.
From Blue Require Import Cursor.Iface Cursor.Ref Cursor.Bounds Cursor.Fallible Cursor.FBounds
  Cursor.Proofs_Ref Cursor.Proofs_Fallible.
Import ListNotations.

Section FBoundsTwin.
Context {S Sq : Type} (fc : fcursor S) (cq : cursor Sq) (q : S -> Sq) (m : S -> nat).
Hypothesis Htw : twin fc cq q m.
Context (fuel : nat) (lo hi : bound).
Local Notation c := (f_cur fc).
Local Notation e := (f_err fc).

Definition bmap (st : bstate S) : bstate Sq := mkB (q (b_cur st)) (b_pos st) (b_fail st).
Definition qb (x : fs (bstate S)) : bstate Sq := bmap (fs_st x).
Definition mb (x : fs (bstate S)) : nat := m (b_cur (fs_st x)).

(* a raw fallible function f agrees with the total g *)
Definition agrees (f : bstate S -> bstate S * bool) (g : bstate Sq -> bstate Sq) : Prop :=
  forall st, (snd (f st) = false -> bmap (fst (f st)) = g (bmap st)) /\
             (m (b_cur (fst (f st))) + b2n (snd (f st)) = m (b_cur st))%nat.

Lemma kv_q s : c_kv c s = c_kv cq (q s).
Proof. apply (tw_kv _ _ _ _ Htw). Qed.
Lemma has_key_q s : has_key c s = has_key cq (q s).
Proof. unfold has_key. now rewrite kv_q. Qed.
Lemma bkv_q st : b_kv c st = b_kv cq (bmap st).
Proof. unfold b_kv. cbn. destruct (b_pos st); auto using kv_q. Qed.

Lemma check_start_q st : bmap (check_start c lo st) = check_start cq lo (bmap st).
Proof.
  unfold check_start. rewrite <- bkv_q. destruct (b_kv c st) as [en|]; [|reflexivity].
  destruct lo; [reflexivity| |]; match goal with |- context [if ?b then _ else _] => destruct b end; reflexivity.
Qed.
Lemma check_end_q st : bmap (check_end c hi st) = check_end cq hi (bmap st).
Proof.
  unfold check_end. rewrite <- bkv_q. destruct (b_kv c st) as [en|]; [|reflexivity].
  destruct hi; [reflexivity| |]; match goal with |- context [if ?b then _ else _] => destruct b end; reflexivity.
Qed.
Lemma check_start_cur st : b_cur (check_start c lo st) = b_cur st.
Proof.
  unfold check_start. destruct (b_kv c st); [|reflexivity].
  destruct lo; [reflexivity| |]; match goal with |- context [if ?b then _ else _] => destruct b end; reflexivity.
Qed.
Lemma check_end_cur st : b_cur (check_end c hi st) = b_cur st.
Proof.
  unfold check_end. destruct (b_kv c st); [|reflexivity].
  destruct hi; [reflexivity| |]; match goal with |- context [if ?b then _ else _] => destruct b end; reflexivity.
Qed.

(* one child call followed by a continuation *)
Lemma then_agrees o (st : bstate S) k (kt : bstate Sq -> bstate Sq) :
  (forall st1, (snd (k st1) = false -> bmap (fst (k st1)) = kt (bmap st1)) /\
               (m (b_cur (fst (k st1))) + b2n (snd (k st1)) = m (b_cur st1))%nat) ->
  let r := fb_then fc st (step c o (b_cur st)) k in
  (snd r = false -> bmap (fst r) = kt (set_cur (bmap st) (step cq o (q (b_cur st))))) /\
  (m (b_cur (fst r)) + b2n (snd r) = m (b_cur st))%nat.
Proof.
  intros Hk. cbv zeta. unfold fb_then. destruct (tw_step _ _ _ _ Htw o (b_cur st)) as [Hq Hm].
  destruct (e (step c o (b_cur st))) eqn:E; cbn [fst snd b2n] in *.
  - split; [discriminate|]. cbn [set_cur b_cur]. exact Hm.
  - destruct (Hk (set_cur st (step c o (b_cur st)))) as [H1 H2]. split.
    + intros Hs. rewrite (H1 Hs). f_equal. unfold bmap, set_cur. cbn. now rewrite (Hq eq_refl).
    + cbn [set_cur b_cur] in H2. lia.
Qed.

Definition kagrees (k : bstate S -> bstate S * bool) (kt : bstate Sq -> bstate Sq) : Prop :=
  forall st1, (snd (k st1) = false -> bmap (fst (k st1)) = kt (bmap st1)) /\
              (m (b_cur (fst (k st1))) + b2n (snd (k st1)) = m (b_cur st1))%nat.

Lemma ret_agrees (g : bstate S -> bstate S) (gt : bstate Sq -> bstate Sq) :
  (forall st, bmap (g st) = gt (bmap st)) -> (forall st, b_cur (g st) = b_cur st) ->
  kagrees (fun st => (g st, false)) gt.
Proof. intros H1 H2 st. cbn [fst snd b2n]. split; [intros _; apply H1|rewrite H2; lia]. Qed.

Lemma prev_if_some_agrees k kt : kagrees k kt ->
  kagrees (fun st => fb_prev_if_some fc st k) (fun st => kt (set_cur st (prev_if_some cq (b_cur st)))).
Proof.
  intros Hk st. unfold fb_prev_if_some, prev_if_some. cbn [bmap b_cur]. rewrite <- has_key_q.
  destruct (has_key c (b_cur st)).
  - apply (then_agrees OPrev st k kt Hk).
  - destruct (Hk st) as [H1 H2]. split; [|exact H2]. intros Hs. rewrite (H1 Hs). f_equal.
Qed.

Lemma first_agrees : agrees (fb_first_raw fc lo hi) (b_first_raw cq lo hi).
Proof.
  intros st. unfold fb_first_raw, b_first_raw.
  assert (kagrees (fun st0 => fb_prev_if_some fc st0 (fun st1 => (check_end c hi st1, false)))
                  (fun st0 => check_end cq hi (set_cur st0 (prev_if_some cq (b_cur st0))))) as Hk.
  { apply prev_if_some_agrees. apply ret_agrees; [apply check_end_q|apply check_end_cur]. }
  destruct lo as [|k|k].
  - pose proof (then_agrees OFirst (set_pos st BeforeStart) _ _ Hk) as H. cbn [step] in H. exact H.
  - pose proof (then_agrees (OSeek k) (set_pos st BeforeStart) _ _ Hk) as H. cbn [step] in H. exact H.
  - pose proof (then_agrees (OSeek k) (set_pos st BeforeStart) _ _ Hk) as H. cbn [step] in H. exact H.
Qed.

Lemma skip_equal_agrees : forall n k cur,
  match fb_skip_equal fc n k cur with
  | None => skip_equal cq n k (q cur) = None
  | Some (cur', er) =>
      (er = false -> skip_equal cq n k (q cur) = Some (q cur')) /\ (m cur' + b2n er = m cur)%nat
  end.
Proof.
  induction n as [|n IH]; intros k cur; cbn [fb_skip_equal skip_equal]; rewrite <- kv_q;
    destruct (c_kv c cur) as [en|]; try (split; [reflexivity|cbn; lia]);
    destruct (keqb (ek en) k); try (split; [reflexivity|cbn; lia]); try reflexivity.
  destruct (tw_step _ _ _ _ Htw ONext cur) as [Hq Hm]. cbn [step] in Hq, Hm.
  destruct (e (c_next c cur)) eqn:E.
  - split; [discriminate|exact Hm].
  - rewrite <- (Hq eq_refl). specialize (IH k (c_next c cur)).
    destruct (fb_skip_equal fc n k (c_next c cur)) as [[cur' er]|]; [|exact IH].
    destruct IH as [H1 H2]. split; [exact H1|]. cbn [b2n] in Hm. lia.
Qed.

Lemma last_agrees : agrees (fb_last_raw fc fuel lo hi) (b_last_raw cq fuel lo hi).
Proof.
  intros st. unfold fb_last_raw, b_last_raw.
  assert (kagrees (fun st0 => (check_start c lo st0, false)) (check_start cq lo)) as Hk
    by (apply ret_agrees; [apply check_start_q|apply check_start_cur]).
  destruct hi as [|k|k].
  - pose proof (then_agrees OLast (set_pos st AfterEnd) _ _ Hk) as H. cbn [step] in H. exact H.
  - cbv zeta. set (st0 := set_pos st AfterEnd).
    destruct (tw_step _ _ _ _ Htw (OSeek k) (b_cur st0)) as [Hq Hm]. cbn [step] in Hq, Hm.
    destruct (e (c_seek c k (b_cur st0))) eqn:E; cbn [fst snd b2n] in *.
    + split; [discriminate|]. unfold st0 in *. cbn [set_cur set_pos b_cur] in *. exact Hm.
    + pose proof (skip_equal_agrees fuel k (c_seek c k (b_cur st0))) as Hs.
      change (b_cur (set_pos (bmap st) AfterEnd)) with (q (b_cur st0)). rewrite <- (Hq eq_refl).
      destruct (fb_skip_equal fc fuel k (c_seek c k (b_cur st0))) as [[cur' [|]]|]; cbn [fst snd b2n].
      * destruct Hs as [_ Hm']. split; [discriminate|]. unfold st0 in *. cbn [set_cur set_pos b_cur b2n] in *. lia.
      * destruct Hs as [Hq' Hm']. rewrite (Hq' eq_refl). split; [intros _; apply check_start_q|].
        rewrite check_start_cur. unfold st0 in *. cbn [set_cur set_pos b_cur b2n] in *. lia.
      * rewrite Hs. split; [intros _; apply check_start_q|]. rewrite check_start_cur. unfold st0 in *. cbn [set_fail set_pos b_cur b2n] in *. lia.
  - pose proof (then_agrees (OSeek k) (set_pos st AfterEnd) _ _ Hk) as H. cbn [step] in H. exact H.
Qed.

Lemma prev_agrees : agrees (fb_prev_raw fc lo) (b_prev_raw cq lo).
Proof.
  intros st. unfold fb_prev_raw, b_prev_raw. cbn [bmap b_pos].
  destruct (negb (bpos_eqb (b_pos st) BeforeStart)).
  - refine (then_agrees OPrev st _ (fun st0 => check_start cq lo (set_pos st0 Positioned)) _).
    apply (ret_agrees (fun st0 => check_start c lo (set_pos st0 Positioned)) (fun st0 => check_start cq lo (set_pos st0 Positioned))).
    + intros st0. apply check_start_q.
    + intros st0. now rewrite check_start_cur.
  - cbn [fst snd b2n]. split; [intros _; apply check_start_q|]. rewrite check_start_cur. lia.
Qed.

Lemma next_loop_agrees : forall n, agrees (fb_next_loop fc lo hi n) (b_next_loop cq lo hi n).
Proof.
  induction n as [|n IH]; intros st; cbn [fb_next_loop b_next_loop bmap b_pos];
    (destruct (bpos_eqb (b_pos st) AfterEnd); [cbn [fst snd b2n]; split; [reflexivity|lia]|]).
  { cbn [fst snd b2n set_fail b_cur]. split; [reflexivity|lia]. }
  refine (then_agrees ONext st _
           (fun st0 => let st1 := check_end cq hi (check_start cq lo (set_pos st0 Positioned)) in
                       if negb (bpos_eqb (b_pos st1) BeforeStart) then st1 else b_next_loop cq lo hi n st1) _).
  intros st1. cbv zeta.
  set (st2 := check_end c hi (check_start c lo (set_pos st1 Positioned))).
  assert (bmap st2 = check_end cq hi (check_start cq lo (set_pos (bmap st1) Positioned))) as E2
    by (unfold st2; rewrite check_end_q, check_start_q; reflexivity).
  assert (b_cur st2 = b_cur st1) as C2 by (unfold st2; rewrite check_end_cur, check_start_cur; reflexivity).
  rewrite <- E2. cbn [bmap b_pos].
  destruct (negb (bpos_eqb (b_pos st2) BeforeStart)).
  - cbn [fst snd b2n]. split; [reflexivity|rewrite C2; lia].
  - destruct (IH st2) as [H1 H2]. split; [exact H1|rewrite <- C2; exact H2].
Qed.

Lemma guard_agrees f g : agrees f g -> agrees (fb_guard f) (b_guard g).
Proof.
  intros H st. unfold fb_guard, b_guard. cbn [bmap b_fail]. destruct (b_fail st).
  - cbn [fst snd b2n]. split; [reflexivity|lia].
  - apply H.
Qed.

Lemma seek_agrees k : agrees (fb_seek_raw fc fuel lo hi k) (b_seek_raw cq fuel lo hi k).
Proof.
  intros st. unfold fb_seek_raw, b_seek_raw.
  refine (then_agrees (OSeek k) (set_pos st Positioned) _
           (fun st0 => let st1 := check_start cq lo (check_end cq hi st0) in
              if bpos_eqb (b_pos st1) BeforeStart then b_guard (b_next_raw cq fuel lo hi) (b_first_raw cq lo hi st1)
              else if bpos_eqb (b_pos st1) AfterEnd || negb (has_key cq (b_cur st1)) then b_last_raw cq fuel lo hi st1
              else st1) _).
  intros st1. cbv zeta.
  set (st2 := check_start c lo (check_end c hi st1)).
  assert (bmap st2 = check_start cq lo (check_end cq hi (bmap st1))) as E2
    by (unfold st2; rewrite check_start_q, check_end_q; reflexivity).
  assert (b_cur st2 = b_cur st1) as C2 by (unfold st2; rewrite check_start_cur, check_end_cur; reflexivity).
  rewrite <- E2. cbn [bmap b_pos b_cur]. rewrite <- has_key_q.
  destruct (bpos_eqb (b_pos st2) BeforeStart).
  - destruct (first_agrees st2) as [F1 F2]. destruct (fb_first_raw fc lo hi st2) as [st3 [|]] eqn:E3; cbn [fst snd b2n] in *.
    + split; [discriminate|rewrite <- C2; exact F2].
    + rewrite <- (F1 eq_refl). destruct (guard_agrees _ _ (next_loop_agrees fuel) st3) as [G1 G2].
      split; [exact G1|]. unfold fb_next_raw. change (fun st0 : bstate S => fb_next_loop fc lo hi fuel st0) with (fb_next_loop fc lo hi fuel). rewrite G2, <- C2. lia.
  - destruct (bpos_eqb (b_pos st2) AfterEnd || negb (has_key c (b_cur st2))).
    + destruct (last_agrees st2) as [L1 L2]. split; [exact L1|rewrite <- C2; exact L2].
    + cbn [fst snd b2n]. split; [reflexivity|rewrite C2; lia].
Qed.

Theorem fbounds_twin : twin (fbounds fc fuel lo hi) (bounds cq fuel lo hi) qb mb.
Proof.
  constructor.
  - intros x. apply bkv_q.
  - reflexivity.
  - intros o [st er]. unfold qb, mb.
    assert (forall f g, agrees f g ->
              (fs_err (fs_lift f (mkFs st er)) = false -> bmap (fs_st (fs_lift f (mkFs st er))) = g (bmap st)) /\
              (m (b_cur (fs_st (fs_lift f (mkFs st er)))) + b2n (fs_err (fs_lift f (mkFs st er))) = m (b_cur st))%nat) as Hl.
    { intros f g H. unfold fs_lift. cbn [fs_st]. destruct (H st) as [H1 H2]. destruct (f st) as [st' er']. exact (conj H1 H2). }
    destruct o; cbn [step fbounds bounds f_cur f_err c_first c_last c_seek c_prev c_next fs_st].
    + apply Hl, guard_agrees, first_agrees.
    + apply Hl, guard_agrees, last_agrees.
    + apply Hl, guard_agrees, seek_agrees.
    + apply Hl, guard_agrees, prev_agrees.
    + apply Hl, guard_agrees. exact (next_loop_agrees fuel).
Qed.
End FBoundsTwin.

(* ---- whatever the calls do, Err or not, the child only ever moves by its own calls: any
   property of the child that its calls preserve is preserved (used for recovery after an Err) *)
Section FBoundsInv.
Context {S : Type} (fc : fcursor S) (fuel : nat) (lo hi : bound).
Local Notation c := (f_cur fc).
Variable P : S -> Prop.
Hypothesis HP : forall o s, P s -> P (step c o s).

Lemma P1 s : P s -> P (c_first c s). Proof. apply (HP OFirst). Qed.
Lemma P2 s : P s -> P (c_last c s). Proof. apply (HP OLast). Qed.
Lemma P3 k s : P s -> P (c_seek c k s). Proof. apply (HP (OSeek k)). Qed.
Lemma P4 s : P s -> P (c_prev c s). Proof. apply (HP OPrev). Qed.
Lemma P5 s : P s -> P (c_next c s). Proof. apply (HP ONext). Qed.

Definition pinv (f : bstate S -> bstate S * bool) : Prop := forall st, P (b_cur st) -> P (b_cur (fst (f st))).

Lemma cs_cur st : b_cur (check_start c lo st) = b_cur st.
Proof.
  unfold check_start. destruct (b_kv c st); [|reflexivity].
  destruct lo; [reflexivity| |]; match goal with |- context [if ?b then _ else _] => destruct b end; reflexivity.
Qed.
Lemma ce_cur st : b_cur (check_end c hi st) = b_cur st.
Proof.
  unfold check_end. destruct (b_kv c st); [|reflexivity].
  destruct hi; [reflexivity| |]; match goal with |- context [if ?b then _ else _] => destruct b end; reflexivity.
Qed.

Lemma then_pinv st cur' k : P cur' -> pinv k -> P (b_cur (fst (fb_then fc st cur' k))).
Proof.
  intros Hc Hk. unfold fb_then. destruct (f_err fc cur'); cbn [fst set_cur b_cur]; [exact Hc|]. apply Hk. exact Hc.
Qed.

Lemma first_pinv : pinv (fb_first_raw fc lo hi).
Proof.
  intros st H. unfold fb_first_raw. apply then_pinv.
  - cbn [set_pos b_cur]. destruct lo; auto using P1, P3.
  - intros st1 H1. unfold fb_prev_if_some. destruct (has_key c (b_cur st1)).
    + apply then_pinv; [auto using P4|]. intros st2 H2. cbn [fst]. now rewrite ce_cur.
    + cbn [fst]. now rewrite ce_cur.
Qed.

Lemma skip_equal_pinv : forall n k cur, P cur ->
  match fb_skip_equal fc n k cur with Some (cur', _) => P cur' | None => True end.
Proof.
  induction n as [|n IH]; intros k cur H; cbn [fb_skip_equal]; destruct (c_kv c cur); auto;
    destruct (keqb (ek e) k); auto.
  destruct (f_err fc (c_next c cur)); [auto using P5|]. apply IH. auto using P5.
Qed.

Lemma last_pinv : pinv (fb_last_raw fc fuel lo hi).
Proof.
  intros st H. unfold fb_last_raw. destruct hi as [|k|k].
  - apply then_pinv; [cbn [set_pos b_cur]; auto using P2|]. intros st1 H1. cbn [fst]. now rewrite cs_cur.
  - cbv zeta. cbn [set_pos b_cur]. destruct (f_err fc (c_seek c k (b_cur st))); [cbn; auto using P3|].
    pose proof (skip_equal_pinv fuel k (c_seek c k (b_cur st)) (P3 k _ H)) as Hs.
    destruct (fb_skip_equal fc fuel k (c_seek c k (b_cur st))) as [[cur' [|]]|]; cbn [fst set_cur b_cur]; auto;
      rewrite cs_cur; cbn; auto.
  - apply then_pinv; [cbn [set_pos b_cur]; auto using P3|]. intros st1 H1. cbn [fst]. now rewrite cs_cur.
Qed.

Lemma prev_pinv : pinv (fb_prev_raw fc lo).
Proof.
  intros st H. unfold fb_prev_raw. destruct (negb (bpos_eqb (b_pos st) BeforeStart)).
  - apply then_pinv; [auto using P4|]. intros st1 H1. cbn [fst]. now rewrite cs_cur.
  - cbn [fst]. now rewrite cs_cur.
Qed.

Lemma next_loop_pinv : forall n, pinv (fb_next_loop fc lo hi n).
Proof.
  induction n as [|n IH]; intros st H; cbn [fb_next_loop]; destruct (bpos_eqb (b_pos st) AfterEnd); cbn [fst]; auto.
  apply then_pinv; [auto using P5|]. intros st1 H1.
  match goal with |- context [if ?b then _ else _] => destruct b end.
  - cbn [fst]. now rewrite ce_cur, cs_cur.
  - apply IH. now rewrite ce_cur, cs_cur.
Qed.

Lemma guard_pinv f : pinv f -> pinv (fb_guard f).
Proof. intros Hf st H. unfold fb_guard. destruct (b_fail st); [exact H|now apply Hf]. Qed.

Lemma seek_pinv k : pinv (fb_seek_raw fc fuel lo hi k).
Proof.
  intros st H. unfold fb_seek_raw. apply then_pinv; [cbn [set_pos b_cur]; auto using P3|]. intros st1 H1.
  assert (P (b_cur (check_start c lo (check_end c hi st1)))) as H2 by (now rewrite cs_cur, ce_cur).
  destruct (bpos_eqb (b_pos (check_start c lo (check_end c hi st1))) BeforeStart).
  - pose proof (first_pinv _ H2) as H3. destruct (fb_first_raw fc lo hi (check_start c lo (check_end c hi st1))) as [st3 [|]]; cbn [fst] in *; [exact H3|].
    apply (guard_pinv _ (next_loop_pinv fuel)). exact H3.
  - match goal with |- context [if ?b then _ else _] => destruct b end; [now apply last_pinv|exact H2].
Qed.

Theorem fbounds_inv o x : P (b_cur (fs_st x)) -> P (b_cur (fs_st (step (f_cur (fbounds fc fuel lo hi)) o x))).
Proof.
  intros H. destruct x as [st er]. cbn [fs_st] in H.
  assert (forall f, pinv f -> P (b_cur (fs_st (fs_lift f (mkFs st er))))) as Hl.
  { intros f Hf. unfold fs_lift. cbn [fs_st]. specialize (Hf st H). destruct (f st). exact Hf. }
  destruct o; cbn [step fbounds f_cur c_first c_last c_seek c_prev c_next]; apply Hl, guard_pinv.
  - apply first_pinv. - apply last_pinv. - apply seek_pinv. - apply prev_pinv. - apply (next_loop_pinv fuel).
Qed.
End FBoundsInv.
