(* Cursor/Proofs_Merging.v — a MergingCursor over children that behave as reference cursors over
   sorted tables with pairwise distinct (key, timestamp) pairs behaves as a reference cursor
   over the sorted union L, for every program of calls including direction reversals.

   Simulation relation between the heap state and the merged index P (N = len L), with
   cnt li P = number of entries of li among the first P entries of L:
     Fwd P       (0 <= P <= N)   every child i sits at cnt li P; the array is a Forward heap
     FwdStart    (P = -1)        the root child sits at -1, every other child at 0 = cnt li 0;
                                 the array becomes a Forward heap once the root is advanced
     Rev P       (-1 <= P < N)   every child sits at cnt li (P+1) - 1; a Reverse heap
     RevEnd      (P = N)         the root child sits at len, every other at len - 1; Reverse heap
                                 once the root is moved back *)
From Coq Require Import NArith ZArith Arith List Bool Lia Permutation.
From Blue Require Import Cursor.Iface Cursor.Ref Cursor.Concat Cursor.Merging Cursor.Spec Cursor.Fallible
  Cursor.Proofs_Order Cursor.Proofs_Ref Cursor.Proofs_Concat Cursor.Proofs_Heap.
Import ListNotations.
Local Open Scope Z_scope.

(* ---------------------------------------------------------------- the comparator *)
Lemma is_less_kv_irrefl fwd a : is_less_kv fwd a a = false.
Proof.
  destruct a as [x|]; cbn; [|reflexivity]. destruct fwd; destruct (eltb_spec x x); auto; exfalso; eorder.
Qed.
Lemma is_less_kv_trans fwd a b c :
  is_less_kv fwd a b = true -> is_less_kv fwd b c = true -> is_less_kv fwd a c = true.
Proof.
  destruct a as [x|], b as [y|], c as [z|]; cbn; try discriminate; auto.
  destruct fwd.
  - destruct (eltb_spec x y), (eltb_spec y z), (eltb_spec x z); auto; try discriminate. intros _ _. exfalso. eorder.
  - destruct (eltb_spec y x), (eltb_spec z y), (eltb_spec z x); auto; try discriminate. intros _ _. exfalso. eorder.
Qed.
Lemma is_less_kv_ntrans fwd a b c :
  is_less_kv fwd a b = false -> is_less_kv fwd b c = false -> is_less_kv fwd a c = false.
Proof.
  destruct a as [x|], b as [y|], c as [z|]; cbn; try discriminate; auto.
  destruct fwd.
  - destruct (eltb_spec x y), (eltb_spec y z), (eltb_spec x z); auto; try discriminate. intros _ _. exfalso. eorder.
  - destruct (eltb_spec y x), (eltb_spec z y), (eltb_spec z x); auto; try discriminate. intros _ _. exfalso. eorder.
Qed.

(* ---------------------------------------------------------------- lists *)
Lemma Forall2_perm {A B} (R : A -> B -> Prop) xs xs' ys :
  Forall2 R xs ys -> Permutation xs xs' -> exists ys', Permutation ys ys' /\ Forall2 R xs' ys'.
Proof.
  intros HF HP. revert ys HF. induction HP as [|x xs xs' HP IH|x y xs|xs xs' xs'' HP1 IH1 HP2 IH2]; intros ys HF.
  - inversion HF; subst. exists []. split; constructor.
  - inversion HF as [|? b ? ys0 Hb HF0]; subst. destruct (IH _ HF0) as [ys' [HP' HF']].
    exists (b :: ys'). split; [now constructor|now constructor].
  - inversion HF as [|? b1 ? ys0 Hb1 HF0]; subst. inversion HF0 as [|? b2 ? ys1 Hb2 HF1]; subst.
    exists (b2 :: b1 :: ys1). split; [constructor|repeat constructor; assumption].
  - destruct (IH1 _ HF) as [ys1 [P1 F1]]. destruct (IH2 _ F1) as [ys2 [P2 F2]].
    exists ys2. split; [etransitivity; eauto|assumption].
Qed.

Lemma Permutation_concat {A} (xs ys : list (list A)) :
  Permutation xs ys -> Permutation (concat xs) (concat ys).
Proof.
  induction 1; cbn.
  - reflexivity.
  - now apply Permutation_app_head.
  - rewrite !app_assoc. apply Permutation_app_tail. apply Permutation_app_comm.
  - etransitivity; eauto.
Qed.

Lemma count_perm {A} (p : A -> bool) xs ys : Permutation xs ys -> count p xs = count p ys.
Proof.
  induction 1; rewrite ?count_cons; try lia.
Qed.

Lemma Forall2_map_both {A B} (R : A -> B -> Prop) (f : A -> A) (g : B -> B) xs ys :
  (forall a b, R a b -> R (f a) (g b)) -> Forall2 R xs ys -> Forall2 R (map f xs) (map g ys).
Proof. intros H. induction 1; cbn; constructor; auto. Qed.

Lemma Forall2_nth {A B} (R : A -> B -> Prop) xs ys i a :
  Forall2 R xs ys -> nth_error xs i = Some a -> exists b, nth_error ys i = Some b /\ R a b.
Proof.
  intros HF. revert i. induction HF as [|x y xs ys Hxy HF IH]; intros [|i] H; cbn in H; try discriminate.
  - injection H as <-. exists y. auto.
  - apply IH. exact H.
Qed.
Lemma Forall2_nth_r {A B} (R : A -> B -> Prop) xs ys i b :
  Forall2 R xs ys -> nth_error ys i = Some b -> exists a, nth_error xs i = Some a /\ R a b.
Proof.
  intros HF. revert i. induction HF as [|x y xs ys Hxy HF IH]; intros [|i] H; cbn in H; try discriminate.
  - injection H as <-. exists x. auto.
  - apply IH. exact H.
Qed.

Section MergeProof.
Context {S : Type} (c : cursor S) (L : list entry).
Hypothesis HL : sorted L.
Notation N := (len L).

Definition slot : Type := (list entry * Z)%type.

(* the slots' tables are sorted and together are a permutation of L *)
Definition static (ds : list slot) : Prop :=
  Forall (fun d => sorted (fst d)) ds /\ Permutation (concat (map fst ds)) L.
Definition slots_ok (kids : list S) (ds : list slot) : Prop :=
  Forall2 (fun s d => refines c s (fst d) (snd d)) kids ds.

Lemma static_perm ds ds' : static ds -> Permutation ds ds' -> static ds'.
Proof.
  intros [H1 H2] HP. split.
  - eapply Permutation_Forall; eauto.
  - etransitivity; [|exact H2]. apply Permutation_concat. apply Permutation_map. now symmetry.
Qed.

Lemma static_In ds d e : static ds -> In d ds -> In e (fst d) -> exists i, ent L i = Some e.
Proof.
  intros [_ HP] Hd He. apply In_ent. eapply Permutation_in; [exact HP|].
  apply in_concat. exists (fst d). split; [now apply in_map|exact He].
Qed.
Lemma static_sorted ds d : static ds -> In d ds -> sorted (fst d).
Proof. intros [H _] Hd. rewrite Forall_forall in H. now apply H. Qed.

(* cut P e: e comes before position P of L (for e in L, 0 <= P <= N) *)
Definition cut (P : Z) (e : entry) : bool :=
  match ent L P with Some x => eltb e x | None => true end.
Definition cnt (li : list entry) (P : Z) : Z := count (cut P) li.

Lemma cut_downclosed P : downclosed (cut P).
Proof.
  intros a b Hab. unfold cut. destruct (ent L P) as [x|]; [|auto].
  destruct (eltb_spec a x), (eltb_spec b x); auto; try discriminate. intros _. exfalso. eorder.
Qed.

Lemma cut_idx P i e : 0 <= P <= N -> ent L i = Some e -> (cut P e = true <-> i < P).
Proof.
  intros HP He. pose proof (ent_range _ _ _ He) as Hi. unfold cut.
  destruct (ent L P) as [x|] eqn:Ex.
  - destruct (eltb_spec e x) as [Hlt|Hnlt].
    + split; [intros _|reflexivity]. eapply (sorted_ent_idx _ HL); eauto.
    + split; [discriminate|]. intros Hlt. exfalso. apply Hnlt. eapply (sorted_ent_lt _ HL); eauto.
  - apply ent_none_inv in Ex. split; [intros _; lia|reflexivity].
Qed.

Lemma cnt_L P : 0 <= P <= N -> count (cut P) L = P.
Proof.
  intros HP. pose proof (count_range (cut P) L) as Hc.
  pose proof (count_prefix _ L HL (cut_downclosed P)) as Hpre.
  destruct (Z_lt_dec (count (cut P) L) P) as [Hlt|Hge].
  - destruct (ent_some L (count (cut P) L) ltac:(lia)) as [e He].
    assert (cut P e = true) as Hc1 by (apply (cut_idx P _ e HP He); lia).
    apply (Hpre _ _ He) in Hc1. lia.
  - destruct (Z_lt_dec P (count (cut P) L)) as [Hgt|]; [|lia].
    destruct (ent_some L P ltac:(lia)) as [e He].
    assert (cut P e = true) as Hc1 by (apply (Hpre _ _ He); lia).
    apply (cut_idx P _ e HP He) in Hc1. lia.
Qed.

Fixpoint total (P : Z) (ds : list slot) : Z :=
  match ds with [] => 0 | d :: r => cnt (fst d) P + total P r end.

Lemma total_count P ds : total P ds = count (cut P) (concat (map fst ds)).
Proof.
  induction ds as [|d r IH]; [reflexivity|]. cbn [total map concat]. rewrite count_app, IH. reflexivity.
Qed.
Lemma total_static P ds : static ds -> 0 <= P <= N -> total P ds = P.
Proof.
  intros [_ HP] H. rewrite total_count. rewrite (count_perm _ _ _ HP). now apply cnt_L.
Qed.

Lemma cut_mono P e : 0 <= P -> P + 1 <= N -> cut P e = true -> cut (P + 1) e = true.
Proof.
  intros H0 H1. unfold cut. destruct (ent_some L P ltac:(lia)) as [x Hx]. rewrite Hx.
  destruct (ent L (P + 1)) as [y|] eqn:Hy; [|auto].
  assert (elt x y) by (eapply (sorted_ent_lt _ HL P (P + 1)); eauto; lia).
  destruct (eltb_spec e x), (eltb_spec e y); auto; try discriminate. intros _. exfalso. eorder.
Qed.
Lemma cnt_mono li P : 0 <= P -> P + 1 <= N -> cnt li P <= cnt li (P + 1).
Proof. intros. apply count_le. intros e _. now apply cut_mono. Qed.

(* a sorted table whose entries are in L: where L[P] sits in it *)
Lemma slot_has li P x : sorted li -> (forall e, In e li -> exists i, ent L i = Some e) ->
  0 <= P < N -> ent L P = Some x -> In x li ->
  ent li (cnt li P) = Some x /\ cnt li (P + 1) = cnt li P + 1.
Proof.
  intros Hs Hin HP Hx Hxl. destruct (In_ent _ _ Hxl) as [i Hi]. pose proof (ent_range _ _ _ Hi) as Hir.
  pose proof (count_prefix _ li Hs (cut_downclosed P)) as Hpre. fold (cnt li P) in Hpre.
  pose proof (count_prefix _ li Hs (cut_downclosed (P + 1))) as Hpre1. fold (cnt li (P + 1)) in Hpre1.
  pose proof (count_range (cut P) li) as Hr. fold (cnt li P) in Hr.
  pose proof (count_range (cut (P + 1)) li) as Hr1. fold (cnt li (P + 1)) in Hr1.
  (* the index of x in li is cnt li P *)
  assert (i = cnt li P) as ->.
  { assert (cut P x = false) as Hcx.
    { destruct (cut P x) eqn:E; [|reflexivity]. apply (cut_idx P P x ltac:(lia) Hx) in E. lia. }
    assert (~ i < cnt li P) by (intros Hlt; apply (Hpre _ _ Hi) in Hlt; congruence).
    destruct (Z_lt_dec (cnt li P) i) as [Hlt|]; [exfalso|lia].
    destruct (ent_some li (cnt li P) ltac:(lia)) as [e He].
    assert (elt e x) as Hex by (eapply (sorted_ent_lt _ Hs (cnt li P) i); eauto).
    destruct (Hin e (ent_In _ _ _ He)) as [ie Hie].
    assert (ie < P) by (eapply (sorted_ent_idx _ HL); eauto).
    assert (cut P e = true) as Hce by (apply (cut_idx P ie e ltac:(lia) Hie); lia).
    apply (Hpre _ _ He) in Hce. lia. }
  split; [exact Hi|].
  assert (cut (P + 1) x = true) as Hc1 by (apply (cut_idx (P + 1) P x ltac:(lia) Hx); lia).
  apply (Hpre1 _ _ Hi) in Hc1.
  destruct (Z_lt_dec (cnt li P + 1) (cnt li (P + 1))) as [Hlt|]; [exfalso|lia].
  destruct (ent_some li (cnt li P + 1) ltac:(lia)) as [e He].
  assert (elt x e) as Hxe by (eapply (sorted_ent_lt _ Hs (cnt li P) (cnt li P + 1)); eauto; lia).
  destruct (Hin e (ent_In _ _ _ He)) as [ie Hie].
  assert (P < ie) by (eapply (sorted_ent_idx _ HL); eauto).
  assert (cut (P + 1) e = true) as Hce by (apply (Hpre1 _ _ He); lia).
  apply (cut_idx (P + 1) ie e ltac:(lia) Hie) in Hce. lia.
Qed.

(* when L[P] sits in the first slot, moving the cut from P to P+1 changes only that slot *)
Lemma advance_cut d0 ds P x : static (d0 :: ds) -> 0 <= P < N -> ent L P = Some x -> In x (fst d0) ->
  cnt (fst d0) (P + 1) = cnt (fst d0) P + 1 /\ Forall (fun d => cnt (fst d) (P + 1) = cnt (fst d) P) ds.
Proof.
  intros Hst HP Hx Hin.
  assert (cnt (fst d0) (P + 1) = cnt (fst d0) P + 1) as H0.
  { eapply slot_has; eauto.
    - eapply static_sorted; eauto. now left.
    - intros e He. eapply static_In; eauto. now left. }
  split; [exact H0|].
  pose proof (total_static P _ Hst ltac:(lia)) as T0. pose proof (total_static (P + 1) _ Hst ltac:(lia)) as T1.
  cbn [total] in T0, T1. assert (total (P + 1) ds = total P ds) as HT by lia.
  clear -HT HP HL. induction ds as [|d r IH]; [constructor|].
  cbn [total] in HT. pose proof (cnt_mono (fst d) P ltac:(lia) ltac:(lia)).
  assert (total P r <= total (P + 1) r) as Hr.
  { clear -HP HL. induction r as [|d' r' IH']; cbn [total]; [lia|]. pose proof (cnt_mono (fst d') P ltac:(lia) ltac:(lia)). lia. }
  constructor; [lia|]. apply IH. lia.
Qed.

Lemma cnt_0 ds d : static ds -> In d ds -> cnt (fst d) 0 = 0.
Proof.
  intros Hst Hd. apply count_none. intros e He. destruct (static_In _ _ _ Hst Hd He) as [i Hi].
  pose proof (ent_range _ _ _ Hi). destruct (cut 0 e) eqn:E; [|reflexivity].
  apply (cut_idx 0 i e ltac:(lia) Hi) in E. lia.
Qed.
Lemma cnt_N li : cnt li N = len li.
Proof. apply count_all. intros e _. unfold cut. rewrite ent_none by lia. reflexivity. Qed.

Lemma cnt_range li P : 0 <= cnt li P <= len li.
Proof. apply count_range. Qed.

(* ---- the heap over child cursors *)
Lemma less_irrefl fwd a : is_less c fwd a a = false.
Proof. apply is_less_kv_irrefl. Qed.
Lemma less_trans fwd a b d : is_less c fwd a b = true -> is_less c fwd b d = true -> is_less c fwd a d = true.
Proof. apply is_less_kv_trans. Qed.
Lemma less_ntrans fwd a b d : is_less c fwd a b = false -> is_less c fwd b d = false -> is_less c fwd a d = false.
Proof. apply is_less_kv_ntrans. Qed.

Definition heap (fwd : bool) (kids : list S) : Prop := heap_from (is_less c fwd) 0 kids.

Lemma heapify_is_heap fwd kids : heap fwd (heapify (is_less c fwd) kids).
Proof. apply heapify_heap; [apply less_irrefl|apply less_trans|apply less_ntrans]. Qed.

Lemma percolate_root_heap fwd kids : heap_from (is_less c fwd) 1 kids ->
  heap fwd (percolate_down (is_less c fwd) (length kids) kids 0).
Proof. apply percolate_heap; [apply less_irrefl|apply less_trans|apply less_ntrans]. Qed.

Lemma heap_min fwd kids s0 i s : heap fwd kids -> nth_error kids 0 = Some s0 -> nth_error kids i = Some s ->
  is_less c fwd s s0 = false.
Proof.
  intros H H0 Hi. eapply (heap_root_min (is_less c fwd)); eauto;
    [apply less_irrefl|apply less_ntrans].
Qed.

(* the heap property only depends on the children's keys *)
Lemma heap_from_kv_ext fwd k (xs ys : list S) :
  Forall2 (fun a b => c_kv c a = c_kv c b) xs ys -> heap_from (is_less c fwd) k xs -> heap_from (is_less c fwd) k ys.
Proof.
  intros HF H i ch a b Hi Hc Ha Hb.
  destruct (Forall2_nth_r _ _ _ _ _ HF Ha) as [a' [Ha' Ea]]. destruct (Forall2_nth_r _ _ _ _ _ HF Hb) as [b' [Hb' Eb]].
  specialize (H i ch a' b' Hi Hc Ha' Hb'). unfold hle, is_less in *. now rewrite <- Ea, <- Eb.
Qed.

Lemma heap_upd_root fwd kids f : heap fwd kids -> heap_from (is_less c fwd) 1 (upd kids 0 f).
Proof.
  intros H i ch a b Hi Hc Ha Hb. rewrite nth_error_upd in Ha, Hb.
  destruct (Nat.eqb_spec i 0); [lia|]. destruct (Nat.eqb_spec ch 0); [destruct Hc; lia|].
  apply (H i ch); auto. lia.
Qed.

(* ---- positions *)
Definition fwd_pos (P : Z) (ds : list slot) : Prop := Forall (fun d : slot => snd d = cnt (fst d) P) ds.
Definition rev_pos (P : Z) (ds : list slot) : Prop := Forall (fun d : slot => snd d = cnt (fst d) (P + 1) - 1) ds.

Inductive merging_R (st : mstate S) (P : Z) : Prop :=
| MFwd ds : m_fwd st = true -> 0 <= P <= N -> slots_ok (m_kids st) ds -> static ds ->
            fwd_pos P ds -> heap true (m_kids st) -> merging_R st P
| MFwdStart ds : m_fwd st = true -> P = -1 -> slots_ok (m_kids st) ds -> static ds ->
            match ds with [] => True | d0 :: ds' => snd d0 = -1 /\ fwd_pos 0 ds' end ->
            heap true (on_root (c_next c) (m_kids st)) -> merging_R st P
| MRev ds : m_fwd st = false -> -1 <= P <= N - 1 -> slots_ok (m_kids st) ds -> static ds ->
            rev_pos P ds -> heap false (m_kids st) -> merging_R st P
| MRevEnd ds : m_fwd st = false -> P = N -> slots_ok (m_kids st) ds -> static ds ->
            match ds with [] => True | d0 :: ds' => snd d0 = len (fst d0) /\ rev_pos (N - 1) ds' end ->
            heap false (on_root (c_prev c) (m_kids st)) -> merging_R st P.

(* the slot holding L[P] *)
Lemma slot_of ds kids P x : static ds -> slots_ok kids ds -> 0 <= P < N -> ent L P = Some x ->
  exists j d s, nth_error ds j = Some d /\ nth_error kids j = Some s /\ In d ds /\ In x (fst d) /\
                refines c s (fst d) (snd d).
Proof.
  intros Hst Hok HP Hx. destruct Hst as [_ Hperm].
  assert (In x (concat (map fst ds))) as Hin by (eapply Permutation_in; [symmetry; exact Hperm|eapply ent_In; eauto]).
  apply in_concat in Hin. destruct Hin as [li [Hli Hxl]]. apply in_map_iff in Hli. destruct Hli as [d [<- Hd]].
  destruct (In_nth_error _ _ Hd) as [j Hj]. destruct (Forall2_nth_r _ _ _ _ _ Hok Hj) as [s [Hs Hr]].
  exists j, d, s. auto.
Qed.

Lemma root_fwd kids ds P : slots_ok kids ds -> static ds -> fwd_pos P ds -> heap true kids -> 0 <= P <= N ->
  m_kv c (mkM true kids) = ent L P /\
  (P < N -> exists s0 kids' d0 ds' x, kids = s0 :: kids' /\ ds = d0 :: ds' /\ ent L P = Some x /\ In x (fst d0) /\
                                     ent (fst d0) (snd d0) = Some x).
Proof.
  intros Hok Hst Hpos Hheap HP. destruct (Z.eq_dec P N) as [->|Hne].
  - split; [|lia]. unfold m_kv. cbn [m_kids]. rewrite (ent_none L N) by lia.
    destruct Hok as [|s0 d0 kids' ds' H0 Hok']; [reflexivity|].
    rewrite (refines_kv c _ _ _ H0). inversion Hpos as [|? ? Hp0 _]; subst. rewrite Hp0, cnt_N. apply ent_none. lia.
  - destruct (ent_some L P ltac:(lia)) as [x Hx].
    destruct (slot_of ds kids P x Hst Hok ltac:(lia) Hx) as [j [d [s [Hj [Hs [Hd [Hxd Hr]]]]]]].
    unfold fwd_pos, rev_pos in Hpos. rewrite Forall_forall in Hpos. pose proof (Hpos d Hd) as Hpd.
    destruct (slot_has (fst d) P x (static_sorted _ _ Hst Hd) (fun e He => static_In _ _ _ Hst Hd He) ltac:(lia) Hx Hxd) as [Hex _].
    assert (c_kv c s = Some x) as Hks by (rewrite (refines_kv c _ _ _ Hr), Hpd; exact Hex).
    destruct Hok as [|s0 d0 kids' ds' H0 Hok']; [destruct j; discriminate|].
    pose proof (heap_min true _ s0 j s Hheap eq_refl Hs) as Hmin. unfold is_less in Hmin. rewrite Hks in Hmin.
    pose proof (Hpos d0 (or_introl eq_refl)) as Hp0.
    assert (c_kv c s0 = ent (fst d0) (cnt (fst d0) P)) as Hk0 by (rewrite (refines_kv c _ _ _ H0), Hp0; reflexivity).
    destruct (c_kv c s0) as [y|] eqn:Ey; [|discriminate]. cbn in Hmin.
    assert (y = x) as ->.
    { symmetry in Hk0. pose proof (ent_In _ _ _ Hk0) as Hy0.
      destruct (static_In _ d0 y Hst (or_introl eq_refl) Hy0) as [iy Hiy].
      assert (cut P y = false) as Hcy.
      { destruct (cut P y) eqn:E; [|reflexivity].
        apply (count_prefix _ _ (static_sorted _ d0 Hst (or_introl eq_refl)) (cut_downclosed P) _ _ Hk0) in E.
        unfold cnt in E. lia. }
      assert (~ iy < P) as H1 by (intros Hlt; apply (cut_idx P iy y ltac:(lia) Hiy) in Hlt; congruence).
      assert (~ P < iy) as H2.
      { intros Hlt. assert (elt x y) by (eapply (sorted_ent_lt _ HL P iy); eauto).
        destruct (eltb_spec x y); [discriminate|contradiction]. }
      assert (iy = P) by lia. subst iy. congruence. }
    split; [unfold m_kv; cbn [m_kids]; rewrite Ey; symmetry; exact Hx|].
    intros _. exists s0, kids', d0, ds', x. repeat split; auto.
    + symmetry in Hk0. eapply ent_In; eauto.
    + rewrite Hp0. symmetry. exact Hk0.
Qed.

Lemma root_rev kids ds P : slots_ok kids ds -> static ds -> rev_pos P ds -> heap false kids -> -1 <= P <= N - 1 ->
  m_kv c (mkM false kids) = ent L P /\
  (0 <= P -> exists s0 kids' d0 ds' x, kids = s0 :: kids' /\ ds = d0 :: ds' /\ ent L P = Some x /\ In x (fst d0) /\
                                      ent (fst d0) (snd d0) = Some x).
Proof.
  intros Hok Hst Hpos Hheap HP. destruct (Z.eq_dec P (-1)) as [->|Hne].
  - split; [|lia]. unfold m_kv. cbn [m_kids]. rewrite (ent_none L (-1)) by lia.
    destruct Hok as [|s0 d0 kids' ds' H0 Hok']; [reflexivity|].
    rewrite (refines_kv c _ _ _ H0). inversion Hpos as [|? ? Hp0 _]; subst. rewrite Hp0.
    replace (-1 + 1) with 0 by lia. rewrite (cnt_0 _ d0 Hst (or_introl eq_refl)). apply ent_none. lia.
  - destruct (ent_some L P ltac:(lia)) as [x Hx].
    destruct (slot_of ds kids P x Hst Hok ltac:(lia) Hx) as [j [d [s [Hj [Hs [Hd [Hxd Hr]]]]]]].
    unfold fwd_pos, rev_pos in Hpos. rewrite Forall_forall in Hpos. pose proof (Hpos d Hd) as Hpd.
    destruct (slot_has (fst d) P x (static_sorted _ _ Hst Hd) (fun e He => static_In _ _ _ Hst Hd He) ltac:(lia) Hx Hxd) as [Hex Hc1].
    assert (c_kv c s = Some x) as Hks.
    { rewrite (refines_kv c _ _ _ Hr), Hpd, Hc1. replace (cnt (fst d) P + 1 - 1) with (cnt (fst d) P) by lia. exact Hex. }
    destruct Hok as [|s0 d0 kids' ds' H0 Hok']; [destruct j; discriminate|].
    pose proof (heap_min false _ s0 j s Hheap eq_refl Hs) as Hmin. unfold is_less in Hmin. rewrite Hks in Hmin.
    pose proof (Hpos d0 (or_introl eq_refl)) as Hp0.
    assert (c_kv c s0 = ent (fst d0) (cnt (fst d0) (P + 1) - 1)) as Hk0 by (rewrite (refines_kv c _ _ _ H0), Hp0; reflexivity).
    destruct (c_kv c s0) as [y|] eqn:Ey; [|discriminate]. cbn in Hmin.
    assert (y = x) as ->.
    { symmetry in Hk0. pose proof (ent_In _ _ _ Hk0) as Hy0.
      destruct (static_In _ d0 y Hst (or_introl eq_refl) Hy0) as [iy Hiy].
      assert (cut (P + 1) y = true) as Hcy.
      { apply (count_prefix _ _ (static_sorted _ d0 Hst (or_introl eq_refl)) (cut_downclosed (P + 1)) _ _ Hk0).
        unfold cnt. lia. }
      apply (cut_idx (P + 1) iy y ltac:(lia) Hiy) in Hcy.
      assert (~ iy < P) as H2.
      { intros Hlt. assert (elt y x) by (eapply (sorted_ent_lt _ HL iy P); eauto).
        destruct (eltb_spec y x); [discriminate|contradiction]. }
      assert (iy = P) by lia. subst iy. congruence. }
    split; [unfold m_kv; cbn [m_kids]; rewrite Ey; symmetry; exact Hx|].
    intros _. exists s0, kids', d0, ds', x. repeat split; auto.
    + symmetry in Hk0. eapply ent_In; eauto.
    + rewrite Hp0. symmetry. exact Hk0.
Qed.

(* ---- building blocks of the transitions *)
Lemma perm_transport kids kids' ds (Q : slot -> Prop) :
  Permutation kids' kids -> slots_ok kids ds -> static ds -> Forall Q ds ->
  exists ds', slots_ok kids' ds' /\ static ds' /\ Forall Q ds'.
Proof.
  intros HP Hok Hst HQ. destruct (Forall2_perm _ _ _ _ Hok (Permutation_sym HP)) as [ds' [HP' Hok']].
  exists ds'. split; [exact Hok'|]. split; [eapply static_perm; eauto|eapply Permutation_Forall; eauto].
Qed.

Lemma finish_fwd kids kids' ds P : Permutation kids' kids -> slots_ok kids ds -> static ds ->
  fwd_pos P ds -> heap true kids' -> 0 <= P <= N -> merging_R (mkM true kids') P.
Proof.
  intros HP Hok Hst Hpos Hheap HPr. destruct (perm_transport _ _ _ _ HP Hok Hst Hpos) as [ds' [H1 [H2 H3]]].
  eapply MFwd; eauto.
Qed.
Lemma finish_rev kids kids' ds P : Permutation kids' kids -> slots_ok kids ds -> static ds ->
  rev_pos P ds -> heap false kids' -> -1 <= P <= N - 1 -> merging_R (mkM false kids') P.
Proof.
  intros HP Hok Hst Hpos Hheap HPr. destruct (perm_transport _ _ _ _ HP Hok Hst Hpos) as [ds' [H1 [H2 H3]]].
  eapply MRev; eauto.
Qed.

Definition step_slot (o : op) (d : slot) : slot := (fst d, step (ref (fst d)) o (snd d)).

Lemma slots_step_all o kids ds : slots_ok kids ds -> slots_ok (map (step c o) kids) (map (step_slot o) ds).
Proof. apply Forall2_map_both. intros s d H. cbn. now apply refines_step. Qed.

Lemma static_map g ds : (forall d, fst (g d) = fst d) -> static ds -> static (map g ds).
Proof.
  intros Hg [H1 H2]. assert (map fst (map g ds) = map fst ds) as E by (rewrite map_map; apply map_ext; exact Hg).
  split; [|rewrite E; exact H2]. rewrite Forall_forall in *. intros d Hd. apply in_map_iff in Hd.
  destruct Hd as [d' [<- Hd']]. rewrite Hg. now apply H1.
Qed.
Lemma static_step o ds : static ds -> static (map (step_slot o) ds).
Proof. apply static_map. reflexivity. Qed.

Lemma slots_step_root o s0 kids d0 ds : slots_ok (s0 :: kids) (d0 :: ds) ->
  slots_ok (upd (s0 :: kids) 0 (step c o)) (step_slot o d0 :: ds).
Proof. intros H. inversion H; subst. cbn [upd]. constructor; [|assumption]. cbn. now apply refines_step. Qed.

Lemma static_root d0 d0' ds : fst d0' = fst d0 -> static (d0 :: ds) -> static (d0' :: ds).
Proof.
  intros E [H1 H2]. split.
  - inversion H1; subst. constructor; [rewrite E|]; assumption.
  - cbn [map concat] in *. now rewrite E.
Qed.

Lemma merging_R_static st P : merging_R st P -> exists ds, slots_ok (m_kids st) ds /\ static ds.
Proof. intros [ds|ds|ds|ds]; eauto. Qed.

Lemma static_nil_L : static [] -> L = [].
Proof. intros [_ H]. cbn in H. now apply Permutation_nil in H. Qed.

Lemma heapify_perm' fwd kids : Permutation (heapify (is_less c fwd) kids) kids.
Proof. apply heapify_perm. Qed.
Lemma percolate_perm' fwd n kids j : Permutation (percolate_down (is_less c fwd) n kids j) kids.
Proof. apply percolate_perm. Qed.

(* ---- seek *)
Lemma seek_R k st P : merging_R st P -> merging_R (m_seek c k st) (count (below k) L).
Proof.
  intros HR. destruct (merging_R_static _ _ HR) as [ds [Hok Hst]]. unfold m_seek.
  pose proof (slots_step_all (OSeek k) _ _ Hok) as Hok1. pose proof (static_step (OSeek k) _ Hst) as Hst1.
  change (map (step c (OSeek k)) (m_kids st)) with (map (c_seek c k) (m_kids st)) in Hok1.
  eapply finish_fwd; [apply heapify_perm'|exact Hok1|exact Hst1| |apply heapify_is_heap|apply count_range].
  unfold fwd_pos. rewrite Forall_forall. intros d' Hd'. apply in_map_iff in Hd'. destruct Hd' as [d [<- Hd]].
  cbn. unfold cnt. apply count_ext. intros e He. destruct (static_In _ _ _ Hst Hd He) as [i Hi].
  pose proof (count_prefix _ L HL (below_downclosed k) i e Hi) as H1.
  pose proof (cut_idx (count (below k) L) i e (count_range _ _) Hi) as H2.
  destruct (below k e), (cut (count (below k) L) e); auto.
  - destruct H1 as [H1 _]. destruct H2 as [_ H2]. specialize (H2 (H1 eq_refl)). discriminate.
  - destruct H1 as [_ H1]. destruct H2 as [H2 _]. specialize (H1 (H2 eq_refl)). discriminate.
Qed.

(* ---- seek_to_first / seek_to_last *)
Lemma upd_upd {A} (l : list A) f g : upd (upd l 0 f) 0 g = upd l 0 (fun a => g (f a)).
Proof. destruct l; reflexivity. Qed.

Lemma kv_ext_root (kids : list S) f : (forall s0 r, kids = s0 :: r -> c_kv c (f s0) = c_kv c s0) ->
  Forall2 (fun a b => c_kv c a = c_kv c b) kids (upd kids 0 f).
Proof.
  intros H. destruct kids as [|s0 r]; [constructor|]. cbn [upd]. constructor; [symmetry; eapply H; eauto|].
  clear. induction r; constructor; auto.
Qed.

Lemma first_R_gen st : (exists ds, slots_ok (m_kids st) ds /\ static ds) -> merging_R (m_first c st) (-1).
Proof.
  intros [ds [Hok Hst]]. unfold m_first.
  set (kids1 := map (fun s => c_next c (c_first c s)) (m_kids st)).
  assert (slots_ok kids1 (map (step_slot ONext) (map (step_slot OFirst) ds))) as Hok1.
  { unfold kids1. rewrite <- (map_map (c_first c) (c_next c)).
    apply (slots_step_all ONext). apply (slots_step_all OFirst). exact Hok. }
  pose proof (static_step ONext _ (static_step OFirst _ Hst)) as Hst1.
  assert (fwd_pos 0 (map (step_slot ONext) (map (step_slot OFirst) ds))) as Hpos1.
  { unfold fwd_pos. rewrite Forall_forall. intros d' Hd'. rewrite map_map in Hd'. apply in_map_iff in Hd'.
    destruct Hd' as [d [<- Hd]]. cbn. rewrite (cnt_0 _ d Hst Hd). unfold ref_next. pose proof (len_nonneg (fst d)).
    destruct (Z.leb_spec (len (fst d)) (-1 + 1)); lia. }
  destruct (perm_transport _ _ _ _ (heapify_perm' true kids1) Hok1 Hst1 Hpos1) as [ds2 [Hok2 [Hst2 Hpos2]]].
  pose proof (heapify_is_heap true kids1) as Hheap. set (kids2 := heapify (is_less c true) kids1) in *.
  destruct Hok2 as [|s0 d0 kids' ds' H0 Hok'].
  - eapply (MFwdStart _ _ []); cbn; auto. constructor.
  - unfold on_root. inversion Hpos2 as [|? ? Hp0 Hp']; subst.
    eapply (MFwdStart _ _ ((fst d0, -1) :: ds')); cbn [m_fwd m_kids]; auto.
    + apply (slots_step_root OFirst s0 kids' d0 ds'). constructor; assumption.
    + eapply static_root; [|exact Hst2]. reflexivity.
    + unfold on_root. rewrite upd_upd. eapply heap_from_kv_ext; [|exact Hheap]. apply kv_ext_root.
      intros s r E. injection E as <- <-.
      rewrite (refines_kv c _ _ _ (refines_next c _ _ _ (refines_first c _ _ _ H0))), (refines_kv c _ _ _ H0).
      rewrite Hp0. rewrite (cnt_0 _ d0 Hst2 (or_introl eq_refl)). unfold ref_next. pose proof (len_nonneg (fst d0)).
      destruct (Z.leb_spec (len (fst d0)) (-1 + 1)); [|reflexivity]. rewrite !ent_none by lia. reflexivity.
Qed.

Lemma first_R st P : merging_R st P -> merging_R (m_first c st) (-1).
Proof. intros HR. apply first_R_gen. eapply merging_R_static; eauto. Qed.

Lemma last_R st P : merging_R st P -> merging_R (m_last c st) N.
Proof.
  intros HR. destruct (merging_R_static _ _ HR) as [ds [Hok Hst]]. unfold m_last.
  set (kids1 := map (fun s => c_prev c (c_last c s)) (m_kids st)).
  assert (slots_ok kids1 (map (step_slot OPrev) (map (step_slot OLast) ds))) as Hok1.
  { unfold kids1. rewrite <- (map_map (c_last c) (c_prev c)).
    apply (slots_step_all OPrev). apply (slots_step_all OLast). exact Hok. }
  pose proof (static_step OPrev _ (static_step OLast _ Hst)) as Hst1.
  assert (rev_pos (N - 1) (map (step_slot OPrev) (map (step_slot OLast) ds))) as Hpos1.
  { unfold rev_pos. rewrite Forall_forall. intros d' Hd'. rewrite map_map in Hd'. apply in_map_iff in Hd'.
    destruct Hd' as [d [<- Hd]]. cbn. replace (N - 1 + 1) with N by lia. rewrite cnt_N. unfold ref_prev.
    pose proof (len_nonneg (fst d)). destruct (Z.ltb_spec (len (fst d) - 1) 0); lia. }
  destruct (perm_transport _ _ _ _ (heapify_perm' false kids1) Hok1 Hst1 Hpos1) as [ds2 [Hok2 [Hst2 Hpos2]]].
  pose proof (heapify_is_heap false kids1) as Hheap. set (kids2 := heapify (is_less c false) kids1) in *.
  destruct Hok2 as [|s0 d0 kids' ds' H0 Hok'].
  - eapply (MRevEnd _ _ []); cbn; auto. constructor.
  - unfold on_root. inversion Hpos2 as [|? ? Hp0 Hp']; subst.
    eapply (MRevEnd _ _ ((fst d0, len (fst d0)) :: ds')); cbn [m_fwd m_kids]; auto.
    + apply (slots_step_root OLast s0 kids' d0 ds'). constructor; assumption.
    + eapply static_root; [|exact Hst2]. reflexivity.
    + unfold on_root. rewrite upd_upd. eapply heap_from_kv_ext; [|exact Hheap]. apply kv_ext_root.
      intros s r E. injection E as <- <-.
      rewrite (refines_kv c _ _ _ (refines_prev c _ _ _ (refines_last c _ _ _ H0))), (refines_kv c _ _ _ H0).
      rewrite Hp0. replace (N - 1 + 1) with N by lia. rewrite cnt_N. unfold ref_prev. pose proof (len_nonneg (fst d0)).
      destruct (Z.ltb_spec (len (fst d0) - 1) 0); [|reflexivity]. rewrite !ent_none by lia. reflexivity.
Qed.

(* ---- next *)
Lemma ref_next_succ li p : p + 1 <= len li -> ref_next li p = p + 1.
Proof. intros H. unfold ref_next. destruct (Z.leb_spec (len li) (p + 1)); lia. Qed.
Lemma ref_prev_pred p : 0 <= p -> ref_prev p = p - 1.
Proof. intros H. unfold ref_prev. destruct (Z.ltb_spec (p - 1) 0); lia. Qed.

Lemma next_R st P : merging_R st P -> merging_R (m_next c st) (ref_next L P).
Proof.
  pose proof (len_nonneg L) as HN0.
  intros [ds Hf HP Hok Hst Hpos Hheap|ds Hf HP Hok Hst Hroot Hheap|ds Hf HP Hok Hst Hpos Hheap|ds Hf HP Hok Hst Hroot Hheap];
    unfold m_next; rewrite Hf; cbn [negb].
  - (* Fwd P: advance the root, percolate *)
    destruct (root_fwd _ _ _ Hok Hst Hpos Hheap HP) as [_ Hroot].
    destruct (Z.eq_dec P N) as [->|Hne].
    + (* at the end: nothing moves *)
      replace (ref_next L N) with N by (unfold ref_next; destruct (Z.leb_spec N (N + 1)); lia).
      destruct Hok as [|s0 d0 kids' ds' H0 Hok']; [eapply (MFwd _ _ []); cbn; auto; try lia; try constructor; try (intros i ch a b _ _ Ha; destruct i; discriminate)|].
      unfold on_root. inversion Hpos as [|? ? Hp0 Hp']; subst.
      eapply (finish_fwd (upd (s0 :: kids') 0 (c_next c)) _ (step_slot ONext d0 :: ds')).
      * rewrite upd_length. apply percolate_perm'.
      * apply (slots_step_root ONext). constructor; assumption.
      * eapply static_root; [|exact Hst]. reflexivity.
      * constructor; [|exact Hp']. cbn. rewrite Hp0, cnt_N. unfold ref_next. destruct (Z.leb_spec (len (fst d0)) (len (fst d0) + 1)); lia.
      * apply percolate_root_heap. now apply heap_upd_root.
      * lia.
    + destruct (Hroot ltac:(lia)) as [s0 [kids' [d0 [ds' [x [Ek [Ed [Hx [Hin Hex]]]]]]]]]. subst ds. rewrite Ek in *.
      replace (ref_next L P) with (P + 1) by (unfold ref_next; destruct (Z.leb_spec N (P + 1)); lia).
      unfold on_root. inversion Hpos as [|? ? Hp0 Hp']; subst.
      destruct (advance_cut d0 ds' P x Hst ltac:(lia) Hx Hin) as [Ha0 Har].
      pose proof (ent_range _ _ _ Hex) as Hpr.
      eapply (finish_fwd (upd (s0 :: kids') 0 (c_next c)) _ (step_slot ONext d0 :: ds')).
      * rewrite upd_length. apply percolate_perm'.
      * apply (slots_step_root ONext). exact Hok.
      * eapply static_root; [|exact Hst]. reflexivity.
      * constructor.
        -- cbn. rewrite ref_next_succ by lia. lia.
        -- unfold fwd_pos in Hp'. rewrite Forall_forall in *. intros d Hd. rewrite (Hp' d Hd). symmetry. now apply Har.
      * apply percolate_root_heap. now apply heap_upd_root.
      * lia.
  - (* FwdStart: the root moves onto its first entry; the array is then a heap *)
    subst P. replace (ref_next L (-1)) with 0 by (unfold ref_next; destruct (Z.leb_spec N (-1 + 1)); lia).
    destruct Hok as [|s0 d0 kids' ds' H0 Hok'].
    + eapply (MFwd _ _ []); cbn; auto; try (rewrite (static_nil_L Hst); cbn; lia); try constructor; try (intros i ch a b _ _ Ha; destruct i; discriminate).
    + destruct Hroot as [Hp0 Hp']. unfold on_root in *.
      eapply (finish_fwd (upd (s0 :: kids') 0 (c_next c)) _ (step_slot ONext d0 :: ds')).
      * rewrite upd_length. apply percolate_perm'.
      * apply (slots_step_root ONext). constructor; assumption.
      * eapply static_root; [|exact Hst]. reflexivity.
      * constructor; [|exact Hp']. cbn. rewrite Hp0. rewrite (cnt_0 _ d0 Hst (or_introl eq_refl)).
        unfold ref_next. pose proof (len_nonneg (fst d0)). destruct (Z.leb_spec (len (fst d0)) (-1 + 1)); lia.
      * apply percolate_root_heap. eapply heap_from_weaken; [|exact Hheap]. lia.
      * lia.
  - (* Rev P: every child steps forward; heapify forwards *)
    replace (ref_next L P) with (P + 1) by (unfold ref_next; destruct (Z.leb_spec N (P + 1)); lia).
    eapply (finish_fwd (map (c_next c) (m_kids st)) _ (map (step_slot ONext) ds)).
    + apply heapify_perm'.
    + apply (slots_step_all ONext). exact Hok.
    + now apply static_step.
    + unfold fwd_pos, rev_pos in *. rewrite Forall_forall in *. intros d' Hd'. apply in_map_iff in Hd'.
      destruct Hd' as [d [<- Hd]]. cbn. rewrite (Hpos d Hd). pose proof (cnt_range (fst d) (P + 1)).
      rewrite ref_next_succ by lia. lia.
    + apply heapify_is_heap.
    + lia.
  - (* RevEnd: every child steps forward to its end *)
    subst P. replace (ref_next L N) with N by (unfold ref_next; destruct (Z.leb_spec N (N + 1)); lia).
    eapply (finish_fwd (map (c_next c) (m_kids st)) _ (map (step_slot ONext) ds)).
    + apply heapify_perm'.
    + apply (slots_step_all ONext). exact Hok.
    + now apply static_step.
    + destruct ds as [|d0 ds']; [constructor|]. destruct Hroot as [Hp0 Hp']. constructor.
      * cbn. rewrite Hp0, cnt_N. unfold ref_next. destruct (Z.leb_spec (len (fst d0)) (len (fst d0) + 1)); lia.
      * unfold fwd_pos, rev_pos in *. rewrite Forall_forall in *. intros d' Hd'. apply in_map_iff in Hd'.
        destruct Hd' as [d [<- Hd]]. cbn. rewrite (Hp' d Hd). replace (N - 1 + 1) with N by lia.
        pose proof (cnt_range (fst d) N). rewrite ref_next_succ by lia. lia.
    + apply heapify_is_heap.
    + lia.
Qed.

(* ---- prev *)
Lemma prev_R st P : merging_R st P -> merging_R (m_prev c st) (ref_prev P).
Proof.
  pose proof (len_nonneg L) as HN0.
  intros [ds Hf HP Hok Hst Hpos Hheap|ds Hf HP Hok Hst Hroot Hheap|ds Hf HP Hok Hst Hpos Hheap|ds Hf HP Hok Hst Hroot Hheap];
    unfold m_prev; rewrite Hf.
  - (* Fwd P: every child steps back; heapify in reverse *)
    rewrite ref_prev_pred by lia.
    eapply (finish_rev (map (c_prev c) (m_kids st)) _ (map (step_slot OPrev) ds)).
    + apply heapify_perm'.
    + apply (slots_step_all OPrev). exact Hok.
    + now apply static_step.
    + unfold fwd_pos, rev_pos in *. rewrite Forall_forall in *. intros d' Hd'. apply in_map_iff in Hd'.
      destruct Hd' as [d [<- Hd]]. cbn. rewrite (Hpos d Hd). pose proof (cnt_range (fst d) P).
      rewrite ref_prev_pred by lia. replace (P - 1 + 1) with P by lia. reflexivity.
    + apply heapify_is_heap.
    + lia.
  - (* FwdStart: every child steps back to before its first entry *)
    subst P. replace (ref_prev (-1)) with (-1) by reflexivity.
    eapply (finish_rev (map (c_prev c) (m_kids st)) _ (map (step_slot OPrev) ds)).
    + apply heapify_perm'.
    + apply (slots_step_all OPrev). exact Hok.
    + now apply static_step.
    + destruct ds as [|d0 ds']; [constructor|]. destruct Hroot as [Hp0 Hp']. constructor.
      * cbn. rewrite Hp0. replace (-1 + 1) with 0 by lia. rewrite (cnt_0 _ d0 Hst (or_introl eq_refl)). reflexivity.
      * unfold fwd_pos, rev_pos in *. rewrite Forall_forall in *. intros d' Hd'. apply in_map_iff in Hd'.
        destruct Hd' as [d [<- Hd]]. cbn. rewrite (Hp' d Hd). replace (-1 + 1) with 0 by lia.
        rewrite (cnt_0 _ d Hst (or_intror Hd)). reflexivity.
    + apply heapify_is_heap.
    + lia.
  - (* Rev P: move the root back, percolate *)
    destruct (root_rev _ _ _ Hok Hst Hpos Hheap HP) as [_ Hroot].
    destruct (Z.eq_dec P (-1)) as [->|Hne].
    + replace (ref_prev (-1)) with (-1) by reflexivity.
      destruct Hok as [|s0 d0 kids' ds' H0 Hok']; [eapply (MRev _ _ []); cbn; auto; try lia; try constructor; try (intros i ch a b _ _ Ha; destruct i; discriminate)|].
      unfold on_root. inversion Hpos as [|? ? Hp0 Hp']; subst.
      eapply (finish_rev (upd (s0 :: kids') 0 (c_prev c)) _ (step_slot OPrev d0 :: ds')).
      * rewrite upd_length. apply percolate_perm'.
      * apply (slots_step_root OPrev). constructor; assumption.
      * eapply static_root; [|exact Hst]. reflexivity.
      * constructor; [|exact Hp']. cbn. rewrite Hp0. replace (-1 + 1) with 0 by lia.
        rewrite (cnt_0 _ d0 Hst (or_introl eq_refl)). reflexivity.
      * apply percolate_root_heap. now apply heap_upd_root.
      * lia.
    + destruct (Hroot ltac:(lia)) as [s0 [kids' [d0 [ds' [x [Ek [Ed [Hx [Hin Hex]]]]]]]]]. subst ds. rewrite Ek in *.
      rewrite ref_prev_pred by lia.
      unfold on_root. inversion Hpos as [|? ? Hp0 Hp']; subst.
      destruct (advance_cut d0 ds' P x Hst ltac:(lia) Hx Hin) as [Ha0 Har].
      pose proof (ent_range _ _ _ Hex) as Hpr.
      eapply (finish_rev (upd (s0 :: kids') 0 (c_prev c)) _ (step_slot OPrev d0 :: ds')).
      * rewrite upd_length. apply percolate_perm'.
      * apply (slots_step_root OPrev). exact Hok.
      * eapply static_root; [|exact Hst]. reflexivity.
      * unfold rev_pos. replace (P - 1 + 1) with P by lia. constructor.
        -- cbn. rewrite ref_prev_pred by lia. lia.
        -- unfold rev_pos in Hp'. rewrite Forall_forall in *. intros d Hd. rewrite (Hp' d Hd). rewrite (Har d Hd). reflexivity.
      * apply percolate_root_heap. now apply heap_upd_root.
      * lia.
  - (* RevEnd: the root moves onto its last entry; the array is then a reverse heap *)
    subst P. replace (ref_prev N) with (N - 1) by (unfold ref_prev; destruct (Z.ltb_spec (N - 1) 0); lia).
    destruct Hok as [|s0 d0 kids' ds' H0 Hok'].
    + eapply (MRev _ _ []); cbn; auto; try (rewrite (static_nil_L Hst); cbn; lia); try constructor; try (intros i ch a b _ _ Ha; destruct i; discriminate).
    + destruct Hroot as [Hp0 Hp']. unfold on_root in *.
      eapply (finish_rev (upd (s0 :: kids') 0 (c_prev c)) _ (step_slot OPrev d0 :: ds')).
      * rewrite upd_length. apply percolate_perm'.
      * apply (slots_step_root OPrev). constructor; assumption.
      * eapply static_root; [|exact Hst]. reflexivity.
      * constructor; [|exact Hp']. cbn. rewrite Hp0. replace (N - 1 + 1) with N by lia. rewrite cnt_N.
        unfold ref_prev. pose proof (len_nonneg (fst d0)). destruct (Z.ltb_spec (len (fst d0) - 1) 0); lia.
      * apply percolate_root_heap. eapply heap_from_weaken; [|exact Hheap]. lia.
      * lia.
Qed.

Theorem merging_sim : sim (merging c) L merging_R.
Proof.
  pose proof (len_nonneg L) as HN0. constructor.
  - intros st P [ds Hf HP|ds Hf HP|ds Hf HP|ds Hf HP]; lia.
  - intros st P HR. cbn [merging c_kv]. destruct st as [fwd kids].
    destruct HR as [ds Hf HP Hok Hst Hpos Hheap|ds Hf HP Hok Hst Hroot Hheap|ds Hf HP Hok Hst Hpos Hheap|ds Hf HP Hok Hst Hroot Hheap];
      cbn [m_fwd m_kids] in *.
    + destruct (root_fwd _ _ _ Hok Hst Hpos Hheap HP) as [H _]. exact H.
    + subst P. rewrite (ent_none L (-1)) by lia. unfold m_kv. cbn [m_kids].
      destruct Hok as [|s0 d0 kids' ds' H0 Hok']; [reflexivity|]. destruct Hroot as [Hp0 _].
      rewrite (refines_kv c _ _ _ H0), Hp0. apply ent_none. lia.
    + destruct (root_rev _ _ _ Hok Hst Hpos Hheap HP) as [H _]. exact H.
    + subst P. rewrite (ent_none L N) by lia. unfold m_kv. cbn [m_kids].
      destruct Hok as [|s0 d0 kids' ds' H0 Hok']; [reflexivity|]. destruct Hroot as [Hp0 _].
      rewrite (refines_kv c _ _ _ H0), Hp0. apply ent_none. lia.
  - reflexivity.
  - intros o st P HR. destruct o; cbn [step merging c_first c_last c_seek c_prev c_next ref].
    + eapply first_R; eauto.
    + eapply last_R; eauto.
    + eapply seek_R; eauto.
    + now apply prev_R.
    + now apply next_R.
Qed.

(* the absolute calls only need every child to be a reference cursor AFTER its own absolute call
   (recovery after an Err: Proofs_Recover.v) *)
Definition kids_rec (kids : list S) (ds : list slot) : Prop :=
  Forall2 (fun s (d : slot) => forall o, is_abs o = true ->
             refines c (step c o s) (fst d) (step (ref (fst d)) o 0)) kids ds.

Lemma abs_all o kids ds : is_abs o = true -> kids_rec kids ds ->
  slots_ok (map (step c o) kids) (map (step_slot o) ds).
Proof.
  intros Ho H. induction H as [|s d kids ds Hs H IH]; cbn [map]; constructor; [|exact IH].
  cbn [step_slot fst snd]. replace (step (ref (fst d)) o (snd d)) with (step (ref (fst d)) o 0); [now apply Hs|].
  destruct o; try discriminate; reflexivity.
Qed.

Lemma first_R_rec st ds : kids_rec (m_kids st) ds -> static ds -> merging_R (m_first c st) (-1).
Proof.
  intros Hrec Hst. unfold m_first.
  set (kids1 := map (fun s => c_next c (c_first c s)) (m_kids st)).
  assert (slots_ok kids1 (map (step_slot ONext) (map (step_slot OFirst) ds))) as Hok1.
  { unfold kids1. rewrite <- (map_map (c_first c) (c_next c)).
    apply (slots_step_all ONext). exact (abs_all OFirst _ _ eq_refl Hrec). }
  pose proof (static_step ONext _ (static_step OFirst _ Hst)) as Hst1.
  assert (fwd_pos 0 (map (step_slot ONext) (map (step_slot OFirst) ds))) as Hpos1.
  { unfold fwd_pos. rewrite Forall_forall. intros d' Hd'. rewrite map_map in Hd'. apply in_map_iff in Hd'.
    destruct Hd' as [d [<- Hd]]. cbn. rewrite (cnt_0 _ d Hst Hd). unfold ref_next. pose proof (len_nonneg (fst d)).
    destruct (Z.leb_spec (len (fst d)) (-1 + 1)); lia. }
  destruct (perm_transport _ _ _ _ (heapify_perm' true kids1) Hok1 Hst1 Hpos1) as [ds2 [Hok2 [Hst2 Hpos2]]].
  pose proof (heapify_is_heap true kids1) as Hheap. set (kids2 := heapify (is_less c true) kids1) in *.
  destruct Hok2 as [|s0 d0 kids' ds' H0 Hok'].
  - eapply (MFwdStart _ _ []); cbn; auto. constructor.
  - unfold on_root. inversion Hpos2 as [|? ? Hp0 Hp']; subst.
    eapply (MFwdStart _ _ ((fst d0, -1) :: ds')); cbn [m_fwd m_kids]; auto.
    + apply (slots_step_root OFirst s0 kids' d0 ds'). constructor; assumption.
    + eapply static_root; [|exact Hst2]. reflexivity.
    + unfold on_root. rewrite upd_upd. eapply heap_from_kv_ext; [|exact Hheap]. apply kv_ext_root.
      intros s r E. injection E as <- <-.
      rewrite (refines_kv c _ _ _ (refines_next c _ _ _ (refines_first c _ _ _ H0))), (refines_kv c _ _ _ H0).
      rewrite Hp0. rewrite (cnt_0 _ d0 Hst2 (or_introl eq_refl)). unfold ref_next. pose proof (len_nonneg (fst d0)).
      destruct (Z.leb_spec (len (fst d0)) (-1 + 1)); [|reflexivity]. rewrite !ent_none by lia. reflexivity.
Qed.

Lemma last_R_rec st ds : kids_rec (m_kids st) ds -> static ds -> merging_R (m_last c st) N.
Proof.
  intros Hrec Hst. unfold m_last.
  set (kids1 := map (fun s => c_prev c (c_last c s)) (m_kids st)).
  assert (slots_ok kids1 (map (step_slot OPrev) (map (step_slot OLast) ds))) as Hok1.
  { unfold kids1. rewrite <- (map_map (c_last c) (c_prev c)).
    apply (slots_step_all OPrev). exact (abs_all OLast _ _ eq_refl Hrec). }
  pose proof (static_step OPrev _ (static_step OLast _ Hst)) as Hst1.
  assert (rev_pos (N - 1) (map (step_slot OPrev) (map (step_slot OLast) ds))) as Hpos1.
  { unfold rev_pos. rewrite Forall_forall. intros d' Hd'. rewrite map_map in Hd'. apply in_map_iff in Hd'.
    destruct Hd' as [d [<- Hd]]. cbn. replace (N - 1 + 1) with N by lia. rewrite cnt_N. unfold ref_prev.
    pose proof (len_nonneg (fst d)). destruct (Z.ltb_spec (len (fst d) - 1) 0); lia. }
  destruct (perm_transport _ _ _ _ (heapify_perm' false kids1) Hok1 Hst1 Hpos1) as [ds2 [Hok2 [Hst2 Hpos2]]].
  pose proof (heapify_is_heap false kids1) as Hheap. set (kids2 := heapify (is_less c false) kids1) in *.
  destruct Hok2 as [|s0 d0 kids' ds' H0 Hok'].
  - eapply (MRevEnd _ _ []); cbn; auto. constructor.
  - unfold on_root. inversion Hpos2 as [|? ? Hp0 Hp']; subst.
    eapply (MRevEnd _ _ ((fst d0, len (fst d0)) :: ds')); cbn [m_fwd m_kids]; auto.
    + apply (slots_step_root OLast s0 kids' d0 ds'). constructor; assumption.
    + eapply static_root; [|exact Hst2]. reflexivity.
    + unfold on_root. rewrite upd_upd. eapply heap_from_kv_ext; [|exact Hheap]. apply kv_ext_root.
      intros s r E. injection E as <- <-.
      rewrite (refines_kv c _ _ _ (refines_prev c _ _ _ (refines_last c _ _ _ H0))), (refines_kv c _ _ _ H0).
      rewrite Hp0. replace (N - 1 + 1) with N by lia. rewrite cnt_N. unfold ref_prev. pose proof (len_nonneg (fst d0)).
      destruct (Z.ltb_spec (len (fst d0) - 1) 0); [|reflexivity]. rewrite !ent_none by lia. reflexivity.
Qed.

Lemma seek_R_rec k st ds : kids_rec (m_kids st) ds -> static ds -> merging_R (m_seek c k st) (count (below k) L).
Proof.
  intros Hrec Hst. unfold m_seek.
  pose proof (abs_all (OSeek k) _ _ eq_refl Hrec) as Hok1. pose proof (static_step (OSeek k) _ Hst) as Hst1.
  change (map (step c (OSeek k)) (m_kids st)) with (map (c_seek c k) (m_kids st)) in Hok1.
  eapply finish_fwd; [apply heapify_perm'|exact Hok1|exact Hst1| |apply heapify_is_heap|apply count_range].
  unfold fwd_pos. rewrite Forall_forall. intros d' Hd'. apply in_map_iff in Hd'. destruct Hd' as [d [<- Hd]].
  cbn. unfold cnt. apply count_ext. intros e He. destruct (static_In _ _ _ Hst Hd He) as [i Hi].
  pose proof (count_prefix _ L HL (below_downclosed k) i e Hi) as H1.
  pose proof (cut_idx (count (below k) L) i e (count_range _ _) Hi) as H2.
  destruct (below k e), (cut (count (below k) L) e); auto.
  - destruct H1 as [H1 _]. destruct H2 as [_ H2]. specialize (H2 (H1 eq_refl)). discriminate.
  - destruct H1 as [_ H1]. destruct H2 as [H2 _]. specialize (H1 (H2 eq_refl)). discriminate.
Qed.

End MergeProof.

(* the compositional statement: children that behave as reference cursors over sorted tables
   whose entries, together, are exactly the entries of a strictly sorted list L *)
Theorem merging_refines {S} (c : cursor S) (L : list entry) (ls : list (list entry)) (kids : list S) :
  sorted L -> Permutation (concat ls) L -> Forall sorted ls ->
  Forall2 (fun s li => exists p, refines c s li p) kids ls ->
  refines (merging c) (m_new c kids) L (-1).
Proof.
  intros HL HP Hs HF.
  assert (exists ds, slots_ok c kids ds /\ static L ds) as Hex.
  { clear HL. revert L HP. induction HF as [|s li kids' ls' [p Hp] HF IH]; intros L HP.
    - exists []. split; [constructor|]. split; [constructor|exact HP].
    - inversion Hs as [|? ? Hs0 Hs']; subst.
      destruct (IH Hs' (concat ls') (Permutation_refl _)) as [ds [Hok [Hst1 Hst2]]].
      exists ((li, p) :: ds). split; [constructor; [exact Hp|exact Hok]|]. split.
      + constructor; [exact Hs0|exact Hst1].
      + cbn [map concat fst]. etransitivity; [|exact HP]. cbn [concat]. now apply Permutation_app_head. }
  eapply sim_refines; [apply (merging_sim c L HL)|].
  unfold m_new. apply (first_R_gen c L HL). exact Hex.
Qed.
