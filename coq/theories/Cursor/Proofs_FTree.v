(* Cursor/Proofs_FTree.v — recovery after an Err for arbitrary nestings over failing leaves.
   `valid u L`: u is a (possibly dirty) state of a nesting whose specification is L (the tables
   and parameters are those it was built from; children of a merging cursor in any order).
   Every call preserves it, Err or not; and from a valid state in which no node has entered its
   own failure state, seek / seek_to_first / seek_to_last make the whole nesting a reference
   cursor over L again. *)
From Coq Require Import NArith ZArith Arith List Bool Lia Permutation.
From Blue Require Import Cursor.Iface Cursor.Ref Cursor.Lazy Cursor.Bounds Cursor.Pruning
  Cursor.Concat Cursor.Merging Cursor.Spec Cursor.Compose Cursor.Fallible Cursor.FBounds
  Cursor.FPruning Cursor.FConcat Cursor.FMerging Cursor.FLazy Cursor.FCompose
  Cursor.Proofs_Order Cursor.Proofs_Ref Cursor.Proofs_Lazy Cursor.Proofs_Fallible Cursor.Proofs_FBounds
  Cursor.Proofs_FPruning Cursor.Proofs_FConcat Cursor.Proofs_FMerging Cursor.Proofs_FLazy
  Cursor.Proofs_Compose Cursor.Proofs_Recover Cursor.Proofs_ConcatRec Cursor.Proofs_FCompose.
Import ListNotations.
Local Open Scope Z_scope.

Definition inrange (s : tstate) : Prop := -1 <= t_idx s <= len (t_tab s).

Fixpoint fudepth (u : fust) : nat :=
  match u with
  | FUT _ | FUL _ _ => 0
  | FUM x => Datatypes.S (fold_right (fun k a => Nat.max (fudepth k) a) 0%nat (m_kids (fs_st x)))
  | FUC x => Datatypes.S (fold_right (fun k a => Nat.max (fudepth k) a) 0%nat (k_kids (fs_st x)))
  | FUB _ _ _ x => Datatypes.S (fudepth (b_cur (fs_st x)))
  | FUP _ _ x => Datatypes.S (fudepth (p_cur (fs_st x)))
  end.

Fixpoint valid (u : fust) (L : list entry) : Prop :=
  match u with
  | FUT x => L = t_tab (lf_st x) /\ sorted L /\ inrange (lf_st x)
  | FUL mk x => L = t_tab mk /\ sorted L /\ inrange mk /\
                match fl_pos (fs_st x) with LInst cur => t_tab cur = t_tab mk /\ inrange cur | _ => True end
  | FUM x => sorted L /\ exists Ls,
       (fix all (ks : list fust) (Ls : list (list entry)) : Prop :=
          match ks, Ls with [], [] => True | k :: kr, l :: lr => valid k l /\ all kr lr | _, _ => False end)
         (m_kids (fs_st x)) Ls /\ Permutation (concat Ls) L
  | FUC x => sorted L /\ exists Ls,
       (fix all (ks : list fust) (Ls : list (list entry)) : Prop :=
          match ks, Ls with [], [] => True | k :: kr, l :: lr => valid k l /\ all kr lr | _, _ => False end)
         (k_kids (fs_st x)) Ls /\ L = concat Ls /\ (k_pos (fs_st x) < length Ls)%nat
  | FUB fuel lo hi x => exists L0, valid (b_cur (fs_st x)) L0 /\ L = bounds_spec lo hi L0 /\ Z.of_nat fuel >= len L0 + 2
  | FUP fuel t x => exists L0, valid (p_cur (fs_st x)) L0 /\ L = prune_spec t L0 /\ Z.of_nat fuel >= len L0 + 2
  end.

Lemma valid_all_F2 ks Ls :
  (fix all (ks : list fust) (Ls : list (list entry)) : Prop :=
     match ks, Ls with [], [] => True | k :: kr, l :: lr => valid k l /\ all kr lr | _, _ => False end) ks Ls
  <-> Forall2 valid ks Ls.
Proof.
  revert Ls. induction ks as [|k kr IH]; intros [|l lr]; split; intros H.
  - constructor.
  - exact I.
  - contradiction.
  - inversion H.
  - contradiction.
  - inversion H.
  - destruct H as [H1 H2]. constructor; [exact H1|now apply IH].
  - inversion H; subst. split; [assumption|]. now apply IH.
Qed.

(* induction over tree states *)
Section FustInd.
Variable P : fust -> Prop.
Hypothesis HT : forall x, P (FUT x).
Hypothesis HLz : forall mk x, P (FUL mk x).
Hypothesis HM : forall x, Forall P (m_kids (fs_st x)) -> P (FUM x).
Hypothesis HC : forall x, Forall P (k_kids (fs_st x)) -> P (FUC x).
Hypothesis HB : forall f lo hi x, P (b_cur (fs_st x)) -> P (FUB f lo hi x).
Hypothesis HPr : forall f t x, P (p_cur (fs_st x)) -> P (FUP f t x).
Fixpoint fust_ind' (u : fust) : P u :=
  match u with
  | FUT x => HT x
  | FUL mk x => HLz mk x
  | FUM x => HM x ((fix go (ks : list fust) : Forall P ks :=
                      match ks with [] => Forall_nil P | k :: r => Forall_cons k (fust_ind' k) (go r) end) (m_kids (fs_st x)))
  | FUC x => HC x ((fix go (ks : list fust) : Forall P ks :=
                      match ks with [] => Forall_nil P | k :: r => Forall_cons k (fust_ind' k) (go r) end) (k_kids (fs_st x)))
  | FUB f lo hi x => HB f lo hi x (fust_ind' (b_cur (fs_st x)))
  | FUP f t x => HPr f t x (fust_ind' (p_cur (fs_st x)))
  end.
End FustInd.

Lemma valid_sorted u : forall L, valid u L -> sorted L.
Proof.
  induction u as [x|mk x|x IH|x IH|f lo hi x IH|f t x IH] using fust_ind'; intros L H; cbn [valid] in H.
  - tauto.
  - tauto.
  - tauto.
  - tauto.
  - destruct H as [L0 [H0 [-> _]]]. apply sorted_filter. eauto.
  - destruct H as [L0 [H0 [-> _]]]. apply sorted_filter. eauto.
Qed.

(* ---- every call, Err or not, preserves validity (and the nesting depth) *)
Lemma tcur_step_inrange o s : inrange s -> inrange (step tcur o s) /\ t_tab (step tcur o s) = t_tab s.
Proof.
  intros H. unfold inrange in *. destruct s as [tab i]. cbn [t_tab t_idx] in *.
  pose proof (ref_step_range tab o i H) as Hr. destruct o; cbn [step tcur c_first c_last c_seek c_prev c_next t_tab t_idx ref] in *; auto.
Qed.

Lemma fold_max_bound (ks : list fust) d : Forall (fun k => fudepth k <= d)%nat ks ->
  (fold_right (fun k a => Nat.max (fudepth k) a) 0%nat ks <= d)%nat.
Proof. induction 1; cbn; lia. Qed.
Lemma fold_max_Forall (ks : list fust) d :
  (fold_right (fun k a => Nat.max (fudepth k) a) 0%nat ks <= d)%nat -> Forall (fun k => fudepth k <= d)%nat ks.
Proof. induction ks as [|k r IH]; cbn; intros H; constructor; [lia|apply IH; lia]. Qed.

Definition vd (d : nat) (u : fust) (L : list entry) : Prop := (fudepth u <= d)%nat /\ valid u L.

Lemma F2_vd_split d ks Ls : Forall2 (vd d) ks Ls -> Forall (fun k => fudepth k <= d)%nat ks /\ Forall2 valid ks Ls.
Proof. induction 1 as [|k l ks Ls [H1 H2] H IH]; split; constructor; tauto. Qed.
Lemma F2_vd_join d ks Ls : Forall (fun k => fudepth k <= d)%nat ks -> Forall2 valid ks Ls -> Forall2 (vd d) ks Ls.
Proof.
  intros H1 H2. revert H1. induction H2 as [|k l ks Ls Hk H IH]; intros H1; constructor; inversion H1; subst; [split; assumption|auto].
Qed.

Lemma flazy_step_valid mk o x : sorted (t_tab mk) -> inrange mk ->
  match fl_pos (fs_st x) with LInst cur => t_tab cur = t_tab mk /\ inrange cur | _ => True end ->
  match fl_pos (fs_st (step (f_cur (flazy (nofail tcur) mk)) o x)) with
  | LInst cur => t_tab cur = t_tab mk /\ inrange cur | _ => True end.
Proof.
  intros Hs Hmk H. destruct x as [[pos opens] er]. cbn [fs_st fl_pos] in H.
  assert (forall o' cur, t_tab cur = t_tab mk /\ inrange cur ->
            t_tab (step tcur o' cur) = t_tab mk /\ inrange (step tcur o' cur)) as Hst.
  { intros o' cur [E R]. destruct (tcur_step_inrange o' cur R) as [R' E']. split; [congruence|exact R']. }
  assert (forall cur dflt r, t_tab cur = t_tab mk /\ inrange cur ->
            match dflt with LInst c0 => t_tab c0 = t_tab mk /\ inrange c0 | _ => True end ->
            match fl_pos (fst (fl_settle (nofail tcur) cur dflt r)) with
            | LInst c0 => t_tab c0 = t_tab mk /\ inrange c0 | _ => True end) as Hset.
  { intros cur dflt r Hc Hd. unfold fl_settle. cbn [nofail f_err f_cur fst fl_pos]. destruct (has_key tcur cur); assumption. }
  destruct o; cbn [step flazy f_cur c_first c_last c_seek c_prev c_next]; unfold fs_lift; cbn [fs_st].
  - exact I.
  - exact I.
  - unfold fl_seek. cbn [fl_pos fl_opens]. destruct pos as [| |cur].
    + destruct opens as [|[|] r]; cbn [fl_open fst fl_pos]; auto;
        (match goal with |- context [fl_settle ?a ?b ?c ?d] => pose proof (Hset b c d) as H'; destruct (fl_settle a b c d) end;
         cbn [fst fs_st] in *; apply H'; [apply (Hst (OSeek k) mk); auto|exact I]).
    + destruct opens as [|[|] r]; cbn [fl_open fst fl_pos]; auto;
        (match goal with |- context [fl_settle ?a ?b ?c ?d] => pose proof (Hset b c d) as H'; destruct (fl_settle a b c d) end;
         cbn [fst fs_st] in *; apply H'; [apply (Hst (OSeek k) mk); auto|exact I]).
    + match goal with |- context [fl_settle ?a ?b ?c ?d] => pose proof (Hset b c d) as H'; destruct (fl_settle a b c d) end.
      cbn [fst fs_st] in *. apply H'; [apply (Hst (OSeek k) cur); auto|exact I].
  - unfold fl_prev. cbn [fl_pos fl_opens]. destruct pos as [| |cur]; [exact I| |].
    + destruct opens as [|[|] r]; cbn [fl_open fst fs_st fl_pos nofail f_err f_cur]; auto;
        (match goal with |- context [fl_settle ?a ?b ?c ?d] => pose proof (Hset b c d) as H'; destruct (fl_settle a b c d) end;
         cbn [fst fs_st] in *; apply H'; [apply (Hst OPrev); apply (Hst OLast mk); auto|exact I]).
    + match goal with |- context [fl_settle ?a ?b ?c ?d] => pose proof (Hset b c d) as H'; destruct (fl_settle a b c d) end.
      cbn [fst fs_st] in *. apply H'; [apply (Hst OPrev cur); auto|exact I].
  - unfold fl_next. cbn [fl_pos fl_opens]. destruct pos as [| |cur]; [|exact I|].
    + destruct opens as [|[|] r]; cbn [fl_open fst fs_st fl_pos nofail f_err f_cur]; auto;
        (match goal with |- context [fl_settle ?a ?b ?c ?d] => pose proof (Hset b c d) as H'; destruct (fl_settle a b c d) end;
         cbn [fst fs_st] in *; apply H'; [apply (Hst ONext); apply (Hst OFirst mk); auto|exact I]).
    + match goal with |- context [fl_settle ?a ?b ?c ?d] => pose proof (Hset b c d) as H'; destruct (fl_settle a b c d) end.
      cbn [fst fs_st] in *. apply H'; [apply (Hst ONext cur); auto|exact I].
Qed.

Lemma fucur_step d o u : step (f_cur (fucur d)) o u =
  fustep1 (match d with O => fstuck | Datatypes.S d' => fucur d' end) o u.
Proof. destruct d; destruct o; reflexivity. Qed.

Lemma ftcur_step_valid o x : inrange (lf_st x) ->
  t_tab (lf_st (step (f_cur ftcur) o x)) = t_tab (lf_st x) /\ inrange (lf_st (step (f_cur ftcur) o x)).
Proof.
  intros Hr. destruct x as [s sched er]. cbn [lf_st] in Hr.
  destruct o; cbn [step ftcur failing f_cur c_first c_last c_seek c_prev c_next]; unfold lf_step; cbn [lf_st lf_sched];
    (destruct sched as [|[|] r]; cbn [lf_st]; [|split; [reflexivity|exact Hr]|]).
  - destruct (tcur_step_inrange OFirst s Hr); auto.
  - destruct (tcur_step_inrange OFirst s Hr); auto.
  - destruct (tcur_step_inrange OLast s Hr); auto.
  - destruct (tcur_step_inrange OLast s Hr); auto.
  - destruct (tcur_step_inrange (OSeek k) s Hr); auto.
  - destruct (tcur_step_inrange (OSeek k) s Hr); auto.
  - destruct (tcur_step_inrange OPrev s Hr); auto.
  - destruct (tcur_step_inrange OPrev s Hr); auto.
  - destruct (tcur_step_inrange ONext s Hr); auto.
  - destruct (tcur_step_inrange ONext s Hr); auto.
Qed.

Theorem valid_step : forall d o u L, vd d u L -> vd d (step (f_cur (fucur d)) o u) L.
Proof.
  induction d as [|d IHd]; intros o u L [Hd Hv]; rewrite fucur_step.
  - (* depth 0: leaves only *)
    destruct u as [x|mk x|x|x|f lo hi x|f t x]; cbn [fudepth] in Hd; try lia; cbn [fustep1]; split; cbn [fudepth]; try lia.
    + cbn [valid] in *. destruct Hv as [-> [Hs Hr]]. destruct (ftcur_step_valid o x Hr) as [E R]. rewrite E. auto.
    + cbn [valid] in *. destruct Hv as [-> [Hs [Hr Hp]]]. split; [reflexivity|split; [exact Hs|split; [exact Hr|now apply flazy_step_valid]]].
  - set (P := fun s l => vd d s l).
    assert (forall o' s l, P s l -> P (step (f_cur (fucur d)) o' s) l) as HP by (intros o' s l H; now apply IHd).
    destruct u as [x|mk x|x|x|f lo hi x|f t x]; cbn [fustep1].
    + split; [cbn; lia|]. cbn [valid] in *. destruct Hv as [-> [Hs Hr]]. destruct (ftcur_step_valid o x Hr) as [E R]. rewrite E. auto.
    + split; [cbn; lia|]. cbn [valid] in *. destruct Hv as [-> [Hs [Hr Hp]]]. split; [reflexivity|split; [exact Hs|split; [exact Hr|now apply flazy_step_valid]]].
    + cbn [fudepth valid] in *. destruct Hv as [Hs [Ls [Hall Hperm]]]. apply valid_all_F2 in Hall.
      assert (Forall2 P (m_kids (fs_st x)) Ls) as HF by (apply F2_vd_join; [apply fold_max_Forall; lia|exact Hall]).
      destruct (fmerging_inv (fucur d) P HP o x Ls HF) as [Ls' [HF' Hp']].
      apply F2_vd_split in HF'. destruct HF' as [Hd' Hv'].
      unfold vd. cbn [fudepth valid]. split; [pose proof (fold_max_bound _ _ Hd'); lia|].
      split; [exact Hs|]. exists Ls'. split; [now apply valid_all_F2|].
      etransitivity; [apply Proofs_Merging.Permutation_concat; exact Hp'|exact Hperm].
    + cbn [fudepth valid] in *. destruct Hv as [Hs [Ls [Hall [-> Hpos]]]]. apply valid_all_F2 in Hall.
      assert (cinv P Ls (fs_st x)) as HC by (split; [apply F2_vd_join; [apply fold_max_Forall; lia|exact Hall]|exact Hpos]).
      pose proof (fconcat_inv (fucur d) P Ls HP o x HC) as [HF' Hpos'].
      apply F2_vd_split in HF'. destruct HF' as [Hd' Hv'].
      unfold vd. cbn [fudepth valid]. split; [pose proof (fold_max_bound _ _ Hd'); lia|].
      split; [exact Hs|]. exists Ls. split; [now apply valid_all_F2|]. split; [reflexivity|exact Hpos'].
    + cbn [fudepth valid] in *. destruct Hv as [L0 [H0 [-> Hf]]].
      pose proof (fbounds_inv (fucur d) f lo hi (fun s => P s L0) (fun o' s H => HP o' s L0 H) o x ltac:(split; [lia|exact H0])) as [Hd' Hv'].
      unfold vd. cbn [fudepth valid fs_st]. split; [lia|]. exists L0. auto.
    + cbn [fudepth valid] in *. destruct Hv as [L0 [H0 [-> Hf]]].
      pose proof (fpruning_inv (fucur d) f t (fun s => P s L0) (fun o' s H => HP o' s L0 H) o x ltac:(split; [lia|exact H0])) as [Hd' Hv'].
      unfold vd. cbn [fudepth valid fs_st]. split; [lia|]. exists L0. auto.
Qed.

(* ---- recovery: a valid healthy state recovers *)
Lemma ucur_unfold' d : ucur d = ucur1 (match d with O => stuck | Datatypes.S d' => ucur d' end).
Proof. destruct d; reflexivity. Qed.

Lemma krec_wrap {St} (child : cursor ust) (comb : cursor St) (U : St -> ust) s L :
  (forall o s', step (ucur1 child) o (U s') = U (step comb o s')) ->
  (forall s' l i, refines comb s' l i -> refines (ucur1 child) (U s') l i) ->
  krec comb s L -> krec (ucur1 child) (U s) L.
Proof. intros Hst Hw Hk o Ho. rewrite Hst. apply Hw. now apply Hk. Qed.

Lemma forallb_Forall_healthy ks : forallb healthy ks = true -> Forall (fun k => healthy k = true) ks.
Proof. intros H. apply Forall_forall. intros k Hk. rewrite forallb_forall in H. now apply H. Qed.

Theorem valid_krec : forall u d L, vd d u L -> healthy u = true -> krec (ucur d) (qu u) L.
Proof.
  induction u as [x|mk x|x IH|x IH|f lo hi x IH|f t x IH] using fust_ind'; intros d L [Hd Hv] Hh; rewrite ucur_unfold';
    cbn [valid fudepth healthy qu] in *.
  - destruct Hv as [-> [Hs Hr]].
    apply (krec_wrap _ tcur UT); [intros [] s'; reflexivity|intros; now apply wrap_UT|].
    destruct (lf_st x) as [tab i]. eapply refines_krec. apply tcur_refines. exact Hr.
  - destruct Hv as [-> [Hs [Hr Hp]]].
    apply (krec_wrap _ (lazy tcur mk) (UL mk)); [intros [] s'; reflexivity|intros; now apply wrap_UL|].
    change (t_tab mk) with (lazy_spec (t_tab mk)). apply (lazy_krec tcur mk (t_tab mk) (t_idx mk)).
    + destruct mk as [tab i]. apply tcur_refines. exact Hr.
    + intros cur E. rewrite E in Hp. destruct Hp as [Et Rc].
      destruct cur as [tab i]. cbn [t_tab] in Et. subst tab. eapply refines_krec. apply tcur_refines. exact Rc.
  - destruct Hv as [Hs [Ls [Hall Hperm]]]. apply valid_all_F2 in Hall. destruct d as [|d]; [lia|].
    apply (krec_wrap _ (merging (ucur d)) UM); [intros [] s'; reflexivity|intros; now apply wrap_UM|].
    apply (merging_krec (ucur d) L Ls); auto.
    + clear -Hall. induction Hall as [|k l ks Ls Hk H IHF]; constructor; [eapply valid_sorted; eauto|exact IHF].
    + cbn [m_kids]. apply forallb_Forall_healthy in Hh.
      assert (Forall (fun k => fudepth k <= d)%nat (m_kids (fs_st x))) as Hd' by (apply fold_max_Forall; lia).
      clear Hperm Hs Hd. rename Hd' into Hd. revert Hh Hd IH. induction Hall as [|k l ks Ls Hk H IHF]; intros Hh Hd IH; cbn [map]; constructor.
      * inversion Hh as [|? ? Hh1 Hh2]; inversion Hd as [|? ? Hd1 Hd2]; inversion IH as [|? ? IH1 IH2]; subst. apply IH1; [split; assumption|assumption].
      * inversion Hh as [|? ? Hh1 Hh2]; inversion Hd as [|? ? Hd1 Hd2]; inversion IH as [|? ? IH1 IH2]; subst. apply IHF; assumption.
  - destruct Hv as [Hs [Ls [Hall [-> Hpos]]]]. apply valid_all_F2 in Hall. destruct d as [|d]; [lia|].
    destruct (k_fail (fs_st x)) eqn:Ef; [discriminate|].
    apply (krec_wrap _ (concat_cursor (ucur d)) UC); [intros [] s'; reflexivity|intros; now apply wrap_UC|].
    apply (concat_krec (ucur d) Ls); cbn [k_fail k_pos k_kids]; auto.
    apply forallb_Forall_healthy in Hh. assert (Forall (fun k => fudepth k <= d)%nat (k_kids (fs_st x))) as Hd' by (apply fold_max_Forall; lia).
    clear Hs Hpos Hd Ef. revert Hh Hd' IH. induction Hall as [|k l ks Ls' Hk H IHF]; intros Hh Hd' IH; cbn [map]; constructor.
    * inversion Hh as [|? ? Hh1 Hh2]; inversion Hd' as [|? ? Hd1 Hd2]; inversion IH as [|? ? IH1 IH2]; subst. apply IH1; [split; assumption|assumption].
    * inversion Hh as [|? ? Hh1 Hh2]; inversion Hd' as [|? ? Hd1 Hd2]; inversion IH as [|? ? IH1 IH2]; subst. apply IHF; assumption.
  - destruct Hv as [L0 [H0 [-> Hf]]]. destruct d as [|d]; [lia|].
    destruct (b_fail (fs_st x)) eqn:Ef; [discriminate|].
    apply (krec_wrap _ (bounds (ucur d) f lo hi) (UB f lo hi)); [intros [] s'; reflexivity|intros; now apply wrap_UB|].
    apply bounds_krec; [eapply valid_sorted; eauto|exact Hf|]. apply IH; [split; [lia|exact H0]|exact Hh].
  - destruct Hv as [L0 [H0 [-> Hf]]]. destruct d as [|d]; [lia|].
    destruct (p_fail (fs_st x)) eqn:Ef; [discriminate|].
    apply (krec_wrap _ (pruning (ucur d) f t) (UP f t)); [intros [] s'; reflexivity|intros; now apply wrap_UP|].
    apply pruning_krec; [eapply valid_sorted; eauto|exact Hf|]. apply IH; [split; [lia|exact H0]|exact Hh].
Qed.

(* ---- construction gives a valid state *)
Lemma erase_depth e : depth (erase e) = fdepth e.
Proof.
  induction e as [l s|l s|es IH|es IH|lo hi e IH|t e IH] using fexpr_ind'; cbn [erase depth fdepth]; auto;
    f_equal; induction IH as [|x r Hx Hr IHr]; cbn; congruence.
Qed.
Lemma erase_size e : size (erase e) = fsize e.
Proof.
  induction e as [l s|l s|es IH|es IH|lo hi e IH|t e IH] using fexpr_ind'; cbn [erase size fsize]; auto;
    induction IH as [|x r Hx Hr IHr]; cbn; congruence.
Qed.

Lemma all_some_F2 {A B} (f : A -> option B) (R : A -> B -> Prop) es kids :
  Forall (fun e => forall u, f e = Some u -> R e u) es -> all_some (map f es) = Some kids -> Forall2 R es kids.
Proof.
  intros HF. revert kids. induction HF as [|e r He HF IH]; intros kids H; cbn in H.
  - injection H as <-. constructor.
  - destruct (f e) as [u|] eqn:Eu; [|discriminate]. destruct (all_some (map f r)) as [r'|] eqn:Er; [|discriminate].
    injection H as <-. constructor; [now apply He|now apply IH].
Qed.

Lemma F2_kids_valid d es kids : Forall2 (fun e0 k => vd d k (spec_of (erase e0))) es kids ->
  Forall2 valid kids (map spec_of (map erase es)) /\ Forall (fun k => fudepth k <= d)%nat kids.
Proof. induction 1 as [|? ? ? ? [? ?] ? [? ?]]; cbn [map]; split; constructor; auto. Qed.

Theorem fubuild_valid e : forall d fuel u, wf (erase e) -> (fdepth e <= d)%nat -> (fsize e + 2 <= fuel)%nat ->
  fubuild d fuel e = Some u -> vd d u (spec_of (erase e)).
Proof.
  induction e as [l s|l s|es IH|es IH|lo hi e IH|t e IH] using fexpr_ind'; intros d fuel u Hw Hd Hf H;
    cbn [fubuild erase spec_of wf fdepth fsize] in *.
  - injection H as <-. split; [cbn; lia|]. unfold lf_new, t_new. cbn [valid lf_st t_tab]. unfold inrange. cbn [t_idx t_tab]. pose proof (len_nonneg l). repeat split; auto; lia.
  - injection H as <-. split; [cbn; lia|]. unfold fl_new, t_new. cbn [valid fs_st fl_pos t_tab]. unfold lazy_spec, inrange. cbn [t_idx t_tab]. pose proof (len_nonneg l). repeat split; auto; lia.
  - destruct Hw as [Hall Hdist]. apply wf_all_Forall in Hall.
    destruct (all_some (map (fubuild (pred d) fuel) es)) as [kids|] eqn:Ek; [|discriminate].
    apply ok_or_none_some in H. destruct H as [-> _]. destruct d as [|d]; [lia|]. cbn [pred] in *.
    assert (Forall2 (fun e0 k => vd d k (spec_of (erase e0))) es kids) as HF.
    { apply (all_some_F2 (fubuild d fuel)); [|exact Ek]. rewrite Forall_forall in *. intros x Hx u' Hu.
      apply (IH x Hx d fuel u'); auto.
      - apply Hall. now apply in_map.
      - pose proof (Proofs_Compose.fold_max_le (map erase es) (erase x) (in_map _ _ _ Hx)). rewrite erase_depth in H.
        assert (fold_right (fun x0 a => Nat.max (depth x0) a) 0%nat (map erase es) = fold_right (fun x0 a => Nat.max (fdepth x0) a) 0%nat es) as E
          by (clear; induction es; cbn; [reflexivity|rewrite erase_depth; congruence]). lia.
      - pose proof (Proofs_Compose.fold_size_le (map erase es) (erase x) (in_map _ _ _ Hx)). rewrite erase_size in H.
        assert (fold_right (fun x0 a => (size x0 + a)%nat) 0%nat (map erase es) = fold_right (fun x0 a => (fsize x0 + a)%nat) 0%nat es) as E
          by (clear; induction es; cbn; [reflexivity|rewrite erase_size; congruence]). lia. }
    change (FUM (fm_new (fucur d) kids)) with (step (f_cur (fucur (Datatypes.S d))) OFirst (FUM (mkFs (mkM true kids) false))).
    apply valid_step. split.
    + cbn [fudepth fs_st m_kids]. destruct (F2_kids_valid _ _ _ HF) as [_ Hdk].
      pose proof (fold_max_bound _ _ Hdk). lia.
    + cbn [valid fs_st m_kids]. split; [now apply Proofs_Spec.merge_spec_sorted|].
      exists (map spec_of (map erase es)). split; [|apply Proofs_Spec.merge_spec_perm].
      apply valid_all_F2. apply (F2_kids_valid _ _ _ HF).
  - destruct Hw as [Hall [Hne Hs]]. apply wf_all_Forall in Hall.
    destruct (all_some (map (fubuild (pred d) fuel) es)) as [kids|] eqn:Ek; [|discriminate].
    apply ok_or_none_some in H. destruct H as [-> _]. destruct d as [|d]; [lia|]. cbn [pred] in *.
    assert (Forall2 (fun e0 k => vd d k (spec_of (erase e0))) es kids) as HF.
    { apply (all_some_F2 (fubuild d fuel)); [|exact Ek]. rewrite Forall_forall in *. intros x Hx u' Hu.
      apply (IH x Hx d fuel u'); auto.
      - apply Hall. now apply in_map.
      - pose proof (Proofs_Compose.fold_max_le (map erase es) (erase x) (in_map _ _ _ Hx)). rewrite erase_depth in H.
        assert (fold_right (fun x0 a => Nat.max (depth x0) a) 0%nat (map erase es) = fold_right (fun x0 a => Nat.max (fdepth x0) a) 0%nat es) as E
          by (clear; induction es; cbn; [reflexivity|rewrite erase_depth; congruence]). lia.
      - pose proof (Proofs_Compose.fold_size_le (map erase es) (erase x) (in_map _ _ _ Hx)). rewrite erase_size in H.
        assert (fold_right (fun x0 a => (size x0 + a)%nat) 0%nat (map erase es) = fold_right (fun x0 a => (fsize x0 + a)%nat) 0%nat es) as E
          by (clear; induction es; cbn; [reflexivity|rewrite erase_size; congruence]). lia. }
    destruct kids as [|k0 kr]; [inversion HF; subst; cbn in Hne; congruence|].
    change (FUC (fk_new (fucur d) (k0 :: kr))) with (step (f_cur (fucur (Datatypes.S d))) OFirst (FUC (mkFs (mkK (k0 :: kr) 0 None) false))).
    apply valid_step. split.
    + destruct (F2_kids_valid _ _ _ HF) as [_ Hdk]. pose proof (fold_max_bound _ _ Hdk). cbn [fudepth fs_st k_kids]. lia.
    + cbn [valid fs_st k_kids k_pos]. unfold concat_spec. split; [exact Hs|].
      exists (map spec_of (map erase es)). split; [|split; [reflexivity|]].
      * apply (proj2 (valid_all_F2 (k0 :: kr) (map spec_of (map erase es)))). apply (F2_kids_valid _ _ _ HF).
      * rewrite !map_length. assert (length es = length (k0 :: kr)) as E by (clear -HF; induction HF; cbn; congruence). rewrite E. cbn. lia.
  - destruct (fubuild (pred d) fuel e) as [kid|] eqn:Ek; [|discriminate].
    apply ok_or_none_some in H. destruct H as [-> _]. destruct d as [|d]; [lia|]. cbn [pred] in *.
    pose proof (IH d fuel kid Hw ltac:(lia) ltac:(lia) Ek) as [Hdk Hvk].
    change (FUB fuel lo hi (fb_new (fucur d) lo hi kid)) with (step (f_cur (fucur (Datatypes.S d))) OFirst (FUB fuel lo hi (mkFs (mkB kid BeforeStart None) false))).
    apply valid_step. split; [cbn [fudepth fs_st b_cur]; lia|]. cbn [valid fs_st b_cur].
    exists (spec_of (erase e)). split; [exact Hvk|]. split; [reflexivity|].
    pose proof (spec_size (erase e)). rewrite erase_size in H. unfold len. lia.
  - destruct (fubuild (pred d) fuel e) as [kid|] eqn:Ek; [|discriminate].
    apply ok_or_none_some in H. destruct H as [-> _]. destruct d as [|d]; [lia|]. cbn [pred] in *.
    pose proof (IH d fuel kid Hw ltac:(lia) ltac:(lia) Ek) as [Hdk Hvk].
    change (FUP fuel t (fp_new (fucur d) kid)) with (step (f_cur (fucur (Datatypes.S d))) OFirst (FUP fuel t (mkFs (mkP kid None None) false))).
    apply valid_step. split; [cbn [fudepth fs_st p_cur]; lia|]. cbn [valid fs_st p_cur].
    exists (spec_of (erase e)). split; [exact Hvk|]. split; [reflexivity|].
    pose proof (spec_size (erase e)). rewrite erase_size in H. unfold len. lia.
Qed.

(* ---- the theorems for arbitrary nestings over failing leaves *)
Section TreeTheorems.
Variable e : fexpr.
Hypothesis Hwf : wf (erase e).
Variable u : fust.
Hypothesis Hbuild : fubuild (fdepth e) (fsize e + 2) e = Some u.
Let d := fdepth e.
Let L := spec_of (erase e).

Lemma tree_initial : refines (ucur d) (qu u) L (-1).
Proof.
  unfold d, L. rewrite (fubuild_erase e _ _ u Hbuild).
  apply compose_refines; [exact Hwf|rewrite erase_depth; lia|rewrite erase_size; lia].
Qed.

(* (a) every Err a run reports is exactly one scheduled failure consumed *)
Theorem tree_accounting prog :
  (mu (fafter (fucur d) prog u) + count_err (frun (fucur d) prog u) = mu u)%nat.
Proof. apply (twin_accounting (fucur d) (ucur d) qu mu (fucur_twin d)). Qed.

(* (b) up to the first Err every observation is the reference cursor's *)
Theorem tree_clean prog : fclean (fucur d) L prog u (-1).
Proof. apply (twin_clean (fucur d) (ucur d) qu mu (fucur_twin d)). exact tree_initial. Qed.

(* (c) and after an Err, from the next successful seek / seek_to_first / seek_to_last on, again *)
Theorem tree_recovers prog : fmatchh (fucur d) healthy L prog u (Some (-1)).
Proof.
  apply (twin_recovers_h (fucur d) (ucur d) qu mu (fucur_twin d) (fun s => vd d s L) L).
  - intros o s H. now apply valid_step.
  - intros o s H Hh Ho. exact (valid_krec s d L H Hh o Ho).
  - unfold d, L. apply (fubuild_valid e (fdepth e) (fsize e + 2) u Hwf); [lia|lia|exact Hbuild].
  - discriminate.
  - intros i Hi. injection Hi as <-. exact tree_initial.
Qed.
End TreeTheorems.
