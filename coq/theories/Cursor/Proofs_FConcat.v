(* Cursor/Proofs_FConcat.v — ConcatenatingCursor over fallible children: twin of Concat.v's model. *)
From Coq Require Import NArith ZArith Arith List Bool Lia.
From Blue Require Import Cursor.Iface Cursor.Ref Cursor.Concat Cursor.Fallible Cursor.FConcat
  Cursor.Proofs_Ref Cursor.Proofs_Concat Cursor.Proofs_Heap Cursor.Proofs_Fallible Cursor.Proofs_FMerging.
Import ListNotations.

Section FConcatTwin.
Context {S Sq : Type} (fc : fcursor S) (cq : cursor Sq) (q : S -> Sq) (m : S -> nat).
Hypothesis Htw : twin fc cq q m.
Local Notation c := (f_cur fc).
Local Notation e := (f_err fc).

Definition kmap (st : kstate S) : kstate Sq := mkK (map q (k_kids st)) (k_pos st) (k_fail st).
Definition qk (x : fs (kstate S)) : kstate Sq := kmap (fs_st x).
Definition mk_ (x : fs (kstate S)) : nat := msum m (k_kids (fs_st x)).

(* the fallible r corresponds to the total state tq *)
Definition rel (r : kstate S * bool) (tq : kstate Sq) (before : kstate S) : Prop :=
  (snd r = false -> kmap (fst r) = tq) /\ (msum m (k_kids (fst r)) + b2n (snd r) = msum m (k_kids before))%nat.

Definition kagrees (f : kstate S -> kstate S * bool) (g : kstate Sq -> kstate Sq) : Prop :=
  forall st, rel (f st) (g (kmap st)) st.

Ltac mlia := unfold k_set_fail; cbn [fst snd k_kids k_pos k_fail b2n] in *; lia.

Lemma cur_kv_q st : cur_kv c st = cur_kv cq (kmap st).
Proof.
  unfold cur_kv, kmap. cbn [k_kids k_pos]. rewrite nth_error_map.
  destruct (nth_error (k_kids st) (k_pos st)); cbn; [apply (tw_kv _ _ _ _ Htw)|reflexivity].
Qed.
Lemma cur_has_key_q st : cur_has_key c st = cur_has_key cq (kmap st).
Proof. unfold cur_has_key. now rewrite cur_kv_q. Qed.

Lemma msum_upd (l : list S) i (f : S -> S) a : nth_error l i = Some a ->
  (msum m (upd l i f) + m a = msum m l + m (f a))%nat.
Proof.
  revert i. induction l as [|x l IH]; intros [|i] H; cbn in H; try discriminate.
  - injection H as ->. unfold msum. cbn [upd fold_right]. lia.
  - specialize (IH _ H). unfold msum in *. cbn [upd fold_right]. lia.
Qed.

Lemma on_cur_kagrees o : kagrees (fon_cur fc (step c o)) (on_cur (step cq o)).
Proof.
  intros st. unfold fon_cur, on_cur, rel. unfold kmap at 2 3 4 5. cbn [k_kids k_pos k_fail]. rewrite map_length.
  destruct (Nat.ltb_spec (k_pos st) (length (k_kids st))) as [Hlt|Hge]; cbn [fst snd].
  - destruct (nth_error (k_kids st) (k_pos st)) as [a|] eqn:Ea; [|apply nth_error_None in Ea; lia].
    rewrite (upd_nth_same _ _ _ _ Ea). destruct (tw_step _ _ _ _ Htw o a) as [H1 H2].
    pose proof (msum_upd _ _ (step c o) _ Ea) as Hs. split.
    + intros He. unfold kmap. cbn [k_kids k_pos k_fail]. f_equal.
      clear Hs H2. revert Ea. generalize (k_pos st) as i. generalize (k_kids st) as l.
      induction l as [|x l IH]; intros [|i] Ea; cbn in Ea; try discriminate.
      * injection Ea as ->. cbn [upd map]. now rewrite (H1 He).
      * cbn [upd map]. f_equal. now apply IH.
    + cbn [k_kids]. lia.
  - split; [reflexivity|unfold k_set_fail; cbn [fst snd k_kids b2n]; lia].
Qed.

Lemma kseq_rel r tq before k kt :
  rel r tq before -> (forall st, rel (k st) (kt (kmap st)) st) ->
  rel (kseq r k) (kt tq) before.
Proof.
  intros [R1 R2] Hk. unfold kseq. destruct r as [st [|]]; cbn [fst snd b2n] in *.
  - split; [discriminate|exact R2].
  - destruct (Hk st) as [K1 K2]. rewrite <- (R1 eq_refl). split; [exact K1|lia].
Qed.

Lemma kguard_kagrees f g : kagrees f g -> kagrees (fk_guard f) (k_guard g).
Proof.
  intros H st. unfold fk_guard, k_guard. change (k_fail (kmap st)) with (k_fail st). destruct (k_fail st).
  - split; [reflexivity|mlia].
  - apply H.
Qed.

Lemma ret_rel st : rel (st, false) (kmap st) st.
Proof. split; [reflexivity|mlia]. Qed.

Lemma reposition_kagrees idx : kagrees (freposition fc idx) (reposition cq idx).
Proof.
  intros st. unfold freposition, reposition. change (k_kids (kmap st)) with (map q (k_kids st)).
  change (k_pos (kmap st)) with (k_pos st). rewrite map_length.
  destruct (k_kids st) as [|s0 r] eqn:Ek; cbn [map]; [split; [reflexivity|mlia]|].
  rewrite <- Ek. destruct (negb (k_pos st =? idx)); [|apply ret_rel].
  destruct (Nat.ltb_spec (k_pos st) (length (k_kids st))).
  - refine (kseq_rel _ _ st _ (fun st1 => mkK (k_kids st1) idx (k_fail st1)) (on_cur_kagrees OFirst st) _).
    intros st1. split; [reflexivity|mlia].
  - refine (kseq_rel _ _ st _ (fun st1 => mkK (k_kids st1) idx (k_fail st1)) (ret_rel st) _).
    intros st1. split; [reflexivity|mlia].
Qed.

Lemma first_kagrees : kagrees (fk_first_raw fc) (k_first_raw cq).
Proof.
  intros st. unfold fk_first_raw, k_first_raw.
  exact (kseq_rel _ _ st _ _ (reposition_kagrees 0 st) (kguard_kagrees _ _ (on_cur_kagrees OFirst))).
Qed.

Lemma last_kagrees : kagrees (fk_last_raw fc) (k_last_raw cq).
Proof.
  intros st. unfold fk_last_raw, k_last_raw. change (k_kids (kmap st)) with (map q (k_kids st)). rewrite map_length.
  destruct (k_kids st) as [|s0 r] eqn:Ek; cbn [map]; [split; [reflexivity|mlia]|].
  rewrite <- Ek.
  exact (kseq_rel _ _ st _ _ (reposition_kagrees _ st) (kguard_kagrees _ _ (on_cur_kagrees OLast))).
Qed.

Lemma probe_kagrees mid : kagrees (fprobe fc mid) (probe cq mid).
Proof.
  intros st. unfold fprobe, probe.
  apply (kseq_rel _ _ st _ (k_guard (on_cur (c_prev cq)))); [|exact (kguard_kagrees _ _ (on_cur_kagrees OPrev))].
  exact (kseq_rel _ _ st _ _ (reposition_kagrees mid st) (kguard_kagrees _ _ (on_cur_kagrees OLast))).
Qed.

Lemma rel_trans r tq mid before : rel r tq mid -> msum m (k_kids mid) = msum m (k_kids before) -> rel r tq before.
Proof. intros [H1 H2] E. split; [exact H1|lia]. Qed.

Lemma probe_left_agrees : forall mid lft st,
  let '(m', st', er) := fprobe_left fc mid lft st in
  (er = false -> (m', kmap st') = probe_left cq mid lft (kmap st)) /\
  (msum m (k_kids st') + b2n er = msum m (k_kids st))%nat.
Proof.
  induction mid as [|mid IH]; intros lft st; cbn [fprobe_left probe_left]; [split; [reflexivity|mlia]|].
  rewrite <- cur_has_key_q. destruct ((lft <? Datatypes.S mid)%nat && negb (cur_has_key c st)); [|split; [reflexivity|mlia]].
  destruct (probe_kagrees mid st) as [P1 P2]. destruct (fprobe fc mid st) as [st1 [|]]; cbn [fst snd b2n] in *.
  - split; [discriminate|exact P2].
  - specialize (IH lft st1). destruct (fprobe_left fc mid lft st1) as [[m' st'] er].
    destruct IH as [I1 I2]. rewrite <- (P1 eq_refl). split; [exact I1|lia].
Qed.

Lemma bsearch_agrees k : forall n lft rgt st,
  let '(l', st', er) := fbsearch fc n k lft rgt st in
  (er = false -> (l', kmap st') = bsearch cq n k lft rgt (kmap st)) /\
  (msum m (k_kids st') + b2n er = msum m (k_kids st))%nat.
Proof.
  induction n as [|n IH]; intros lft rgt st; cbn [fbsearch bsearch];
    (destruct (lft <? rgt)%nat; [|split; [reflexivity|mlia]]); [split; [reflexivity|mlia]|].
  destruct (probe_kagrees (Nat.div (lft + rgt) 2) st) as [P1 P2].
  destruct (fprobe fc (Nat.div (lft + rgt) 2) st) as [st1 [|]]; cbn [fst snd b2n] in *.
  - split; [discriminate|exact P2].
  - rewrite <- (P1 eq_refl). pose proof (probe_left_agrees (Nat.div (lft + rgt) 2) lft st1) as PL.
    destruct (fprobe_left fc (Nat.div (lft + rgt) 2) lft st1) as [[m' st2] [|]].
    + destruct PL as [_ PL2]. split; [discriminate|cbn [b2n] in *; lia].
    + destruct PL as [PL1 PL2]. rewrite <- (PL1 eq_refl). rewrite <- cur_kv_q.
      destruct (cur_kv c st2) as [last|].
      * destruct (negb (kltb (ek last) k)).
        -- specialize (IH lft m' st2). destruct (fbsearch fc n k lft m' st2) as [[l' st'] er].
           destruct IH as [I1 I2]. split; [exact I1|cbn [b2n] in *; lia].
        -- specialize (IH (m' + 1)%nat rgt st2). destruct (fbsearch fc n k (m' + 1) rgt st2) as [[l' st'] er].
           destruct IH as [I1 I2]. split; [exact I1|cbn [b2n] in *; lia].
      * specialize (IH (m' + 1)%nat rgt st2). destruct (fbsearch fc n k (m' + 1) rgt st2) as [[l' st'] er].
        destruct IH as [I1 I2]. split; [exact I1|cbn [b2n] in *; lia].
Qed.

Lemma seek_kagrees k : kagrees (fk_seek_raw fc k) (k_seek_raw cq k).
Proof.
  intros st. unfold fk_seek_raw, k_seek_raw. change (k_kids (kmap st)) with (map q (k_kids st)). rewrite map_length.
  destruct (k_kids st) as [|s0 r] eqn:Ek; cbn [map]; [split; [reflexivity|mlia]|].
  rewrite <- Ek. pose proof (bsearch_agrees k (length (k_kids st)) 0 (length (k_kids st) - 1) st) as B.
  destruct (fbsearch fc (length (k_kids st)) k 0 (length (k_kids st) - 1) st) as [[l' st1] [|]].
  - destruct B as [_ B2]. split; [discriminate|exact B2].
  - destruct B as [B1 B2]. rewrite <- (B1 eq_refl).
    apply (rel_trans _ _ st1); [|cbn [b2n] in B2; lia].
    exact (kseq_rel _ _ st1 _ _ (kguard_kagrees _ _ (reposition_kagrees l') st1) (kguard_kagrees _ _ (on_cur_kagrees (OSeek k)))).
Qed.

Lemma prev_loop_kagrees : forall n, kagrees (fk_prev_loop fc n) (k_prev_loop cq n).
Proof.
  induction n as [|n IH]; intros st; cbn [fk_prev_loop k_prev_loop]; [split; [reflexivity|mlia]|].
  refine (kseq_rel _ _ st _ (fun tq => match k_fail tq with Some _ => tq | None =>
            if negb (cur_has_key cq tq) && (0 <? k_pos tq)%nat
            then k_prev_loop cq n (k_guard (on_cur (c_last cq)) (reposition cq (k_pos tq - 1) tq)) else tq end)
          (on_cur_kagrees OPrev st) _).
  intros st1. unfold fk_guard. change (k_fail (kmap st1)) with (k_fail st1). destruct (k_fail st1); [apply ret_rel|].
  rewrite <- cur_has_key_q. change (k_pos (kmap st1)) with (k_pos st1).
  destruct (negb (cur_has_key c st1) && (0 <? k_pos st1)%nat); [|apply ret_rel].
  apply (kseq_rel _ _ st1 _ (k_prev_loop cq n)); [|exact IH].
  exact (kseq_rel _ _ st1 _ _ (reposition_kagrees _ st1) (kguard_kagrees _ _ (on_cur_kagrees OLast))).
Qed.

Lemma next_loop_kagrees : forall n, kagrees (fk_next_loop fc n) (k_next_loop cq n).
Proof.
  induction n as [|n IH]; intros st; cbn [fk_next_loop k_next_loop]; [split; [reflexivity|mlia]|].
  refine (kseq_rel _ _ st _ (fun tq => match k_fail tq with Some _ => tq | None =>
            if negb (cur_has_key cq tq) && (k_pos tq + 1 <? length (k_kids tq))%nat
            then k_next_loop cq n (k_guard (on_cur (c_first cq)) (reposition cq (k_pos tq + 1) tq)) else tq end)
          (on_cur_kagrees ONext st) _).
  intros st1. unfold fk_guard. change (k_fail (kmap st1)) with (k_fail st1). destruct (k_fail st1); [apply ret_rel|].
  rewrite <- cur_has_key_q. change (k_pos (kmap st1)) with (k_pos st1).
  change (k_kids (kmap st1)) with (map q (k_kids st1)). rewrite map_length.
  destruct (negb (cur_has_key c st1) && (k_pos st1 + 1 <? length (k_kids st1))%nat); [|apply ret_rel].
  apply (kseq_rel _ _ st1 _ (k_next_loop cq n)); [|exact IH].
  exact (kseq_rel _ _ st1 _ _ (reposition_kagrees _ st1) (kguard_kagrees _ _ (on_cur_kagrees OFirst))).
Qed.

Theorem fconcat_twin : twin (fconcat fc) (concat_cursor cq) qk mk_.
Proof.
  constructor.
  - intros x. apply cur_kv_q.
  - reflexivity.
  - intros o [st er]. unfold qk, mk_.
    assert (forall f g, kagrees f g ->
              (fs_err (fs_lift f (mkFs st er)) = false -> kmap (fs_st (fs_lift f (mkFs st er))) = g (kmap st)) /\
              (msum m (k_kids (fs_st (fs_lift f (mkFs st er)))) + b2n (fs_err (fs_lift f (mkFs st er))) = msum m (k_kids st))%nat) as Hl.
    { intros f g H. unfold fs_lift. cbn [fs_st]. destruct (H st) as [H1 H2]. destruct (f st) as [st' er']. exact (conj H1 H2). }
    destruct o; cbn [step fconcat concat_cursor f_cur f_err c_first c_last c_seek c_prev c_next fs_st].
    + apply Hl, kguard_kagrees, first_kagrees.
    + apply Hl, kguard_kagrees, last_kagrees.
    + apply Hl, kguard_kagrees, seek_kagrees.
    + apply Hl, kguard_kagrees. intros st0. unfold fk_prev_raw, k_prev_raw.
      change (k_kids (kmap st0)) with (map q (k_kids st0)). rewrite map_length. apply prev_loop_kagrees.
    + apply Hl, kguard_kagrees. intros st0. unfold fk_next_raw, k_next_raw.
      change (k_kids (kmap st0)) with (map q (k_kids st0)). rewrite map_length. apply next_loop_kagrees.
Qed.
End FConcatTwin.

(* ---- whatever the calls do, Err or not, every child only moves by its own calls, stays in its
   place, and `position` stays inside the vector (used for recovery after an Err) *)
Section FConcatInv.
Context {S : Type} (fc : fcursor S).
Local Notation c := (f_cur fc).
Context {T : Type} (P : S -> T -> Prop) (ts : list T).
Hypothesis HP : forall o s t, P s t -> P (step c o s) t.

Definition cinv (st : kstate S) : Prop := Forall2 P (k_kids st) ts /\ (k_pos st < length ts)%nat.

Lemma F2_len (kids : list S) : Forall2 P kids ts -> length kids = length ts.
Proof. intros H. induction H; cbn; congruence. Qed.

Lemma F2_upd kids i o : Forall2 P kids ts -> Forall2 P (upd kids i (step c o)) ts.
Proof.
  intros H. revert i. induction H as [|s t kids ts' Hs H IH]; intros [|i]; cbn [upd]; constructor; auto.
Qed.

Lemma on_cur_cinv o st : cinv st -> cinv (fst (fon_cur fc (step c o) st)).
Proof.
  intros [H1 H2]. unfold fon_cur. destruct (k_pos st <? length (k_kids st))%nat; cbn [fst k_kids k_pos k_set_fail].
  - split; [now apply F2_upd|exact H2].
  - split; assumption.
Qed.

Lemma kseq_cinv r k : cinv (fst r) -> (forall st, cinv st -> cinv (fst (k st))) -> cinv (fst (kseq r k)).
Proof. intros Hr Hk. unfold kseq. destruct r as [st [|]]; cbn [fst] in *; [exact Hr|now apply Hk]. Qed.

Lemma guard_cinv f : (forall st, cinv st -> cinv (fst (f st))) -> forall st, cinv st -> cinv (fst (fk_guard f st)).
Proof. intros Hf st H. unfold fk_guard. destruct (k_fail st); [exact H|now apply Hf]. Qed.

Lemma reposition_cinv idx st : (idx < length ts)%nat -> cinv st -> cinv (fst (freposition fc idx st)).
Proof.
  intros Hi H. unfold freposition. destruct (k_kids st) eqn:Ek; [exact H|]. rewrite <- Ek.
  destruct (negb (k_pos st =? idx)%nat); [|exact H].
  apply kseq_cinv.
  - destruct (k_pos st <? length (k_kids st))%nat; [exact (on_cur_cinv OFirst st H)|exact H].
  - intros st1 [H1 H2]. cbn [fst k_kids k_pos]. split; assumption.
Qed.

Lemma probe_cinv mid st : (mid < length ts)%nat -> cinv st -> cinv (fst (fprobe fc mid st)).
Proof.
  intros Hm H. unfold fprobe. apply kseq_cinv; [apply kseq_cinv|].
  - now apply reposition_cinv.
  - apply guard_cinv. intros st1. exact (on_cur_cinv OLast st1).
  - apply guard_cinv. intros st1. exact (on_cur_cinv OPrev st1).
Qed.

Lemma probe_left_cinv : forall mid lft st, (lft <= mid < length ts)%nat -> cinv st ->
  cinv (snd (fst (fprobe_left fc mid lft st))) /\ (lft <= fst (fst (fprobe_left fc mid lft st)) <= mid)%nat.
Proof.
  induction mid as [|mid IH]; intros lft st Hm H; cbn [fprobe_left]; [cbn; split; [exact H|lia]|].
  destruct (Nat.ltb_spec lft (Datatypes.S mid)) as [Hlt|Hge]; cbn [andb]; [|cbn; split; [exact H|lia]].
  destruct (negb (cur_has_key c st)); [|cbn; split; [exact H|lia]].
  pose proof (probe_cinv mid st ltac:(lia) H) as H1. destruct (fprobe fc mid st) as [st' [|]]; cbn [fst snd] in *; [split; [exact H1|lia]|].
  destruct (IH lft st' ltac:(lia) H1) as [I1 I2]. split; [exact I1|lia].
Qed.

Lemma bsearch_cinv k : forall n lft rgt st, (lft <= rgt < length ts)%nat -> cinv st ->
  cinv (snd (fst (fbsearch fc n k lft rgt st))) /\ (fst (fst (fbsearch fc n k lft rgt st)) <= rgt)%nat.
Proof.
  induction n as [|n IH]; intros lft rgt st Hr H; cbn [fbsearch];
    (destruct (Nat.ltb_spec lft rgt); [|cbn; split; [exact H|lia]]); [cbn; split; [exact H|lia]|].
  assert (lft <= Nat.div (lft + rgt) 2 < rgt)%nat as Hmid.
  { pose proof (Nat.div_mod (lft + rgt) 2 ltac:(lia)). pose proof (Nat.mod_upper_bound (lft + rgt) 2 ltac:(lia)). lia. }
  pose proof (probe_cinv (Nat.div (lft + rgt) 2) st ltac:(lia) H) as H1.
  destruct (fprobe fc (Nat.div (lft + rgt) 2) st) as [st1 [|]]; cbn [fst snd] in *; [split; [exact H1|lia]|].
  pose proof (probe_left_cinv (Nat.div (lft + rgt) 2) lft st1 ltac:(lia) H1) as [H2 H3].
  destruct (fprobe_left fc (Nat.div (lft + rgt) 2) lft st1) as [[m' st2] [|]]; cbn [fst snd] in *; [split; [exact H2|lia]|].
  destruct (cur_kv c st2) as [last|].
  - destruct (negb (kltb (ek last) k)).
    + destruct (IH lft m' st2 ltac:(lia) H2) as [I1 I2]. split; [exact I1|lia].
    + destruct (IH (m' + 1)%nat rgt st2 ltac:(lia) H2) as [I1 I2]. split; [exact I1|lia].
  - destruct (IH (m' + 1)%nat rgt st2 ltac:(lia) H2) as [I1 I2]. split; [exact I1|lia].
Qed.

Lemma seek_cinv k st : cinv st -> cinv (fst (fk_seek_raw fc k st)).
Proof.
  intros H. pose proof H as [H1 H2]. pose proof (F2_len _ H1) as Hl. unfold fk_seek_raw.
  destruct (k_kids st) eqn:Ek; [exact H|]. rewrite <- Ek.
  assert (length (k_kids st) = length ts) as Hl' by (rewrite Ek; exact Hl).
  assert (0 < length ts)%nat as Hpos by (rewrite <- Hl; cbn; lia).
  pose proof (bsearch_cinv k (length (k_kids st)) 0 (length (k_kids st) - 1) st ltac:(lia) H) as [B1 B2].
  destruct (fbsearch fc (length (k_kids st)) k 0 (length (k_kids st) - 1) st) as [[l' st1] [|]]; cbn [fst snd] in *; [exact B1|].
  apply kseq_cinv.
  - apply guard_cinv; [|exact B1]. intros st2. apply reposition_cinv. lia.
  - apply guard_cinv. intros st2. exact (on_cur_cinv (OSeek k) st2).
Qed.

Lemma prev_loop_cinv : forall n st, cinv st -> cinv (fst (fk_prev_loop fc n st)).
Proof.
  induction n as [|n IH]; intros st H; cbn [fk_prev_loop]; [exact H|].
  apply kseq_cinv; [exact (on_cur_cinv OPrev st H)|]. apply guard_cinv. intros st1 H1.
  destruct (negb (cur_has_key c st1) && (0 <? k_pos st1)%nat); [|exact H1].
  apply kseq_cinv; [|exact IH]. apply kseq_cinv.
  - apply reposition_cinv; [destruct H1; lia|exact H1].
  - apply guard_cinv. intros st2. exact (on_cur_cinv OLast st2).
Qed.

Lemma next_loop_cinv : forall n st, cinv st -> cinv (fst (fk_next_loop fc n st)).
Proof.
  induction n as [|n IH]; intros st H; cbn [fk_next_loop]; [exact H|].
  apply kseq_cinv; [exact (on_cur_cinv ONext st H)|]. apply guard_cinv. intros st1 H1.
  destruct (Nat.ltb_spec (k_pos st1 + 1) (length (k_kids st1))) as [Hlt|Hge]; rewrite ?andb_false_r; [|exact H1].
  destruct (negb (cur_has_key c st1)); cbn [andb]; [|exact H1].
  apply kseq_cinv; [|exact IH]. apply kseq_cinv.
  - apply reposition_cinv; [destruct H1 as [H1 _]; rewrite <- (F2_len _ H1); lia|exact H1].
  - apply guard_cinv. intros st2. exact (on_cur_cinv OFirst st2).
Qed.

Theorem fconcat_inv o x : cinv (fs_st x) -> cinv (fs_st (step (f_cur (fconcat fc)) o x)).
Proof.
  intros H. destruct x as [st er]. cbn [fs_st] in H.
  assert (forall f, (forall st0, cinv st0 -> cinv (fst (f st0))) -> cinv (fs_st (fs_lift (fk_guard f) (mkFs st er)))) as Hl.
  { intros f Hf. unfold fs_lift. cbn [fs_st]. pose proof (guard_cinv f Hf st H) as H'. destruct (fk_guard f st). exact H'. }
  pose proof H as [H1 H2]. pose proof (F2_len _ H1) as Hlen.
  destruct o; cbn [step fconcat f_cur c_first c_last c_seek c_prev c_next]; apply Hl.
  - intros st0 H0. unfold fk_first_raw. apply kseq_cinv; [apply reposition_cinv; [lia|exact H0]|].
    apply guard_cinv. intros st2. exact (on_cur_cinv OFirst st2).
  - intros st0 H0. unfold fk_last_raw. destruct (k_kids st0) eqn:Ek; [exact H0|]. rewrite <- Ek.
    apply kseq_cinv; [apply reposition_cinv; [destruct H0 as [H0 _]; rewrite <- (F2_len _ H0); rewrite Ek; cbn; lia|exact H0]|].
    apply guard_cinv. intros st2. exact (on_cur_cinv OLast st2).
  - apply seek_cinv.
  - intros st0 H0. apply prev_loop_cinv. exact H0.
  - intros st0 H0. apply next_loop_cinv. exact H0.
Qed.
End FConcatInv.
