(* Cursor/Proofs_Recover.v — recovery after an Err.  A call that returned Err leaves a combinator
   "dirty": next / prev may then return anything.  But seek / seek_to_first / seek_to_last
   re-position every child they use absolutely, so from ANY state whose children recover
   (`krec`: their own absolute calls make them reference cursors again) the combinator's absolute
   calls make it a reference cursor over its specification again.  With the twin lemmas this
   gives, for each combinator over failing children, the full statement: every Err is reported,
   everything before the first Err equals the reference, and after an Err everything from the
   next successful seek* on equals the reference again. *)
From Coq Require Import NArith ZArith Arith List Bool Lia Permutation.
From Blue Require Import Cursor.Iface Cursor.Ref Cursor.Lazy Cursor.Bounds Cursor.Pruning
  Cursor.Concat Cursor.Merging Cursor.Spec Cursor.Fallible Cursor.FBounds Cursor.FPruning
  Cursor.FConcat Cursor.FMerging Cursor.FLazy
  Cursor.Proofs_Order Cursor.Proofs_Ref Cursor.Proofs_Lazy Cursor.Proofs_Bounds Cursor.Proofs_Pruning
  Cursor.Proofs_Concat Cursor.Proofs_Merging Cursor.Proofs_Fallible Cursor.Proofs_FBounds
  Cursor.Proofs_FPruning Cursor.Proofs_FConcat Cursor.Proofs_FMerging Cursor.Proofs_FLazy.
Import ListNotations.
Local Open Scope Z_scope.

(* ---------------------------------------------------------------- bounds *)
Lemma bounds_krec {S} (c : cursor S) fuel lo hi l cur pos :
  sorted l -> Z.of_nat fuel >= len l + 2 -> krec c cur l ->
  krec (bounds c fuel lo hi) (mkB cur pos None) (bounds_spec lo hi l).
Proof.
  intros Hs Hf Hk o Ho. apply (sim_refines _ _ _ (bounds_sim c fuel lo hi l Hs Hf)).
  destruct o; try discriminate; cbn [step bounds c_first c_last c_seek ref]; unfold b_guard; cbn [b_fail].
  - eapply Proofs_Bounds.first_R'; try exact fuel; try exact Hs; try exact Hf; try exact (Hk OFirst eq_refl); try (intros k0; exact (Hk (OSeek k0) eq_refl)).
  - eapply Proofs_Bounds.last_R'; try exact Hs; try exact Hf; try exact (Hk OLast eq_refl); try (intros k0; exact (Hk (OSeek k0) eq_refl)).
  - eapply Proofs_Bounds.seek_R'; try exact Hs; try exact Hf; try exact (Hk (OSeek k) eq_refl).
Qed.

(* ---------------------------------------------------------------- pruning *)
Lemma pruning_krec {S} (c : cursor S) fuel t l cur sk :
  sorted l -> Z.of_nat fuel >= len l + 2 -> krec c cur l ->
  krec (pruning c fuel t) (mkP cur sk None) (prune_spec t l).
Proof.
  intros Hs Hf Hk o Ho. apply (sim_refines _ _ _ (pruning_sim c fuel t l Hs Hf)).
  destruct o; try discriminate; cbn [step pruning c_first c_last c_seek ref]; unfold p_guard; cbn [p_fail].
  - unfold p_first_raw. cbn [p_cur p_fail]. split; [reflexivity|]. exists (-1). split; [exact (Hk OFirst eq_refl)|]. left. auto.
  - unfold p_last_raw. cbn [p_cur p_fail]. split; [reflexivity|]. exists (len l). split; [exact (Hk OLast eq_refl)|]. right. right. auto.
  - eapply Proofs_Pruning.seek_R'; try exact Hs; try exact Hf; try exact (Hk (OSeek k) eq_refl).
Qed.

(* ---------------------------------------------------------------- lazy *)
Lemma lazy_krec {S} (c : cursor S) mk l i0 p :
  refines c mk l i0 -> (forall cur, p = LInst cur -> krec c cur l) -> krec (lazy c mk) p (lazy_spec l).
Proof.
  intros Hmk Hp o Ho. unfold lazy_spec. apply (sim_refines _ _ _ (lazy_sim c mk l i0 Hmk)).
  destruct o; try discriminate; cbn [step lazy c_first c_last c_seek ref]; try reflexivity.
  unfold l_seek. pose proof (count_range (below k) l).
  assert (refines c (c_seek c k (l_cursor mk p)) l (count (below k) l)) as Hs.
  { destruct p as [| |cur]; cbn [l_cursor].
    - apply (refines_seek c _ _ _ k Hmk).
    - apply (refines_seek c _ _ _ k Hmk).
    - exact (Hp cur eq_refl (OSeek k) eq_refl). }
  unfold lazy_spec. apply lazy_R_settle; [exact Hs|]. cbn. lia.
Qed.

(* ---------------------------------------------------------------- merging *)
Lemma merging_krec {S} (c : cursor S) L (tabs : list (list entry)) st :
  sorted L -> Permutation (concat tabs) L -> Forall sorted tabs ->
  Forall2 (fun s li => krec c s li) (m_kids st) tabs ->
  krec (merging c) st L.
Proof.
  intros HL HP Hs HF o Ho.
  set (ds := map (fun li : list entry => (li, 0)) tabs).
  assert (kids_rec c (m_kids st) ds) as Hrec.
  { unfold kids_rec, ds. clear -HF. induction HF as [|s li kids tabs Hk HF IH]; cbn [map]; constructor; auto. }
  assert (static L ds) as Hst.
  { unfold static, ds. split.
    - rewrite Forall_forall in *. intros d Hd. apply in_map_iff in Hd. destruct Hd as [li [<- Hli]]. cbn. now apply Hs.
    - rewrite map_map. cbn [fst]. rewrite map_id. exact HP. }
  apply (sim_refines _ _ _ (merging_sim c L HL)).
  destruct o; try discriminate; cbn [step merging c_first c_last c_seek ref].
  - eapply first_R_rec; eauto.
  - eapply last_R_rec; eauto.
  - eapply seek_R_rec; eauto.
Qed.
