(* Cursor/Iface.v — keys, entries, the KeyRef order, and the cursor interface (sst::Cursor).
   Definitions only.

   A cursor is a record of TOTAL step functions over an abstract state plus the observation
   `c_kv` (= Cursor::key_value()).  `Result<(), SError>` is modelled as follows: errors of the
   *underlying storage* (I/O, corruption; the `?` after every child call) are not modelled - a
   child is a total state machine; the failures a combinator can produce ITSELF (a logic error
   returned by PruningCursor::prev, an assert / unwrap / index panic, and the model's own
   out-of-fuel result for `loop`/`while`) are an absorbing `c_fail` observation of its state.

   Keys are byte strings (`list N`, bytes < 256 is not needed by any theorem here) ordered as
   `[u8]::cmp`; timestamps are `N` (u64 in the Rust; unbounded here, nothing depends on wrap).
   KeyRef::cmp is key ascending, then timestamp DESCENDING. *)
From Coq Require Import NArith ZArith List Bool.
Import ListNotations.

Definition key := list N.
Definition value := list N.

(* <[u8] as Ord>::cmp : lexicographic, a proper prefix is smaller *)
Fixpoint kcmp (a b : key) : comparison :=
  match a, b with
  | [], [] => Eq
  | [], _ :: _ => Lt
  | _ :: _, [] => Gt
  | x :: a', y :: b' => match N.compare x y with Eq => kcmp a' b' | c => c end
  end.

Definition keqb (a b : key) : bool := match kcmp a b with Eq => true | _ => false end.
Definition kltb (a b : key) : bool := match kcmp a b with Lt => true | _ => false end.
Definition kleb (a b : key) : bool := match kcmp a b with Gt => false | _ => true end.

(* KeyValuePair / KeyValueRef: ev = None is a tombstone *)
Record entry := mkE { ek : key; ets : N; ev : option value }.

(* KeyRef::cmp on the (key, timestamp) of two entries *)
Definition ecmp (a b : entry) : comparison :=
  match kcmp (ek a) (ek b) with
  | Eq => N.compare (ets b) (ets a)
  | c => c
  end.
Definition eltb (a b : entry) : bool := match ecmp a b with Lt => true | _ => false end.
Definition elt (a b : entry) : Prop := ecmp a b = Lt.

Inductive failure := Panic | LogicError | OutOfFuel.

Record cursor (S : Type) := mkCursor {
  c_first : S -> S;                 (* seek_to_first *)
  c_last : S -> S;                  (* seek_to_last *)
  c_seek : key -> S -> S;           (* seek(key) *)
  c_prev : S -> S;
  c_next : S -> S;
  c_kv : S -> option entry;         (* key_value() *)
  c_fail : S -> option failure      (* the combinator's own Err / panic, absorbing *)
}.
Arguments c_first {S}. Arguments c_last {S}. Arguments c_seek {S}. Arguments c_prev {S}.
Arguments c_next {S}. Arguments c_kv {S}. Arguments c_fail {S}.

(* Cursor::key().is_some() / .is_none(), Cursor::value() *)
Definition has_key {S} (c : cursor S) (s : S) : bool :=
  match c_kv c s with Some _ => true | None => false end.
Definition c_value {S} (c : cursor S) (s : S) : option value :=
  match c_kv c s with Some e => ev e | None => None end.

Inductive op := OFirst | OLast | OSeek (k : key) | OPrev | ONext.

Definition step {S} (c : cursor S) (o : op) (s : S) : S :=
  match o with
  | OFirst => c_first c s
  | OLast => c_last c s
  | OSeek k => c_seek c k s
  | OPrev => c_prev c s
  | ONext => c_next c s
  end.

(* what a caller can see of a cursor: key_value() and whether it has failed *)
Definition obs : Type := (option entry * option failure)%type.
Definition observe {S} (c : cursor S) (s : S) : obs := (c_kv c s, c_fail c s).

(* the observation in the start state and after every call of the program *)
Fixpoint run {S} (c : cursor S) (prog : list op) (s : S) : list obs :=
  observe c s :: match prog with
                 | [] => []
                 | o :: p => run c p (step c o s)
                 end.

(* loops of the Rust are fuelled; a loop that runs out yields this *)
Inductive ctl (A : Type) := Ret (a : A) | Go (a : A) | Fuel.
Arguments Ret {A}. Arguments Go {A}. Arguments Fuel {A}.
