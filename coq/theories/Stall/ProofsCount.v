(* Stall/ProofsCount.v — the inputs of a candidate are distinct files of the tree, so there are at
   most as many as the tree has files (what bounds them against max_open_files) *)
From Coq Require Import NArith ZArith List Bool Arith Lia.
From Blue Require Import Lsm.Model Lsm.KeyOrder Lsm.LoadProofs Lsm.ListLemmas Lsm.CompactProofs
  Stall.Select Stall.ProofsBasic Stall.ProofsBounds Stall.ProofsAdm Stall.ProofsRaw.
Import ListNotations.
Open Scope N_scope.

Lemma nodup_app_intro {A} (a b : list A) : NoDup a -> NoDup b -> (forall x, In x a -> In x b -> False) -> NoDup (a ++ b).
Proof.
  induction a as [|x a IH]; intros Ha Hb H; [exact Hb|]. cbn. inversion Ha as [|? ? Hn Hr]; subst.
  constructor.
  - intros C. apply in_app_or in C. destruct C as [C|C]; [contradiction|]. eapply H; [now left|exact C].
  - apply IH; auto. intros y Hy. apply H. now right.
Qed.

Lemma nodup_firstn {A} n (l : list A) : NoDup l -> NoDup (firstn n l).
Proof. intros H. rewrite <- (firstn_skipn n l) in H. eapply nodup_app_l; eauto. Qed.
Lemma nodup_skipn {A} n (l : list A) : NoDup l -> NoDup (skipn n l).
Proof. intros H. rewrite <- (firstn_skipn n l) in H. eapply nodup_app_r; eauto. Qed.

Lemma nodup_flat_map {A B} (g : A -> list B) (l : list A) :
  NoDup l -> (forall i, In i l -> NoDup (g i)) ->
  (forall i k x, In i l -> In k l -> i <> k -> In x (g i) -> In x (g k) -> False) ->
  NoDup (flat_map g l).
Proof.
  induction l as [|a l IH]; intros Hl Hg Hd; cbn; [constructor|].
  inversion Hl as [|? ? Hn Hr]; subst. apply nodup_app_intro.
  - apply Hg. now left.
  - apply IH; auto.
    + intros i Hi. apply Hg. now right.
    + intros i k x Hi Hk. apply Hd; now right.
  - intros x Hx Hy. apply in_flat_map in Hy. destruct Hy as [k [Hk Hy]].
    apply (Hd a k x); auto; [now left|now right|]. intros ->. contradiction.
Qed.

Lemma map_slice (lv : level) lo hi : map fid (slice lv lo hi) = firstn (hi - lo) (skipn lo (map fid lv)).
Proof. unfold slice. now rewrite skipn_map, firstn_map. Qed.

Lemma raw_inputs_nodup v lower bs0 t : uniq_ids v -> NoDup (inputs_upto v lower bs0 t).
Proof.
  intros U. unfold inputs_upto. apply nodup_flat_map.
  - apply seq_NoDup.
  - intros i _. unfold sl. rewrite map_slice. apply nodup_firstn, nodup_skipn.
    rewrite nth_skipn'. now apply uniq_level.
  - intros i k x _ _ Hne Hi Hk.
    apply in_map_iff in Hi. destruct Hi as [f [Ef Hf]]. apply in_map_iff in Hk. destruct Hk as [g [Eg Hg]].
    apply sl_level in Hf. apply sl_level in Hg.
    assert (f = g) by (eapply uniq_same_file; eauto; congruence). subst g.
    assert (lower + i = lower + k)%nat by (eapply uniq_same_level; eauto). lia.
Qed.

Lemma exp_level_nodup o v c lvl fk lk : forall ssts to_add ta,
  NoDup (map fid (to_add ++ ssts)) -> exp_level o v c lvl fk lk ssts to_add = Some ta -> NoDup (map fid ta).
Proof.
  induction ssts as [|s r IH]; intros to_add ta H E; cbn [exp_level] in E.
  - inversion E; subst. now rewrite app_nil_r in H.
  - destruct ((o_max_compaction_files o <? len (cinputs c) + len to_add) || (o_max_open_files o <? len (cinputs c) + len to_add)); [discriminate|].
    destruct (key_leb fk (first_key s) && key_leb (last_key s) lk && negb (is_input c s) && exp_closed v c lvl s).
    + eapply IH; [|exact E]. now rewrite <- app_assoc.
    + eapply IH; [|exact E]. rewrite map_app in *. cbn [map] in H. now apply NoDup_remove_1 in H.
Qed.

Lemma exp_levels_nodup o v : uniq_ids v -> forall n lvl c fk lk,
  NoDup (cinputs c) -> NoDup (cinputs (exp_levels o v n lvl c fk lk)).
Proof.
  intros U. induction n as [|n IH]; intros lvl c fk lk H; cbn [exp_levels]; [exact H|].
  destruct (exp_level o v c lvl fk lk (nth lvl v []) []) as [ta|] eqn:E; [|exact H].
  destruct ta as [|t ta]; [now apply IH|].
  apply IH. unfold add_inputs. cbn [cinputs]. apply nodup_app_intro; [exact H| |].
  - eapply exp_level_nodup; [|exact E]. cbn [app]. now apply uniq_level.
  - intros x Hx Hy. apply in_map_iff in Hy. destruct Hy as [t' [Et Ht']].
    pose proof (exp_level_spec o v c lvl fk lk _ _ _ (fun t H => H) (fun t (H : In t []) => match H with end) E t' Ht') as (_ & _ & _ & _ & NI).
    apply is_input_false in NI. apply NI. now rewrite Et.
Qed.

Lemma adm_inputs_incl v c : adm v c -> incl (cinputs c) (map fid (all_files v)).
Proof.
  intros A x Hx. destruct (a_in v c A x Hx) as (j & f & _ & Hf & E & _). subst x.
  apply in_map. unfold all_files. eapply in_concat_nth; eauto.
Qed.

Theorem inputs_bound v c : adm v c -> NoDup (cinputs c) -> len (cinputs c) <= len (all_files v).
Proof.
  intros A N. unfold len. pose proof (NoDup_incl_length N (adm_inputs_incl v c A)) as H.
  rewrite map_length in H. lia.
Qed.

Lemma nodup_incl_bound (l : list N) v : NoDup l -> incl l (map fid (all_files v)) -> len l <= len (all_files v).
Proof. intros N I. unfold len. pose proof (NoDup_incl_length N I) as H. rewrite map_length in H. lia. Qed.

Lemma raw_inputs_incl v lower bs0 t : incl (inputs_upto v lower bs0 t) (map fid (all_files v)).
Proof.
  intros x Hx. apply in_inputs_upto in Hx. destruct Hx as (i & f & _ & Hf & E). subst x.
  apply in_map. apply sl_level in Hf. unfold all_files. eapply in_concat_nth; eauto.
Qed.
