(* Extraction of the executable Stall model (selector + wake-up protocol acceptor).
   Directives: ExtrOcamlBasic only; N / Z / positive / nat stay inductive. *)
From Coq Require Import NArith ZArith List.
From Blue Require Import Lsm.Model Stall.Select Stall.Known.
Require Import ExtrOcamlBasic.
Extraction Language OCaml.
Extraction "../ocaml/stall/gen_stall.ml" next_compaction should_stall_ingest should_mandatory sel_wfb
  valid_compactionb vc_shape vc_slice vc_rest vc_range vc_closed vc_ids apply_compaction wf_versionb
  known_stall l1_overlap options_safe ingest level_curve_tbl level_factor_tbl
  N.of_nat N.to_nat N.add N.mul N.div_eucl.
