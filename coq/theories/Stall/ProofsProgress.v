(* Stall/ProofsProgress.v — every compaction the selector picks lowers the measure mu, so a run
   of select-and-apply steps (one compaction thread, no ingest in between) has at most mu v
   steps: a stalled store does not compact forever *)
From Coq Require Import NArith List Bool Arith Lia.
From Blue Require Import Lsm.Model Lsm.LoadProofs Lsm.ListLemmas Stall.Select Stall.ProofsBasic Stall.ProofsAdm
  Stall.ProofsRaw Stall.ProofsNext Stall.ProofsMeasure.
Import ListNotations.
Open Scope nat_scope.

Lemma wf_file_entries f : wf_fileb f = true -> 1 <= length (fents f).
Proof. unfold wf_fileb. destruct (fents f); [discriminate|cbn; lia]. Qed.

Lemma ec_in f fs : In f fs -> length (fents f) <= ec fs.
Proof.
  unfold ec. induction fs as [|g r IH]; intros H; [destruct H|]. destruct H as [<-|H]; cbn; rewrite app_length; [lia|]. specialize (IH H). lia.
Qed.

Lemma lower_input_entries v c : wf_version v -> clower c < cupper c -> has_lower_input v c ->
  ec (concat (map (filter (is_input c)) (mids v c))) <> 0.
Proof.
  intros W Hlu (f & Hf & Hi). unfold mids.
  assert (Hlen : clower c < length v).
  { destruct (Nat.lt_ge_cases (clower c) (length v)); [assumption|]. rewrite nth_overflow in Hf by assumption. destruct Hf. }
  rewrite (skipn_nth_cons (clower c) v [] Hlen).
  destruct (cupper c - clower c) as [|n] eqn:E; [lia|]. cbn [firstn map concat]. rewrite ec_app.
  assert (In f (filter (is_input c) (nth (clower c) v []))) by (apply filter_In; split; assumption).
  pose proof (ec_in f _ H) as B. pose proof (wf_file_entries f (wf_files_nth v _ f W Hf)). lia.
Qed.

Theorem compaction_step_lowers_mu o v og out c outs : sel_wfb v = true ->
  next_compaction o v og = Ok out -> nc_choice out = Some c ->
  ec outs <= in_entries v (cc c) -> mu (apply_compaction v (cc c) outs) < mu v.
Proof.
  intros Hwf H Hc Ho. pose proof (sel_wfb_wf v Hwf) as WF.
  destruct (next_compaction_adm o v og out c WF H Hc) as (A & _ & L).
  destruct (vc_shape_facts v (cc c) (a_shape _ _ A)) as (Hlu & Hlen & _ & Hbb).
  apply compaction_lowers_mu; auto. apply lower_input_entries; auto. now destruct WF.
Qed.

(* n select-and-apply steps, each on a well-formed tree, outputs never holding more entries than
   the inputs (a merge keeps them, garbage collection drops some) *)
Inductive crun (o : options) : nat -> version -> version -> Prop :=
| crun_0 v : crun o 0 v v
| crun_S n v v' og out c outs :
    crun o n v v' -> sel_wfb v' = true ->
    next_compaction o v' og = Ok out -> nc_choice out = Some c ->
    ec outs <= in_entries v' (cc c) ->
    crun o (S n) v (apply_compaction v' (cc c) outs).

Theorem crun_bounded o n v v' : crun o n v v' -> n + mu v' <= mu v.
Proof.
  induction 1 as [|n v v' og out c outs R IH W H Hc Ho]; [lia|].
  pose proof (compaction_step_lowers_mu o v' og out c outs W H Hc Ho). lia.
Qed.
