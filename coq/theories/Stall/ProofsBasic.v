(* Stall/ProofsBasic.v — lists, keys, sorted levels, unique file ids: what the selector proofs share *)
From Coq Require Import NArith ZArith List Bool Arith Lia Permutation.
From Blue Require Import Lsm.Model Lsm.KeyOrder Lsm.LoadProofs Lsm.ListLemmas Lsm.CompactProofs Stall.Select.
Import ListNotations.
Open Scope N_scope.

Arguments N.add : simpl never.
Arguments N.sub : simpl never.
Arguments N.mul : simpl never.
Arguments N.div : simpl never.
Arguments N.modulo : simpl never.
Arguments N.leb : simpl never.
Arguments N.ltb : simpl never.
Arguments N.eqb : simpl never.
Arguments N.pow : simpl never.
Arguments Z.pow : simpl never.

(* ---------- keys ---------- *)
Lemma key_ltb_leb a b : key_ltb a b = true -> key_leb a b = true.
Proof. unfold key_ltb, key_leb. destruct (lex_cmp a b); congruence. Qed.

Lemma key_leb_false_ltb a b : key_leb a b = false -> key_ltb b a = true.
Proof. rewrite key_ltb_not_leb. now intros ->. Qed.

Lemma key_ltb_false_leb a b : key_ltb a b = false -> key_leb b a = true.
Proof. rewrite key_ltb_not_leb. destruct (key_leb b a); cbn; congruence. Qed.

Lemma key_ltb_leb_false a b : key_ltb a b = true -> key_leb b a = false.
Proof. rewrite key_ltb_not_leb. destruct (key_leb b a); cbn; congruence. Qed.

Lemma key_ltb_trans a b c : key_ltb a b = true -> key_ltb b c = true -> key_ltb a c = true.
Proof. intros H1 H2. eapply key_ltb_leb_trans; [exact H1|now apply key_ltb_leb]. Qed.

Lemma key_min_le_l a b : key_leb (key_min a b) a = true.
Proof.
  unfold key_min. destruct (key_leb a b) eqn:E; [apply key_leb_refl|].
  destruct (key_leb_total a b) as [H|H]; congruence.
Qed.
Lemma key_min_le_r a b : key_leb (key_min a b) b = true.
Proof. unfold key_min. destruct (key_leb a b) eqn:E; [exact E|apply key_leb_refl]. Qed.
Lemma key_max_ge_l a b : key_leb a (key_max a b) = true.
Proof. unfold key_max. destruct (key_leb a b) eqn:E; [exact E|apply key_leb_refl]. Qed.
Lemma key_max_ge_r a b : key_leb b (key_max a b) = true.
Proof.
  unfold key_max. destruct (key_leb a b) eqn:E; [apply key_leb_refl|].
  destruct (key_leb_total a b) as [H|H]; congruence.
Qed.
Lemma key_min_glb a b c : key_leb c a = true -> key_leb c b = true -> key_leb c (key_min a b) = true.
Proof. unfold key_min. now destruct (key_leb a b). Qed.
Lemma key_max_lub a b c : key_leb a c = true -> key_leb b c = true -> key_leb (key_max a b) c = true.
Proof. unfold key_max. now destruct (key_leb a b). Qed.

Lemma min_key_le_init d l : key_leb (min_key d l) d = true.
Proof.
  unfold min_key. revert d. induction l as [|x l IH]; intros d; cbn; [apply key_leb_refl|].
  eapply key_leb_trans; [apply IH|apply key_min_le_l].
Qed.
Lemma min_key_le_in d l x : In x l -> key_leb (min_key d l) x = true.
Proof.
  unfold min_key. revert d. induction l as [|y l IH]; intros d H; [destruct H|destruct H as [->|H]]; cbn.
  - eapply key_leb_trans; [apply (min_key_le_init (key_min d x) l)|apply key_min_le_r].
  - now apply IH.
Qed.
Lemma min_key_glb d l c : key_leb c d = true -> (forall x, In x l -> key_leb c x = true) -> key_leb c (min_key d l) = true.
Proof.
  unfold min_key. revert d. induction l as [|y l IH]; intros d Hd Hl; cbn; [exact Hd|].
  apply IH; [apply key_min_glb; [exact Hd|apply Hl; now left]|intros x Hx; apply Hl; now right].
Qed.
Lemma max_key_ge_init d l : key_leb d (max_key d l) = true.
Proof.
  unfold max_key. revert d. induction l as [|x l IH]; intros d; cbn; [apply key_leb_refl|].
  eapply key_leb_trans; [apply key_max_ge_l|apply IH].
Qed.
Lemma max_key_ge_in d l x : In x l -> key_leb x (max_key d l) = true.
Proof.
  unfold max_key. revert d. induction l as [|y l IH]; intros d H; [destruct H|destruct H as [->|H]]; cbn.
  - eapply key_leb_trans; [apply key_max_ge_r|apply (max_key_ge_init (key_max d x) l)].
  - now apply IH.
Qed.
Lemma max_key_lub d l c : key_leb d c = true -> (forall x, In x l -> key_leb x c = true) -> key_leb (max_key d l) c = true.
Proof.
  unfold max_key. revert d. induction l as [|y l IH]; intros d Hd Hl; cbn; [exact Hd|].
  apply IH; [apply key_max_lub; [exact Hd|apply Hl; now left]|intros x Hx; apply Hl; now right].
Qed.

(* ---------- lists ---------- *)
Lemma len_app {A} (a b : list A) : len (a ++ b) = len a + len b.
Proof. unfold len. rewrite app_length. lia. Qed.
Lemma len_map {A B} (f : A -> B) (l : list A) : len (map f l) = len l.
Proof. unfold len. now rewrite map_length. Qed.

Lemma partition_point_le {A} (p : A -> bool) l : (partition_point p l <= length l)%nat.
Proof. induction l as [|x l IH]; cbn; [lia|]. destruct (p x); lia. Qed.

Lemma partition_point_mono {A} (p q : A -> bool) l :
  (forall x, In x l -> p x = true -> q x = true) -> (partition_point p l <= partition_point q l)%nat.
Proof.
  induction l as [|x l IH]; cbn; intros H; [lia|].
  destruct (p x) eqn:E; [|lia]. rewrite (H x (or_introl eq_refl) E).
  apply le_n_S, IH. intros y Hy. apply H. now right.
Qed.

Lemma slice_length {A} (l : list A) lo hi : (hi <= length l)%nat -> length (firstn (hi - lo) (skipn lo l)) = (hi - lo)%nat.
Proof. intros H. rewrite firstn_length, skipn_length. lia. Qed.

(* l = firstn lo l ++ slice ++ skipn hi l *)
Lemma three_parts {A} (l : list A) lo hi : (lo <= hi)%nat ->
  l = firstn lo l ++ firstn (hi - lo) (skipn lo l) ++ skipn hi l.
Proof.
  intros H. rewrite <- (firstn_skipn lo l) at 1. f_equal.
  rewrite <- (firstn_skipn (hi - lo) (skipn lo l)) at 1. f_equal.
  rewrite skipn_skipn'. f_equal. lia.
Qed.

Lemma in_slice (l : level) lo hi x : In x (slice l lo hi) -> In x l.
Proof. unfold slice. intros H. apply in_firstn in H. now apply in_skipn in H. Qed.

Lemma nodup_app_disjoint {A B} (g : A -> B) (a b : list A) x y :
  NoDup (map g (a ++ b)) -> In x a -> In y b -> g x <> g y.
Proof.
  rewrite map_app. intros H Hx Hy E.
  induction a as [|z a IH]; [destruct Hx|].
  cbn in H. inversion H as [|? ? Hn Hr]; subst.
  destruct Hx as [->|Hx].
  - apply Hn. apply in_or_app. right. rewrite E. now apply in_map.
  - now apply IH.
Qed.

Lemma nodup_map_inj {A B} (g : A -> B) (l : list A) x y :
  NoDup (map g l) -> In x l -> In y l -> g x = g y -> x = y.
Proof.
  induction l as [|z l IH]; [intros _ []|].
  cbn. intros H Hx Hy E. inversion H as [|? ? Hn Hr]; subst.
  destruct Hx as [->|Hx], Hy as [->|Hy]; auto.
  - exfalso. apply Hn. rewrite E. now apply in_map.
  - exfalso. apply Hn. rewrite <- E. now apply in_map.
Qed.

Lemma nodup_app_l {A} (a b : list A) : NoDup (a ++ b) -> NoDup a.
Proof. intros H. induction a as [|x a IH]; [constructor|]. cbn in H. inversion H; subst. constructor; [intros C; apply H2; apply in_or_app; now left|auto]. Qed.
Lemma nodup_app_r {A} (a b : list A) : NoDup (a ++ b) -> NoDup b.
Proof. induction a as [|x a IH]; [auto|]. cbn. intros H. inversion H; subst. auto. Qed.

Lemma nodupb_spec l : nodupb l = true -> NoDup l.
Proof.
  induction l as [|x l IH]; cbn; [constructor|].
  intros H. apply andb_prop in H. destruct H as [H1 H2]. constructor; [|auto].
  intros C. apply negb_true_iff in H1. assert (existsb (N.eqb x) l = true); [|congruence].
  apply existsb_exists. exists x. split; [exact C|apply N.eqb_refl].
Qed.

Lemma nth_skipn' {A} (n i : nat) (l : list A) d : nth i (skipn n l) d = nth (n + i) l d.
Proof.
  revert l. induction n as [|n IH]; intros l; [reflexivity|].
  destruct l as [|x l]; cbn [skipn Nat.add nth]; [now destruct i|apply IH].
Qed.

(* nth j of a list of lists, as a piece of the concatenation *)
Lemma concat_nth_split {A} (ls : list (list A)) j : (j < length ls)%nat ->
  concat ls = concat (firstn j ls) ++ nth j ls [] ++ concat (skipn (S j) ls).
Proof.
  revert j. induction ls as [|l ls IH]; intros j H; cbn in H; [lia|].
  destruct j as [|j]; cbn [firstn skipn nth concat app]; [reflexivity|].
  rewrite (IH j) at 1 by lia. now rewrite app_assoc.
Qed.

Lemma in_concat_nth {A} (ls : list (list A)) j x : In x (nth j ls []) -> In x (concat ls).
Proof.
  intros H. destruct (Nat.lt_ge_cases j (length ls)) as [Hj|Hj].
  - rewrite (concat_nth_split ls j Hj). apply in_or_app. right. apply in_or_app. now left.
  - rewrite nth_overflow in H by exact Hj. destruct H.
Qed.

(* ---------- files: identity by id ---------- *)
Definition uniq_ids (v : version) : Prop := NoDup (map fid (all_files v)).

Lemma uniq_same_file v j m f g : uniq_ids v -> In f (nth j v []) -> In g (nth m v []) -> fid f = fid g -> f = g.
Proof.
  intros U Hf Hg E. eapply nodup_map_inj; [exact U| | |exact E]; unfold all_files; eapply in_concat_nth; eauto.
Qed.

Lemma uniq_same_level v j m f : uniq_ids v -> In f (nth j v []) -> In f (nth m v []) -> j = m.
Proof.
  intros U Hj Hm.
  destruct (Nat.lt_ge_cases j (length v)) as [Lj|Lj]; [|rewrite nth_overflow in Hj by exact Lj; destruct Hj].
  destruct (Nat.lt_ge_cases m (length v)) as [Lm|Lm]; [|rewrite nth_overflow in Hm by exact Lm; destruct Hm].
  destruct (Nat.lt_trichotomy j m) as [H|[H|H]]; [|exact H|]; exfalso.
  - unfold uniq_ids, all_files in U. rewrite (concat_nth_split v j Lj) in U.
    rewrite app_assoc in U.
    eapply (nodup_app_disjoint fid _ _ f f U); [apply in_or_app; now right| |reflexivity].
    replace (skipn (S j) v) with (skipn (S j) v) by reflexivity.
    assert (Hm' : In f (nth (m - S j) (skipn (S j) v) [])).
    { rewrite nth_skipn'. replace (S j + (m - S j))%nat with m by lia. exact Hm. }
    eapply in_concat_nth; eauto.
  - unfold uniq_ids, all_files in U. rewrite (concat_nth_split v m Lm) in U.
    rewrite app_assoc in U.
    eapply (nodup_app_disjoint fid _ _ f f U); [apply in_or_app; now right| |reflexivity].
    assert (Hj' : In f (nth (j - S m) (skipn (S m) v) [])).
    { rewrite nth_skipn'. replace (S m + (j - S m))%nat with j by lia. exact Hj. }
    eapply in_concat_nth; eauto.
Qed.

Lemma uniq_level v j : uniq_ids v -> NoDup (map fid (nth j v [])).
Proof.
  intros U. destruct (Nat.lt_ge_cases j (length v)) as [Lj|Lj]; [|rewrite nth_overflow by exact Lj; constructor].
  unfold uniq_ids, all_files in U. rewrite (concat_nth_split v j Lj) in U.
  rewrite !map_app in U. apply nodup_app_r in U. now apply nodup_app_l in U.
Qed.

(* a file cannot sit in two different pieces of its level *)
Lemma uniq_pieces v j (a b : list file) f : uniq_ids v -> nth j v [] = a ++ b -> In f a -> In f b -> False.
Proof.
  intros U E Ha Hb. pose proof (uniq_level v j U) as N. rewrite E in N.
  exact (nodup_app_disjoint fid a b f f N Ha Hb eq_refl).
Qed.

Lemma is_input_spec c f : is_input c f = true <-> In (fid f) (cinputs c).
Proof.
  unfold is_input. rewrite existsb_exists. split.
  - intros [x [Hx E]]. apply N.eqb_eq in E. now subst.
  - intros H. exists (fid f). split; [exact H|apply N.eqb_refl].
Qed.

Lemma is_input_false c f : is_input c f = false <-> ~ In (fid f) (cinputs c).
Proof. rewrite <- is_input_spec. destruct (is_input c f); split; congruence. Qed.

(* ---------- sorted levels ---------- *)
Definition wfl (lv : level) : Prop := Forall (fun g => wf_fileb g = true) lv /\ level_sortedb lv = true.

Lemma wfl_tail f r : wfl (f :: r) -> wfl r.
Proof. intros [H1 H2]. split; [now inversion H1|eapply level_sorted_tail; eauto]. Qed.

Lemma wfl_head f r : wfl (f :: r) -> wf_fileb f = true.
Proof. intros [H1 _]. now inversion H1. Qed.

Lemma wfl_in lv f : wfl lv -> In f lv -> wf_fileb f = true.
Proof. intros [H1 _] Hf. rewrite Forall_forall in H1. auto. Qed.

Lemma wfl_head_le f r g : wfl (f :: r) -> In g r -> key_leb (last_key f) (first_key g) = true.
Proof. intros [H1 H2]. now apply level_first_mono. Qed.

Lemma wfl_nth v j : wf_version v -> (1 <= j)%nat -> wfl (nth j v []).
Proof.
  intros W Hj. destruct (wf_version_levels v W) as [H1 H2].
  destruct (Nat.lt_ge_cases j (length v)) as [Lj|Lj].
  - split.
    + rewrite Forall_forall in H1. apply H1. now apply nth_In.
    + rewrite Forall_forall in H2. apply H2. destruct v as [|l0 r]; [cbn in Lj; lia|].
      destruct j as [|j]; [lia|]. cbn. apply nth_In. cbn in Lj. lia.
  - rewrite nth_overflow by exact Lj. split; [constructor|reflexivity].
Qed.

Lemma wf_files_nth v j f : wf_version v -> In f (nth j v []) -> wf_fileb f = true.
Proof.
  intros W Hf. destruct (wf_version_levels v W) as [H1 _].
  destruct (Nat.lt_ge_cases j (length v)) as [Lj|Lj]; [|rewrite nth_overflow in Hf by exact Lj; destruct Hf].
  rewrite Forall_forall in H1. specialize (H1 _ (nth_In v [] Lj)). rewrite Forall_forall in H1. auto.
Qed.

(* files from lower_bound on reach the key; files before it end below it *)
Lemma lb_skipn lv k : wfl lv -> Forall (fun f => key_leb k (last_key f) = true) (skipn (lower_bound lv k) lv).
Proof.
  unfold lower_bound. induction lv as [|f r IH]; intros W; cbn; [constructor|].
  destruct (key_ltb (last_key f) k) eqn:E; cbn.
  - apply IH. eapply wfl_tail; eauto.
  - apply key_ltb_false_leb in E. constructor; [exact E|].
    apply Forall_forall. intros g Hg.
    eapply key_leb_trans; [exact E|]. eapply key_leb_trans; [eapply wfl_head_le; eauto|].
    apply file_first_le_last. eapply wfl_in; [exact W|now right].
Qed.

Lemma lb_firstn lv k : Forall (fun f => key_ltb (last_key f) k = true) (firstn (lower_bound lv k) lv).
Proof. apply partition_point_firstn. Qed.

Lemma ub_firstn lv k : Forall (fun f => key_leb (first_key f) k = true) (firstn (upper_bound lv k) lv).
Proof. apply partition_point_firstn. Qed.

Lemma ub_skipn lv k : wfl lv -> Forall (fun f => key_ltb k (first_key f) = true) (skipn (upper_bound lv k) lv).
Proof.
  unfold upper_bound. induction lv as [|f r IH]; intros W; cbn; [constructor|].
  destruct (key_leb (first_key f) k) eqn:E; cbn.
  - apply IH. eapply wfl_tail; eauto.
  - apply key_leb_false_ltb in E. constructor; [exact E|].
    apply Forall_forall. intros g Hg.
    eapply key_ltb_leb_trans; [exact E|].
    eapply key_leb_trans; [apply file_first_le_last; eapply wfl_head; eauto|]. eapply wfl_head_le; eauto.
Qed.

Lemma lb_le_len lv k : (lower_bound lv k <= length lv)%nat.
Proof. apply partition_point_le. Qed.
Lemma ub_le_len lv k : (upper_bound lv k <= length lv)%nat.
Proof. apply partition_point_le. Qed.

Lemma lb_le_ub lv a b : wfl lv -> key_leb a b = true -> (lower_bound lv a <= upper_bound lv b)%nat.
Proof.
  intros W Hab. unfold lower_bound, upper_bound. apply partition_point_mono.
  intros f Hf Hlt. eapply key_leb_trans; [apply file_first_le_last; eapply wfl_in; eauto|].
  eapply key_leb_trans; [apply key_ltb_leb; exact Hlt|exact Hab].
Qed.

(* the slice [lower_bound a, upper_bound b) holds exactly the files that meet [a, b] *)
Lemma in_level_cases lv a b f : wfl lv -> key_leb a b = true -> In f lv ->
  (In f (firstn (lower_bound lv a) lv) /\ key_ltb (last_key f) a = true) \/
  In f (slice lv (lower_bound lv a) (upper_bound lv b)) \/
  (In f (skipn (upper_bound lv b) lv) /\ key_ltb b (first_key f) = true).
Proof.
  intros W Hab Hf. pose proof (lb_le_ub lv a b W Hab) as Hle.
  rewrite (three_parts lv _ _ Hle) in Hf.
  apply in_app_or in Hf. destruct Hf as [Hf|Hf].
  - left. split; [exact Hf|]. pose proof (lb_firstn lv a) as F. rewrite Forall_forall in F. auto.
  - apply in_app_or in Hf. destruct Hf as [Hf|Hf]; [right; left; exact Hf|].
    right; right. split; [exact Hf|]. pose proof (ub_skipn lv b W) as F. rewrite Forall_forall in F. auto.
Qed.

Lemma slice_meets lv a b f : wfl lv -> In f (slice lv (lower_bound lv a) (upper_bound lv b)) ->
  key_leb a (last_key f) = true /\ key_leb (first_key f) b = true.
Proof.
  intros W Hf. unfold slice in Hf. split.
  - apply in_firstn in Hf. pose proof (lb_skipn lv a W) as F. rewrite Forall_forall in F. auto.
  - pose proof (ub_firstn lv b) as F. rewrite Forall_forall in F. apply F.
    (* firstn (ub - lb) (skipn lb lv) is inside firstn ub lv *)
    clear F. revert Hf. generalize (lower_bound lv a) (upper_bound lv b). clear.
    intros lo hi. revert lo hi. induction lv as [|x lv IH]; intros lo hi H.
    + rewrite skipn_nil, firstn_nil in H. destruct H.
    + destruct lo as [|lo]; cbn [skipn] in H.
      * rewrite Nat.sub_0_r in H. exact H.
      * destruct hi as [|hi]; [cbn in H; destruct H|]. cbn [Nat.sub] in H. cbn [firstn]. right. eapply IH; eauto.
Qed.

(* a file of the level that lies inside [a, b] is in the slice *)
Lemma in_range_in_slice lv a b f : wfl lv -> key_leb a b = true -> In f lv ->
  key_leb a (first_key f) = true -> key_leb (last_key f) b = true ->
  In f (slice lv (lower_bound lv a) (upper_bound lv b)).
Proof.
  intros W Hab Hf H1 H2. pose proof (wfl_in lv f W Hf) as Wf. pose proof (file_first_le_last f Wf) as Hfl.
  destruct (in_level_cases lv a b f W Hab Hf) as [[_ C]|[H|[_ C]]]; [|exact H|]; exfalso.
  - pose proof (key_leb_trans _ _ _ H1 Hfl) as C2. apply key_ltb_leb_false in C. congruence.
  - pose proof (key_leb_trans _ _ _ Hfl H2) as C2. apply key_ltb_leb_false in C. congruence.
Qed.

Lemma files_overlap_false_l x g : key_ltb (last_key g) (first_key x) = true -> files_overlap x g = false.
Proof. intros H. unfold files_overlap. apply key_ltb_leb_false in H. rewrite H. reflexivity. Qed.
Lemma files_overlap_false_r x g : key_ltb (last_key x) (first_key g) = true -> files_overlap x g = false.
Proof. intros H. unfold files_overlap. apply key_ltb_leb_false in H. rewrite H. apply andb_false_r. Qed.

(* ---------- contiguous pieces of a sorted level ---------- *)
Lemma wfl_app_r a b : wfl (a ++ b) -> wfl b.
Proof. induction a as [|x a IH]; [auto|]. cbn. intros W. apply IH. eapply wfl_tail; eauto. Qed.

Lemma wfl_skipn n lv : wfl lv -> wfl (skipn n lv).
Proof. intros W. rewrite <- (firstn_skipn n lv) in W. eapply wfl_app_r; eauto. Qed.

(* the first file of a sorted list has the least first key; the last file has the greatest last key *)
Lemma wfl_first_least f r g : wfl (f :: r) -> In g (f :: r) -> key_leb (first_key f) (first_key g) = true.
Proof.
  intros W [<-|Hg]; [apply key_leb_refl|].
  eapply key_leb_trans; [apply file_first_le_last; eapply wfl_head; eauto|eapply wfl_head_le; eauto].
Qed.

Lemma wfl_last_greatest lv d g : wfl lv -> In g lv -> key_leb (last_key g) (last_key (last lv d)) = true.
Proof.
  revert g. induction lv as [|f r IH]; intros g W Hg; [destruct Hg|].
  destruct r as [|h r'].
  - destruct Hg as [<-|[]]. cbn. apply key_leb_refl.
  - change (last (f :: h :: r') d) with (last (h :: r') d).
    destruct Hg as [<-|Hg]; [|apply IH; [eapply wfl_tail; eauto|exact Hg]].
    eapply key_leb_trans; [eapply (wfl_head_le f (h :: r') h); [exact W|now left]|].
    eapply key_leb_trans; [apply file_first_le_last; eapply wfl_in; [exact W|right; now left]|].
    apply IH; [eapply wfl_tail; eauto|now left].
Qed.
