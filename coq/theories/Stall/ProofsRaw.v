(* Stall/ProofsRaw.v — what find_best_compaction builds is admissible: the raw candidate
   (slices of compute_bounds), and the candidate after expand_compaction *)
From Coq Require Import NArith ZArith List Bool Arith Lia.
From Blue Require Import Lsm.Model Lsm.KeyOrder Lsm.LoadProofs Lsm.ListLemmas Lsm.CompactProofs
  Stall.Select Stall.ProofsBasic Stall.ProofsBounds Stall.ProofsAdm.
Import ListNotations.
Open Scope N_scope.

Definition dls : lslice := mkLS 0 0 [] [].

(* ---------- random access into the result of compute_bounds ---------- *)
Lemma cb_ok_nth idx lvs fk lk bs : cb_ok idx lvs fk lk bs -> forall i, (i < length lvs)%nat ->
  exists fk' lk', slice_ok (idx + i) (nth i lvs []) fk' lk' (nth i bs dls) /\
                  key_leb fk' fk = true /\ key_leb lk lk' = true.
Proof.
  induction 1 as [|idx lv r fk lk b bs S C IH]; intros i Hi; [cbn in Hi; lia|].
  destruct i as [|i].
  - exists fk, lk. rewrite Nat.add_0_r. cbn [nth]. split; [exact S|split; apply key_leb_refl].
  - cbn [length] in Hi. destruct (IH i ltac:(lia)) as (fk' & lk' & S' & A & B).
    exists fk', lk'. replace (idx + Datatypes.S i)%nat with (Datatypes.S idx + i)%nat by lia. cbn [nth].
    destruct S as (S1 & S2 & _). split; [exact S'|split].
    + eapply key_leb_trans; [exact A|exact S1].
    + eapply key_leb_trans; [exact S2|exact B].
Qed.

Lemma cb_ok_first_le idx lvs fk lk bs : cb_ok idx lvs fk lk bs -> forall i, (i < length lvs)%nat ->
  key_leb (ls_first (nth i bs dls)) fk = true /\ key_leb lk (ls_last (nth i bs dls)) = true.
Proof.
  intros C i Hi. destruct (cb_ok_nth _ _ _ _ _ C i Hi) as (fk' & lk' & (S1 & S2 & _) & A & B).
  split; eapply key_leb_trans; eauto.
Qed.

Lemma cb_ok_mono idx lvs fk lk bs : cb_ok idx lvs fk lk bs -> forall i k, (i <= k)%nat -> (k < length lvs)%nat ->
  key_leb (ls_first (nth k bs dls)) (ls_first (nth i bs dls)) = true /\
  key_leb (ls_last (nth i bs dls)) (ls_last (nth k bs dls)) = true.
Proof.
  induction 1 as [|idx lv r fk lk b bs S C IH]; intros i k Hik Hk; [cbn in Hk; lia|].
  cbn [length] in Hk. destruct i as [|i].
  - destruct k as [|k]; [cbn [nth]; split; apply key_leb_refl|].
    cbn [nth]. apply (cb_ok_first_le _ _ _ _ _ C k). lia.
  - destruct k as [|k]; [lia|]. cbn [nth]. apply IH; lia.
Qed.

Lemma skipn_cons_nth {A} t (l : list A) x r d : skipn t l = x :: r -> x = nth t l d /\ r = skipn (S t) l /\ (t < length l)%nat.
Proof.
  revert l. induction t as [|t IH]; intros l H.
  - cbn in H. subst l. cbn. repeat split. lia.
  - destruct l as [|y l]; [discriminate|]. cbn [skipn] in H. destruct (IH l H) as (A1 & A2 & A3).
    repeat split; auto. cbn. lia.
Qed.

(* ---------- expansion ---------- *)
Lemma is_input_add c ta f : is_input (add_inputs c ta) f = is_input c f || existsb (fun t => fid f =? fid t) ta.
Proof.
  unfold is_input, add_inputs. cbn [cinputs]. rewrite existsb_app. f_equal.
  induction ta as [|t ta IH]; cbn; [reflexivity|]. now rewrite IH.
Qed.

Lemma exp_closed_from_spec c lvl s : forall lvs idx,
  exp_closed_from c lvl s idx lvs = true ->
  forall i g, In g (nth i lvs []) -> exp_closed_level c lvl s (idx + i) [g] = true.
Proof.
  induction lvs as [|lv r IH]; intros idx H i g Hg; [destruct i; destruct Hg|].
  cbn [exp_closed_from] in H. apply andb_prop in H. destruct H as [H1 H2].
  destruct i as [|i].
  - rewrite Nat.add_0_r. cbn [nth] in Hg. unfold exp_closed_level in *. rewrite forallb_forall in H1.
    cbn [forallb]. rewrite (H1 g Hg). reflexivity.
  - cbn [nth] in Hg. replace (idx + S i)%nat with (S idx + i)%nat by lia. eapply IH; eauto.
Qed.

Lemma exp_closed_spec v c lvl s m g : exp_closed v c lvl s = true -> (lvl <= m)%nat -> (m < cupper c)%nat ->
  In g (nth m v []) ->
  fid g = fid s \/ key_ltb (last_key s) (first_key g) = true \/ key_ltb (last_key g) (first_key s) = true \/
  is_input c g = true \/ (m = O /\ lvl = O /\ biggest_ts s < biggest_ts g).
Proof.
  unfold exp_closed. intros H Hm1 Hm2 Hg.
  assert (Hg' : In g (nth (m - lvl) (firstn (cupper c - lvl) (skipn lvl v)) [])).
  { rewrite (nth_firstn_skipn (A:=file)) by lia. replace (lvl + (m - lvl))%nat with m by lia. exact Hg. }
  pose proof (exp_closed_from_spec _ _ _ _ _ H _ _ Hg') as E.
  replace (lvl + (m - lvl))%nat with m in E by lia.
  unfold exp_closed_level in E. cbn [forallb] in E. rewrite andb_true_r in E.
  repeat (apply orb_prop in E; destruct E as [E|E]); auto.
  - left. now apply N.eqb_eq in E.
  - right; right; right; right. apply andb_prop in E. destruct E as [E E3]. apply andb_prop in E. destruct E as [E1 E2].
    apply Nat.eqb_eq in E1, E2. apply N.ltb_lt in E3. subst. auto.
Qed.

(* what the files collected at one level satisfy *)
Definition exp_added (v : version) (c : compaction) (lvl : nat) (fk lk : key) (t : file) : Prop :=
  In t (nth lvl v []) /\ key_leb fk (first_key t) = true /\ key_leb (last_key t) lk = true /\
  exp_closed v c lvl t = true /\ is_input c t = false.

Lemma exp_level_spec o v c lvl fk lk : forall ssts to_add ta,
  (forall t, In t ssts -> In t (nth lvl v [])) ->
  (forall t, In t to_add -> exp_added v c lvl fk lk t) ->
  exp_level o v c lvl fk lk ssts to_add = Some ta -> forall t, In t ta -> exp_added v c lvl fk lk t.
Proof.
  induction ssts as [|s r IH]; intros to_add ta Hs Ha H; cbn [exp_level] in H.
  - inversion H; subst. exact Ha.
  - destruct ((o_max_compaction_files o <? len (cinputs c) + len to_add) || (o_max_open_files o <? len (cinputs c) + len to_add)); [discriminate|].
    assert (Hr : forall t, In t r -> In t (nth lvl v [])) by (intros t Ht; apply Hs; now right).
    destruct (key_leb fk (first_key s) && key_leb (last_key s) lk && negb (is_input c s) && exp_closed v c lvl s) eqn:E.
    + eapply IH; [exact Hr| |exact H]. intros t Ht. apply in_app_or in Ht. destruct Ht as [Ht|[<-|[]]]; [auto|].
      apply andb_prop in E. destruct E as [E E4]. apply andb_prop in E. destruct E as [E E3]. apply andb_prop in E. destruct E as [E1 E2].
      apply negb_true_iff in E3. repeat split; auto. apply Hs. now left.
    + eapply IH; eauto.
Qed.

Lemma vc_shape_add v c ta : vc_shape v (add_inputs c ta) = vc_shape v c.
Proof. reflexivity. Qed.
Lemma upper_slice_add v c ta : upper_slice v (add_inputs c ta) = upper_slice v c.
Proof. reflexivity. Qed.

Lemma adm_add v c lvl fk lk ta : sel_wf v -> adm v c ->
  (clower c <= lvl <= cupper c)%nat ->
  key_leb (cfirst c) fk = true -> key_leb lk (clast c) = true ->
  (forall t, In t ta -> exp_added v c lvl fk lk t) ->
  adm v (add_inputs c ta).
Proof.
  intros (W & U & T) [SH SL AI CL] Hl F1 F2 HA.
  destruct (vc_shape_facts v c SH) as (Hlu & Hlen & Hk & Hbb).
  constructor.
  - exact SH.
  - unfold vc_slice in *. rewrite upper_slice_add. rewrite forallb_forall in *. intros f Hf.
    rewrite is_input_add, (SL f Hf). reflexivity.
  - intros x Hx. unfold add_inputs in Hx. cbn [cinputs] in Hx. apply in_app_or in Hx. destruct Hx as [Hx|Hx].
    + exact (AI x Hx).
    + apply in_map_iff in Hx. destruct Hx as [t [<- Ht]]. destruct (HA t Ht) as (Ht1 & Ht2 & Ht3 & _).
      exists lvl, t. cbn [add_inputs clower cupper cfirst clast].
      assert (R1 : key_leb (cfirst c) (first_key t) = true) by (eapply key_leb_trans; [exact F1|exact Ht2]).
      assert (R2 : key_leb (last_key t) (clast c) = true) by (eapply key_leb_trans; [exact Ht3|exact F2]).
      repeat split; auto; try lia.
      intros ->. rewrite upper_slice_add. unfold upper_slice, upper_level.
      apply in_range_in_slice; auto. apply wfl_nth; [exact W|lia].
  - intros j m x g Hj Hjm Hm Hx Hg Ix Ig. cbn [add_inputs clower cupper] in *.
    rewrite is_input_add in Ix, Ig. apply orb_false_iff in Ig. destruct Ig as [Ig1 Ig2].
    apply orb_prop in Ix. destruct Ix as [Ix|Ix].
    + exact (CL j m x g Hj Hjm Hm Hx Hg Ix Ig1).
    + apply existsb_exists in Ix. destruct Ix as [t [Ht E]]. apply N.eqb_eq in E.
      destruct (HA t Ht) as (Ht1 & _ & _ & Ht4 & _).
      assert (x = t) by (eapply uniq_same_file; eauto). subst x.
      assert (j = lvl) by (eapply uniq_same_level; eauto). subst j.
      destruct (exp_closed_spec v c lvl t m g Ht4 Hjm Hm Hg) as [E1|[E1|[E1|[E1|E1]]]].
      * exfalso. assert (existsb (fun t0 => fid g =? fid t0) ta = true); [|congruence].
        apply existsb_exists. exists t. split; [exact Ht|]. now apply N.eqb_eq.
      * left. now apply files_overlap_false_r.
      * left. now apply files_overlap_false_l.
      * congruence.
      * right. tauto.
Qed.

Lemma exp_levels_adm o v : sel_wf v -> forall n lvl c fk lk, adm v c ->
  (n = O \/ ((clower c <= lvl <= cupper c)%nat /\ n = S (lvl - clower c))) ->
  key_leb (cfirst c) fk = true -> key_leb lk (clast c) = true ->
  adm v (exp_levels o v n lvl c fk lk).
Proof.
  intros WF. induction n as [|n IH]; intros lvl c fk lk A Hn F1 F2; [exact A|].
  destruct Hn as [Hn|[Hl Hn]]; [discriminate|]. cbn [exp_levels].
  assert (Hn' : forall c', clower c' = clower c -> cupper c' = cupper c ->
                n = O \/ ((clower c' <= lvl - 1 <= cupper c')%nat /\ n = S (lvl - 1 - clower c'))).
  { intros c' E1 E2. rewrite E1, E2. destruct n as [|n']; [now left|right]. lia. }
  destruct (exp_level o v c lvl fk lk (nth lvl v []) []) as [ta|] eqn:E; [|exact A].
  pose proof (exp_level_spec o v c lvl fk lk _ _ _ (fun t H => H) (fun t (H : In t []) => match H with end) E) as HA.
  destruct ta as [|t ta].
  - apply IH; auto.
  - assert (A' : adm v (add_inputs c (t :: ta))) by (eapply adm_add; eauto).
    apply IH; auto.
    + cbn [add_inputs cfirst]. apply min_key_glb.
      * destruct (HA t (or_introl eq_refl)) as (_ & H2 & _). eapply key_leb_trans; eauto.
      * intros x Hx. apply in_map_iff in Hx. destruct Hx as [t' [<- Ht']].
        destruct (HA t' (or_intror Ht')) as (_ & H2 & _). eapply key_leb_trans; eauto.
    + cbn [add_inputs clast]. apply max_key_lub.
      * destruct (HA t (or_introl eq_refl)) as (_ & _ & H3 & _). eapply key_leb_trans; eauto.
      * intros x Hx. apply in_map_iff in Hx. destruct Hx as [t' [<- Ht']].
        destruct (HA t' (or_intror Ht')) as (_ & _ & H3 & _). eapply key_leb_trans; eauto.
Qed.

Lemma exp_levels_levels o v : forall n lvl c fk lk,
  clower (exp_levels o v n lvl c fk lk) = clower c /\ cupper (exp_levels o v n lvl c fk lk) = cupper c /\
  cfirst (exp_levels o v n lvl c fk lk) = cfirst c /\ clast (exp_levels o v n lvl c fk lk) = clast c.
Proof.
  induction n as [|n IH]; intros lvl c fk lk; cbn [exp_levels]; [auto|].
  destruct (exp_level o v c lvl fk lk (nth lvl v []) []) as [[|t ta]|]; auto.
  destruct (IH (lvl - 1)%nat (add_inputs c (t :: ta)) (min_key (first_key t) (map first_key ta)) (max_key (last_key t) (map last_key ta))) as (A & B & C & D).
  rewrite A, B, C, D. auto.
Qed.

Theorem expand_adm o v c : sel_wf v -> adm v c -> adm v (expand_compaction o v c).
Proof.
  intros WF A. unfold expand_compaction.
  destruct (vc_shape_facts v c (a_shape v c A)) as (Hlu & _ & Hk & _).
  apply exp_levels_adm; auto; try apply key_leb_refl.
  right. assert (E : (clower c <=? cupper c)%nat = true) by (apply Nat.leb_le; lia). rewrite E.
  split; [lia|reflexivity].
Qed.

(* the compaction takes at least one file of its lower level *)
Definition has_lower_input (v : version) (c : compaction) : Prop :=
  exists f, In f (nth (clower c) v []) /\ is_input c f = true.

Lemma exp_levels_inputs_mono o v : forall n lvl c fk lk x,
  In x (cinputs c) -> In x (cinputs (exp_levels o v n lvl c fk lk)).
Proof.
  induction n as [|n IH]; intros lvl c fk lk x H; cbn [exp_levels]; [exact H|].
  destruct (exp_level o v c lvl fk lk (nth lvl v []) []) as [[|t ta]|]; auto.
  apply IH. unfold add_inputs. cbn [cinputs]. apply in_or_app. now left.
Qed.

Lemma expand_has_lower o v c : has_lower_input v c -> has_lower_input v (expand_compaction o v c).
Proof.
  intros [f [Hf Hi]]. unfold expand_compaction.
  destruct (exp_levels_levels o v (if (clower c <=? cupper c)%nat then S (cupper c - clower c) else 0%nat) (cupper c) c (cfirst c) (clast c)) as (E1 & _).
  exists f. rewrite E1. split; [exact Hf|]. apply is_input_spec. apply exp_levels_inputs_mono. now apply is_input_spec.
Qed.

(* ---------- the raw candidate ---------- *)
Section Raw.
  Variables (o : options) (v : version) (og : list compaction) (lower : nat).
  Variables (bs0 : list lslice) (fk0 lk0 : key).
  Hypothesis WF : sel_wf v.
  Hypothesis CB : cb_ok lower (skipn lower v) fk0 lk0 bs0.
  Hypothesis K0 : key_leb fk0 lk0 = true.
  (* the key range handed to compute_bounds covers some file of the lower level *)
  Hypothesis H0 : exists s, In s (nth lower v []) /\ key_leb fk0 (first_key s) = true /\ key_leb (last_key s) lk0 = true.

  Let lvs0 := skipn lower v.
  Definition sl (i : nat) : list file := slice (nth i lvs0 []) (ls_lb (nth i bs0 dls)) (ls_ub (nth i bs0 dls)).
  Definition inputs_upto (t : nat) : list N := flat_map (fun i => map fid (sl i)) (List.seq 0 t).

  Lemma inputs_upto_S t : inputs_upto (S t) = inputs_upto t ++ map fid (sl t).
  Proof. unfold inputs_upto. rewrite seq_S, flat_map_app. cbn. now rewrite app_nil_r. Qed.

  Lemma nth_lvs0 i : nth i lvs0 [] = nth (lower + i) v [].
  Proof. unfold lvs0. apply nth_skipn'. Qed.

  Lemma in_inputs_upto t x : In x (inputs_upto t) <-> exists i f, (i < t)%nat /\ In f (sl i) /\ fid f = x.
  Proof.
    unfold inputs_upto. rewrite in_flat_map. split.
    - intros [i [Hi Hx]]. apply in_seq in Hi. apply in_map_iff in Hx. destruct Hx as [f [E Hf]]. exists i, f. repeat split; auto; lia.
    - intros [i [f [Hi [Hf E]]]]. exists i. split; [apply in_seq; lia|]. apply in_map_iff. eauto.
  Qed.

  Lemma sl_level i f : In f (sl i) -> In f (nth (lower + i) v []).
  Proof. unfold sl. intros H. apply in_slice in H. now rewrite nth_lvs0 in H. Qed.

  Lemma len_lvs0 : length lvs0 = (length v - lower)%nat.
  Proof. unfold lvs0. apply skipn_length. Qed.

  (* every file of a slice lies inside that level's key range *)
  Lemma sl_range i f : (i < length lvs0)%nat -> In f (sl i) ->
    key_leb (ls_first (nth i bs0 dls)) (first_key f) = true /\ key_leb (last_key f) (ls_last (nth i bs0 dls)) = true.
  Proof.
    intros Hi Hf. destruct (cb_ok_nth _ _ _ _ _ CB i Hi) as (fk' & lk' & (_ & _ & R & _) & _).
    unfold slice_in_range in R. rewrite forallb_forall in R. specialize (R f Hf).
    apply andb_prop in R. exact R.
  Qed.

  (* a file of level lower+i that is not in the slice lies strictly outside the level's range *)
  Lemma not_sl_outside i g : (i < length lvs0)%nat -> In g (nth (lower + i) v []) -> ~ In g (sl i) ->
    key_ltb (last_key g) (ls_first (nth i bs0 dls)) = true \/ key_ltb (ls_last (nth i bs0 dls)) (first_key g) = true.
  Proof.
    intros Hi Hg Hn. destruct (cb_ok_nth _ _ _ _ _ CB i Hi) as (fk' & lk' & (S1 & S2 & _ & S4) & A & B).
    destruct (lower + i)%nat as [|m] eqn:Em.
    - (* level 0: the slice is the whole level *)
      exfalso. apply Hn. unfold sl. cbn [Nat.eqb] in S4. destruct S4 as [-> ->].
      rewrite slice_all. rewrite nth_lvs0, Em. exact Hg.
    - cbn [Nat.eqb] in S4. destruct S4 as [L1 L2].
      assert (Wl : wfl (nth i lvs0 [])). { rewrite nth_lvs0, Em. destruct WF as (W & _). apply wfl_nth; [exact W|lia]. }
      assert (Kb : key_leb (ls_first (nth i bs0 dls)) (ls_last (nth i bs0 dls)) = true).
      { eapply key_leb_trans; [exact S1|]. eapply key_leb_trans; [exact A|]. eapply key_leb_trans; [exact K0|].
        eapply key_leb_trans; [exact B|exact S2]. }
      rewrite <- Em, <- nth_lvs0 in Hg.
      destruct (in_level_cases _ _ _ g Wl Kb Hg) as [[_ C]|[C|[_ C]]]; auto.
      exfalso. apply Hn. unfold sl. now rewrite L1, L2.
  Qed.

  (* the slice of a level >= 1 holds every file of the level that lies inside the level's range;
     the slice of level 0 is the whole level *)
  Lemma sl_complete t s : (1 <= lower + t)%nat -> (t < length lvs0)%nat -> In s (nth (lower + t) v []) ->
    key_leb (ls_first (nth t bs0 dls)) (first_key s) = true -> key_leb (last_key s) (ls_last (nth t bs0 dls)) = true ->
    In s (sl t).
  Proof.
    intros H1 Ht Hs R1 R2. destruct (cb_ok_nth _ _ _ _ _ CB t Ht) as (fk' & lk' & (S1 & S2 & _ & S4) & A & B).
    assert (E0 : (lower + t =? 0)%nat = false) by (apply Nat.eqb_neq; lia). rewrite E0 in S4. destruct S4 as [L1 L2].
    assert (Wl : wfl (nth t lvs0 [])). { rewrite nth_lvs0. destruct WF as (W & _). apply wfl_nth; [exact W|lia]. }
    assert (Kb : key_leb (ls_first (nth t bs0 dls)) (ls_last (nth t bs0 dls)) = true).
    { eapply key_leb_trans; [exact S1|]. eapply key_leb_trans; [exact A|]. eapply key_leb_trans; [exact K0|].
      eapply key_leb_trans; [exact B|exact S2]. }
    unfold sl. rewrite L1, L2. apply in_range_in_slice; auto. now rewrite nth_lvs0.
  Qed.

  Lemma sl0_all : lower = O -> (0 < length lvs0)%nat -> sl 0 = nth 0 v [].
  Proof.
    intros E Hl. destruct (cb_ok_nth _ _ _ _ _ CB 0%nat Hl) as (fk' & lk' & (_ & _ & _ & S4) & _).
    assert (E0 : (lower + 0 =? 0)%nat = true) by (rewrite E; reflexivity). rewrite E0 in S4. destruct S4 as [L1 L2].
    unfold sl, lvs0. rewrite L1, L2, slice_all. rewrite nth_skipn', E. reflexivity.
  Qed.

  Definition raw (t : nat) : compaction :=
    mkC lower (lower + t) (ls_first (nth t bs0 dls)) (ls_last (nth t bs0 dls)) (inputs_upto (S t)).

  Lemma raw_adm t : (1 <= t)%nat -> (t < length lvs0)%nat -> adm v (raw t).
  Proof.
    intros H1 Ht. destruct WF as (W & U & T).
    pose proof len_lvs0 as LL.
    destruct (cb_ok_nth _ _ _ _ _ CB t Ht) as (fk' & lk' & (S1 & S2 & S3 & S4) & A & B).
    assert (E0 : (lower + t =? 0)%nat = false) by (apply Nat.eqb_neq; lia). rewrite E0 in S4. destruct S4 as [L1 L2].
    assert (Kb : key_leb (ls_first (nth t bs0 dls)) (ls_last (nth t bs0 dls)) = true).
    { eapply key_leb_trans; [exact S1|]. eapply key_leb_trans; [exact A|]. eapply key_leb_trans; [exact K0|].
      eapply key_leb_trans; [exact B|exact S2]. }
    assert (Wu : wfl (nth (lower + t) v [])) by (apply wfl_nth; [exact W|lia]).
    assert (US : upper_slice v (raw t) = sl t).
    { unfold upper_slice, upper_level, raw, sl. cbn [cupper cfirst clast]. rewrite L1, L2. rewrite <- nth_lvs0. reflexivity. }
    constructor.
    - unfold vc_shape, upper_level, raw. cbn [clower cupper cfirst clast].
      apply andb_true_intro. split; [apply andb_true_intro; split; [apply andb_true_intro; split|]|].
      + apply Nat.ltb_lt. lia.
      + apply Nat.ltb_lt. lia.
      + exact Kb.
      + apply Nat.leb_le. now apply lb_le_ub.
    - unfold vc_slice. rewrite US. apply forallb_forall. intros f Hf. apply is_input_spec.
      unfold raw. cbn [cinputs]. apply in_inputs_upto. exists t, f. repeat split; auto.
    - intros x Hx. unfold raw in Hx. cbn [cinputs] in Hx. apply in_inputs_upto in Hx.
      destruct Hx as (i & f & Hi & Hf & E). exists (lower + i)%nat, f.
      destruct (sl_range i f ltac:(lia) Hf) as [R1 R2].
      destruct (cb_ok_mono _ _ _ _ _ CB i t ltac:(lia) Ht) as [M1 M2].
      unfold raw. cbn [clower cupper cfirst clast].
      repeat split; auto; try lia; try (eapply key_leb_trans; eauto); try (now apply sl_level).
      intros Ej. assert (i = t) by lia. subst i. fold (raw t). now rewrite US.
    - intros j m x g Hj Hjm Hm Hx Hg Ix Ig. unfold raw in *. cbn [clower cupper cinputs] in *.
      left. apply is_input_spec in Ix. cbn [cinputs] in Ix. apply in_inputs_upto in Ix.
      destruct Ix as (i & f & Hi & Hf & E).
      assert (f = x) by (eapply uniq_same_file; [exact U|eapply sl_level; eauto|exact Hx|exact E]). subst f.
      assert (lower + i = j)%nat by (eapply uniq_same_level; [exact U|eapply sl_level; eauto|exact Hx]). subst j.
      destruct (sl_range i x ltac:(lia) Hf) as [R1 R2].
      set (k := (m - lower)%nat). assert (Ek : m = (lower + k)%nat) by lia.
      assert (Hk : (k < length lvs0)%nat) by lia.
      destruct (cb_ok_mono _ _ _ _ _ CB i k ltac:(lia) Hk) as [M1 M2].
      assert (Hn : ~ In g (sl k)).
      { intros C. apply is_input_false in Ig. apply Ig. cbn [cinputs]. apply in_inputs_upto. exists k, g. repeat split; auto. lia. }
      rewrite Ek in Hg. destruct (not_sl_outside k g Hk Hg Hn) as [O1|O1].
      + apply files_overlap_false_l. eapply key_ltb_leb_trans; [exact O1|]. eapply key_leb_trans; eauto.
      + apply files_overlap_false_r. eapply key_leb_ltb_trans; [|exact O1]. eapply key_leb_trans; eauto.
  Qed.

  Lemma raw_has_lower t : (0 < length lvs0)%nat -> has_lower_input v (raw t).
  Proof.
    intros Hl. destruct H0 as (s & Hs & R1 & R2). exists s. unfold raw. cbn [clower]. split; [exact Hs|].
    apply is_input_spec. cbn [cinputs]. apply in_inputs_upto. exists 0%nat, s. repeat split; [lia|].
    destruct (cb_ok_first_le _ _ _ _ _ CB 0%nat Hl) as [A B].
    destruct (Nat.eq_dec lower 0) as [El|El].
    - rewrite sl0_all; auto. now rewrite <- El.
    - apply sl_complete; try lia.
      + rewrite Nat.add_0_r. exact Hs.
      + eapply key_leb_trans; eauto.
      + eapply key_leb_trans; eauto.
  Qed.

  (* ---------- the loop of find_best_compaction ---------- *)
  Definition Q (c : core) : Prop := adm v (cc c) /\ may_choose o og (cc c) = true /\ has_lower_input v (cc c).

  Lemma fbc_loop_adm : forall lvs t bs ovs inputs cand best r,
    lvs = skipn t lvs0 -> bs = skipn t bs0 -> inputs = inputs_upto t ->
    (forall c, cand = Some c -> Q c) ->
    fbc_loop o v og lower (lower + t) lvs bs ovs inputs cand best = Ok r ->
    forall c, fst r = Some c -> Q c.
  Proof.
    induction lvs as [|lv lvs' IH]; intros t bs ovs inputs cand best r El Eb Ei HQ H c Hc.
    - cbn in H. inversion H; subst r. auto.
    - destruct bs as [|b bs']; [cbn in H; inversion H; subst r; auto|].
      symmetry in El, Eb.
      destruct (skipn_cons_nth t lvs0 lv lvs' [] El) as (E1 & E2 & Ht).
      destruct (skipn_cons_nth t bs0 b bs' dls Eb) as (E3 & E4 & _).
      cbn [fbc_loop] in H.
      assert (Esl : slice lv (ls_lb b) (ls_ub b) = sl t) by (unfold sl; now rewrite <- E1, <- E3).
      rewrite Esl in H.
      destruct (negb (slice_in_range b (sl t))); [discriminate|].
      destruct (negb (in_i64 (acc_of ovs - overlap_of (sl t)))); [discriminate|].
      destruct ((as_i64 (o_max_compaction_bytes o) <? total_of (ovs ++ [overlap_of (sl t)]))%Z && negb (lower =? 0)%nat);
        [inversion H; subst r; auto|].
      destruct (((o_max_compaction_files o <? len (inputs ++ map fid (sl t))) && negb (lower =? 0)%nat)
                || (o_max_open_files o <? len (inputs ++ map fid (sl t)))); [inversion H; subst r; auto|].
      set (cb := if (lower <? lower + t)%nat && (best <? acc_of ovs - overlap_of (sl t))%Z
                 then let c0 := expand_compaction o v (mkC lower (lower + t) (ls_first b) (ls_last b) (inputs ++ map fid (sl t))) in
                      if may_choose o og c0
                      then (Some (mkCore c0 (as_u64 (total_of (ovs ++ [overlap_of (sl t)])))), (acc_of ovs - overlap_of (sl t))%Z)
                      else (cand, best)
                 else (cand, best)) in *.
      assert (HQ' : forall c', fst cb = Some c' -> Q c').
      { subst cb. destruct ((lower <? lower + t)%nat && (best <? acc_of ovs - overlap_of (sl t))%Z) eqn:EC; [|exact HQ].
        cbv zeta.
        destruct (may_choose o og (expand_compaction o v (mkC lower (lower + t) (ls_first b) (ls_last b) (inputs ++ map fid (sl t))))) eqn:EM; [|exact HQ].
        cbn [fst]. intros c' E. inversion E; subst c'; clear E. cbn [cc].
        apply andb_prop in EC. destruct EC as [EC _]. apply Nat.ltb_lt in EC.
        rewrite Ei, <- inputs_upto_S, E3. fold (raw t).
        split; [apply expand_adm; [exact WF|apply raw_adm; [lia|exact Ht]]|split].
        - unfold raw. rewrite <- E3, inputs_upto_S, <- Ei. exact EM.
        - apply expand_has_lower. apply raw_has_lower. lia. }
      destruct (ls_lb b =? ls_ub b)%nat.
      + inversion H; subst r. auto.
      + replace (S (lower + t)) with (lower + S t)%nat in H by lia.
        eapply (IH (S t) bs' (ovs ++ [overlap_of (sl t)]) (inputs ++ map fid (sl t)) (fst cb) (snd cb) r);
          [exact E2|exact E4| |exact HQ'|exact H|exact Hc].
        rewrite Ei. symmetry. apply inputs_upto_S.
  Qed.
End Raw.

Theorem find_best_adm o v og lower bs0 fk0 lk0 r c : sel_wf v ->
  cb_ok lower (skipn lower v) fk0 lk0 bs0 -> key_leb fk0 lk0 = true ->
  (exists s, In s (nth lower v []) /\ key_leb fk0 (first_key s) = true /\ key_leb (last_key s) lk0 = true) ->
  find_best_compaction o v og lower bs0 = Ok r -> fst r = Some c ->
  adm v (cc c) /\ may_choose o og (cc c) = true /\ has_lower_input v (cc c).
Proof.
  intros WF CB K0 H0 H Hc. unfold find_best_compaction in H.
  destruct (negb (lower <? length v)%nat || is_nil (nth lower v [])); [discriminate|].
  replace lower with (lower + 0)%nat in H at 2 by lia.
  eapply (fbc_loop_adm o v og lower bs0 fk0 lk0 WF CB K0 H0 (skipn lower v) O bs0); eauto; try reflexivity.
  discriminate.
Qed.
