(* Stall/ProofsNext.v — whatever next_compaction returns is admissible and may be chosen *)
From Coq Require Import NArith ZArith List Bool Arith Lia.
From Blue Require Import Lsm.Model Lsm.KeyOrder Lsm.LoadProofs Lsm.ListLemmas Lsm.CompactProofs
  Stall.Select Stall.ProofsBasic Stall.ProofsBounds Stall.ProofsAdm Stall.ProofsRaw.
Import ListNotations.
Open Scope N_scope.

Definition QQ (o : options) (v : version) (og : list compaction) (c : core) : Prop :=
  adm v (cc c) /\ may_choose o og (cc c) = true /\ has_lower_input v (cc c).

(* ---------- trivial moves ---------- *)
Lemma min_by_ts_spec : forall l best,
  In (min_by_ts best l) (best :: l) /\ forall g, In g (best :: l) -> biggest_ts (min_by_ts best l) <= biggest_ts g.
Proof.
  induction l as [|x l IH]; intros best; cbn [min_by_ts].
  - split; [now left|]. intros g [<-|[]]. lia.
  - destruct (N.ltb_spec (biggest_ts x) (biggest_ts best)) as [Hlt|Hge].
    + destruct (IH x) as [I1 I2]. split.
      * destruct I1 as [I1|I1]; [right; left; exact I1|right; right; exact I1].
      * intros g [<-|[<-|Hg]].
        -- specialize (I2 x (or_introl eq_refl)). lia.
        -- apply I2. now left.
        -- apply I2. now right.
    + destruct (IH best) as [I1 I2]. split.
      * destruct I1 as [I1|I1]; [left; exact I1|right; right; exact I1].
      * intros g [<-|[<-|Hg]].
        -- apply I2. now left.
        -- specialize (I2 best (or_introl eq_refl)). lia.
        -- apply I2. now right.
Qed.

Lemma first_some_in {A B} (f : A -> option B) l y : first_some f l = Some y -> exists x, In x l /\ f x = Some y.
Proof.
  induction l as [|x l IH]; cbn; [discriminate|].
  destruct (f x) eqn:E.
  - intros H. inversion H; subst. exists x. split; [now left|exact E].
  - intros H. destruct (IH H) as [x' [H1 H2]]. exists x'. split; [now right|exact H2].
Qed.

Lemma ftm_one_adm o v og lower sst c : sel_wf v -> In sst (nth lower v []) ->
  (lower = O -> forall g, In g (nth O v []) -> biggest_ts sst <= biggest_ts g) ->
  ftm_one o v og lower sst = Some c -> QQ o v og c.
Proof.
  intros (W & U & T) Hs Hmin H. unfold ftm_one in H.
  destruct ((S lower <? length v)%nat && negb (negb (lower =? 0)%nat &&
             existsb (fun x => negb (fid x =? fid sst) && key_leb (first_key x) (last_key sst) && key_leb (first_key sst) (last_key x)) (nth lower v []))
            && (lower_bound (nth (S lower) v []) (first_key sst) =? upper_bound (nth (S lower) v []) (last_key sst))%nat) eqn:E; [|discriminate].
  destruct (may_choose o og (mkC lower (S lower) (first_key sst) (last_key sst) [fid sst])) eqn:EM; [|discriminate].
  inversion H; subst c; clear H. unfold QQ. cbn [cc].
  split; [|split; [exact EM|exists sst; split; [exact Hs|apply is_input_spec; now left]]].
  apply andb_prop in E. destruct E as [E E3]. apply andb_prop in E. destruct E as [E1 E2].
  apply Nat.ltb_lt in E1. apply Nat.eqb_eq in E3. apply negb_true_iff in E2.
  assert (Wf : wf_fileb sst = true) by (eapply wf_files_nth; eauto).
  constructor.
  - unfold vc_shape, upper_level. cbn [clower cupper cfirst clast].
    apply andb_true_intro. split; [apply andb_true_intro; split; [apply andb_true_intro; split|]|].
    + apply Nat.ltb_lt. lia.
    + now apply Nat.ltb_lt.
    + now apply file_first_le_last.
    + apply Nat.leb_le. lia.
  - unfold vc_slice, upper_slice, upper_level, slice. cbn [clower cupper cfirst clast]. rewrite E3, Nat.sub_diag. reflexivity.
  - cbn [cinputs clower cupper cfirst clast]. intros x [<-|[]]. exists lower, sst.
    repeat split; auto; try lia; try apply key_leb_refl.
  - intros j m x g Hj Hjm Hm Hx Hg Ix Ig. cbn [clower cupper] in *.
    assert (j = lower) by lia. assert (m = lower) by lia. subst j m.
    apply is_input_spec in Ix. cbn [cinputs] in Ix. destruct Ix as [Ix|[]].
    assert (x = sst) by (eapply uniq_same_file; eauto). subst x.
    apply is_input_false in Ig. cbn [cinputs] in Ig.
    assert (Hne : fid g <> fid sst) by (intros C; apply Ig; left; now symmetry).
    destruct lower as [|l'].
    + right. repeat split; auto.
      specialize (Hmin eq_refl g Hg).
      assert (biggest_ts sst <> biggest_ts g).
      { intros C. apply Hne. f_equal. symmetry. eapply (nodup_map_inj biggest_ts (level0 v)); eauto; destruct v; auto. }
      lia.
    + left. cbn [Nat.eqb negb andb] in E2.
      destruct (files_overlap sst g) eqn:EO; [exfalso|reflexivity].
      assert (existsb (fun x => negb (fid x =? fid sst) && key_leb (first_key x) (last_key sst) && key_leb (first_key sst) (last_key x)) (nth (S l') v []) = true); [|congruence].
      apply existsb_exists. exists g. split; [exact Hg|].
      unfold files_overlap in EO. apply andb_prop in EO. destruct EO as [O1 O2].
      rewrite O1, O2. apply N.eqb_neq in Hne. rewrite Hne. reflexivity.
Qed.

Lemma find_trivial_move_adm o v og lvl c : sel_wf v -> find_trivial_move o v og lvl = Some c -> QQ o v og c.
Proof.
  intros WF H. unfold find_trivial_move in H.
  destruct (nth lvl v []) as [|f r] eqn:EL; [discriminate|].
  destruct (lvl =? 0)%nat eqn:E0.
  - apply Nat.eqb_eq in E0. subst lvl. destruct (min_by_ts_spec r f) as [M1 M2].
    eapply ftm_one_adm; [exact WF| | |exact H].
    + rewrite EL. exact M1.
    + intros _ g Hg. rewrite EL in Hg. now apply M2.
  - apply first_some_in in H. destruct H as [s [Hs H]].
    eapply ftm_one_adm; [exact WF| | |exact H].
    + now rewrite EL.
    + intros C. apply Nat.eqb_neq in E0. contradiction.
Qed.

(* ---------- the scored candidates ---------- *)
Definition PD (o : options) (v : version) (og : list compaction) (st : dstate) : Prop :=
  (forall c, d_cand st = Some c -> QQ o v og c) /\ (forall c, d_mand st = Some c -> QQ o v og c).

Lemma wfl_skipn_levels v lower j : wf_version v -> (1 <= lower + j)%nat -> wfl (nth j (skipn lower v) []).
Proof. intros W H. rewrite nth_skipn'. now apply wfl_nth. Qed.

Lemma deep_sst_PD o v og mf lower st sst st' : sel_wf v -> (1 <= lower)%nat -> In sst (nth lower v []) ->
  PD o v og st -> deep_sst o v og mf lower st sst = Ok st' -> PD o v og st'.
Proof.
  intros WF Hl Hs [P1 P2] H. unfold deep_sst in H.
  destruct (compute_bounds v lower (first_key sst) (last_key sst)) as [bs| |] eqn:EB; cbn [res_bind] in H; try discriminate.
  destruct (find_best_compaction o v og lower bs) as [[oc score]| |] eqn:EF; cbn [res_bind] in H; try discriminate.
  destruct oc as [c|]; [|inversion H; subst; split; auto].
  assert (QC : QQ o v og c).
  { destruct WF as (W & U & T).
    eapply (find_best_adm o v og lower bs (first_key sst) (last_key sst) (Some c, score) c); auto.
    - repeat split; auto.
    - unfold compute_bounds in EB. apply cb_levels_ok; [|exact EB]. intros j Hj. now apply wfl_skipn_levels.
    - apply file_first_le_last. eapply wf_files_nth; eauto.
    - exists sst. repeat split; auto; apply key_leb_refl. }
  destruct (mf && forallb (fun x => is_input (cc c) x) (nth lower v []) &&
            (csize c <? match d_mand st with Some m => csize m | None => 0 end)).
  - inversion H; subst st'. split; cbn [d_cand d_mand]; [exact P1|]. intros c' E. inversion E; subst. exact QC.
  - destruct (d_best st <? score)%Z.
    + inversion H; subst st'. split; cbn [d_cand d_mand]; [|exact P2]. intros c' E. inversion E; subst. exact QC.
    + inversion H; subst. split; auto.
Qed.

Lemma deep_ssts_PD o v og mf lower : sel_wf v -> (1 <= lower)%nat -> forall ssts st st',
  (forall s, In s ssts -> In s (nth lower v [])) ->
  PD o v og st -> deep_ssts o v og mf lower st ssts = Ok st' -> PD o v og st'.
Proof.
  intros WF Hl. induction ssts as [|s r IH]; intros st st' Hs P H; cbn [deep_ssts] in H.
  - inversion H; subst. exact P.
  - destruct (deep_sst o v og mf lower st s) as [st1| |] eqn:E; cbn [res_bind] in H; try discriminate.
    eapply IH; [intros x Hx; apply Hs; now right| |exact H].
    eapply deep_sst_PD; eauto. apply Hs. now left.
Qed.

Lemma deep_levels_PD o v og mf : sel_wf v -> forall lowers st st',
  (forall l, In l lowers -> (1 <= l)%nat) ->
  PD o v og st -> deep_levels o v og mf st lowers = Ok st' -> PD o v og st'.
Proof.
  intros WF. induction lowers as [|l r IH]; intros st st' Hl P H; cbn [deep_levels] in H.
  - inversion H; subst. exact P.
  - destruct (deep_level o v og mf st l) as [st1| |] eqn:E; cbn [res_bind] in H; try discriminate.
    eapply IH; [intros x Hx; apply Hl; now right| |exact H].
    unfold deep_level in E.
    destruct ((level_size (nth (l - 1) v []) <? level_size (nth l v []) / level_curve l) && negb mf).
    + inversion E; subst. exact P.
    + eapply (deep_ssts_PD o v og mf l WF (Hl l (or_introl eq_refl)) (nth l v []) st st1); [intros s Hs; exact Hs|exact P|exact E].
Qed.

Lemma l0_part_PD o v og mf st : sel_wf v -> l0_part o v og mf = Ok st -> PD o v og st.
Proof.
  intros WF H. unfold l0_part in H.
  destruct (level0 v) as [|f r] eqn:E0.
  - inversion H; subst. split; cbn; discriminate.
  - set (fk := min_key (first_key f) (map first_key r)) in *.
    set (lk := max_key (last_key f) (map last_key r)) in *.
    destruct (compute_bounds v 0 fk lk) as [bs| |] eqn:EB; cbn [res_bind] in H; try discriminate.
    destruct (find_best_compaction o v og 0 bs) as [[oc score]| |] eqn:EF; cbn [res_bind] in H; try discriminate.
    destruct oc as [c|]; [|inversion H; subst; split; cbn; discriminate].
    assert (QC : QQ o v og c).
    { destruct WF as (W & U & T).
      eapply (find_best_adm o v og 0 bs fk lk (Some c, score) c); auto.
      - repeat split; auto.
      - unfold compute_bounds in EB. apply cb_levels_ok; [|exact EB]. intros j Hj. now apply wfl_skipn_levels.
      - subst fk lk. eapply key_leb_trans; [apply min_key_le_init|].
        eapply key_leb_trans; [|apply max_key_ge_init].
        apply file_first_le_last. apply (wf_files_nth v O f W). unfold level0 in E0. destruct v; [discriminate|]. cbn in *. rewrite E0. now left.
      - exists f. split; [unfold level0 in E0; destruct v; [discriminate|]; cbn in *; rewrite E0; now left|].
        subst fk lk. split; [apply min_key_le_init|apply max_key_ge_init]. }
    destruct mf; inversion H; subst; split; cbn [d_cand d_mand]; try discriminate; intros c' E; inversion E; subst; exact QC.
Qed.

Theorem next_compaction_adm o v og out c : sel_wf v ->
  next_compaction o v og = Ok out -> nc_choice out = Some c -> QQ o v og c.
Proof.
  intros WF H Hc. unfold next_compaction in H.
  destruct (first_some (find_trivial_move o v og) (List.seq 0 (length v - 1))) as [c0|] eqn:ET.
  - inversion H; subst out. cbn in Hc. inversion Hc; subst c0.
    apply first_some_in in ET. destruct ET as [lvl [_ ET]]. eapply find_trivial_move_adm; eauto.
  - destruct (l0_part o v og (should_mandatory o v)) as [st0| |] eqn:E0; cbn [res_bind] in H; try discriminate.
    destruct (deep_levels o v og (should_mandatory o v) st0 (rev (List.seq 1 (length v - 2)))) as [st| |] eqn:ED; cbn [res_bind] in H; try discriminate.
    assert (P : PD o v og st).
    { eapply deep_levels_PD; [exact WF| | |exact ED].
      - intros l Hl. apply in_rev in Hl. apply in_seq in Hl. lia.
      - eapply l0_part_PD; eauto. }
    destruct P as [P1 P2].
    destruct (d_mand st) as [m|] eqn:EM.
    + inversion H; subst out. cbn in Hc. inversion Hc; subst. now apply P2.
    + destruct (d_cand st) as [c1|] eqn:EC.
      * destruct (0 <=? d_best st)%Z; inversion H; subst out; cbn in Hc; [|discriminate]. inversion Hc; subst. now apply P1.
      * inversion H; subst out. cbn in Hc. discriminate.
Qed.

(* the headline: on a well-formed tree every choice of the selector is admissible (Lsm's
   valid_compactionb), whatever is ongoing and whatever the options *)
Theorem selector_admissible o v og out c : sel_wf v ->
  next_compaction o v og = Ok out -> nc_choice out = Some c -> valid_compactionb v (cc c) = true.
Proof.
  intros WF H Hc. destruct (next_compaction_adm o v og out c WF H Hc) as (A & _ & _). now apply adm_valid.
Qed.

Theorem selector_may_choose o v og out c : sel_wf v ->
  next_compaction o v og = Ok out -> nc_choice out = Some c -> may_choose o og (cc c) = true.
Proof. intros WF H Hc. now destruct (next_compaction_adm o v og out c WF H Hc) as (_ & M & _). Qed.

Theorem selector_takes_from_lower o v og out c : sel_wf v ->
  next_compaction o v og = Ok out -> nc_choice out = Some c -> has_lower_input v (cc c).
Proof. intros WF H Hc. now destruct (next_compaction_adm o v og out c WF H Hc) as (_ & _ & L). Qed.
