(* Stall/ProofsStall.v — the purely functional side of liveness:
   - ingest keeps should_stall_ingest true (only an applied compaction can clear it);
   - outside the known class a stalled tree with nothing ongoing always has a compaction. *)
From Coq Require Import NArith ZArith List Bool Arith Lia.
From Blue Require Import Lsm.Model Lsm.KeyOrder Lsm.LoadProofs Lsm.ListLemmas Lsm.CompactProofs
  Stall.Select Stall.Known Stall.ProofsBasic Stall.ProofsBounds Stall.ProofsAdm Stall.ProofsRaw
  Stall.ProofsTotal.
Import ListNotations.
Open Scope N_scope.

(* ---------- level sizes, ingest ---------- *)
Lemma u64_val : U64 = 18446744073709551616.
Proof. reflexivity. Qed.

Lemma fold_size_app lv f a :
  fold_left (fun a g => sat_u64 a (fsize g)) (lv ++ [f]) a = sat_u64 (fold_left (fun a g => sat_u64 a (fsize g)) lv a) (fsize f).
Proof. now rewrite fold_left_app. Qed.

Lemma fold_size_bound lv : forall a, a <= U64 - 1 -> fold_left (fun a g => sat_u64 a (fsize g)) lv a <= U64 - 1.
Proof.
  induction lv as [|g r IH]; intros a Ha; cbn; [exact Ha|]. apply IH. unfold sat_u64. apply N.le_min_r.
Qed.

Lemma level_size_bound lv : level_size lv <= U64 - 1.
Proof. unfold level_size. apply fold_size_bound. rewrite u64_val. lia. Qed.

Lemma level_size_snoc lv f : level_size lv <= level_size (lv ++ [f]).
Proof.
  unfold level_size. rewrite fold_size_app. pose proof (level_size_bound lv) as B. unfold level_size in B.
  unfold sat_u64. apply N.min_glb; [lia|exact B].
Qed.

Lemma level0_ingest v f : v <> [] -> level0 (ingest v f) = level0 v ++ [f].
Proof. unfold ingest, level0. destruct v as [|l0 r]; [congruence|]. reflexivity. Qed.

Theorem should_stall_ingest_mono o v f : v <> [] ->
  should_stall_ingest o v = true -> should_stall_ingest o (ingest v f) = true.
Proof.
  intros Hv H. unfold should_stall_ingest in *. rewrite level0_ingest by exact Hv.
  apply orb_prop in H. apply orb_true_iff. destruct H as [H|H]; [left|right].
  - apply N.leb_le in H. apply N.leb_le. rewrite len_app. lia.
  - apply N.leb_le in H. apply N.leb_le. pose proof (level_size_snoc (level0 v) f). lia.
Qed.

(* ---------- a candidate survives the rest of the loop; a mandatory choice survives the rest
              of next_compaction ---------- *)
Lemma fbc_loop_some o v og lower : forall lvs upper bs ovs inputs c best r,
  fbc_loop o v og lower upper lvs bs ovs inputs (Some c) best = Ok r -> exists c', fst r = Some c'.
Proof.
  induction lvs as [|lv lvs' IH]; intros upper bs ovs inputs c best r H; [cbn in H; inversion H; cbn; eauto|].
  destruct bs as [|b bs']; [cbn in H; inversion H; cbn; eauto|].
  cbn [fbc_loop] in H.
  destruct (negb (slice_in_range b (slice lv (ls_lb b) (ls_ub b)))); [discriminate|].
  destruct (negb (in_i64 (acc_of ovs - overlap_of (slice lv (ls_lb b) (ls_ub b))))); [discriminate|].
  destruct ((as_i64 (o_max_compaction_bytes o) <? total_of (ovs ++ [overlap_of (slice lv (ls_lb b) (ls_ub b))]))%Z && negb (lower =? 0)%nat);
    [inversion H; cbn; eauto|].
  destruct (((o_max_compaction_files o <? len (inputs ++ map fid (slice lv (ls_lb b) (ls_ub b)))) && negb (lower =? 0)%nat)
            || (o_max_open_files o <? len (inputs ++ map fid (slice lv (ls_lb b) (ls_ub b))))); [inversion H; cbn; eauto|].
  match type of H with context [if (ls_lb b =? ls_ub b)%nat then Ok ?x else _] => set (cb := x) in * end.
  assert (Hcb : exists c', fst cb = Some c').
  { subst cb. destruct ((lower <? upper)%nat && (best <? acc_of ovs - overlap_of (slice lv (ls_lb b) (ls_ub b)))%Z); [|cbn; eauto].
    cbv zeta. match goal with |- context [if ?m then _ else _] => destruct m end; cbn; eauto. }
  destruct Hcb as [c' Hc'].
  destruct (ls_lb b =? ls_ub b)%nat; [inversion H; subst r; eauto|].
  destruct cb as [oc bst]. cbn [fst snd] in *. subst oc. eapply IH; eauto.
Qed.

Lemma deep_sst_mand o v og mf lower st sst st' : d_mand st <> None ->
  deep_sst o v og mf lower st sst = Ok st' -> d_mand st' <> None.
Proof.
  intros Hm H. unfold deep_sst in H.
  destruct (compute_bounds v lower (first_key sst) (last_key sst)) as [bs| |]; cbn [res_bind] in H; try discriminate.
  destruct (find_best_compaction o v og lower bs) as [[oc score]| |]; cbn [res_bind] in H; try discriminate.
  destruct oc as [c|]; [|inversion H; subst; exact Hm].
  destruct (mf && forallb (fun x => is_input (cc c) x) (nth lower v []) && (csize c <? match d_mand st with Some m => csize m | None => 0 end)).
  - inversion H; subst. cbn. discriminate.
  - destruct (d_best st <? score)%Z; inversion H; subst; cbn; exact Hm.
Qed.

Lemma deep_ssts_mand o v og mf lower : forall ssts st st', d_mand st <> None ->
  deep_ssts o v og mf lower st ssts = Ok st' -> d_mand st' <> None.
Proof.
  induction ssts as [|s r IH]; intros st st' Hm H; cbn [deep_ssts] in H; [inversion H; subst; exact Hm|].
  destruct (deep_sst o v og mf lower st s) as [st1| |] eqn:E; cbn [res_bind] in H; try discriminate.
  eapply IH; [|exact H]. eapply deep_sst_mand; eauto.
Qed.

Lemma deep_levels_mand o v og mf : forall lowers st st', d_mand st <> None ->
  deep_levels o v og mf st lowers = Ok st' -> d_mand st' <> None.
Proof.
  induction lowers as [|l r IH]; intros st st' Hm H; cbn [deep_levels] in H; [inversion H; subst; exact Hm|].
  destruct (deep_level o v og mf st l) as [st1| |] eqn:E; cbn [res_bind] in H; try discriminate.
  eapply IH; [|exact H]. unfold deep_level in E.
  destruct ((level_size (nth (l - 1) v []) <? level_size (nth l v []) / level_curve l) && negb mf).
  - inversion E; subst. exact Hm.
  - eapply deep_ssts_mand; eauto.
Qed.

(* ---------- expansion adds nothing when every file in range is already an input ---------- *)
Lemma exp_level_noadd o (v : version) c lvl fk lk : forall ssts,
  (forall s, In s ssts -> key_leb fk (first_key s) = true -> key_leb (last_key s) lk = true -> is_input c s = true) ->
  exp_level o v c lvl fk lk ssts [] = None \/ exp_level o v c lvl fk lk ssts [] = Some [].
Proof.
  induction ssts as [|s r IH]; intros H; cbn [exp_level]; [now right|].
  destruct ((o_max_compaction_files o <? len (cinputs c) + len (@nil file)) || (o_max_open_files o <? len (cinputs c) + len (@nil file))); [now left|].
  assert (E : key_leb fk (first_key s) && key_leb (last_key s) lk && negb (is_input c s) && exp_closed v c lvl s = false).
  { destruct (key_leb fk (first_key s)) eqn:E1; [|reflexivity]. destruct (key_leb (last_key s) lk) eqn:E2; [|reflexivity].
    rewrite (H s (or_introl eq_refl) E1 E2). reflexivity. }
  rewrite E. apply IH. intros s' Hs'. apply H. now right.
Qed.

Lemma exp_levels_noop o (v : version) c fk lk : forall n lvl,
  (forall l s, (l <= lvl)%nat -> In s (nth l v []) -> key_leb fk (first_key s) = true -> key_leb (last_key s) lk = true -> is_input c s = true) ->
  exp_levels o v n lvl c fk lk = c.
Proof.
  induction n as [|n IH]; intros lvl H; cbn [exp_levels]; [reflexivity|].
  destruct (exp_level_noadd o v c lvl fk lk (nth lvl v []) (fun s => H lvl s (le_n lvl))) as [E|E]; rewrite E; [reflexivity|].
  apply IH. intros l s Hl. apply H. lia.
Qed.

(* ---------- the compaction out of level 0 ---------- *)
Lemma score_above_min a b : i64_nonneg a -> i64_nonneg b -> (I64_MIN <? a - b)%Z = true.
Proof. unfold i64_nonneg. rewrite i64_max_val, i64_min_val. intros. apply Z.ltb_lt. lia. Qed.

Lemma acc_of_single x : i64_nonneg x -> i64_nonneg (acc_of [x]).
Proof. intros H. apply acc_of_nonneg. constructor; [exact H|constructor]. Qed.

Lemma l0_candidate o v f r bs rr :
  sel_wfb v = true -> level0 v = f :: r ->
  compute_bounds v 0 (min_key (first_key f) (map first_key r)) (max_key (last_key f) (map last_key r)) = Ok bs ->
  len (level0 v) + l1_overlap v < o_max_open_files o ->
  find_best_compaction o v [] 0 bs = Ok rr -> exists c, fst rr = Some c.
Proof.
  intros Hwf E0 EB Hmof H.
  pose proof (sel_wfb_wf v Hwf) as WF. destruct WF as (W & U & T).
  assert (ST : small_tree v).
  { apply sizes_okb_small. unfold sel_wfb in Hwf. apply andb_prop in Hwf. destruct Hwf as [Hwf _]. apply andb_prop in Hwf. tauto. }
  assert (L2 : (2 <= length v)%nat).
  { unfold sel_wfb in Hwf. apply andb_prop in Hwf. destruct Hwf as [_ Hwf]. now apply Nat.leb_le in Hwf. }
  set (fk := min_key (first_key f) (map first_key r)) in *. set (lk := max_key (last_key f) (map last_key r)) in *.
  assert (K0 : key_leb fk lk = true).
  { subst fk lk. eapply key_leb_trans; [apply min_key_le_init|]. eapply key_leb_trans; [|apply max_key_ge_init].
    apply file_first_le_last. apply (wf_files_nth v O f W). unfold level0 in E0. destruct v; [discriminate|]. cbn in *. rewrite E0. now left. }
  assert (CB : cb_ok 0 (skipn 0 v) fk lk bs).
  { unfold compute_bounds in EB. apply cb_levels_ok; [|exact EB]. intros j Hj. now apply wfl_skipn_levels'. }
  assert (WF : sel_wf v) by (repeat split; auto).
  (* the slices of levels 0 and 1 *)
  pose proof (sl0_all v 0 bs fk lk CB eq_refl) as S0. rewrite skipn_length in S0. specialize (S0 ltac:(lia)).
  assert (Ov : l1_overlap v = len (sl v 0 bs 1)).
  { unfold l1_overlap. rewrite E0. fold fk lk. rewrite EB.
    pose proof (cb_ok_length _ _ _ _ _ CB) as LB. cbn [skipn] in LB.
    destruct bs as [|b0 [|b1 bs']]; try (cbn in LB; lia).
    unfold sl, len, slice. cbn [skipn nth]. f_equal. symmetry. apply slice_length.
    destruct (cb_ok_nth _ _ _ _ _ CB 1%nat ltac:(rewrite skipn_length; lia)) as (_ & _ & (_ & _ & _ & S4) & _).
    cbn [Nat.add Nat.eqb nth skipn] in S4. destruct S4 as [_ ->]. apply ub_le_len. }
  (* unfold the first two iterations *)
  unfold find_best_compaction in H.
  destruct (negb (0 <? length v)%nat || is_nil (nth 0 v [])); [discriminate|].
  pose proof (cb_ok_length _ _ _ _ _ CB) as LB. cbn [skipn] in LB.
  destruct v as [|L0 [|L1 rest]]; try (cbn in L2; lia).
  destruct bs as [|b0 [|b1 bs']]; try (cbn in LB; lia).
  cbn [level0 hd] in E0. cbn [skipn] in H.
  assert (S0' : slice L0 (ls_lb b0) (ls_ub b0) = L0) by exact S0.
  cbn [fbc_loop] in H. rewrite S0' in H.
  destruct (negb (slice_in_range b0 L0)); [discriminate|].
  destruct (negb (in_i64 (acc_of [] - overlap_of L0))); [discriminate|].
  cbn [Nat.eqb negb] in H. rewrite ?andb_false_r in H. cbn [orb app] in H.
  assert (N0 : (o_max_open_files o <? len (map fid L0)) = false).
  { apply N.ltb_ge. rewrite len_map. cbn [level0 hd] in Hmof. lia. }
  rewrite N0 in H. cbn [Nat.ltb Nat.leb andb fst snd] in H.
  assert (NE : (ls_lb b0 =? ls_ub b0)%nat = false).
  { destruct (cb_ok_nth _ _ _ _ _ CB 0%nat ltac:(cbn; lia)) as (_ & _ & (_ & _ & _ & S4) & _).
    cbn [Nat.add Nat.eqb nth skipn] in S4. destruct S4 as [-> ->]. rewrite E0. reflexivity. }
  rewrite NE in H.
  (* second iteration: upper level 1 *)
  cbn [fbc_loop] in H.
  assert (S1' : slice L1 (ls_lb b1) (ls_ub b1) = sl (L0 :: L1 :: rest) 0 (b0 :: b1 :: bs') 1) by reflexivity.
  rewrite S1' in H. set (s1 := sl (L0 :: L1 :: rest) 0 (b0 :: b1 :: bs') 1) in *.
  destruct (negb (slice_in_range b1 s1)); [discriminate|].
  destruct (negb (in_i64 (acc_of [overlap_of L0] - overlap_of s1))) eqn:EI; [discriminate|].
  cbn [Nat.eqb negb] in H. rewrite ?andb_false_r in H. cbn [orb] in H.
  assert (N1 : (o_max_open_files o <? len (map fid L0 ++ map fid s1)) = false).
  { apply N.ltb_ge. rewrite len_app, !len_map. cbn [level0 hd] in Hmof. rewrite Ov in Hmof. fold s1 in Hmof. lia. }
  rewrite N1 in H.
  assert (HL0 : small_files L0) by (apply ST; now left).
  assert (HS1 : small_files s1).
  { intros g Hg. apply (ST L1); [right; now left|]. subst s1. unfold sl in Hg. cbn [skipn nth] in Hg. eapply in_slice; eauto. }
  assert (SC : (I64_MIN <? acc_of [overlap_of L0] - overlap_of s1)%Z = true).
  { apply score_above_min; [apply acc_of_single; now apply overlap_of_nonneg|now apply overlap_of_nonneg]. }
  rewrite SC in H. cbn [Nat.ltb Nat.leb andb] in H.
  (* the expansion adds nothing, and the candidate may be chosen *)
  set (c1 := mkC 0 1 (ls_first b1) (ls_last b1) (map fid L0 ++ map fid s1)) in *.
  assert (EX : expand_compaction o (L0 :: L1 :: rest) c1 = c1).
  { unfold expand_compaction. apply exp_levels_noop. intros l s Hl Hs R1 R2. apply is_input_spec. subst c1. cbn [cinputs cfirst clast cupper] in *.
    apply in_or_app. destruct l as [|[|l]]; [| |lia].
    - left. apply in_map. exact Hs.
    - right. apply in_map. subst s1.
      apply (sl_complete (L0 :: L1 :: rest) 0 (b0 :: b1 :: bs') fk lk WF CB K0 1 s); auto; cbn; lia. }
  rewrite EX in H.
  assert (MC : may_choose o [] c1 = true).
  { unfold may_choose. subst c1. cbn [clower cupper cinputs Nat.eqb fold_left existsb negb].
    assert (E : (o_max_open_files o <=? len (map fid L0 ++ map fid s1) + 0) = false).
    { apply N.leb_gt. rewrite len_app, !len_map. cbn [level0 hd] in Hmof. rewrite Ov in Hmof. fold s1 in Hmof. lia. }
    rewrite E. reflexivity. }
  rewrite MC in H. cbn [fst snd] in H.
  destruct (ls_lb b1 =? ls_ub b1)%nat.
  - inversion H; subst rr. cbn. eauto.
  - eapply fbc_loop_some; eauto.
Qed.

(* ---------- stall_relievable when the mandatory condition holds ---------- *)
Theorem stall_relievable_mandatory o v : sel_wfb v = true -> is_nil (level0 v) = false ->
  should_mandatory o v = true -> len (level0 v) + l1_overlap v < o_max_open_files o ->
  exists out c, next_compaction o v [] = Ok out /\ nc_choice out = Some c.
Proof.
  intros Hwf K1 K2 K3. destruct (next_compaction_total o v [] Hwf) as [out E]. exists out.
  assert (C : exists c, nc_choice out = Some c); [|destruct C as [c C]; exists c; split; assumption].
  unfold next_compaction in E.
  destruct (first_some (find_trivial_move o v []) (List.seq 0 (length v - 1))) as [c0|] eqn:ET.
  - inversion E; subst out. cbn. eauto.
  - rewrite K2 in E.
    destruct (l0_part o v [] true) as [st0| |] eqn:E0; cbn [res_bind] in E; try discriminate.
    assert (M0 : d_mand st0 <> None).
    { unfold l0_part in E0. destruct (level0 v) as [|f r] eqn:EL; [cbn in K1; discriminate|].
      destruct (compute_bounds v 0 (min_key (first_key f) (map first_key r)) (max_key (last_key f) (map last_key r))) as [bs| |] eqn:EB;
        cbn [res_bind] in E0; try discriminate.
      destruct (find_best_compaction o v [] 0 bs) as [[oc score]| |] eqn:EF; cbn [res_bind] in E0; try discriminate.
      rewrite <- EL in K3.
      destruct (l0_candidate o v f r bs (oc, score) Hwf EL EB K3 EF) as [c Hc]. cbn [fst] in Hc. subst oc.
      inversion E0; subst st0. cbn. discriminate. }
    destruct (deep_levels o v [] true st0 (rev (List.seq 1 (length v - 2)))) as [st| |] eqn:ED; cbn [res_bind] in E; try discriminate.
    pose proof (deep_levels_mand _ _ _ _ _ _ _ M0 ED) as M.
    destruct (d_mand st) as [m|]; [|congruence]. inversion E; subst out. cbn. eauto.
Qed.

Lemma l1_overlap_le v : sel_wfb v = true -> l1_overlap v <= len (nth 1 v []).
Proof.
  intros Hwf. pose proof (sel_wfb_wf v Hwf) as (W & _ & _). unfold l1_overlap.
  destruct (level0 v) as [|f r] eqn:EL; [lia|].
  destruct (compute_bounds v 0 (min_key (first_key f) (map first_key r)) (max_key (last_key f) (map last_key r))) as [bs| |] eqn:EB; try lia.
  destruct bs as [|b0 [|b1 bs']]; try lia.
  assert (CB : cb_ok 0 (skipn 0 v) (min_key (first_key f) (map first_key r)) (max_key (last_key f) (map last_key r)) (b0 :: b1 :: bs')).
  { unfold compute_bounds in EB. apply cb_levels_ok; [|exact EB]. intros j Hj. now apply wfl_skipn_levels'. }
  pose proof (cb_ok_length _ _ _ _ _ CB) as LB. cbn [skipn length] in LB.
  destruct (cb_ok_nth _ _ _ _ _ CB 1%nat ltac:(cbn [skipn]; lia)) as (_ & _ & (_ & _ & _ & S4) & _).
  cbn [Nat.add Nat.eqb nth skipn] in S4. destruct S4 as [_ S4]. unfold len.
  pose proof (ub_le_len (nth 1 v []) (ls_last b1)). lia.
Qed.

