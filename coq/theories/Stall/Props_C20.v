(* Stall/Props_C20.v — C20: writes keep completing: ingest and compaction never wait on each other
   forever.  Only the property theorems; models are Stall/Select.v (the compaction selector of
   lsmtk/src/tree/mod.rs, after the repairs 497a84e, 764f777, 0634ccd), Stall/Proto.v (the
   stall / compact condition-variable protocol) and Stall/Known.v (the known class).

   Reading of the property.  "While a flush thread and at least one compaction thread are
   running" = runs of Proto.step from Proto.init in which at least one compaction thread has not
   returned.  A compaction thread returns (CDead) when perform_compaction fails with an I/O
   error - covered: the failing thread releases its compaction and, since 33fc9d3, wakes the
   others - or when the selector does not return, which never happens on a well-formed tree
   (C20_selector_total).  A stall in the sense of observe_at ("every store thread is parked and
   no wake-up is pending") is Proto.all_parked: every compaction thread that has not returned is
   parked, at least one is left, an ingest is parked, none is running.  The liveness claim for
   INGEST is proved in its safety form:
     - no wake-up is ever lost (C20_no_lost_wakeup_stall / _compact; before 33fc9d3 the second
       was false: C20_no_lost_wakeup_compact_refuted_before_repair);
     - therefore the store is stuck exactly when should_stall_ingest holds, nothing is ongoing
       and the selector hands out nothing (C20_all_parked_is_unrelievable_stall), and that state
       is permanent (C20_stall_is_forever);
     - the selector returns something in every stalled state outside the class K-stall
       (C20_stall_relievable_outside_known), for every option setting; inside the class the
       statement is false (C20_stall_relievable_refuted, C20_deadlock_reachable_in_known_class);
     - and the store cannot compact forever instead: every admissible compaction that takes a
       file from above its upper level lowers a measure of the tree
       (C20_admissible_compaction_lowers_measure, for the version it is applied to), every
       compaction the selector picks is one (C20_compaction_lowers_measure), so at most mu v
       select-and-apply steps fit between two ingests (C20_compaction_runs_are_bounded_sequential).
       The run-level bound is SEQUENTIAL: with K >= 2 threads a compaction is selected on one
       version and applied to a later one; C01_concurrent_apply_is_valid (Lsm) shows it is still
       admissible there, and C20_concurrent_apply_keeps_what_lowers_measure /
       C20_ingest_keeps_what_lowers_measure show that each non-conflicting apply and each L0 push
       in between leaves the entries it takes from above its upper level unchanged, so it still
       lowers mu when applied; the induction over a whole concurrent run is not written out, so
       the bound for several threads is per step, not per run.
   `sel_wfb (p_v s)` in theorem 1 is a hypothesis about the reached state, not an invariant of
   Proto.steps (s_apply takes arbitrary outputs); the check asserts it after every applied
   compaction of every real run, and C01_concurrent_invariant_reachable proves well-formedness
   for the runs of C01's machine; the two machines are not composed here.
   The clause "every put, delete, batch eventually returns" has no liveness theorem here: C06
   proves the write path safe (Conc/Props_C06.v), C18 proves the hand-over of the wait list live
   (C18_waitlist_handover, C18_queue_no_deadlock), for at most `slots` writers in flight nobody
   blocks in link (Example wait_list_ring_has_room in Props_C06 says the ring has room); the
   composition is not stated.  Known class `waitlist-full`: with more than MAX_CONCURRENCY = 65536
   writers inside KeyValueStore::write the extra one sleeps in WaitList::link holding the store
   mutex and every writer, reader and flush stops forever (the check demonstrates it on a 2-slot
   ring through the hook sync42::verif::set_slots).  Observation, not a violation: puts never
   wait on ingest (nothing waits on cnd_memtable_rolled_over), so while ingest is stalled the
   memtable grows without back-pressure.
   Locks.  Proto models the `compaction` mutex of LsmTree and the two condition variables `stall`
   and `compact` that are waited on with it, nothing else.  The other locks of the store (the
   manifest RwLock `mani`, the `version` mutex, the store mutex of KeyValueStore and its wait
   list, the file manager) are taken inside those critical sections and, in the code as it is,
   never held across a wait; the model does not show that.  A change that holds one of them
   across stall.wait / compact.wait (e.g. mani.write() taken before the stall loop) deadlocks the
   store without ever reaching Proto.all_parked; the check catches such a state by progress only
   (watchdog verdict `lockheld`: the compaction mutex or the store mutex cannot be had for 5 s
   while a flush waits; gated-writer schedules: a put does not return although nothing is stalled).
   Not proved here: fairness of the scheduler and of Mutex/Condvar (a runnable thread runs). *)
From Coq Require Import NArith ZArith List Bool Arith.
From Blue Require Import Gen.Const_Stall Lsm.Model Stall.Select Stall.Known Stall.Proto
  Stall.ProofsBounds Stall.ProofsAdm Stall.ProofsNext Stall.ProofsTotal Stall.ProofsStall Stall.ProofsRelief Stall.ProofsProto Stall.ProofsMeasure Stall.ProofsProgress Stall.ProofsConcMeasure.
From Blue Require Lsm.History Stall.EndToEnd Lsm.ModelConcurrent Lsm.ConcStable.
From Blue Require Import Lsm.LoadProofs.
Import ListNotations.
Open Scope N_scope.

(* 1. Outside the known class the store threads never all wait on one another: in every state
      reachable from an open store (`steps true` = the protocol after the repair 33fc9d3), by
      every interleaving of client ingests, 1..K compaction threads, spurious wake-ups and
      compactions that fail with an error (their thread returns; all_parked asks that every
      compaction thread that has NOT returned is parked and that at least one is left, the
      property's premise), for every option setting. *)
Theorem C20_no_deadlock_outside_known : forall o v nc ni s,
  steps true o (init v nc ni) s -> sel_wfb (p_v s) = true -> known_stall o (p_v s) = false -> ~ all_parked s.
Proof. exact no_deadlock_outside_known. Qed.

(* 2. All store threads parked = ingest is stalled, nothing is ongoing, the selector has nothing. *)
Theorem C20_all_parked_is_unrelievable_stall : forall o v nc ni s,
  steps true o (init v nc ni) s -> all_parked s ->
  should_stall_ingest o (p_v s) = true /\ p_og s = [] /\
  forall out c, next_compaction o (p_v s) [] = Ok out -> nc_choice out <> Some c.
Proof. exact all_parked_is_unrelievable_stall. Qed.

(* 3. No lost wake-up on `stall`: a thread inside stall.wait that has not been notified still
      has should_stall_ingest true (every applied compaction notifies; ingests only grow L0). *)
Theorem C20_no_lost_wakeup_stall : forall o v nc ni s i f,
  steps true o (init v nc ni) s -> nth_error (p_i s) i = Some (IWait f) -> should_stall_ingest o (p_v s) = true.
Proof. exact no_lost_wakeup_stall. Qed.

(* 4. No lost wake-up on `compact`: when every compaction thread that has not returned is inside
      compact.wait, none has been notified and at least one is left, nothing is ongoing and
      next_compaction, asked now, hands out no compaction.  Every event that creates work wakes
      the sleepers: an ingest, an applied compaction (its thread re-selects), and - since
      33fc9d3 - a compaction released by a thread that failed. *)
Theorem C20_no_lost_wakeup_compact : forall o v nc ni s,
  steps true o (init v nc ni) s -> all_compactors_parked s ->
  p_og s = [] /\ forall out c, next_compaction o (p_v s) [] = Ok out -> nc_choice out <> Some c.
Proof. exact no_lost_wakeup_compact. Qed.

(* 5. stall_relievable, outside the known class, for all usize option settings and all
      well-formed trees (the stall hypothesis is not even needed). *)
Theorem C20_stall_relievable_outside_known : forall o v,
  sel_wfb v = true -> should_stall_ingest o v = true -> known_stall o v = false ->
  exists out c, next_compaction o v [] = Ok out /\ nc_choice out = Some c.
Proof. intros o v W _ K. now apply stall_relievable_outside_known. Qed.

(* 5'. the class from the options alone: stall thresholds >= 1, mandatory thresholds not above
       them, max_open_files above the number of files in levels 0 and 1.  (Known.known_stall is
       tighter: level 0 empty, or max_open_files <= |L0| + |L1 overlap| under the mandatory
       condition, or max_open_files <= number of files in the tree without it.) *)
Theorem C20_stall_relievable_options : forall o v,
  sel_wfb v = true -> should_stall_ingest o v = true -> options_safe o v = true ->
  exists out c, next_compaction o v [] = Ok out /\ nc_choice out = Some c.
Proof. intros o v W S O. apply stall_relievable_outside_known; [exact W|now apply options_safe_not_known]. Qed.

(* 6. stall_relievable as stated for all options is false: witnesses inside the class *)
Definition ex_file (id : N) (a b : N) (ts sz : N) : file :=
  mkF id [mkE [a] ts (Some []); mkE [b] ts (Some [])] sz.
Definition ex_empty15 : list level := repeat [] 15.
(* (c) max_open_files = 1: may_choose_compaction refuses everything, even the trivial move *)
Definition ex_opts_c : options := mkOpt 1 536870912 64 1 67108864 1 268435456.
Definition ex_tree_c : version := [ex_file 1 97 122 5 10] :: ex_empty15.
(* (a) l0_write_stall_threshold_files = 0: ingest into an empty tree waits forever *)
Definition ex_opts_a : options := mkOpt 524288 536870912 64 4 67108864 0 268435456.
Definition ex_tree_a : version := [] :: ex_empty15.

Theorem C20_stall_relievable_refuted :
  exists o v, sel_wfb v = true /\ should_stall_ingest o v = true /\ known_stall o v = true /\
              next_compaction o v [] = Ok (mkNC None false).
Proof. exists ex_opts_c, ex_tree_c. vm_compute. repeat split. Qed.

(* (c') stall without the mandatory condition (mandatory threshold 100 above stall threshold 1) *)
Definition ex_opts_c' : options := mkOpt 1 536870912 64 100 67108864 1 268435456.

Theorem C20_stall_without_mandatory_refuted :
  sel_wfb ex_tree_c = true /\ should_stall_ingest ex_opts_c' ex_tree_c = true /\ should_mandatory ex_opts_c' ex_tree_c = false /\
  known_stall ex_opts_c' ex_tree_c = true /\ next_compaction ex_opts_c' ex_tree_c [] = Ok (mkNC None false).
Proof. vm_compute. repeat split. Qed.

Theorem C20_stall_on_empty_tree_refuted :
  sel_wfb ex_tree_a = true /\ should_stall_ingest ex_opts_a ex_tree_a = true /\ known_stall ex_opts_a ex_tree_a = true /\
  next_compaction ex_opts_a ex_tree_a [] = Ok (mkNC None false).
Proof. vm_compute. repeat split. Qed.

(* 6'. and the deadlock is reachable: one compaction thread, one ingest *)
Theorem C20_deadlock_reachable_in_known_class :
  exists s, steps true ex_opts_c (init ex_tree_c 0 1) s /\ all_parked s.
Proof.
  set (f := ex_file 2 97 122 6 10).
  set (s0 := init ex_tree_c 0 1).
  set (s1 := mkP ex_tree_c [] [CWait] [IIdle]).
  set (s2 := mkP ex_tree_c [] [CWait] [ICheck f]).
  set (s3 := mkP ex_tree_c [] [CWait] [IWait f]).
  assert (S1 : step true ex_opts_c s0 s1).
  { change s1 with (mkP (p_v s0) (p_og s0) (set_nth 0 CWait (p_c s0)) (p_i s0)).
    apply (s_select_none true ex_opts_c s0 0 (mkNC None false)); reflexivity. }
  assert (S2 : step true ex_opts_c s1 s2).
  { change s2 with (mkP (p_v s1) (p_og s1) (p_c s1) (set_nth 0 (ICheck f) (p_i s1))).
    apply (s_arrive true ex_opts_c s1 0 f). reflexivity. }
  assert (S3 : step true ex_opts_c s2 s3).
  { change s3 with (mkP (p_v s2) (p_og s2) (p_c s2) (set_nth 0 (IWait f) (p_i s2))).
    apply (s_ingest_wait true ex_opts_c s2 0 f); reflexivity. }
  exists s3. split.
  - eapply steps_step; [eapply steps_step; [eapply steps_step; [apply steps_refl|exact S1]|exact S2]|exact S3].
  - repeat split.
    + intros [|[|k]] p H; cbn in H; inversion H; now left.
    + exists O. reflexivity.
    + intros [|[|i]] p H; cbn in H; inversion H; right; eauto.
    + exists O, f. reflexivity.
Qed.

(* 7. A stuck state is permanent: the tree never changes again and no waiting ingest returns. *)
Theorem C20_stall_is_forever : forall o s s', stuck o s -> steps true o s s' ->
  stuck o s' /\ p_v s' = p_v s /\
  (forall i, (exists f, nth_error (p_i s) i = Some (ICheck f) \/ nth_error (p_i s) i = Some (IWait f)) ->
             (exists f, nth_error (p_i s') i = Some (ICheck f) \/ nth_error (p_i s') i = Some (IWait f))).
Proof. exact stall_is_forever. Qed.

(* 8. selector_admissible: whatever next_compaction picks on a well-formed tree — trivial move,
      raw find_best_compaction candidate, expanded candidate, mandatory or scored — is
      admissible in the sense of Lsm/Model.v (the hypothesis of C01's compaction theorems), for
      every option setting and every list of ongoing compactions. *)
Theorem C20_selector_admissible : forall o v og out c,
  sel_wfb v = true -> next_compaction o v og = Ok out -> nc_choice out = Some c ->
  valid_compactionb v (cc c) = true.
Proof. intros o v og out c W. apply selector_admissible. now apply sel_wfb_wf. Qed.

(* 9. and it passed may_choose_compaction: it does not overlap anything ongoing and keeps the
      number of files in flight below max_open_files *)
Theorem C20_selector_respects_ongoing : forall o v og out c,
  sel_wfb v = true -> next_compaction o v og = Ok out -> nc_choice out = Some c ->
  may_choose o og (cc c) = true.
Proof. intros o v og out c W. apply selector_may_choose. now apply sel_wfb_wf. Qed.

(* 10. On a well-formed tree the selector neither panics (the assert!s of compute_bounds and
       find_best_compaction, the i64 subtraction) nor exhausts the fuel of the fixed-point loop. *)
Theorem C20_selector_total : forall o v og, sel_wfb v = true -> exists out, next_compaction o v og = Ok out.
Proof. exact next_compaction_total. Qed.

(* 11. The fixed-point loop of compute_bounds terminates within 2 * |level| + 2 iterations, for
       every level (sorted or not) and every pair of keys. *)
Theorem C20_compute_bounds_fuel : forall lv fk lk,
  widen (widen_fuel lv) lv (lower_bound lv fk) (upper_bound lv lk) fk lk <> None.
Proof. exact widen_enough_fuel. Qed.

(* 12. Ingest never clears the stall condition (so only an applied compaction, which notifies
       `stall`, can): the reason the ingest side cannot lose a wake-up. *)
Theorem C20_ingest_keeps_stall : forall o v f, v <> [] ->
  should_stall_ingest o v = true -> should_stall_ingest o (ingest v f) = true.
Proof. exact should_stall_ingest_mono. Qed.

(* 14. Every compaction the selector picks strictly lowers mu (sum over levels of (number of
       levels - level) * entries), whenever its outputs hold no more entries than its inputs (a
       merge keeps them all, garbage collection drops some). *)
Theorem C20_compaction_lowers_measure : forall o v og out c outs, sel_wfb v = true ->
  next_compaction o v og = Ok out -> nc_choice out = Some c ->
  (ec outs <= in_entries v (cc c))%nat ->
  (mu (apply_compaction v (cc c) outs) < mu v)%nat.
Proof. exact compaction_step_lowers_mu. Qed.

(* 14'. The same for ANY admissible compaction on the version it is applied to (so also for one
        that was selected on an earlier version and is still admissible, as C01's
        C01_concurrent_apply_is_valid shows of every apply of its concurrent machine), provided
        it takes at least one entry from a level above its upper level. *)
Theorem C20_admissible_compaction_lowers_measure : forall v c outs,
  valid_compactionb v c = true -> (ec outs <= in_entries v c)%nat ->
  ec (concat (map (filter (is_input c)) (mids v c))) <> 0%nat ->
  (mu (apply_compaction v c outs) < mu v)%nat.
Proof.
  intros v c outs V Ho Hn. unfold valid_compactionb in V.
  do 5 (apply andb_prop in V; destruct V as [V _]).
  destruct (vc_shape_facts v c V) as (Hlu & Hlen & _ & Hbb). now apply compaction_lowers_mu.
Qed.

(* 14''. Several compaction threads: a compaction is applied to a later version than the one it
         was selected on.  What makes mu drop - the entries it takes from above its upper level -
         is unchanged when ANOTHER admissible, non-conflicting compaction is applied in between
         (hypotheses of C01_conflict_exclusion_keeps_admissible, which also keeps it admissible),
         and when a file is pushed onto level 0.  So 14' applies to it on the later version.  The
         induction over a whole concurrent run (C01's machine provides these hypotheses at every
         step, C01_concurrent_invariant_reachable) is not written out here. *)
Theorem C20_concurrent_apply_keeps_what_lowers_measure : forall v c d outs,
  wf_version v -> wf_version (apply_compaction v d outs) ->
  valid_compactionb v c = true -> valid_compactionb v d = true ->
  Lsm.ModelConcurrent.conflictb c d = false ->
  (forall o, In o outs -> is_input c o = false /\
     key_leb (cfirst d) (first_key o) = true /\ key_leb (last_key o) (clast d) = true) ->
  ec (concat (map (filter (is_input c)) (mids (apply_compaction v d outs) c))) =
  ec (concat (map (filter (is_input c)) (mids v c))).
Proof.
  intros v c d outs Hw Hw' Hvc Hvd Hnc Ho.
  destruct (Lsm.ConcStable.valid_parts v c Hvc) as (Hlt & _).
  rewrite !mids_entries_mid_files by exact Hlt.
  now rewrite (apply_other_mid_inputs v c d outs Hw Hw' Hvc Hvd Hnc Ho).
Qed.

Theorem C20_ingest_keeps_what_lowers_measure : forall v c f,
  v <> [] -> l0_order (hd [] v ++ [f]) = f :: l0_order (hd [] v) ->
  valid_compactionb v c = true -> is_input c f = false ->
  ec (concat (map (filter (is_input c)) (mids (ingest v f) c))) =
  ec (concat (map (filter (is_input c)) (mids v c))).
Proof.
  intros v c f Hne Hl Hv Hf.
  destruct (Lsm.ConcStable.valid_parts v c Hv) as (Hlt & _).
  rewrite !mids_entries_mid_files by exact Hlt. unfold ingest, level0.
  now rewrite (push_l0_mid_inputs v c f Hne Hl Hv Hf).
Qed.

(* 15. Hence a run of n select-and-apply steps from v, one compaction at a time, exists only for
       n <= mu v: between two ingests a single compaction thread runs dry after finitely many
       compactions.  (Sequential: see the header for K >= 2.) *)
Theorem C20_compaction_runs_are_bounded_sequential : forall o n v v', crun o n v v' -> (n + mu v' <= mu v)%nat.
Proof. exact crun_bounded. Qed.

(* 13. The retyped float tables cover exactly NUM_LEVELS levels. *)
Theorem C20_tables_cover_levels :
  len level_curve_tbl = STALL_NUM_LEVELS /\ len level_factor_tbl = STALL_NUM_LEVELS.
Proof. split; reflexivity. Qed.

(* The hypotheses are satisfiable by a non-trivial object: a stalled tree with default options on
   which the selector picks a compaction (12 files in L0, two in L1 that cannot move trivially:
   the mandatory compaction out of level 0 is replaced by the smaller one that clears level 1). *)
Definition ex_opts_default : options := mkOpt 524288 536870912 64 4 67108864 12 268435456.
Definition ex_tree_stalled : version :=
  map (fun i => ex_file i 97 122 (100 + i) 1000) [1; 2; 3; 4; 5; 6; 7; 8; 9; 10; 11; 12]
  :: [ex_file 20 97 109 1 5000; ex_file 21 109 122 2 5000] :: repeat [] 14.
Example ex_stalled_is_relieved :
  sel_wfb ex_tree_stalled = true /\ should_stall_ingest ex_opts_default ex_tree_stalled = true /\
  known_stall ex_opts_default ex_tree_stalled = false /\
  match next_compaction ex_opts_default ex_tree_stalled [] with
  | Ok (mkNC (Some c) _) => (clower (cc c) =? 1)%nat && (len (cinputs (cc c)) =? 2)
  | _ => false
  end = true.
Proof. vm_compute. repeat split. Qed.

(* 4'. Before the repair 33fc9d3 (`steps false`) statement 4 was false, outside the known class and
       with a live compaction thread: default options, 12 files in L0 and 2 in L1, two compaction
       threads.  Thread 0 selects the compaction that clears level 1; thread 1 finds only
       candidates that conflict with it and parks on `compact`; the flush thread parks on `stall`;
       thread 0's compaction fails with an I/O error, it releases the compaction and returns
       WITHOUT notifying `compact`.  Now nothing is ongoing, next_compaction would hand out the
       same compaction again, and the only thread that could take it sleeps forever.  (Replayed
       on the real store with real threads before the repair, corpus/C20/08.) *)
Definition ex_out1 : nc_out :=
  match next_compaction ex_opts_default ex_tree_stalled [] with Ok x => x | _ => mkNC None false end.
Definition ex_c1 : core :=
  match nc_choice ex_out1 with Some c => c | None => mkCore (mkC 0 0 [] [] []) 0 end.

Theorem C20_no_lost_wakeup_compact_refuted_before_repair :
  exists s, steps false ex_opts_default (init ex_tree_stalled 1 1) s /\
            all_parked s /\ sel_wfb (p_v s) = true /\ known_stall ex_opts_default (p_v s) = false /\
            exists out c, next_compaction ex_opts_default (p_v s) [] = Ok out /\ nc_choice out = Some c.
Proof.
  set (o := ex_opts_default). set (v := ex_tree_stalled). set (f := ex_file 30 97 122 200 1000).
  set (s0 := init v 1 1).
  set (s1 := mkP v [(0%nat, cc ex_c1)] [CRun ex_c1; CSelect] [IIdle]).
  set (s2 := mkP v [(0%nat, cc ex_c1)] [CRun ex_c1; CWait] [IIdle]).
  set (s3 := mkP v [(0%nat, cc ex_c1)] [CRun ex_c1; CWait] [ICheck f]).
  set (s4 := mkP v [(0%nat, cc ex_c1)] [CRun ex_c1; CWait] [IWait f]).
  set (s5 := mkP v [] [CDead; CWait] [IWait f]).
  assert (S1 : step false o s0 s1).
  { change s1 with (mkP (p_v s0) (p_og s0 ++ [(0%nat, cc ex_c1)]) (set_nth 0 (CRun ex_c1) (p_c s0)) (p_i s0)).
    apply (s_select_some false o s0 0 ex_out1 ex_c1); vm_compute; reflexivity. }
  assert (S2 : step false o s1 s2).
  { change s2 with (mkP (p_v s1) (p_og s1) (set_nth 1 CWait (p_c s1)) (p_i s1)).
    apply (s_select_none false o s1 1 (mkNC None false)); vm_compute; reflexivity. }
  assert (S3 : step false o s2 s3).
  { change s3 with (mkP (p_v s2) (p_og s2) (p_c s2) (set_nth 0 (ICheck f) (p_i s2))).
    apply (s_arrive false o s2 0 f). reflexivity. }
  assert (S4 : step false o s3 s4).
  { change s4 with (mkP (p_v s3) (p_og s3) (p_c s3) (set_nth 0 (IWait f) (p_i s3))).
    apply (s_ingest_wait false o s3 0 f); vm_compute; reflexivity. }
  assert (S5 : step false o s4 s5).
  { change s5 with (mkP (p_v s4) (drop_thread 0 (p_og s4)) (if false then map wake_c (set_nth 0 CDead (p_c s4)) else set_nth 0 CDead (p_c s4)) (p_i s4)).
    apply (s_fail false o s4 0 ex_c1). reflexivity. }
  exists s5. split; [|split; [|split; [|split]]].
  - eapply steps_step; [eapply steps_step; [eapply steps_step; [eapply steps_step; [eapply steps_step; [apply steps_refl|exact S1]|exact S2]|exact S3]|exact S4]|exact S5].
  - repeat split.
    + intros [|[|[|k]]] p H; cbn in H; inversion H; auto.
    + exists 1%nat. reflexivity.
    + intros [|[|i]] p H; cbn in H; inversion H; right; eauto.
    + exists O, f. reflexivity.
  - vm_compute. reflexivity.
  - vm_compute. reflexivity.
  - exists ex_out1, ex_c1. split; vm_compute; reflexivity.
Qed.


(* End to end with C01 (added by the coordinator): whatever the selector picks on a well-formed tree
   is a step the store's history theorem covers - a merging compaction changes no point read at
   any timestamp, a last-level garbage collection changes no visible value - and the store
   invariant (well-formed levels, Ordered) is kept, so the next selection starts from such a tree. *)
Theorem C20_selected_merge_preserves_reads : forall s o og out c outs,
  History.Inv s -> sel_wfb (ver s) = true -> next_compaction o (ver s) og = Ok out -> nc_choice out = Some c ->
  outputs_okb (ver s) (cc c) outs = true ->
  History.Inv (compact s (cc c) outs) /\ forall k t, load (compact s (cc c) outs) k t = load s k t.
Proof. exact EndToEnd.selected_merge_preserves_reads. Qed.

Theorem C20_selected_gc_preserves_visible_values : forall s o og out c outs,
  History.Inv s -> sel_wfb (ver s) = true -> next_compaction o (ver s) og = Ok out -> nc_choice out = Some c ->
  S (cupper (cc c)) = length (ver s) -> gc_outputs_okb (ver s) (cc c) outs = true ->
  History.Inv (compact s (cc c) outs) /\ forall k, get (compact s (cc c) outs) k = get s k.
Proof. exact EndToEnd.selected_gc_preserves_visible_values. Qed.
