(* Stall/EndToEnd.v — the selector model (C20) composed with the store theorems (C01):
   whatever compaction the selector picks on a well-formed tree is a step the history theorem of
   area Lsm covers, so it changes no point read at any timestamp and keeps the store invariant. *)
From Coq Require Import NArith List Bool.
From Blue Require Import Lsm.Model Lsm.LoadProofs Lsm.Ordered Lsm.CompactProofs Lsm.GcProofs Lsm.WfProofs Lsm.History
  Stall.Select Stall.ProofsAdm Stall.ProofsNext.
Import ListNotations.
Open Scope N_scope.

Theorem selected_merge_is_accepted s o og out c outs :
  sel_wfb (ver s) = true -> next_compaction o (ver s) og = Ok out -> nc_choice out = Some c ->
  outputs_okb (ver s) (cc c) outs = true ->
  acceptedb s (OCompact (cc c) outs) = true.
Proof.
  intros W Hn Hc Ho. cbn [acceptedb]. rewrite Ho, andb_true_r.
  eapply selector_admissible; eauto. now apply sel_wfb_wf.
Qed.

Theorem selected_merge_preserves_reads s o og out c outs :
  Inv s -> sel_wfb (ver s) = true -> next_compaction o (ver s) og = Ok out -> nc_choice out = Some c ->
  outputs_okb (ver s) (cc c) outs = true ->
  Inv (compact s (cc c) outs) /\ forall k t, load (compact s (cc c) outs) k t = load s k t.
Proof.
  intros I W Hn Hc Ho.
  pose proof (selected_merge_is_accepted s o og out c outs W Hn Hc Ho) as Ha.
  split; [now apply compact_inv|]. intros k t. now apply compaction_preserves_reads.
Qed.

Theorem selected_gc_preserves_visible_values s o og out c outs :
  Inv s -> sel_wfb (ver s) = true -> next_compaction o (ver s) og = Ok out -> nc_choice out = Some c ->
  S (cupper (cc c)) = length (ver s) -> gc_outputs_okb (ver s) (cc c) outs = true ->
  Inv (compact s (cc c) outs) /\ forall k, get (compact s (cc c) outs) k = get s k.
Proof.
  intros I W Hn Hc Htop Hg.
  assert (Ha : acceptedb s (OGc (cc c) outs) = true).
  { cbn [acceptedb]. rewrite Hg, andb_true_r. apply andb_true_intro. split.
    - eapply selector_admissible; eauto. now apply sel_wfb_wf.
    - now apply PeanoNat.Nat.eqb_eq. }
  destruct (gc_inv s (cc c) outs I Ha) as [I' Ht]. split; [exact I'|].
  intros k. rewrite (get_is_top _ k I'), (get_is_top _ k I). apply Ht.
Qed.
