(* Stall/Known.v — definitions: Version::ingest, and the class of (options, tree) pairs in which
   an ingest stall is known to be possibly permanent.  Definitions only. *)
From Coq Require Import NArith ZArith List Bool Arith.
From Blue Require Import Lsm.Model Stall.Select.
Import ListNotations.
Open Scope N_scope.

(* Version::ingest: the new sst is pushed at the end of level 0 *)
Definition ingest (v : version) (f : file) : version := set_nth 0 (level0 v ++ [f]) v.

(* the number of level-1 files that the compaction out of level 0 must take along: the slice of
   level 1 that compute_bounds returns for level 0's key range *)
Definition l1_overlap (v : version) : N :=
  match level0 v with
  | [] => 0
  | f :: r =>
      match compute_bounds v 0 (min_key (first_key f) (map first_key r)) (max_key (last_key f) (map last_key r)) with
      | Ok (_ :: b1 :: _) => N.of_nat (ls_ub b1 - ls_lb b1)
      | _ => 0
      end
  end.

(* Known class K-stall (see known_findings.txt): an ingest stall that no compaction may relieve.
   (a) level 0 is empty (ingest can be stalled on an empty level 0 only when a stall threshold
       is 0: nothing can ever shrink level 0 further);
   (c) max_open_files is too small for the compaction out of level 0: may_choose_compaction (or
       the file limit of find_best_compaction) refuses it.  When the mandatory-compaction
       condition holds that compaction is level 0 plus its overlap in level 1; when it does not
       (possible under a stall only with a mandatory threshold above its stall threshold) the
       candidate must reach a level whose slice is empty to have a non-negative score, and the
       bound used is the number of files in the tree. *)
Definition known_stall (o : options) (v : version) : bool :=
  is_nil (level0 v) ||
  (if should_mandatory o v then o_max_open_files o <=? len (level0 v) + l1_overlap v
   else o_max_open_files o <=? len (all_files v)).

(* the same class from the options alone (sufficient, not necessary) *)
Definition options_safe (o : options) (v : version) : bool :=
  (1 <=? o_stall_files o) && (1 <=? o_stall_bytes o) &&
  (o_mandatory_files o <=? o_stall_files o) && (o_mandatory_bytes o <=? o_stall_bytes o) &&
  (len (level0 v) + len (nth 1 v []) <? o_max_open_files o).
