(* Stall/ProofsRelief.v — stall_relievable outside the known class, and the class from the options *)
From Coq Require Import NArith ZArith List Bool Arith Lia.
From Blue Require Import Lsm.Model Stall.Select Stall.Known Stall.ProofsBasic Stall.ProofsAdm
  Stall.ProofsTotal Stall.ProofsStall Stall.ProofsStallNM.
Import ListNotations.
Open Scope N_scope.

Theorem stall_relievable_outside_known o v : sel_wfb v = true -> known_stall o v = false ->
  exists out c, next_compaction o v [] = Ok out /\ nc_choice out = Some c.
Proof.
  intros Hwf K. unfold known_stall in K. apply orb_false_iff in K. destruct K as [K1 K2].
  destruct (should_mandatory o v) eqn:M; apply N.leb_gt in K2.
  - now apply stall_relievable_mandatory.
  - now apply stall_relievable_not_mandatory.
Qed.

Theorem options_safe_not_known o v : sel_wfb v = true -> should_stall_ingest o v = true ->
  options_safe o v = true -> known_stall o v = false.
Proof.
  intros Hwf HS HO. unfold options_safe in HO.
  apply andb_prop in HO. destruct HO as [HO O5]. apply andb_prop in HO. destruct HO as [HO O4].
  apply andb_prop in HO. destruct HO as [HO O3]. apply andb_prop in HO. destruct HO as [O1 O2].
  apply N.leb_le in O1, O2, O3, O4. apply N.ltb_lt in O5.
  unfold should_stall_ingest in HS. unfold known_stall.
  assert (NE : is_nil (level0 v) = false).
  { destruct (level0 v) eqn:EL; [|reflexivity]. exfalso. unfold len, level_size in HS. cbn in HS.
    apply orb_prop in HS. destruct HS as [HS|HS]; apply N.leb_le in HS; unfold len in HS; cbn in HS; lia. }
  rewrite NE. cbn [orb].
  assert (MA : should_mandatory o v = true).
  { unfold should_mandatory. apply orb_prop in HS. destruct HS as [HS|HS]; apply N.leb_le in HS.
    - assert (E : (o_mandatory_files o <=? len (level0 v)) = true) by (apply N.leb_le; lia). rewrite E. reflexivity.
    - assert (E : (o_mandatory_bytes o <=? level_size (level0 v)) = true) by (apply N.leb_le; lia). rewrite E. now rewrite orb_true_r. }
  rewrite MA. apply N.leb_gt. pose proof (l1_overlap_le v Hwf). lia.
Qed.
