(* Stall/ProofsBounds.v — compute_bounds: the fixed-point loop terminates within its fuel, and
   what the slices it returns satisfy *)
From Coq Require Import NArith ZArith List Bool Arith Lia.
From Blue Require Import Lsm.Model Lsm.KeyOrder Lsm.LoadProofs Lsm.ListLemmas Lsm.CompactProofs
  Stall.Select Stall.ProofsBasic.
Import ListNotations.
Open Scope N_scope.

(* ---------- counting ---------- *)
Definition cnt {A} (p : A -> bool) (l : list A) : nat := length (filter p l).

Lemma cnt_le_len {A} (p : A -> bool) l : (cnt p l <= length l)%nat.
Proof. unfold cnt. induction l as [|x l IH]; cbn; [lia|]. destruct (p x); cbn; lia. Qed.

Lemma cnt_mono {A} (p q : A -> bool) l :
  (forall x, In x l -> p x = true -> q x = true) -> (cnt p l <= cnt q l)%nat.
Proof.
  unfold cnt. induction l as [|x l IH]; cbn; intros H; [lia|].
  assert (IH' : (length (filter p l) <= length (filter q l))%nat) by (apply IH; intros y Hy; apply H; now right).
  destruct (p x) eqn:E.
  - rewrite (H x (or_introl eq_refl) E). cbn. lia.
  - destruct (q x); cbn; lia.
Qed.

Lemma cnt_strict {A} (p q : A -> bool) l y :
  (forall x, In x l -> p x = true -> q x = true) -> In y l -> q y = true -> p y = false ->
  (cnt p l < cnt q l)%nat.
Proof.
  unfold cnt. induction l as [|x l IH]; cbn; intros H Hy Q P; [destruct Hy|].
  assert (M : (length (filter p l) <= length (filter q l))%nat).
  { apply (cnt_mono p q l). intros z Hz. apply H. now right. }
  destruct Hy as [->|Hy].
  - rewrite P, Q. cbn. lia.
  - assert (S : (length (filter p l) < length (filter q l))%nat) by (apply IH; auto; intros z Hz; apply H; now right).
    destruct (p x) eqn:E.
    + rewrite (H x (or_introl eq_refl) E). cbn. lia.
    + destruct (q x); cbn; lia.
Qed.

(* ---------- termination of the fixed-point loop ---------- *)
Definition wmeasure (lv : level) (fk lk : key) : nat :=
  (cnt (fun f => key_ltb (first_key f) fk) lv + cnt (fun f => key_ltb lk (last_key f)) lv)%nat.

Lemma wmeasure_le lv fk lk : (wmeasure lv fk lk <= 2 * length lv)%nat.
Proof.
  unfold wmeasure.
  pose proof (cnt_le_len (fun f => key_ltb (first_key f) fk) lv).
  pose proof (cnt_le_len (fun f => key_ltb lk (last_key f)) lv). lia.
Qed.

Lemma widen_terminates fuel : forall lv lb ub fk lk,
  lb = lower_bound lv fk -> ub = upper_bound lv lk -> (wmeasure lv fk lk < fuel)%nat ->
  widen fuel lv lb ub fk lk <> None.
Proof.
  induction fuel as [|fuel IH]; intros lv lb ub fk lk Hlb Hub Hm; [lia|].
  cbn [widen].
  set (c1 := (lb <? length lv)%nat && key_ltb (first_key (nth lb lv dummy_file)) fk).
  set (fk' := if c1 then first_key (nth lb lv dummy_file) else fk).
  set (c2 := (lb <? ub)%nat && key_ltb lk (last_key (nth (ub - 1) lv dummy_file))).
  set (lk' := if c2 then last_key (nth (ub - 1) lv dummy_file) else lk).
  destruct (negb c1 && negb c2 && (lower_bound lv fk' =? lb)%nat && (upper_bound lv lk' =? ub)%nat) eqn:EX; [discriminate|].
  apply IH; [reflexivity|reflexivity|].
  (* some key moved, and each move lowers the measure *)
  assert (M1 : (cnt (fun f => key_ltb (first_key f) fk') lv <= cnt (fun f => key_ltb (first_key f) fk) lv)%nat
               /\ (c1 = true -> (cnt (fun f => key_ltb (first_key f) fk') lv < cnt (fun f => key_ltb (first_key f) fk) lv)%nat)).
  { subst fk'. destruct c1 eqn:E1.
    - subst c1. apply andb_prop in E1. destruct E1 as [L K]. apply Nat.ltb_lt in L.
      assert (S : (cnt (fun f => key_ltb (first_key f) (first_key (nth lb lv dummy_file))) lv
                   < cnt (fun f => key_ltb (first_key f) fk) lv)%nat).
      { apply (cnt_strict _ _ lv (nth lb lv dummy_file)).
        - intros x _ Hx. eapply key_ltb_trans; eauto.
        - now apply nth_In.
        - exact K.
        - apply key_ltb_irrefl. }
      split; [lia|intros _; exact S].
    - split; [lia|discriminate]. }
  assert (M2 : (cnt (fun f => key_ltb lk' (last_key f)) lv <= cnt (fun f => key_ltb lk (last_key f)) lv)%nat
               /\ (c2 = true -> (cnt (fun f => key_ltb lk' (last_key f)) lv < cnt (fun f => key_ltb lk (last_key f)) lv)%nat)).
  { subst lk'. destruct c2 eqn:E2.
    - subst c2. apply andb_prop in E2. destruct E2 as [L K]. apply Nat.ltb_lt in L.
      assert (Hlen : (ub - 1 < length lv)%nat).
      { pose proof (ub_le_len lv lk). lia. }
      assert (S : (cnt (fun f => key_ltb (last_key (nth (ub - 1) lv dummy_file)) (last_key f)) lv
                   < cnt (fun f => key_ltb lk (last_key f)) lv)%nat).
      { apply (cnt_strict _ _ lv (nth (ub - 1) lv dummy_file)).
        - intros x _ Hx. eapply key_ltb_trans; eauto.
        - now apply nth_In.
        - exact K.
        - apply key_ltb_irrefl. }
      split; [lia|intros _; exact S].
    - split; [lia|discriminate]. }
  destruct M1 as [M1 S1], M2 as [M2 S2]. unfold wmeasure in *.
  destruct c1 eqn:E1; [specialize (S1 eq_refl); lia|].
  destruct c2 eqn:E2; [specialize (S2 eq_refl); lia|].
  (* neither key moved: then the bounds did not move either, and the loop would have exited *)
  exfalso. subst fk' lk'. cbn [negb andb] in EX. rewrite <- Hlb, <- Hub, !Nat.eqb_refl in EX. discriminate.
Qed.

Lemma widen_enough_fuel lv fk lk :
  widen (widen_fuel lv) lv (lower_bound lv fk) (upper_bound lv lk) fk lk <> None.
Proof.
  apply widen_terminates; [reflexivity|reflexivity|].
  pose proof (wmeasure_le lv fk lk). unfold widen_fuel. lia.
Qed.

(* ---------- what the loop returns ---------- *)
Lemma wfl_app_l a b : wfl (a ++ b) -> wfl a.
Proof.
  intros [F S]. split; [apply Forall_app in F; tauto|].
  clear F. induction a as [|x a IH]; [reflexivity|].
  destruct a as [|y a']; [reflexivity|].
  cbn in S. apply andb_prop in S. destruct S as [S1 S2]. cbn. rewrite S1. cbn. apply IH. exact S2.
Qed.

Lemma wfl_firstn n lv : wfl lv -> wfl (firstn n lv).
Proof. intros W. rewrite <- (firstn_skipn n lv) in W. eapply wfl_app_l; eauto. Qed.

Lemma slice_in_firstn (lv : level) lo hi x : In x (slice lv lo hi) -> In x (firstn hi lv).
Proof.
  unfold slice. revert lo hi. induction lv as [|y lv IH]; intros lo hi H.
  - rewrite skipn_nil, firstn_nil in H. destruct H.
  - destruct lo as [|lo]; cbn [skipn] in H.
    + rewrite Nat.sub_0_r in H. exact H.
    + destruct hi as [|hi]; [cbn in H; destruct H|]. cbn [Nat.sub] in H. cbn [firstn]. right. eapply IH; eauto.
Qed.

Lemma slice_in_skipn (lv : level) lo hi x : In x (slice lv lo hi) -> In x (skipn lo lv).
Proof. unfold slice. apply in_firstn. Qed.

Lemma last_firstn {A} n (l : list A) d : (0 < n)%nat -> (n <= length l)%nat -> last (firstn n l) d = nth (n - 1) l d.
Proof.
  revert n. induction l as [|x l IH]; intros n H0 Hn; cbn in Hn; [lia|].
  destruct n as [|n]; [lia|]. destruct n as [|n]; [reflexivity|].
  destruct l as [|y l']; [cbn in Hn; lia|].
  replace (S (S n) - 1)%nat with (S n) by lia.
  change (firstn (S (S n)) (x :: y :: l')) with (x :: firstn (S n) (y :: l')).
  change (nth (S n) (x :: y :: l') d) with (nth n (y :: l') d).
  specialize (IH (S n) ltac:(lia) ltac:(cbn in *; lia)).
  replace (S n - 1)%nat with n in IH by lia. rewrite <- IH.
  cbn [firstn]. reflexivity.
Qed.

Definition widen_post (lv : level) (fk lk : key) (s : lslice) : Prop :=
  ls_lb s = lower_bound lv (ls_first s) /\ ls_ub s = upper_bound lv (ls_last s) /\
  key_leb (ls_first s) fk = true /\ key_leb lk (ls_last s) = true /\
  slice_in_range s (slice lv (ls_lb s) (ls_ub s)) = true.

Lemma widen_spec fuel : forall lv lb ub fk lk s, wfl lv ->
  lb = lower_bound lv fk -> ub = upper_bound lv lk ->
  widen fuel lv lb ub fk lk = Some s -> widen_post lv fk lk s.
Proof.
  induction fuel as [|fuel IH]; intros lv lb ub fk lk s W Hlb Hub H; [discriminate|].
  cbn [widen] in H.
  set (c1 := (lb <? length lv)%nat && key_ltb (first_key (nth lb lv dummy_file)) fk) in *.
  set (fk' := if c1 then first_key (nth lb lv dummy_file) else fk) in *.
  set (c2 := (lb <? ub)%nat && key_ltb lk (last_key (nth (ub - 1) lv dummy_file))) in *.
  set (lk' := if c2 then last_key (nth (ub - 1) lv dummy_file) else lk) in *.
  assert (F1 : key_leb fk' fk = true).
  { subst fk'. destruct c1 eqn:E1; [|apply key_leb_refl]. subst c1. apply andb_prop in E1. now apply key_ltb_leb. }
  assert (F2 : key_leb lk lk' = true).
  { subst lk'. destruct c2 eqn:E2; [|apply key_leb_refl]. subst c2. apply andb_prop in E2. now apply key_ltb_leb. }
  destruct (negb c1 && negb c2 && (lower_bound lv fk' =? lb)%nat && (upper_bound lv lk' =? ub)%nat) eqn:EX.
  - (* exit *)
    inversion H; subst s; clear H.
    apply andb_prop in EX. destruct EX as [EX E4]. apply andb_prop in EX. destruct EX as [EX E3].
    apply andb_prop in EX. destruct EX as [E1 E2].
    apply negb_true_iff in E1, E2. apply Nat.eqb_eq in E3, E4.
    assert (Efk : fk' = fk) by (subst fk'; now rewrite E1).
    assert (Elk : lk' = lk) by (subst lk'; now rewrite E2).
    unfold widen_post. cbn [ls_lb ls_ub ls_first ls_last].
    repeat split; auto.
    rewrite E3, E4. unfold slice_in_range. cbn [ls_first ls_last]. rewrite Efk, Elk.
    apply forallb_forall. intros g Hg.
    destruct (Nat.lt_ge_cases lb ub) as [Hlt|Hge].
    2:{ unfold slice in Hg. replace (ub - lb)%nat with O in Hg by lia. destruct Hg. }
    assert (Hublen : (ub <= length lv)%nat) by (subst ub; apply ub_le_len).
    apply andb_true_intro. split.
    + (* fk <= first of the head of the slice <= first g *)
      subst c1. assert (L : (lb <? length lv)%nat = true) by (apply Nat.ltb_lt; lia).
      rewrite L in E1. cbn [andb] in E1. apply key_ltb_false_leb in E1.
      eapply key_leb_trans; [exact E1|].
      pose proof (slice_in_skipn _ _ _ _ Hg) as Hs.
      rewrite (skipn_nth_cons lb lv dummy_file) in Hs by lia.
      eapply wfl_first_least; [|exact Hs].
      rewrite <- (skipn_nth_cons lb lv dummy_file) by lia. now apply wfl_skipn.
    + subst c2. assert (L : (lb <? ub)%nat = true) by (apply Nat.ltb_lt; lia).
      rewrite L in E2. cbn [andb] in E2. apply key_ltb_false_leb in E2.
      eapply key_leb_trans; [|exact E2].
      rewrite <- (last_firstn ub lv dummy_file) by lia.
      apply wfl_last_greatest; [now apply wfl_firstn|eapply slice_in_firstn; eauto].
  - specialize (IH lv _ _ fk' lk' s W eq_refl eq_refl H).
    destruct IH as (A & B & C & D & E). repeat split; auto.
    + eapply key_leb_trans; eauto.
    + eapply key_leb_trans; eauto.
Qed.

(* ---------- compute_bounds ---------- *)
Definition slice_ok (idx : nat) (lv : level) (fk lk : key) (b : lslice) : Prop :=
  key_leb (ls_first b) fk = true /\ key_leb lk (ls_last b) = true /\
  slice_in_range b (slice lv (ls_lb b) (ls_ub b)) = true /\
  (if (idx =? 0)%nat then ls_lb b = O /\ ls_ub b = length lv
   else ls_lb b = lower_bound lv (ls_first b) /\ ls_ub b = upper_bound lv (ls_last b)).

Inductive cb_ok : nat -> list level -> key -> key -> list lslice -> Prop :=
| cb_nil idx fk lk : cb_ok idx [] fk lk []
| cb_cons idx lv r fk lk b bs :
    slice_ok idx lv fk lk b -> cb_ok (S idx) r (ls_first b) (ls_last b) bs ->
    cb_ok idx (lv :: r) fk lk (b :: bs).

Lemma slice_all (lv : level) : slice lv 0 (length lv) = lv.
Proof. unfold slice. cbn [skipn]. rewrite Nat.sub_0_r. apply firstn_all. Qed.

Lemma cb_levels_ok : forall lvs idx fk lk bs,
  (forall j, (1 <= idx + j)%nat -> wfl (nth j lvs [])) ->
  cb_levels idx lvs fk lk = Ok bs -> cb_ok idx lvs fk lk bs.
Proof.
  induction lvs as [|lv r IH]; intros idx fk lk bs W H.
  - cbn in H. inversion H. constructor.
  - cbn [cb_levels] in H.
    assert (Wr : forall j, (1 <= S idx + j)%nat -> wfl (nth j r [])).
    { intros j _. apply (W (S j)). lia. }
    destruct (idx =? 0)%nat eqn:E0.
    + destruct (forallb (fun f => key_leb fk (first_key f)) lv && forallb (fun f => key_leb (last_key f) lk) lv) eqn:EA; [|discriminate].
      destruct (cb_levels (S idx) r fk lk) as [bs'| |] eqn:ER; cbn in H; try discriminate.
      inversion H; subst bs; clear H.
      constructor; [|apply IH; auto].
      unfold slice_ok. cbn [ls_lb ls_ub ls_first ls_last]. rewrite E0.
      repeat split; try apply key_leb_refl.
      rewrite slice_all. unfold slice_in_range. cbn [ls_first ls_last].
      apply andb_prop in EA. destruct EA as [A1 A2]. rewrite forallb_forall in A1, A2.
      apply forallb_forall. intros g Hg. now rewrite A1, A2.
    + destruct (widen (widen_fuel lv) lv (lower_bound lv fk) (upper_bound lv lk) fk lk) as [s|] eqn:EW; [|discriminate].
      destruct (cb_levels (S idx) r (ls_first s) (ls_last s)) as [bs'| |] eqn:ER; cbn in H; try discriminate.
      inversion H; subst bs; clear H.
      assert (Wl : wfl lv). { apply (W O). apply Nat.eqb_neq in E0. lia. }
      pose proof (widen_spec _ _ _ _ _ _ _ Wl eq_refl eq_refl EW) as (A & B & C & D & E).
      constructor; [|apply IH; auto].
      unfold slice_ok. rewrite E0. repeat split; auto.
Qed.

Lemma cb_levels_total_pos : forall lvs idx fk lk, (1 <= idx)%nat -> exists bs, cb_levels idx lvs fk lk = Ok bs.
Proof.
  induction lvs as [|lv r IH]; intros idx fk lk Hi; [now exists []|].
  cbn [cb_levels]. assert (E0 : (idx =? 0)%nat = false) by (apply Nat.eqb_neq; lia). rewrite E0.
  destruct (widen (widen_fuel lv) lv (lower_bound lv fk) (upper_bound lv lk) fk lk) as [s|] eqn:EW.
  - destruct (IH (S idx) (ls_first s) (ls_last s) ltac:(lia)) as [bs' Hbs]. rewrite Hbs. cbn. eauto.
  - exfalso. eapply widen_enough_fuel; eauto.
Qed.

Lemma cb_levels_total_zero (lv : level) (r : list level) fk lk :
  (forall f, In f lv -> key_leb fk (first_key f) = true /\ key_leb (last_key f) lk = true) ->
  exists bs, cb_levels 0 (lv :: r) fk lk = Ok bs.
Proof.
  intros H. cbn [cb_levels Nat.eqb].
  assert (E : forallb (fun f => key_leb fk (first_key f)) lv && forallb (fun f => key_leb (last_key f) lk) lv = true).
  { apply andb_true_intro. split; apply forallb_forall; intros f Hf; apply H; exact Hf. }
  rewrite E. destruct (cb_levels_total_pos r 1 fk lk ltac:(lia)) as [bs Hbs]. rewrite Hbs. cbn. eauto.
Qed.

Lemma cb_ok_length idx lvs fk lk bs : cb_ok idx lvs fk lk bs -> length bs = length lvs.
Proof. induction 1; cbn; congruence. Qed.
