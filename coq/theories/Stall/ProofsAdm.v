(* Stall/ProofsAdm.v — `adm`: a propositional form of admissibility that is easy to establish for
   what the selector builds and easy to preserve under expansion; adm implies Lsm's
   valid_compactionb on a tree with unique file ids and distinct level-0 timestamps. *)
From Coq Require Import NArith ZArith List Bool Arith Lia Permutation.
From Blue Require Import Lsm.Model Lsm.KeyOrder Lsm.LoadProofs Lsm.ListLemmas Lsm.CompactProofs
  Stall.Select Stall.ProofsBasic.
Import ListNotations.
Open Scope N_scope.

Definition sel_wf (v : version) : Prop :=
  wf_version v /\ uniq_ids v /\ NoDup (map biggest_ts (level0 v)).

Lemma sel_wfb_wf v : sel_wfb v = true -> sel_wf v.
Proof.
  unfold sel_wfb. intros H.
  apply andb_prop in H. destruct H as [H _]. apply andb_prop in H. destruct H as [H _].
  apply andb_prop in H. destruct H as [H H3]. apply andb_prop in H. destruct H as [H1 H2].
  repeat split; [exact H1|now apply nodupb_spec|now apply nodupb_spec].
Qed.

Definition closed_inv (v : version) (c : compaction) : Prop :=
  forall j m x g, (clower c <= j)%nat -> (j <= m)%nat -> (m < cupper c)%nat ->
    In x (nth j v []) -> In g (nth m v []) -> is_input c x = true -> is_input c g = false ->
    files_overlap x g = false \/ (j = O /\ m = O /\ biggest_ts x < biggest_ts g).

Record adm (v : version) (c : compaction) : Prop := mkAdm {
  a_shape : vc_shape v c = true;
  a_slice : vc_slice v c = true;
  a_in : forall x, In x (cinputs c) -> exists j f,
      (clower c <= j <= cupper c)%nat /\ In f (nth j v []) /\ fid f = x /\
      key_leb (cfirst c) (first_key f) = true /\ key_leb (last_key f) (clast c) = true /\
      (j = cupper c -> In f (upper_slice v c));
  a_closed : closed_inv v c }.

(* ---------- the files of levels lo .. lo+n-1 in lookup order ---------- *)
Lemma nth_ordered_in v m f : In f (nth m (ordered_levels v) []) <-> In f (nth m v []).
Proof.
  destruct m as [|m].
  - destruct v as [|l0 r]; cbn; [tauto|]. apply in_l0_order.
  - rewrite nth_ordered_levels by lia. tauto.
Qed.

Lemma nth_firstn_skipn {A} (ls : list (list A)) lo n i : (i < n)%nat -> nth i (firstn n (skipn lo ls)) [] = nth (lo + i) ls [].
Proof.
  intros H. rewrite <- (nth_skipn' lo i ls []).
  revert i n H. generalize (skipn lo ls). intros l. induction l as [|x l IH]; intros i n H.
  - rewrite firstn_nil. now destruct i.
  - destruct n as [|n]; [lia|]. destruct i as [|i]; [reflexivity|]. cbn. apply IH. lia.
Qed.

Lemma in_concat_levels (ls : list (list file)) lo n f :
  In f (concat (firstn n (skipn lo ls))) <-> exists m, (lo <= m < lo + n)%nat /\ In f (nth m ls []).
Proof.
  split.
  - intros H. apply in_concat in H. destruct H as [l [Hl Hf]].
    apply (In_nth _ _ []) in Hl. destruct Hl as [i [Hi E]].
    assert (Hin : (i < n)%nat). { rewrite firstn_length in Hi. lia. }
    rewrite nth_firstn_skipn in E by exact Hin. exists (lo + i)%nat. split; [lia|]. now rewrite E.
  - intros [m [Hm Hf]].
    assert (Hlen : (m < length ls)%nat).
    { destruct (Nat.lt_ge_cases m (length ls)); [assumption|]. rewrite nth_overflow in Hf by assumption. destruct Hf. }
    apply in_concat. exists (nth m ls []). split; [|exact Hf].
    replace m with (lo + (m - lo))%nat at 1 by lia. rewrite <- (nth_firstn_skipn ls lo n (m - lo)) by lia.
    apply nth_In. rewrite firstn_length, skipn_length. lia.
Qed.

Lemma in_mid_files v c f : In f (mid_files v c) <-> exists m, (clower c <= m < clower c + (cupper c - clower c))%nat /\ In f (nth m v []).
Proof.
  unfold mid_files. rewrite in_concat_levels. split; intros [m [Hm Hf]]; exists m; (split; [exact Hm|]); now apply nth_ordered_in.
Qed.

(* ---------- closed_overlap from pointwise facts ---------- *)
Lemma closed_overlap_all inp l :
  (forall x g, In x l -> In g l -> inp x = true -> inp g = false -> files_overlap x g = false) ->
  closed_overlap inp l = true.
Proof.
  induction l as [|x r IH]; intros H; [reflexivity|]. cbn [closed_overlap].
  apply andb_true_intro. split.
  - destruct (inp x) eqn:E; [|reflexivity]. cbn [negb orb]. apply forallb_forall. intros g Hg.
    destruct (inp g) eqn:Eg; [reflexivity|]. cbn [orb]. rewrite (H x g); auto; [now left|now right].
  - apply IH. intros y g Hy Hg. apply H; now right.
Qed.

Lemma closed_overlap_app inp l1 l2 :
  closed_overlap inp l1 = true -> closed_overlap inp l2 = true ->
  (forall x g, In x l1 -> In g l2 -> inp x = true -> inp g = false -> files_overlap x g = false) ->
  closed_overlap inp (l1 ++ l2) = true.
Proof.
  induction l1 as [|x r IH]; intros H1 H2 H; [exact H2|].
  cbn [closed_overlap app] in *. apply andb_prop in H1. destruct H1 as [Hx Hr].
  apply andb_true_intro. split.
  - destruct (inp x) eqn:E; [|reflexivity]. cbn [negb orb] in *. rewrite forallb_app. rewrite Hx. cbn [andb].
    apply forallb_forall. intros g Hg. destruct (inp g) eqn:Eg; [reflexivity|]. cbn [orb].
    rewrite (H x g); auto. now left.
  - apply IH; auto. intros y g Hy Hg. apply H; [now right|exact Hg].
Qed.

Lemma closed_overlap_concat inp (ls : list (list file)) :
  (forall i, closed_overlap inp (nth i ls []) = true) ->
  (forall i k x g, (i < k)%nat -> In x (nth i ls []) -> In g (nth k ls []) -> inp x = true -> inp g = false ->
                   files_overlap x g = false) ->
  closed_overlap inp (concat ls) = true.
Proof.
  induction ls as [|l ls IH]; intros H1 H2; [reflexivity|]. cbn [concat].
  apply closed_overlap_app.
  - apply (H1 O).
  - apply IH.
    + intros i. apply (H1 (S i)).
    + intros i k x g Hik Hx Hg. apply (H2 (S i) (S k)); [lia|exact Hx|exact Hg].
  - intros x g Hx Hg. apply in_concat in Hg. destruct Hg as [l' [Hl' Hg]].
    apply (In_nth _ _ []) in Hl'. destruct Hl' as [k [Hk E]].
    apply (H2 O (S k)); [lia|exact Hx|cbn; now rewrite E].
Qed.

(* lists sorted by descending measure *)
Fixpoint dsorted (m : file -> N) (l : list file) : Prop :=
  match l with [] => True | x :: r => (forall y, In y r -> m y <= m x) /\ dsorted m r end.

Lemma dsorted_snoc m l x : dsorted m l -> (forall y, In y l -> m x <= m y) -> dsorted m (l ++ [x]).
Proof.
  induction l as [|z l IH]; cbn; intros D H; [split; [intros ? []|exact I]|].
  destruct D as [D1 D2]. split.
  - intros y Hy. apply in_app_or in Hy. destruct Hy as [Hy|[<-|[]]]; [auto|apply H; now left].
  - apply IH; auto.
Qed.

Lemma rev_msorted m l : msorted m l -> dsorted m (rev l).
Proof.
  induction l as [|x l IH]; cbn; intros M; [exact I|]. destruct M as [M1 M2].
  apply dsorted_snoc; [auto|]. intros y Hy. apply in_rev in Hy. auto.
Qed.

Lemma l0_order_dsorted l : dsorted biggest_ts (l0_order l).
Proof. unfold l0_order. apply rev_msorted, isort_by_msorted. Qed.

Lemma closed_overlap_dsorted inp l :
  dsorted biggest_ts l ->
  (forall x g, In x l -> In g l -> inp x = true -> inp g = false ->
               files_overlap x g = false \/ biggest_ts x < biggest_ts g) ->
  closed_overlap inp l = true.
Proof.
  induction l as [|x r IH]; intros D H; [reflexivity|]. cbn [closed_overlap]. destruct D as [D1 D2].
  apply andb_true_intro. split.
  - destruct (inp x) eqn:E; [|reflexivity]. cbn [negb orb]. apply forallb_forall. intros g Hg.
    destruct (inp g) eqn:Eg; [reflexivity|]. cbn [orb].
    destruct (H x g) as [O|O]; auto; [now left|now right|now rewrite O|].
    specialize (D1 g Hg). lia.
  - apply IH; auto. intros y g Hy Hg. apply H; now right.
Qed.

(* ---------- adm implies valid_compactionb ---------- *)
Lemma vc_shape_facts v c : vc_shape v c = true ->
  (clower c < cupper c)%nat /\ (cupper c < length v)%nat /\ key_leb (cfirst c) (clast c) = true /\
  (lower_bound (upper_level v c) (cfirst c) <= upper_bound (upper_level v c) (clast c))%nat.
Proof.
  unfold vc_shape. intros H. repeat (apply andb_prop in H; destruct H as [H ?]).
  repeat split; auto; [now apply Nat.ltb_lt|now apply Nat.ltb_lt|now apply Nat.leb_le].
Qed.

Theorem adm_valid v c : sel_wf v -> adm v c -> valid_compactionb v c = true.
Proof.
  intros (W & U & T) [SH SL AI CL].
  destruct (vc_shape_facts v c SH) as (Hlu & Hlen & Hk & Hbb).
  set (u := upper_level v c) in *. set (lb := lower_bound u (cfirst c)) in *. set (ub := upper_bound u (clast c)) in *.
  assert (Eu : nth (cupper c) v [] = firstn lb u ++ slice u lb ub ++ skipn ub u).
  { unfold slice. apply three_parts. exact Hbb. }
  (* an input that sits in a level from lower to upper is the file that a_in names *)
  assert (AI' : forall m f, In f (nth m v []) -> is_input c f = true ->
                (clower c <= m <= cupper c)%nat /\ key_leb (cfirst c) (first_key f) = true /\
                key_leb (last_key f) (clast c) = true /\ (m = cupper c -> In f (slice u lb ub))).
  { intros m f Hf Hi. apply is_input_spec in Hi. destruct (AI _ Hi) as (j & f' & Hj & Hf' & E & R1 & R2 & R3).
    assert (f' = f) by (eapply uniq_same_file; eauto). subst f'.
    assert (j = m) by (eapply uniq_same_level; eauto). subst j. repeat split; auto; lia. }
  unfold valid_compactionb. rewrite SH, SL. cbn [andb].
  assert (RS : vc_rest v c = true).
  { unfold vc_rest. fold u lb ub. apply forallb_forall. intros g Hg. apply negb_true_iff.
    destruct (is_input c g) eqn:Ei; [exfalso|reflexivity].
    assert (Hgu : In g (nth (cupper c) v [])).
    { fold (upper_level v c). fold u. apply in_app_or in Hg. destruct Hg as [Hg|Hg]; [eapply in_firstn|eapply in_skipn]; eauto. }
    destruct (AI' _ _ Hgu Ei) as (_ & _ & _ & Hs). specialize (Hs eq_refl).
    apply in_app_or in Hg. destruct Hg as [Hg|Hg].
    - eapply (uniq_pieces v (cupper c) (firstn lb u) (slice u lb ub ++ skipn ub u) g U Eu Hg). apply in_or_app. now left.
    - rewrite app_assoc in Eu.
      eapply (uniq_pieces v (cupper c) (firstn lb u ++ slice u lb ub) (skipn ub u) g U Eu); [apply in_or_app; now right|exact Hg]. }
  rewrite RS. cbn [andb].
  assert (RG : vc_range v c = true).
  { unfold vc_range. apply forallb_forall. intros f Hf.
    destruct (is_input c f) eqn:Ei; [|reflexivity]. cbn [negb orb].
    assert (exists m, In f (nth m v [])) as [m Hm].
    { apply in_app_or in Hf. destruct Hf as [Hf|Hf].
      - apply in_mid_files in Hf. destruct Hf as [m [_ Hm]]. eauto.
      - exists (cupper c). exact Hf. }
    destruct (AI' _ _ Hm Ei) as (_ & R1 & R2 & _). now rewrite R1, R2. }
  rewrite RG. cbn [andb].
  assert (ID : vc_ids v c = true).
  { unfold vc_ids. apply forallb_forall. intros x Hx.
    destruct (AI _ Hx) as (j & f & Hj & Hf & E & _).
    apply existsb_exists. exists f. split; [|subst x; apply N.eqb_refl].
    apply in_or_app. destruct (Nat.eq_dec j (cupper c)) as [->|Hne]; [right; exact Hf|left].
    apply in_mid_files. exists j. split; [lia|exact Hf]. }
  rewrite ID. rewrite andb_true_r.
  (* closure, level by level in lookup order *)
  unfold vc_closed, mid_files. apply closed_overlap_concat.
  - intros i. destruct (Nat.lt_ge_cases i (cupper c - clower c)) as [Hi|Hi].
    2:{ rewrite nth_overflow; [reflexivity|]. rewrite firstn_length. lia. }
    rewrite (nth_firstn_skipn (A:=file)) by exact Hi.
    destruct (clower c + i)%nat as [|m] eqn:Em.
    + (* level 0, newest first *)
      destruct v as [|l0 r]; [cbn in Hlen; lia|]. cbn [ordered_levels nth].
      apply closed_overlap_dsorted; [apply l0_order_dsorted|].
      intros x g Hx Hg Ix Ig. apply (proj1 (in_l0_order _ _)) in Hx. apply (proj1 (in_l0_order _ _)) in Hg.
      destruct (CL O O x g) as [O1|(_ & _ & O1)]; auto; lia.
    + rewrite nth_ordered_levels by lia.
      apply closed_overlap_all. intros x g Hx Hg Ix Ig.
      destruct (CL (S m) (S m) x g) as [O1|(C & _)]; auto; lia.
  - intros i k x g Hik Hx Hg Ix Ig.
    destruct (Nat.lt_ge_cases k (cupper c - clower c)) as [Hk2|Hk2].
    2:{ rewrite nth_overflow in Hg; [destruct Hg|]. rewrite firstn_length. lia. }
    rewrite (nth_firstn_skipn (A:=file)) in Hx by lia. rewrite (nth_firstn_skipn (A:=file)) in Hg by lia.
    apply (proj1 (nth_ordered_in _ _ _)) in Hx. apply (proj1 (nth_ordered_in _ _ _)) in Hg.
    destruct (CL (clower c + i)%nat (clower c + k)%nat x g) as [O1|(_ & C & _)]; auto; lia.
Qed.
