(* Stall/ProofsTotal.v — on a well-formed tree (sel_wfb) the selector neither panics nor runs out
   of fuel: every assert! of compute_bounds / find_best_compaction holds, the i64 subtraction
   does not overflow, the fixed-point loop terminates *)
From Coq Require Import NArith ZArith List Bool Arith Lia.
From Blue Require Import Lsm.Model Lsm.KeyOrder Lsm.LoadProofs Lsm.ListLemmas Lsm.CompactProofs
  Stall.Select Stall.ProofsBasic Stall.ProofsBounds Stall.ProofsAdm Stall.ProofsRaw.
Import ListNotations.
Open Scope N_scope.

Definition i64_nonneg (z : Z) : Prop := (0 <= z <= I64_MAX)%Z.

Lemma i64_max_val : I64_MAX = 9223372036854775807%Z.
Proof. reflexivity. Qed.
Lemma i64_min_val : I64_MIN = (-9223372036854775808)%Z.
Proof. reflexivity. Qed.

Lemma sat_i64_nonneg a b : i64_nonneg a -> i64_nonneg b -> i64_nonneg (sat_i64 a b).
Proof. unfold i64_nonneg, sat_i64, clamp_i64. rewrite i64_max_val, i64_min_val. lia. Qed.

Lemma as_i64_small n : n < 2 ^ 63 -> i64_nonneg (as_i64 n).
Proof.
  intros H. unfold as_i64, i64_nonneg, U64. rewrite i64_max_val.
  assert (E : n mod 2 ^ 64 = n). { apply N.mod_small. change (2 ^ 64) with 18446744073709551616. change (2 ^ 63) with 9223372036854775808 in H. lia. }
  rewrite E. change (2 ^ 63) with 9223372036854775808 in H.
  assert (L : (Z.of_N n <? 2 ^ 63)%Z = true). { apply Z.ltb_lt. change (2 ^ 63)%Z with 9223372036854775808%Z. lia. }
  rewrite L. lia.
Qed.

Definition small_files (lv : list file) : Prop := forall f, In f lv -> fsize f < 2 ^ 63.

Lemma overlap_of_nonneg sl : small_files sl -> i64_nonneg (overlap_of sl).
Proof.
  unfold overlap_of. intros H.
  assert (G : forall a, i64_nonneg a -> i64_nonneg (fold_left (fun a f => sat_i64 a (as_i64 (fsize f))) sl a)).
  { induction sl as [|f r IH]; intros a Ha; cbn; [exact Ha|].
    apply IH; [intros g Hg; apply H; now right|].
    apply sat_i64_nonneg; [exact Ha|apply as_i64_small, H; now left]. }
  apply G. unfold i64_nonneg. rewrite i64_max_val. lia.
Qed.

Lemma acc_of_nonneg ovs : Forall i64_nonneg ovs -> i64_nonneg (acc_of ovs).
Proof.
  unfold acc_of. intros H.
  assert (G : forall a, i64_nonneg a -> i64_nonneg (fold_left (fun l r => sat_i64 (sat_i64 l l) r) ovs a)).
  { induction H as [|x r Hx Hr IH]; intros a Ha; cbn; [exact Ha|].
    apply IH. apply sat_i64_nonneg; [apply sat_i64_nonneg; exact Ha|exact Hx]. }
  apply G. unfold i64_nonneg. rewrite i64_max_val. lia.
Qed.

Lemma score_in_i64 a b : i64_nonneg a -> i64_nonneg b -> in_i64 (a - b) = true.
Proof.
  unfold i64_nonneg, in_i64. rewrite i64_max_val, i64_min_val. intros Ha Hb.
  apply andb_true_intro. split; apply Z.leb_le; lia.
Qed.

(* ---------- find_best_compaction ---------- *)
Lemma fbc_loop_total o v og lower : forall idx lvs fk lk bs, cb_ok idx lvs fk lk bs ->
  (forall lv, In lv lvs -> small_files lv) ->
  forall upper ovs inputs cand best, Forall i64_nonneg ovs ->
  exists r, fbc_loop o v og lower upper lvs bs ovs inputs cand best = Ok r.
Proof.
  induction 1 as [|idx lv r fk lk b bs S C IH]; intros HS upper ovs inputs cand best HO; [cbn; eauto|].
  cbn [fbc_loop].
  destruct S as (_ & _ & R & _). rewrite R. cbn [negb].
  assert (Hsl : small_files (slice lv (ls_lb b) (ls_ub b))).
  { intros f Hf. apply (HS lv (or_introl eq_refl)). eapply in_slice; eauto. }
  pose proof (overlap_of_nonneg _ Hsl) as HV. pose proof (acc_of_nonneg _ HO) as HA.
  rewrite (score_in_i64 _ _ HA HV). cbn [negb].
  destruct ((as_i64 (o_max_compaction_bytes o) <? total_of (ovs ++ [overlap_of (slice lv (ls_lb b) (ls_ub b))]))%Z && negb (lower =? 0)%nat); [eauto|].
  destruct (((o_max_compaction_files o <? len (inputs ++ map fid (slice lv (ls_lb b) (ls_ub b)))) && negb (lower =? 0)%nat)
            || (o_max_open_files o <? len (inputs ++ map fid (slice lv (ls_lb b) (ls_ub b))))); [eauto|].
  destruct (ls_lb b =? ls_ub b)%nat; [eauto|].
  apply IH.
  - intros lv' Hlv'. apply HS. now right.
  - apply Forall_app. split; [exact HO|constructor; [exact HV|constructor]].
Qed.

Definition small_tree (v : version) : Prop := forall lv, In lv v -> small_files lv.

Lemma sizes_okb_small v : sizes_okb v = true -> small_tree v.
Proof.
  unfold sizes_okb, all_files. intros H lv Hlv f Hf. rewrite forallb_forall in H.
  apply N.ltb_lt. apply H. apply in_concat. eauto.
Qed.

Lemma find_best_total o v og lower bs fk lk : small_tree v ->
  cb_ok lower (skipn lower v) fk lk bs -> (lower < length v)%nat -> nth lower v [] <> [] ->
  exists r, find_best_compaction o v og lower bs = Ok r.
Proof.
  intros ST CB Hl Hn. unfold find_best_compaction.
  assert (E1 : (lower <? length v)%nat = true) by now apply Nat.ltb_lt. rewrite E1. cbn [negb orb].
  destruct (nth lower v []) eqn:E; [congruence|]. cbn [is_nil].
  eapply fbc_loop_total; eauto.
  intros lv Hlv. apply ST. eapply in_skipn; eauto.
Qed.

(* ---------- next_compaction ---------- *)
Lemma wfl_skipn_levels' v lower j : wf_version v -> (1 <= lower + j)%nat -> wfl (nth j (skipn lower v) []).
Proof. intros W H. rewrite nth_skipn'. now apply wfl_nth. Qed.

Lemma compute_bounds_pos_ok v lower fk lk : wf_version v -> (1 <= lower)%nat ->
  exists bs, compute_bounds v lower fk lk = Ok bs /\ cb_ok lower (skipn lower v) fk lk bs.
Proof.
  intros W Hl. unfold compute_bounds. destruct (cb_levels_total_pos (skipn lower v) lower fk lk Hl) as [bs E].
  exists bs. split; [exact E|]. apply cb_levels_ok; [|exact E]. intros j Hj. now apply wfl_skipn_levels'.
Qed.

Lemma deep_sst_total o v og mf lower st sst : wf_version v -> small_tree v -> (1 <= lower)%nat ->
  In sst (nth lower v []) -> exists st', deep_sst o v og mf lower st sst = Ok st'.
Proof.
  intros W ST Hl Hs. unfold deep_sst.
  destruct (compute_bounds_pos_ok v lower (first_key sst) (last_key sst) W Hl) as [bs [E CB]]. rewrite E. cbn [res_bind].
  assert (Hlen : (lower < length v)%nat).
  { destruct (Nat.lt_ge_cases lower (length v)); [assumption|]. rewrite nth_overflow in Hs by assumption. destruct Hs. }
  assert (Hne : nth lower v [] <> []) by (intros C; rewrite C in Hs; destruct Hs).
  destruct (find_best_total o v og lower bs _ _ ST CB Hlen Hne) as [[oc score] EF]. rewrite EF. cbn [res_bind].
  destruct oc as [c|]; [|eauto].
  destruct (mf && forallb (fun x => is_input (cc c) x) (nth lower v []) && (csize c <? match d_mand st with Some m => csize m | None => 0 end)); [eauto|].
  destruct (d_best st <? score)%Z; eauto.
Qed.

Lemma deep_ssts_total o v og mf lower : wf_version v -> small_tree v -> (1 <= lower)%nat -> forall ssts st,
  (forall s, In s ssts -> In s (nth lower v [])) -> exists st', deep_ssts o v og mf lower st ssts = Ok st'.
Proof.
  intros W ST Hl. induction ssts as [|s r IH]; intros st Hs; cbn [deep_ssts]; [eauto|].
  destruct (deep_sst_total o v og mf lower st s W ST Hl (Hs s (or_introl eq_refl))) as [st1 E]. rewrite E. cbn [res_bind].
  apply IH. intros x Hx. apply Hs. now right.
Qed.

Lemma deep_levels_total o v og mf : wf_version v -> small_tree v -> forall lowers st,
  (forall l, In l lowers -> (1 <= l)%nat) -> exists st', deep_levels o v og mf st lowers = Ok st'.
Proof.
  intros W ST. induction lowers as [|l r IH]; intros st Hl; cbn [deep_levels]; [eauto|].
  assert (E : exists st1, deep_level o v og mf st l = Ok st1).
  { unfold deep_level. destruct ((level_size (nth (l - 1) v []) <? level_size (nth l v []) / level_curve l) && negb mf); [eauto|].
    apply deep_ssts_total; auto. apply Hl. now left. }
  destruct E as [st1 E]. rewrite E. cbn [res_bind]. apply IH. intros x Hx. apply Hl. now right.
Qed.

Lemma l0_part_total o v og mf : wf_version v -> small_tree v -> exists st, l0_part o v og mf = Ok st.
Proof.
  intros W ST. unfold l0_part. destruct (level0 v) as [|f r] eqn:E0; [eauto|].
  set (fk := min_key (first_key f) (map first_key r)). set (lk := max_key (last_key f) (map last_key r)).
  destruct v as [|l0 rest]; [discriminate|]. cbn [level0 hd] in E0. subst l0.
  assert (R : forall g, In g (f :: r) -> key_leb fk (first_key g) = true /\ key_leb (last_key g) lk = true).
  { intros g [<-|Hg]; subst fk lk.
    - split; [apply min_key_le_init|apply max_key_ge_init].
    - split; [apply min_key_le_in|apply max_key_ge_in]; now apply in_map. }
  destruct (cb_levels_total_zero (f :: r) rest fk lk R) as [bs E].
  unfold compute_bounds. cbn [skipn]. rewrite E. cbn [res_bind].
  assert (CB : cb_ok 0 (skipn 0 (@cons level (f :: r) rest)) fk lk bs).
  { apply cb_levels_ok; [|exact E]. intros j Hj. apply (wfl_skipn_levels' (@cons level (f :: r) rest) 0 j W Hj). }
  destruct (find_best_total o (@cons level (f :: r) rest) og 0 bs fk lk ST CB) as [[oc score] EF]; [cbn; lia|cbn; discriminate|].
  rewrite EF. cbn [res_bind]. destruct oc as [c|]; [|eauto]. destruct mf; eauto.
Qed.

Theorem next_compaction_total o v og : sel_wfb v = true -> exists out, next_compaction o v og = Ok out.
Proof.
  intros H. pose proof (sel_wfb_wf v H) as (W & _ & _).
  assert (ST : small_tree v).
  { apply sizes_okb_small. unfold sel_wfb in H. apply andb_prop in H. destruct H as [H _]. apply andb_prop in H. tauto. }
  unfold next_compaction.
  destruct (first_some (find_trivial_move o v og) (List.seq 0 (length v - 1))); [eauto|].
  destruct (l0_part_total o v og (should_mandatory o v) W ST) as [st0 E0]. rewrite E0. cbn [res_bind].
  destruct (deep_levels_total o v og (should_mandatory o v) W ST (rev (List.seq 1 (length v - 2))) st0) as [st ED].
  { intros l Hl. apply in_rev in Hl. apply in_seq in Hl. lia. }
  rewrite ED. cbn [res_bind].
  destruct (d_mand st); [eauto|]. destruct (d_cand st); [|eauto]. destruct (0 <=? d_best st)%Z; eauto.
Qed.
