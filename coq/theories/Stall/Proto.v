(* Stall/Proto.v — the ingest / compaction wake-up protocol of LsmTree (lsmtk/src/tree/mod.rs:
   compaction_thread, apply_manifest_ingest, apply_manifest_compaction, apply_moving_compaction)
   as a transition system.  Definitions only.

   Every transition is one critical section of the `compaction` mutex: all of the code modelled
   here runs with that mutex held (ingest: from lock to notify_all; a compaction thread: lock,
   take_snapshot, next_compaction, then either leave with the compaction pushed on `ongoing` or
   Condvar::wait, which releases the mutex atomically; apply_*: lock .. notify_all), so critical
   sections are totally ordered and each is atomic.  What the model relies on (trusted): the
   mutex excludes, Condvar::wait releases and enqueues atomically, notify_all reaches every
   thread enqueued before it.  Spurious wake-ups are allowed.

   pc of a compaction thread:  CSelect  about to take the mutex and call next_compaction
                               CWait    inside compact.wait, not notified since
                               CRun c   performing c outside the mutex (c is on `ongoing`)
                               CDead    returned: the selector did not return (unreachable on a
                                        well-formed tree, C20_selector_total), or
                                        perform_compaction returned an error (I/O): the compaction
                                        is released and the thread function returns.
   The relation carries a flag `repaired`.  `step true` is the code after 33fc9d3, where the
   failing thread calls compact.notify_all() after release_compaction; `step false` is the code
   before it, where it did not: a thread parked because its only candidates conflicted with the
   failed compaction was never woken (C20_no_lost_wakeup_compact_refuted_before_repair).
   pc of an ingesting thread:  IIdle    not ingesting
                               ICheck f about to take the mutex / re-evaluate should_stall_ingest
                               IWait f  inside stall.wait, not notified since
   `ongoing` entries carry the index of the thread that selected them (the Rust identifies them
   by Arc::ptr_eq). *)
From Coq Require Import NArith ZArith List Bool Arith.
From Blue Require Import Lsm.Model Stall.Select Stall.Known.
Import ListNotations.
Open Scope N_scope.

Inductive cpc := CSelect | CWait | CRun (c : core) | CDead.
Inductive ipc := IIdle | ICheck (f : file) | IWait (f : file).

Record pstate := mkP {
  p_v : version;
  p_og : list (nat * compaction);
  p_c : list cpc;
  p_i : list ipc }.

Definition ongoing (s : pstate) : list compaction := map snd (p_og s).

(* compact.notify_all / stall.notify_all *)
Definition wake_c (p : cpc) : cpc := match p with CWait => CSelect | x => x end.
Definition wake_i (p : ipc) : ipc := match p with IWait f => ICheck f | x => x end.

Definition drop_thread (k : nat) (og : list (nat * compaction)) : list (nat * compaction) :=
  filter (fun e => negb (fst e =? k)%nat) og.

Inductive step (repaired : bool) (o : options) : pstate -> pstate -> Prop :=
(* a client (the flush thread, or a caller of LsmTree::ingest) starts an ingest *)
| s_arrive s i f :
    nth_error (p_i s) i = Some IIdle ->
    step repaired o s (mkP (p_v s) (p_og s) (p_c s) (set_nth i (ICheck f) (p_i s)))
(* apply_manifest_ingest: `while should_stall_ingest { stall.wait }` *)
| s_ingest_wait s i f :
    nth_error (p_i s) i = Some (ICheck f) -> should_stall_ingest o (p_v s) = true ->
    step repaired o s (mkP (p_v s) (p_og s) (p_c s) (set_nth i (IWait f) (p_i s)))
(* ... install the new version, compact.notify_all(), return *)
| s_ingest_done s i f :
    nth_error (p_i s) i = Some (ICheck f) -> should_stall_ingest o (p_v s) = false ->
    step repaired o s (mkP (ingest (p_v s) f) (p_og s) (map wake_c (p_c s)) (set_nth i IIdle (p_i s)))
| s_ingest_spurious s i f :
    nth_error (p_i s) i = Some (IWait f) ->
    step repaired o s (mkP (p_v s) (p_og s) (p_c s) (set_nth i (ICheck f) (p_i s)))
(* compaction_thread: next_compaction under the mutex *)
| s_select_some s k out c :
    nth_error (p_c s) k = Some CSelect ->
    next_compaction o (p_v s) (ongoing s) = Ok out -> nc_choice out = Some c ->
    step repaired o s (mkP (p_v s) (p_og s ++ [(k, cc c)]) (set_nth k (CRun c) (p_c s)) (p_i s))
| s_select_none s k out :
    nth_error (p_c s) k = Some CSelect ->
    next_compaction o (p_v s) (ongoing s) = Ok out -> nc_choice out = None ->
    step repaired o s (mkP (p_v s) (p_og s) (set_nth k CWait (p_c s)) (p_i s))
| s_select_dies s k :
    nth_error (p_c s) k = Some CSelect ->
    (forall out, next_compaction o (p_v s) (ongoing s) <> Ok out) ->
    step repaired o s (mkP (p_v s) (p_og s) (set_nth k CDead (p_c s)) (p_i s))
(* apply_manifest_compaction / apply_moving_compaction: install, stall.notify_all(); the thread
   loops back to next_compaction.  `outs` is whatever the merge produced. *)
| s_apply s k c outs :
    nth_error (p_c s) k = Some (CRun c) ->
    step repaired o s (mkP (apply_compaction (p_v s) (cc c) outs) (drop_thread k (p_og s))
                  (set_nth k CSelect (p_c s)) (map wake_i (p_i s)))
(* perform_compaction returned an error: release_compaction, (after the repair)
   compact.notify_all(), the thread function returns *)
| s_fail s k c :
    nth_error (p_c s) k = Some (CRun c) ->
    step repaired o s (mkP (p_v s) (drop_thread k (p_og s))
                           (if repaired then map wake_c (set_nth k CDead (p_c s)) else set_nth k CDead (p_c s)) (p_i s))
(* the compaction was applied, then removing its scratch files failed (compaction_finish returns
   the error after apply_manifest_compaction succeeded): the thread takes the error branch too
   (release_compaction finds nothing to release), notifies `compact` (after the repair), returns *)
| s_apply_fail s k c outs :
    nth_error (p_c s) k = Some (CRun c) ->
    step repaired o s (mkP (apply_compaction (p_v s) (cc c) outs) (drop_thread k (p_og s))
                           (if repaired then map wake_c (set_nth k CDead (p_c s)) else set_nth k CDead (p_c s))
                           (map wake_i (p_i s)))
| s_compact_spurious s k :
    nth_error (p_c s) k = Some CWait ->
    step repaired o s (mkP (p_v s) (p_og s) (set_nth k CSelect (p_c s)) (p_i s)).

Inductive steps (repaired : bool) (o : options) : pstate -> pstate -> Prop :=
| steps_refl s : steps repaired o s s
| steps_step s1 s2 s3 : steps repaired o s1 s2 -> step repaired o s2 s3 -> steps repaired o s1 s3.

(* an open store: any tree, nothing ongoing, nc >= 1 compaction threads about to select, ni
   client slots idle *)
Definition init (v : version) (nc ni : nat) : pstate := mkP v [] (repeat CSelect (S nc)) (repeat IIdle ni).

(* "every store thread is parked and no wake-up is pending".  The property's premise is that at
   least one compaction thread is running: threads that returned are not waited for, every
   remaining one is parked, and at least one remains. *)
Definition all_compactors_parked (s : pstate) : Prop :=
  (forall k p, nth_error (p_c s) k = Some p -> p = CWait \/ p = CDead) /\
  (exists k, nth_error (p_c s) k = Some CWait).
Definition ingest_parked (s : pstate) : Prop := exists i f, nth_error (p_i s) i = Some (IWait f).
Definition no_ingest_running (s : pstate) : Prop := forall i p, nth_error (p_i s) i = Some p -> p = IIdle \/ exists f, p = IWait f.
Definition all_parked (s : pstate) : Prop := all_compactors_parked s /\ no_ingest_running s /\ ingest_parked s.
