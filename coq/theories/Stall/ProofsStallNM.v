(* Stall/ProofsStallNM.v — stall_relievable when the mandatory condition does NOT hold: some level
   is empty, the loop of find_best_compaction(0) reaches a level with an empty slice, and the
   candidate there has a non-negative score; it may be chosen as soon as max_open_files exceeds
   the number of files in the tree. *)
From Coq Require Import NArith ZArith List Bool Arith Lia.
From Blue Require Import Lsm.Model Lsm.KeyOrder Lsm.LoadProofs Lsm.ListLemmas Lsm.CompactProofs
  Stall.Select Stall.Known Stall.ProofsBasic Stall.ProofsBounds Stall.ProofsAdm Stall.ProofsRaw
  Stall.ProofsTotal Stall.ProofsStall Stall.ProofsCount.
Import ListNotations.
Open Scope N_scope.

Lemma forallb_false_nth {A} (p : A -> bool) l d : forallb p l = false -> exists j, (j < length l)%nat /\ p (nth j l d) = false.
Proof.
  induction l as [|x l IH]; cbn; [discriminate|]. destruct (p x) eqn:E; cbn.
  - intros H. destruct (IH H) as [j [Hj Hp]]. exists (S j). split; [lia|exact Hp].
  - intros _. exists O. split; [lia|exact E].
Qed.

Lemma acc_nonneg_score ovs : Forall i64_nonneg ovs -> (0 <= acc_of ovs - overlap_of [])%Z.
Proof. intros H. pose proof (acc_of_nonneg _ H) as [A _]. unfold overlap_of. cbn. lia. Qed.

Lemma scale_score_nonneg score l : (0 <= score)%Z -> (0 <= scale_score score l)%Z.
Proof.
  intros H. unfold scale_score, clamp_i64, ceil_div, FACTOR_DEN.
  rewrite i64_min_val, i64_max_val.
  assert (N0 : (0 <= level_factor_num l)%Z) by (unfold level_factor_num; lia).
  revert N0. generalize (level_factor_num l). intros n N0.
  assert (D : ((- (score * n)) / 2 ^ 52 <= 0)%Z).
  { apply Z.div_le_upper_bound; [reflexivity|]. nia. }
  lia.
Qed.

Section NM.
  Variables (o : options) (v : version) (bs0 : list lslice) (fk0 lk0 : key).
  Hypothesis WFB : sel_wfb v = true.
  Hypothesis CB : cb_ok 0 (skipn 0 v) fk0 lk0 bs0.
  Hypothesis K0 : key_leb fk0 lk0 = true.
  Hypothesis MOF : len (all_files v) < o_max_open_files o.
  Hypothesis L0NE : nth 0 v [] <> [].

  Let WF : sel_wf v := sel_wfb_wf v WFB.

  Lemma small_v : small_tree v.
  Proof.
    apply sizes_okb_small. pose proof WFB as H. unfold sel_wfb in H. apply andb_prop in H. destruct H as [H _]. apply andb_prop in H. tauto.
  Qed.

  Lemma upto_bound t : len (inputs_upto v 0 bs0 t) < o_max_open_files o.
  Proof.
    destruct WF as (_ & U & _).
    pose proof (nodup_incl_bound _ v (raw_inputs_nodup v 0 bs0 t U) (raw_inputs_incl v 0 bs0 t)). lia.
  Qed.

  Lemma candidate_may_choose t : (1 <= t)%nat -> (t < length v)%nat ->
    may_choose o [] (expand_compaction o v (raw v 0 bs0 t)) = true.
  Proof.
    intros H1 Ht.
    assert (A : adm v (expand_compaction o v (raw v 0 bs0 t))).
    { apply expand_adm; [exact WF|]. apply (raw_adm v 0 bs0 fk0 lk0 WF CB K0 t H1). cbn [skipn]. exact Ht. }
    assert (N : NoDup (cinputs (expand_compaction o v (raw v 0 bs0 t)))).
    { unfold expand_compaction. destruct WF as (_ & U & _). apply exp_levels_nodup; [exact U|]. unfold raw. cbn [cinputs]. now apply raw_inputs_nodup. }
    pose proof (inputs_bound _ _ A N) as B.
    unfold may_choose. unfold expand_compaction.
    destruct (exp_levels_levels o v (if (clower (raw v 0 bs0 t) <=? cupper (raw v 0 bs0 t))%nat then S (cupper (raw v 0 bs0 t) - clower (raw v 0 bs0 t)) else 0%nat)
                (cupper (raw v 0 bs0 t)) (raw v 0 bs0 t) (cfirst (raw v 0 bs0 t)) (clast (raw v 0 bs0 t))) as (E1 & E2 & _).
    rewrite E1, E2. unfold raw at 1 2. cbn [clower cupper Nat.add].
    assert (E0 : (0 =? t)%nat = false) by (apply Nat.eqb_neq; lia). rewrite E0.
    cbn [fold_left existsb negb]. unfold expand_compaction in B.
    assert (E : (o_max_open_files o <=? len (cinputs (exp_levels o v (if (clower (raw v 0 bs0 t) <=? cupper (raw v 0 bs0 t))%nat then S (cupper (raw v 0 bs0 t) - clower (raw v 0 bs0 t)) else 0%nat)
                (cupper (raw v 0 bs0 t)) (raw v 0 bs0 t) (cfirst (raw v 0 bs0 t)) (clast (raw v 0 bs0 t)))) + 0) = false).
    { apply N.leb_gt. lia. }
    rewrite E. reflexivity.
  Qed.

  Lemma fbc_loop_nm : forall lvs t bs ovs inputs cand best r,
    lvs = skipn t v -> bs = skipn t bs0 -> inputs = inputs_upto v 0 bs0 t -> Forall i64_nonneg ovs ->
    (cand = None -> best = I64_MIN) ->
    (exists j, (t <= j)%nat /\ (1 <= j)%nat /\ (j < length v)%nat /\ nth j v [] = []) ->
    fbc_loop o v [] 0 t lvs bs ovs inputs cand best = Ok r ->
    exists c, fst r = Some c /\ (0 <= snd r)%Z.
  Proof.
    induction lvs as [|lv lvs' IH]; intros t bs ovs inputs cand best r El Eb Ei HO HC (j & Hj1 & Hj2 & Hj3 & Hj4) H.
    - exfalso. assert (L : length (skipn t v) = O) by (rewrite <- El; reflexivity). rewrite skipn_length in L. lia.
    - symmetry in El. destruct (skipn_cons_nth t v lv lvs' [] El) as (E1 & E2 & Ht).
      pose proof (cb_ok_length _ _ _ _ _ CB) as LB. cbn [skipn] in LB.
      destruct bs as [|b bs'].
      { exfalso. assert (L : length (skipn t bs0) = O) by (rewrite <- Eb; reflexivity). rewrite skipn_length in L. lia. }
      symmetry in Eb. destruct (skipn_cons_nth t bs0 b bs' dls Eb) as (E3 & E4 & _).
      cbn [fbc_loop] in H.
      assert (Esl : slice lv (ls_lb b) (ls_ub b) = sl v 0 bs0 t) by (unfold sl; cbn [skipn]; now rewrite <- E1, <- E3).
      rewrite Esl in H.
      destruct (negb (slice_in_range b (sl v 0 bs0 t))); [discriminate|].
      destruct (negb (in_i64 (acc_of ovs - overlap_of (sl v 0 bs0 t)))); [discriminate|].
      cbn [Nat.eqb negb] in H. rewrite ?andb_false_r in H. cbn [orb] in H.
      assert (Ein : inputs ++ map fid (sl v 0 bs0 t) = inputs_upto v 0 bs0 (S t)) by (rewrite Ei; symmetry; apply inputs_upto_S).
      rewrite Ein in H.
      assert (NM : (o_max_open_files o <? len (inputs_upto v 0 bs0 (S t))) = false).
      { apply N.ltb_ge. pose proof (upto_bound (S t)). lia. }
      rewrite NM in H.
      assert (Hsl : small_files (sl v 0 bs0 t)).
      { intros g Hg. apply sl_level in Hg. cbn [Nat.add] in Hg. apply (small_v (nth t v [])); [apply nth_In; exact Ht|exact Hg]. }
      pose proof (overlap_of_nonneg _ Hsl) as HV.
      (* the slice data of this level *)
      destruct (cb_ok_nth _ _ _ _ _ CB t ltac:(cbn [skipn]; exact Ht)) as (fk' & lk' & (_ & _ & _ & S4) & _).
      cbn [Nat.add skipn] in S4. rewrite <- E3 in S4.
      set (score := (acc_of ovs - overlap_of (sl v 0 bs0 t))%Z) in *.
      set (c0 := expand_compaction o v (mkC 0 t (ls_first b) (ls_last b) (inputs_upto v 0 bs0 (S t)))) in *.
      assert (Ec0 : c0 = expand_compaction o v (raw v 0 bs0 t)) by (subst c0; unfold raw; cbn [Nat.add]; now rewrite E3).
      set (cb := if (0 <? t)%nat && (best <? score)%Z
                 then if may_choose o [] c0 then (Some (mkCore c0 (as_u64 (total_of (ovs ++ [overlap_of (sl v 0 bs0 t)])))), score) else (cand, best)
                 else (cand, best)) in *.
      assert (HCB : fst cb = None -> snd cb = I64_MIN).
      { subst cb. destruct ((0 <? t)%nat && (best <? score)%Z); [|exact HC]. destruct (may_choose o [] c0); [cbn; discriminate|exact HC]. }
      destruct (ls_lb b =? ls_ub b)%nat eqn:EE.
      + (* an empty slice: the score is acc >= 0 *)
        apply Nat.eqb_eq in EE. inversion H; subst r; clear H.
        assert (Hempty : sl v 0 bs0 t = []).
        { rewrite <- Esl. unfold slice. rewrite EE, Nat.sub_diag. reflexivity. }
        assert (T1 : (1 <= t)%nat).
        { destruct t as [|t']; [|lia]. exfalso. apply L0NE.
          rewrite <- (sl0_all v 0 bs0 fk0 lk0 CB eq_refl); [exact Hempty|]. cbn [skipn]. lia. }
        assert (SC : (0 <= score)%Z). { subst score. rewrite Hempty. now apply acc_nonneg_score. }
        assert (MC : may_choose o [] c0 = true) by (rewrite Ec0; now apply candidate_may_choose).
        subst cb. assert (E0 : (0 <? t)%nat = true) by (apply Nat.ltb_lt; lia). rewrite E0, MC. cbn [andb].
        destruct (best <? score)%Z eqn:EB.
        * cbn. eauto.
        * apply Z.ltb_ge in EB. cbn [fst snd]. destruct cand as [c|].
          -- exists c. split; [reflexivity|lia].
          -- specialize (HC eq_refl). rewrite HC, i64_min_val in EB. lia.
      + apply Nat.eqb_neq in EE.
        assert (Hne : nth t v [] <> []).
        { intros C. rewrite C in S4. destruct (t =? 0)%nat; cbn in S4; destruct S4 as [S5 S6]; apply EE; rewrite S5, S6; reflexivity. }
        eapply (IH (S t) bs' (ovs ++ [overlap_of (sl v 0 bs0 t)]) (inputs_upto v 0 bs0 (S t)) (fst cb) (snd cb) r);
          [exact E2|exact E4|reflexivity| |exact HCB| |exact H].
        * apply Forall_app. split; [exact HO|constructor; [exact HV|constructor]].
        * exists j. repeat split; auto. destruct (Nat.eq_dec j t) as [->|]; [congruence|lia].
  Qed.
End NM.

(* ---------- through next_compaction ---------- *)
Definition PN (st : dstate) : Prop := d_cand st <> None /\ (0 <= d_best st)%Z /\ d_mand st = None.

Lemma deep_sst_pn o v og lower st sst st' : PN st -> deep_sst o v og false lower st sst = Ok st' -> PN st'.
Proof.
  intros (P1 & P2 & P3) H. unfold deep_sst in H.
  destruct (compute_bounds v lower (first_key sst) (last_key sst)) as [bs| |]; cbn [res_bind] in H; try discriminate.
  destruct (find_best_compaction o v og lower bs) as [[oc score]| |]; cbn [res_bind] in H; try discriminate.
  destruct oc as [c|]; [|inversion H; subst; repeat split; auto].
  cbn [andb] in H. destruct (d_best st <? score)%Z eqn:E.
  - inversion H; subst st'. cbn. repeat split; [discriminate| |exact P3]. apply scale_score_nonneg. apply Z.ltb_lt in E. lia.
  - inversion H; subst. repeat split; auto.
Qed.

Lemma deep_ssts_pn o v og lower : forall ssts st st', PN st -> deep_ssts o v og false lower st ssts = Ok st' -> PN st'.
Proof.
  induction ssts as [|s r IH]; intros st st' P H; cbn [deep_ssts] in H; [inversion H; subst; exact P|].
  destruct (deep_sst o v og false lower st s) as [st1| |] eqn:E; cbn [res_bind] in H; try discriminate.
  eapply IH; [|exact H]. eapply deep_sst_pn; eauto.
Qed.

Lemma deep_levels_pn o v og : forall lowers st st', PN st -> deep_levels o v og false st lowers = Ok st' -> PN st'.
Proof.
  induction lowers as [|l r IH]; intros st st' P H; cbn [deep_levels] in H; [inversion H; subst; exact P|].
  destruct (deep_level o v og false st l) as [st1| |] eqn:E; cbn [res_bind] in H; try discriminate.
  eapply IH; [|exact H]. unfold deep_level in E.
  destruct ((level_size (nth (l - 1) v []) <? level_size (nth l v []) / level_curve l) && negb false).
  - inversion E; subst. exact P.
  - eapply deep_ssts_pn; eauto.
Qed.

Theorem stall_relievable_not_mandatory o v : sel_wfb v = true -> is_nil (level0 v) = false ->
  should_mandatory o v = false -> len (all_files v) < o_max_open_files o ->
  exists out c, next_compaction o v [] = Ok out /\ nc_choice out = Some c.
Proof.
  intros Hwf K1 K2 K3. destruct (next_compaction_total o v [] Hwf) as [out E]. exists out.
  assert (C : exists c, nc_choice out = Some c); [|destruct C as [c C]; exists c; split; assumption].
  pose proof (sel_wfb_wf v Hwf) as (W & U & T).
  unfold next_compaction in E.
  destruct (first_some (find_trivial_move o v []) (List.seq 0 (length v - 1))) as [c0|] eqn:ET.
  - inversion E; subst out. cbn. eauto.
  - rewrite K2 in E.
    destruct (l0_part o v [] false) as [st0| |] eqn:E0; cbn [res_bind] in E; try discriminate.
    assert (P0 : PN st0).
    { unfold l0_part in E0. destruct (level0 v) as [|f r] eqn:EL; [cbn in K1; discriminate|].
      set (fk := min_key (first_key f) (map first_key r)) in *. set (lk := max_key (last_key f) (map last_key r)) in *.
      destruct (compute_bounds v 0 fk lk) as [bs| |] eqn:EB; cbn [res_bind] in E0; try discriminate.
      destruct (find_best_compaction o v [] 0 bs) as [[oc score]| |] eqn:EF; cbn [res_bind] in E0; try discriminate.
      assert (L0 : nth 0 v [] = f :: r). { unfold level0 in EL. destruct v; [discriminate|]. exact EL. }
      assert (K0 : key_leb fk lk = true).
      { subst fk lk. eapply key_leb_trans; [apply min_key_le_init|]. eapply key_leb_trans; [|apply max_key_ge_init].
        apply file_first_le_last. apply (wf_files_nth v O f W). rewrite L0. now left. }
      assert (CB : cb_ok 0 (skipn 0 v) fk lk bs).
      { unfold compute_bounds in EB. apply cb_levels_ok; [|exact EB]. intros j Hj. now apply wfl_skipn_levels'. }
      (* some level >= 1 is empty *)
      unfold should_mandatory in K2. apply orb_false_iff in K2. destruct K2 as [_ K2].
      destruct (forallb_false_nth _ v [] K2) as [j [Hj Hp]]. apply negb_false_iff in Hp.
      assert (Ej : nth j v [] = []) by (destruct (nth j v []); [reflexivity|discriminate]).
      assert (J1 : (1 <= j)%nat). { destruct j; [rewrite L0 in Ej; discriminate|lia]. }
      unfold find_best_compaction in EF.
      destruct (negb (0 <? length v)%nat || is_nil (nth 0 v [])); [discriminate|].
      destruct (fbc_loop_nm o v bs fk lk Hwf CB K0 K3 ltac:(rewrite L0; discriminate) (skipn 0 v) 0 bs [] [] None I64_MIN (oc, score))
        as [c [Hc Hs]]; auto.
      - exists j. repeat split; auto. lia.
      - cbn [fst snd] in *. subst oc. inversion E0; subst st0. repeat split; cbn; [discriminate|exact Hs]. }
    destruct (deep_levels o v [] false st0 (rev (List.seq 1 (length v - 2)))) as [st| |] eqn:ED; cbn [res_bind] in E; try discriminate.
    destruct (deep_levels_pn _ _ _ _ _ _ P0 ED) as (P1 & P2 & P3).
    rewrite P3 in E. destruct (d_cand st) as [c1|]; [|congruence].
    assert (EZ : (0 <=? d_best st)%Z = true) by now apply Z.leb_le. rewrite EZ in E.
    inversion E; subst out. cbn. eauto.
Qed.
