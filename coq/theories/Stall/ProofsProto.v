(* Stall/ProofsProto.v — invariants of the wake-up protocol: no lost wake-up on either condition
   variable, what an all-parked state looks like, and that such a state is permanent *)
From Coq Require Import NArith ZArith List Bool Arith Lia.
From Blue Require Import Lsm.Model Stall.Select Stall.Known Stall.Proto Stall.ProofsBasic Stall.ProofsAdm
  Stall.ProofsTotal Stall.ProofsStall Stall.ProofsRelief.
Import ListNotations.
Open Scope N_scope.

(* ---------- lists ---------- *)
Lemma nth_error_set_nth_eq {A} i (x : A) l y : nth_error l i = Some y -> nth_error (set_nth i x l) i = Some x.
Proof. revert l. induction i as [|i IH]; intros [|z l] H; cbn in *; try discriminate; auto. Qed.

Lemma nth_error_set_nth_neq {A} i j (x : A) l : i <> j -> nth_error (set_nth i x l) j = nth_error l j.
Proof.
  revert j l. induction i as [|i IH]; intros j [|z l] H; cbn; auto.
  - destruct j; [congruence|reflexivity].
  - destruct j; [reflexivity|]. cbn. apply IH. congruence.
Qed.

Lemma set_nth_length {A} i (x : A) l : length (set_nth i x l) = length l.
Proof. revert l. induction i as [|i IH]; intros [|z l]; cbn; auto. Qed.

Lemma nth_error_map' {A B} (f : A -> B) l n : nth_error (map f l) n = option_map f (nth_error l n).
Proof. revert l. induction n as [|n IH]; intros [|x l]; cbn; auto. Qed.

Lemma in_drop_thread k og e : In e (drop_thread k og) <-> In e og /\ fst e <> k.
Proof.
  unfold drop_thread. rewrite filter_In. split; intros [H1 H2]; split; auto.
  - apply negb_true_iff in H2. now apply Nat.eqb_neq in H2.
  - apply negb_true_iff. now apply Nat.eqb_neq.
Qed.

(* ---------- the invariant (of the repaired protocol, `step true`) ---------- *)
Section Protocol.
  Variable o : options.

  Definition awake (s : pstate) : Prop :=
    exists k, nth_error (p_c s) k = Some CSelect \/ exists c, nth_error (p_c s) k = Some (CRun c).
  Definition nobody_waits (s : pstate) : Prop := forall k, nth_error (p_c s) k <> Some CWait.
  (* the selector, asked now, would not hand out a compaction *)
  Definition no_work (s : pstate) : Prop :=
    forall out c, next_compaction o (p_v s) (ongoing s) = Ok out -> nc_choice out <> Some c.

  Record Inv (s : pstate) : Prop := mkInv {
    (* every ongoing compaction belongs to a thread that is performing it *)
    i_og : forall k c, In (k, c) (p_og s) -> exists co, nth_error (p_c s) k = Some (CRun co) /\ cc co = c;
    (* a thread sleeps on `stall` only while the stall condition holds *)
    i_stall : forall i f, nth_error (p_i s) i = Some (IWait f) -> should_stall_ingest o (p_v s) = true;
    (* a thread sleeps on `compact` only while some compaction thread is awake or the selector
       has nothing to offer *)
    i_compact : awake s \/ no_work s \/ nobody_waits s }.

  Lemma init_inv v nc ni : Inv (init v nc ni).
  Proof.
    constructor; cbn.
    - intros k c [].
    - intros i f H. exfalso. revert i H. induction ni as [|n IH]; intros [|i] H; cbn in H; try discriminate. eauto.
    - left. exists O. left. reflexivity.
  Qed.

  (* after compact.notify_all nobody is parked on `compact` *)
  Lemma woken_nobody_waits cs k : nth_error (map wake_c cs) k <> Some CWait.
  Proof.
    rewrite nth_error_map'. destruct (nth_error cs k) as [[| |c|]|]; cbn; discriminate.
  Qed.

  Lemma og_other_thread s k x : (forall c, nth_error (p_c s) k <> Some (CRun c)) -> Inv s ->
    forall k' c, In (k', c) (p_og s) -> exists co, nth_error (set_nth k x (p_c s)) k' = Some (CRun co) /\ cc co = c.
  Proof.
    intros Hk I k' c Hin. destruct (i_og s I k' c Hin) as [co [H1 H2]].
    exists co. split; [|exact H2]. rewrite nth_error_set_nth_neq; [exact H1|]. intros ->. exact (Hk co H1).
  Qed.

  Theorem step_inv s s' : Inv s -> step true o s s' -> Inv s'.
  Proof.
    intros I St. destruct St as
      [s i f Hi | s i f Hi Hs | s i f Hi Hs | s i f Hi
      | s k out c Hk Hn Hc | s k out Hk Hn Hc | s k Hk Hn | s k c outs Hk | s k c Hk | s k c outs Hk | s k Hk].
    - (* arrive *) constructor; cbn [p_v p_og p_c p_i].
      + exact (i_og s I).
      + intros j g Hj. destruct (Nat.eq_dec i j) as [<-|Hne].
        * rewrite (nth_error_set_nth_eq _ _ _ _ Hi) in Hj. discriminate.
        * rewrite nth_error_set_nth_neq in Hj by exact Hne. exact (i_stall s I j g Hj).
      + exact (i_compact s I).
    - (* ingest waits *) constructor; cbn [p_v p_og p_c p_i].
      + exact (i_og s I).
      + intros j g Hj. exact Hs.
      + exact (i_compact s I).
    - (* ingest done *) constructor; cbn [p_v p_og p_c p_i].
      + intros k c Hin. destruct (i_og s I k c Hin) as [co [H1 H2]]. exists co. split; [|exact H2].
        rewrite nth_error_map', H1. reflexivity.
      + intros j g Hj. destruct (Nat.eq_dec i j) as [<-|Hne].
        * rewrite (nth_error_set_nth_eq _ _ _ _ Hi) in Hj. discriminate.
        * rewrite nth_error_set_nth_neq in Hj by exact Hne.
          pose proof (i_stall s I j g Hj) as C. congruence.
      + right; right. intros k. apply woken_nobody_waits.
    - (* spurious wake-up on stall *) constructor; cbn [p_v p_og p_c p_i].
      + exact (i_og s I).
      + intros j g Hj. destruct (Nat.eq_dec i j) as [<-|Hne].
        * rewrite (nth_error_set_nth_eq _ _ _ _ Hi) in Hj. discriminate.
        * rewrite nth_error_set_nth_neq in Hj by exact Hne. exact (i_stall s I j g Hj).
      + exact (i_compact s I).
    - (* select: some *) constructor; cbn [p_v p_og p_c p_i].
      + intros k' c' Hin. apply in_app_or in Hin. destruct Hin as [Hin|[E|[]]].
        * apply (og_other_thread s k (CRun c)); auto. intros c0 C. congruence.
        * inversion E; subst. exists c. split; [|reflexivity]. eapply nth_error_set_nth_eq; eauto.
      + exact (i_stall s I).
      + left. exists k. right. exists c. eapply nth_error_set_nth_eq; eauto.
    - (* select: none *) constructor; cbn [p_v p_og p_c p_i].
      + apply (og_other_thread s k CWait); auto. intros c0 C. congruence.
      + exact (i_stall s I).
      + right; left. intros out' c' H. unfold ongoing in *. cbn [p_v p_og] in H. congruence.
    - (* select: the selector does not return *) constructor; cbn [p_v p_og p_c p_i].
      + apply (og_other_thread s k CDead); auto. intros c0 C. congruence.
      + exact (i_stall s I).
      + right; left. intros out' c' H. exfalso. exact (Hn out' H).
    - (* apply *) constructor; cbn [p_v p_og p_c p_i].
      + intros k' c' Hin. apply in_drop_thread in Hin. destruct Hin as [Hin Hne]. cbn [fst] in Hne.
        destruct (i_og s I k' c' Hin) as [co [H1 H2]]. exists co. split; [|exact H2].
        rewrite nth_error_set_nth_neq; [exact H1|congruence].
      + intros j g Hj. rewrite nth_error_map' in Hj. destruct (nth_error (p_i s) j) as [[| |]|]; cbn in Hj; discriminate.
      + left. exists k. left. eapply nth_error_set_nth_eq; eauto.
    - (* perform_compaction failed: release, notify_all on `compact`, return *) constructor; cbn [p_v p_og p_c p_i].
      + intros k' c' Hin. apply in_drop_thread in Hin. destruct Hin as [Hin Hne]. cbn [fst] in Hne.
        destruct (i_og s I k' c' Hin) as [co [H1 H2]]. exists co. split; [|exact H2].
        rewrite nth_error_map', nth_error_set_nth_neq; [rewrite H1; reflexivity|congruence].
      + exact (i_stall s I).
      + right; right. intros k'. apply woken_nobody_waits.
    - (* applied, then the clean-up failed *) constructor; cbn [p_v p_og p_c p_i].
      + intros k' c' Hin. apply in_drop_thread in Hin. destruct Hin as [Hin Hne]. cbn [fst] in Hne.
        destruct (i_og s I k' c' Hin) as [co [H1 H2]]. exists co. split; [|exact H2].
        rewrite nth_error_map', nth_error_set_nth_neq; [rewrite H1; reflexivity|congruence].
      + intros j g Hj. rewrite nth_error_map' in Hj. destruct (nth_error (p_i s) j) as [[| |]|]; cbn in Hj; discriminate.
      + right; right. intros k'. apply woken_nobody_waits.
    - (* spurious wake-up on compact *) constructor; cbn [p_v p_og p_c p_i].
      + apply (og_other_thread s k CSelect); auto. intros c0 C. congruence.
      + exact (i_stall s I).
      + left. exists k. left. eapply nth_error_set_nth_eq; eauto.
  Qed.

  Theorem steps_inv s s' : Inv s -> steps true o s s' -> Inv s'.
  Proof. intros I St. induction St as [|s1 s2 s3 St IH St1]; [exact I|]. eapply step_inv; [apply IH; exact I|exact St1]. Qed.

  Theorem reachable_inv v nc ni s : steps true o (init v nc ni) s -> Inv s.
  Proof. apply steps_inv, init_inv. Qed.

  (* ---------- no lost wake-up ---------- *)
  (* `stall`: whoever sleeps on it still has its reason to sleep; equivalently, the event that
     makes should_stall_ingest false (an applied compaction) has woken every sleeper *)
  Theorem no_lost_wakeup_stall v nc ni s i f : steps true o (init v nc ni) s ->
    nth_error (p_i s) i = Some (IWait f) -> should_stall_ingest o (p_v s) = true.
  Proof. intros R. exact (i_stall s (reachable_inv v nc ni s R) i f). Qed.

  (* `compact`: when every compaction thread that has not returned sleeps (and at least one is
     left), nothing is ongoing and the selector, asked now, hands out nothing: every event that
     creates work - an ingest, an applied compaction (followed by a re-selection), a released
     compaction - leaves some compaction thread awake *)
  Theorem no_lost_wakeup_compact v nc ni s : steps true o (init v nc ni) s -> all_compactors_parked s ->
    p_og s = [] /\ forall out c, next_compaction o (p_v s) [] = Ok out -> nc_choice out <> Some c.
  Proof.
    intros R [AP [kw Hw]]. pose proof (reachable_inv v nc ni s R) as I.
    assert (E : p_og s = []).
    { destruct (p_og s) as [|[k c] r] eqn:EO; [reflexivity|exfalso].
      destruct (i_og s I k c) as [co [H _]]; [rewrite EO; now left|]. destruct (AP k _ H); discriminate. }
    split; [exact E|].
    destruct (i_compact s I) as [[k [A|[c A]]]|[N|N]].
    - destruct (AP k _ A); discriminate.
    - destruct (AP k _ A); discriminate.
    - unfold no_work, ongoing in N. rewrite E in N. exact N.
    - exfalso. exact (N kw Hw).
  Qed.

  (* ---------- what a state with all store threads parked looks like ---------- *)
  Theorem all_parked_is_unrelievable_stall v nc ni s : steps true o (init v nc ni) s -> all_parked s ->
    should_stall_ingest o (p_v s) = true /\ p_og s = [] /\
    forall out c, next_compaction o (p_v s) [] = Ok out -> nc_choice out <> Some c.
  Proof.
    intros R (AC & _ & (i & f & Hi)). split.
    - eapply no_lost_wakeup_stall; eauto.
    - eapply no_lost_wakeup_compact; eauto.
  Qed.

  (* outside the known class the store never gets there: with the tree well-formed, some store
     thread is always awake or about to be woken while an ingest waits *)
  Theorem no_deadlock_outside_known v nc ni s : steps true o (init v nc ni) s ->
    sel_wfb (p_v s) = true -> known_stall o (p_v s) = false -> ~ all_parked s.
  Proof.
    intros R W K AP. destruct (all_parked_is_unrelievable_stall v nc ni s R AP) as (_ & _ & N).
    destruct (stall_relievable_outside_known o (p_v s) W K) as (out' & c & H3 & H4). exact (N out' c H3 H4).
  Qed.

  (* ---------- and such a state is permanent ---------- *)
  Definition stuck (s : pstate) : Prop :=
    should_stall_ingest o (p_v s) = true /\ p_og s = [] /\
    (forall out c, next_compaction o (p_v s) [] = Ok out -> nc_choice out <> Some c) /\
    (forall k c, nth_error (p_c s) k <> Some (CRun c)).

  Lemma stuck_step s s' : stuck s -> step true o s s' ->
    stuck s' /\ p_v s' = p_v s /\
    (forall i, (exists f, nth_error (p_i s) i = Some (ICheck f) \/ nth_error (p_i s) i = Some (IWait f)) ->
               (exists f, nth_error (p_i s') i = Some (ICheck f) \/ nth_error (p_i s') i = Some (IWait f))).
  Proof.
    intros (S1 & S2 & S3 & S4) St.
    assert (MK : forall cs is', (forall k c, nth_error cs k <> Some (CRun c)) -> stuck (mkP (p_v s) (p_og s) cs is')).
    { intros cs is' H. unfold stuck. cbn [p_v p_og p_c p_i]. split; [exact S1|]. split; [exact S2|]. split; [exact S3|exact H]. }
    destruct St as
      [s i f Hi | s i f Hi Hs | s i f Hi Hs | s i f Hi
      | s k out c Hk Hn Hc | s k out Hk Hn Hc | s k Hk Hn | s k c outs Hk | s k c Hk | s k c outs Hk | s k Hk]; cbn [p_v p_og p_c p_i] in *.
    - split; [apply MK; exact S4|]. split; [reflexivity|]. intros j [g Hj].
      destruct (Nat.eq_dec i j) as [<-|Hne]; [destruct Hj as [Hj|Hj]; congruence|].
      exists g. now rewrite nth_error_set_nth_neq by exact Hne.
    - split; [apply MK; exact S4|]. split; [reflexivity|]. intros j [g Hj].
      destruct (Nat.eq_dec i j) as [<-|Hne].
      + exists f. right. eapply nth_error_set_nth_eq; eauto.
      + exists g. now rewrite nth_error_set_nth_neq by exact Hne.
    - congruence.
    - split; [apply MK; exact S4|]. split; [reflexivity|]. intros j [g Hj].
      destruct (Nat.eq_dec i j) as [<-|Hne].
      + exists f. left. eapply nth_error_set_nth_eq; eauto.
      + exists g. now rewrite nth_error_set_nth_neq by exact Hne.
    - exfalso. unfold ongoing in Hn. cbn [p_og] in Hn. rewrite S2 in Hn. cbn in Hn. exact (S3 out c Hn Hc).
    - split; [|split; [reflexivity|auto]]. apply MK.
      intros k' c' C. destruct (Nat.eq_dec k k') as [<-|Hne].
      + rewrite (nth_error_set_nth_eq _ _ _ _ Hk) in C. discriminate.
      + rewrite nth_error_set_nth_neq in C by exact Hne. exact (S4 k' c' C).
    - split; [|split; [reflexivity|auto]]. apply MK.
      intros k' c' C. destruct (Nat.eq_dec k k') as [<-|Hne].
      + rewrite (nth_error_set_nth_eq _ _ _ _ Hk) in C. discriminate.
      + rewrite nth_error_set_nth_neq in C by exact Hne. exact (S4 k' c' C).
    - exfalso. exact (S4 k c Hk).
    - exfalso. exact (S4 k c Hk).
    - exfalso. exact (S4 k c Hk).
    - split; [|split; [reflexivity|auto]]. apply MK.
      intros k' c' C. destruct (Nat.eq_dec k k') as [<-|Hne].
      + rewrite (nth_error_set_nth_eq _ _ _ _ Hk) in C. discriminate.
      + rewrite nth_error_set_nth_neq in C by exact Hne. exact (S4 k' c' C).
  Qed.

  (* from a stuck state on, the tree never changes and no waiting ingest ever returns *)
  Theorem stall_is_forever s s' : stuck s -> steps true o s s' ->
    stuck s' /\ p_v s' = p_v s /\
    (forall i, (exists f, nth_error (p_i s) i = Some (ICheck f) \/ nth_error (p_i s) i = Some (IWait f)) ->
               (exists f, nth_error (p_i s') i = Some (ICheck f) \/ nth_error (p_i s') i = Some (IWait f))).
  Proof.
    intros S St. induction St as [|s1 s2 s3 St IH St1]; [auto|].
    destruct (IH S) as (A & B & C). destruct (stuck_step s2 s3 A St1) as (A' & B' & C').
    split; [exact A'|]. split; [congruence|]. intros i Hi. apply C', C, Hi.
  Qed.

  Lemma all_parked_stuck v nc ni s : steps true o (init v nc ni) s -> all_parked s -> stuck s.
  Proof.
    intros R AP. destruct (all_parked_is_unrelievable_stall v nc ni s R AP) as (A & B & C).
    repeat split; auto. intros k c H. destruct AP as ((AC & _) & _). destruct (AC k _ H); discriminate.
  Qed.
End Protocol.
