(* Stall/Select.v — executable model of the compaction selector of lsmtk (lsmtk/src/tree/mod.rs,
   impl Version): should_stall_ingest, should_perform_mandatory_compaction, next_compaction,
   compute_bounds, find_trivial_move, find_trivial_move_for_one_sst, find_best_compaction,
   expand_compaction, expansion_keeps_inputs_closed, may_choose_compaction, over the types of
   Lsm/Model.v.  Definitions only; function by function, same loops, same early exits.

   The code modelled is the code after the repairs 497a84e (a trivial move must not split a key),
   764f777 (expansion keeps the inputs closed) and 0634ccd (max_compaction_files does not bind a
   compaction out of level 0).

   Conventions:
   - a file is identified by `fid` (the Rust compares setsums, and `Arc::ptr_eq` in
     find_trivial_move_for_one_sst; a tree never holds one setsum twice);
   - usize and u64 are 64 bits; `as i64` / `as u64` casts wrap, saturating adds saturate, the one
     plain i64 subtraction (`acc - overlap[upper]`) panics on overflow (the check builds with
     overflow checks; a release build would wrap);
   - `assert!`s are `Panic`; the fixed-point loop of compute_bounds is fuelled (`OutOfFuel`),
     Stall/ProofsBounds.v shows that the fuel always suffices;
   - the float arithmetic of next_compaction (`level_curve`, `level_factor`) is two 16-entry
     tables (NUM_LEVELS = 16): level_curve as integers, level_factor as the exact value of the
     binary64 number, numerator over 2^52.  They are local expressions of next_compaction, so the
     numbers are retyped here; the check compares them with what the same expressions evaluate to
     in Rust on every run (`c20 consts`).  `scale_score` is the exact ceiling of the exact
     product; `float_risk` marks the arguments for which binary64 rounding could make the Rust
     value differ (product within 2^-20 of an integer without being one, or |score| >= 2^32).
   - mandatory_score and the scores of trivial moves only reach the log (`clue!`), never a
     decision, and are not modelled. *)
From Coq Require Import NArith ZArith List Bool Arith.
From Blue Require Import Gen.Const_Stall Lsm.Model.
Import ListNotations.
Open Scope N_scope.

(* ---- machine integers ---- *)
Definition U64 : N := 2 ^ 64.
Definition I64_MAX : Z := (2 ^ 63 - 1)%Z.
Definition I64_MIN : Z := (- 2 ^ 63)%Z.
Definition in_i64 (z : Z) : bool := (I64_MIN <=? z)%Z && (z <=? I64_MAX)%Z.
Definition clamp_i64 (z : Z) : Z := Z.max I64_MIN (Z.min I64_MAX z).
Definition sat_i64 (a b : Z) : Z := clamp_i64 (a + b).          (* i64::saturating_add *)
Definition sat_u64 (a b : N) : N := N.min (a + b) (U64 - 1).    (* u64/usize::saturating_add *)
Definition as_i64 (n : N) : Z :=                                 (* u64/usize as i64 *)
  let z := Z.of_N (n mod U64) in if (z <? 2 ^ 63)%Z then z else (z - 2 ^ 64)%Z.
Definition as_u64 (z : Z) : N := Z.to_N (z mod 2 ^ 64).          (* i64 as u64 *)
Definition len {A} (l : list A) : N := N.of_nat (length l).

(* ---- LsmtkOptions: the fields the selector reads (all usize) ---- *)
Record options := mkOpt {
  o_max_open_files : N;
  o_max_compaction_bytes : N;
  o_max_compaction_files : N;
  o_mandatory_files : N;      (* l0_mandatory_compaction_threshold_files *)
  o_mandatory_bytes : N;      (* l0_mandatory_compaction_threshold_bytes *)
  o_stall_files : N;          (* l0_write_stall_threshold_files *)
  o_stall_bytes : N           (* l0_write_stall_threshold_bytes *)
}.

(* ---- results ---- *)
Inductive res (A : Type) : Type := Ok (a : A) | Panic | OutOfFuel.
Arguments Ok {A} a.
Arguments Panic {A}.
Arguments OutOfFuel {A}.
Definition res_map {A B} (f : A -> B) (r : res A) : res B :=
  match r with Ok a => Ok (f a) | Panic => Panic | OutOfFuel => OutOfFuel end.
Definition res_bind {A B} (r : res A) (f : A -> res B) : res B :=
  match r with Ok a => f a | Panic => Panic | OutOfFuel => OutOfFuel end.

(* ---- Level::size, the two thresholds ---- *)
Definition level_size (lv : level) : N := fold_left (fun a f => sat_u64 a (fsize f)) lv 0.
Definition level0 (v : version) : level := hd [] v.
Definition is_nil {A} (l : list A) : bool := match l with [] => true | _ => false end.

Definition should_stall_ingest (o : options) (v : version) : bool :=
  (o_stall_files o <=? len (level0 v)) || (o_stall_bytes o <=? level_size (level0 v)).

Definition should_mandatory (o : options) (v : version) : bool :=
  (o_mandatory_files o <=? len (level0 v)) || (o_mandatory_bytes o <=? level_size (level0 v))
  || forallb (fun lv => negb (is_nil lv)) v.

(* ---- CompactionCore: Lsm's `compaction` plus the size ---- *)
Record core := mkCore { cc : compaction; csize : N }.

(* CompactionCore::overlapping *)
Definition overlapping (a b : compaction) : bool :=
  (clower a <=? cupper b)%nat && (clower b <=? cupper a)%nat &&
  key_leb (cfirst a) (clast b) && key_leb (cfirst b) (clast a).

(* may_choose_compaction; `og` is the shared list of ongoing compactions.
   (inputs.len() + saturated sum cannot overflow a usize for lists that fit in memory.) *)
Definition may_choose (o : options) (og : list compaction) (c : compaction) : bool :=
  if (clower c =? cupper c)%nat then false
  else if o_max_open_files o <=? len (cinputs c) + fold_left (fun a x => sat_u64 a (len (cinputs x))) og 0 then false
  else negb (existsb (fun x => overlapping x c) og).

(* ---- compute_bounds ---- *)
Record lslice := mkLS { ls_lb : nat; ls_ub : nat; ls_first : key; ls_last : key }.
Definition dummy_file : file := mkF 0 [] 0.

(* the `while !fixed_point` loop for one level >= 1 *)
Fixpoint widen (fuel : nat) (lv : level) (lb ub : nat) (fk lk : key) : option lslice :=
  match fuel with
  | O => None
  | S fuel' =>
      let c1 := (lb <? length lv)%nat && key_ltb (first_key (nth lb lv dummy_file)) fk in
      let fk' := if c1 then first_key (nth lb lv dummy_file) else fk in
      let c2 := (lb <? ub)%nat && key_ltb lk (last_key (nth (ub - 1) lv dummy_file)) in
      let lk' := if c2 then last_key (nth (ub - 1) lv dummy_file) else lk in
      let nlb := lower_bound lv fk' in
      let nub := upper_bound lv lk' in
      if negb c1 && negb c2 && (nlb =? lb)%nat && (nub =? ub)%nat
      then Some (mkLS nlb nub fk' lk')
      else widen fuel' lv nlb nub fk' lk'
  end.
Definition widen_fuel (lv : level) : nat := 2 * length lv + 2.

(* one LevelSlice per level from `idx` on; the Rust pads the levels below lower_level with empty
   slices that nobody reads, the model returns the list for levels lower_level.. only.
   (The two assert_eq! after the loop compare the bounds with values they were just assigned
   from; they cannot fail and are not modelled.) *)
Fixpoint cb_levels (idx : nat) (lvs : list level) (fk lk : key) : res (list lslice) :=
  match lvs with
  | [] => Ok []
  | lv :: r =>
      if (idx =? 0)%nat then
        if forallb (fun f => key_leb fk (first_key f)) lv && forallb (fun f => key_leb (last_key f) lk) lv
        then res_map (cons (mkLS 0 (length lv) fk lk)) (cb_levels (S idx) r fk lk)
        else Panic
      else
        match widen (widen_fuel lv) lv (lower_bound lv fk) (upper_bound lv lk) fk lk with
        | None => OutOfFuel
        | Some s => res_map (cons s) (cb_levels (S idx) r (ls_first s) (ls_last s))
        end
  end.
Definition compute_bounds (v : version) (lower : nat) (fk lk : key) : res (list lslice) :=
  cb_levels lower (skipn lower v) fk lk.

(* ---- expand_compaction (after 764f777) ---- *)
Definition files_disjoint (a b : file) : bool :=
  key_ltb (last_key a) (first_key b) || key_ltb (last_key b) (first_key a).

(* expansion_keeps_inputs_closed: levels `level` .. upper-1 *)
Definition exp_closed_level (c : compaction) (lvl : nat) (sst : file) (idx : nat) (lv : level) : bool :=
  forallb (fun other =>
             (fid other =? fid sst) || key_ltb (last_key sst) (first_key other) ||
             key_ltb (last_key other) (first_key sst) || is_input c other ||
             ((idx =? 0)%nat && (idx =? lvl)%nat && (biggest_ts sst <? biggest_ts other))) lv.
Fixpoint exp_closed_from (c : compaction) (lvl : nat) (sst : file) (idx : nat) (lvs : list level) : bool :=
  match lvs with
  | [] => true
  | lv :: r => exp_closed_level c lvl sst idx lv && exp_closed_from c lvl sst (S idx) r
  end.
Definition exp_closed (v : version) (c : compaction) (lvl : nat) (sst : file) : bool :=
  exp_closed_from c lvl sst lvl (firstn (cupper c - lvl) (skipn lvl v)).

Definition key_min (a b : key) : key := if key_leb a b then a else b.
Definition key_max (a b : key) : key := if key_leb a b then b else a.
Definition min_key (d : key) (l : list key) : key := fold_left key_min l d.
Definition max_key (d : key) (l : list key) : key := fold_left key_max l d.

(* the `for sst in this_level.ssts` loop; None = the early `return` (to_add is dropped) *)
Fixpoint exp_level (o : options) (v : version) (c : compaction) (lvl : nat) (fk lk : key)
         (ssts : list file) (to_add : list file) : option (list file) :=
  match ssts with
  | [] => Some to_add
  | s :: r =>
      let n := len (cinputs c) + len to_add in
      if (o_max_compaction_files o <? n) || (o_max_open_files o <? n) then None
      else if key_leb fk (first_key s) && key_leb (last_key s) lk && negb (is_input c s) && exp_closed v c lvl s
           then exp_level o v c lvl fk lk r (to_add ++ [s])
           else exp_level o v c lvl fk lk r to_add
  end.

Definition add_inputs (c : compaction) (fs : list file) : compaction :=
  mkC (clower c) (cupper c) (cfirst c) (clast c) (cinputs c ++ map fid fs).

(* `for level in (lower..=upper).rev()`: n levels still to visit, `level` the current one *)
Fixpoint exp_levels (o : options) (v : version) (n : nat) (lvl : nat) (c : compaction) (fk lk : key) : compaction :=
  match n with
  | O => c
  | S n' =>
      match exp_level o v c lvl fk lk (nth lvl v []) [] with
      | None => c
      | Some [] => exp_levels o v n' (lvl - 1) c fk lk
      | Some (t :: ta) =>
          exp_levels o v n' (lvl - 1) (add_inputs c (t :: ta))
                     (min_key (first_key t) (map first_key ta)) (max_key (last_key t) (map last_key ta))
      end
  end.
Definition expand_compaction (o : options) (v : version) (c : compaction) : compaction :=
  exp_levels o v (if (clower c <=? cupper c)%nat then S (cupper c - clower c) else O) (cupper c) c (cfirst c) (clast c).

(* ---- find_best_compaction ---- *)
Definition slice_in_range (b : lslice) (sl : list file) : bool :=
  forallb (fun f => key_leb (ls_first b) (first_key f) && key_leb (last_key f) (ls_last b)) sl.
Definition overlap_of (sl : list file) : Z := fold_left (fun a f => sat_i64 a (as_i64 (fsize f))) sl 0%Z.
Definition acc_of (ovs : list Z) : Z := fold_left (fun l r => sat_i64 (sat_i64 l l) r) ovs 0%Z.
Definition total_of (ovs : list Z) : Z := fold_left sat_i64 ovs 0%Z.

(* the loop `for upper_level in lower_level..self.levels.len()`; `ovs` = overlap[lower..upper) *)
Fixpoint fbc_loop (o : options) (v : version) (og : list compaction) (lower upper : nat)
         (lvs : list level) (bs : list lslice) (ovs : list Z) (inputs : list N)
         (cand : option core) (best : Z) : res (option core * Z) :=
  match lvs, bs with
  | lv :: lvs', b :: bs' =>
      let sl := slice lv (ls_lb b) (ls_ub b) in
      if negb (slice_in_range b sl) then Panic else
      let ov := overlap_of sl in
      let inputs' := inputs ++ map fid sl in
      let score := (acc_of ovs - ov)%Z in
      if negb (in_i64 score) then Panic else
      let csz := total_of (ovs ++ [ov]) in
      if (as_i64 (o_max_compaction_bytes o) <? csz)%Z && negb (lower =? 0)%nat then Ok (cand, best) else
      if ((o_max_compaction_files o <? len inputs') && negb (lower =? 0)%nat) || (o_max_open_files o <? len inputs')
      then Ok (cand, best) else
      let cb :=
        if (lower <? upper)%nat && (best <? score)%Z then
          let c := expand_compaction o v (mkC lower upper (ls_first b) (ls_last b) inputs') in
          if may_choose o og c then (Some (mkCore c (as_u64 csz)), score) else (cand, best)
        else (cand, best) in
      if (ls_lb b =? ls_ub b)%nat then Ok cb
      else fbc_loop o v og lower (S upper) lvs' bs' (ovs ++ [ov]) inputs' (fst cb) (snd cb)
  | _, _ => Ok (cand, best)
  end.

Definition find_best_compaction (o : options) (v : version) (og : list compaction) (lower : nat)
           (bs : list lslice) : res (option core * Z) :=
  if negb (lower <? length v)%nat || is_nil (nth lower v []) then Panic
  else fbc_loop o v og lower lower (skipn lower v) bs [] [] None I64_MIN.

(* ---- trivial moves (after 497a84e) ---- *)
Definition ftm_one (o : options) (v : version) (og : list compaction) (lower : nat) (sst : file) : option core :=
  let fk := first_key sst in
  let lk := last_key sst in
  let upper := S lower in
  let splits_a_key :=
    negb (lower =? 0)%nat &&
    existsb (fun x => negb (fid x =? fid sst) && key_leb (first_key x) lk && key_leb fk (last_key x)) (nth lower v []) in
  if (upper <? length v)%nat && negb splits_a_key &&
     (lower_bound (nth upper v []) fk =? upper_bound (nth upper v []) lk)%nat
  then
    let c := mkC lower upper fk lk [fid sst] in
    if may_choose o og c then Some (mkCore c (fsize sst)) else None
  else None.

(* Iterator::min_by keeps the first of equal minima *)
Fixpoint min_by_ts (best : file) (l : list file) : file :=
  match l with
  | [] => best
  | x :: r => if biggest_ts x <? biggest_ts best then min_by_ts x r else min_by_ts best r
  end.

Definition find_trivial_move (o : options) (v : version) (og : list compaction) (lvl : nat) : option core :=
  match nth lvl v [] with
  | [] => None
  | f :: r =>
      if (lvl =? 0)%nat then ftm_one o v og 0 (min_by_ts f r)
      else first_some (ftm_one o v og lvl) (f :: r)
  end.

(* ---- the float tables of next_compaction (retyped; compared with Rust by the check) ---- *)
Definition level_curve_tbl : list N := [1; 1; 1; 2; 2; 2; 2; 2; 2; 2; 2; 3; 3; 3; 3; 3].
Definition level_curve (l : nat) : N := nth l level_curve_tbl 3.
(* numerators over 2^52 of the binary64 values of log2(l+1)/(l+1) + 1 *)
Definition level_factor_tbl : list N :=
  [4503599627370496; 6755399441055744; 6882945136585166; 6755399441055744; 6595006527953658;
   6443872319872913; 6309771424638404; 6192449487634432; 6089829966846942; 5999663040399126;
   5919953713607646; 5849035942569246; 5785545699349512; 5728371213673771; 5676604362741151;
   5629499534213120].
Definition FACTOR_DEN : Z := (2 ^ 52)%Z.
Definition level_factor_num (l : nat) : Z := Z.of_N (nth l level_factor_tbl 4503599627370496).
Definition ceil_div (a b : Z) : Z := (- ((- a) / b))%Z.
(* (score as f64 * level_factor).ceil() as i64, computed exactly *)
Definition scale_score (score : Z) (l : nat) : Z := clamp_i64 (ceil_div (score * level_factor_num l) FACTOR_DEN).
Definition float_risk (score : Z) (l : nat) : bool :=
  let r := ((score * level_factor_num l) mod FACTOR_DEN)%Z in
  (2 ^ 32 <=? Z.abs score)%Z || (negb (r =? 0)%Z && ((r <? 2 ^ 32)%Z || (FACTOR_DEN - r <? 2 ^ 32)%Z)).

(* ---- next_compaction ---- *)
Record dstate := mkD { d_cand : option core; d_best : Z; d_mand : option core; d_risk : bool }.

(* the body of `for sst in self.levels[lower_level].ssts.iter()` *)
Definition deep_sst (o : options) (v : version) (og : list compaction) (mandflag : bool) (lower : nat)
           (st : dstate) (sst : file) : res dstate :=
  res_bind (compute_bounds v lower (first_key sst) (last_key sst)) (fun bs =>
  res_bind (find_best_compaction o v og lower bs) (fun r =>
    match r with
    | (Some c, score) =>
        if mandflag && forallb (fun x => is_input (cc c) x) (nth lower v []) &&
           (csize c <? match d_mand st with Some m => csize m | None => 0 end)
        then Ok (mkD (d_cand st) (d_best st) (Some c) (d_risk st))
        else if (d_best st <? score)%Z
             then Ok (mkD (Some c) (scale_score score lower) (d_mand st) (d_risk st || float_risk score lower))
             else Ok st
    | (None, _) => Ok st
    end)).

Fixpoint deep_ssts (o : options) (v : version) (og : list compaction) (mandflag : bool) (lower : nat)
         (st : dstate) (ssts : list file) : res dstate :=
  match ssts with
  | [] => Ok st
  | s :: r => res_bind (deep_sst o v og mandflag lower st s) (fun st' => deep_ssts o v og mandflag lower st' r)
  end.

(* one iteration of `for lower_level in (1..self.levels.len() - 1).rev()` *)
Definition deep_level (o : options) (v : version) (og : list compaction) (mandflag : bool)
           (st : dstate) (lower : nat) : res dstate :=
  if (level_size (nth (lower - 1) v []) <? level_size (nth lower v []) / level_curve lower) && negb mandflag
  then Ok st
  else deep_ssts o v og mandflag lower st (nth lower v []).

Fixpoint deep_levels (o : options) (v : version) (og : list compaction) (mandflag : bool)
         (st : dstate) (lowers : list nat) : res dstate :=
  match lowers with
  | [] => Ok st
  | l :: r => res_bind (deep_level o v og mandflag st l) (fun st' => deep_levels o v og mandflag st' r)
  end.

(* the level-0 block of next_compaction *)
Definition l0_part (o : options) (v : version) (og : list compaction) (mandflag : bool) : res dstate :=
  match level0 v with
  | [] => Ok (mkD None I64_MIN None false)
  | f :: r =>
      let fk := min_key (first_key f) (map first_key r) in
      let lk := max_key (last_key f) (map last_key r) in
      res_bind (compute_bounds v 0 fk lk) (fun bs =>
      res_bind (find_best_compaction o v og 0 bs) (fun x =>
        match x with
        | (Some c, score) =>
            if mandflag then Ok (mkD None I64_MIN (Some c) false)
            else Ok (mkD (Some c) score None false)
        | (None, _) => Ok (mkD None I64_MIN None false)
        end))
  end.

Record nc_out := mkNC { nc_choice : option core; nc_risk : bool }.

Definition next_compaction (o : options) (v : version) (og : list compaction) : res nc_out :=
  match first_some (find_trivial_move o v og) (List.seq 0 (length v - 1)) with
  | Some c => Ok (mkNC (Some c) false)
  | None =>
      let mandflag := should_mandatory o v in
      res_bind (l0_part o v og mandflag) (fun st0 =>
      res_bind (deep_levels o v og mandflag st0 (rev (List.seq 1 (length v - 2)))) (fun st =>
        match d_mand st with
        | Some m => Ok (mkNC (Some m) (d_risk st))
        | None =>
            match d_cand st with
            | Some c => if (0 <=? d_best st)%Z then Ok (mkNC (Some c) (d_risk st)) else Ok (mkNC None (d_risk st))
            | None => Ok (mkNC None (d_risk st))
            end
        end))
  end.

(* ---- what the theorems assume of a tree (boolean checkers, run on every tree of the check) ---- *)
Fixpoint nodupb (l : list N) : bool :=
  match l with [] => true | x :: r => negb (existsb (N.eqb x) r) && nodupb r end.
Definition all_files (v : version) : list file := concat v.
Definition sizes_okb (v : version) : bool := forallb (fun f => fsize f <? 2 ^ 63) (all_files v).
(* wf_versionb (Lsm): files non-empty and sorted, levels >= 1 sorted and disjoint up to a shared
   boundary key.  sel_wfb adds: distinct file ids, level-0 files have distinct biggest
   timestamps (sequence numbers), file sizes below 2^63, at least two levels. *)
Definition sel_wfb (v : version) : bool :=
  wf_versionb v && nodupb (map fid (all_files v)) && nodupb (map biggest_ts (level0 v)) &&
  sizes_okb v && (2 <=? length v)%nat.
