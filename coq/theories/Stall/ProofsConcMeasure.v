(* Stall/ProofsConcMeasure.v — with several compaction threads a compaction is applied to a later
   version than the one it was selected on.  The entries it takes from above its upper level -
   what makes the measure mu drop when it is applied - are the same on the later version: applying
   ANOTHER admissible compaction that does not conflict (CompactionCore::overlapping), and pushing
   a file onto level 0, leave the inputs among its mid files untouched.  (The proofs replay the
   first half of Lsm/ConcStable.v's apply_other_stable / push_l0_stable, whose statements keep
   only the union input_files.) *)
From Coq Require Import NArith List Bool Lia Arith Permutation.
From Blue Require Import Lsm.Model Lsm.KeyOrder Lsm.LoadProofs Lsm.ListLemmas Lsm.CompactProofs Lsm.ConcLists
  Lsm.ModelConcurrent Lsm.ConcStable Stall.Select Stall.ProofsBasic Stall.ProofsMeasure.
Import ListNotations.
Open Scope N_scope.

Theorem apply_other_mid_inputs v c d outs :
  wf_version v -> wf_version (apply_compaction v d outs) ->
  valid_compactionb v c = true -> valid_compactionb v d = true ->
  conflictb c d = false ->
  (forall o, In o outs -> is_input c o = false /\
     key_leb (cfirst d) (first_key o) = true /\ key_leb (last_key o) (clast d) = true) ->
  filter (is_input c) (mid_files (apply_compaction v d outs) c) = filter (is_input c) (mid_files v c).
Proof.
  intros Hw Hw' Hvc Hvd Hnc Houts.
  destruct (valid_parts v c Hvc) as (Hltc & Hupc & Hflc & _ & _ & _ & Hrangec & Hclc & _).
  destruct (valid_parts v d Hvd) as (Hltd & Hupd & Hfld & Hlbub & Hsld & _ & Hranged & _ & _).
  pose proof (ordered_levels_apply v d outs Hltd Hupd) as Hov'. cbv zeta in Hov'.
  set (v' := apply_compaction v d outs) in *.
  set (ov := ordered_levels v) in *. set (ov' := ordered_levels v') in *.
  set (ud := nth (cupper d) v []) in *.
  set (lbd := lower_bound ud (cfirst d)) in *. set (ubd := upper_bound ud (clast d)) in *.
  set (newu := firstn lbd ud ++ outs ++ skipn ubd ud) in *.
  set (F := filter (fun f => negb (is_input d f))) in *.
  assert (Hlenov : length ov = length v) by apply length_ordered_levels.
  assert (Hlenov' : length ov' = length ov) by (rewrite Hov'; apply length_patch; lia).
  set (Pins := fun g => qrange (cfirst c) (clast c) g = false).
  assert (Hboth : forall i x, (clower c <= i <= cupper c)%nat -> (clower d <= i <= cupper d)%nat ->
            In x (nth i ov []) -> is_input c x = true -> is_input d x = true -> False).
  { intros i x Hic Hid Hx Hxc Hxd.
    destruct (no_conflict_cases c d Hnc) as [H|[H|Hkd]]; [lia|lia|].
    assert (Hwx : wf_fileb x = true).
    { assert (Hlv : In (nth i ov []) ov) by (apply nth_In; lia).
      pose proof (forall_wf_ordered v Hw _ Hlv) as Fw. rewrite Forall_forall in Fw. auto. }
    destruct (input_in_range v c x Hrangec (in_levels_range v c i x Hltc Hupc Hic Hx) Hxc) as [C1 C2].
    destruct (input_in_range v d x Hranged (in_levels_range v d i x Hltd Hupd Hid Hx) Hxd) as [D1 D2].
    exact (disjoint_not_both c d Hkd x (file_first_le_last x Hwx) C1 C2 D1 D2). }
  assert (HL : forall i, (clower c <= i <= cupper c)%nat ->
            edit (is_input c) Pins (nth i ov []) (nth i ov' [])).
  { intros i Hi. rewrite Hov'. rewrite nth_patch by (lia || reflexivity).
    destruct (Nat.ltb_spec i (clower d)) as [H1|H1]; [apply edit_refl|].
    destruct (Nat.ltb_spec i (cupper d)) as [H2|H2].
    - apply edit_filter. intros x Hx Hp. apply negb_false_iff in Hp.
      destruct (is_input c x) eqn:Ec; [exfalso|reflexivity].
      apply (Hboth i x); auto; lia.
    - destruct (Nat.eqb_spec i (cupper d)) as [H3|H3]; [|apply edit_refl].
      subst i.
      assert (Hud : nth (cupper d) ov [] = ud) by (unfold ov, ud; apply nth_ordered_levels; lia).
      rewrite Hud. rewrite (level_split ud lbd ubd Hlbub) at 1. unfold newu.
      apply edit_app; [apply edit_refl|]. apply edit_app; [|apply edit_refl].
      destruct (no_conflict_cases c d Hnc) as [H|[H|Hkd]]; [lia|lia|].
      apply edit_replace.
      + intros x Hx.
        assert (Hxd : is_input d x = true).
        { unfold vc_slice in Hsld. rewrite forallb_forall in Hsld. apply Hsld. exact Hx. }
        destruct (is_input c x) eqn:Ec; [exfalso|reflexivity].
        apply (Hboth (cupper d) x); [lia|lia| |exact Ec|exact Hxd]. rewrite Hud.
        unfold slice in Hx. eapply in_skipn. eapply in_firstn. exact Hx.
      + intros y Hy. destruct (Houts y Hy) as (Y1 & Y2 & Y3). split; [exact Y1|].
        exact (disjoint_pins c d Hkd y Y2 Y3). }
  assert (HM : edit (is_input c) Pins (mid_files v c) (mid_files v' c)).
  { unfold mid_files. fold ov ov'. apply edit_concat.
    assert (Hb : (clower c + (cupper c - clower c) <= length ov)%nat) by lia.
    apply (window_rel _ []); [exact (eq_sym Hlenov')|exact Hb|]. intros i Hi. apply HL. lia. }
  exact (edit_filter_inp _ _ _ _ HM).
Qed.

Theorem push_l0_mid_inputs v c f :
  v <> [] -> l0_order (hd [] v ++ [f]) = f :: l0_order (hd [] v) ->
  valid_compactionb v c = true -> is_input c f = false ->
  filter (is_input c) (mid_files (set_nth 0 (hd [] v ++ [f]) v) c) = filter (is_input c) (mid_files v c).
Proof.
  intros Hne Hl0 Hv Hf. destruct v as [|l0 r]; [congruence|]. cbn [hd set_nth] in *.
  destruct (valid_parts _ c Hv) as (Hlt & Hup & _).
  unfold mid_files. cbn [ordered_levels]. rewrite Hl0.
  destruct (clower c) as [|lo'] eqn:El; cbn [skipn]; [|reflexivity].
  destruct (cupper c - 0)%nat as [|k] eqn:Ek; [lia|]. cbn [firstn concat app filter]. now rewrite Hf.
Qed.

(* the entries a compaction takes from above its upper level, counted on the stored levels
   (ProofsMeasure.mids) and on the levels in lookup order (Lsm's mid_files), are the same number *)
Lemma ec_perm a b : Permutation a b -> ec a = ec b.
Proof. intros P. unfold ec. apply Permutation_length. now apply Permutation_flat_map. Qed.

Lemma ec_filter_l0_order p l : ec (filter p (l0_order l)) = ec (filter p l).
Proof.
  rewrite <- l0_order_filter. apply ec_perm. unfold l0_order.
  eapply Permutation_trans; [apply Permutation_sym, Permutation_rev|]. apply Permutation_sym, isort_by_perm.
Qed.

Lemma mids_entries_mid_files v c : (clower c < cupper c)%nat ->
  ec (concat (map (filter (is_input c)) (mids v c))) = ec (filter (is_input c) (mid_files v c)).
Proof.
  intros Hlt. unfold mids, mid_files. rewrite filter_concat.
  destruct v as [|l0 r]; [now rewrite !skipn_nil, !firstn_nil|].
  cbn [ordered_levels]. destruct (clower c) as [|lo]; cbn [skipn]; [|reflexivity].
  destruct (cupper c - 0)%nat as [|k] eqn:Ek; [lia|]. cbn [firstn map concat].
  rewrite !ec_app. now rewrite ec_filter_l0_order.
Qed.
