(* Stall/ProofsMeasure.v — a termination measure for compactions: every admissible compaction
   that takes at least one entry from a level above its upper level, and whose outputs hold no
   more entries than its inputs, strictly lowers
       mu v = sum over levels j of (number of levels - j) * (entries in level j).
   So between two ingests only finitely many compactions can be applied, and a stalled store
   whose selector keeps finding work does not compact forever. *)
From Coq Require Import NArith List Bool Arith Lia.
From Blue Require Import Lsm.Model Lsm.ListLemmas Stall.Select Stall.ProofsBasic.
Import ListNotations.
Open Scope nat_scope.

Definition ec (fs : list file) : nat := length (flat_map fents fs).

Fixpoint muw (k : nat) (l : list level) : nat :=
  match l with [] => O | lv :: r => (k + length l) * ec lv + muw k r end.
Definition mu (v : version) : nat := muw 0 v.

Lemma ec_app a b : ec (a ++ b) = ec a + ec b.
Proof. unfold ec. now rewrite flat_map_app, app_length. Qed.

Lemma ec_filter p fs : ec fs = ec (filter p fs) + ec (filter (fun f => negb (p f)) fs).
Proof.
  unfold ec. induction fs as [|f r IH]; cbn; [reflexivity|].
  destruct (p f); cbn; rewrite !app_length, IH; lia.
Qed.

Lemma muw_app k a b : muw k (a ++ b) = muw (k + length b) a + muw k b.
Proof.
  induction a as [|lv a IH]; cbn [muw app]; [reflexivity|].
  rewrite IH. cbn [length]. rewrite app_length. lia.
Qed.

(* the levels that only lose their inputs *)
Lemma muw_filter k inp (mids : list level) :
  muw k (map (filter (fun f => negb (inp f))) mids) + muw k (map (filter inp) mids) = muw k mids.
Proof.
  induction mids as [|lv r IH]; cbn [muw map length]; [reflexivity|].
  rewrite !map_length. rewrite (ec_filter inp lv), <- IH.
  change (@length (list file) r) with (@length level r).
  generalize (muw k (map (filter (fun f => negb (inp f))) r)) (muw k (map (filter inp) r))
             (ec (filter inp lv)) (ec (filter (fun f => negb (inp f)) lv)) (k + S (length r)).
  intros. nia.
Qed.

Lemma muw_lower_bound k (l : list level) : k * ec (concat l) <= muw k l.
Proof.
  induction l as [|lv r IH]; cbn [muw concat length]; [cbn; lia|]. rewrite ec_app.
  revert IH. generalize (muw k r) (ec (concat r)) (ec lv) (length r). intros. nia.
Qed.

Lemma muw_strict k (l : list level) : ec (concat l) <> 0 -> k * ec (concat l) < muw k l.
Proof.
  induction l as [|lv r IH]; cbn [muw concat]; [cbn; lia|]. rewrite ec_app. intros H.
  destruct (ec lv) eqn:E.
  - cbn [Nat.add] in *. specialize (IH H). revert IH. generalize (muw k r) (ec (concat r)) (length (lv :: r)). intros. nia.
  - pose proof (muw_lower_bound k r) as B. cbn [length]. revert B. generalize (muw k r) (ec (concat r)) (length r). intros. nia.
Qed.

(* entries of the inputs: the inputs of levels lower..upper-1 plus the replaced slice of the upper level *)
Definition mids (v : version) (c : compaction) : list level := firstn (cupper c - clower c) (skipn (clower c) v).
Definition in_entries (v : version) (c : compaction) : nat :=
  ec (concat (map (filter (is_input c)) (mids v c))) + ec (upper_slice v c).

Theorem compaction_lowers_mu v c outs :
  (clower c < cupper c)%nat -> (cupper c < length v)%nat ->
  (lower_bound (upper_level v c) (cfirst c) <= upper_bound (upper_level v c) (clast c))%nat ->
  ec outs <= in_entries v c ->
  ec (concat (map (filter (is_input c)) (mids v c))) <> 0 ->
  mu (apply_compaction v c outs) < mu v.
Proof.
  intros Hlu Hlen Hbb Hout Hne. unfold mu, apply_compaction.
  assert (E : (cupper c <? length v)%nat = true) by now apply Nat.ltb_lt. rewrite E.
  set (lo := clower c) in *. set (up := cupper c) in *.
  set (u := nth up v []). set (lb := lower_bound u (cfirst c)). set (ub := upper_bound u (clast c)).
  assert (Ems : firstn (up - lo) (skipn lo v) = mids v c) by reflexivity. rewrite Ems.
  set (ms := mids v c) in *.
  assert (Ev : muw 0 v = muw 0 (firstn lo v ++ ms ++ [u] ++ skipn (S up) v)).
  { f_equal. subst ms u. unfold mids. fold lo up. apply split_levels; lia. }
  rewrite Ev.
  rewrite !muw_app. cbn [muw length Nat.add].
  rewrite !app_length, !map_length. cbn [length]. rewrite !ec_app.
  change (@length (list file) (skipn (S up) v)) with (@length level (skipn (S up) v)).
  change (@length (list file) ms) with (@length level ms).
  replace (length (skipn (S up) v) + 1) with (1 + length (skipn (S up) v)) by lia.
  set (K := 1 + length (skipn (S up) v)).
  assert (EU : ec u = ec (firstn lb u) + ec (slice u lb ub) + ec (skipn ub u)).
  { rewrite (three_parts u lb ub Hbb) at 1. unfold slice. rewrite !ec_app. lia. }
  pose proof (muw_filter K (is_input c) ms) as F.
  pose proof (muw_strict K (map (filter (is_input c)) ms) Hne) as HS.
  unfold in_entries in Hout. fold ms in Hout. unfold upper_slice, upper_level in Hout. fold up u lb ub in Hout.
  rewrite EU.
  revert F HS Hout.
  generalize (muw K (map (filter (fun f => negb (is_input c f))) ms)) (muw K (map (filter (is_input c)) ms)) (muw K ms)
             (ec (concat (map (filter (is_input c)) ms))) (ec outs) (ec (firstn lb u)) (ec (slice u lb ub)) (ec (skipn ub u))
             (muw (length ms + K) (firstn lo v)) (muw 0 (skipn (S up) v)).
  intros. nia.
Qed.
