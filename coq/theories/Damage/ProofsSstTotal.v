(* Damage/ProofsSstTotal.v — the SST readers on arbitrary bytes: open, the full forward walk,
   point reads and the first key never panic, never allocate more than the length of the file,
   never run out of the model's fuel; they return a value or an error. *)
From Coq Require Import NArith ZArith List Bool Lia ZifyN ZifyNat ZifyBool.
From Blue Require Import Gen.Const_Wire Wire.Model Wire.ModelMsg Wire.ProofsVarint Wire.ProofsScalar
  Wire.ProofsPk Wire.ProofsMsg Wire.ProofsTotal Wire.Props_C15.
From Blue Require Table.ModelBloom.
From Blue Require Import Damage.ModelOps Damage.ModelSst Damage.ProofsOps Damage.ProofsSstBlock.
Import ListNotations.
Open Scope N_scope.
Arguments N.add : simpl never. Arguments N.sub : simpl never. Arguments N.mul : simpl never.
Arguments N.div : simpl never. Arguments N.modulo : simpl never. Arguments N.leb : simpl never.
Arguments N.ltb : simpl never. Arguments N.eqb : simpl never. Arguments N.pow : simpl never.

Lemma sstentry_wf : msg_wf SSTENTRY = true.
Proof. vm_compute. reflexivity. Qed.

Lemma sstentry_payload_ok : forall buf k p rest, bytes_ok buf ->
  msg_unpack SSTENTRY buf = Ok (VV k (VB p), rest) -> bytes_ok p.
Proof.
  intros buf k p rest Hb H.
  destruct (C15_unpack_returns_values_of_the_shape SSTENTRY buf _ _ sstentry_wf Hb H) as [Hok _].
  apply bytes_okb_iff.
  destruct k as [|[|[|k]]]; cbn in Hok; try discriminate;
    apply andb_true_iff in Hok; destruct Hok as [Hok _]; exact Hok.
Qed.

Lemma read_at_spec : forall f pos n, bytes_ok f -> n <= len f ->
  (exists buf, read_at f pos n = SOk buf /\ bytes_ok buf /\ len buf = n /\ pos + n <= len f /\ buf = slice f pos n) \/
  (read_at f pos n = SErr SSystem /\ len f < pos + n).
Proof.
  intros f pos n Hb Hn. unfold read_at. destruct (N.ltb_spec (len f) n); [lia|].
  destruct (N.leb_spec (pos + n) (len f)) as [H1|H1]; [left|right; auto].
  eexists. split; [reflexivity|]. split; [apply slice_bytes_ok; exact Hb|]. split; [apply slice_length; exact H1|auto].
Qed.

(* ---------------------------------------------------------------- the values a block shows are bytes *)
Lemma kve_wf : msg_wf KVE = true.
Proof. vm_compute. reflexivity. Qed.

Definition val_bytes (v : option (list N)) : Prop := match v with Some x => bytes_ok x | None => True end.
Definition pos_vok (p : pos) : Prop := match p with PAt _ _ _ _ _ v => val_bytes v | _ => True end.
Definition entry_vok (e : entry) : Prop := val_bytes (snd e).

Lemma kve_val_ok : forall v e, val_ok KVE v = true -> kve_of_val v = Some e -> val_bytes (k_val e).
Proof.
  intros v e Hok H. destruct v as [z|bs|l|k v]; try discriminate.
  destruct k as [|[|k]]; cbn [kve_of_val] in H; try discriminate.
  - destruct v as [z|bs|[|s [|kk [|t [|x [|y l]]]]]|k2 v2]; try discriminate. inversion H; subst. cbn [k_val val_bytes].
    cbn in Hok. destruct x as [z|bs|l|k2 v2]; cbn in Hok; rewrite ?andb_false_r in Hok; try discriminate.
    cbn [vB]. apply bytes_okb_iff.
    repeat (apply andb_true_iff in Hok; destruct Hok as [Hok ?]).
    repeat match goal with H : _ && _ = true |- _ => apply andb_true_iff in H; destruct H end. assumption.
  - destruct v as [z|bs|[|s [|kk [|t [|y l]]]]|k2 v2]; try discriminate. inversion H; subst. exact I.
Qed.

Lemma extract_key_vok : forall b ri off key p, block_wf b -> extract_key b ri off key = SOk p -> pos_vok p.
Proof.
  intros b ri off key p Hw H. pose proof (block_wf_boundary_le b Hw) as Hbl. destruct Hw as (Hb & _).
  unfold extract_key in H. destruct (b_boundary b <=? off); [inversion H; exact I|].
  destruct (len (b_bytes b) <? b_boundary b); [discriminate|].
  set (buf := slice (b_bytes b) off (b_boundary b - off)) in *.
  assert (Hbuf : bytes_ok buf) by (apply slice_bytes_ok; exact Hb).
  destruct (of_wire_unpack KVE buf SUnpackKvp Hbuf) as [(v & rest & pre & E1 & E2 & _)|E1]; rewrite E1 in H; cbn [sbind fst snd] in H; [|discriminate].
  destruct (kve_of_val v) as [e|] eqn:Ek; [|discriminate]. inversion H; subst. cbn [pos_vok].
  eapply kve_val_ok; [|exact Ek].
  exact (proj1 (C15_unpack_returns_values_of_the_shape KVE buf _ _ kve_wf Hbuf E2)).
Qed.

Lemma seek_restart_vok : forall b p ri q, block_wf b -> seek_restart b p ri = SOk q -> pos_vok q.
Proof.
  intros b p ri q Hw H. unfold seek_restart in H. destruct (b_nrest b <=? ri); [discriminate|].
  destruct (restart_point b ri) as [off|e| | |]; cbn [sbind] in H; try discriminate.
  destruct (b_boundary b <=? off); [discriminate|]. eapply extract_key_vok; eassumption.
Qed.

Lemma bc_next_vok : forall b p q, block_wf b -> bc_next b p = SOk q -> pos_vok q.
Proof.
  intros b p q Hw H. destruct p as [| |ri off noff key ts val]; cbn [bc_next] in H.
  - destruct (b_boundary b =? 0); [inversion H; exact I|]. eapply seek_restart_vok; eassumption.
  - inversion H; exact I.
  - destruct (b_boundary b <=? noff); [inversion H; exact I|].
    destruct (ri + 1 <? b_nrest b).
    + destruct (restart_point b (ri + 1)) as [rp|e| | |]; cbn [sbind] in H; try discriminate.
      destruct (rp <=? noff); [eapply seek_restart_vok; eassumption|eapply extract_key_vok; eassumption].
    + cbn [sbind] in H. eapply extract_key_vok; eassumption.
Qed.

Lemma inner_loop_vok : forall b stop k, block_wf b ->
  (forall p1 acc1, Forall entry_vok acc1 -> Forall entry_vok (fst (k p1 acc1))) ->
  forall fi p acc, Forall entry_vok acc -> Forall entry_vok (fst (inner_loop k fi b stop p acc)).
Proof.
  intros b stop k Hw Hk. induction fi as [|fi IH]; intros p acc Ha; [exact Ha|].
  cbn [inner_loop]. destruct (stop p); [exact Ha|].
  destruct (bc_next b p) as [p1|e| | |] eqn:E; try exact Ha.
  pose proof (bc_next_vok b p p1 Hw E) as Hv.
  assert (Ha1 : Forall entry_vok (match pos_entry p1 with Some e => acc ++ [e] | None => acc end)).
  { destruct p1 as [| |ri off noff kk t v]; cbn [pos_entry]; try exact Ha.
    apply Forall_app. split; [exact Ha|]. constructor; [exact Hv|constructor]. }
  destruct (is_jump p p1); [apply Hk; exact Ha1|apply IH; exact Ha1].
Qed.

Lemma iter_next_vok : forall b stop, block_wf b ->
  forall fo fi p acc, Forall entry_vok acc -> Forall entry_vok (fst (iter_next fo fi b stop p acc)).
Proof.
  intros b stop Hw. induction fo as [|fo IH]; intros fi p acc Ha; [exact Ha|].
  cbn [iter_next]. apply inner_loop_vok; [exact Hw| |exact Ha]. intros p1 acc1 H1. apply IH. exact H1.
Qed.

Section Total.
  Variable crc : list N -> N.

  Lemma load_entry_spec : forall f m, bytes_ok f -> bm_limit m <= len f ->
    (exists k p, load_entry crc f m = SOk (k, p) /\ bytes_ok p) \/ (exists e, load_entry crc f m = SErr e).
  Proof.
    intros f m Hb Hl. unfold load_entry, meta_sanity.
    destruct (N.leb_spec (bm_limit m) (bm_start m)); cbn [sbind]; [right; eexists; reflexivity|].
    destruct (read_at_spec f (bm_start m) (bm_limit m - bm_start m) Hb ltac:(lia)) as [(buf & -> & Hbuf & _)|[-> _]];
      cbn [sbind]; [|right; eexists; reflexivity].
    destruct (of_wire_unpack SSTENTRY buf SUnpackTableEntry Hbuf) as [(v & rest & pre & -> & Hu & _)|Hw']; [|rewrite Hw']; cbn [sbind fst];
      [|right; eexists; reflexivity].
    destruct v as [z|bs|l|k [z|p|l|k2 v2]]; try (right; eexists; reflexivity).
    destruct (crc32 crc p =? bm_crc m); [left|right; eexists; reflexivity].
    exists k, p. split; [reflexivity|]. eapply sstentry_payload_ok; eassumption.
  Qed.

  Lemma load_block_spec : forall f m, bytes_ok f -> bm_limit m <= len f ->
    (exists b, load_block crc f m = SOk b /\ block_wf b) \/ (exists e, load_block crc f m = SErr e).
  Proof.
    intros f m Hb Hl. unfold load_block.
    destruct (load_entry_spec f m Hb Hl) as [(k & p & -> & Hp)|[e ->]]; cbn [sbind fst snd]; [|right; eexists; reflexivity].
    destruct k as [|[|k]]; try (right; eexists; reflexivity).
    destruct (block_new_spec p Hp) as [(b & -> & Hw & _)|[e ->]]; [left; eauto|right; eexists; reflexivity].
  Qed.

  Lemma fblocks_of_nonempty : forall fuel bs, bs <> [] -> (0 < fuel)%nat -> fblocks_of fuel bs <> [].
  Proof. intros [|fuel] [|x bs] H1 H2; try lia; try congruence. cbn [fblocks_of]. discriminate. Qed.

  Lemma load_filter_spec : forall f m, bytes_ok f -> bm_limit m <= len f ->
    (exists flt, load_filter_block crc f m = SOk flt /\ flt <> []) \/ (exists e, load_filter_block crc f m = SErr e).
  Proof.
    intros f m Hb Hl. unfold load_filter_block.
    destruct (load_entry_spec f m Hb Hl) as [(k & p & -> & Hp)|[e ->]]; cbn [sbind fst snd]; [|right; eexists; reflexivity].
    destruct k as [|[|k]]; try (right; eexists; reflexivity).
    unfold filter_of_bytes. destruct p as [|x p]; [right; eexists; reflexivity|].
    destruct (len (x :: p) mod 32 =? 0); [left|right; eexists; reflexivity].
    eexists. split; [reflexivity|]. apply fblocks_of_nonempty; [discriminate|cbn [length]; lia].
  Qed.

  Lemma metas_of_fine : forall es, Forall (fun e => match snd e with Some v => bytes_ok v | None => True end) es ->
    fine (metas_of es).
  Proof.
    induction es as [|e es IH]; intros H; [exact I|]. inversion H as [|? ? He Hes]; subst.
    cbn [metas_of]. unfold metadata_from_entry. destruct (snd e) as [v|]; [|exact I].
    destruct (of_wire_unpack BM v SUnpackMeta He) as [(x & rest & pre & -> & _)|Hw']; [|rewrite Hw']; cbn [sbind]; [|exact I].
    apply fine_bind; [apply IH; exact Hes|]. intros. exact I.
  Qed.

  Lemma load_index_entries_fine : forall b, block_wf b -> fine (load_index_entries b).
  Proof.
    intros b Hw. unfold load_index_entries, iter_block.
    pose proof (iter_block_fine b is_last PFirst Hw eq_refl I) as Hf.
    pose proof (iter_next_vok b is_last Hw (block_fo b) (block_fi b) PFirst [] (Forall_nil _)) as Hv.
    destruct (iter_next (block_fo b) (block_fi b) b is_last PFirst []) as [es r]. cbn [fst snd] in *.
    pose proof (metas_of_fine es Hv) as Hm. destruct (metas_of es) as [ms|e| | |]; try exact Hm.
    apply fine_bind; [exact Hf|]. intros. exact I.
  Qed.

  Lemma check_index_fine : forall i ies, fine (check_index i ies).
  Proof.
    induction ies as [|[k m] ies IH]; [exact I|]. cbn [check_index]. unfold meta_sanity.
    destruct (bm_limit m <=? bm_start m); cbn [sbind]; [exact I|]. destruct (i <? bm_limit m); [exact I|exact IH].
  Qed.

  Lemma check_index_ok : forall i ies, check_index i ies = SOk tt -> Forall (fun km => bm_limit (snd km) <= i) ies.
  Proof.
    induction ies as [|[k m] ies IH]; intros H; [constructor|]. cbn [check_index] in H. unfold meta_sanity in H.
    destruct (bm_limit m <=? bm_start m); cbn [sbind] in H; [discriminate|].
    destruct (N.ltb_spec i (bm_limit m)); [discriminate|]. constructor; [exact H0|apply IH; exact H].
  Qed.

  (* an opened table: every block the index names lies inside the file, and the filter has a block *)
  Definition sst_wf (t : sst) : Prop :=
    bytes_ok (t_file t) /\ Forall (fun km => bm_limit (snd km) <= len (t_file t)) (t_index t) /\ t_filter t <> [].

  Lemma sst_open_spec : forall f, bytes_ok f ->
    (exists t, sst_open crc f = SOk t /\ sst_wf t /\ t_file t = f) \/ (exists e, sst_open crc f = SErr e).
  Proof.
    intros f Hb. unfold sst_open.
    destruct (N.ltb_spec (len f) 8) as [H8|H8]; [right; eexists; reflexivity|].
    destruct (read_at_spec f (len f - 8) 8 Hb ltac:(lia)) as [(buf & -> & Hbuf & Hl & _)|[_ Hc]]; [|lia]. cbn [sbind].
    rewrite le_unpack_ok by (cbn; lia). cbn [of_wire sbind fst].
    set (fbo := of_le_bytes (firstn 8 buf)).
    destruct (N.ltb_spec (len f) fbo) as [Hfbo|Hfbo]; [right; eexists; reflexivity|].
    destruct (read_at_spec f fbo (len f - 8 + 8 - fbo) Hb ltac:(lia)) as [(buf2 & -> & Hbuf2 & _)|[_ Hc]]; [|lia]. cbn [sbind].
    destruct (of_wire_unpack FB buf2 SUnpackFinal Hbuf2) as [(v & rest & pre & -> & _)|Hw']; [|rewrite Hw'; right; eexists; reflexivity].
    cbn [sbind fst]. set (fb := fb_of_val v). unfold meta_sanity.
    destruct (N.leb_spec (bm_limit (fb_index fb)) (bm_start (fb_index fb))); cbn [sbind]; [right; eexists; reflexivity|].
    destruct (N.leb_spec (bm_limit (fb_filter fb)) (bm_start (fb_filter fb))); cbn [sbind]; [right; eexists; reflexivity|].
    destruct (N.ltb_spec (bm_start (fb_filter fb)) (bm_limit (fb_index fb))); [right; eexists; reflexivity|].
    destruct (N.ltb_spec fbo (bm_limit (fb_filter fb))); [right; eexists; reflexivity|].
    destruct (load_block_spec f (fb_index fb) Hb ltac:(lia)) as [(ib & -> & Hib)|[e ->]]; cbn [sbind]; [|right; eexists; reflexivity].
    pose proof (load_index_entries_fine ib Hib) as Hie.
    destruct (load_index_entries ib) as [ies|e| | |]; cbn [fine] in Hie; try contradiction; cbn [sbind]; [|right; eexists; reflexivity].
    pose proof (check_index_fine (bm_start (fb_index fb)) ies) as Hci.
    destruct (check_index (bm_start (fb_index fb)) ies) as [[]|e| | |] eqn:Eci; cbn [fine] in Hci; try contradiction; cbn [sbind];
      [|right; eexists; reflexivity].
    destruct (load_filter_spec f (fb_filter fb) Hb ltac:(lia)) as [(flt & -> & Hflt)|[e ->]]; cbn [sbind]; [|right; eexists; reflexivity].
    left. eexists. split; [reflexivity|]. split; [|reflexivity]. unfold sst_wf. cbn [t_file t_index t_filter].
    split; [exact Hb|]. split; [|exact Hflt].
    eapply Forall_impl; [|apply check_index_ok; exact Eci]. cbn beta. intros km Hkm. lia.
  Qed.

  Lemma sst_open_fine : forall f, bytes_ok f -> fine (sst_open crc f).
  Proof. intros f Hb. destruct (sst_open_spec f Hb) as [(t & -> & _)|[e ->]]; exact I. Qed.

  (* ------------------------------------------------------------ walking *)
  Definition wfine (w : wend) : Prop := match w with WEnd | WErr _ => True | _ => False end.

  Lemma wend_of_fine : forall {A} (r : sres A), fine r -> wfine (wend_of r).
  Proof. intros A [a|e| | |] H; cbn in *; auto. Qed.

  Lemma walk_blocks_fine : forall f ies, bytes_ok f -> Forall (fun km => bm_limit (snd km) <= len f) ies ->
    wfine (snd (walk_blocks crc f ies)).
  Proof.
    intros f ies Hb. induction ies as [|[k m] ies IH]; intros H; [exact I|]. inversion H as [|? ? Hm Hr]; subst.
    cbn [walk_blocks]. destruct (load_block_spec f m Hb Hm) as [(b & -> & Hw)|[e ->]]; [|exact I].
    pose proof (iter_block_fine b is_last PFirst Hw eq_refl I) as Hf. unfold iter_block.
    destruct (iter_next (block_fo b) (block_fi b) b is_last PFirst []) as [es r]. cbn [snd] in Hf.
    destruct r as [q|e| | |]; cbn [fine] in Hf; try contradiction; [|exact I].
    specialize (IH Hr). destruct (walk_blocks crc f ies) as [es2 w]. exact IH.
  Qed.

  Lemma sst_walk_fine : forall t, sst_wf t -> wfine (snd (sst_walk crc t)).
  Proof. intros t (Hb & Hi & _). apply walk_blocks_fine; assumption. Qed.

  (* ------------------------------------------------------------ point reads *)
  Lemma cross_fine : forall f stop ies, bytes_ok f -> stop PLast = true ->
    Forall (fun km => bm_limit (snd km) <= len f) ies -> fine (cross crc f stop ies).
  Proof.
    intros f stop ies Hb Hs. induction ies as [|[k m] ies IH]; intros H; [exact I|]. inversion H as [|? ? Hm Hr]; subst.
    cbn [cross]. destruct (load_block_spec f m Hb Hm) as [(b & -> & Hw)|[e ->]]; cbn [sbind]; [|exact I].
    destruct (bc_next_spec b PFirst Hw I) as [(p1 & -> & Hrel)|[e ->]]; cbn [sbind]; [|exact I].
    pose proof (next_rel_wf b PFirst p1 I Hrel) as Hp1.
    destruct (is_at p1); [|apply IH; exact Hr].
    apply fine_bind; [apply iter_block_fine; assumption|]. intros p2 _.
    destruct (is_at p2); [exact I|apply IH; exact Hr].
  Qed.

  Lemma nth_meta_ok : forall t idx, idx < N.of_nat (length (t_index t)) ->
    exists k m, nth_error (t_index t) (N.to_nat idx) = Some (k, m) /\ nth_meta t idx = SOk m.
  Proof.
    intros t idx H. unfold nth_meta. destruct (nth_error (t_index t) (N.to_nat idx)) as [[k m]|] eqn:E.
    - exists k, m. auto.
    - apply nth_error_None in E. lia.
  Qed.

  Lemma sst_first_key_fine : forall t, sst_wf t -> fine (sst_first_key crc t).
  Proof.
    intros t (Hb & Hi & _). unfold sst_first_key. apply fine_bind; [|intros; exact I].
    apply cross_fine; [exact Hb|reflexivity|exact Hi].
  Qed.

  Lemma filter_check_some : forall (flt : Table.ModelBloom.filter) x, flt <> [] -> x < W64 ->
    exists r, Table.ModelBloom.filter_check flt x = Some r.
  Proof.
    intros flt x Hne Hx. unfold Table.ModelBloom.filter_check, Table.ModelBloom.do_hashing.
    set (n := N.of_nat (length flt)).
    assert (Hn : 0 < n) by (unfold n; destruct flt; [congruence|cbn [length]; lia]).
    assert (Hi : x / Table.ModelBloom.W32 * n / Table.ModelBloom.W32 < n).
    { change Table.ModelBloom.W32 with 4294967296. change W64 with 18446744073709551616 in Hx.
      assert (Hq : x / 4294967296 < 4294967296) by (apply N.div_lt_upper_bound; lia).
      apply N.div_lt_upper_bound; [lia|]. nia. }
    destruct (nth_error flt (N.to_nat (x / Table.ModelBloom.W32 * n / Table.ModelBloom.W32))) as [b|] eqn:E; [eexists; reflexivity|].
    apply nth_error_None in E. unfold n in *. lia.
  Qed.

  (* ------------------------------------------------------------ backwards *)
  Lemma cross_back_fine : forall f ies, bytes_ok f ->
    Forall (fun km => bm_limit (snd km) <= len f) ies -> fine (cross_back crc f ies).
  Proof.
    intros f ies Hb. induction ies as [|[k m] ies IH]; intros H; [exact I|]. inversion H as [|? ? Hm Hr]; subst.
    cbn [cross_back]. destruct (load_block_spec f m Hb Hm) as [(b & -> & Hw)|[e ->]]; cbn [sbind]; [|exact I].
    destruct (bc_prev_spec b PLast Hw I) as [Hf _].
    destruct (bc_prev b PLast) as [q|e| | |]; cbn [fine] in Hf; try contradiction; cbn [sbind]; [|exact I].
    destruct (is_at q); [exact I|apply IH; exact Hr].
  Qed.

  Lemma sst_last_key_fine : forall t, sst_wf t -> fine (sst_last_key crc t).
  Proof.
    intros t (Hb & Hi & _). unfold sst_last_key. apply fine_bind; [|intros; exact I].
    apply cross_back_fine; [exact Hb|]. apply Forall_rev. exact Hi.
  Qed.

  Lemma sst_meta_keys_fine : forall t, sst_wf t -> fine (sst_meta_keys crc t).
  Proof.
    intros t Hw. unfold sst_meta_keys. apply fine_bind; [apply sst_first_key_fine; exact Hw|]. intros a _.
    apply fine_bind; [apply sst_last_key_fine; exact Hw|]. intros; exact I.
  Qed.

  (* the backward walk never panics and never over-allocates; WFuel is not excluded *)
  Definition wno_panic (w : wend) : Prop := match w with WPanic | WHuge => False | _ => True end.

  Lemma walk_back_blocks_no_panic : forall f ies, bytes_ok f ->
    Forall (fun km => bm_limit (snd km) <= len f) ies -> wno_panic (snd (walk_back_blocks crc f ies)).
  Proof.
    intros f ies Hb. induction ies as [|[k m] ies IH]; intros H; [exact I|]. inversion H as [|? ? Hm Hr]; subst.
    cbn [walk_back_blocks]. destruct (load_block_spec f m Hb Hm) as [(b & -> & Hw)|[e ->]]; [|exact I].
    pose proof (back_loop_no_panic b Hw (4 * length (b_bytes b) + 4) PLast [] I) as Hn. unfold back_block.
    destruct (back_loop (4 * length (b_bytes b) + 4) b PLast []) as [es r]. cbn [snd] in Hn.
    destruct r as [q|e| | |]; cbn [no_panic] in Hn; try contradiction; try exact I.
    specialize (IH Hr). destruct (walk_back_blocks crc f ies) as [es2 w]. exact IH.
  Qed.

  Lemma sst_walk_back_no_panic : forall t, sst_wf t -> wno_panic (snd (sst_walk_back crc t)).
  Proof. intros t (Hb & Hi & _). apply walk_back_blocks_no_panic; [exact Hb|apply Forall_rev; exact Hi]. Qed.

  Variable sip : list N -> N.
  Variable pp : list (list N) -> list N -> N.
  Hypothesis pp_bound : forall l k, pp l k <= N.of_nat (length l).

  Lemma sc_seek_spec : forall t key, sst_wf t ->
    (exists idx o, sc_seek crc pp t key = SOk (idx, o) /\ idx <= N.of_nat (length (t_index t)) /\
       (match o return Prop with Some bp => block_wf (fst bp) /\ pos_wf (fst bp) (snd bp) | None => True end)) \/
    (exists e, sc_seek crc pp t key = SErr e).
  Proof.
    intros t key (Hb & Hi & _). unfold sc_seek.
    set (n := N.of_nat (length (t_index t))). set (idx := pp (map fst (t_index t)) key).
    assert (Hidx : idx <= n) by (unfold idx, n; rewrite <- (map_length fst); apply pp_bound).
    destruct (N.leb_spec n idx); [left; exists n, None; split; [reflexivity|split; [lia|exact I]]|].
    destruct (nth_meta_ok t idx ltac:(unfold n in *; lia)) as (k & m & Hn & ->). cbn [sbind].
    assert (Hm : bm_limit m <= len (t_file t)).
    { rewrite Forall_forall in Hi. apply (Hi (k, m)). eapply nth_error_In; eassumption. }
    destruct (load_block_spec (t_file t) m Hb Hm) as [(b & -> & Hw)|[e ->]]; cbn [sbind]; [|right; eexists; reflexivity].
    pose proof (bc_seek_fine b PFirst key Hw I) as Hf.
    destruct (bc_seek b PFirst key) as [p|e| | |] eqn:Es; cbn [fine] in Hf; try contradiction; cbn [sbind]; [|right; eexists; reflexivity].
    pose proof (bc_seek_wf b PFirst key p Hw I Es) as Hp.
    destruct (is_at p); [left; exists idx, (Some (b, p)); split; [reflexivity|split; [lia|auto]]|].
    destruct (N.leb_spec n (idx + 1)); [left; exists n, None; split; [reflexivity|split; [lia|exact I]]|].
    destruct (nth_meta_ok t (idx + 1) ltac:(unfold n in *; lia)) as (k2 & m2 & Hn2 & ->). cbn [sbind].
    assert (Hm2 : bm_limit m2 <= len (t_file t)).
    { rewrite Forall_forall in Hi. apply (Hi (k2, m2)). eapply nth_error_In; eassumption. }
    destruct (load_block_spec (t_file t) m2 Hb Hm2) as [(b2 & -> & Hw2)|[e ->]]; cbn [sbind]; [|right; eexists; reflexivity].
    pose proof (bc_seek_fine b2 PFirst key Hw2 I) as Hf2.
    destruct (bc_seek b2 PFirst key) as [p2|e| | |] eqn:Es2; cbn [fine] in Hf2; try contradiction; cbn [sbind]; [|right; eexists; reflexivity].
    left. exists (idx + 1), (Some (b2, p2)). split; [reflexivity|]. split; [lia|]. cbn [fst snd]. split; [exact Hw2|].
    apply (bc_seek_wf b2 PFirst key p2 Hw2 I Es2).
  Qed.

  Lemma lt_target_stop_last : forall key ts, (fun q => negb (lt_target key ts q)) PLast = true.
  Proof. reflexivity. Qed.

  Lemma sst_load_fine : forall t key ts, sst_wf t -> fine (sst_load crc sip pp t key ts).
  Proof.
    intros t key ts Hw. pose proof Hw as (Hb & Hi & Hflt). unfold sst_load.
    destruct (filter_check_some (t_filter t) (sip key mod W64) Hflt) as [r ->].
    { apply N.mod_lt. discriminate. }
    destruct r; [|exact I].
    destruct (sc_seek_spec t key Hw) as [(idx & o & -> & Hidx & Ho)|[e ->]]; cbn [sbind snd fst]; [|exact I].
    destruct o as [[b p]|]; [|exact I]. cbn [fst snd] in Ho. destruct Ho as [Hbw Hp].
    destruct (is_at p); [|exact I].
    apply fine_bind; [apply iter_block_fine; [exact Hbw|reflexivity|exact Hp]|]. intros p2 _.
    destruct (is_at p2); [exact I|].
    apply fine_bind; [|intros; exact I].
    apply cross_fine; [exact Hb|reflexivity|].
    rewrite Forall_forall in *. intros km Hkm. apply Hi. eapply In_skipn'. exact Hkm.
  Qed.

End Total.
