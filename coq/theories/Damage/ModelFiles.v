(* Damage/ModelFiles.v — the three kinds of persistent file under damage: what C09 observes of
   each (open, walk, point reads / LogIterator drain / ManifestIterator and Manifest::open's
   read_mani) as one function of the bytes of the file, and the damaged variants of a file.
   The log and manifest readers are those of areas Log and Mani (already models of the code on
   arbitrary bytes); the SST reader is Damage.ModelSst.  Definitions only. *)
From Coq Require Import NArith List Bool.
From Blue Require Import Gen.Const_Damage.
From Blue Require Log.ModelWire Log.Model Log.Inst Mani.Model.
From Blue Require Import Damage.ModelOps Damage.ModelSst.
Import ListNotations.
Open Scope N_scope.

(* LogIterator drained: the entries returned before the first None / Err, and how it ended.
   log_to_builder and log_to_setsum consume exactly this stream and return its error
   ([fix 9951100]: they used to unwrap it). *)
Definition log_case (crc : list N -> N) (file : list N) : list Log.ModelWire.entry * Log.Model.rend :=
  Log.Inst.log_read crc file.

(* the largest buffer LogIterator::next_frame can ask for: a frame of discriminant FIRST followed
   by one of discriminant SECOND, each of a size the header check accepts *)
Definition LOG_ALLOC_BOUND : N := 2 * DMG_TABLE_FULL_SIZE.

(* ManifestIterator collected the way `for edit in iter { let edit = edit?; .. }` consumes it:
   the edits up to the first error item *)
Fixpoint edits_until_error (items : list Mani.Model.item) : list Mani.Model.edit * option Mani.Model.err :=
  match items with
  | [] => ([], None)
  | Mani.Model.IEdit e :: r => let '(es, x) := edits_until_error r in (e :: es, x)
  | Mani.Model.IErr x :: _ => ([], Some x)
  end.

Definition mani_iter_case (crc : list N -> N) (file : list N) : list Mani.Model.edit * option Mani.Model.err :=
  let ls := Mani.Model.lines file in
  edits_until_error (Mani.Model.iter_all crc (S (length ls)) (Some ls)).

(* Manifest::open's view: read_mani of the MANIFEST file *)
Definition mani_open_case (crc : list N -> N) (file : list N) : Mani.Model.result Mani.Model.state :=
  Mani.Model.read_mani crc (Some file).

(* the damaged variants of a file *)
Definition damaged (ds : list damage) (file : list N) : list N := apply_all ds file.
