(* Damage/ProofsLog.v — the write-ahead-log reader (Log/Model.v = sst/src/log.rs) under damage.

   Everything is about a log `file1` written by the model writer (`write_log`, any number of
   batches, any sizes, any block size 2^bits > HEADER_MAX_SIZE, ANY function as crc32c) followed by
   bytes that are damaged, foreign or appended:

   (L2) log_earlier_batches_preserved, write_log_boundary, log_damage_after_boundary:
        damage never affects what precedes it — whatever follows the end of a batch (any bytes, any
        length), the reader first returns the entries of the successfully appended batches before
        it, in order, and then exactly what reading the rest from that offset gives.
   (L3) log_body_damage_detected (+ _second): an intact header over a damaged body whose CRC differs
        (explicit hypothesis on crc) ends the read with corruption-crc-checksum-failed.
   (L4) log_crc_field_damage_detected (+ _second): an intact body under a header whose stored
        checksum was changed: the same, no hypothesis on crc.
   (L5) log_zero_size_byte_detected: the header-size byte of a frame overwritten with 0 is reported
        (corruption-true-up-exceeds-header-max) when the frame starts more than HEADER_MAX_SIZE+1
        bytes before the next block boundary;
        log_zero_size_byte_refuted: otherwise it is NOT: a concrete log where a batch is silently
        dropped and the read ends cleanly (a defect of the real reader that the model reproduces).
   (L1) log_reader_allocation_bounded: every header the reader accepts has size <= TABLE_FULL_SIZE,
        so the buffer next_frame resizes grows by at most TABLE_FULL_SIZE per frame and holds at
        most 2 * TABLE_FULL_SIZE bytes (FIRST + SECOND).

   No hypothesis on `crc` except where it is written out in the statement. *)
From Coq Require Import NArith ZArith List Bool Lia Arith PeanoNat.
From Blue Require Import Gen.Const_Log Log.ModelWire Log.Model Log.ProofsWire Log.ProofsWriter
  Log.ProofsReader Log.ProofsTop Log.ProofsTotal.
From Blue Require Import Damage.ModelOps Damage.ProofsLogAux.
Import ListNotations.
Open Scope N_scope.

Ltac Zify.zify_post_hook ::= Z.to_euclidean_division_equations.

Arguments N.add : simpl never.
Arguments N.sub : simpl never.
Arguments N.mul : simpl never.
Arguments N.div : simpl never.
Arguments N.modulo : simpl never.
Arguments N.leb : simpl never.
Arguments N.ltb : simpl never.
Arguments N.eqb : simpl never.
Arguments N.pred : simpl never.
Arguments N.of_nat : simpl never.
Arguments N.to_nat : simpl never.
Arguments N.shiftl : simpl never.
Arguments N.shiftr : simpl never.
Arguments N.pow : simpl never.

Lemma firstn_eq_app : forall (l a : list N), firstn (length a) l = a -> l = a ++ skipn (length a) l.
Proof. intros l a H. rewrite <- H at 1. symmetry. apply firstn_skipn. Qed.

Section LogDamage.
  Variable bits : N.
  Variable crc : list N -> N.

  Notation nb := (next_boundary bits).
  Notation B := (2 ^ bits).
  Notation Reads := (Reads bits crc).
  Notation at_ p X := {| r_pos := p; r_rest := X; r_pend := [] |}.

  (* ================================================================ (L1) bounded allocation *)
  Lemma next_header_size_bounded : forall f pos rest h pos' rest',
    next_header bits f pos rest = HSome h pos' rest' -> h_size h <= TABLE_FULL_SIZE.
  Proof.
    induction f as [|f IH]; intros pos rest h pos' rest' H; cbn [next_header] in H; [discriminate|].
    destruct rest as [|b rest1]; [discriminate|].
    destruct (b =? 0).
    - destruct (r_true_up bits (pos + 1) rest1) as [[pos2 rest2]|]; [|discriminate].
      eapply IH. exact H.
    - destruct (HEADER_MAX_SIZE <? b); [discriminate|].
      destruct (take_exact rest1 b) as [[hb rest2]|]; [|discriminate].
      destruct (parse_header hb) as [h0|]; [|discriminate].
      destruct (N.ltb_spec TABLE_FULL_SIZE (h_size h0)) as [E|E]; [discriminate|].
      inversion H; subst. exact E.
  Qed.

  Lemma next_frame_alloc : forall hf pos rest buf h pos' rest' buf',
    next_frame bits crc hf pos rest buf = FrSome h pos' rest' buf' ->
    h_size h <= TABLE_FULL_SIZE /\ len buf' = len buf + h_size h.
  Proof.
    intros hf pos rest buf h pos' rest' buf' H. unfold next_frame in H.
    destruct (next_header bits hf pos rest) as [| | |h1 pos1 rest1] eqn:NH; try discriminate.
    apply next_header_size_bounded in NH.
    destruct (take_exact rest1 (h_size h1)) as [[body rest2]|] eqn:X; [|discriminate].
    apply take_exact_some in X. destruct X as [_ Hl].
    destruct (crc32 crc body =? h_crc h1); [|discriminate].
    inversion H; subst. split; [exact NH|]. rewrite len_app. lia.
  Qed.

  (* the statement asked for: the header bound; the growth of the buffer in one next_frame; the
     two-frame bound on the buffer LogIterator::next hands to next_from_buffer *)
  Theorem log_reader_allocation_bounded :
    (forall f pos rest h pos' rest',
       next_header bits f pos rest = HSome h pos' rest' -> h_size h <= TABLE_FULL_SIZE) /\
    (forall hf pos rest buf h pos' rest' buf',
       next_frame bits crc hf pos rest buf = FrSome h pos' rest' buf' ->
       len buf' <= len buf + TABLE_FULL_SIZE /\ len buf' - len buf = h_size h) /\
    (forall hf pos rest h1 pos1 rest1 buf1 pos2 rest2 h2 pos3 rest3 buf3,
       next_frame bits crc hf pos rest [] = FrSome h1 pos1 rest1 buf1 ->
       next_frame bits crc hf pos2 rest2 buf1 = FrSome h2 pos3 rest3 buf3 ->
       len buf1 <= TABLE_FULL_SIZE /\ len buf3 <= 2 * TABLE_FULL_SIZE).
  Proof.
    split; [exact next_header_size_bounded|]. split.
    - intros hf pos rest buf h pos' rest' buf' H.
      destruct (next_frame_alloc _ _ _ _ _ _ _ _ H) as [H1 H2]. lia.
    - intros hf pos rest h1 pos1 rest1 buf1 pos2 rest2 h2 pos3 rest3 buf3 F1 F2.
      destruct (next_frame_alloc _ _ _ _ _ _ _ _ F1) as [H1 H2].
      destruct (next_frame_alloc _ _ _ _ _ _ _ _ F2) as [H3 H4].
      rewrite len_nil in H2. lia.
  Qed.

  Hypothesis HB : HEADER_MAX_SIZE < 2 ^ bits.

  (* ================================================================ (L2) what precedes the damage *)

  (* from the loop relation on the rest to read_log on the whole file *)
  Lemma read_log_after : forall rollover ess rs file X hf es2 r2,
    Forall (Forall wf_entry) ess ->
    write_log bits crc rollover (map ebytes ess) = (rs, file) ->
    (length X < hf)%nat ->
    Reads hf (at_ (len file) X) es2 r2 ->
    read_log bits crc (file ++ X) = (concat (ok_batches rs ess) ++ es2, r2).
  Proof.
    intros rollover ess rs file X hf es2 r2 Hes H Hhf HRX. unfold write_log in H.
    destruct (append_all bits crc rollover w0 (map ebytes ess)) as [rs0 st'] eqn:E.
    inversion H; subst rs0 file. clear H.
    destruct (read_written_then bits crc HB rollover ess w0 rs st' wf_w0 Hes E) as (Hwf' & S & HS & HR).
    change (w_file w0) with (@nil N) in HS. cbn [app] in HS. subst S.
    set (F := w_file st' ++ X) in *.
    assert (HRX' : Reads (S (length F)) (at_ (w_bw st') X) es2 r2).
    { unfold wf_w in Hwf'. rewrite Hwf'.
      apply (reads_fuel bits crc hf _ _ _ HRX); cbn [r_rest]; [exact Hhf|].
      unfold F. rewrite app_length. lia. }
    pose proof (HR X (S (length F)) es2 r2 (Nat.lt_succ_diag_r _) HRX') as HRF.
    change (w_bw w0) with 0 in HRF.
    destruct (read_log_total bits crc F) as (es & r & EL & Hr & _).
    rewrite EL. unfold read_log in EL.
    pose proof (read_all_reads bits crc _ _ _ _ _ EL Hr) as HRL.
    destruct (reads_det bits crc _ _ _ _ HRL _ _ HRF) as [-> ->]. reflexivity.
  Qed.

  (* (L2) For a log written by the model writer and ANY bytes X after it (a damaged tail, another
     file, garbage, nothing): the entries of the successfully appended batches come out first, in
     order; the reader does not run out of fuel; and what follows (es2, r2) is what reading X from
     stream position `len file` with an empty buffer gives, as the loop relation `Reads` and as the
     function `read_all`, for every sufficient fuel. *)
  Theorem log_earlier_batches_preserved : forall rollover ess rs file X,
    Forall (Forall wf_entry) ess ->
    write_log bits crc rollover (map ebytes ess) = (rs, file) ->
    exists es2 r2,
      read_log bits crc (file ++ X) = (concat (ok_batches rs ess) ++ es2, r2) /\ r2 <> RFuel /\
      (forall hf, (length X < hf)%nat -> Reads hf (at_ (len file) X) es2 r2) /\
      (forall hf fuel, (length X < hf)%nat -> (length X < fuel)%nat ->
         read_all bits crc hf fuel (at_ (len file) X) = (es2, r2)).
  Proof.
    intros rollover ess rs file X Hes H.
    set (st := at_ (len file) X).
    destruct (read_all_total bits crc (S (length X)) (S (length X)) st) as (es2 & r2 & E & Hr & Hl).
    { cbn [st r_rest]. apply Nat.lt_succ_diag_r. }
    { unfold mu. cbn [st r_rest r_pend length]. lia. }
    unfold mu in Hl. cbn [st r_rest r_pend length] in Hl.
    pose proof (read_all_reads bits crc _ _ _ _ _ E Hr) as HR0.
    assert (HRall : forall hf, (length X < hf)%nat -> Reads hf st es2 r2).
    { intros hf Hhf. apply (reads_fuel bits crc _ _ _ _ HR0); cbn [st r_rest]; [apply Nat.lt_succ_diag_r|exact Hhf]. }
    exists es2, r2. split; [|split; [exact Hr|split; [exact HRall|]]].
    - apply (read_log_after rollover ess rs file X (S (length X)) es2 r2 Hes H (Nat.lt_succ_diag_r _) HR0).
    - intros hf fuel Hhf Hfuel. apply (reads_read_all bits crc HB _ _ _ _ (HRall hf Hhf)). lia.
  Qed.

  Lemma append_all_file_ext : forall rollover bufs st rs st',
    wf_w st -> append_all bits crc rollover st bufs = (rs, st') ->
    wf_w st' /\ exists S, w_file st' = w_file st ++ S.
  Proof.
    intros rollover bufs. induction bufs as [|b bufs IH]; intros st rs st' Hwf H.
    - cbn [append_all] in H. inversion H; subst. split; [exact Hwf|]. exists []. now rewrite app_nil_r.
    - rewrite append_all_cons in H.
      destruct (append bits crc rollover st b) as [r st1] eqn:E1.
      destruct (append_all bits crc rollover st1 bufs) as [rs' st2] eqn:E2.
      inversion H; subst.
      destruct (append_spec bits crc HB rollover st b r st1 Hwf E1) as [Hwf1 Hr1].
      destruct (IH st1 rs' st' Hwf1 E2) as (Hwf' & S' & HS'). split; [exact Hwf'|].
      destruct r; try contradiction.
      + destruct Hr1 as (_ & _ & k & c & _ & _ & Hf). exists (zeros k ++ c ++ S').
        rewrite HS', Hf. now rewrite <- !app_assoc.
      + destruct Hr1 as (k & _ & Hf & _). exists (zeros k ++ S'). rewrite HS', Hf. now rewrite <- app_assoc.
  Qed.

  (* every batch boundary of a longer log is the end of a log: the log of the first batches is a
     byte prefix of the log of all of them, with the same per-append results, and its successfully
     appended batches are a prefix of those of the longer log *)
  Theorem write_log_boundary : forall rollover ess1 ess2 rs file,
    write_log bits crc rollover (map ebytes (ess1 ++ ess2)) = (rs, file) ->
    exists rs1 file1 S,
      write_log bits crc rollover (map ebytes ess1) = (rs1, file1) /\
      file = file1 ++ S /\ rs1 = firstn (length ess1) rs /\
      ok_batches rs (ess1 ++ ess2) = ok_batches rs1 ess1 ++ ok_batches (skipn (length ess1) rs) ess2.
  Proof.
    intros rollover ess1 ess2 rs file H. unfold write_log in *.
    rewrite map_app, append_all_app in H.
    destruct (append_all bits crc rollover w0 (map ebytes ess1)) as [rs1 st1] eqn:E1.
    destruct (append_all bits crc rollover st1 (map ebytes ess2)) as [rs2 st2] eqn:E2.
    inversion H; subst rs file. clear H.
    destruct (append_all_file_ext _ _ _ _ _ wf_w0 E1) as [Hwf1 _].
    destruct (append_all_file_ext _ _ _ _ _ Hwf1 E2) as (_ & S & HS).
    pose proof (append_all_length bits crc _ _ _ _ _ E1) as HL. rewrite map_length in HL.
    exists rs1, (w_file st1), S. split; [reflexivity|]. split; [exact HS|].
    rewrite <- HL. split.
    - rewrite firstn_app, Nat.sub_diag, firstn_all. cbn [firstn]. now rewrite app_nil_r.
    - rewrite skipn_app, Nat.sub_diag, skipn_all. cbn [skipn app].
      apply ok_batches_app. exact HL.
  Qed.

  (* the log of the first batches, then anything: a file that agrees with file1 on its first
     `length file1` bytes — every flip, overwrite, truncation point or extension at or after that
     offset *)
  Theorem log_damage_after_prefix : forall rollover ess1 rs1 file1 f',
    Forall (Forall wf_entry) ess1 ->
    write_log bits crc rollover (map ebytes ess1) = (rs1, file1) ->
    firstn (length file1) f' = file1 ->
    exists es2 r2,
      read_log bits crc f' = (concat (ok_batches rs1 ess1) ++ es2, r2) /\ r2 <> RFuel /\
      (forall hf, (length (skipn (length file1) f') < hf)%nat ->
         Reads hf (at_ (len file1) (skipn (length file1) f')) es2 r2).
  Proof.
    intros rollover ess1 rs1 file1 f' Hes H Hf.
    destruct (log_earlier_batches_preserved rollover ess1 rs1 file1 (skipn (length file1) f') Hes H)
      as (es2 & r2 & HR & Hr & HRd & _).
    exists es2, r2. rewrite <- (firstn_eq_app f' file1 Hf) in HR. split; [exact HR|]. split; [exact Hr|exact HRd].
  Qed.

  (* (L2, corollary) a log of batches ess1 ++ ess2 damaged anywhere at or after the end of the
     last batch of ess1: the entries of the successfully appended batches of ess1 come out first,
     in order (they are the first ones of the undamaged log), then what reading the damaged rest
     from that offset gives. *)
  Theorem log_damage_after_boundary : forall rollover ess1 ess2 rs file,
    Forall (Forall wf_entry) ess1 ->
    write_log bits crc rollover (map ebytes (ess1 ++ ess2)) = (rs, file) ->
    exists rs1 file1,
      write_log bits crc rollover (map ebytes ess1) = (rs1, file1) /\
      rs1 = firstn (length ess1) rs /\ firstn (length file1) file = file1 /\
      (exists rest, ok_batches rs (ess1 ++ ess2) = ok_batches rs1 ess1 ++ rest) /\
      forall f', firstn (length file1) f' = file1 ->
        exists es2 r2,
          read_log bits crc f' = (concat (ok_batches rs1 ess1) ++ es2, r2) /\ r2 <> RFuel /\
          (forall hf, (length (skipn (length file1) f') < hf)%nat ->
             Reads hf (at_ (len file1) (skipn (length file1) f')) es2 r2).
  Proof.
    intros rollover ess1 ess2 rs file Hes H.
    destruct (write_log_boundary rollover ess1 ess2 rs file H) as (rs1 & file1 & S & H1 & HF & Hrs & Hok).
    exists rs1, file1. split; [exact H1|]. split; [exact Hrs|]. split.
    { rewrite HF, firstn_app, Nat.sub_diag, firstn_all. cbn [firstn]. now rewrite app_nil_r. }
    split; [eexists; exact Hok|].
    intros f' Hf. exact (log_damage_after_prefix rollover ess1 rs1 file1 f' Hes H1 Hf).
  Qed.

  (* ================================================================ one failing step after a log *)
  Lemma read_log_after_err : forall rollover ess rs file k R e,
    Forall (Forall wf_entry) ess ->
    write_log bits crc rollover (map ebytes ess) = (rs, file) ->
    pad_at bits (len file) k ->
    (forall hf, exists st', next bits crc (S hf) (at_ (len file + k) R) = NErr e st') ->
    read_log bits crc (file ++ zeros k ++ R) = (concat (ok_batches rs ess), RErr e).
  Proof.
    intros rollover ess rs file k R e Hes H Hpad Hstep.
    rewrite <- (app_nil_r (concat (ok_batches rs ess))).
    apply (read_log_after rollover ess rs file (zeros k ++ R) (S (length (zeros k ++ R))) [] (RErr e) Hes H
             (Nat.lt_succ_diag_r _)).
    destruct (Hstep (length (zeros k ++ R))) as [st' Hst].
    apply (ReadsErr bits crc _ _ e st').
    rewrite (next_skip_pad bits crc HB _ _ _ _ Hpad (Nat.lt_succ_diag_r _)). exact Hst.
  Qed.

  (* ================================================================ (L3)/(L4) a frame whose checksum does not match *)
  (* an intact header h (any header the codec round-trips) in front of a body of the announced
     length whose checksum is not the stored one *)
  Lemma next_frame_bad_crc : forall f p h b' Y buf,
    header_ok h -> h_size h <= TABLE_FULL_SIZE -> len b' = h_size h -> crc32 crc b' <> h_crc h ->
    exists p' r', next_frame bits crc (S f) p (header_frame h ++ b' ++ Y) buf = FrErr ECrc p' r'.
  Proof.
    intros f p h b' Y buf Hok Hsz Hl Hc. unfold next_frame.
    rewrite (next_header_frame bits crc HB) by assumption.
    rewrite <- Hl, take_exact_app.
    destruct (N.eqb_spec (crc32 crc b') (h_crc h)) as [E|E]; [contradiction|do 2 eexists; reflexivity].
  Qed.

  Lemma next_bad_crc : forall f p h b' Y,
    header_ok h -> h_size h <= TABLE_FULL_SIZE -> len b' = h_size h -> crc32 crc b' <> h_crc h ->
    exists st', next bits crc (S f) (at_ p (header_frame h ++ b' ++ Y)) = NErr ECrc st'.
  Proof.
    intros f p h b' Y Hok Hsz Hl Hc. unfold next. cbn [r_pend r_pos r_rest].
    destruct (next_frame_bad_crc f p h b' Y [] Hok Hsz Hl Hc) as (p' & r' & ->). eexists. reflexivity.
  Qed.

  (* the same as the SECOND frame of a split batch: intact first frame, padding to the boundary *)
  Lemma next_bad_crc_second : forall f p first k2 h b' Y,
    len first <= TABLE_FULL_SIZE ->
    k2 <= HEADER_MAX_SIZE -> (p + len (frame crc HEADER_FIRST first) + k2) mod B = 0 ->
    header_ok h -> h_size h <= TABLE_FULL_SIZE -> len b' = h_size h -> crc32 crc b' <> h_crc h ->
    exists st', next bits crc (S f) (at_ p (frame crc HEADER_FIRST first ++ zeros k2 ++ header_frame h ++ b' ++ Y))
    = NErr ECrc st'.
  Proof.
    intros f p first k2 h b' Y Hl1 Hk2 Hmod Hok Hsz Hl Hc.
    destruct disc_small as (HdW & HdF & HdS).
    destruct (disc_eqs) as (E1 & E2 & E3 & E4).
    unfold next. cbn [r_pend r_pos r_rest].
    rewrite (next_frame_full bits crc HB) by assumption. cbn [h_disc hdr]. rewrite E2, E3. cbn [app].
    rewrite (r_true_up_pad bits crc HB _ k2) by assumption.
    rewrite drop_zeros.
    destruct (next_frame_bad_crc f (p + len (frame crc HEADER_FIRST first) + k2) h b' Y ([] ++ first) Hok Hsz Hl Hc) as (p' & r' & E).
    cbn [app] in E. rewrite E. eexists. reflexivity.
  Qed.

  (* general form: first frame after the log *)
  Theorem log_frame_crc_mismatch_detected : forall rollover ess1 rs1 file1 k h b' Y,
    Forall (Forall wf_entry) ess1 ->
    write_log bits crc rollover (map ebytes ess1) = (rs1, file1) ->
    pad_at bits (len file1) k ->
    header_ok h -> h_size h <= TABLE_FULL_SIZE -> len b' = h_size h -> crc32 crc b' <> h_crc h ->
    read_log bits crc (file1 ++ zeros k ++ header_frame h ++ b' ++ Y)
    = (concat (ok_batches rs1 ess1), RErr ECrc).
  Proof.
    intros rollover ess1 rs1 file1 k h b' Y Hes H Hpad Hok Hsz Hl Hc.
    apply (read_log_after_err rollover ess1 rs1 file1 k _ ECrc Hes H Hpad).
    intros hf. now apply next_bad_crc.
  Qed.

  (* general form: second frame of a split batch after the log *)
  Theorem log_second_frame_crc_mismatch_detected : forall rollover ess1 rs1 file1 k first k2 h b' Y,
    Forall (Forall wf_entry) ess1 ->
    write_log bits crc rollover (map ebytes ess1) = (rs1, file1) ->
    pad_at bits (len file1) k ->
    len first <= TABLE_FULL_SIZE ->
    k2 <= HEADER_MAX_SIZE -> (len file1 + k + len (frame crc HEADER_FIRST first) + k2) mod B = 0 ->
    header_ok h -> h_size h <= TABLE_FULL_SIZE -> len b' = h_size h -> crc32 crc b' <> h_crc h ->
    read_log bits crc (file1 ++ zeros k ++ frame crc HEADER_FIRST first ++ zeros k2 ++ header_frame h ++ b' ++ Y)
    = (concat (ok_batches rs1 ess1), RErr ECrc).
  Proof.
    intros rollover ess1 rs1 file1 k first k2 h b' Y Hes H Hpad Hl1 Hk2 Hmod Hok Hsz Hl Hc.
    apply (read_log_after_err rollover ess1 rs1 file1 k _ ECrc Hes H Hpad).
    intros hf. now apply next_bad_crc_second.
  Qed.

  Lemma hdr_ok_tfs : forall disc b, disc < 128 -> len b <= TABLE_FULL_SIZE -> header_ok (hdr crc disc b).
  Proof. intros disc b Hd Hb. apply hdr_ok; [exact Hd|]. pose proof tfs_lt. lia. Qed.

  (* (L3) intact header, damaged body.  Stated for EVERY discriminant < 128, which covers
     HEADER_WHOLE and HEADER_FIRST (the first frame read from an empty buffer; see the
     instantiations below): the check happens in next_frame before the discriminant is looked at.
     `crc32 crc b' <> crc32 crc b` is the explicit hypothesis on the checksum function: the damage
     is one that the checksum distinguishes. *)
  Theorem log_body_damage_detected : forall rollover ess1 rs1 file1 k disc b b' Y,
    Forall (Forall wf_entry) ess1 ->
    write_log bits crc rollover (map ebytes ess1) = (rs1, file1) ->
    pad_at bits (len file1) k ->
    disc < 128 -> len b <= TABLE_FULL_SIZE -> len b' = len b ->
    crc32 crc b' <> crc32 crc b ->
    read_log bits crc (file1 ++ zeros k ++ header_frame (hdr crc disc b) ++ b' ++ Y)
    = (concat (ok_batches rs1 ess1), RErr ECrc).
  Proof.
    intros rollover ess1 rs1 file1 k disc b b' Y Hes H Hpad Hd Hb Hl Hc.
    apply (log_frame_crc_mismatch_detected rollover ess1 rs1 file1 k (hdr crc disc b) b' Y Hes H Hpad);
      [now apply hdr_ok_tfs|exact Hb|exact Hl|exact Hc].
  Qed.

  Corollary log_body_damage_detected_whole_first : forall rollover ess1 rs1 file1 k b b' Y,
    Forall (Forall wf_entry) ess1 ->
    write_log bits crc rollover (map ebytes ess1) = (rs1, file1) ->
    pad_at bits (len file1) k ->
    len b <= TABLE_FULL_SIZE -> len b' = len b -> crc32 crc b' <> crc32 crc b ->
    read_log bits crc (file1 ++ zeros k ++ header_frame (hdr crc HEADER_WHOLE b) ++ b' ++ Y)
    = (concat (ok_batches rs1 ess1), RErr ECrc) /\
    read_log bits crc (file1 ++ zeros k ++ header_frame (hdr crc HEADER_FIRST b) ++ b' ++ Y)
    = (concat (ok_batches rs1 ess1), RErr ECrc).
  Proof.
    intros rollover ess1 rs1 file1 k b b' Y Hes H Hpad Hb Hl Hc.
    destruct disc_small as (HdW & HdF & HdS).
    split; apply (log_body_damage_detected rollover ess1 rs1 file1 k _ b b' Y); assumption.
  Qed.

  (* (L3, SECOND) the damaged second frame of a split batch: intact first frame, padding k2 up to
     the block boundary, intact second header, damaged second body *)
  Theorem log_body_damage_detected_second : forall rollover ess1 rs1 file1 k first k2 second second' Y,
    Forall (Forall wf_entry) ess1 ->
    write_log bits crc rollover (map ebytes ess1) = (rs1, file1) ->
    pad_at bits (len file1) k ->
    len first <= TABLE_FULL_SIZE ->
    k2 <= HEADER_MAX_SIZE -> (len file1 + k + len (frame crc HEADER_FIRST first) + k2) mod B = 0 ->
    len second <= TABLE_FULL_SIZE -> len second' = len second ->
    crc32 crc second' <> crc32 crc second ->
    read_log bits crc (file1 ++ zeros k ++ frame crc HEADER_FIRST first ++ zeros k2
                       ++ header_frame (hdr crc HEADER_SECOND second) ++ second' ++ Y)
    = (concat (ok_batches rs1 ess1), RErr ECrc).
  Proof.
    intros rollover ess1 rs1 file1 k first k2 second second' Y Hes H Hpad Hl1 Hk2 Hmod Hl2 Hl Hc.
    destruct disc_small as (HdW & HdF & HdS).
    apply (log_second_frame_crc_mismatch_detected rollover ess1 rs1 file1 k first k2
             (hdr crc HEADER_SECOND second) second' Y Hes H Hpad Hl1 Hk2 Hmod);
      [now apply hdr_ok_tfs|exact Hl2|exact Hl|exact Hc].
  Qed.

  Lemma crc_hdr_ok : forall disc b c', disc < 128 -> len b <= TABLE_FULL_SIZE -> c' < W32 ->
    header_ok {| h_size := len b; h_disc := disc; h_crc := c' |}.
  Proof.
    intros disc b c' Hd Hb Hc. unfold header_ok. cbn [h_size h_disc h_crc].
    pose proof tfs_lt. repeat split; try assumption. lia.
  Qed.

  (* (L4) intact body, the stored checksum changed to any other 32-bit value: detected, whatever
     the checksum function is *)
  Theorem log_crc_field_damage_detected : forall rollover ess1 rs1 file1 k disc b c' Y,
    Forall (Forall wf_entry) ess1 ->
    write_log bits crc rollover (map ebytes ess1) = (rs1, file1) ->
    pad_at bits (len file1) k ->
    disc < 128 -> len b <= TABLE_FULL_SIZE -> c' < W32 -> c' <> crc32 crc b ->
    read_log bits crc (file1 ++ zeros k ++ header_frame {| h_size := len b; h_disc := disc; h_crc := c' |} ++ b ++ Y)
    = (concat (ok_batches rs1 ess1), RErr ECrc).
  Proof.
    intros rollover ess1 rs1 file1 k disc b c' Y Hes H Hpad Hd Hb Hc Hne.
    apply (log_frame_crc_mismatch_detected rollover ess1 rs1 file1 k _ b Y Hes H Hpad);
      [now apply crc_hdr_ok|exact Hb|reflexivity|cbn [h_crc]; congruence].
  Qed.

  Theorem log_crc_field_damage_detected_second : forall rollover ess1 rs1 file1 k first k2 second c' Y,
    Forall (Forall wf_entry) ess1 ->
    write_log bits crc rollover (map ebytes ess1) = (rs1, file1) ->
    pad_at bits (len file1) k ->
    len first <= TABLE_FULL_SIZE ->
    k2 <= HEADER_MAX_SIZE -> (len file1 + k + len (frame crc HEADER_FIRST first) + k2) mod B = 0 ->
    len second <= TABLE_FULL_SIZE -> c' < W32 -> c' <> crc32 crc second ->
    read_log bits crc (file1 ++ zeros k ++ frame crc HEADER_FIRST first ++ zeros k2
                       ++ header_frame {| h_size := len second; h_disc := HEADER_SECOND; h_crc := c' |}
                       ++ second ++ Y)
    = (concat (ok_batches rs1 ess1), RErr ECrc).
  Proof.
    intros rollover ess1 rs1 file1 k first k2 second c' Y Hes H Hpad Hl1 Hk2 Hmod Hl2 Hc Hne.
    destruct disc_small as (HdW & HdF & HdS).
    apply (log_second_frame_crc_mismatch_detected rollover ess1 rs1 file1 k first k2 _ second Y Hes H Hpad Hl1 Hk2 Hmod);
      [now apply crc_hdr_ok|exact Hl2|reflexivity|cbn [h_crc]; congruence].
  Qed.

  (* ================================================================ (L5) the size byte overwritten with 0 *)
  (* a zero byte where a header is expected, more than HEADER_MAX_SIZE+1 bytes before the boundary *)
  Lemma next_zero_far : forall f p T,
    HEADER_MAX_SIZE + 1 < nb p - p ->
    exists st', next bits crc (S f) (at_ p (0 :: T)) = NErr ETrueUp st'.
  Proof.
    intros f p T Hfar. unfold next, next_frame. cbn [r_pend r_pos r_rest].
    rewrite (next_header_S bits). cbv zeta. change (0 =? 0) with true. cbv iota.
    unfold r_true_up.
    assert (Htu : compute_true_up bits (p + 1) = nb p).
    { apply true_up_unique; [apply nb_mod|lia|]. pose proof (nb_le bits p). lia. }
    rewrite Htu.
    destruct (N.ltb_spec HEADER_MAX_SIZE (nb p - (p + 1))) as [E|E]; [eexists; reflexivity|lia].
  Qed.

  (* general form: ANY zero byte where the next frame header should start *)
  Theorem log_zero_byte_far_from_boundary_detected : forall rollover ess1 rs1 file1 k T,
    Forall (Forall wf_entry) ess1 ->
    write_log bits crc rollover (map ebytes ess1) = (rs1, file1) ->
    pad_at bits (len file1) k ->
    HEADER_MAX_SIZE + 1 < nb (len file1 + k) - (len file1 + k) ->
    read_log bits crc (file1 ++ zeros k ++ 0 :: T) = (concat (ok_batches rs1 ess1), RErr ETrueUp).
  Proof.
    intros rollover ess1 rs1 file1 k T Hes H Hpad Hfar.
    apply (read_log_after_err rollover ess1 rs1 file1 k _ ETrueUp Hes H Hpad).
    intros hf. now apply next_zero_far.
  Qed.

  (* (L5, the `_outside_known` half) the first byte (the header size) of the frame that follows the
     log overwritten with 0, the frame starting at p = len file1 + k more than HEADER_MAX_SIZE+1
     bytes before the next block boundary: reported as corruption-true-up-exceeds-header-max.
     (Nothing about disc, b or Y is needed.) *)
  Theorem log_zero_size_byte_detected : forall rollover ess1 rs1 file1 k disc b Y,
    Forall (Forall wf_entry) ess1 ->
    write_log bits crc rollover (map ebytes ess1) = (rs1, file1) ->
    pad_at bits (len file1) k ->
    HEADER_MAX_SIZE + 1 < nb (len file1 + k) - (len file1 + k) ->
    read_log bits crc (file1 ++ zeros k ++ (0 :: tl (frame crc disc b)) ++ Y)
    = (concat (ok_batches rs1 ess1), RErr ETrueUp).
  Proof.
    intros rollover ess1 rs1 file1 k disc b Y Hes H Hpad Hfar. cbn [app].
    now apply (log_zero_byte_far_from_boundary_detected rollover ess1 rs1 file1 k).
  Qed.
End LogDamage.

(* ================================================================ (L5) the other half: NOT detected *)
(* When the frame starts within HEADER_MAX_SIZE+1 bytes of the next block boundary, a zero in its
   header-size byte is indistinguishable from the writer's padding: the reader trues up to the
   boundary, skips the whole frame and carries on with the next batch.  Witness: 64-byte blocks
   (bits = 6 > log2 HEADER_MAX_SIZE), a toy checksum, three batches of one entry each; the frame of
   the second batch is a WHOLE frame occupying [45, 63) of the file, the third batch starts on the
   boundary 64.  Overwriting byte 45 (the header size, 9) with 0 makes the reader return the entry
   of batch 1, then the entry of batch 3, then a clean end: batch 2 is silently dropped from the
   MIDDLE of the log — neither detected nor harmless, and what is returned is not a prefix of the
   log.  The real LogIterator does the same (this is a defect of the code, not of the model). *)
Definition zx_crc (l : list N) : N := fold_left (fun a b => a * 31 + b + 7) l 5.
Definition zx_del (k : list N) (ts : N) : entry := {| e_key := k; e_ts := ts; e_val := None |}.
Definition zx_b1 : list entry :=
  [zx_del [1;2;3;4;5;6;7;8;9;10;11;12;13;14;15;16;17;18;19;20;21;22;23;24;25;26;27] 1].
Definition zx_b2 : list entry := [zx_del [] 2].
Definition zx_b3 : list entry := [zx_del [7] 3].
Definition zx_rollover : N := 1073741824.    (* LogOptions::default() (Log.Inst.DEFAULT_ROLLOVER) *)

Theorem log_zero_size_byte_refuted :
  exists (bits : N) (crc : list N -> N) (rollover : N) (b1 b2 b3 : list entry) (file : list N) (i : N),
    HEADER_MAX_SIZE < 2 ^ bits /\
    Forall (Forall wf_entry) [b1; b2; b3] /\
    (* the log, all three appends Ok; i is where the first batch ends *)
    write_log bits crc rollover (map ebytes [b1; b2; b3]) = ([(WOk, i); (WOk, 63); (WOk, 83)], file) /\
    (* from byte i on: the WHOLE frame of batch 2, one byte of padding, the WHOLE frame of batch 3 *)
    skipn (N.to_nat i) file
      = frame crc HEADER_WHOLE (ebytes b2) ++ zeros 1 ++ frame crc HEADER_WHOLE (ebytes b3) /\
    nth_error file (N.to_nat i) = Some 9 /\
    (* the frame starts within HEADER_MAX_SIZE + 1 bytes of the boundary: the case excluded by
       log_zero_size_byte_detected *)
    next_boundary bits i - i <= HEADER_MAX_SIZE + 1 /\
    read_log bits crc file = (b1 ++ b2 ++ b3, REnd) /\
    read_log bits crc (overwrite i 0 file) = (b1 ++ b3, REnd) /\
    b2 <> [] /\ b1 ++ b3 <> b1 ++ b2 ++ b3 /\
    ~ (exists t, (b1 ++ b3) ++ t = b1 ++ b2 ++ b3).
Proof.
  exists 6, zx_crc, zx_rollover, zx_b1, zx_b2, zx_b3.
  eexists. exists 45.
  split; [reflexivity|].
  split; [repeat constructor; vm_compute; try discriminate|].
  split; [vm_compute; reflexivity|].
  split; [vm_compute; reflexivity|].
  split; [vm_compute; reflexivity|].
  split; [vm_compute; discriminate|].
  split; [vm_compute; reflexivity|].
  split; [vm_compute; reflexivity|].
  split; [discriminate|].
  split; [vm_compute; discriminate|].
  intros [t E]. vm_compute in E. discriminate.
Qed.

(* the hypotheses of the detection theorems are satisfiable, and the model computes what they say:
   128-byte blocks, the log of batch zx_b1 (45 bytes), then the frame of batch zx_b2 with its size
   byte zeroed / one body byte changed / its stored checksum changed *)
Example log_damage_detected_examples :
  let bits := 7 in
  let '(rs1, file1) := write_log bits zx_crc zx_rollover (map ebytes [zx_b1]) in
  let b := ebytes zx_b2 in
  let b' := overwrite 7 3 b in
  pad_at bits (len file1) 0 /\
  HEADER_MAX_SIZE + 1 < next_boundary bits (len file1 + 0) - (len file1 + 0) /\
  concat (ok_batches rs1 [zx_b1]) = zx_b1 /\
  read_log bits zx_crc (file1 ++ zeros 0 ++ (0 :: tl (frame zx_crc HEADER_WHOLE b)) ++ [1; 2; 3])
    = (zx_b1, RErr ETrueUp) /\
  len b' = len b /\ crc32 zx_crc b' <> crc32 zx_crc b /\
  read_log bits zx_crc (file1 ++ zeros 0 ++ header_frame (hdr zx_crc HEADER_WHOLE b) ++ b' ++ [1; 2; 3])
    = (zx_b1, RErr ECrc) /\
  crc32 zx_crc b + 1 < W32 /\
  read_log bits zx_crc (file1 ++ zeros 0 ++
      header_frame {| h_size := len b; h_disc := HEADER_WHOLE; h_crc := crc32 zx_crc b + 1 |} ++ b ++ [1; 2; 3])
    = (zx_b1, RErr ECrc).
Proof.
  vm_compute. split; [left; reflexivity|].
  repeat split; try reflexivity; discriminate.
Qed.
