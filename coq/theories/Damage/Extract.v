(* Extraction of the executable damage model for the correspondence check.
   Directives in force: those of ExtrOcamlBasic only (N, Z, positive, nat stay inductive). *)
From Coq Require Import NArith ZArith List.
From Blue Require Import Wire.Model Wire.ModelMsg Damage.ModelOps Damage.ModelSst Damage.ModelFiles.
From Blue Require Log.ModelWire Log.Model Mani.Model.
Require Import ExtrOcamlBasic.
Extraction Language OCaml.
Extraction "../ocaml/damage/gen_damage.ml" sst_case block_case log_case mani_iter_case mani_open_case
  damaged damage_ok lex_cmp flds_nums vars_nums BM FB KVPUT KVDEL KVE SSTENTRY LOG_ALLOC_BOUND
  N.of_nat N.to_nat Z.to_N Z.of_N.
